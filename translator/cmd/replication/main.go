// replication: translates the data of /repo/replication that property C19 depends on into
// coq/gen/GenReplication.v:
//   - the first sequence number each XStateAt entry point searches from (stater.Min),
//   - the directory names (Dir methods),
//   - the fmt.Sprintf format strings and integer argument expressions of baseSeqURL and
//     baseChangesetURL, the file suffixes and the current-state formats,
//   - the changeset sequence-number correction of fetchChangesetState,
//   - the accepted time formats.
//
// usage: replication <repo> <outdir>
package main

import (
	"bytes"
	"encoding/json"
	"fmt"
	"go/ast"
	"go/constant"
	"go/token"
	"os"
	"os/exec"
	"path/filepath"
	"regexp"
	"sort"
	"strconv"
	"strings"

	"verif/translator/tr"
)

const canonURL = "Definition %s_format : string := \"%%s/replication/%%s/%%03d/%%03d/%%03d\".\nDefinition %s_args (n : Z) : list Z := [(Z.quot n 1000000); (Z.quot (Z.rem n 1000000) 1000); (Z.rem n 1000)]."

// canonical: the definitions the planet layout asks for; used when the source no longer has the
// shape the syntactic translation knows, and then checked against the behaviour samples
var canonical = map[string]string{
	"seq_url":                  fmt.Sprintf(canonURL, "seq_url", "seq_url"),
	"changeset_url":            fmt.Sprintf(canonURL, "changeset_url", "changeset_url"),
	"seq_state_suffix":         "Definition seq_state_suffix : string := \".state.txt\".",
	"seq_data_suffix":          "Definition seq_data_suffix : string := \".osc.gz\".",
	"changeset_state_suffix":   "Definition changeset_state_suffix : string := \".state.txt\".",
	"changeset_data_suffix":    "Definition changeset_data_suffix : string := \".osm.gz\".",
	"seq_current_format":       "Definition seq_current_format : string := \"%s/replication/%s/state.txt\".",
	"changeset_current_format": "Definition changeset_current_format : string := \"%s/replication/%s/state.yaml\".",
	"changeset_seq_fix":        "Definition changeset_seq_fix (n file_seq : Z) : Z := if Z.eqb n 0 then (Z.add file_seq 1) else n.",
}

type gen struct {
	p    *tr.Pkg
	b    bytes.Buffer
	errs []string
	// how each definition is tied to the source: "syntax" (read off the AST) or "sampled"
	// (the canonical definition, justified by the behaviour samples of the probe)
	ties map[string]string
	// min_* definitions whose syntax was not recognised: defined from the probe's samples
	pendingMin []string
	sampled    []string
}

// soft: the syntax of `name` was not recognised; emit the canonical definition instead and
// leave it to the behaviour samples (url_samples / fix_samples, obligations in C19/GenOk.v)
// to show that the code still behaves like it.
func (g *gen) soft(name, canonical, format string, a ...interface{}) {
	msg := strings.ReplaceAll(strings.ReplaceAll(fmt.Sprintf(format, a...), "*)", "* )"), "(*", "( *")
	fmt.Fprintf(&g.b, "(* %s: syntax not recognised (%s): canonical definition, tied by sampled behaviour *)\n%s\n", name, msg, canonical)
	g.ties[name] = "sampled"
	g.sampled = append(g.sampled, name)
}

func (g *gen) hard(name string) { g.ties[name] = "syntax" }

func (g *gen) fail(name, format string, a ...interface{}) {
	if c, ok := canonical[name]; ok {
		g.soft(name, c, format, a...)
		return
	}
	msg := strings.ReplaceAll(strings.ReplaceAll(fmt.Sprintf(format, a...), "*)", "* )"), "(*", "( *")
	g.errs = append(g.errs, name+": "+msg)
	fmt.Fprintf(&g.b, "(* UNTRANSLATABLE %s: %s *)\n", name, msg)
}

func (g *gen) constVal(e ast.Expr) (constant.Value, bool) {
	tv, ok := g.p.Info.Types[e]
	if !ok || tv.Value == nil {
		return nil, false
	}
	return tv.Value, true
}

// intExpr renders an integer expression over the single variable v (and constants).
func (g *gen) intExpr(e ast.Expr, v string) (string, error) {
	if c, ok := g.constVal(e); ok && c.Kind() == constant.Int {
		return tr.CoqZ(c), nil
	}
	switch x := e.(type) {
	case *ast.ParenExpr:
		return g.intExpr(x.X, v)
	case *ast.Ident:
		if x.Name == v {
			return "n", nil
		}
		return "", fmt.Errorf("%s: identifier %s", g.p.Pos(e), x.Name)
	case *ast.BinaryExpr:
		a, err := g.intExpr(x.X, v)
		if err != nil {
			return "", err
		}
		b, err := g.intExpr(x.Y, v)
		if err != nil {
			return "", err
		}
		switch x.Op {
		case token.QUO:
			return fmt.Sprintf("(Z.quot %s %s)", a, b), nil
		case token.REM:
			return fmt.Sprintf("(Z.rem %s %s)", a, b), nil
		case token.ADD:
			return fmt.Sprintf("(Z.add %s %s)", a, b), nil
		case token.SUB:
			return fmt.Sprintf("(Z.sub %s %s)", a, b), nil
		case token.MUL:
			return fmt.Sprintf("(Z.mul %s %s)", a, b), nil
		}
		return "", fmt.Errorf("%s: operator %s", g.p.Pos(e), x.Op)
	}
	return "", fmt.Errorf("%s: unsupported expression", g.p.Pos(e))
}

func isSel(e ast.Expr, pkg, name string) bool {
	s, ok := e.(*ast.SelectorExpr)
	if !ok || s.Sel.Name != name {
		return false
	}
	id, ok := s.X.(*ast.Ident)
	return ok && id.Name == pkg
}

// sprintfCalls returns every fmt.Sprintf call in the function body.
func sprintfCalls(fd *ast.FuncDecl) []*ast.CallExpr {
	var out []*ast.CallExpr
	ast.Inspect(fd.Body, func(n ast.Node) bool {
		if c, ok := n.(*ast.CallExpr); ok && isSel(c.Fun, "fmt", "Sprintf") {
			out = append(out, c)
		}
		return true
	})
	return out
}

// urlFunc: func (ds *Datasource) f(x T) string { n := x.Uint64(); return fmt.Sprintf(F, ds.baseURL(), x.Dir(), E1, E2, E3) }
func (g *gen) urlFunc(decls map[string]*ast.FuncDecl, key, name string) {
	fd := decls[key]
	if fd == nil {
		g.fail(name, "%s not found", key)
		return
	}
	calls := sprintfCalls(fd)
	if len(calls) != 1 || len(calls[0].Args) < 3 {
		g.fail(name, "expected exactly one fmt.Sprintf in %s", key)
		return
	}
	c := calls[0]
	f, ok := g.constVal(c.Args[0])
	if !ok || f.Kind() != constant.String {
		g.fail(name, "format is not a constant string")
		return
	}
	// the local that holds the number: `n := x.Uint64()`
	v := ""
	ast.Inspect(fd.Body, func(nd ast.Node) bool {
		if as, ok := nd.(*ast.AssignStmt); ok && len(as.Lhs) == 1 && len(as.Rhs) == 1 {
			if call, ok := as.Rhs[0].(*ast.CallExpr); ok {
				if s, ok := call.Fun.(*ast.SelectorExpr); ok && s.Sel.Name == "Uint64" {
					if id, ok := as.Lhs[0].(*ast.Ident); ok {
						v = id.Name
					}
				}
			}
		}
		return true
	})
	if v == "" {
		g.fail(name, "no `n := x.Uint64()` in %s", key)
		return
	}
	// string arguments: calls to baseURL and Dir, in this order
	for i, want := range []string{"baseURL", "Dir"} {
		call, ok := c.Args[1+i].(*ast.CallExpr)
		if !ok {
			g.fail(name, "argument %d is not a call", i+1)
			return
		}
		s, ok := call.Fun.(*ast.SelectorExpr)
		if !ok || s.Sel.Name != want {
			g.fail(name, "argument %d is not a call of %s", i+1, want)
			return
		}
	}
	var args []string
	for _, a := range c.Args[3:] {
		s, err := g.intExpr(a, v)
		if err != nil {
			g.fail(name, "%v", err)
			return
		}
		args = append(args, s)
	}
	fmt.Fprintf(&g.b, "Definition %s_format : string := %s.\n", name, tr.CoqString(constant.StringVal(f)))
	fmt.Fprintf(&g.b, "Definition %s_args (n : Z) : list Z := [%s].\n", name, strings.Join(args, "; "))
	g.hard(name)
}

// suffixOf finds `<recv>.<callee>(...) + "lit"` in the function and returns lit.
func (g *gen) suffixOf(decls map[string]*ast.FuncDecl, key, callee, name string) {
	fd := decls[key]
	if fd == nil {
		g.fail(name, "%s not found", key)
		return
	}
	found := ""
	n := 0
	ast.Inspect(fd.Body, func(nd ast.Node) bool {
		be, ok := nd.(*ast.BinaryExpr)
		if !ok || be.Op != token.ADD {
			return true
		}
		call, ok := be.X.(*ast.CallExpr)
		if !ok {
			return true
		}
		s, ok := call.Fun.(*ast.SelectorExpr)
		if !ok || s.Sel.Name != callee {
			return true
		}
		if c, ok := g.constVal(be.Y); ok && c.Kind() == constant.String {
			found = constant.StringVal(c)
			n++
		}
		return true
	})
	if n != 1 {
		g.fail(name, "expected one `%s(...) + \"suffix\"` in %s, found %d", callee, key, n)
		return
	}
	fmt.Fprintf(&g.b, "Definition %s : string := %s.\n", name, tr.CoqString(found))
	g.hard(name)
}

// currentFormat: the single Sprintf format of the function (the URL of the current state).
func (g *gen) currentFormat(decls map[string]*ast.FuncDecl, key, name string) {
	fd := decls[key]
	if fd == nil {
		g.fail(name, "%s not found", key)
		return
	}
	calls := sprintfCalls(fd)
	if len(calls) != 1 || len(calls[0].Args) != 3 {
		g.fail(name, "expected one fmt.Sprintf(format, base, dir) in %s", key)
		return
	}
	f, ok := g.constVal(calls[0].Args[0])
	if !ok || f.Kind() != constant.String {
		g.fail(name, "format is not a constant string")
		return
	}
	fmt.Fprintf(&g.b, "Definition %s : string := %s.\n", name, tr.CoqString(constant.StringVal(f)))
	g.hard(name)
}

// staterMin finds stater{Min: X} in fd and returns X.
func staterMin(fd *ast.FuncDecl) []ast.Expr {
	var out []ast.Expr
	ast.Inspect(fd.Body, func(nd ast.Node) bool {
		cl, ok := nd.(*ast.CompositeLit)
		if !ok {
			return true
		}
		id, ok := cl.Type.(*ast.Ident)
		if !ok || id.Name != "stater" {
			return true
		}
		for _, el := range cl.Elts {
			if kv, ok := el.(*ast.KeyValueExpr); ok {
				if k, ok := kv.Key.(*ast.Ident); ok && k.Name == "Min" {
					out = append(out, kv.Value)
				}
			}
		}
		return true
	})
	return out
}

// minOf: the constant value of the Min field of the stater the entry point searches with: either
// a stater literal in the function itself, or in a helper of the package it calls, whose Min is
// one of the helper's parameters (then the constant is the argument at the call).
func (g *gen) minOf(decls map[string]*ast.FuncDecl, key, name string) {
	fd := decls[key]
	if fd == nil {
		g.fail(name, "%s not found", key)
		return
	}
	var vals []constant.Value
	for _, e := range staterMin(fd) {
		if c, ok := g.constVal(e); ok && c.Kind() == constant.Int {
			vals = append(vals, c)
		}
	}
	if len(vals) == 0 {
		ast.Inspect(fd.Body, func(nd ast.Node) bool {
			call, ok := nd.(*ast.CallExpr)
			if !ok {
				return true
			}
			id, ok := call.Fun.(*ast.Ident)
			if !ok {
				return true
			}
			h := decls[id.Name]
			if h == nil || h.Body == nil {
				return true
			}
			var params []string
			for _, f := range h.Type.Params.List {
				for _, n := range f.Names {
					params = append(params, n.Name)
				}
			}
			for _, e := range staterMin(h) {
				pid, ok := e.(*ast.Ident)
				if !ok {
					continue
				}
				for i, pn := range params {
					if pn == pid.Name && i < len(call.Args) {
						if c, ok := g.constVal(call.Args[i]); ok && c.Kind() == constant.Int {
							vals = append(vals, c)
						}
					}
				}
			}
			return true
		})
	}
	if len(vals) != 1 {
		// tied by sampled behaviour instead: the probe observes which numbered state file the
		// lookup asks for first (see probe)
		g.pendingMin = append(g.pendingMin, name)
		return
	}
	fmt.Fprintf(&g.b, "Definition %s : Z := %s.\n", name, tr.CoqZ(vals[0]))
	g.hard(name)
}

// dirOf: func (n T) Dir() string { return "lit" }
func (g *gen) dirOf(decls map[string]*ast.FuncDecl, key, name string) {
	fd := decls[key]
	if fd == nil || len(fd.Body.List) != 1 {
		g.fail(name, "%s not found or not a single return", key)
		return
	}
	r, ok := fd.Body.List[0].(*ast.ReturnStmt)
	if !ok || len(r.Results) != 1 {
		g.fail(name, "%s is not a single return", key)
		return
	}
	c, ok := g.constVal(r.Results[0])
	if !ok || c.Kind() != constant.String {
		g.fail(name, "%s does not return a constant string", key)
		return
	}
	fmt.Fprintf(&g.b, "Definition %s : string := %s.\n", name, tr.CoqString(constant.StringVal(c)))
}

// changesetFix: in fetchChangesetState
//
//	if n == 0 { s.SeqNum++ } else { s.SeqNum = uint64(n) }
//
// becomes  changeset_seq_fix n file_seq := if n =? 0 then file_seq + 1 else n.
func (g *gen) changesetFix(decls map[string]*ast.FuncDecl) {
	const name = "changeset_seq_fix"
	fd := decls["Datasource.fetchChangesetState"]
	if fd == nil {
		g.fail(name, "fetchChangesetState not found")
		return
	}
	isSeqNum := func(e ast.Expr) bool {
		s, ok := e.(*ast.SelectorExpr)
		return ok && s.Sel.Name == "SeqNum"
	}
	var thenS, elseS string
	cnt := 0
	ast.Inspect(fd.Body, func(nd ast.Node) bool {
		is, ok := nd.(*ast.IfStmt)
		if !ok || is.Init != nil {
			return true
		}
		be, ok := is.Cond.(*ast.BinaryExpr)
		if !ok || be.Op != token.EQL {
			return true
		}
		id, ok := be.X.(*ast.Ident)
		c, okc := g.constVal(be.Y)
		if !ok || !okc || c.Kind() != constant.Int || c.ExactString() != "0" {
			return true
		}
		branch := func(bs *ast.BlockStmt) string {
			if bs == nil || len(bs.List) != 1 {
				return ""
			}
			switch s := bs.List[0].(type) {
			case *ast.IncDecStmt:
				if isSeqNum(s.X) && s.Tok == token.INC {
					return "(Z.add file_seq 1)"
				}
				if isSeqNum(s.X) && s.Tok == token.DEC {
					return "(Z.sub file_seq 1)"
				}
			case *ast.AssignStmt:
				if len(s.Lhs) == 1 && len(s.Rhs) == 1 && isSeqNum(s.Lhs[0]) && s.Tok == token.ASSIGN {
					if call, ok := s.Rhs[0].(*ast.CallExpr); ok && len(call.Args) == 1 {
						if a, ok := call.Args[0].(*ast.Ident); ok && a.Name == id.Name {
							return "n"
						}
					}
				}
			}
			return ""
		}
		eb, _ := is.Else.(*ast.BlockStmt)
		t, e := branch(is.Body), branch(eb)
		if t != "" && e != "" {
			thenS, elseS = t, e
			cnt++
		}
		return true
	})
	if cnt != 1 {
		g.fail(name, "the `if n == 0 { s.SeqNum++ } else { s.SeqNum = uint64(n) }` correction was not recognised")
		return
	}
	fmt.Fprintf(&g.b, "Definition %s (n file_seq : Z) : Z := if Z.eqb n 0 then %s else %s.\n", name, thenS, elseS)
	g.hard(name)
}

func (g *gen) timeFormats() {
	const name = "time_formats"
	for _, f := range g.p.Files {
		for _, d := range f.Decls {
			gd, ok := d.(*ast.GenDecl)
			if !ok || gd.Tok != token.VAR {
				continue
			}
			for _, sp := range gd.Specs {
				vs := sp.(*ast.ValueSpec)
				for i, id := range vs.Names {
					if id.Name != "timeFormats" || i >= len(vs.Values) {
						continue
					}
					cl, ok := vs.Values[i].(*ast.CompositeLit)
					if !ok {
						g.fail(name, "timeFormats is not a literal")
						return
					}
					var l []string
					for _, e := range cl.Elts {
						c, ok := g.constVal(e)
						if !ok || c.Kind() != constant.String {
							g.fail(name, "non-constant element")
							return
						}
						l = append(l, tr.CoqString(constant.StringVal(c)))
					}
					fmt.Fprintf(&g.b, "Definition %s : list string := [%s].\n", name, strings.Join(l, "; "))
					return
				}
			}
		}
	}
	g.fail(name, "timeFormats not found")
}

// byteLit: []byte("lit") -> lit
func (g *gen) byteLit(e ast.Expr) (string, bool) {
	if id, ok := e.(*ast.Ident); ok && id.Obj != nil {
		// a local or package-level variable initialised with []byte("lit")
		if vs, ok := id.Obj.Decl.(*ast.ValueSpec); ok {
			for i, n := range vs.Names {
				if n.Name == id.Name && i < len(vs.Values) {
					return g.byteLit(vs.Values[i])
				}
			}
		}
		if as, ok := id.Obj.Decl.(*ast.AssignStmt); ok && as.Tok == token.DEFINE {
			for i, l := range as.Lhs {
				if li, ok := l.(*ast.Ident); ok && li.Name == id.Name && i < len(as.Rhs) {
					return g.byteLit(as.Rhs[i])
				}
			}
		}
		return "", false
	}
	call, ok := e.(*ast.CallExpr)
	if !ok || len(call.Args) != 1 {
		return "", false
	}
	if _, ok := call.Fun.(*ast.ArrayType); !ok {
		return "", false
	}
	c, ok := g.constVal(call.Args[0])
	if !ok || c.Kind() != constant.String {
		return "", false
	}
	return constant.StringVal(c), true
}

// decoders: the data of decodeIntervalState and decodeChangesetState:
//
//	interval_keys       the keys compared with parts[0] in the if / else-if chain, each with the
//	                    State field its branch assigns
//	*_seps              the separators of the bytes.Split calls, in source order
//	changeset_join_sep  the separator of bytes.Join
//	changeset_line_indices  the constant indices into `lines`, in source order
//	*_parsers           the strconv functions called, in source order
func (g *gen) decoders(decls map[string]*ast.FuncDecl) {
	splitSeps := func(fd *ast.FuncDecl, fn string) []string {
		var l []string
		ast.Inspect(fd.Body, func(nd ast.Node) bool {
			if c, ok := nd.(*ast.CallExpr); ok && isSel(c.Fun, "bytes", fn) && len(c.Args) == 2 {
				if s, ok := g.byteLit(c.Args[1]); ok {
					l = append(l, tr.CoqString(s))
				} else {
					l = append(l, "\"?\"")
				}
			}
			return true
		})
		return l
	}
	parsers := func(fd *ast.FuncDecl) []string {
		var l []string
		ast.Inspect(fd.Body, func(nd ast.Node) bool {
			if c, ok := nd.(*ast.CallExpr); ok {
				if s, ok := c.Fun.(*ast.SelectorExpr); ok {
					if id, ok := s.X.(*ast.Ident); ok && id.Name == "strconv" {
						l = append(l, tr.CoqString("strconv."+s.Sel.Name))
					}
				}
			}
			return true
		})
		return l
	}
	if fd := decls["decodeIntervalState"]; fd == nil {
		g.fail("interval_keys", "decodeIntervalState not found")
	} else {
		var pairs []string
		bad := false
		ast.Inspect(fd.Body, func(nd ast.Node) bool {
			is, ok := nd.(*ast.IfStmt)
			if !ok {
				return true
			}
			c, ok := is.Cond.(*ast.CallExpr)
			if !ok || !isSel(c.Fun, "bytes", "Equal") || len(c.Args) != 2 {
				return true
			}
			ix, ok := c.Args[0].(*ast.IndexExpr)
			if !ok {
				return true
			}
			if v, ok := g.constVal(ix.Index); !ok || v.ExactString() != "0" {
				return true
			}
			key, ok := g.byteLit(c.Args[1])
			if !ok {
				bad = true
				return true
			}
			field := ""
			for _, st := range is.Body.List {
				ast.Inspect(st, func(n2 ast.Node) bool {
					if _, isIf := n2.(*ast.IfStmt); isIf {
						return false
					}
					if as, ok := n2.(*ast.AssignStmt); ok && field == "" {
						for _, lhs := range as.Lhs {
							if se, ok := lhs.(*ast.SelectorExpr); ok {
								if id, ok := se.X.(*ast.Ident); ok && id.Name == "state" {
									field = se.Sel.Name
								}
							}
						}
					}
					return true
				})
			}
			if field == "" {
				bad = true
			}
			pairs = append(pairs, fmt.Sprintf("(%s, %s)", tr.CoqString(key), tr.CoqString(field)))
			return true
		})
		fieldOf := func(stmts []ast.Stmt) string {
			field := ""
			for _, st := range stmts {
				ast.Inspect(st, func(n2 ast.Node) bool {
					if _, isIf := n2.(*ast.IfStmt); isIf {
						return false
					}
					if as, ok := n2.(*ast.AssignStmt); ok && field == "" {
						for _, lhs := range as.Lhs {
							if se, ok := lhs.(*ast.SelectorExpr); ok {
								if id, ok := se.X.(*ast.Ident); ok && id.Name == "state" {
									field = se.Sel.Name
								}
							}
						}
					}
					return true
				})
			}
			return field
		}
		if len(pairs) == 0 {
			// switch string(parts[0]) { case "key": ... }
			ast.Inspect(fd.Body, func(nd ast.Node) bool {
				sw, ok := nd.(*ast.SwitchStmt)
				if !ok || sw.Tag == nil {
					return true
				}
				tag := sw.Tag
				if c, ok := tag.(*ast.CallExpr); ok && len(c.Args) == 1 { // string(parts[0])
					tag = c.Args[0]
				}
				ix, ok := tag.(*ast.IndexExpr)
				if !ok {
					return true
				}
				if v, ok := g.constVal(ix.Index); !ok || v.ExactString() != "0" {
					return true
				}
				for _, cc := range sw.Body.List {
					cl := cc.(*ast.CaseClause)
					for _, e := range cl.List { // default has none
						c, ok := g.constVal(e)
						if !ok || c.Kind() != constant.String {
							bad = true
							continue
						}
						f := fieldOf(cl.Body)
						if f == "" {
							bad = true
						}
						pairs = append(pairs, fmt.Sprintf("(%s, %s)", tr.CoqString(constant.StringVal(c)), tr.CoqString(f)))
					}
				}
				return true
			})
		}
		if bad || len(pairs) == 0 {
			g.fail("interval_keys", "the key chain of decodeIntervalState was not recognised")
		} else {
			fmt.Fprintf(&g.b, "Definition interval_keys : list (string * string) := [%s].\n", strings.Join(pairs, "; "))
		}
		fmt.Fprintf(&g.b, "Definition interval_seps : list string := [%s].\n", strings.Join(splitSeps(fd, "Split"), "; "))
		fmt.Fprintf(&g.b, "Definition interval_parsers : list string := [%s].\n", strings.Join(parsers(fd), "; "))
	}
	if fd := decls["decodeChangesetState"]; fd == nil {
		g.fail("changeset_seps", "decodeChangesetState not found")
	} else {
		// the separators of every bytes.Split / SplitN / Cut of the function, in source order
		var cs []string
		ast.Inspect(fd.Body, func(nd ast.Node) bool {
			if c, ok := nd.(*ast.CallExpr); ok && len(c.Args) >= 2 &&
				(isSel(c.Fun, "bytes", "Split") || isSel(c.Fun, "bytes", "SplitN") || isSel(c.Fun, "bytes", "Cut")) {
				if lit, ok := g.byteLit(c.Args[1]); ok {
					cs = append(cs, tr.CoqString(lit))
				} else {
					cs = append(cs, "\"?\"")
				}
			}
			return true
		})
		fmt.Fprintf(&g.b, "Definition changeset_seps : list string := [%s].\n", strings.Join(cs, "; "))
		fmt.Fprintf(&g.b, "Definition changeset_join_seps : list string := [%s].\n", strings.Join(splitSeps(fd, "Join"), "; "))
		fmt.Fprintf(&g.b, "Definition changeset_parsers : list string := [%s].\n", strings.Join(parsers(fd), "; "))
		var idx []string
		ast.Inspect(fd.Body, func(nd ast.Node) bool {
			if ix, ok := nd.(*ast.IndexExpr); ok {
				if id, ok := ix.X.(*ast.Ident); ok && id.Name == "lines" {
					if v, ok := g.constVal(ix.Index); ok && v.Kind() == constant.Int {
						idx = append(idx, tr.CoqZ(v))
					}
				}
			}
			return true
		})
		fmt.Fprintf(&g.b, "Definition changeset_line_indices : list Z := [%s].\n", strings.Join(idx, "; "))
	}
}

// probeSrc is compiled into the package under test through `go test -overlay` (nothing is
// written into the repository).  It drives the EXPORTED entry points with a recording
// http.RoundTripper and prints what was requested / decoded for a fixed set of samples.
const probeSrc = `package replication

import (
	"context"
	"fmt"
	"io"
	"net/http"
	"strings"
	"testing"
	"time"
)

type verifProbeRT struct {
	last string
	body string
	urls []string
	only bool // answer the first request only (the current state), 404 afterwards
}

func (rt *verifProbeRT) RoundTrip(r *http.Request) (*http.Response, error) {
	rt.last = r.URL.String()
	rt.urls = append(rt.urls, rt.last)
	code := 404
	if rt.body != "" && !(rt.only && len(rt.urls) > 1) {
		code = 200
	}
	return &http.Response{StatusCode: code, Body: io.NopCloser(strings.NewReader(rt.body)), Header: http.Header{}, Request: r}, nil
}

func TestVerifProbe(t *testing.T) {
	rt := &verifProbeRT{}
	ds := &Datasource{BaseURL: "http://B", Client: &http.Client{Transport: rt}}
	ctx := context.Background()
	ns := []uint64{1, 2, 9, 10, 99, 100, 999, 1000, 1001, 999999, 1000000, 2007990, 123456789, 999999999, 1000000000, 123456789012}
	for kind := 0; kind < 4; kind++ {
		for _, n := range ns {
			switch kind {
			case 0:
				ds.MinuteState(ctx, MinuteSeqNum(n))
			case 1:
				ds.HourState(ctx, HourSeqNum(n))
			case 2:
				ds.DayState(ctx, DaySeqNum(n))
			default:
				ds.ChangesetState(ctx, ChangesetSeqNum(n))
			}
			fmt.Printf("VERIFPROBE url %d 0 %d %s\n", kind, n, rt.last)
			switch kind {
			case 0:
				ds.Minute(ctx, MinuteSeqNum(n))
			case 1:
				ds.Hour(ctx, HourSeqNum(n))
			case 2:
				ds.Day(ctx, DaySeqNum(n))
			default:
				ds.Changesets(ctx, ChangesetSeqNum(n))
			}
			fmt.Printf("VERIFPROBE url %d 1 %d %s\n", kind, n, rt.last)
		}
		switch kind {
		case 0:
			ds.CurrentMinuteState(ctx)
		case 1:
			ds.CurrentHourState(ctx)
		case 2:
			ds.CurrentDayState(ctx)
		default:
			ds.CurrentChangesetState(ctx)
		}
		fmt.Printf("VERIFPROBE url %d 2 0 %s\n", kind, rt.last)
	}
	// the first sequence number each lookup by time considers: the request after the current state
	for kind := 0; kind < 4; kind++ {
		rt.body = "sequenceNumber=5000000\ntimestamp=2020-01-01T00\\:00\\:00Z\n"
		if kind == 3 {
			rt.body = "---\nlast_run: 2020-01-01 00:00:00.000000000 +00:00\nsequence: 4999999\n"
		}
		rt.urls = nil
		rt.only = true
		t0 := time.Date(2019, 1, 1, 0, 0, 0, 0, time.UTC)
		switch kind {
		case 0:
			ds.MinuteStateAt(ctx, t0)
		case 1:
			ds.HourStateAt(ctx, t0)
		case 2:
			ds.DayStateAt(ctx, t0)
		default:
			ds.ChangesetStateAt(ctx, t0)
		}
		rt.only = false
		if len(rt.urls) >= 2 {
			fmt.Printf("VERIFPROBE first %d %s\n", kind, rt.urls[1])
		}
	}
	rt.body = ""
	// the changeset sequence correction: number in the file name n (0 = current), number inside k
	for _, s := range [][2]uint64{{0, 0}, {0, 5}, {0, 2008003}, {7, 3}, {7, 7}, {7, 6}, {2008004, 2008003}, {1, 100}, {12345, 0}} {
		rt.body = fmt.Sprintf("---\nlast_run: 2016-07-02 22:46:01.422137422 +00:00\nsequence: %d\n", s[1])
		var st *State
		var err error
		if s[0] == 0 {
			_, st, err = ds.CurrentChangesetState(ctx)
		} else {
			st, err = ds.ChangesetState(ctx, ChangesetSeqNum(s[0]))
		}
		if err == nil {
			fmt.Printf("VERIFPROBE fix %d %d %d\n", s[0], s[1], st.SeqNum)
		}
	}
}
`

var firstRe = regexp.MustCompile(`/([0-9]+)/([0-9]{3})/([0-9]{3})\.state\.txt$`)

// probe: behaviour samples of the fetch path (request URLs, changeset sequence correction)
func (g *gen) probe(repo, out string) {
	work := filepath.Join(filepath.Dir(filepath.Dir(out)), "work", "tr_replication_probe")
	if err := os.MkdirAll(work, 0o755); err != nil {
		g.fail("url_samples", "%v", err)
		return
	}
	src := filepath.Join(work, "probe_test.go")
	if err := os.WriteFile(src, []byte(probeSrc), 0o644); err != nil {
		g.fail("url_samples", "%v", err)
		return
	}
	abs, _ := filepath.Abs(repo)
	ov, _ := json.Marshal(map[string]map[string]string{"Replace": {filepath.Join(abs, "replication", "zz_verif_probe_test.go"): src}})
	ovf := filepath.Join(work, "overlay.json")
	os.WriteFile(ovf, ov, 0o644)
	cmd := exec.Command("go", "test", "-overlay="+ovf, "-run", "^TestVerifProbe$", "-count=1", "-vet=off", "-v", "./replication/")
	cmd.Dir = abs
	outb, err := cmd.CombinedOutput()
	var urls, fixes []string
	firsts := map[string]uint64{}
	for _, l := range strings.Split(string(outb), "\n") {
		f := strings.Fields(l)
		if len(f) == 6 && f[0] == "VERIFPROBE" && f[1] == "url" {
			urls = append(urls, fmt.Sprintf("(%s, %s, %s, %s)", f[2], f[3], f[4], tr.CoqString(f[5])))
		}
		if len(f) == 4 && f[0] == "VERIFPROBE" && f[1] == "first" {
			if m := firstRe.FindStringSubmatch(f[3]); m != nil {
				a, _ := strconv.ParseUint(m[1], 10, 64)
				b, _ := strconv.ParseUint(m[2], 10, 64)
				c, _ := strconv.ParseUint(m[3], 10, 64)
				firsts[f[2]] = a*1000000 + b*1000 + c
			}
		}
		if len(f) == 5 && f[0] == "VERIFPROBE" && f[1] == "fix" {
			fixes = append(fixes, fmt.Sprintf("(%s, %s, %s)", f[2], f[3], f[4]))
		}
	}
	if err != nil || len(urls) == 0 {
		tail := string(outb)
		if len(tail) > 600 {
			tail = tail[len(tail)-600:]
		}
		g.fail("url_samples", "the behaviour probe did not run: %v: %s", err, tail)
		return
	}
	fmt.Fprintf(&g.b, "(* behaviour samples (go test -overlay probe through the exported entry points, base URL http://B):\n   (kind, what (0 state file, 1 data file, 2 current state), n, requested URL) *)\n")
	fmt.Fprintf(&g.b, "Definition url_samples : list (Z * Z * Z * string) := [%s].\n", strings.Join(urls, ";\n  "))
	kinds := []string{"min_minute", "min_hour", "min_day", "min_changesets"}
	var fl []string
	for k, nm := range kinds {
		v, ok := firsts[strconv.Itoa(k)]
		if !ok {
			continue
		}
		fl = append(fl, fmt.Sprintf("(%d, %d)", k, v))
		for _, pn := range g.pendingMin {
			if pn == nm {
				fmt.Fprintf(&g.b, "(* %s: no stater{Min: <constant>} recognised: the value is the first numbered state file the lookup asks for (sampled behaviour) *)\nDefinition %s : Z := %d.\n", nm, nm, v)
				g.ties[nm] = "sampled"
			}
		}
	}
	for _, pn := range g.pendingMin {
		if g.ties[pn] == "" {
			g.fail(pn, "neither the syntax nor the probe gave the first sequence number")
		}
	}
	fmt.Fprintf(&g.b, "(* (kind, sequence number of the first numbered state file a lookup by time asks for) *)\n")
	fmt.Fprintf(&g.b, "Definition first_samples : list (Z * Z) := [%s].\n", strings.Join(fl, "; "))
	fmt.Fprintf(&g.b, "(* (number in the file name (0 = current), number inside the file, SeqNum returned) *)\n")
	fmt.Fprintf(&g.b, "Definition fix_samples : list (Z * Z * Z) := [%s].\n", strings.Join(fixes, "; "))
}

func (g *gen) emitTies() {
	var names []string
	for n := range g.ties {
		names = append(names, n)
	}
	sort.Strings(names)
	var l []string
	for _, n := range names {
		l = append(l, fmt.Sprintf("(%s, %s)", tr.CoqString(n), tr.CoqString(g.ties[n])))
	}
	fmt.Fprintf(&g.b, "(* how each definition above is tied to the source *)\nDefinition tie_modes : list (string * string) := [%s].\n", strings.Join(l, "; "))
}

func main() {
	repo, out := os.Args[1], os.Args[2]
	dir := filepath.Join(repo, "replication")
	if err := os.Chdir(dir); err != nil {
		fmt.Fprintln(os.Stderr, err)
		os.Exit(1)
	}
	p, err := tr.Load(dir, "github.com/paulmach/osm/replication")
	if err != nil {
		fmt.Fprintln(os.Stderr, "translator replication:", err)
		os.Exit(1)
	}
	g := &gen{p: p, ties: map[string]string{}}
	g.b.WriteString("(* GENERATED by /verif/translator/cmd/replication from /repo/replication — do not edit. *)\n")
	g.b.WriteString("From Coq Require Import ZArith String List.\nImport ListNotations.\nOpen Scope Z_scope.\nOpen Scope string_scope.\n\n")
	decls := p.FuncDecls()
	g.minOf(decls, "Datasource.MinuteStateAt", "min_minute")
	g.minOf(decls, "Datasource.HourStateAt", "min_hour")
	g.minOf(decls, "Datasource.DayStateAt", "min_day")
	g.minOf(decls, "Datasource.ChangesetStateAt", "min_changesets")
	g.dirOf(decls, "MinuteSeqNum.Dir", "dir_minute")
	g.dirOf(decls, "HourSeqNum.Dir", "dir_hour")
	g.dirOf(decls, "DaySeqNum.Dir", "dir_day")
	g.dirOf(decls, "ChangesetSeqNum.Dir", "dir_changesets")
	g.urlFunc(decls, "Datasource.baseSeqURL", "seq_url")
	g.urlFunc(decls, "Datasource.baseChangesetURL", "changeset_url")
	g.suffixOf(decls, "Datasource.fetchState", "baseSeqURL", "seq_state_suffix")
	g.suffixOf(decls, "Datasource.changeURL", "baseSeqURL", "seq_data_suffix")
	g.suffixOf(decls, "Datasource.fetchChangesetState", "baseChangesetURL", "changeset_state_suffix")
	g.suffixOf(decls, "Datasource.changesetReader", "baseChangesetURL", "changeset_data_suffix")
	g.currentFormat(decls, "Datasource.fetchState", "seq_current_format")
	g.currentFormat(decls, "Datasource.fetchChangesetState", "changeset_current_format")
	g.changesetFix(decls)
	g.timeFormats()
	g.decoders(decls)
	g.probe(repo, out)
	g.emitTies()
	if err := tr.Emit(filepath.Join(out, "GenReplication.v"), g.b.Bytes()); err != nil {
		fmt.Fprintln(os.Stderr, err)
		os.Exit(1)
	}
	if len(g.errs) > 0 {
		// the file is still written: the obligations in C19/GenOk.v then fail to compile
		fmt.Fprintln(os.Stderr, "translator replication: untranslatable:", strings.Join(g.errs, "; "))
	}
}
