package main

// normalise.go — AST normalisation applied to the type-checked package before translation:
//
//	for i := range X { ... X[i] ... }   ==>   for i, e := range X { ... e ... }
//
// when the body neither assigns to an element of X nor to i.  An index read X[i] under its own
// range loop cannot be out of range; written with the element variable the translator sees a
// total expression (and `c := &X[i]` becomes an alias of the element).  Reads only: the copy
// semantics of the range value are irrelevant.

import (
	"fmt"
	"go/ast"
	"go/token"
	"go/types"

	"verif/translator/tr"
)

func sameExpr(a, b ast.Expr) bool {
	switch x := a.(type) {
	case *ast.Ident:
		y, ok := b.(*ast.Ident)
		return ok && x.Name == y.Name
	case *ast.SelectorExpr:
		y, ok := b.(*ast.SelectorExpr)
		return ok && x.Sel.Name == y.Sel.Name && sameExpr(x.X, y.X)
	case *ast.ParenExpr:
		return sameExpr(x.X, b)
	}
	return false
}

// rewriteExprs applies f to every expression slot below n (children first).
func rewriteExprs(n ast.Node, f func(ast.Expr) ast.Expr) {
	var re func(e ast.Expr) ast.Expr
	var rs func(s ast.Stmt)
	re = func(e ast.Expr) ast.Expr {
		switch x := e.(type) {
		case nil:
			return nil
		case *ast.ParenExpr:
			x.X = re(x.X)
		case *ast.UnaryExpr:
			x.X = re(x.X)
		case *ast.StarExpr:
			x.X = re(x.X)
		case *ast.BinaryExpr:
			x.X, x.Y = re(x.X), re(x.Y)
		case *ast.SelectorExpr:
			x.X = re(x.X)
		case *ast.IndexExpr:
			x.X, x.Index = re(x.X), re(x.Index)
		case *ast.SliceExpr:
			x.X, x.Low, x.High, x.Max = re(x.X), re(x.Low), re(x.High), re(x.Max)
		case *ast.CallExpr:
			x.Fun = re(x.Fun)
			for i := range x.Args {
				x.Args[i] = re(x.Args[i])
			}
		case *ast.KeyValueExpr:
			x.Value = re(x.Value)
		case *ast.CompositeLit:
			for i := range x.Elts {
				x.Elts[i] = re(x.Elts[i])
			}
		case *ast.FuncLit:
			rs(x.Body)
		}
		return f(e)
	}
	rs = func(s ast.Stmt) {
		switch x := s.(type) {
		case nil:
		case *ast.BlockStmt:
			if x == nil {
				return
			}
			for _, st := range x.List {
				rs(st)
			}
		case *ast.ExprStmt:
			x.X = re(x.X)
		case *ast.AssignStmt:
			for i := range x.Lhs {
				x.Lhs[i] = re(x.Lhs[i])
			}
			for i := range x.Rhs {
				x.Rhs[i] = re(x.Rhs[i])
			}
		case *ast.IncDecStmt:
			x.X = re(x.X)
		case *ast.ReturnStmt:
			for i := range x.Results {
				x.Results[i] = re(x.Results[i])
			}
		case *ast.IfStmt:
			rs(x.Init)
			x.Cond = re(x.Cond)
			rs(x.Body)
			rs(x.Else)
		case *ast.ForStmt:
			rs(x.Init)
			x.Cond = re(x.Cond)
			rs(x.Post)
			rs(x.Body)
		case *ast.RangeStmt:
			x.X = re(x.X)
			rs(x.Body)
		case *ast.SwitchStmt:
			rs(x.Init)
			x.Tag = re(x.Tag)
			rs(x.Body)
		case *ast.CaseClause:
			for i := range x.List {
				x.List[i] = re(x.List[i])
			}
			for _, st := range x.Body {
				rs(st)
			}
		case *ast.DeclStmt:
			if gd, ok := x.Decl.(*ast.GenDecl); ok {
				for _, sp := range gd.Specs {
					if vs, ok := sp.(*ast.ValueSpec); ok {
						for i := range vs.Values {
							vs.Values[i] = re(vs.Values[i])
						}
					}
				}
			}
		case *ast.LabeledStmt:
			rs(x.Stmt)
		case *ast.DeferStmt:
			x.Call.Fun = re(x.Call.Fun)
		}
	}
	switch x := n.(type) {
	case ast.Stmt:
		rs(x)
	case ast.Expr:
		re(x)
	}
}

// normaliseIndexLoops rewrites every eligible range loop of the package; returns how many.
func normaliseIndexLoops(p *tr.Pkg) int {
	count := 0
	for _, file := range p.Files {
		ast.Inspect(file, func(n ast.Node) bool {
			rg, ok := n.(*ast.RangeStmt)
			if !ok || rg.Value != nil || rg.Tok != token.DEFINE {
				return true
			}
			key, ok := rg.Key.(*ast.Ident)
			if !ok || key.Name == "_" {
				return true
			}
			keyObj := p.Info.Defs[key]
			xt := p.Info.Types[rg.X].Type
			if keyObj == nil || xt == nil {
				return true
			}
			sl, ok := xt.Underlying().(*types.Slice)
			if !ok {
				return true
			}
			isElem := func(e ast.Expr) bool {
				ix, ok := e.(*ast.IndexExpr)
				if !ok || !sameExpr(ix.X, rg.X) {
					return false
				}
				id, ok := ix.Index.(*ast.Ident)
				return ok && p.Info.Uses[id] == keyObj
			}
			// eligibility: some X[i] read, no write to X[..], to X or to i in the body
			reads, bad := 0, false
			ast.Inspect(rg.Body, func(m ast.Node) bool {
				switch s := m.(type) {
				case *ast.AssignStmt:
					for _, l := range s.Lhs {
						if ix, ok := l.(*ast.IndexExpr); ok && sameExpr(ix.X, rg.X) {
							bad = true
						}
						if sameExpr(l, rg.X) {
							bad = true
						}
						if id, ok := l.(*ast.Ident); ok && (p.Info.Uses[id] == keyObj) {
							bad = true
						}
					}
				case *ast.IncDecStmt:
					if id, ok := s.X.(*ast.Ident); ok && p.Info.Uses[id] == keyObj {
						bad = true
					}
				case *ast.IndexExpr:
					if isElem(s) {
						reads++
					}
				}
				return true
			})
			if bad || reads == 0 {
				return true
			}
			name := fmt.Sprintf("e_%s", key.Name)
			obj := types.NewVar(rg.Pos(), p.Types, name, sl.Elem())
			val := &ast.Ident{Name: name, NamePos: rg.Key.Pos()}
			p.Info.Defs[val] = obj
			rg.Value = val
			rewriteExprs(rg.Body, func(e ast.Expr) ast.Expr {
				// &X[i] (already rewritten to &e): a read-only pointer to the element is the element
				if u, ok := e.(*ast.UnaryExpr); ok && u.Op == token.AND {
					if id, ok := u.X.(*ast.Ident); ok && p.Info.Uses[id] == obj {
						return id
					}
				}
				if isElem(e) {
					id := &ast.Ident{Name: name, NamePos: e.Pos()}
					p.Info.Uses[id] = obj
					p.Info.Types[id] = types.TypeAndValue{Type: sl.Elem()}
					return id
				}
				return e
			})
			count++
			return true
		})
	}
	return count
}
