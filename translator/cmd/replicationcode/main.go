// replicationcode: translates searchTimestamp, findBound and findInRange of replication/search.go
// into coq/gen/GenReplicationCode.v, in fuel-indexed form.  theories/C19/GenOkCode.v proves the
// result equal to the hand model of theories/C19/Model.v for all directories and fuels.
//
// Scheme.  A *State is  option state  (state = SeqNum * Timestamp), an error is  gerr
// (GNil | GNotFound | GOther); dereferencing a nil *State evaluates to the function's panic value.
// s.State(ctx, n) / s.Current(ctx) are parameters  State : Z -> option state * gerr  and
// Current : option state * gerr ; every call appends the requested sequence number (0 for the
// current state file) to the request trace, which is threaded through explicitly: a function
// takes the trace so far and returns  option (results * trace), None = out of fuel.
// A `for` loop becomes a local  fix  on fuel over the variables it assigns; the statements after
// the loop are placed in the else branch of its condition (so the loop yields the function's
// result); an `if` that falls through duplicates its continuation.  time.Time is Z
// (t.After(x) is x <? t).  uint64 arithmetic is unbounded Z (no wrap below 2^62, see C19/Model.v).
// Anything outside this grammar is an error: the definition is then missing and GenOkCode fails.
//
//	usage: replicationcode <repo> <outdir>
package main

import (
	"bytes"
	"fmt"
	"go/ast"
	"go/constant"
	"go/printer"
	"go/token"
	"go/types"
	"os"
	"path/filepath"
	"sort"
	"strings"

	"verif/translator/tr"
)

type vinfo struct {
	coq  string
	kind string // "z" | "opt" | "err" | "bool"
}

type fnCfg struct {
	key, name string
	params    string // Coq binders after the common ones
	resKinds  []string
	resType   string
	panicVal  string
}

type T struct {
	p       *tr.Pkg
	cfg     *fnCfg
	order   map[string]int // declaration order of the variables (for stable argument lists)
	env     map[string]*vinfo
	refined map[string]bool
	nLoop   int
	defs    []string
	fuel    string // fuel expression for the next loop
}

var fns = map[string]*fnCfg{
	"findInRange": {key: "findInRange", name: "gen_find_in_range", params: "(v_lowerID : Z) (v_upper : option state) (v_timestamp : Z)",
		resKinds: []string{"opt", "err"}, resType: "option state * gerr", panicVal: "(None, GPanic)"},
	"findBound": {key: "findBound", name: "gen_find_bound", params: "(v_upper : option state) (v_timestamp : Z)",
		resKinds: []string{"opt", "opt", "err"}, resType: "option state * option state * gerr", panicVal: "(None, None, GPanic)"},
	"searchTimestamp": {key: "searchTimestamp", name: "gen_search_timestamp", params: "(v_timestamp : Z)",
		resKinds: []string{"opt", "err"}, resType: "option state * gerr", panicVal: "(None, GPanic)"},
}

func (t *T) src(n ast.Node) string {
	var b bytes.Buffer
	printer.Fprint(&b, t.p.Fset, n)
	return strings.Join(strings.Fields(b.String()), " ")
}

func (t *T) errf(n ast.Node, f string, a ...interface{}) error {
	return fmt.Errorf("%s: %s", t.p.Pos(n), fmt.Sprintf(f, a...))
}

func isNil(e ast.Expr) bool { id, ok := e.(*ast.Ident); return ok && id.Name == "nil" }

func (t *T) kindOf(ty types.Type) string {
	if _, ok := ty.(*types.Pointer); ok {
		return "opt"
	}
	if n, ok := ty.(*types.Named); ok && n.Obj().Name() == "error" {
		return "err"
	}
	if b, ok := ty.Underlying().(*types.Basic); ok && b.Info()&types.IsBoolean != 0 {
		return "bool"
	}
	return "z"
}

// nilGuard recognises  X == nil || B   and   X != nil && B
func (t *T) nilGuard(e ast.Expr) (name string, orForm bool, rest ast.Expr, ok bool) {
	b, isBin := e.(*ast.BinaryExpr)
	if !isBin || (b.Op != token.LOR && b.Op != token.LAND) {
		return
	}
	c, isCmp := b.X.(*ast.BinaryExpr)
	if !isCmp || !isNil(c.Y) {
		return
	}
	id, isId := c.X.(*ast.Ident)
	if !isId || t.env[id.Name] == nil || t.env[id.Name].kind != "opt" {
		return
	}
	if b.Op == token.LOR && c.Op == token.EQL {
		return id.Name, true, b.Y, true
	}
	if b.Op == token.LAND && c.Op == token.NEQ {
		return id.Name, false, b.Y, true
	}
	return
}

// derefs lists the optional variables an expression dereferences outside a nil guard.
func (t *T) derefs(e ast.Expr, out map[string]bool) {
	if e == nil {
		return
	}
	if name, _, rest, ok := t.nilGuard(e); ok {
		sub := map[string]bool{}
		t.derefs(rest, sub)
		for k := range sub {
			if k != name {
				out[k] = true
			}
		}
		return
	}
	ast.Inspect(e, func(n ast.Node) bool {
		if sel, ok := n.(*ast.SelectorExpr); ok {
			if id, ok := sel.X.(*ast.Ident); ok {
				if v := t.env[id.Name]; v != nil && v.kind == "opt" && !t.refined[id.Name] {
					out[id.Name] = true
				}
			}
		}
		return true
	})
}

// guarded wraps body (built by f with the variables refined) in matches on the dereferenced variables.
func (t *T) guarded(exprs []ast.Expr, f func() (string, error)) (string, error) {
	need := map[string]bool{}
	for _, e := range exprs {
		t.derefs(e, need)
	}
	var names []string
	for n := range need {
		names = append(names, n)
	}
	sort.Strings(names)
	for _, n := range names {
		t.refined[n] = true
	}
	body, err := f()
	for _, n := range names {
		delete(t.refined, n)
	}
	if err != nil {
		return "", err
	}
	for i := len(names) - 1; i >= 0; i-- {
		v := t.env[names[i]].coq
		body = fmt.Sprintf("match %s with\n  | None => Some (%s, tr)\n  | Some %s_nn =>\n  %s\n  end", v, t.cfg.panicVal, v, body)
	}
	return body, nil
}

func (t *T) expr(e ast.Expr) (string, error) {
	if name, orForm, rest, ok := t.nilGuard(e); ok {
		v := t.env[name].coq
		was := t.refined[name]
		t.refined[name] = true
		r, err := t.expr(rest)
		if !was {
			delete(t.refined, name)
		}
		if err != nil {
			return "", err
		}
		if orForm {
			return fmt.Sprintf("(match %s with None => true | Some %s_nn => %s end)", v, v, r), nil
		}
		return fmt.Sprintf("(match %s with None => false | Some %s_nn => %s end)", v, v, r), nil
	}
	switch x := e.(type) {
	case *ast.ParenExpr:
		return t.expr(x.X)
	case *ast.Ident:
		if x.Name == "true" || x.Name == "false" {
			return x.Name, nil
		}
		if v, ok := t.env[x.Name]; ok {
			return v.coq, nil
		}
		return "", t.errf(e, "unknown identifier %s", x.Name)
	case *ast.BasicLit:
		tv := t.p.Info.Types[e]
		if tv.Value != nil && tv.Value.Kind() == constant.Int {
			return tr.CoqZ(tv.Value), nil
		}
		if x.Kind == token.INT && tv.Value == nil { // synthesised (post statement)
			return x.Value, nil
		}
		return "", t.errf(e, "unsupported literal")
	case *ast.UnaryExpr:
		v, err := t.expr(x.X)
		if err != nil {
			return "", err
		}
		if x.Op == token.NOT {
			return "(negb " + v + ")", nil
		}
		return "", t.errf(e, "unsupported unary %s", x.Op)
	case *ast.BinaryExpr:
		if isNil(x.Y) {
			id, ok := x.X.(*ast.Ident)
			if !ok || t.env[id.Name] == nil {
				return "", t.errf(e, "unsupported nil comparison")
			}
			v := t.env[id.Name]
			test := ""
			switch v.kind {
			case "opt":
				test = "(is_none " + v.coq + ")"
			case "err":
				test = "(gerr_is_nil " + v.coq + ")"
			default:
				return "", t.errf(e, "nil comparison on %s", id.Name)
			}
			if x.Op == token.NEQ {
				return "(negb " + test + ")", nil
			}
			if x.Op == token.EQL {
				return test, nil
			}
			return "", t.errf(e, "unsupported nil comparison")
		}
		a, err := t.expr(x.X)
		if err != nil {
			return "", err
		}
		b, err := t.expr(x.Y)
		if err != nil {
			return "", err
		}
		ops := map[token.Token]string{token.ADD: "Z.add", token.SUB: "Z.sub", token.MUL: "Z.mul", token.QUO: "Z.div",
			token.LSS: "Z.ltb", token.LEQ: "Z.leb", token.LAND: "andb", token.LOR: "orb", token.EQL: "Z.eqb"}
		if f, ok := ops[x.Op]; ok {
			return fmt.Sprintf("(%s %s %s)", f, a, b), nil
		}
		switch x.Op {
		case token.GTR:
			return fmt.Sprintf("(Z.ltb %s %s)", b, a), nil
		case token.GEQ:
			return fmt.Sprintf("(Z.leb %s %s)", b, a), nil
		case token.NEQ:
			return fmt.Sprintf("(negb (Z.eqb %s %s))", a, b), nil
		}
		return "", t.errf(e, "unsupported operator %s", x.Op)
	case *ast.SelectorExpr:
		id, ok := x.X.(*ast.Ident)
		if !ok {
			return "", t.errf(e, "unsupported selector")
		}
		if id.Name == "s" && x.Sel.Name == "Min" {
			return "v_min", nil
		}
		v := t.env[id.Name]
		if v == nil || v.kind != "opt" || !t.refined[id.Name] {
			return "", t.errf(e, "field of a value that is not known to be non-nil: %s", t.src(e))
		}
		switch x.Sel.Name {
		case "SeqNum":
			return "(fst " + v.coq + "_nn)", nil
		case "Timestamp":
			return "(snd " + v.coq + "_nn)", nil
		}
		return "", t.errf(e, "field %s is not modelled", x.Sel.Name)
	case *ast.CallExpr:
		if id, ok := x.Fun.(*ast.Ident); ok && id.Name == "NotFound" && len(x.Args) == 1 {
			a, err := t.expr(x.Args[0])
			if err != nil {
				return "", err
			}
			return "(gerr_not_found " + a + ")", nil
		}
		if sel, ok := x.Fun.(*ast.SelectorExpr); ok && len(x.Args) == 1 {
			if tv, ok := t.p.Info.Types[sel.X]; ok {
				if n, ok := tv.Type.(*types.Named); ok && n.Obj().Name() == "Time" {
					a, err := t.expr(sel.X)
					if err != nil {
						return "", err
					}
					b, err := t.expr(x.Args[0])
					if err != nil {
						return "", err
					}
					switch sel.Sel.Name {
					case "After":
						return fmt.Sprintf("(Z.ltb %s %s)", b, a), nil
					case "Before":
						return fmt.Sprintf("(Z.ltb %s %s)", a, b), nil
					case "Equal":
						return fmt.Sprintf("(Z.eqb %s %s)", a, b), nil
					}
				}
			}
		}
		return "", t.errf(e, "unsupported call %s", t.src(x.Fun))
	}
	return "", t.errf(e, "unsupported expression %T", e)
}

type kont struct {
	fall func() (string, error)
	cont func() (string, error) // continue (nil = not inside a loop): post statement, then the next round
	brk  func() (string, error) // break: leave the loop through its continuation
}

func (t *T) bind(name, kind string) string {
	if _, ok := t.order[name]; !ok {
		t.order[name] = len(t.order)
	}
	t.env[name] = &vinfo{coq: "v_" + name, kind: kind}
	return "v_" + name
}

// call recognises s.State(ctx, E), s.Current(ctx), findBound(...), findInRange(...)
func (t *T) call(e ast.Expr) (kind string, c *ast.CallExpr) {
	c, ok := e.(*ast.CallExpr)
	if !ok {
		return "", nil
	}
	switch t.src(c.Fun) {
	case "s.State":
		return "state", c
	case "s.Current":
		return "current", c
	case "findBound":
		return "findBound", c
	case "findInRange":
		return "findInRange", c
	}
	// an unexported helper of the package (function, or method of the stater): translated on demand
	key := ""
	switch f := c.Fun.(type) {
	case *ast.Ident:
		key = f.Name
	case *ast.SelectorExpr:
		if id, ok := f.X.(*ast.Ident); ok && id.Name == "s" {
			key = "stater." + f.Sel.Name
		}
	}
	if key != "" {
		if _, err := helperCfg(t.p, key); err == nil {
			return "helper:" + key, c
		}
	}
	return "", nil
}

var helperDefs []string
var helperDone = map[string]*fnCfg{}
var helperStack = map[string]bool{}

// helperCfg builds (and, the first time, translates) the configuration of a helper function.
func helperCfg(p *tr.Pkg, key string) (*fnCfg, error) {
	if c, ok := helperDone[key]; ok {
		return c, nil
	}
	fd := p.FuncDecls()[key]
	name := key[strings.LastIndex(key, ".")+1:]
	if fd == nil || fd.Body == nil || ast.IsExported(name) || fd.Type.Results == nil {
		return nil, fmt.Errorf("not a helper")
	}
	if helperStack[key] {
		return nil, fmt.Errorf("recursive helper %s", key)
	}
	cfg := &fnCfg{key: key, name: "gen_h_" + name}
	t0 := &T{p: p}
	var rts, pv []string
	for _, r := range fd.Type.Results.List {
		k := t0.kindOf(p.Info.Types[r.Type].Type)
		cfg.resKinds = append(cfg.resKinds, k)
		switch k {
		case "opt":
			rts, pv = append(rts, "option state"), append(pv, "None")
		case "err":
			rts, pv = append(rts, "gerr"), append(pv, "GPanic")
		default:
			return nil, fmt.Errorf("helper %s: unsupported result kind %s", key, k)
		}
	}
	if len(rts) == 0 || cfg.resKinds[len(rts)-1] != "err" {
		return nil, fmt.Errorf("helper %s: the last result must be an error", key)
	}
	cfg.resType, cfg.panicVal = strings.Join(rts, " * "), "("+strings.Join(pv, ", ")+")"
	helperStack[key] = true
	def, err := translate(p, cfg)
	delete(helperStack, key)
	if err != nil {
		return nil, err
	}
	helperDone[key] = cfg
	helperDefs = append(helperDefs, def+"#[global] Hint Unfold "+cfg.name+" : genhelpers.\n")
	return cfg, nil
}

// genCall renders a call of a generated function (ctx and s are dropped) returning the call text
// and the expressions whose dereferences must be guarded.
func (t *T) genCall(kind string, c *ast.CallExpr) (func() (string, error), []ast.Expr) {
	name := ""
	if strings.HasPrefix(kind, "helper:") {
		name = helperDone[strings.TrimPrefix(kind, "helper:")].name
	} else {
		name = fns[kind].name
	}
	var args []ast.Expr
	for _, a := range c.Args {
		if id, ok := a.(*ast.Ident); ok && (id.Name == "ctx" || id.Name == "s") {
			continue
		}
		args = append(args, a)
	}
	return func() (string, error) {
		out := "(" + name + " fuel Current State v_min"
		for _, a := range args {
			v, err := t.expr(a)
			if err != nil {
				return "", err
			}
			out += " " + v
		}
		return out + " tr)", nil
	}, args
}

func (t *T) assignTargets(lhs []ast.Expr, define bool) ([]string, error) {
	var names []string
	for _, l := range lhs {
		id, ok := l.(*ast.Ident)
		if !ok {
			return nil, t.errf(l, "unsupported assignment target")
		}
		if id.Name == "_" {
			names = append(names, "_")
			continue
		}
		if define || t.env[id.Name] == nil {
			obj := t.p.Info.Defs[id]
			if obj == nil {
				obj = t.p.Info.Uses[id]
			}
			if obj == nil {
				return nil, t.errf(l, "unknown variable %s", id.Name)
			}
			names = append(names, t.bind(id.Name, t.kindOf(obj.Type())))
		} else {
			names = append(names, t.env[id.Name].coq)
		}
	}
	return names, nil
}

func (t *T) block(l []ast.Stmt, k kont) (string, error) {
	if len(l) == 0 {
		return k.fall()
	}
	rest := func() (string, error) { return t.block(l[1:], k) }
	switch s := l[0].(type) {
	case *ast.ReturnStmt:
		if len(s.Results) == 1 {
			if kind, c := t.call(s.Results[0]); kind == "findInRange" || kind == "findBound" || strings.HasPrefix(kind, "helper:") {
				f, exprs := t.genCall(kind, c)
				return t.guarded(exprs, f)
			}
		}
		if len(s.Results) != len(t.cfg.resKinds) {
			return "", t.errf(s, "return with %d results", len(s.Results))
		}
		return t.guarded(s.Results, func() (string, error) {
			var vals []string
			for i, r := range s.Results {
				if isNil(r) {
					if t.cfg.resKinds[i] == "opt" {
						vals = append(vals, "None")
					} else {
						vals = append(vals, "GNil")
					}
					continue
				}
				v, err := t.expr(r)
				if err != nil {
					return "", err
				}
				vals = append(vals, v)
			}
			return "Some ((" + strings.Join(vals, ", ") + "), tr)", nil
		})
	case *ast.SwitchStmt:
		// tagless switch = if / else if chain (cases in source order, default last)
		if s.Tag != nil || s.Init != nil {
			return "", t.errf(s, "switch with tag or init")
		}
		var chain ast.Stmt
		var deflt []ast.Stmt
		var clauses []*ast.CaseClause
		for _, c := range s.Body.List {
			cc := c.(*ast.CaseClause)
			if cc.List == nil {
				deflt = cc.Body
			} else {
				clauses = append(clauses, cc)
			}
		}
		if deflt != nil {
			chain = &ast.BlockStmt{List: deflt}
		}
		for i := len(clauses) - 1; i >= 0; i-- {
			cond := clauses[i].List[0]
			for _, c := range clauses[i].List[1:] {
				cond = &ast.BinaryExpr{X: cond, Op: token.LOR, Y: c}
			}
			chain = &ast.IfStmt{Cond: cond, Body: &ast.BlockStmt{List: clauses[i].Body}, Else: chain}
		}
		if chain == nil {
			return rest()
		}
		if b, ok := chain.(*ast.BlockStmt); ok {
			return t.block(append(append([]ast.Stmt{}, b.List...), l[1:]...), k)
		}
		return t.block(append([]ast.Stmt{chain}, l[1:]...), k)
	case *ast.IncDecStmt:
		// x++ / x--  =  x = x ± 1
		op := token.ADD
		if s.Tok == token.DEC {
			op = token.SUB
		}
		as := &ast.AssignStmt{Lhs: []ast.Expr{s.X}, Tok: token.ASSIGN,
			Rhs: []ast.Expr{&ast.BinaryExpr{X: s.X, Op: op, Y: &ast.BasicLit{Kind: token.INT, Value: "1"}}}}
		return t.block(append([]ast.Stmt{as}, l[1:]...), k)
	case *ast.BranchStmt:
		if s.Tok == token.CONTINUE && s.Label == nil && k.cont != nil {
			return k.cont()
		}
		if s.Tok == token.BREAK && s.Label == nil && k.brk != nil {
			return k.brk()
		}
		return "", t.errf(s, "unsupported branch statement")
	case *ast.DeclStmt:
		gd, ok := s.Decl.(*ast.GenDecl)
		if !ok || gd.Tok != token.VAR {
			return "", t.errf(s, "unsupported declaration")
		}
		out := ""
		for _, sp := range gd.Specs {
			vs := sp.(*ast.ValueSpec)
			if len(vs.Values) != 0 {
				return "", t.errf(s, "var with initialiser")
			}
			for _, n := range vs.Names {
				kind := t.kindOf(t.p.Info.Defs[n].Type())
				zero := map[string]string{"opt": "(@None state)", "err": "GNil", "z": "0", "bool": "false"}[kind]
				out += fmt.Sprintf("let %s := %s in\n  ", t.bind(n.Name, kind), zero)
			}
		}
		r, err := rest()
		return out + r, err
	case *ast.AssignStmt:
		if s.Tok != token.DEFINE && s.Tok != token.ASSIGN {
			return "", t.errf(s, "unsupported assignment operator")
		}
		if len(s.Rhs) == 1 {
			if kind, c := t.call(s.Rhs[0]); kind != "" {
				switch kind {
				case "state", "current":
					var arg ast.Expr
					if kind == "state" {
						if len(c.Args) != 2 {
							return "", t.errf(s, "unexpected arguments")
						}
						arg = c.Args[1]
					}
					return t.guarded([]ast.Expr{arg}, func() (string, error) {
						id, fn := "0", "Current"
						if arg != nil {
							a, err := t.expr(arg)
							if err != nil {
								return "", err
							}
							id, fn = a, "(State "+a+")"
						}
						names, err := t.assignTargets(s.Lhs, s.Tok == token.DEFINE)
						if err != nil {
							return "", err
						}
						if len(names) != 2 {
							return "", t.errf(s, "call result must be bound to two variables")
						}
						r, err := rest()
						if err != nil {
							return "", err
						}
						return fmt.Sprintf("let '(%s, %s) := %s in\n  let tr := (tr ++ [%s])%%list in\n  %s", names[0], names[1], fn, id, r), nil
					})
				default:
					f, exprs := t.genCall(kind, c)
					return t.guarded(exprs, func() (string, error) {
						callText, err := f()
						if err != nil {
							return "", err
						}
						names, err := t.assignTargets(s.Lhs, s.Tok == token.DEFINE)
						if err != nil {
							return "", err
						}
						r, err := rest()
						if err != nil {
							return "", err
						}
						return fmt.Sprintf("match %s with\n  | None => None\n  | Some ((%s), tr) =>\n  %s\n  end", callText, strings.Join(names, ", "), r), nil
					})
				}
			}
		}
		if len(s.Lhs) != 1 || len(s.Rhs) != 1 {
			return "", t.errf(s, "unsupported assignment")
		}
		return t.guarded(s.Rhs, func() (string, error) {
			v, err := t.expr(s.Rhs[0])
			if err != nil {
				return "", err
			}
			names, err := t.assignTargets(s.Lhs, s.Tok == token.DEFINE)
			if err != nil {
				return "", err
			}
			r, err := rest()
			if err != nil {
				return "", err
			}
			return fmt.Sprintf("let %s := %s in\n  %s", names[0], v, r), nil
		})
	case *ast.IfStmt:
		if s.Init != nil {
			plain := *s
			plain.Init = nil
			return t.block(append([]ast.Stmt{s.Init, &plain}, l[1:]...), k)
		}
		return t.guarded([]ast.Expr{s.Cond}, func() (string, error) {
			c, err := t.expr(s.Cond)
			if err != nil {
				return "", err
			}
			e0 := t.saveEnv()
			a, err := t.block(s.Body.List, kont{fall: rest, cont: k.cont, brk: k.brk})
			if err != nil {
				return "", err
			}
			t.env = copyEnv(e0)
			var elseL []ast.Stmt
			switch x := s.Else.(type) {
			case nil:
			case *ast.BlockStmt:
				elseL = x.List
			default:
				elseL = []ast.Stmt{x}
			}
			b, err := t.block(elseL, kont{fall: rest, cont: k.cont, brk: k.brk})
			if err != nil {
				return "", err
			}
			t.env = e0
			return fmt.Sprintf("if %s then\n  %s\n  else\n  %s", c, a, b), nil
		})
	case *ast.ForStmt:
		if s.Cond == nil {
			return "", t.errf(s, "for without condition")
		}
		pre := ""
		if s.Init != nil {
			as, ok := s.Init.(*ast.AssignStmt)
			if !ok || as.Tok != token.DEFINE || len(as.Lhs) != 1 {
				return "", t.errf(s, "unsupported for init")
			}
			v, err := t.expr(as.Rhs[0])
			if err != nil {
				return "", err
			}
			id := as.Lhs[0].(*ast.Ident)
			pre = fmt.Sprintf("let %s := %s in\n  ", t.bind(id.Name, t.kindOf(t.p.Info.Defs[id].Type())), v)
		}
		var bodyL, postL []ast.Stmt
		bodyL = append(bodyL, s.Body.List...)
		if s.Post != nil {
			switch ps := s.Post.(type) {
			case *ast.IncDecStmt:
				op := token.ADD
				if ps.Tok == token.DEC {
					op = token.SUB
				}
				postL = append(postL, &ast.AssignStmt{Lhs: []ast.Expr{ps.X}, Tok: token.ASSIGN,
					Rhs: []ast.Expr{&ast.BinaryExpr{X: ps.X, Op: op, Y: &ast.BasicLit{Kind: token.INT, Value: "1"}}}})
			default:
				return "", t.errf(s, "unsupported for post statement")
			}
		}
		vars := t.assigned(s)
		t.nLoop++
		n := t.nLoop
		loop, fuelv := fmt.Sprintf("%s_loop%d", t.cfg.name, n), fmt.Sprintf("fuel%d", n)
		ty := map[string]string{"z": "Z", "opt": "option state", "err": "gerr", "bool": "bool"}
		isParam := map[string]bool{}
		var binders, args, ptypes []string
		for _, v := range vars {
			isParam[v] = true
			binders = append(binders, fmt.Sprintf("(%s : %s)", t.env[v].coq, ty[t.env[v].kind]))
			args = append(args, t.env[v].coq)
			ptypes = append(ptypes, ty[t.env[v].kind])
		}
		// every other variable in scope is passed along unchanged
		var free []string
		for name := range t.env {
			if !isParam[name] {
				free = append(free, name)
			}
		}
		sort.Slice(free, func(i, j int) bool { return t.order[free[i]] < t.order[free[j]] })
		var fbinders, fargs []string
		for _, v := range free {
			fbinders = append(fbinders, fmt.Sprintf("(%s : %s)", t.env[v].coq, ty[t.env[v].kind]))
			fargs = append(fargs, t.env[v].coq)
		}
		common := "fuel Current State v_min " + strings.Join(fargs, " ")
		outerFuel := t.fuel
		e0 := t.saveEnv()
		recur := func() (string, error) {
			return fmt.Sprintf("%s K_ %s %s' %s tr", loop, common, fuelv, strings.Join(args, " ")), nil
		}
		inner, err := t.guarded([]ast.Expr{s.Cond}, func() (string, error) {
			c, err := t.expr(s.Cond)
			if err != nil {
				return "", err
			}
			t.fuel = "(S " + fuelv + "')"
			// the end of the body and `continue` run the post statement, then the next round;
			// `break` leaves through the loop's continuation with the variables as they are
			next := func() (string, error) { return t.block(postL, kont{fall: recur}) }
			leave := func() (string, error) { return fmt.Sprintf("K_ %s tr", strings.Join(args, " ")), nil }
			body, err := t.block(bodyL, kont{fall: next, cont: next, brk: leave})
			if err != nil {
				return "", err
			}
			t.fuel = outerFuel
			return fmt.Sprintf("if %s then\n  match %s with\n  | O => None\n  | S %s' =>\n  %s\n  end\n  else\n  K_ %s tr", c, fuelv, fuelv, body, strings.Join(args, " ")), nil
		})
		if err != nil {
			return "", err
		}
		res := "option ((" + t.cfg.resType + ") * list Z)"
		t.defs = append(t.defs, fmt.Sprintf("Fixpoint %s (K_ : %s -> list Z -> %s)\n  (fuel : nat) (Current : option state * gerr) (State : Z -> option state * gerr) (v_min : Z) %s\n  (%s : nat) %s (tr : list Z) {struct %s} : %s :=\n  %s.\n",
			loop, strings.Join(ptypes, " -> "), res, strings.Join(fbinders, " "), fuelv, strings.Join(binders, " "), fuelv, res, inner))
		t.env = copyEnv(e0)
		after, err := rest()
		if err != nil {
			return "", err
		}
		t.env = e0
		return fmt.Sprintf("%s%s (fun %s tr =>\n  %s)\n  %s %s %s tr", pre, loop, strings.Join(binders, " "), after, common, outerFuel, strings.Join(args, " ")), nil
	}
	return "", t.errf(l[0], "unsupported statement %T", l[0])
}

func (t *T) saveEnv() map[string]*vinfo { return copyEnv(t.env) }

func copyEnv(e map[string]*vinfo) map[string]*vinfo {
	m := map[string]*vinfo{}
	for k, v := range e {
		m[k] = v
	}
	return m
}

// assigned lists, in declaration order, the variables assigned inside the loop (body and post
// statement) that are declared outside its body (the init variable included).
func (t *T) assigned(f *ast.ForStmt) []string {
	set := map[string]token.Pos{}
	visit := func(n ast.Node) {
		ast.Inspect(n, func(m ast.Node) bool {
			switch x := m.(type) {
			case *ast.AssignStmt:
				if x.Tok != token.ASSIGN {
					return true
				}
				for _, l := range x.Lhs {
					if id, ok := l.(*ast.Ident); ok {
						if obj := t.p.Info.Uses[id]; obj != nil && (obj.Pos() < f.Body.Pos() || obj.Pos() > f.Body.End()) {
							if _, known := t.env[id.Name]; known {
								set[id.Name] = obj.Pos()
							}
						}
					}
				}
			case *ast.IncDecStmt:
				if id, ok := x.X.(*ast.Ident); ok {
					if obj := t.p.Info.Uses[id]; obj != nil && (obj.Pos() < f.Body.Pos() || obj.Pos() > f.Body.End()) {
						if _, known := t.env[id.Name]; known {
							set[id.Name] = obj.Pos()
						}
					}
				}
			}
			return true
		})
	}
	visit(f.Body)
	if f.Post != nil {
		visit(f.Post)
	}
	var out []string
	for v := range set {
		out = append(out, v)
	}
	sort.Slice(out, func(i, j int) bool { return set[out[i]] < set[out[j]] })
	return out
}

func translate(p *tr.Pkg, cfg *fnCfg) (string, error) {
	fd := p.FuncDecls()[cfg.key]
	if fd == nil {
		return "", fmt.Errorf("%s: not found in source", cfg.key)
	}
	t := &T{p: p, cfg: cfg, env: map[string]*vinfo{}, refined: map[string]bool{}, fuel: "fuel", order: map[string]int{}}
	ty := map[string]string{"z": "Z", "opt": "option state", "err": "gerr", "bool": "bool"}
	var binders []string
	for _, f := range fd.Type.Params.List {
		for _, n := range f.Names {
			if n.Name == "ctx" || n.Name == "s" {
				continue
			}
			kind := t.kindOf(p.Info.Defs[n].Type())
			binders = append(binders, fmt.Sprintf("(%s : %s)", t.bind(n.Name, kind), ty[kind]))
		}
	}
	cfg.params = strings.Join(binders, " ")
	if fd.Type.Results == nil || len(fd.Type.Results.List) != len(cfg.resKinds) {
		return "", fmt.Errorf("%s: unexpected result list", cfg.key)
	}
	for i, r := range fd.Type.Results.List {
		if k := t.kindOf(p.Info.Types[r.Type].Type); k != cfg.resKinds[i] {
			return "", fmt.Errorf("%s: result %d has kind %s, expected %s", cfg.key, i, k, cfg.resKinds[i])
		}
	}
	body, err := t.block(fd.Body.List, kont{fall: func() (string, error) { return "", fmt.Errorf("%s: control falls off the end", cfg.key) }})
	if err != nil {
		return "", err
	}
	return "(* " + cfg.key + " *)\n" + strings.Join(t.defs, "\n") + "\n" +
		fmt.Sprintf("Definition %s (fuel : nat) (Current : option state * gerr) (State : Z -> option state * gerr) (v_min : Z) %s (tr : list Z)\n  : option ((%s) * list Z) :=\n  %s.\n",
			cfg.name, cfg.params, cfg.resType, body), nil
}

const prelude = `(* GENERATED by /verif/translator (cmd/replicationcode) from /repo/replication/search.go — do not edit. *)
From Coq Require Import ZArith List Bool.
Import ListNotations.
Open Scope Z_scope.

Definition state := (Z * Z)%type.          (* (SeqNum, Timestamp) *)
Inductive gerr := GNil | GNotFound | GOther | GPanic.   (* error values; GPanic = nil dereference *)
Definition gerr_is_nil (e : gerr) : bool := match e with GNil => true | _ => false end.
Definition gerr_not_found (e : gerr) : bool := match e with GNotFound => true | _ => false end.
Definition is_none {A} (o : option A) : bool := match o with None => true | Some _ => false end.

`

func main() {
	repo, out := os.Args[1], os.Args[2]
	if err := os.Chdir(repo); err != nil {
		fmt.Fprintln(os.Stderr, err)
		os.Exit(1)
	}
	p, err := tr.Load(filepath.Join(repo, "replication"), "github.com/paulmach/osm/replication")
	if err != nil {
		fmt.Fprintln(os.Stderr, "translator replicationcode:", err)
		os.Exit(1)
	}
	var text bytes.Buffer
	text.WriteString(prelude)
	failed := 0
	var mainDefs bytes.Buffer
	for _, k := range []string{"findInRange", "findBound", "searchTimestamp"} {
		s, err := translate(p, fns[k])
		if err != nil {
			fmt.Fprintf(&mainDefs, "(* NOT TRANSLATED %s: %v *)\n\n", k, err)
			fmt.Fprintf(os.Stderr, "translator replicationcode: %s: %v\n", k, err)
			failed++
			continue
		}
		mainDefs.WriteString(s + "\n")
	}
	text.WriteString("Create HintDb genhelpers.\n\n")
	for _, d := range helperDefs {
		text.WriteString(d + "\n")
	}
	text.Write(mainDefs.Bytes())
	if err := tr.Emit(filepath.Join(out, "GenReplicationCode.v"), text.Bytes()); err != nil {
		fmt.Fprintln(os.Stderr, err)
		os.Exit(1)
	}
	if failed > 0 {
		os.Exit(1)
	}
}
