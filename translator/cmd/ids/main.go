// ids: translates the id-packing constants and one-line constructors/decoders of package osm
// (feature.go, object.go, element.go, node.go, way.go, relation.go, changeset.go, note.go,
// user.go, bounds.go) into coq/gen/GenIds.v.   usage: ids <repo> <outdir>
package main

import (
	"fmt"
	"os"
	"path/filepath"

	"verif/translator/tr"
)

func main() {
	repo, out := os.Args[1], os.Args[2]
	if err := os.Chdir(repo); err != nil {
		fmt.Fprintln(os.Stderr, err)
		os.Exit(1)
	}
	p, err := tr.Load(repo, "github.com/paulmach/osm")
	if err != nil {
		fmt.Fprintln(os.Stderr, "translator ids:", err)
		os.Exit(1)
	}
	keys := []string{
		"NodeID.FeatureID", "NodeID.ElementID", "NodeID.ObjectID",
		"WayID.FeatureID", "WayID.ElementID", "WayID.ObjectID",
		"RelationID.FeatureID", "RelationID.ElementID", "RelationID.ObjectID",
		"ChangesetID.ObjectID", "NoteID.ObjectID", "UserID.ObjectID", "Bounds.ObjectID",
		"FeatureID.Type", "FeatureID.Ref", "FeatureID.ObjectID", "FeatureID.ElementID",
		"ElementID.Type", "ElementID.Ref", "ElementID.Version", "ElementID.ObjectID", "ElementID.FeatureID",
		"ObjectID.Type", "ObjectID.Ref", "ObjectID.Version",
		"Type.objectID", "Type.FeatureID",
		// the panicking conversions (partial functions: option, None = panic)
		"FeatureID.NodeID", "FeatureID.WayID", "FeatureID.RelationID",
		"ElementID.NodeID", "ElementID.WayID", "ElementID.RelationID",
		// ids of way nodes and relation members (struct receivers: one parameter per field read)
		"WayNode.FeatureID", "WayNode.ElementID", "Member.FeatureID", "Member.ElementID",
		// the struct-level methods of the objects themselves (pointer receivers, fields ID / Version)
		"Node.ObjectID", "Node.FeatureID", "Node.ElementID",
		"Way.ObjectID", "Way.FeatureID", "Way.ElementID",
		"Relation.ObjectID", "Relation.FeatureID", "Relation.ElementID",
		"Changeset.ObjectID", "Note.ObjectID", "User.ObjectID",
	}
	text := tr.EmitFuncs2(p, "generator: ids", keys)
	samples, err := emitSamples(repo, out)
	if err != nil {
		fmt.Fprintln(os.Stderr, "translator ids:", err)
		os.Exit(1)
	}
	text = append(text, samples...)
	if err := tr.Emit(filepath.Join(out, "GenIds.v"), text); err != nil {
		fmt.Fprintln(os.Stderr, err)
		os.Exit(1)
	}
}
