package main

// sample.go — a BEHAVIOURAL tie for the hand-modelled text functions and loops: at translation
// time a tiny generated Go program is run against the repository being translated; it prints
// the outputs of String() for a fixed id set, of Parse* for a fixed string corpus, and of
// Counts / the id lists for fixed lists.  The outputs become Coq data (sample_*) and GenOk.v
// shows by vm_compute that the model computes exactly them.  Unlike fingerprints of the source
// text (format strings, "calls strings.Split") this does not depend on how the functions are
// written, only on what they return.

import (
	"bytes"
	"encoding/json"
	"fmt"
	"os"
	"os/exec"
	"path/filepath"
	"strings"

	"verif/translator/tr"
)

const sampleMain = `package main

import (
	"encoding/json"
	"os"

	"github.com/paulmach/osm"
)

type row struct {
	T   string    ` + "`json:\"t\"`" + `
	W   int       ` + "`json:\"w\"`" + `
	ID  int64     ` + "`json:\"id\"`" + `
	S   string    ` + "`json:\"s\"`" + `
	OK  bool      ` + "`json:\"ok\"`" + `
	In  [][3]int64 ` + "`json:\"in\"`" + `
	Out []int64   ` + "`json:\"out\"`" + `
}

var enc = json.NewEncoder(os.Stdout)

func objectID(k int, r int64, v int) osm.ObjectID {
	switch k {
	case 0:
		var b *osm.Bounds
		return b.ObjectID()
	case 1:
		return osm.NodeID(r).ObjectID(v)
	case 2:
		return osm.WayID(r).ObjectID(v)
	case 3:
		return osm.RelationID(r).ObjectID(v)
	case 4:
		return osm.ChangesetID(r).ObjectID()
	case 5:
		return osm.NoteID(r).ObjectID()
	}
	return osm.UserID(r).ObjectID()
}

func object(k int, r int64, v int) osm.Object {
	switch k {
	case 0:
		return &osm.Bounds{}
	case 1:
		return &osm.Node{ID: osm.NodeID(r), Version: v}
	case 2:
		return &osm.Way{ID: osm.WayID(r), Version: v}
	case 3:
		return &osm.Relation{ID: osm.RelationID(r), Version: v}
	case 4:
		return &osm.Changeset{ID: osm.ChangesetID(r)}
	case 5:
		return &osm.Note{ID: osm.NoteID(r)}
	}
	return &osm.User{ID: osm.UserID(r)}
}

func main() {
	refs := []int64{0, 1, 12345, 549755813888, 1099511627775}
	vers := []int{0, 1, 255, 32768, 65535}
	texts := []string{"", "/", ":", "node", "node/", "/1", "node/1/2", "node/1:2:3", "node/:1", "node/1:", "node/a", "node/1:b",
		"Node/1", "node /1", " node/1", "node/1 ", "node/+1", "node/-1", "node/1:-", "node/1:+2", "node/01:002", "node/010", "nodes/1", "bounds/0", "bounds/5:7",
		"changeset/5:3", "user/1:1", "note/12", "way/9223372036854775807", "way/9223372036854775808", "relation/1_000", "node/0x10", "way/0b101", "relation/0o17", "node/1e3",
		"node//1", "node/1::2", "node/1:-:", "unknown/1", "node/--1", "node/1:--", "node/1:65535", "way/7:65536", "relation/1099511627775:32768", "node/1:0x10", "node/1:1_0"}
	for k := 0; k < 7; k++ {
		for _, r := range refs {
			for _, v := range vers {
				if (k < 1 || k > 3) && v != 0 {
					continue
				}
				if k == 0 && r != 0 {
					continue
				}
				oid := objectID(k, r, v)
				s := oid.String()
				enc.Encode(row{T: "S", W: 0, ID: int64(oid), S: s})
				texts = append(texts, s)
				if k >= 1 && k <= 3 {
					eid := osm.ElementID(oid)
					enc.Encode(row{T: "S", W: 1, ID: int64(eid), S: eid.String()})
					fid := eid.FeatureID()
					fs := fid.String()
					enc.Encode(row{T: "S", W: 2, ID: int64(fid), S: fs})
					texts = append(texts, fs)
				} else {
					// a feature id of no element kind prints as unknown/<ref>
					fid := osm.FeatureID(oid)
					enc.Encode(row{T: "S", W: 2, ID: int64(fid), S: fid.String()})
				}
			}
		}
	}
	enc.Encode(row{T: "S", W: 2, ID: 0, S: osm.FeatureID(0).String()})
	for _, t := range texts {
		o, err := osm.ParseObjectID(t)
		enc.Encode(row{T: "P", W: 0, S: t, OK: err == nil, ID: int64(o)})
		e, err := osm.ParseElementID(t)
		enc.Encode(row{T: "P", W: 1, S: t, OK: err == nil, ID: int64(e)})
		f, err := osm.ParseFeatureID(t)
		enc.Encode(row{T: "P", W: 2, S: t, OK: err == nil, ID: int64(f)})
	}
	lists := [][][3]int64{
		{},
		{{1, 1, 1}},
		{{1, 1, 1}, {2, 7, 0}, {3, 9, 65535}, {1, 1099511627775, 2}, {2, 7, 1}},
		{{4, 5, 0}, {1, 2, 3}, {5, 6, 0}, {6, 7, 0}, {0, 0, 0}, {3, 4, 5}, {3, 4, 6}},
		{{3, 1, 1}, {3, 1, 1}, {2, 1, 1}, {2, 2, 1}, {2, 3, 1}, {1, 0, 0}},
	}
	for _, l := range lists {
		fids := make(osm.FeatureIDs, len(l))
		eids := make(osm.ElementIDs, len(l))
		objs := make(osm.Objects, len(l))
		var es osm.Elements
		allElem := true
		for i, t := range l {
			oid := objectID(int(t[0]), t[1], int(t[2]))
			fids[i], eids[i] = osm.FeatureID(oid), osm.ElementID(oid)
			objs[i] = object(int(t[0]), t[1], int(t[2]))
			if t[0] < 1 || t[0] > 3 {
				allElem = false
			}
		}
		n, w, r := fids.Counts()
		enc.Encode(row{T: "C", W: 0, In: l, Out: []int64{int64(n), int64(w), int64(r)}})
		n, w, r = eids.Counts()
		enc.Encode(row{T: "C", W: 1, In: l, Out: []int64{int64(n), int64(w), int64(r)}})
		var out []int64
		for _, id := range objs.ObjectIDs() {
			out = append(out, int64(id))
		}
		enc.Encode(row{T: "L", W: 2, In: l, Out: out})
		if allElem {
			for _, o := range objs {
				es = append(es, o.(osm.Element))
			}
			out = nil
			for _, id := range es.ElementIDs() {
				out = append(out, int64(id))
			}
			enc.Encode(row{T: "L", W: 0, In: l, Out: out})
			out = nil
			for _, id := range es.FeatureIDs() {
				out = append(out, int64(id))
			}
			enc.Encode(row{T: "L", W: 1, In: l, Out: out})
		}
	}
}
`

type sampleRow struct {
	T   string     `json:"t"`
	W   int        `json:"w"`
	ID  int64      `json:"id"`
	S   string     `json:"s"`
	OK  bool       `json:"ok"`
	In  [][3]int64 `json:"in"`
	Out []int64    `json:"out"`
}

func coqZ(v int64) string {
	if v < 0 {
		return fmt.Sprintf("(%d)", v)
	}
	return fmt.Sprintf("%d", v)
}

func coqZs(l []int64) string {
	var p []string
	for _, v := range l {
		p = append(p, coqZ(v))
	}
	return "[" + strings.Join(p, "; ") + "]"
}

// emitSamples runs the sample program against repo and renders its output as Coq data.
func emitSamples(repo, out string) ([]byte, error) {
	repoAbs, err := filepath.Abs(repo)
	if err != nil {
		return nil, err
	}
	base := filepath.Join(out, "..", "..", "work")
	if err := os.MkdirAll(base, 0o755); err != nil {
		return nil, err
	}
	dir, err := os.MkdirTemp(base, "ids-sample-")
	if err != nil {
		return nil, err
	}
	defer os.RemoveAll(dir)
	mod := "module idsample\n\ngo 1.16\n\nrequire github.com/paulmach/osm v0.0.0\n\nreplace github.com/paulmach/osm => " + repoAbs + "\n"
	if err := os.WriteFile(filepath.Join(dir, "go.mod"), []byte(mod), 0o644); err != nil {
		return nil, err
	}
	if sum, err := os.ReadFile(filepath.Join(repoAbs, "go.sum")); err == nil {
		os.WriteFile(filepath.Join(dir, "go.sum"), sum, 0o644)
	}
	if err := os.WriteFile(filepath.Join(dir, "main.go"), []byte(sampleMain), 0o644); err != nil {
		return nil, err
	}
	cmd := exec.Command("go", "run", ".")
	cmd.Dir = dir
	cmd.Env = append(os.Environ(), "GOFLAGS=-mod=mod", "GOPROXY=off", "GOSUMDB=off", "GOTOOLCHAIN=local")
	var stdout, stderr bytes.Buffer
	cmd.Stdout, cmd.Stderr = &stdout, &stderr
	if err := cmd.Run(); err != nil {
		return nil, fmt.Errorf("sample program: %v\n%s", err, stderr.String())
	}
	var strs, parses, counts, lists []string
	dec := json.NewDecoder(&stdout)
	for dec.More() {
		var r sampleRow
		if err := dec.Decode(&r); err != nil {
			return nil, fmt.Errorf("sample output: %v", err)
		}
		switch r.T {
		case "S":
			strs = append(strs, fmt.Sprintf("(%d, %s, %s)", r.W, coqZ(r.ID), tr.CoqString(r.S)))
		case "P":
			o := "None"
			if r.OK {
				o = "Some " + coqZ(r.ID)
			}
			parses = append(parses, fmt.Sprintf("(%d, %s, %s)", r.W, tr.CoqString(r.S), o))
		case "C", "L":
			var in []string
			for _, t := range r.In {
				in = append(in, fmt.Sprintf("(%d, %s, %s)", t[0], coqZ(t[1]), coqZ(t[2])))
			}
			row := fmt.Sprintf("(%d, [%s], %s)", r.W, strings.Join(in, "; "), coqZs(r.Out))
			if r.T == "C" {
				counts = append(counts, row)
			} else {
				lists = append(lists, row)
			}
		}
	}
	var b bytes.Buffer
	b.WriteString("\n(* SAMPLED BEHAVIOUR of the hand-modelled functions: printed by a small Go program run against\n   the translated repository at translation time (translator/cmd/ids/sample.go).\n   which: 0 object id, 1 element id, 2 feature id; kinds in lists: 0 bounds 1 node 2 way\n   3 relation 4 changeset 5 note 6 user *)\n")
	fmt.Fprintf(&b, "Definition sample_strings : list (Z * Z * string) := [\n  %s\n].\n", strings.Join(strs, ";\n  "))
	fmt.Fprintf(&b, "Definition sample_parses : list (Z * string * option Z) := [\n  %s\n].\n", strings.Join(parses, ";\n  "))
	fmt.Fprintf(&b, "(* Counts: which 0 FeatureIDs 1 ElementIDs, ids as (kind, ref, version), (nodes, ways, relations) *)\nDefinition sample_counts : list (Z * list (Z * Z * Z) * list Z) := [\n  %s\n].\n", strings.Join(counts, ";\n  "))
	fmt.Fprintf(&b, "(* id lists: which 0 Elements.ElementIDs 1 Elements.FeatureIDs 2 Objects.ObjectIDs *)\nDefinition sample_lists : list (Z * list (Z * Z * Z) * list Z) := [\n  %s\n].\n", strings.Join(lists, ";\n  "))
	return b.Bytes(), nil
}
