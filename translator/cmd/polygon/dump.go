package main

// dump.go — the rule table AS IT IS AT RUN TIME, after init(): a tiny generated Go program is
// run against the repository at translation time with the build tag "verif" and prints
// osm.VerifPolyConditions() (hook /repo/verif_export.go).  GenPolygon.poly_runtime_rules is that
// dump; GenOk.v proves on it that every value list is sorted and that it equals the model's
// init applied to the source literal.  So "init() sorts" is an obligation on the code's own
// init(), not only on the model of it.

import (
	"bytes"
	"encoding/json"
	"fmt"
	"os"
	"os/exec"
	"path/filepath"
	"strings"

	"verif/translator/tr"
)

const dumpMain = `package main

import (
	"encoding/json"
	"os"

	"github.com/paulmach/osm"
)

func main() {
	json.NewEncoder(os.Stdout).Encode(map[string]interface{}{
		"names": osm.VerifPolyConditionNames(),
		"rules": osm.VerifPolyConditions(),
	})
}
`

type dumpOut struct {
	Names [3]string `json:"names"`
	Rules []struct {
		Key       string
		Condition string
		Values    []string
	} `json:"rules"`
}

func emitRuntimeDump(repo, out string) ([]byte, error) {
	repoAbs, err := filepath.Abs(repo)
	if err != nil {
		return nil, err
	}
	base := filepath.Join(out, "..", "..", "work")
	if err := os.MkdirAll(base, 0o755); err != nil {
		return nil, err
	}
	dir, err := os.MkdirTemp(base, "polygon-dump-")
	if err != nil {
		return nil, err
	}
	defer os.RemoveAll(dir)
	mod := "module polydump\n\ngo 1.16\n\nrequire github.com/paulmach/osm v0.0.0\n\nreplace github.com/paulmach/osm => " + repoAbs + "\n"
	if err := os.WriteFile(filepath.Join(dir, "go.mod"), []byte(mod), 0o644); err != nil {
		return nil, err
	}
	if sum, err := os.ReadFile(filepath.Join(repoAbs, "go.sum")); err == nil {
		os.WriteFile(filepath.Join(dir, "go.sum"), sum, 0o644)
	}
	if err := os.WriteFile(filepath.Join(dir, "main.go"), []byte(dumpMain), 0o644); err != nil {
		return nil, err
	}
	cmd := exec.Command("go", "run", "-tags", "verif", ".")
	cmd.Dir = dir
	cmd.Env = append(os.Environ(), "GOFLAGS=-mod=mod", "GOPROXY=off", "GOSUMDB=off", "GOTOOLCHAIN=local")
	var stdout, stderr bytes.Buffer
	cmd.Stdout, cmd.Stderr = &stdout, &stderr
	if err := cmd.Run(); err != nil {
		return nil, fmt.Errorf("run-time dump: %v\n%s", err, stderr.String())
	}
	var d dumpOut
	if err := json.Unmarshal(stdout.Bytes(), &d); err != nil {
		return nil, fmt.Errorf("run-time dump output: %v", err)
	}
	var b bytes.Buffer
	b.WriteString("\n(* RUN-TIME DUMP: polyConditions after init(), printed by a small Go program run with -tags verif\n   against the translated repository at translation time (translator/cmd/polygon/dump.go);\n   values in the order they have at run time *)\n")
	fmt.Fprintf(&b, "Definition poly_runtime_cond_names : list string := [%s; %s; %s].\n", tr.CoqString(d.Names[0]), tr.CoqString(d.Names[1]), tr.CoqString(d.Names[2]))
	b.WriteString("Definition poly_runtime_rules : list (string * string * list string) := [\n")
	var rows []string
	for _, r := range d.Rules {
		rows = append(rows, fmt.Sprintf("  (%s, %s, %s)", tr.CoqString(r.Key), tr.CoqString(r.Condition), coqStrings(r.Values)))
	}
	b.WriteString(strings.Join(rows, ";\n"))
	b.WriteString("\n].\n")
	return b.Bytes(), nil
}
