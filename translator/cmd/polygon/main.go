// polygon: re-reads /repo's package osm with go/ast and emits coq/gen/GenPolygon.v:
//
//   - the three condition constants (conditionAll / conditionWhitelist / conditionBlacklist),
//
//   - the rule table exactly as written in the source (source order, values in source order,
//     i.e. BEFORE init() sorts them).  Three ways of writing the table are understood, tried
//     in this order (poly_table_source says which one was used):
//     1. "json-literal": the variable handed to json.Unmarshal(X, &polyConditions) (default name
//     polygonJSON) is initialised with a string literal, possibly through conversions
//     such as []byte("...") or through another package-level string constant/variable;
//     2. "json-embed":   that variable carries a //go:embed directive: the file is read;
//     3. "go-literal":   polyConditions itself is initialised with a composite literal
//     []polyCondition{{Key: ..., Condition: ..., Values: []string{...}}, ...}.
//     JSON is decoded through the json tags of the polyCondition struct, the way encoding/json
//     fills []polyCondition.  Anything else is a translator failure (= broken obligation).
//
//   - the literals inside Way.Polygon and Relation.Polygon: string literals (and
//     package-level string constants/variables referred to) of the body itself, those of the
//     same-package functions/methods it calls (by name, transitively), and the minimum number of
//     node refs implied by the length test (len(..) <= N  or  len(..) < N, also through a local
//     n := len(..)).  When a function is not found or the length test has another shape the
//     corresponding definition says so (found = false / None) and GenOk has nothing to check:
//     the behaviour is then tied by correspondence only.
//
//   - tag.go: the keys of the UninterestingTags map literal that are mapped to true.
//
// Nothing is executed: the run-time table (after init) is dumped by the harness through the
// verif hook and compared in Coq with [init_table] applied to this table (C18/Check.v).
// usage: polygon <repo> <outdir>
package main

import (
	"bytes"
	"encoding/json"
	"fmt"
	"go/ast"
	"go/parser"
	"go/token"
	"os"
	"path/filepath"
	"reflect"
	"sort"
	"strconv"
	"strings"

	"verif/translator/tr"
)

func fail(format string, a ...interface{}) {
	fmt.Fprintf(os.Stderr, "translator polygon: "+format+"\n", a...)
	os.Exit(1)
}

type rule struct {
	key, cond string
	values    []string
}

type world struct {
	fset    *token.FileSet
	files   map[string]*ast.File
	vars    map[string]string // package-level string-valued vars/consts (resolved)
	varExpr map[string]ast.Expr
	varPos  map[string]string
	embed   map[string]string // var name -> embedded file name
	funcs   map[string][]*ast.FuncDecl
}

// str evaluates e as a string: a literal, a conversion of one, a parenthesised one, a
// concatenation, or a package-level string constant/variable.
func (w *world) str(e ast.Expr, depth int) (string, bool) {
	if depth > 8 {
		return "", false
	}
	switch x := e.(type) {
	case *ast.BasicLit:
		if x.Kind != token.STRING {
			return "", false
		}
		s, err := strconv.Unquote(x.Value)
		return s, err == nil
	case *ast.ParenExpr:
		return w.str(x.X, depth+1)
	case *ast.CallExpr: // conversion: []byte("..."), conditionType("..."), string(x)
		if len(x.Args) == 1 {
			switch f := x.Fun.(type) {
			case *ast.ArrayType:
				return w.str(x.Args[0], depth+1)
			case *ast.Ident:
				// T(x) with T a type; a call f(x) of a package function is not a conversion
				if _, isFunc := w.funcs[f.Name]; !isFunc {
					return w.str(x.Args[0], depth+1)
				}
			}
		}
	case *ast.BinaryExpr:
		if x.Op == token.ADD {
			a, ok1 := w.str(x.X, depth+1)
			b, ok2 := w.str(x.Y, depth+1)
			return a + b, ok1 && ok2
		}
	case *ast.Ident:
		if v, ok := w.vars[x.Name]; ok {
			return v, true
		}
		if ex, ok := w.varExpr[x.Name]; ok {
			return w.str(ex, depth+1)
		}
	}
	return "", false
}

func recvName(fd *ast.FuncDecl) string {
	if fd.Recv == nil || len(fd.Recv.List) != 1 {
		return ""
	}
	return tr.RecvName(fd.Recv.List[0].Type)
}

func (w *world) findMethod(recv, name string) *ast.FuncDecl {
	for _, fd := range w.funcs[name] {
		if recvName(fd) == recv {
			return fd
		}
	}
	return nil
}

type lits struct {
	found   bool
	direct  []string
	callee  []string
	minSome bool
	min     int64
}

func addUnique(l []string, s string) []string {
	for _, x := range l {
		if x == s {
			return l
		}
	}
	return append(l, s)
}

// collect gathers the string literals of fd's body (direct) and of everything it calls in the
// package (callee).
func (w *world) collect(fd *ast.FuncDecl) lits {
	out := lits{found: true}
	visited := map[*ast.FuncDecl]bool{fd: true}
	var walk func(body ast.Node, direct bool)
	walk = func(body ast.Node, direct bool) {
		ast.Inspect(body, func(n ast.Node) bool {
			switch x := n.(type) {
			case *ast.BasicLit:
				if x.Kind == token.STRING {
					if s, err := strconv.Unquote(x.Value); err == nil {
						if direct {
							out.direct = addUnique(out.direct, s)
						} else {
							out.callee = addUnique(out.callee, s)
						}
					}
				}
			case *ast.Ident:
				if _, isPkg := w.varExpr[x.Name]; isPkg && isPkgLevel(w, x) {
					if s, ok := w.str(x, 0); ok {
						if direct {
							out.direct = addUnique(out.direct, s)
						} else {
							out.callee = addUnique(out.callee, s)
						}
					}
				}
			case *ast.CallExpr:
				name := ""
				switch f := x.Fun.(type) {
				case *ast.Ident:
					name = f.Name
				case *ast.SelectorExpr:
					name = f.Sel.Name
				}
				for _, cd := range w.funcs[name] {
					if !visited[cd] && cd.Body != nil {
						visited[cd] = true
						walk(cd.Body, false)
					}
				}
			}
			return true
		})
	}
	if fd.Body != nil {
		walk(fd.Body, true)
		out.minSome, out.min = w.minNodes(fd.Body)
	}
	return out
}

// isPkgLevel: the identifier resolves to a package-level declaration (not shadowed locally).
func isPkgLevel(w *world, id *ast.Ident) bool {
	if id.Obj == nil {
		return true // resolved in another file of the package
	}
	vs, ok := id.Obj.Decl.(*ast.ValueSpec)
	if !ok {
		return false
	}
	for _, f := range w.files {
		for _, d := range f.Decls {
			if gd, ok := d.(*ast.GenDecl); ok {
				for _, sp := range gd.Specs {
					if sp == ast.Spec(vs) {
						return true
					}
				}
			}
		}
	}
	return false
}

// minNodes recognises  len(X) <= N  /  len(X) < N  (or the mirrored  N >= len(X) / N > len(X)),
// where len(X) may be held in a local variable assigned from len(..); it must be the condition of
// an if statement.  Returns the smallest length that passes the test.
func (w *world) minNodes(body *ast.BlockStmt) (bool, int64) {
	lenVars := map[string]bool{}
	isLen := func(e ast.Expr) bool {
		switch x := e.(type) {
		case *ast.CallExpr:
			if id, ok := x.Fun.(*ast.Ident); ok && id.Name == "len" && len(x.Args) == 1 {
				return strings.Contains(exprString(x.Args[0]), "Nodes")
			}
		case *ast.Ident:
			return lenVars[x.Name]
		}
		return false
	}
	intLit := func(e ast.Expr) (int64, bool) {
		if b, ok := e.(*ast.BasicLit); ok && b.Kind == token.INT {
			v, err := strconv.ParseInt(b.Value, 0, 64)
			return v, err == nil
		}
		return 0, false
	}
	found, min := false, int64(0)
	n := 0
	ast.Inspect(body, func(nd ast.Node) bool {
		switch x := nd.(type) {
		case *ast.AssignStmt:
			if len(x.Lhs) == 1 && len(x.Rhs) == 1 {
				if id, ok := x.Lhs[0].(*ast.Ident); ok && isLen(x.Rhs[0]) {
					lenVars[id.Name] = true
				}
			}
		case *ast.IfStmt:
			be, ok := x.Cond.(*ast.BinaryExpr)
			if !ok {
				return true
			}
			l, r, op := be.X, be.Y, be.Op
			if v, ok := intLit(l); ok && isLen(r) { // mirror
				switch op {
				case token.GEQ:
					n, found, min = n+1, true, v+1
				case token.GTR:
					n, found, min = n+1, true, v
				}
			} else if v, ok := intLit(r); ok && isLen(l) {
				switch op {
				case token.LEQ:
					n, found, min = n+1, true, v+1
				case token.LSS:
					n, found, min = n+1, true, v
				}
			}
		}
		return true
	})
	if n != 1 {
		return false, 0
	}
	return found, min
}

func exprString(e ast.Expr) string {
	switch x := e.(type) {
	case *ast.Ident:
		return x.Name
	case *ast.SelectorExpr:
		return exprString(x.X) + "." + x.Sel.Name
	case *ast.StarExpr:
		return "*" + exprString(x.X)
	case *ast.ParenExpr:
		return exprString(x.X)
	}
	return "?"
}

func coqStrings(l []string) string {
	var vs []string
	for _, v := range l {
		vs = append(vs, tr.CoqString(v))
	}
	return "[" + strings.Join(vs, "; ") + "]"
}

func main() {
	if len(os.Args) < 3 {
		fail("usage: polygon <repo> <outdir>")
	}
	repo, out := os.Args[1], os.Args[2]
	fset := token.NewFileSet()
	pkgs, err := parser.ParseDir(fset, repo, func(fi os.FileInfo) bool {
		n := fi.Name()
		return !strings.HasSuffix(n, "_test.go") && !strings.HasPrefix(n, "verif_")
	}, parser.ParseComments)
	if err != nil {
		fail("%v", err)
	}
	pkg, ok := pkgs["osm"]
	if !ok {
		fail("package osm not found in %s", repo)
	}
	w := &world{fset: fset, files: pkg.Files, vars: map[string]string{}, varExpr: map[string]ast.Expr{}, varPos: map[string]string{},
		embed: map[string]string{}, funcs: map[string][]*ast.FuncDecl{}}

	jsonName := map[string]string{}  // polyCondition field -> json key
	fieldType := map[string]string{} // polyCondition field -> printed type
	haveStruct := false
	var fnames []string
	for fname := range pkg.Files {
		fnames = append(fnames, fname)
	}
	sort.Strings(fnames)
	for _, fname := range fnames {
		f := pkg.Files[fname]
		for _, d := range f.Decls {
			if fd, ok := d.(*ast.FuncDecl); ok {
				w.funcs[fd.Name.Name] = append(w.funcs[fd.Name.Name], fd)
				continue
			}
			gd, ok := d.(*ast.GenDecl)
			if !ok {
				continue
			}
			for _, sp := range gd.Specs {
				switch s := sp.(type) {
				case *ast.ValueSpec:
					for _, doc := range []*ast.CommentGroup{gd.Doc, s.Doc} {
						if doc == nil {
							continue
						}
						for _, c := range doc.List {
							if strings.HasPrefix(c.Text, "//go:embed ") && len(s.Names) == 1 {
								w.embed[s.Names[0].Name] = strings.TrimSpace(strings.TrimPrefix(c.Text, "//go:embed "))
							}
						}
					}
					for i, n := range s.Names {
						w.varPos[n.Name] = fmt.Sprintf("%s:%d", filepath.Base(fname), fset.Position(n.Pos()).Line)
						if i < len(s.Values) {
							w.varExpr[n.Name] = s.Values[i]
						}
					}
				case *ast.TypeSpec:
					if s.Name.Name != "polyCondition" {
						continue
					}
					st, ok := s.Type.(*ast.StructType)
					if !ok {
						fail("polyCondition is not a struct")
					}
					haveStruct = true
					for _, fl := range st.Fields.List {
						tag := ""
						if fl.Tag != nil {
							t, _ := strconv.Unquote(fl.Tag.Value)
							tag = strings.Split(reflect.StructTag(t).Get("json"), ",")[0]
						}
						var tb bytes.Buffer
						switch t := fl.Type.(type) {
						case *ast.Ident:
							tb.WriteString(t.Name)
						case *ast.ArrayType:
							if id, ok := t.Elt.(*ast.Ident); ok && t.Len == nil {
								tb.WriteString("[]" + id.Name)
							}
						}
						for _, n := range fl.Names {
							jn := tag
							if jn == "" {
								jn = n.Name
							}
							jsonName[n.Name] = jn
							fieldType[n.Name] = tb.String()
						}
					}
				}
			}
		}
	}
	for n, e := range w.varExpr {
		if v, ok := w.str(e, 0); ok {
			w.vars[n] = v
		}
	}
	if !haveStruct {
		fail("type polyCondition not found")
	}
	for _, f := range []string{"Key", "Condition", "Values"} {
		if _, ok := jsonName[f]; !ok {
			fail("polyCondition has no field %s (fields: %v)", f, jsonName)
		}
	}
	if fieldType["Values"] != "[]string" {
		fail("polyCondition.Values has type %q, expected []string", fieldType["Values"])
	}
	for _, v := range []string{"conditionAll", "conditionWhitelist", "conditionBlacklist"} {
		if _, ok := w.vars[v]; !ok {
			fail("package-level string %s not found", v)
		}
	}

	// which variable is unmarshalled into polyConditions?
	jsonVar := "polygonJSON"
	for _, fds := range w.funcs {
		for _, fd := range fds {
			if fd.Body == nil {
				continue
			}
			ast.Inspect(fd.Body, func(n ast.Node) bool {
				ce, ok := n.(*ast.CallExpr)
				if !ok || len(ce.Args) != 2 {
					return true
				}
				if se, ok := ce.Fun.(*ast.SelectorExpr); !ok || se.Sel.Name != "Unmarshal" {
					return true
				}
				if ue, ok := ce.Args[1].(*ast.UnaryExpr); ok && ue.Op == token.AND && exprString(ue.X) == "polyConditions" {
					if id, ok := ce.Args[0].(*ast.Ident); ok {
						jsonVar = id.Name
					}
				}
				return true
			})
		}
	}

	var rules []rule
	source := ""
	decodeJSON := func(text []byte) {
		// the way encoding/json fills []polyCondition: keys matched exactly, else
		// case-insensitively; last duplicate wins; unknown keys ignored.
		var raw []map[string]json.RawMessage
		if err := json.Unmarshal(text, &raw); err != nil {
			fail("%s is not a JSON array of objects: %v", jsonVar, err)
		}
		get := func(o map[string]json.RawMessage, name string) (json.RawMessage, bool) {
			if v, ok := o[name]; ok {
				return v, true
			}
			var ks []string
			for k := range o {
				ks = append(ks, k)
			}
			sort.Strings(ks)
			for _, k := range ks {
				if strings.EqualFold(k, name) {
					return o[k], true
				}
			}
			return nil, false
		}
		for i, o := range raw {
			var r rule
			if v, ok := get(o, jsonName["Key"]); ok {
				if err := json.Unmarshal(v, &r.key); err != nil {
					fail("rule %d: key: %v", i, err)
				}
			}
			if v, ok := get(o, jsonName["Condition"]); ok {
				if err := json.Unmarshal(v, &r.cond); err != nil {
					fail("rule %d: condition: %v", i, err)
				}
			}
			if v, ok := get(o, jsonName["Values"]); ok {
				if err := json.Unmarshal(v, &r.values); err != nil {
					fail("rule %d: values: %v", i, err)
				}
			}
			rules = append(rules, r)
		}
	}
	if text, ok := w.vars[jsonVar]; ok {
		source = "json-literal"
		decodeJSON([]byte(text))
	} else if fn, ok := w.embed[jsonVar]; ok {
		source = "json-embed"
		text, err := os.ReadFile(filepath.Join(repo, fn))
		if err != nil {
			fail("embedded table %s: %v", fn, err)
		}
		decodeJSON(text)
	} else if cl, ok := w.varExpr["polyConditions"].(*ast.CompositeLit); ok {
		source = "go-literal"
		for i, el := range cl.Elts {
			rc, ok := el.(*ast.CompositeLit)
			if !ok {
				fail("polyConditions element %d is not a composite literal", i)
			}
			var r rule
			for j, fe := range rc.Elts {
				kv, ok := fe.(*ast.KeyValueExpr)
				if !ok {
					fail("polyConditions element %d field %d: positional fields are not supported", i, j)
				}
				switch exprString(kv.Key) {
				case "Key":
					if r.key, ok = w.str(kv.Value, 0); !ok {
						fail("polyConditions element %d: Key is not a string constant", i)
					}
				case "Condition":
					if r.cond, ok = w.str(kv.Value, 0); !ok {
						fail("polyConditions element %d: Condition is not a string constant", i)
					}
				case "Values":
					vl, ok := kv.Value.(*ast.CompositeLit)
					if !ok {
						fail("polyConditions element %d: Values is not a slice literal", i)
					}
					for _, ve := range vl.Elts {
						s, ok := w.str(ve, 0)
						if !ok {
							fail("polyConditions element %d: a value is not a string constant", i)
						}
						r.values = append(r.values, s)
					}
				default:
					fail("polyConditions element %d: unknown field %s", i, exprString(kv.Key))
				}
			}
			rules = append(rules, r)
		}
	} else {
		fail("the rule table was not found: %s is neither a string literal nor //go:embed, and polyConditions is not a composite literal", jsonVar)
	}

	// literals of the two Polygon methods
	var wl, rl lits
	if fd := w.findMethod("Way", "Polygon"); fd != nil {
		wl = w.collect(fd)
	}
	if fd := w.findMethod("Relation", "Polygon"); fd != nil {
		rl = w.collect(fd)
	}

	// tag.go: the keys of UninterestingTags that are mapped to true
	var unint []string
	ucl, ok := w.varExpr["UninterestingTags"].(*ast.CompositeLit)
	if !ok {
		fail("UninterestingTags is not initialised with a map literal")
	}
	for i, el := range ucl.Elts {
		kv, ok := el.(*ast.KeyValueExpr)
		if !ok {
			fail("UninterestingTags element %d is not key: value", i)
		}
		k, ok := w.str(kv.Key, 0)
		if !ok {
			fail("UninterestingTags element %d: the key is not a string constant", i)
		}
		switch exprString(kv.Value) {
		case "true":
			unint = addUnique(unint, k)
		case "false":
		default:
			fail("UninterestingTags[%q] is neither true nor false", k)
		}
	}

	var b bytes.Buffer
	fmt.Fprintf(&b, "(* GENERATED by /verif/translator/cmd/polygon from /repo (package osm) — do not edit.\n")
	fmt.Fprintf(&b, "   rule table: route %s, variable %s at %s, decoded through the json tags of polyCondition\n", source, jsonVar, w.varPos[jsonVar])
	fmt.Fprintf(&b, "   (Key=%q Condition=%q Values=%q); values are in SOURCE order (before init sorts them). *)\n",
		jsonName["Key"], jsonName["Condition"], jsonName["Values"])
	b.WriteString("From Coq Require Import String List ZArith.\nImport ListNotations.\nOpen Scope string_scope.\n\n")
	fmt.Fprintf(&b, "Definition poly_table_source : string := %s.\n\n", tr.CoqString(source))
	fmt.Fprintf(&b, "Definition cond_all : string := %s.\n", tr.CoqString(w.vars["conditionAll"]))
	fmt.Fprintf(&b, "Definition cond_whitelist : string := %s.\n", tr.CoqString(w.vars["conditionWhitelist"]))
	fmt.Fprintf(&b, "Definition cond_blacklist : string := %s.\n\n", tr.CoqString(w.vars["conditionBlacklist"]))
	b.WriteString("(* (key, condition, values) *)\n")
	b.WriteString("Definition poly_json_rules : list (string * string * list string) := [\n")
	for i, r := range rules {
		sep := ";"
		if i == len(rules)-1 {
			sep = ""
		}
		fmt.Fprintf(&b, "  (%s, %s, %s)%s\n", tr.CoqString(r.key), tr.CoqString(r.cond), coqStrings(r.values), sep)
	}
	b.WriteString("].\n\n")
	emitLits := func(prefix, what string, l lits) {
		fmt.Fprintf(&b, "(* literals of %s: found = the method exists; strings of its own body; strings of the\n   package functions it calls; smallest number of node refs that passes its length test *)\n", what)
		fmt.Fprintf(&b, "Definition %s_found : bool := %v.\n", prefix, l.found)
		fmt.Fprintf(&b, "Definition %s_strings : list string := %s.\n", prefix, coqStrings(l.direct))
		fmt.Fprintf(&b, "Definition %s_callee_strings : list string := %s.\n", prefix, coqStrings(l.callee))
		if l.minSome {
			fmt.Fprintf(&b, "Definition %s_min_nodes : option Z := Some %d%%Z.\n\n", prefix, l.min)
		} else {
			fmt.Fprintf(&b, "Definition %s_min_nodes : option Z := None.\n\n", prefix)
		}
	}
	emitLits("lit_way", "Way.Polygon", wl)
	emitLits("lit_rel", "Relation.Polygon", rl)
	fmt.Fprintf(&b, "(* tag.go: keys of UninterestingTags mapped to true, source order (%s) *)\n", w.varPos["UninterestingTags"])
	fmt.Fprintf(&b, "Definition uninteresting_tags : list string := %s.\n", coqStrings(unint))
	dump, err := emitRuntimeDump(repo, out)
	if err != nil {
		fail("%v", err)
	}
	b.Write(dump)
	if err := tr.Emit(filepath.Join(out, "GenPolygon.v"), b.Bytes()); err != nil {
		fail("%v", err)
	}
}
