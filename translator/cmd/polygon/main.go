// polygon: re-reads /repo/polygon.go with go/ast and emits coq/gen/GenPolygon.v:
//   - the three condition constants (conditionAll / conditionWhitelist / conditionBlacklist),
//   - the rule table exactly as written in the polygonJSON literal (source order, values in
//     source order, i.e. BEFORE init() sorts them), decoded through the json tags of the
//     polyCondition struct.
//
// Nothing is executed: the run-time table (after init) is dumped by the harness through the
// verif hook and compared in Coq with [init_table] applied to this table (C18/Check.v).
// usage: polygon <repo> <outdir>
package main

import (
	"bytes"
	"encoding/json"
	"fmt"
	"go/ast"
	"go/parser"
	"go/token"
	"os"
	"path/filepath"
	"reflect"
	"strconv"
	"strings"

	"verif/translator/tr"
)

func fail(format string, a ...interface{}) {
	fmt.Fprintf(os.Stderr, "translator polygon: "+format+"\n", a...)
	os.Exit(1)
}

// stringLit returns the value of a string literal, looking through conversions such as
// []byte("...") or conditionType("...").
func stringLit(e ast.Expr) (string, bool) {
	switch x := e.(type) {
	case *ast.BasicLit:
		if x.Kind != token.STRING {
			return "", false
		}
		s, err := strconv.Unquote(x.Value)
		return s, err == nil
	case *ast.ParenExpr:
		return stringLit(x.X)
	case *ast.CallExpr:
		if len(x.Args) == 1 {
			return stringLit(x.Args[0])
		}
	}
	return "", false
}

func main() {
	if len(os.Args) < 3 {
		fail("usage: polygon <repo> <outdir>")
	}
	repo, out := os.Args[1], os.Args[2]
	fset := token.NewFileSet()
	pkgs, err := parser.ParseDir(fset, repo, func(fi os.FileInfo) bool {
		n := fi.Name()
		return !strings.HasSuffix(n, "_test.go") && !strings.HasPrefix(n, "verif_")
	}, 0)
	if err != nil {
		fail("%v", err)
	}
	pkg, ok := pkgs["osm"]
	if !ok {
		fail("package osm not found in %s", repo)
	}

	vars := map[string]string{}      // package-level string-valued vars/consts
	varPos := map[string]string{}    // where
	jsonName := map[string]string{}  // polyCondition field -> json key
	fieldType := map[string]string{} // polyCondition field -> printed type
	haveStruct := false
	for fname, f := range pkg.Files {
		for _, d := range f.Decls {
			gd, ok := d.(*ast.GenDecl)
			if !ok {
				continue
			}
			for _, sp := range gd.Specs {
				switch s := sp.(type) {
				case *ast.ValueSpec:
					for i, n := range s.Names {
						if i < len(s.Values) {
							if v, ok := stringLit(s.Values[i]); ok {
								vars[n.Name] = v
								varPos[n.Name] = fmt.Sprintf("%s:%d", filepath.Base(fname), fset.Position(n.Pos()).Line)
							}
						}
					}
				case *ast.TypeSpec:
					if s.Name.Name != "polyCondition" {
						continue
					}
					st, ok := s.Type.(*ast.StructType)
					if !ok {
						fail("polyCondition is not a struct")
					}
					haveStruct = true
					for _, fl := range st.Fields.List {
						tag := ""
						if fl.Tag != nil {
							t, _ := strconv.Unquote(fl.Tag.Value)
							tag = strings.Split(reflect.StructTag(t).Get("json"), ",")[0]
						}
						var tb bytes.Buffer
						switch t := fl.Type.(type) {
						case *ast.Ident:
							tb.WriteString(t.Name)
						case *ast.ArrayType:
							if id, ok := t.Elt.(*ast.Ident); ok && t.Len == nil {
								tb.WriteString("[]" + id.Name)
							}
						}
						for _, n := range fl.Names {
							jn := tag
							if jn == "" {
								jn = n.Name
							}
							jsonName[n.Name] = jn
							fieldType[n.Name] = tb.String()
						}
					}
				}
			}
		}
	}
	if !haveStruct {
		fail("type polyCondition not found")
	}
	for _, f := range []string{"Key", "Condition", "Values"} {
		if _, ok := jsonName[f]; !ok {
			fail("polyCondition has no field %s (fields: %v)", f, jsonName)
		}
	}
	if fieldType["Values"] != "[]string" {
		fail("polyCondition.Values has type %q, expected []string", fieldType["Values"])
	}
	for _, v := range []string{"polygonJSON", "conditionAll", "conditionWhitelist", "conditionBlacklist"} {
		if _, ok := vars[v]; !ok {
			fail("package-level string %s not found", v)
		}
	}

	// decode the JSON literal the way encoding/json fills []polyCondition:
	// keys matched exactly, else case-insensitively; last duplicate wins; unknown keys ignored.
	var raw []map[string]json.RawMessage
	if err := json.Unmarshal([]byte(vars["polygonJSON"]), &raw); err != nil {
		fail("polygonJSON is not a JSON array of objects: %v", err)
	}
	get := func(o map[string]json.RawMessage, name string) (json.RawMessage, bool) {
		if v, ok := o[name]; ok {
			return v, true
		}
		for k, v := range o {
			if strings.EqualFold(k, name) {
				return v, true
			}
		}
		return nil, false
	}
	type rule struct {
		key, cond string
		values    []string
	}
	var rules []rule
	for i, o := range raw {
		var r rule
		if v, ok := get(o, jsonName["Key"]); ok {
			if err := json.Unmarshal(v, &r.key); err != nil {
				fail("rule %d: key: %v", i, err)
			}
		}
		if v, ok := get(o, jsonName["Condition"]); ok {
			if err := json.Unmarshal(v, &r.cond); err != nil {
				fail("rule %d: condition: %v", i, err)
			}
		}
		if v, ok := get(o, jsonName["Values"]); ok {
			if err := json.Unmarshal(v, &r.values); err != nil {
				fail("rule %d: values: %v", i, err)
			}
		}
		rules = append(rules, r)
	}

	var b bytes.Buffer
	fmt.Fprintf(&b, "(* GENERATED by /verif/translator/cmd/polygon from /repo/polygon.go — do not edit.\n")
	fmt.Fprintf(&b, "   polygonJSON at %s, decoded through the json tags of polyCondition\n", varPos["polygonJSON"])
	fmt.Fprintf(&b, "   (Key=%q Condition=%q Values=%q); values are in SOURCE order (before init sorts them). *)\n",
		jsonName["Key"], jsonName["Condition"], jsonName["Values"])
	b.WriteString("From Coq Require Import String List.\nImport ListNotations.\nOpen Scope string_scope.\n\n")
	fmt.Fprintf(&b, "Definition cond_all : string := %s.\n", tr.CoqString(vars["conditionAll"]))
	fmt.Fprintf(&b, "Definition cond_whitelist : string := %s.\n", tr.CoqString(vars["conditionWhitelist"]))
	fmt.Fprintf(&b, "Definition cond_blacklist : string := %s.\n\n", tr.CoqString(vars["conditionBlacklist"]))
	b.WriteString("(* (key, condition, values) *)\n")
	b.WriteString("Definition poly_json_rules : list (string * string * list string) := [\n")
	for i, r := range rules {
		var vs []string
		for _, v := range r.values {
			vs = append(vs, tr.CoqString(v))
		}
		sep := ";"
		if i == len(rules)-1 {
			sep = ""
		}
		fmt.Fprintf(&b, "  (%s, %s, [%s])%s\n", tr.CoqString(r.key), tr.CoqString(r.cond), strings.Join(vs, "; "), sep)
	}
	b.WriteString("].\n")
	if err := tr.Emit(filepath.Join(out, "GenPolygon.v"), b.Bytes()); err != nil {
		fail("%v", err)
	}
}
