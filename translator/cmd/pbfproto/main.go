// pbfproto: translates the two protobuf schema files of the PBF format
// (osmpbf/internal/osmpbf/fileformat.proto, osmformat.proto) into coq/gen/GenProto.v:
// per message the field table (number, name, type, label, packed, default) and per enum its values.
//
//	usage: pbfproto <repo> <outdir>
//
// A small hand parser for the subset of proto2 the two files use: comments, `syntax`, `option`,
// `package`, `message N { ... }` (nested), `enum N { A = 0; }`,
// `optional|required|repeated <type> <name> = <n> [packed = true, default = x, deprecated=true];`.
// Anything else is an error (the translator fails, which the check reports as a broken obligation).
package main

import (
	"bytes"
	"fmt"
	"os"
	"path/filepath"
	"strconv"
	"strings"
	"unicode"
)

// emit / coqString: local copies of the two helpers of verif/translator/tr, so that this translator does not
// depend on the (concurrently edited) shared package building
type trT struct{}

var tr trT

func (trT) Emit(path string, content []byte) error {
	old, err := os.ReadFile(path)
	if err == nil && bytes.Equal(old, content) {
		return nil
	}
	if err := os.MkdirAll(filepath.Dir(path), 0o755); err != nil {
		return err
	}
	return os.WriteFile(path, content, 0o644)
}

func (trT) CoqString(s string) string {
	return "\"" + strings.ReplaceAll(s, "\"", "\"\"") + "\""
}

func fail(f string, a ...interface{}) {
	fmt.Fprintf(os.Stderr, "translator pbfproto: "+f+"\n", a...)
	os.Exit(1)
}

// ---------- lexer ----------
func lex(src string) []string {
	var toks []string
	i := 0
	for i < len(src) {
		c := src[i]
		switch {
		case c == '/' && i+1 < len(src) && src[i+1] == '/':
			for i < len(src) && src[i] != '\n' {
				i++
			}
		case c == '/' && i+1 < len(src) && src[i+1] == '*':
			j := strings.Index(src[i+2:], "*/")
			if j < 0 {
				fail("unterminated comment")
			}
			i += j + 4
		case unicode.IsSpace(rune(c)):
			i++
		case c == '"':
			j := i + 1
			for j < len(src) && src[j] != '"' {
				j++
			}
			toks = append(toks, src[i:j+1])
			i = j + 1
		case strings.ContainsRune("{}[]=;,", rune(c)):
			toks = append(toks, string(c))
			i++
		default:
			j := i
			for j < len(src) && !unicode.IsSpace(rune(src[j])) && !strings.ContainsRune("{}[]=;,\"", rune(src[j])) {
				j++
			}
			toks = append(toks, src[i:j])
			i = j
		}
	}
	return toks
}

type field struct {
	num                int
	name, typ, label   string
	packed, hasDefault bool
	def                string
}
type message struct {
	name   string
	fields []field
}
type enum struct {
	name   string
	values []struct {
		name string
		num  int
	}
}

type parser struct {
	toks  []string
	pos   int
	msgs  []message
	enums []enum
}

func (p *parser) peek() string {
	if p.pos < len(p.toks) {
		return p.toks[p.pos]
	}
	return ""
}
func (p *parser) next() string {
	t := p.peek()
	p.pos++
	return t
}
func (p *parser) expect(t string) {
	if g := p.next(); g != t {
		fail("expected %q, got %q (token %d)", t, g, p.pos)
	}
}
func (p *parser) skipStmt() {
	for p.pos < len(p.toks) && p.next() != ";" {
	}
}

func (p *parser) parseEnum(prefix string) {
	e := enum{name: prefix + p.next()}
	p.expect("{")
	for p.peek() != "}" {
		n := p.next()
		p.expect("=")
		v, err := strconv.Atoi(p.next())
		if err != nil {
			fail("enum %s: bad value", e.name)
		}
		p.expect(";")
		e.values = append(e.values, struct {
			name string
			num  int
		}{n, v})
	}
	p.expect("}")
	p.enums = append(p.enums, e)
}

func (p *parser) parseMessage(prefix string) {
	m := message{name: prefix + p.next()}
	p.expect("{")
	idx := len(p.msgs)
	p.msgs = append(p.msgs, m)
	for p.peek() != "}" {
		switch t := p.next(); t {
		case "message":
			p.parseMessage(m.name + ".")
		case "enum":
			p.parseEnum(m.name + ".")
		case "option":
			p.skipStmt()
		case "optional", "required", "repeated":
			f := field{label: t, typ: p.next(), name: p.next()}
			p.expect("=")
			n, err := strconv.Atoi(p.next())
			if err != nil {
				fail("message %s field %s: bad number", m.name, f.name)
			}
			f.num = n
			if p.peek() == "[" {
				p.next()
				for {
					k := p.next()
					p.expect("=")
					v := p.next()
					switch k {
					case "packed":
						f.packed = v == "true"
					case "default":
						f.hasDefault, f.def = true, v
					case "deprecated":
					default:
						fail("message %s field %s: unknown option %s", m.name, f.name, k)
					}
					if p.peek() == "," {
						p.next()
						continue
					}
					break
				}
				p.expect("]")
			}
			p.expect(";")
			p.msgs[idx].fields = append(p.msgs[idx].fields, f)
		default:
			fail("message %s: unexpected token %q", m.name, t)
		}
	}
	p.expect("}")
}

func (p *parser) parseFile() {
	for p.pos < len(p.toks) {
		switch t := p.next(); t {
		case "syntax", "option", "package", "import":
			p.skipStmt()
		case "message":
			p.parseMessage("")
		case "enum":
			p.parseEnum("")
		default:
			fail("unexpected top-level token %q", t)
		}
	}
}

func main() {
	repo, out := os.Args[1], os.Args[2]
	p := &parser{}
	for _, f := range []string{"fileformat.proto", "osmformat.proto"} {
		src, err := os.ReadFile(filepath.Join(repo, "osmpbf", "internal", "osmpbf", f))
		if err != nil {
			fail("%v", err)
		}
		q := &parser{toks: lex(string(src))}
		q.parseFile()
		p.msgs = append(p.msgs, q.msgs...)
		p.enums = append(p.enums, q.enums...)
	}
	var b bytes.Buffer
	b.WriteString("(* generated by translator/cmd/pbfproto from osmpbf/internal/osmpbf/{fileformat,osmformat}.proto; do not edit *)\n")
	b.WriteString("From Coq Require Import ZArith List String.\nFrom Verif Require Import Pbf.ProtoTypes.\nImport ListNotations.\nOpen Scope Z_scope.\nOpen Scope string_scope.\n\n")
	b.WriteString("Definition proto_messages : list (string * list pfield) := [\n")
	for i, m := range p.msgs {
		if i > 0 {
			b.WriteString(";\n")
		}
		fmt.Fprintf(&b, "  (%s, [", tr.CoqString(m.name))
		for j, f := range m.fields {
			if j > 0 {
				b.WriteString(";")
			}
			def := "None"
			if f.hasDefault {
				def = "Some " + tr.CoqString(f.def)
			}
			fmt.Fprintf(&b, "\n    mkPF %d %s %s %s %v (%s)", f.num, tr.CoqString(f.name), tr.CoqString(f.typ), tr.CoqString(f.label), f.packed, def)
		}
		b.WriteString("])")
	}
	b.WriteString("\n].\n\nDefinition proto_enums : list (string * list (string * Z)) := [\n")
	for i, e := range p.enums {
		if i > 0 {
			b.WriteString(";\n")
		}
		fmt.Fprintf(&b, "  (%s, [", tr.CoqString(e.name))
		for j, v := range e.values {
			if j > 0 {
				b.WriteString("; ")
			}
			fmt.Fprintf(&b, "(%s, %d)", tr.CoqString(v.name), v.num)
		}
		b.WriteString("])")
	}
	b.WriteString("\n].\n")
	if err := tr.Emit(filepath.Join(out, "GenProto.v"), b.Bytes()); err != nil {
		fail("%v", err)
	}
}
