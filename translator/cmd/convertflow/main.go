// convertflow: a path-sensitive, normalising translation of the control flow of osmgeojson
// (convert.go, build_polygon.go, options.go) into coq/gen/GenFlow.v.
//
// Every modelled function is executed symbolically, statement by statement.  What is recorded
// is a list of EVENTS, each with the PATH CONDITION under which it happens:
//
//   events_<func> : list event     event = (scope, kind, text, value, pc : cx)
//     scope  the enclosing loops, named by the static type of what they range over
//            ("" = function level, "osm.Members", "osm.Relations/osm.Members", ...);
//            the path condition starts afresh at the top of every loop body
//     kind   return | continue | break | panic | assign | call
//     text   canonical text of the returned expression / the assigned place / the call
//     value  canonical text of the assigned value (string-building expressions normalised)
//     pc     conjunction of the guards on the way there: enclosing if-conditions, negated
//            conditions of branches that ended in return/continue/break, earlier switch cases
//
// Normalisations (so that behaviour-preserving rewrites give the same events):
//   * identifiers of struct (pointer) type are replaced by the type's name (n.Lon -> Node.Lon);
//     single-assignment locals are inlined (tt := r.Tags.Find("type"); last := len(ls)-1; ...);
//     "_, ok := m[k]" becomes has(m[k]); x[i] with i the index variable of "range x" becomes
//     the element type's name (w.Nodes[i].ID -> WayNode.ID)
//   * switch statements are if/else-if chains; type switches test type(x)==T
//   * calls to unexported functions/methods of the package that are NOT in the list of modelled
//     functions are inlined (parameters bound to the arguments), so extracting a helper changes
//     nothing; calls to modelled functions and to append are events of kind "call" wherever
//     they occur in a statement
//   * string values: fmt.Sprintf with %s/%d/%v, "+", strconv.FormatInt/Itoa and integer
//     conversions are normalised to a concatenation of literals and dec(x)/str(x) parts
//   * comparisons of integer expressions keep + and - as structure (len(ls)-1 >= 1), constants
//     are folded through go/types (osm.TypeWay is "way", orb.CW is -1)
// Also emitted: option_sets (option constructor, context field, assigned value) and
// package_literals (every string literal of the package).
//
// C17/GenOkFlow.v states, for the events the model hard-codes, that the disjunction of their
// path conditions evaluates — leaves read as model terms — to the model's boolean, for all
// values of the leaves; the proofs are truth tables over the atoms, not syntactic matches.
//
// usage: convertflow <repo> <outdir>
package main

import (
	"bytes"
	"fmt"
	"go/ast"
	"go/constant"
	"go/printer"
	"go/token"
	"go/types"
	"os"
	"path/filepath"
	"sort"
	"strings"

	"verif/translator/tr"
)

func fail(f string, a ...interface{}) {
	fmt.Fprintf(os.Stderr, "translator convertflow: "+f+"\n", a...)
	os.Exit(1)
}

type event struct{ scope, kind, text, val, pc string }

type rangeBind struct {
	xtext string // canonical text of the ranged expression
	elem  string // struct name of the element type ("" if none)
}

type ex struct {
	p       *tr.Pkg
	decls   map[string]*ast.FuncDecl
	declOf  map[types.Object]*ast.FuncDecl
	targets map[types.Object]bool
	subs    map[types.Object]string   // has(m[k])
	inl     map[types.Object]ast.Expr // inlined locals and parameters
	ranges  map[types.Object]rangeBind
	assigns map[types.Object]int
	lname   map[types.Object]string // canonical names of non-struct locals and parameters: <type>#<k>
	busy    map[types.Object]bool
	events  []event
	depth   int
	quiet   int // > 0: evaluating a helper for its value only, no events
}

func structName(t types.Type) string {
	for {
		if pt, ok := t.(*types.Pointer); ok {
			t = pt.Elem()
			continue
		}
		break
	}
	if n, ok := t.(*types.Named); ok {
		if _, isStruct := n.Underlying().(*types.Struct); isStruct {
			return n.Obj().Name()
		}
	}
	return ""
}

func (x *ex) obj(id *ast.Ident) types.Object {
	if o := x.p.Info.Uses[id]; o != nil {
		return o
	}
	return x.p.Info.Defs[id]
}

func stripConv(x *ex, e ast.Expr) ast.Expr {
	for {
		switch v := e.(type) {
		case *ast.ParenExpr:
			e = v.X
			continue
		case *ast.Ident:
			if d, ok := x.inl[x.obj(v)]; ok && !x.busy[x.obj(v)] {
				if _, isBin := d.(*ast.BinaryExpr); !isBin {
					e = d
					continue
				}
			}
		case *ast.CallExpr:
			if x.isIntConv(v) {
				e = v.Args[0]
				continue
			}
		}
		return e
	}
}

// isIntConv: a conversion T(e) that does not change the value here: to an integer type, or
// between types whose underlying type is bool (type toggle bool) or string
func (x *ex) isIntConv(v *ast.CallExpr) bool {
	if len(v.Args) != 1 {
		return false
	}
	if tv, ok := x.p.Info.Types[v.Fun]; ok && tv.IsType() {
		if b, ok := tv.Type.Underlying().(*types.Basic); ok {
			if b.Info()&types.IsInteger != 0 {
				return true
			}
			if st := x.p.Info.TypeOf(v.Args[0]); st != nil {
				if sb, ok := st.Underlying().(*types.Basic); ok {
					for _, k := range []types.BasicInfo{types.IsBoolean, types.IsString} {
						if b.Info()&k != 0 && sb.Info()&k != 0 {
							return true
						}
					}
				}
			}
		}
	}
	return false
}

// pureCall: a call of an unexported helper of the package whose body is a few := definitions
// followed by one "return e" (a set type's has(id): "_, ok := s[id]; return ok").  The call
// stands for e with the receiver and the parameters bound.
func (x *ex) pureCall(c *ast.CallExpr) (ast.Expr, bool) {
	fd, o := x.callee(c)
	if fd == nil || x.targets[o] || ast.IsExported(fd.Name.Name) || fd.Body == nil || x.depth >= 3 {
		return nil, false
	}
	if fd.Type.Results == nil || fd.Type.Results.NumFields() != 1 || len(fd.Body.List) == 0 {
		return nil, false
	}
	n := len(fd.Body.List)
	ret, ok := fd.Body.List[n-1].(*ast.ReturnStmt)
	if !ok || len(ret.Results) != 1 {
		return nil, false
	}
	for _, st := range fd.Body.List[:n-1] {
		as, ok := st.(*ast.AssignStmt)
		if !ok || as.Tok != token.DEFINE {
			return nil, false
		}
		for _, r := range as.Rhs {
			impure := false
			ast.Inspect(r, func(m ast.Node) bool {
				if _, isCall := m.(*ast.CallExpr); isCall {
					impure = true
				}
				return true
			})
			if impure {
				return nil, false
			}
		}
	}
	x.bind(fd, c)
	x.quiet++
	for _, st := range fd.Body.List[:n-1] {
		as := st.(*ast.AssignStmt)
		x.define(as.Lhs, as.Rhs, "", "CTrue", true)
	}
	x.quiet--
	return ret.Results[0], true
}

// text: canonical rendering of an opaque subexpression
func (x *ex) text(e ast.Expr) string {
	switch v := e.(type) {
	case *ast.ParenExpr:
		return "(" + x.text(v.X) + ")"
	case *ast.Ident:
		o := x.obj(v)
		if s, ok := x.subs[o]; ok {
			return s
		}
		if d, ok := x.inl[o]; ok && !x.busy[o] {
			x.busy[o] = true
			defer delete(x.busy, o)
			if _, isBin := d.(*ast.BinaryExpr); isBin {
				return "(" + x.text(d) + ")"
			}
			return x.text(d)
		}
		if vr, ok := o.(*types.Var); ok && !vr.IsField() {
			if n := structName(vr.Type()); n != "" {
				return n
			}
			if n, ok := x.lname[o]; ok {
				return n // a local or parameter: named by type and declaration order, not by its name
			}
		}
		return v.Name
	case *ast.SelectorExpr:
		if id, ok := v.X.(*ast.Ident); ok {
			if _, isPkg := x.p.Info.Uses[id].(*types.PkgName); isPkg {
				return id.Name + "." + v.Sel.Name
			}
		}
		return x.text(v.X) + "." + v.Sel.Name
	case *ast.CallExpr:
		if x.isIntConv(v) {
			return x.text(v.Args[0]) // integer conversions do not change the value here
		}
		if e2, ok := x.pureCall(v); ok {
			x.depth++
			defer func() { x.depth-- }()
			if _, isBin := e2.(*ast.BinaryExpr); isBin {
				return "(" + x.text(e2) + ")"
			}
			return x.text(e2)
		}
		if sel, ok := v.Fun.(*ast.SelectorExpr); ok && sel.Sel.Name == "AnyInteresting" && len(v.Args) == 0 {
			// osm.Tags.AnyInteresting() is hasInterestingTags(tags, nil) (C17_has_interesting_is_AnyInteresting,
			// and compared per case: judgement code 3)
			if t := x.p.Info.TypeOf(sel.X); t != nil && types.TypeString(t, func(p *types.Package) string { return p.Name() }) == "osm.Tags" {
				return "hasInterestingTags(" + x.text(sel.X) + ", nil)"
			}
		}
		var args []string
		for _, a := range v.Args {
			args = append(args, x.text(a))
		}
		return x.text(v.Fun) + "(" + strings.Join(args, ", ") + ")"
	case *ast.IndexExpr:
		if id, ok := v.Index.(*ast.Ident); ok {
			if rb, ok := x.ranges[x.obj(id)]; ok && rb.elem != "" && rb.xtext == x.text(v.X) {
				return rb.elem
			}
		}
		idx := x.text(v.Index)
		if strings.HasPrefix(idx, "(") && strings.HasSuffix(idx, ")") {
			idx = idx[1 : len(idx)-1]
		}
		return x.text(v.X) + "[" + idx + "]"
	case *ast.StarExpr:
		return "*" + x.text(v.X)
	case *ast.UnaryExpr:
		return v.Op.String() + x.text(v.X)
	case *ast.BinaryExpr:
		return x.text(v.X) + v.Op.String() + x.text(v.Y)
	case *ast.BasicLit:
		return v.Value
	case *ast.CompositeLit:
		var els []string
		for _, el := range v.Elts {
			if kv, ok := el.(*ast.KeyValueExpr); ok {
				k := ""
				if id, ok := kv.Key.(*ast.Ident); ok {
					k = id.Name
				} else {
					k = x.text(kv.Key)
				}
				els = append(els, k+": "+x.text(kv.Value))
			} else {
				els = append(els, x.text(el))
			}
		}
		ty := ""
		if v.Type != nil {
			var b bytes.Buffer
			printer.Fprint(&b, x.p.Fset, v.Type)
			ty = b.String()
		}
		return ty + "{" + strings.Join(els, ", ") + "}"
	}
	var b bytes.Buffer
	printer.Fprint(&b, x.p.Fset, e)
	return strings.Join(strings.Fields(b.String()), " ")
}

// strval: normalised text of a string-building expression
func (x *ex) strval(e ast.Expr) string {
	parts := x.strparts(e)
	var out []string
	for _, p := range parts {
		if strings.HasPrefix(p, "\"") && len(out) > 0 && strings.HasPrefix(out[len(out)-1], "\"") {
			out[len(out)-1] = out[len(out)-1][:len(out[len(out)-1])-1] + p[1:]
			continue
		}
		out = append(out, p)
	}
	return strings.Join(out, " ++ ")
}

func (x *ex) strparts(e ast.Expr) []string {
	if tv, ok := x.p.Info.Types[e]; ok && tv.Value != nil && tv.Value.Kind() == constant.String {
		return []string{"\"" + constant.StringVal(tv.Value) + "\""}
	}
	switch v := e.(type) {
	case *ast.ParenExpr:
		return x.strparts(v.X)
	case *ast.Ident:
		if d, ok := x.inl[x.obj(v)]; ok && !x.busy[x.obj(v)] {
			x.busy[x.obj(v)] = true
			defer delete(x.busy, x.obj(v))
			return x.strparts(d)
		}
	case *ast.BinaryExpr:
		if v.Op == token.ADD {
			return append(x.strparts(v.X), x.strparts(v.Y)...)
		}
	case *ast.CallExpr:
		fn := x.text(v.Fun)
		switch {
		case fn == "fmt.Sprintf" && len(v.Args) >= 1:
			if tv, ok := x.p.Info.Types[v.Args[0]]; ok && tv.Value != nil && tv.Value.Kind() == constant.String {
				format := constant.StringVal(tv.Value)
				var out []string
				arg := 1
				lit := ""
				okFmt := true
				for i := 0; i < len(format); i++ {
					if format[i] != '%' || i+1 >= len(format) {
						lit += string(format[i])
						continue
					}
					i++
					switch format[i] {
					case '%':
						lit += "%"
					case 's', 'd', 'v':
						if arg >= len(v.Args) {
							okFmt = false
							break
						}
						if lit != "" {
							out = append(out, "\""+lit+"\"")
							lit = ""
						}
						if format[i] == 'd' {
							out = append(out, "dec("+x.text(stripConv(x, v.Args[arg]))+")")
						} else {
							out = append(out, x.strparts(v.Args[arg])...)
						}
						arg++
					default:
						okFmt = false
					}
				}
				if okFmt {
					if lit != "" {
						out = append(out, "\""+lit+"\"")
					}
					return out
				}
			}
		case (fn == "strconv.FormatInt" && len(v.Args) == 2 && x.text(v.Args[1]) == "10") || (fn == "strconv.Itoa" && len(v.Args) == 1):
			return []string{"dec(" + x.text(stripConv(x, v.Args[0])) + ")"}
		case len(v.Args) == 1:
			if tv, ok := x.p.Info.Types[v.Fun]; ok && tv.IsType() {
				if b, ok := tv.Type.Underlying().(*types.Basic); ok && b.Info()&types.IsString != 0 {
					if at, ok := x.p.Info.Types[v.Args[0]]; ok {
						if ab, ok := at.Type.Underlying().(*types.Basic); ok && ab.Info()&types.IsString != 0 {
							return x.strparts(v.Args[0])
						}
					}
				}
			}
		}
	}
	return []string{"str(" + x.text(e) + ")"}
}

func leaf(s string) string { return "CLeaf " + tr.CoqString(s) }

func (x *ex) isInt(e ast.Expr) bool {
	if tv, ok := x.p.Info.Types[e]; ok && tv.Type != nil {
		if b, ok := tv.Type.Underlying().(*types.Basic); ok {
			return b.Info()&types.IsInteger != 0
		}
	}
	return false
}

// cx: boolean / comparison / small integer structure; everything else is a leaf
func (x *ex) cx(e ast.Expr) string {
	if tv, ok := x.p.Info.Types[e]; ok && tv.Value != nil {
		switch tv.Value.Kind() {
		case constant.Bool:
			if constant.BoolVal(tv.Value) {
				return "CTrue"
			}
			return "CFalse"
		case constant.String:
			return "CStr " + tr.CoqString(constant.StringVal(tv.Value))
		case constant.Int:
			return "CInt " + tr.CoqZ(tv.Value)
		case constant.Float:
			if i := constant.ToInt(tv.Value); i.Kind() == constant.Int {
				return "CInt " + tr.CoqZ(i)
			}
		}
	}
	switch v := e.(type) {
	case *ast.ParenExpr:
		return x.cx(v.X)
	case *ast.Ident:
		if v.Name == "nil" {
			if _, isNil := x.p.Info.Uses[v].(*types.Nil); isNil {
				return "CNil"
			}
		}
		o := x.obj(v)
		if _, ok := x.subs[o]; !ok {
			if d, ok := x.inl[o]; ok && !x.busy[o] {
				x.busy[o] = true
				defer delete(x.busy, o)
				return x.cx(d)
			}
		}
	case *ast.CallExpr:
		if x.isIntConv(v) {
			return x.cx(v.Args[0])
		}
		if e2, ok := x.pureCall(v); ok {
			x.depth++
			defer func() { x.depth-- }()
			return x.cx(e2)
		}
	case *ast.UnaryExpr:
		if v.Op == token.NOT {
			return "CNot (" + x.cx(v.X) + ")"
		}
	case *ast.BinaryExpr:
		op := map[token.Token]string{token.LAND: "CAnd", token.LOR: "COr", token.EQL: "CEq", token.NEQ: "CNe",
			token.LSS: "CLt", token.LEQ: "CLe", token.GTR: "CGt", token.GEQ: "CGe"}[v.Op]
		if op != "" {
			return op + " (" + x.cx(v.X) + ") (" + x.cx(v.Y) + ")"
		}
		if (v.Op == token.ADD || v.Op == token.SUB) && x.isInt(e) {
			o := "CAdd"
			if v.Op == token.SUB {
				o = "CSub"
			}
			return o + " (" + x.cx(v.X) + ") (" + x.cx(v.Y) + ")"
		}
	}
	return leaf(x.text(e))
}

func cand(a, b string) string {
	switch {
	case a == "CTrue":
		return b
	case b == "CTrue":
		return a
	case a == "CFalse" || b == "CFalse":
		return "CFalse"
	}
	return "CAnd (" + a + ") (" + b + ")"
}
func cor(a, b string) string {
	switch {
	case a == "CFalse":
		return b
	case b == "CFalse":
		return a
	case a == "CTrue" || b == "CTrue":
		return "CTrue"
	}
	return "COr (" + a + ") (" + b + ")"
}
func cnot(a string) string {
	switch a {
	case "CTrue":
		return "CFalse"
	case "CFalse":
		return "CTrue"
	}
	return "CNot (" + a + ")"
}

func (x *ex) emit(scope, kind, text, val, pc string) {
	if pc == "CFalse" || x.quiet > 0 {
		return
	}
	x.events = append(x.events, event{scope, kind, text, val, pc})
}

// callee returns the declaration of a call to a function/method of this package
func (x *ex) callee(c *ast.CallExpr) (*ast.FuncDecl, types.Object) {
	var id *ast.Ident
	switch f := c.Fun.(type) {
	case *ast.Ident:
		id = f
	case *ast.SelectorExpr:
		id = f.Sel
	}
	if id == nil {
		return nil, nil
	}
	o := x.p.Info.Uses[id]
	if o == nil {
		return nil, nil
	}
	return x.declOf[o], o
}

// calls: inline helpers, record calls to modelled functions / append / method statements
func (x *ex) calls(n ast.Node, scope, pc string, stmtLevel bool) {
	ast.Inspect(n, func(m ast.Node) bool {
		if _, isLit := m.(*ast.FuncLit); isLit {
			return false
		}
		c, ok := m.(*ast.CallExpr)
		if !ok {
			return true
		}
		fd, o := x.callee(c)
		if fd != nil && !x.targets[o] && !ast.IsExported(fd.Name.Name) && fd.Body != nil && x.depth < 3 {
			x.inline(fd, c, scope, pc)
			return true
		}
		name := x.text(c.Fun)
		if (fd != nil && x.targets[o]) || name == "append" {
			x.emit(scope, "call", x.text(c), "", pc)
		}
		return true
	})
	if es, ok := n.(*ast.ExprStmt); ok && stmtLevel {
		if c, ok := es.X.(*ast.CallExpr); ok {
			fd, o := x.callee(c)
			name := x.text(c.Fun)
			if !((fd != nil && (x.targets[o] || !ast.IsExported(fd.Name.Name))) || name == "append") {
				if name == "panic" {
					x.emit(scope, "panic", "", "", pc)
				} else {
					x.emit(scope, "call", x.text(c), "", pc)
				}
			}
		}
	}
}

func (x *ex) inline(fd *ast.FuncDecl, c *ast.CallExpr, scope, pc string) {
	x.bind(fd, c)
	x.depth++
	x.block(fd.Body.List, pc, scope, true)
	x.depth--
}

// bind the receiver and the parameters of fd to the operands of the call
func (x *ex) bind(fd *ast.FuncDecl, c *ast.CallExpr) {
	if fd.Recv != nil && len(fd.Recv.List) == 1 && len(fd.Recv.List[0].Names) == 1 {
		if sel, ok := c.Fun.(*ast.SelectorExpr); ok {
			x.inl[x.p.Info.Defs[fd.Recv.List[0].Names[0]]] = sel.X
		}
	}
	i := 0
	for _, f := range fd.Type.Params.List {
		for _, nm := range f.Names {
			if i < len(c.Args) {
				x.inl[x.p.Info.Defs[nm]] = c.Args[i]
			}
			i++
		}
	}
}

func (x *ex) countAssigns(fd *ast.FuncDecl) {
	ast.Inspect(fd, func(n ast.Node) bool {
		switch s := n.(type) {
		case *ast.AssignStmt:
			for _, l := range s.Lhs {
				if id, ok := l.(*ast.Ident); ok {
					x.assigns[x.obj(id)]++
				}
			}
		case *ast.IncDecStmt:
			if id, ok := s.X.(*ast.Ident); ok {
				x.assigns[x.obj(id)] += 2
			}
		case *ast.ValueSpec:
			for _, id := range s.Names {
				if len(s.Values) > 0 {
					x.assigns[x.p.Info.Defs[id]]++
				}
			}
		case *ast.RangeStmt:
			for _, e := range []ast.Expr{s.Key, s.Value} {
				if id, ok := e.(*ast.Ident); ok {
					x.assigns[x.obj(id)] += 2
				}
			}
		}
		return true
	})
}

func elemLabel(t types.Type) (string, string) {
	label := types.TypeString(t, func(p *types.Package) string { return p.Name() })
	var elem types.Type
	switch u := t.Underlying().(type) {
	case *types.Slice:
		elem = u.Elem()
	case *types.Array:
		elem = u.Elem()
	case *types.Map:
		elem = u.Elem()
	}
	if elem == nil {
		return label, ""
	}
	return label, structName(elem)
}

// block executes statements under pc; returns the condition under which control falls through
func (x *ex) block(l []ast.Stmt, pc, scope string, inCallee bool) string {
	for _, s := range l {
		if pc == "CFalse" {
			return pc
		}
		pc = x.stmt(s, pc, scope, inCallee)
	}
	return pc
}

// inlinable: the defining expression can stand for the name wherever it is used — not a fresh
// allocation that is filled in through the name afterwards
func (x *ex) inlinable(r ast.Expr) bool {
	switch v := r.(type) {
	case *ast.CompositeLit, *ast.FuncLit:
		return false
	case *ast.UnaryExpr:
		if v.Op == token.AND {
			return false
		}
	case *ast.CallExpr:
		if id, ok := v.Fun.(*ast.Ident); ok && (id.Name == "make" || id.Name == "new") {
			if _, isBuiltin := x.p.Info.Uses[id].(*types.Builtin); isBuiltin {
				return false
			}
		}
	}
	return true
}

func (x *ex) define(lhs []ast.Expr, rhs []ast.Expr, scope, pc string, isDef bool) {
	// "_, ok := m[k]"
	if len(lhs) == 2 && len(rhs) == 1 {
		if ix, ok := rhs[0].(*ast.IndexExpr); ok {
			if id, ok := lhs[1].(*ast.Ident); ok && id.Name != "_" {
				if o := x.obj(id); o != nil {
					x.subs[o] = "has(" + x.text(ix) + ")"
				}
			}
			return
		}
	}
	for i, l := range lhs {
		id, isId := l.(*ast.Ident)
		if isId && id.Name == "_" {
			continue
		}
		var r ast.Expr
		if len(rhs) == len(lhs) {
			r = rhs[i]
		}
		if isId && r != nil {
			o := x.obj(id)
			if v, ok := o.(*types.Var); ok && isDef && x.assigns[o] == 1 && structName(v.Type()) == "" {
				if x.inlinable(r) {
					x.inl[o] = r
					continue
				}
			}
		}
		val := ""
		if r != nil {
			if t := x.p.Info.TypeOf(r); t != nil {
				if b, ok := t.Underlying().(*types.Basic); ok && b.Info()&types.IsString != 0 {
					val = x.strval(r)
					if strings.HasPrefix(val, "str(") && !strings.Contains(val, " ++ ") {
						val = "" // a plain string expression: rendered like any other value
					}
				}
			}
			if val == "" {
				val = x.text(r)
			}
		}
		x.emit(scope, "assign", x.text(l), val, pc)
	}
}

func (x *ex) stmt(s ast.Stmt, pc, scope string, inCallee bool) string {
	switch v := s.(type) {
	case *ast.BlockStmt:
		return x.block(v.List, pc, scope, inCallee)
	case *ast.ReturnStmt:
		x.calls(v, scope, pc, false)
		if inCallee {
			return "CFalse" // the inlined helper ends here; the caller goes on under its own condition
		}
		var rs []string
		for _, r := range v.Results {
			rs = append(rs, x.text(r))
		}
		x.emit(scope, "return", strings.Join(rs, ", "), "", pc)
		return "CFalse"
	case *ast.BranchStmt:
		x.emit(scope, strings.ToLower(v.Tok.String()), "", "", pc)
		return "CFalse"
	case *ast.ExprStmt:
		x.calls(v, scope, pc, true)
		if c, ok := v.X.(*ast.CallExpr); ok && x.text(c.Fun) == "panic" {
			return "CFalse"
		}
		return pc
	case *ast.IncDecStmt:
		x.emit(scope, "assign", x.text(v.X), v.Tok.String(), pc)
		return pc
	case *ast.DeclStmt:
		if gd, ok := v.Decl.(*ast.GenDecl); ok {
			for _, sp := range gd.Specs {
				if vs, ok := sp.(*ast.ValueSpec); ok && len(vs.Values) > 0 {
					x.calls(vs, scope, pc, false)
					var lhs []ast.Expr
					for _, n := range vs.Names {
						lhs = append(lhs, n)
					}
					x.define(lhs, vs.Values, scope, pc, true)
				}
			}
		}
		return pc
	case *ast.AssignStmt:
		x.calls(v, scope, pc, false)
		if v.Tok == token.ASSIGN && len(v.Lhs) == 1 && len(v.Rhs) == 1 {
			// x = x || e  is  if e { x = true };  x = x && e  is  if !e { x = false }
			if id, ok := v.Lhs[0].(*ast.Ident); ok {
				if be, ok := v.Rhs[0].(*ast.BinaryExpr); ok && (be.Op == token.LOR || be.Op == token.LAND) {
					var other ast.Expr
					if l, ok := be.X.(*ast.Ident); ok && x.obj(l) == x.obj(id) {
						other = be.Y
					} else if r, ok := be.Y.(*ast.Ident); ok && x.obj(r) == x.obj(id) {
						other = be.X
					}
					if other != nil {
						if be.Op == token.LOR {
							x.emit(scope, "assign", x.text(id), "true", cand(pc, x.cx(other)))
						} else {
							x.emit(scope, "assign", x.text(id), "false", cand(pc, cnot(x.cx(other))))
						}
						return pc
					}
				}
			}
		}
		x.define(v.Lhs, v.Rhs, scope, pc, v.Tok == token.DEFINE)
		return pc
	case *ast.DeferStmt:
		x.emit(scope, "call", "defer "+x.text(v.Call), "", pc)
		return pc
	case *ast.IfStmt:
		if v.Init != nil {
			pc = x.stmt(v.Init, pc, scope, inCallee)
		}
		x.calls(v.Cond, scope, pc, false)
		c := x.cx(v.Cond)
		inT, inE := cand(pc, c), cand(pc, cnot(c))
		ft := x.block(v.Body.List, inT, scope, inCallee)
		fe := inE
		if v.Else != nil {
			fe = x.stmt(v.Else, inE, scope, inCallee)
		}
		if ft == inT && fe == inE {
			return pc // no path ended inside: both branches rejoin
		}
		return cor(ft, fe)
	case *ast.SwitchStmt:
		if v.Init != nil {
			pc = x.stmt(v.Init, pc, scope, inCallee)
		}
		prev := "CFalse"
		out := "CFalse"
		allJoin := true
		var def *ast.CaseClause
		for _, cc := range v.Body.List {
			cl := cc.(*ast.CaseClause)
			if cl.List == nil {
				def = cl
				continue
			}
			cond := "CFalse"
			for _, e := range cl.List {
				if v.Tag != nil {
					cond = cor(cond, "CEq ("+x.cx(v.Tag)+") ("+x.cx(e)+")")
				} else {
					cond = cor(cond, x.cx(e))
				}
			}
			in := cand(pc, cand(cnot(prev), cond))
			ft := x.block(cl.Body, in, scope, inCallee)
			if ft != in {
				allJoin = false
			}
			out = cor(out, ft)
			prev = cor(prev, cond)
		}
		if def != nil {
			in := cand(pc, cnot(prev))
			ft := x.block(def.Body, in, scope, inCallee)
			if ft != in {
				allJoin = false
			}
			out = cor(out, ft)
		} else {
			out = cor(out, cand(pc, cnot(prev)))
		}
		if allJoin {
			return pc
		}
		return out
	case *ast.TypeSwitchStmt:
		var subject ast.Expr
		switch a := v.Assign.(type) {
		case *ast.AssignStmt:
			subject = a.Rhs[0].(*ast.TypeAssertExpr).X
		case *ast.ExprStmt:
			subject = a.X.(*ast.TypeAssertExpr).X
		}
		prev := "CFalse"
		out := "CFalse"
		allJoin := true
		var def *ast.CaseClause
		for _, cc := range v.Body.List {
			cl := cc.(*ast.CaseClause)
			if cl.List == nil {
				def = cl
				continue
			}
			cond := "CFalse"
			for _, e := range cl.List {
				tn := x.text(e)
				if tv, ok := x.p.Info.Types[e]; ok && tv.IsType() {
					if n := structName(tv.Type); n != "" {
						tn = n
					}
				}
				cond = cor(cond, leaf("type("+x.text(subject)+")=="+tn))
			}
			in := cand(pc, cand(cnot(prev), cond))
			ft := x.block(cl.Body, in, scope, inCallee)
			if ft != in {
				allJoin = false
			}
			out = cor(out, ft)
			prev = cor(prev, cond)
		}
		if def != nil {
			in := cand(pc, cnot(prev))
			ft := x.block(def.Body, in, scope, inCallee)
			if ft != in {
				allJoin = false
			}
			out = cor(out, ft)
		} else {
			out = cor(out, cand(pc, cnot(prev)))
		}
		if allJoin {
			return pc
		}
		return out
	case *ast.RangeStmt:
		x.calls(v.X, scope, pc, false)
		label, elem := "range", ""
		if t := x.p.Info.TypeOf(v.X); t != nil {
			label, elem = elemLabel(t)
		}
		if id, ok := v.Key.(*ast.Ident); ok && id.Name != "_" {
			x.ranges[x.obj(id)] = rangeBind{x.text(v.X), elem}
		}
		sc := label
		if scope != "" {
			sc = scope + "/" + label
		}
		x.block(v.Body.List, "CTrue", sc, inCallee)
		return pc
	case *ast.ForStmt:
		sc := "for"
		if scope != "" {
			sc = scope + "/for"
		}
		x.block(v.Body.List, "CTrue", sc, inCallee)
		return pc
	}
	x.emit(scope, "stmt", fmt.Sprintf("%T", s), "", pc)
	return pc
}

func coqList(items []string, indent string) string {
	if len(items) == 0 {
		return "[]"
	}
	return "[\n" + indent + strings.Join(items, ";\n"+indent) + "\n  ]"
}

func main() {
	repo, out := os.Args[1], os.Args[2]
	if err := os.Chdir(repo); err != nil {
		fail("%v", err)
	}
	p, err := tr.Load(filepath.Join(repo, "osmgeojson"), "github.com/paulmach/osm/osmgeojson")
	if err != nil {
		fail("%v", err)
	}
	decls := p.FuncDecls()
	declOf := map[types.Object]*ast.FuncDecl{}
	for _, fd := range decls {
		if o := p.Info.Defs[fd.Name]; o != nil {
			declOf[o] = fd
		}
	}
	// canonical names for locals and parameters: per function, per type, in declaration order
	lname := map[types.Object]string{}
	qual := func(p *types.Package) string { return p.Name() }
	for _, fd := range decls {
		cnt := map[string]int{}
		ast.Inspect(fd, func(n ast.Node) bool {
			id, ok := n.(*ast.Ident)
			if !ok {
				return true
			}
			o := p.Info.Defs[id]
			v, isVar := o.(*types.Var)
			if !isVar || v.IsField() || id.Name == "_" || structName(v.Type()) != "" {
				return true
			}
			if _, seen := lname[o]; seen {
				return true
			}
			ts := types.TypeString(v.Type(), qual)
			lname[o] = fmt.Sprintf("%s#%d", ts, cnt[ts])
			cnt[ts]++
			return true
		})
	}
	keys := []string{"Convert", "context.getNode", "context.nodeToFeature", "context.wayToLineString", "context.wayToFeature",
		"context.buildRouteLineString", "context.addMetaProperties", "hasInterestingTags", "toRing",
		"context.buildPolygon", "addToMultiPolygon", "polygonContains", "reorient"}
	targets := map[types.Object]bool{}
	for _, k := range keys {
		if fd := decls[k]; fd != nil {
			targets[p.Info.Defs[fd.Name]] = true
		}
	}
	var b bytes.Buffer
	b.WriteString("(* GENERATED by /verif/translator from /repo — do not edit. generator: convertflow (osmgeojson/*.go) *)\n")
	b.WriteString("From Coq Require Import ZArith String List.\nFrom Verif Require Import C17.CondAst.\nImport ListNotations.\nOpen Scope Z_scope.\nOpen Scope string_scope.\n\n")
	for _, k := range keys {
		fd := decls[k]
		name := strings.ReplaceAll(k, ".", "_")
		if fd == nil || fd.Body == nil {
			fmt.Fprintf(&b, "(* MISSING %s *)\nDefinition events_%s : list event := [].\n\n", k, name)
			continue
		}
		x := &ex{p: p, decls: decls, declOf: declOf, targets: targets, subs: map[types.Object]string{},
			inl: map[types.Object]ast.Expr{}, ranges: map[types.Object]rangeBind{}, assigns: map[types.Object]int{}, busy: map[types.Object]bool{}, lname: lname}
		for _, d := range decls {
			x.countAssigns(d)
		}
		x.block(fd.Body.List, "CTrue", "", false)
		var rows []string
		for _, e := range x.events {
			rows = append(rows, fmt.Sprintf("(%s, %s, %s, %s, %s)", tr.CoqString(e.scope), tr.CoqString(e.kind),
				tr.CoqString(e.text), tr.CoqString(e.val), e.pc))
		}
		fmt.Fprintf(&b, "(* %s *)\nDefinition events_%s : list event := %s.\n\n", k, name, coqList(rows, "    "))
	}
	// option constructors
	var optRows []string
	lits := map[string]bool{}
	x := &ex{p: p, decls: decls, declOf: declOf, targets: targets, subs: map[types.Object]string{},
		inl: map[types.Object]ast.Expr{}, ranges: map[types.Object]rangeBind{}, assigns: map[types.Object]int{}, busy: map[types.Object]bool{}, lname: lname}
	for _, f := range p.Files {
		ast.Inspect(f, func(n ast.Node) bool {
			if bl, ok := n.(*ast.BasicLit); ok && bl.Kind == token.STRING {
				if tv, ok := p.Info.Types[bl]; ok && tv.Value != nil {
					lits[constant.StringVal(tv.Value)] = true
				}
			}
			return true
		})
		for _, d := range f.Decls {
			fd, ok := d.(*ast.FuncDecl)
			if !ok || fd.Recv != nil || fd.Body == nil || fd.Type.Results == nil || len(fd.Type.Results.List) != 1 {
				continue
			}
			if id, ok := fd.Type.Results.List[0].Type.(*ast.Ident); !ok || id.Name != "Option" {
				continue
			}
			// the assignments of the option's closure: a function literal, or a method value /
			// function value of the package standing for one (receiver and operands bound)
			var collect func(n ast.Node, depth int)
			collect = func(n ast.Node, depth int) {
				ast.Inspect(n, func(n ast.Node) bool {
					switch v := n.(type) {
					case *ast.AssignStmt:
						if len(v.Lhs) == 1 && len(v.Rhs) == 1 && v.Tok == token.ASSIGN {
							optRows = append(optRows, fmt.Sprintf("(%s, %s, %s)", tr.CoqString(fd.Name.Name),
								tr.CoqString(x.text(v.Lhs[0])), x.cx(v.Rhs[0])))
						}
					case *ast.ReturnStmt:
						for _, r := range v.Results {
							for {
								pe, ok := r.(*ast.ParenExpr)
								if !ok {
									break
								}
								r = pe.X
							}
							var id *ast.Ident
							var recv ast.Expr
							switch f := r.(type) {
							case *ast.SelectorExpr:
								if sel := p.Info.Selections[f]; sel != nil && sel.Kind() == types.MethodVal {
									id, recv = f.Sel, f.X
								}
							case *ast.Ident:
								id = f
							}
							if id == nil || depth >= 3 {
								continue
							}
							md := declOf[p.Info.Uses[id]]
							if md == nil || md.Body == nil {
								continue
							}
							if recv != nil && md.Recv != nil && len(md.Recv.List) == 1 && len(md.Recv.List[0].Names) == 1 {
								x.inl[p.Info.Defs[md.Recv.List[0].Names[0]]] = recv
							}
							collect(md.Body, depth+1)
						}
					}
					return true
				})
			}
			collect(fd.Body, 0)
		}
	}
	fmt.Fprintf(&b, "(* options.go: (option, context field, assigned value) *)\nDefinition option_sets : list (string * string * cx) := %s.\n\n", coqList(optRows, "    "))
	var ls []string
	for l := range lits {
		ls = append(ls, tr.CoqString(l))
	}
	sort.Strings(ls)
	fmt.Fprintf(&b, "(* every string literal of package osmgeojson *)\nDefinition package_literals : list string := [%s].\n", strings.Join(ls, "; "))
	if err := tr.Emit(filepath.Join(out, "GenFlow.v"), b.Bytes()); err != nil {
		fail("%v", err)
	}
}
