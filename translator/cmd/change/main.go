// change: translates findPreviousNode / findPreviousWay / findPreviousRelation and checkErr
// (annotate/change.go) into coq/gen/GenChange.v with tr/loops.go.  Interface calls and error
// values are atoms: the data source answer is the pair (a_hist, a_err) with a_err = 0 for nil.
// They are proved equal to the hand model in theories/C13/GenOk.v.   usage: change <repo> <outdir>
package main

import (
	"fmt"
	"os"
	"path/filepath"

	"verif/translator/tr"
)

func main() {
	repo, out := os.Args[1], os.Args[2]
	if err := os.Chdir(repo); err != nil {
		fmt.Fprintln(os.Stderr, err)
		os.Exit(1)
	}
	p, err := tr.Load(filepath.Join(repo, "annotate"), "github.com/paulmach/osm/annotate")
	if err != nil {
		fmt.Fprintln(os.Stderr, "translator change:", err)
		os.Exit(1)
	}
	// an element is (kind, id, version, visible, payload): kind and payload have no Go field
	el := [][2]string{{"#kind", "e_kind"}, {"ID", "e_id"}, {"Version", "e_ver"}, {"Visible", "e_vis"}, {"#payload", "e_pay"}}
	none := map[string]string{"OSM": "None", "Old": "None", "New": "None"}
	cfg := &tr.LCfg{
		Structs: map[string]*tr.StructMap{
			"Node":     {Coq: "elem", Ctor: "mkElem", Fields: el},
			"Way":      {Coq: "elem", Ctor: "mkElem", Fields: el},
			"Relation": {Coq: "elem", Ctor: "mkElem", Fields: el},
			"Action": {Coq: "action", Ctor: "mkAction", Defaults: none,
				Fields: [][2]string{{"Type", "a_type"}, {"OSM", "a_osm"}, {"Old", "a_old"}, {"New", "a_new"}}},
			// *osm.OSM: read as a section (o.Nodes ...), written as the one element it holds (osm_lit)
			"OSM": {Coq: "section", Ctor: "osm_lit", Defaults: map[string]string{"Nodes": "[]", "Ways": "[]", "Relations": "[]"},
				Fields: [][2]string{{"Nodes", "s_nodes"}, {"Ways", "s_ways"}, {"Relations", "s_rels"}}},
			"Change": {Coq: "gchange", OptionFields: map[string]bool{"Create": true, "Modify": true, "Delete": true},
				Fields: [][2]string{{"Create", "gc_create"}, {"Modify", "gc_modify"}, {"Delete", "gc_delete"}}},
		},
		Types:   map[string]string{"ActionType": "atype"},
		EqFns:   map[string]string{"ActionType": "atype_eqb"},
		Globals: map[string]string{"osm.ActionCreate": "TCreate", "osm.ActionModify": "TModify", "osm.ActionDelete": "TDelete"},
		Calls: map[string]*tr.CallMap{
			// the data source answers with the pair (history, err); err = 0 for nil
			"HistoryDatasourcer.NodeHistory":     {Tmpl: "(a_hist, a_err)"},
			"HistoryDatasourcer.WayHistory":      {Tmpl: "(a_hist, a_err)"},
			"HistoryDatasourcer.RelationHistory": {Tmpl: "(a_hist, a_err)"},
			// (old, err) of findPreviousX read off the model's find_previous_elem (tied to gen_find_previous_* separately)
			"findPreviousNode":     {Tmpl: "(fp_pair (find_previous_elem a_ds $4 $2))", OptionResult: []bool{true, false}},
			"findPreviousWay":      {Tmpl: "(fp_pair (find_previous_elem a_ds $4 $2))", OptionResult: []bool{true, false}},
			"findPreviousRelation": {Tmpl: "(fp_pair (find_previous_elem a_ds $4 $2))", OptionResult: []bool{true, false}},
			// x.FeatureID(): the element stands for its id
			"Node.FeatureID": {Tmpl: "$0"}, "Way.FeatureID": {Tmpl: "$0"}, "Relation.FeatureID": {Tmpl: "$0"},
		},
		ErrCallsBy: map[string]*tr.ErrCall{
			"checkErr": {Term: "(check_err a_nft $2 $3 $4)", OkPat: "None", ErrPat: "Some v_e", ErrVar: "v_e"},
		},
		SumCallsBy:  map[string]string{"addUpdate": "(gen_add_update a_nft a_ds $2 $3 $4 $6)"},
		OpaqueTypes: map[string]map[string]string{"Options": {"IgnoreMissingChildren": "a_ign"}},
	}
	fp := func(key, name, elemVar, listVar string) *tr.LFunc {
		return &tr.LFunc{Key: key, Name: name, Result: "fpg_res",
			Params:     [][2]string{{"a_hist", "list elem"}, {"a_err", "Z"}},
			SkipParams: map[string]bool{"ctx": true, "ds": true},
			Atoms: map[string]string{"err != nil": "(negb (Z.eqb v_err 0))"},
			Returns: map[string]string{
				"nil, err": "(FPG_DsErr v_err)",
				"nil, nil": "FPG_Nil",
				"nil, &NoVisibleChildError{ID: " + elemVar + ".FeatureID()}": "FPG_NoVisible",
				listVar + "[loc], nil": "(FPG_At v_loc)",
			}}
	}
	fns := []*tr.LFunc{
		fp("findPreviousNode", "gen_find_previous_node", "n", "nodes"),
		fp("findPreviousWay", "gen_find_previous_way", "w", "ways"),
		fp("findPreviousRelation", "gen_find_previous_relation", "r", "relations"),
		{Key: "checkErr", Name: "gen_check_err", Result: "ce_res",
			Params:     [][2]string{{"a_err_nil", "bool"}, {"a_not_found", "bool"}},
			SkipParams: map[string]bool{"ds": true, "err": true, "id": true},
			Atoms:      map[string]string{"err == nil": "a_err_nil", "ds.NotFound(err)": "a_not_found"},
			Returns:    map[string]string{"nil": "CE_Nil", "&NoVisibleChildError{ID: id}": "CE_NoVisible", "err": "CE_Same"}},
	}
	// addUpdate: the data source is the parameter a_ds, ds.NotFound on the typed error a_nft
	fns = append(fns,
		&tr.LFunc{Key: "addUpdate", Name: "gen_add_update", Result: "(list action + error)",
			Params:     [][2]string{{"a_nft", "bool"}, {"a_ds", "datasource"}},
			SkipParams: map[string]bool{"ctx": true, "ds": true},
			OptionVars: map[string]bool{"o": true},
			Returns:    map[string]string{"$, nil": "(inl $1)", "nil, $": "(inr $2)"}},
		// Change: the option functions are applied by the caller of the model (a_ign is their
		// effect on IgnoreMissingChildren: core.Options is an opaque type, the loop over the
		// parameter opts is not modelled); an option returning an error is outside the model
		&tr.LFunc{Key: "Change", Name: "gen_change", Result: "result",
			Params:     [][2]string{{"a_nft", "bool"}, {"a_ds", "datasource"}, {"a_ign", "bool"}},
			SkipParams: map[string]bool{"ctx": true, "ds": true, "opts": true},
			Returns:    map[string]string{"nil, $": "(RErr $2)", "&osm.Diff{Actions: actions}, nil": "(ROk v_actions)"}})
	text := []byte("(* GENERATED by /verif/translator (cmd/change, tr/loops.go) from /repo — do not edit. *)\n" +
		"From Coq Require Import ZArith List Bool String.\nFrom Verif Require Import Base.Int64 Base.GenLoop C13.Model C13.GenSupport.\nImport ListNotations.\nOpen Scope Z_scope.\nOpen Scope string_scope.\n\n")
	text = append(text, tr.EmitLoopFuncs(p, cfg, fns)...)
	text = append(text, []byte("(* osmCount only sizes the action slice *)\n")...)
	text = append(text, tr.EmitLiterals(p, []string{"osmCount"})...)
	if err := tr.Emit(filepath.Join(out, "GenChange.v"), text); err != nil {
		fmt.Fprintln(os.Stderr, err)
		os.Exit(1)
	}
}
