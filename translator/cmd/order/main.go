// order: fingerprints annotate/order.go (the child-first ordering of property C14) into
// coq/gen/GenOrder.v: the integer literals and the calls, in source order, of walk,
// NewChildFirstOrdering, Next, Err and Close.  walk is recursive over the data source, has early
// returns inside nested loops and a channel send in a select: outside the grammar of the body
// translators (tr/expr.go, tr/loops.go), so only this fingerprint is tied (theories/C14/GenOk.v);
// behaviour is tied by correspondence.   usage: order <repo> <outdir>
package main

import (
	"bytes"
	"fmt"
	"go/ast"
	"go/constant"
	"go/token"
	"go/types"
	"os"
	"path/filepath"
	"strings"

	"verif/translator/tr"
)

// flat: the fingerprint of a root function with the bodies of the small helpers it calls
// spliced in at the call site (robustness wave: extracting `emit`, `history`, `walkMembers`,
// `run` ... out of walk / the producer must not change the fingerprint).  A helper is any
// function or method of the same package that is not itself one of the roots; a helper
// already on the expansion stack is not expanded again.  Function literals (the producer
// goroutine) are part of the enclosing function as before.
type flat struct {
	p                  *tr.Pkg
	decls              map[*types.Func]*ast.FuncDecl
	roots              map[*ast.FuncDecl]bool
	strs, ints, calls  []string
	lookupCtx, doneCtx []string // see emitFlat
	stack              map[*ast.FuncDecl]bool
}

func (f *flat) callee(c *ast.CallExpr) *ast.FuncDecl {
	var id *ast.Ident
	switch x := c.Fun.(type) {
	case *ast.SelectorExpr:
		id = x.Sel
	case *ast.Ident:
		id = x
	default:
		return nil
	}
	fn, ok := f.p.Info.Uses[id].(*types.Func)
	if !ok || fn.Pkg() != f.p.Types {
		return nil
	}
	return f.decls[fn]
}

func (f *flat) body(fd *ast.FuncDecl) {
	if fd == nil || fd.Body == nil {
		return
	}
	f.stack[fd] = true
	defer delete(f.stack, fd)
	var open []ast.Node
	ast.Inspect(fd.Body, func(n ast.Node) bool {
		if n == nil {
			top := open[len(open)-1]
			open = open[:len(open)-1]
			if c, ok := top.(*ast.CallExpr); ok {
				if d := f.callee(c); d != nil && !f.roots[d] && !f.stack[d] {
					f.body(d)
				}
			}
			return true
		}
		open = append(open, n)
		switch x := n.(type) {
		case *ast.BasicLit:
			if tv := f.p.Info.Types[x]; tv.Value != nil {
				switch tv.Value.Kind() {
				case constant.String:
					f.strs = append(f.strs, constant.StringVal(tv.Value))
				case constant.Int:
					f.ints = append(f.ints, tv.Value.ExactString())
				}
			}
		case *ast.UnaryExpr:
			if x.Op == token.ARROW { // a channel receive: "<-"
				f.calls = append(f.calls, "<-")
			}
		case *ast.SendStmt:
			f.calls = append(f.calls, "send")
		case *ast.CallExpr:
			if fun, ok := x.Fun.(*ast.SelectorExpr); ok {
				fieldOf := func(e ast.Expr) string {
					switch y := e.(type) {
					case *ast.SelectorExpr:
						return y.Sel.Name
					case *ast.Ident:
						return y.Name
					}
					return "?"
				}
				if fun.Sel.Name == "RelationHistory" && len(x.Args) > 0 {
					f.lookupCtx = append(f.lookupCtx, fieldOf(x.Args[0]))
				}
				if fun.Sel.Name == "Done" && len(x.Args) == 0 {
					f.doneCtx = append(f.doneCtx, fieldOf(fun.X))
				}
			}
			switch fun := x.Fun.(type) {
			case *ast.SelectorExpr:
				if id, ok := fun.X.(*ast.Ident); ok {
					f.calls = append(f.calls, id.Name+"."+fun.Sel.Name)
				} else {
					f.calls = append(f.calls, "."+fun.Sel.Name)
				}
			case *ast.Ident:
				f.calls = append(f.calls, fun.Name)
			}
		}
		return true
	})
}

func emitFlat(p *tr.Pkg, keys []string) []byte {
	var b bytes.Buffer
	byName := p.FuncDecls()
	decls := map[*types.Func]*ast.FuncDecl{}
	for _, fd := range byName {
		if fn, ok := p.Info.Defs[fd.Name].(*types.Func); ok {
			decls[fn] = fd
		}
	}
	roots := map[*ast.FuncDecl]bool{}
	for _, k := range keys {
		if fd := byName[k]; fd != nil {
			roots[fd] = true
		}
	}
	b.WriteString("\n(* the same with the bodies of the helpers called (functions of the package other than the\n   roots above) spliced in at the call site *)\n")
	for _, k := range keys {
		name := strings.ReplaceAll(k, ".", "_")
		fd := byName[k]
		if fd == nil {
			fmt.Fprintf(&b, "(* MISSING %s *)\n", k)
			continue
		}
		f := &flat{p: p, decls: decls, roots: roots, stack: map[*ast.FuncDecl]bool{}}
		f.body(fd)
		var ss, cs []string
		for _, x := range f.strs {
			ss = append(ss, tr.CoqString(x))
		}
		for _, x := range f.calls {
			cs = append(cs, tr.CoqString(x))
		}
		fmt.Fprintf(&b, "Definition flat_lits_%s : list string := [%s].\n", name, strings.Join(ss, "; "))
		fmt.Fprintf(&b, "Definition flat_ints_%s : list Z := [%s].\n", name, strings.Join(f.ints, "; "))
		fmt.Fprintf(&b, "Definition flat_calls_%s : list string := [%s].\n", name, strings.Join(cs, "; "))
		if k == "ChildFirstOrdering.walk" {
			// which context the lookups are handed, and which context the send selects on:
			// the names of the fields (or variables) -- only their equality matters
			q := func(l []string) string {
				var o []string
				for _, x := range l {
					o = append(o, tr.CoqString(x))
				}
				return strings.Join(o, "; ")
			}
			fmt.Fprintf(&b, "Definition walk_lookup_ctx : list string := [%s].\n", q(f.lookupCtx))
			fmt.Fprintf(&b, "Definition walk_done_ctx : list string := [%s].\n", q(f.doneCtx))
		}
	}
	return b.Bytes()
}

func main() {
	repo, out := os.Args[1], os.Args[2]
	if err := os.Chdir(repo); err != nil {
		fmt.Fprintln(os.Stderr, err)
		os.Exit(1)
	}
	p, err := tr.Load(filepath.Join(repo, "annotate"), "github.com/paulmach/osm/annotate")
	if err != nil {
		fmt.Fprintln(os.Stderr, "translator order:", err)
		os.Exit(1)
	}
	text := []byte("(* GENERATED by /verif/translator (cmd/order) from /repo/annotate/order.go — do not edit. *)\n" +
		"From Coq Require Import ZArith List String.\nImport ListNotations.\nOpen Scope Z_scope.\nOpen Scope string_scope.\n\n")
	keys := []string{"ChildFirstOrdering.walk", "NewChildFirstOrdering",
		"ChildFirstOrdering.Next", "ChildFirstOrdering.Err", "ChildFirstOrdering.Close"}
	text = append(text, tr.EmitLiterals(p, keys)...)
	text = append(text, emitFlat(p, keys)...)
	if err := tr.Emit(filepath.Join(out, "GenOrder.v"), text); err != nil {
		fmt.Fprintln(os.Stderr, err)
		os.Exit(1)
	}
}
