// osmapi: re-reads /repo/osmapi with go/ast + go/types and emits coq/gen/GenOsmapi.v:
//   - for every exported Datasource method: its parameter kinds, the symbolic expression that
//     builds the URL handed to getFromAPI (Sprintf format strings with their arguments in order,
//     concatenations, the id-list loop, option application, joins, query escaping), what the
//     body is decoded into, and which field is returned under which element-count guard;
//   - the option types' apply methods (query parameter format, validity range);
//   - featureOptions' separator;
//   - getFromAPI: the status -> error-type chain, the OK status, the catch-all type, whether
//     Limiter.Wait precedes client.Do and whether a Wait error returns, the HTTP method;
//   - NotFound's asserted type, baseURL's default.
//
// Every construct outside the recognised shapes is a translator error (= broken obligation).
// usage: osmapi <repo> <outdir>
package main

import (
	"bytes"
	"fmt"
	"go/ast"
	"go/constant"
	"go/token"
	"go/types"
	"os"
	"path/filepath"
	"sort"
	"strings"

	"verif/translator/tr"
)

type trErr struct{ msg string }

func fail(p *tr.Pkg, n ast.Node, f string, a ...interface{}) {
	pos := ""
	if n != nil {
		pos = p.Pos(n) + ": "
	}
	panic(trErr{pos + fmt.Sprintf(f, a...)})
}

// ---------- symbolic values ----------

type sym struct {
	kind string // "str" (Coq sexpr text), "list" (Coq lexpr text), "target" (decoded struct var)
	text string
	typ  string // for target: OSM | Change
	idx  int    // for "len" (len(<ids parameter idx>)) and "acc" (func(i) int64 { return int64(<ids parameter idx>[i]) })
}

type ctx struct {
	p       *tr.Pkg
	decls   map[string]*ast.FuncDecl
	params  map[string]int    // parameter name -> index after ctx
	pkinds  []string          // parameter kinds
	env     map[string]sym    // local variables
	urlExpr string            // argument of getFromAPI
	target  string            // OSM | Change
	tvar    string            // variable holding the decoded value
	guards  map[string]string // field -> "Some (op, n)"
	ret     string
	inOpt   bool   // translating an option's apply method (o.n, o.t allowed)
	helper  bool   // translating the body of an inlined unexported helper
	hret    string // its returned string expression
	depth   int
	optRecv string // receiver name of the option's apply method
	accept  string // pending inverted count guard: "field|(Some (op, n))"
}

func q(s string) string { return tr.CoqString(s) }

func (c *ctx) typeOf(e ast.Expr) string {
	if tv, ok := c.p.Info.Types[e]; ok && tv.Type != nil {
		return tv.Type.String()
	}
	return ""
}

func (c *ctx) constString(e ast.Expr) (string, bool) {
	tv, ok := c.p.Info.Types[e]
	if ok && tv.Value != nil && tv.Value.Kind() == constant.String {
		return constant.StringVal(tv.Value), true
	}
	return "", false
}

func (c *ctx) constInt(e ast.Expr) (string, bool) {
	tv, ok := c.p.Info.Types[e]
	if ok && tv.Value != nil && tv.Value.Kind() == constant.Int {
		return tr.CoqZ(tv.Value), true
	}
	return "", false
}

func isCall(e ast.Expr, recv, name string) (*ast.CallExpr, bool) {
	ce, ok := e.(*ast.CallExpr)
	if !ok {
		return nil, false
	}
	se, ok := ce.Fun.(*ast.SelectorExpr)
	if !ok || se.Sel.Name != name {
		return nil, false
	}
	if id, ok := se.X.(*ast.Ident); ok && id.Name == recv {
		return ce, true
	}
	return nil, false
}

func isFunc(e ast.Expr, name string) (*ast.CallExpr, bool) {
	ce, ok := e.(*ast.CallExpr)
	if !ok {
		return nil, false
	}
	if id, ok := ce.Fun.(*ast.Ident); ok && id.Name == name {
		return ce, true
	}
	return nil, false
}

// strExpr translates a string-valued expression (or a Sprintf argument) to sexpr text.
func (c *ctx) strExpr(e ast.Expr) string {
	if s, ok := c.constString(e); ok {
		return "(ELit " + q(s) + ")"
	}
	switch x := e.(type) {
	case *ast.ParenExpr:
		return c.strExpr(x.X)
	case *ast.Ident:
		if v, ok := c.env[x.Name]; ok {
			if v.kind != "str" {
				fail(c.p, e, "variable %s is not a string expression", x.Name)
			}
			return v.text
		}
		if i, ok := c.params[x.Name]; ok {
			switch c.pkinds[i] {
			case "id", "int", "string":
				return fmt.Sprintf("(EParam %d)", i)
			}
			fail(c.p, e, "parameter %s of kind %s used as a scalar", x.Name, c.pkinds[i])
		}
		fail(c.p, e, "unknown identifier %s", x.Name)
	case *ast.BinaryExpr:
		if x.Op == token.ADD {
			return "(EConcat " + c.strExpr(x.X) + " " + c.strExpr(x.Y) + ")"
		}
	case *ast.SelectorExpr:
		if id, ok := x.X.(*ast.Ident); ok {
			if i, ok := c.params[id.Name]; ok && c.pkinds[i] == "bounds" {
				return fmt.Sprintf("(EField %d %s)", i, q(x.Sel.Name))
			}
			if c.inOpt && id.Name == c.optRecv && c.typeOf(x) == "int" {
				return "EOptInt"
			}
		}
	case *ast.CallExpr:
		if _, ok := isCall(e, "ds", "baseURL"); ok {
			return "EBase"
		}
		if ce, ok := isCall(e, "fmt", "Sprintf"); ok {
			f, ok := c.constString(ce.Args[0])
			if !ok {
				fail(c.p, e, "Sprintf with a non-constant format")
			}
			args := "ANil"
			for i := len(ce.Args) - 1; i >= 1; i-- {
				args = "(ACons " + c.strExpr(ce.Args[i]) + " " + args + ")"
			}
			return "(ESprintf " + q(f) + " " + args + ")"
		}
		if ce, ok := isCall(e, "strings", "Join"); ok {
			if cl, ok := ce.Args[0].(*ast.CompositeLit); ok {
				// strings.Join([]string{a, b, c}, sep)  ==  a + sep + b + sep + c
				sep, ok := c.constString(ce.Args[1])
				if !ok || len(cl.Elts) == 0 {
					fail(c.p, e, "strings.Join of a literal list: separator not constant / empty list")
				}
				r := c.strExpr(cl.Elts[len(cl.Elts)-1])
				for i := len(cl.Elts) - 2; i >= 0; i-- {
					r = "(EConcat " + c.strExpr(cl.Elts[i]) + " (EConcat (ELit " + q(sep) + ") " + r + "))"
				}
				return r
			}
			id, ok := ce.Args[0].(*ast.Ident)
			if !ok || c.env[id.Name].kind != "list" {
				fail(c.p, e, "strings.Join of something that is not a tracked []string")
			}
			sep, ok := c.constString(ce.Args[1])
			if !ok {
				fail(c.p, e, "strings.Join with a non-constant separator")
			}
			return "(EJoin " + c.env[id.Name].text + " " + q(sep) + ")"
		}
		if ce, ok := isCall(e, "url", "QueryEscape"); ok {
			return "(EQueryEscape " + c.strExpr(ce.Args[0]) + ")"
		}
		if ce, ok := isFunc(e, "string"); ok && len(ce.Args) == 1 {
			return c.strExpr(ce.Args[0])
		}
		if ce, ok := isCall(e, "strings", "TrimSuffix"); ok && len(ce.Args) == 2 {
			return "(ETrimSuffix " + c.strExpr(ce.Args[0]) + " " + c.strExpr(ce.Args[1]) + ")"
		}
		if ce, ok := isCall(e, "strconv", "FormatFloat"); ok && len(ce.Args) == 4 {
			tv := c.p.Info.Types[ce.Args[1]]
			if tv.Value == nil || tv.Value.Kind() != constant.Int {
				fail(c.p, e, "FormatFloat with a non-constant format byte")
			}
			if fb, _ := constant.Int64Val(tv.Value); fb != 'f' {
				fail(c.p, e, "FormatFloat format %q is not modelled (only 'f')", rune(fb))
			}
			prec, ok1 := c.constInt(ce.Args[2])
			bits, ok2 := c.constInt(ce.Args[3])
			if !ok1 || !ok2 || bits != "64" || strings.HasPrefix(prec, "(") {
				fail(c.p, e, "FormatFloat precision/bit size not modelled: %s", render(c.p, e))
			}
			return "(EFixed " + c.strExpr(ce.Args[0]) + " " + prec + ")"
		}
		// strconv.Itoa(x), strconv.FormatInt(int64(x), 10): the same text as Sprintf("%d", x)
		if ce, ok := isCall(e, "strconv", "Itoa"); ok && len(ce.Args) == 1 {
			return "(ESprintf \"%d\" (ACons " + c.strExpr(ce.Args[0]) + " ANil))"
		}
		if ce, ok := isCall(e, "strconv", "FormatInt"); ok && len(ce.Args) == 2 {
			if z, ok := c.constInt(ce.Args[1]); !ok || z != "10" {
				fail(c.p, e, "FormatInt base is not 10")
			}
			arg := ce.Args[0]
			if conv, ok := isFunc(arg, "int64"); ok && len(conv.Args) == 1 {
				arg = conv.Args[0]
			}
			return "(ESprintf \"%d\" (ACons " + c.strExpr(arg) + " ANil))"
		}
		// a call of an unexported helper of the package (function or Datasource method): inline it
		if r, ok := c.inlineCall(x); ok {
			return r
		}
		// o.t.UTC().Format(layout) / o.t.Format(layout)
		if c.inOpt {
			if se, ok := x.Fun.(*ast.SelectorExpr); ok && se.Sel.Name == "Format" && len(x.Args) == 1 {
				layout, ok := c.constString(x.Args[0])
				if !ok {
					fail(c.p, e, "time layout is not constant")
				}
				utc := false
				recv := se.X
				if ce2, ok := recv.(*ast.CallExpr); ok {
					if se2, ok := ce2.Fun.(*ast.SelectorExpr); ok && se2.Sel.Name == "UTC" && len(ce2.Args) == 0 {
						utc = true
						recv = se2.X
					}
				}
				if s2, ok := recv.(*ast.SelectorExpr); ok {
					if id, ok := s2.X.(*ast.Ident); ok && id.Name == c.optRecv && c.typeOf(s2) == "time.Time" {
						checkLayout(c.p, e, layout)
						return fmt.Sprintf("(EOptTime %v %s)", utc, q(layout))
					}
				}
			}
		}
	}
	fail(c.p, e, "unsupported string expression %s", render(c.p, e))
	return ""
}

// inlineCall translates a call of an unexported helper (package function, or method on ds other
// than baseURL/getFromAPI) by translating the helper's body with its parameters bound to the
// arguments: a caller's parameter is passed through as that parameter, len(ids) and an index
// accessor func(i int) int64 { return int64(ids[i]) } are kept symbolic, everything else is a
// string expression.  The helper must return a string (or a string and a nil error).
func (c *ctx) inlineCall(x *ast.CallExpr) (string, bool) {
	var fd *ast.FuncDecl
	switch f := x.Fun.(type) {
	case *ast.Ident:
		if ast.IsExported(f.Name) {
			return "", false
		}
		fd = c.decls[f.Name]
		if fd != nil && fd.Recv != nil {
			fd = nil
		}
	case *ast.SelectorExpr:
		id, ok := f.X.(*ast.Ident)
		if !ok || id.Name != "ds" || ast.IsExported(f.Sel.Name) || f.Sel.Name == "baseURL" || f.Sel.Name == "getFromAPI" {
			return "", false
		}
		fd = c.decls["Datasource."+f.Sel.Name]
		if fd != nil && (len(fd.Recv.List[0].Names) != 1 || fd.Recv.List[0].Names[0].Name != "ds") {
			fail(c.p, x, "helper method %s does not name its receiver ds", f.Sel.Name)
		}
	}
	if fd == nil || fd.Body == nil {
		return "", false
	}
	if c.depth > 4 {
		fail(c.p, x, "helper calls nested too deeply")
	}
	var names []string
	for _, f := range fd.Type.Params.List {
		for _, n := range f.Names {
			names = append(names, n.Name)
		}
	}
	if len(names) != len(x.Args) || fd.Type.Params.List == nil {
		fail(c.p, x, "helper %s: arity / variadic call not modelled", fd.Name.Name)
	}
	inner := &ctx{p: c.p, decls: c.decls, params: map[string]int{}, pkinds: c.pkinds, env: map[string]sym{},
		guards: map[string]string{}, helper: true, inOpt: false, depth: c.depth + 1}
	for i, n := range names {
		arg := x.Args[i]
		if tv, ok := c.p.Info.Types[arg]; ok && tv.Type != nil && tv.Type.String() == "context.Context" {
			continue
		}
		if id, ok := arg.(*ast.Ident); ok {
			if pi, ok := c.params[id.Name]; ok {
				inner.params[n] = pi
				continue
			}
			if v, ok := c.env[id.Name]; ok && (v.kind == "len" || v.kind == "acc" || v.kind == "list") {
				inner.env[n] = v
				continue
			}
		}
		if la, ok := c.lenOf(arg); ok {
			if id, ok := la.(*ast.Ident); ok {
				if pi, ok := c.params[id.Name]; ok && c.pkinds[pi] == "ids" {
					inner.env[n] = sym{kind: "len", idx: pi}
					continue
				}
			}
		}
		if fl, ok := arg.(*ast.FuncLit); ok {
			pi, ok := c.accessorOf(fl)
			if !ok {
				fail(c.p, arg, "function literal is not an index accessor of an id-list parameter")
			}
			inner.env[n] = sym{kind: "acc", idx: pi}
			continue
		}
		inner.env[n] = sym{kind: "str", text: c.strExpr(arg)}
	}
	inner.stmts(fd.Body.List)
	if inner.hret == "" {
		fail(c.p, x, "helper %s: no returned string recognised", fd.Name.Name)
	}
	return inner.hret, true
}

// accessorOf recognises  func(i int) int64 { return int64(ids[i]) }  for an id-list parameter ids
func (c *ctx) accessorOf(fl *ast.FuncLit) (int, bool) {
	if len(fl.Type.Params.List) != 1 || len(fl.Type.Params.List[0].Names) != 1 || len(fl.Body.List) != 1 {
		return 0, false
	}
	iname := fl.Type.Params.List[0].Names[0].Name
	rs, ok := fl.Body.List[0].(*ast.ReturnStmt)
	if !ok || len(rs.Results) != 1 {
		return 0, false
	}
	return c.indexedID(rs.Results[0], iname)
}

// indexedID recognises  int64(ids[i])  (or ids[i] converted by a named int64 type)
func (c *ctx) indexedID(e ast.Expr, iname string) (int, bool) {
	if conv, ok := isFunc(e, "int64"); ok && len(conv.Args) == 1 {
		e = conv.Args[0]
	}
	ie, ok := e.(*ast.IndexExpr)
	if !ok {
		return 0, false
	}
	arr, ok1 := ie.X.(*ast.Ident)
	idx, ok2 := ie.Index.(*ast.Ident)
	if !ok1 || !ok2 || idx.Name != iname {
		return 0, false
	}
	pi, ok := c.params[arr.Name]
	if !ok || c.pkinds[pi] != "ids" {
		return 0, false
	}
	return pi, true
}

// nonEmpty recognises the ways of asking whether a string is non-empty and returns the string
func (c *ctx) nonEmpty(e ast.Expr) (ast.Expr, bool) {
	be, ok := e.(*ast.BinaryExpr)
	if !ok {
		return nil, false
	}
	isZero := func(e ast.Expr) bool { z, ok := c.constInt(e); return ok && z == "0" }
	isEmpty := func(e ast.Expr) bool { s, ok := c.constString(e); return ok && s == "" }
	if arg, ok := c.lenOf(be.X); ok && isZero(be.Y) && (be.Op == token.GTR || be.Op == token.NEQ) {
		return arg, true
	}
	if arg, ok := c.lenOf(be.Y); ok && isZero(be.X) && (be.Op == token.LSS || be.Op == token.NEQ) {
		return arg, true
	}
	if be.Op == token.NEQ && isEmpty(be.Y) {
		return be.X, true
	}
	if be.Op == token.NEQ && isEmpty(be.X) {
		return be.Y, true
	}
	return nil, false
}

// isEmptyTest recognises the ways of asking whether a string is empty
func (c *ctx) isEmptyTest(e ast.Expr) (ast.Expr, bool) {
	be, ok := e.(*ast.BinaryExpr)
	if !ok || be.Op != token.EQL {
		return nil, false
	}
	return c.nonEmpty(&ast.BinaryExpr{X: be.X, Op: token.NEQ, Y: be.Y, OpPos: be.OpPos})
}

// notFirst recognises the ways of asking whether the loop index i is past the first element
func (c *ctx) notFirst(e ast.Expr, iname string) bool {
	be, ok := e.(*ast.BinaryExpr)
	if !ok {
		return false
	}
	isI := func(e ast.Expr) bool { id, ok := e.(*ast.Ident); return ok && id.Name == iname }
	is := func(e ast.Expr, v string) bool { z, ok := c.constInt(e); return ok && z == v }
	switch {
	case isI(be.X) && is(be.Y, "0"):
		return be.Op == token.NEQ || be.Op == token.GTR
	case isI(be.Y) && is(be.X, "0"):
		return be.Op == token.NEQ || be.Op == token.LSS
	case isI(be.X) && is(be.Y, "1"):
		return be.Op == token.GEQ
	case isI(be.Y) && is(be.X, "1"):
		return be.Op == token.LEQ
	}
	return false
}

// idLoopBody recognises the body of the id-list loop
//
//	if <i is not the first> { buf = append(buf, <separator byte>) }
//	buf = strconv.AppendInt(buf, <the i-th id as int64>, 10)
//
// and returns the buffer variable and the separator
func (c *ctx) idLoopBody(x ast.Node, body []ast.Stmt, iname string, isID func(ast.Expr) bool) (string, string) {
	if len(body) != 2 {
		fail(c.p, x, "id loop shape")
	}
	is, ok := body[0].(*ast.IfStmt)
	if !ok || is.Init != nil || is.Else != nil || len(is.Body.List) != 1 || !c.notFirst(is.Cond, iname) {
		fail(c.p, x, "id loop: separator statement")
	}
	as, ok := is.Body.List[0].(*ast.AssignStmt)
	if !ok || len(as.Lhs) != 1 || len(as.Rhs) != 1 {
		fail(c.p, x, "id loop: separator append")
	}
	buf, _ := as.Lhs[0].(*ast.Ident)
	ce, ok := isFunc(as.Rhs[0], "append")
	if buf == nil || !ok || len(ce.Args) != 2 || c.env[buf.Name].kind != "bytes" {
		fail(c.p, x, "id loop: separator append")
	}
	if a0, ok := ce.Args[0].(*ast.Ident); !ok || a0.Name != buf.Name {
		fail(c.p, x, "id loop: separator append")
	}
	tv := c.p.Info.Types[ce.Args[1]]
	if tv.Value == nil || tv.Value.Kind() != constant.Int {
		fail(c.p, x, "id loop: separator is not a constant byte")
	}
	sepv, _ := constant.Int64Val(tv.Value)
	if sepv < 32 || sepv > 126 {
		fail(c.p, x, "id loop: separator byte out of range")
	}
	as2, ok := body[1].(*ast.AssignStmt)
	if !ok || len(as2.Lhs) != 1 || len(as2.Rhs) != 1 {
		fail(c.p, x, "id loop: AppendInt statement")
	}
	if l2, ok := as2.Lhs[0].(*ast.Ident); !ok || l2.Name != buf.Name {
		fail(c.p, x, "id loop: AppendInt target")
	}
	ai, ok := isCall(as2.Rhs[0], "strconv", "AppendInt")
	if !ok || len(ai.Args) != 3 {
		fail(c.p, x, "id loop: AppendInt call")
	}
	if a0, ok := ai.Args[0].(*ast.Ident); !ok || a0.Name != buf.Name {
		fail(c.p, x, "id loop: AppendInt buffer")
	}
	if !isID(ai.Args[1]) {
		fail(c.p, x, "id loop: AppendInt value is not the current id")
	}
	if z, ok := c.constInt(ai.Args[2]); !ok || z != "10" {
		fail(c.p, x, "id loop: base is not 10")
	}
	if c.env[buf.Name].text != "" {
		fail(c.p, x, "id loop: buffer already filled")
	}
	return buf.Name, string(rune(sepv))
}

// peeledIDLoop recognises  buf = AppendInt(buf, <ids[0]>, 10); for _, id := range ids[1:] { buf = append(buf, sep); buf = AppendInt(buf, <id>, 10) }
func (c *ctx) peeledIDLoop(body []ast.Stmt, ids string, pi int) (string, string, bool) {
	appendInt := func(s ast.Stmt, isID func(ast.Expr) bool) (string, bool) {
		as, ok := s.(*ast.AssignStmt)
		if !ok || len(as.Lhs) != 1 || len(as.Rhs) != 1 {
			return "", false
		}
		ai, ok := isCall(as.Rhs[0], "strconv", "AppendInt")
		if !ok || len(ai.Args) != 3 || render(c.p, ai.Args[0]) != render(c.p, as.Lhs[0]) || !isID(ai.Args[1]) {
			return "", false
		}
		if z, ok := c.constInt(ai.Args[2]); !ok || z != "10" {
			return "", false
		}
		return render(c.p, as.Lhs[0]), true
	}
	conv := func(e ast.Expr) ast.Expr {
		if cv, ok := isFunc(e, "int64"); ok && len(cv.Args) == 1 {
			return cv.Args[0]
		}
		return e
	}
	buf, ok := appendInt(body[0], func(e ast.Expr) bool { return render(c.p, conv(e)) == ids+"[0]" })
	if !ok || c.env[buf].kind != "bytes" || c.env[buf].text != "" {
		return "", "", false
	}
	rs, ok := body[1].(*ast.RangeStmt)
	if !ok || render(c.p, rs.X) != ids+"[1:]" || len(rs.Body.List) != 2 {
		return "", "", false
	}
	v, _ := rs.Value.(*ast.Ident)
	if v == nil {
		return "", "", false
	}
	as, ok := rs.Body.List[0].(*ast.AssignStmt)
	if !ok || len(as.Lhs) != 1 || len(as.Rhs) != 1 || render(c.p, as.Lhs[0]) != buf {
		return "", "", false
	}
	ce, ok := isFunc(as.Rhs[0], "append")
	if !ok || len(ce.Args) != 2 || render(c.p, ce.Args[0]) != buf {
		return "", "", false
	}
	tv := c.p.Info.Types[ce.Args[1]]
	if tv.Value == nil || tv.Value.Kind() != constant.Int {
		return "", "", false
	}
	sepv, _ := constant.Int64Val(tv.Value)
	if sepv < 32 || sepv > 126 {
		return "", "", false
	}
	if b2, ok := appendInt(rs.Body.List[1], func(e ast.Expr) bool { return render(c.p, conv(e)) == v.Name }); !ok || b2 != buf {
		return "", "", false
	}
	return buf, string(rune(sepv)), true
}

// forStmt recognises the index form of the id-list loop:  for i := 0; i < n; i++ { ... }
// where n is len(ids) (directly or passed to a helper) and the id is ids[i] or an accessor of it
func (c *ctx) forStmt(x *ast.ForStmt) {
	init, ok := x.Init.(*ast.AssignStmt)
	if !ok || init.Tok != token.DEFINE || len(init.Lhs) != 1 || len(init.Rhs) != 1 {
		fail(c.p, x, "for loop: init is not i := 0")
	}
	iv, _ := init.Lhs[0].(*ast.Ident)
	if z, ok := c.constInt(init.Rhs[0]); iv == nil || !ok || z != "0" {
		fail(c.p, x, "for loop: init is not i := 0")
	}
	post, ok := x.Post.(*ast.IncDecStmt)
	if !ok || post.Tok != token.INC || render(c.p, post.X) != iv.Name {
		fail(c.p, x, "for loop: post statement is not i++")
	}
	cond, ok := x.Cond.(*ast.BinaryExpr)
	if !ok {
		fail(c.p, x, "for loop: condition")
	}
	bound := cond.Y
	switch {
	case cond.Op == token.LSS && render(c.p, cond.X) == iv.Name:
	case cond.Op == token.GTR && render(c.p, cond.Y) == iv.Name:
		bound = cond.X
	default:
		fail(c.p, x, "for loop: condition is not i < n")
	}
	pi := -1
	if la, ok := c.lenOf(bound); ok {
		if id, ok := la.(*ast.Ident); ok {
			if k, ok := c.params[id.Name]; ok && c.pkinds[k] == "ids" {
				pi = k
			}
		}
	} else if id, ok := bound.(*ast.Ident); ok {
		if v, ok := c.env[id.Name]; ok && v.kind == "len" {
			pi = v.idx
		}
	}
	if pi < 0 {
		fail(c.p, x, "for loop: bound is not the length of an id-list parameter")
	}
	isID := func(e ast.Expr) bool {
		if k, ok := c.indexedID(e, iv.Name); ok {
			return k == pi
		}
		if ce, ok := e.(*ast.CallExpr); ok && len(ce.Args) == 1 && render(c.p, ce.Args[0]) == iv.Name {
			if f, ok := ce.Fun.(*ast.Ident); ok {
				if v, ok := c.env[f.Name]; ok && v.kind == "acc" {
					return v.idx == pi
				}
			}
		}
		return false
	}
	buf, sep := c.idLoopBody(x, x.Body.List, iv.Name, isID)
	c.env[buf] = sym{kind: "str", text: fmt.Sprintf("(EIdList %d %s)", pi, q(sep))}
}

// only the six numeric reference tokens and the literal characters - T : Z are understood
func checkLayout(p *tr.Pkg, n ast.Node, layout string) {
	rest := layout
	for rest != "" {
		ok := false
		for _, t := range []string{"2006", "01", "02", "15", "04", "05"} {
			if strings.HasPrefix(rest, t) {
				rest = rest[len(t):]
				ok = true
				break
			}
		}
		if ok {
			continue
		}
		if strings.ContainsRune("-T:Z", rune(rest[0])) {
			if rest[0] == 'Z' && len(rest) > 1 && rest[1] == '0' {
				fail(p, n, "time layout %q uses a zone token", layout)
			}
			rest = rest[1:]
			continue
		}
		fail(p, n, "time layout %q has a piece the translator does not model: %q", layout, rest)
	}
}

func render(p *tr.Pkg, n ast.Node) string {
	var b bytes.Buffer
	fset := p.Fset
	_ = fset
	ast.Fprint(&b, nil, n, nil)
	s := b.String()
	if len(s) > 300 {
		s = s[:300]
	}
	pos := p.Fset.Position(n.Pos())
	end := p.Fset.Position(n.End())
	src, err := os.ReadFile(pos.Filename)
	if err == nil && end.Offset <= len(src) {
		return string(src[pos.Offset:end.Offset])
	}
	return s
}

// isErrReturn recognises  if err != nil { return ..., err }
func isErrReturn(s ast.Stmt) bool {
	is, ok := s.(*ast.IfStmt)
	if !ok || is.Init != nil || is.Else != nil {
		return false
	}
	be, ok := is.Cond.(*ast.BinaryExpr)
	if !ok || be.Op != token.NEQ {
		return false
	}
	if id, ok := be.X.(*ast.Ident); !ok || id.Name != "err" {
		return false
	}
	if id, ok := be.Y.(*ast.Ident); !ok || id.Name != "nil" {
		return false
	}
	if len(is.Body.List) != 1 {
		return false
	}
	rs, ok := is.Body.List[0].(*ast.ReturnStmt)
	if !ok || len(rs.Results) == 0 {
		return false
	}
	last, ok := rs.Results[len(rs.Results)-1].(*ast.Ident)
	return ok && last.Name == "err"
}

func (c *ctx) lenOf(e ast.Expr) (ast.Expr, bool) {
	ce, ok := isFunc(e, "len")
	if !ok || len(ce.Args) != 1 {
		return nil, false
	}
	return ce.Args[0], true
}

// targetField recognises  <tvar>.<Field>
func (c *ctx) targetField(e ast.Expr) (string, bool) {
	se, ok := e.(*ast.SelectorExpr)
	if !ok {
		return "", false
	}
	id, ok := se.X.(*ast.Ident)
	if !ok || id.Name != c.tvar || c.tvar == "" {
		return "", false
	}
	return se.Sel.Name, true
}

// terminates: the block always returns
func terminates(b []ast.Stmt) bool {
	if len(b) == 0 {
		return false
	}
	switch x := b[len(b)-1].(type) {
	case *ast.ReturnStmt:
		return true
	case *ast.IfStmt:
		if x.Else == nil {
			return false
		}
		switch e := x.Else.(type) {
		case *ast.BlockStmt:
			return terminates(x.Body.List) && terminates(e.List)
		case *ast.IfStmt:
			return terminates(x.Body.List) && terminates([]ast.Stmt{e})
		}
	}
	return false
}

// flatten rewrites control flow into the early-return form the readers below understand:
//
//	if A { ...return } else { rest }   ==>  if A { ...return }; rest
//	if A { ...return } else if B ...   ==>  if A { ...return }; if B ...
//	switch { case A: ...return; case B: ...return; default: rest }  ==>  if A {...}; if B {...}; rest
//
// (only when the earlier branches always return, so that falling through is the same thing)
func flatten(list []ast.Stmt) []ast.Stmt {
	var out []ast.Stmt
	for _, s := range list {
		switch x := s.(type) {
		case *ast.IfStmt:
			if x.Else != nil && terminates(x.Body.List) {
				y := *x
				y.Else = nil
				out = append(out, &y)
				switch e := x.Else.(type) {
				case *ast.BlockStmt:
					out = append(out, flatten(e.List)...)
				case *ast.IfStmt:
					out = append(out, flatten([]ast.Stmt{e})...)
				}
				continue
			}
		case *ast.SwitchStmt:
			if x.Tag == nil && x.Init == nil {
				ok := true
				var ifs, def []ast.Stmt
				for _, cl := range x.Body.List {
					cc := cl.(*ast.CaseClause)
					if cc.List == nil {
						def = cc.Body
						continue
					}
					if len(cc.List) != 1 || !terminates(cc.Body) {
						ok = false
						break
					}
					ifs = append(ifs, &ast.IfStmt{If: cc.Pos(), Cond: cc.List[0], Body: &ast.BlockStmt{Lbrace: cc.Colon, List: cc.Body, Rbrace: cc.End()}})
				}
				if ok {
					out = append(out, ifs...)
					out = append(out, flatten(def)...)
					continue
				}
			}
		}
		out = append(out, s)
	}
	return out
}

func (c *ctx) stmts(list []ast.Stmt) {
	list = flatten(list)
	for i := 0; i < len(list); i++ {
		s := list[i]
		if c.ret != "" {
			fail(c.p, s, "statement after return")
		}
		if isErrReturn(s) {
			continue
		}
		switch x := s.(type) {
		case *ast.DeclStmt: // var err error
			gd, ok := x.Decl.(*ast.GenDecl)
			if ok && gd.Tok == token.VAR && len(gd.Specs) == 1 {
				vs := gd.Specs[0].(*ast.ValueSpec)
				if len(vs.Names) == 1 && vs.Names[0].Name == "err" && len(vs.Values) == 0 {
					continue
				}
			}
			fail(c.p, s, "unsupported declaration")
		case *ast.AssignStmt:
			c.assign(x)
		case *ast.RangeStmt, *ast.ForStmt:
			// the notes-option loop in any of its forms
			done := false
			for name, pi := range c.params {
				if c.pkinds[pi] != "nopts" {
					continue
				}
				if l, ok := optionLoop(c.p, s, name, "applyNotes"); ok && c.env[l].kind == "list" {
					c.env[l] = sym{kind: "list", text: fmt.Sprintf("(LNotesOpts %s %d)", c.env[l].text, pi)}
					done = true
				}
			}
			if done {
				continue
			}
			if rs, ok := s.(*ast.RangeStmt); ok {
				c.rangeStmt(rs)
			} else {
				c.forStmt(s.(*ast.ForStmt))
			}
		case *ast.IfStmt:
			c.ifStmt(x)
		case *ast.ReturnStmt:
			c.returnStmt(x)
		default:
			fail(c.p, s, "unsupported statement %s", render(c.p, s))
		}
	}
}

func (c *ctx) assign(x *ast.AssignStmt) {
	// params, err := featureOptions(opts)
	if len(x.Lhs) == 2 && len(x.Rhs) == 1 {
		if ce, ok := isFunc(x.Rhs[0], "featureOptions"); ok {
			id, ok := ce.Args[0].(*ast.Ident)
			if !ok {
				fail(c.p, x, "featureOptions argument")
			}
			i, ok := c.params[id.Name]
			if !ok || c.pkinds[i] != "fopts" {
				fail(c.p, x, "featureOptions argument is not the variadic FeatureOption parameter")
			}
			c.env[x.Lhs[0].(*ast.Ident).Name] = sym{kind: "str", text: fmt.Sprintf("(EFeatureOpts %d)", i)}
			return
		}
		if ce, ok := x.Rhs[0].(*ast.CallExpr); ok {
			if l1, ok := x.Lhs[1].(*ast.Ident); ok && l1.Name == "err" {
				if r, ok := c.inlineCall(ce); ok {
					c.env[x.Lhs[0].(*ast.Ident).Name] = sym{kind: "str", text: r}
					return
				}
			}
		}
		fail(c.p, x, "unsupported two-value assignment %s", render(c.p, x))
	}
	if len(x.Lhs) != 1 || len(x.Rhs) != 1 {
		fail(c.p, x, "unsupported assignment")
	}
	lhs, ok := x.Lhs[0].(*ast.Ident)
	if !ok {
		fail(c.p, x, "unsupported assignment target")
	}
	rhs := x.Rhs[0]
	// x := make([]string, 0, n) / make([]byte, 0, n)
	if ce, ok := isFunc(rhs, "make"); ok {
		at, ok := ce.Args[0].(*ast.ArrayType)
		if ok && at.Len == nil {
			if el, ok := at.Elt.(*ast.Ident); ok {
				if z, ok2 := c.constInt(ce.Args[1]); !ok2 || z != "0" {
					fail(c.p, x, "make with non-zero length")
				}
				switch el.Name {
				case "string":
					c.env[lhs.Name] = sym{kind: "list", text: "LNil"}
					return
				case "byte":
					c.env[lhs.Name] = sym{kind: "bytes", text: ""}
					return
				}
			}
		}
		fail(c.p, x, "unsupported make")
	}
	// x = append(x, e)
	if ce, ok := isFunc(rhs, "append"); ok && len(ce.Args) == 2 {
		if a0, ok := ce.Args[0].(*ast.Ident); ok && a0.Name == lhs.Name && c.env[lhs.Name].kind == "list" {
			c.env[lhs.Name] = sym{kind: "list", text: "(LSnoc " + c.env[lhs.Name].text + " " + c.strExpr(ce.Args[1]) + ")"}
			return
		}
		fail(c.p, x, "unsupported append %s", render(c.p, x))
	}
	// o := &osm.OSM{} / &osm.Change{}
	if ue, ok := rhs.(*ast.UnaryExpr); ok && ue.Op == token.AND {
		if cl, ok := ue.X.(*ast.CompositeLit); ok && len(cl.Elts) == 0 {
			if se, ok := cl.Type.(*ast.SelectorExpr); ok {
				if id, ok := se.X.(*ast.Ident); ok && id.Name == "osm" && (se.Sel.Name == "OSM" || se.Sel.Name == "Change") {
					c.env[lhs.Name] = sym{kind: "target", typ: se.Sel.Name}
					return
				}
			}
		}
		fail(c.p, x, "unsupported composite %s", render(c.p, x))
	}
	switch x.Tok {
	case token.DEFINE, token.ASSIGN:
		c.env[lhs.Name] = sym{kind: "str", text: c.strExpr(rhs)}
	case token.ADD_ASSIGN:
		old, ok := c.env[lhs.Name]
		if !ok || old.kind != "str" {
			fail(c.p, x, "+= on an untracked variable")
		}
		c.env[lhs.Name] = sym{kind: "str", text: "(EConcat " + old.text + " " + c.strExpr(rhs) + ")"}
	default:
		fail(c.p, x, "unsupported assignment operator")
	}
}

func (c *ctx) rangeStmt(x *ast.RangeStmt) {
	over, ok := x.X.(*ast.Ident)
	if !ok {
		fail(c.p, x, "range over a non-identifier")
	}
	pi, ok := c.params[over.Name]
	if !ok {
		fail(c.p, x, "range over a non-parameter")
	}
	switch c.pkinds[pi] {
	case "ids":
		// for i, id := range ids { if i != 0 { data = append(data, byte(',')) }; data = strconv.AppendInt(data, int64(id), 10) }
		k, _ := x.Key.(*ast.Ident)
		if k == nil {
			fail(c.p, x, "id loop without an index variable")
		}
		v, _ := x.Value.(*ast.Ident)
		isID := func(e ast.Expr) bool {
			if j, ok := c.indexedID(e, k.Name); ok {
				return j == pi
			}
			if conv, ok := isFunc(e, "int64"); ok && len(conv.Args) == 1 && v != nil {
				a1, ok := conv.Args[0].(*ast.Ident)
				return ok && a1.Name == v.Name
			}
			return false
		}
		buf, sep := c.idLoopBody(x, x.Body.List, k.Name, isID)
		c.env[buf] = sym{kind: "str", text: fmt.Sprintf("(EIdList %d %s)", pi, q(sep))}
	case "nopts":
		// for _, o := range opts { params, err = o.applyNotes(params); if err != nil { return nil, err } }
		v, _ := x.Value.(*ast.Ident)
		if v == nil || len(x.Body.List) != 2 || !isErrReturn(x.Body.List[1]) {
			fail(c.p, x, "notes option loop shape")
		}
		as, ok := x.Body.List[0].(*ast.AssignStmt)
		if !ok || len(as.Lhs) != 2 || len(as.Rhs) != 1 {
			fail(c.p, x, "notes option loop assignment")
		}
		l0, _ := as.Lhs[0].(*ast.Ident)
		ce, ok := isCall(as.Rhs[0], v.Name, "applyNotes")
		if l0 == nil || !ok || len(ce.Args) != 1 || c.env[l0.Name].kind != "list" {
			fail(c.p, x, "notes option loop call")
		}
		if a0, ok := ce.Args[0].(*ast.Ident); !ok || a0.Name != l0.Name {
			fail(c.p, x, "notes option loop argument")
		}
		c.env[l0.Name] = sym{kind: "list", text: fmt.Sprintf("(LNotesOpts %s %d)", c.env[l0.Name].text, pi)}
	default:
		fail(c.p, x, "range over parameter of kind %s", c.pkinds[pi])
	}
}

func (c *ctx) ifStmt(x *ast.IfStmt) {
	// if [l := len(o.F);] <count> == 1 { return o.F[0], nil }   (the error return follows)
	if be, ok := x.Cond.(*ast.BinaryExpr); ok && x.Else == nil && len(x.Body.List) == 1 {
		if rs, ok := x.Body.List[0].(*ast.ReturnStmt); ok && len(rs.Results) == 2 {
			if ie, ok := rs.Results[0].(*ast.IndexExpr); ok {
				if f, ok := c.targetField(ie.X); ok {
					counted := be.X
					if x.Init != nil {
						if as, ok := x.Init.(*ast.AssignStmt); ok && len(as.Lhs) == 1 && len(as.Rhs) == 1 && render(c.p, as.Lhs[0]) == render(c.p, be.X) {
							counted = as.Rhs[0]
						}
					}
					la, isLen := c.lenOf(counted)
					z0, isZero := c.constInt(ie.Index)
					n, isConst := c.constInt(be.Y)
					nop := map[token.Token]string{token.EQL: "!=", token.NEQ: "==", token.LSS: ">=", token.GEQ: "<", token.GTR: "<=", token.LEQ: ">"}[be.Op]
					if isLen && isZero && z0 == "0" && isConst && nop != "" && render(c.p, rs.Results[1]) == "nil" {
						if f2, ok := c.targetField(la); ok && f2 == f {
							c.accept = f + "|" + fmt.Sprintf("(Some (%s, %s))", q(nop), n)
							return
						}
					}
				}
			}
		}
	}
	// if err := ds.getFromAPI(ctx, url, &o); err != nil { return nil, err }
	if x.Init != nil {
		if as, ok := x.Init.(*ast.AssignStmt); ok && len(as.Rhs) == 1 {
			if ce, ok := isCall(as.Rhs[0], "ds", "getFromAPI"); ok {
				y := *x
				y.Init = nil
				if !isErrReturn(&y) || len(ce.Args) != 3 {
					fail(c.p, x, "getFromAPI call shape")
				}
				if c.urlExpr != "" {
					fail(c.p, x, "second getFromAPI call")
				}
				c.urlExpr = c.strExpr(ce.Args[1])
				// the decode target: the fresh pointer itself (o) or a pointer to it (&o);
				// encoding/xml follows either to the same struct
				itemArg := ce.Args[2]
				if ue, ok := itemArg.(*ast.UnaryExpr); ok && ue.Op == token.AND {
					itemArg = ue.X
				}
				id, ok := itemArg.(*ast.Ident)
				if !ok || c.env[id.Name].kind != "target" {
					fail(c.p, x, "getFromAPI item argument is not a fresh osm.OSM / osm.Change")
				}
				c.tvar, c.target = id.Name, c.env[id.Name].typ
				return
			}
			// if l := len(o.Nodes); l != 1 { return nil, fmt.Errorf(...) }
			if arg, ok := c.lenOf(as.Rhs[0]); ok && len(as.Lhs) == 1 && x.Else == nil {
				f, ok := c.targetField(arg)
				lv, _ := as.Lhs[0].(*ast.Ident)
				be, ok2 := x.Cond.(*ast.BinaryExpr)
				if ok && ok2 && lv != nil {
					if cx, ok := be.X.(*ast.Ident); ok && cx.Name == lv.Name {
						if n, ok := c.constInt(be.Y); ok && len(x.Body.List) == 1 {
							if rs, ok := x.Body.List[0].(*ast.ReturnStmt); ok && len(rs.Results) == 2 {
								if r0, ok := rs.Results[0].(*ast.Ident); ok && r0.Name == "nil" {
									if _, ok := isCall(rs.Results[1], "fmt", "Errorf"); ok {
										if _, dup := c.guards[f]; dup {
											fail(c.p, x, "two guards on %s", f)
										}
										c.guards[f] = fmt.Sprintf("(Some (%s, %s))", q(be.Op.String()), n)
										return
									}
								}
							}
						}
					}
				}
			}
		}
		fail(c.p, x, "unsupported if statement %s", render(c.p, x))
	}
	// if len(o.Nodes) != 1 { return nil, fmt.Errorf(...) }
	if be, ok := x.Cond.(*ast.BinaryExpr); ok && x.Else == nil && len(x.Body.List) == 1 {
		if arg, ok := c.lenOf(be.X); ok {
			if f, ok := c.targetField(arg); ok {
				if n, ok := c.constInt(be.Y); ok {
					if rs, ok := x.Body.List[0].(*ast.ReturnStmt); ok && len(rs.Results) == 2 {
						if r0, ok := rs.Results[0].(*ast.Ident); ok && r0.Name == "nil" {
							if _, ok := isCall(rs.Results[1], "fmt", "Errorf"); ok {
								if _, dup := c.guards[f]; dup {
									fail(c.p, x, "two guards on %s", f)
								}
								c.guards[f] = fmt.Sprintf("(Some (%s, %s))", q(be.Op.String()), n)
								return
							}
						}
					}
				}
			}
		}
	}
	// the id-list loop with its first iteration peeled off:
	//   if len(ids) > 0 { buf = AppendInt(buf, int64(ids[0]), 10)
	//                     for _, id := range ids[1:] { buf = append(buf, sep); buf = AppendInt(buf, int64(id), 10) } }
	if x.Init == nil && x.Else == nil && len(x.Body.List) == 2 {
		if arg, ok := c.nonEmpty(x.Cond); ok {
			if idl, ok := arg.(*ast.Ident); ok {
				if pi, ok := c.params[idl.Name]; ok && c.pkinds[pi] == "ids" {
					if buf, sep, ok := c.peeledIDLoop(x.Body.List, idl.Name, pi); ok {
						c.env[buf] = sym{kind: "str", text: fmt.Sprintf("(EIdList %d %s)", pi, q(sep))}
						return
					}
				}
			}
		}
	}
	// if len(params) > 0 { url += "&" + params }   (or params != "", len(params) != 0, an else
	// branch, the inverted test with the branches swapped)
	{
		arg, ok := c.nonEmpty(x.Cond)
		thenB, elseB := x.Body.List, []ast.Stmt(nil)
		if eb, isBlock := x.Else.(*ast.BlockStmt); isBlock {
			elseB = eb.List
		} else if x.Else != nil {
			ok = false
		}
		if !ok && (x.Else == nil || elseB != nil) {
			if a2, ok2 := c.isEmptyTest(x.Cond); ok2 {
				arg, ok = a2, true
				thenB, elseB = elseB, thenB
			}
		}
		if ok && x.Init == nil {
			cond := c.strExpr(arg)
			saved := map[string]sym{}
			for k, v := range c.env {
				saved[k] = v
			}
			branch := func(b []ast.Stmt) map[string]sym {
				c.env = map[string]sym{}
				for k, v := range saved {
					c.env[k] = v
				}
				for _, s := range b {
					as, ok := s.(*ast.AssignStmt)
					if !ok {
						fail(c.p, s, "unsupported statement in a non-empty test block")
					}
					c.assign(as)
				}
				return c.env
			}
			et := branch(thenB)
			ee := branch(elseB)
			c.env = map[string]sym{}
			for k, old := range saved {
				vt, ve := et[k], ee[k]
				if vt.text == old.text && ve.text == old.text {
					c.env[k] = old
					continue
				}
				if vt.kind != "str" || ve.kind != "str" {
					fail(c.p, x, "conditional update of a non-string")
				}
				c.env[k] = sym{kind: "str", text: "(EIfNonEmpty " + cond + " " + vt.text + " " + ve.text + ")"}
			}
			return
		}
	}
	fail(c.p, x, "unsupported if statement %s", render(c.p, x))
}

func (c *ctx) returnStmt(x *ast.ReturnStmt) {
	if c.helper {
		// return <string>   or   return <string>, nil
		if len(x.Results) == 2 {
			if id, ok := x.Results[1].(*ast.Ident); !ok || id.Name != "nil" {
				fail(c.p, x, "helper returns a non-nil error on its normal path")
			}
		} else if len(x.Results) != 1 {
			fail(c.p, x, "helper return arity")
		}
		c.hret = c.strExpr(x.Results[0])
		c.ret = "helper"
		return
	}
	// return ds.helper(ctx, url): inline the helper
	if len(x.Results) == 1 {
		if ce, ok := x.Results[0].(*ast.CallExpr); ok {
			if se, ok := ce.Fun.(*ast.SelectorExpr); ok {
				if id, ok := se.X.(*ast.Ident); ok && id.Name == "ds" {
					fd := c.decls["Datasource."+se.Sel.Name]
					if fd == nil || ast.IsExported(se.Sel.Name) {
						fail(c.p, x, "return of a call that is not an unexported Datasource helper")
					}
					// bind helper parameters: ctx -> skipped, string parameters -> expressions
					var names []string
					for _, f := range fd.Type.Params.List {
						for _, n := range f.Names {
							names = append(names, n.Name)
						}
					}
					if len(names) != len(ce.Args) {
						fail(c.p, x, "helper arity")
					}
					env := map[string]sym{}
					for i, n := range names {
						if i == 0 {
							continue
						}
						env[n] = sym{kind: "str", text: c.strExpr(ce.Args[i])}
					}
					saved := c.env
					c.env = env
					c.stmts(fd.Body.List)
					c.env = saved
					return
				}
			}
		}
	}
	if len(x.Results) != 2 {
		fail(c.p, x, "unsupported return")
	}
	if c.accept != "" {
		// the error return that follows an accepting count test
		if r0, ok := x.Results[0].(*ast.Ident); ok && r0.Name == "nil" {
			if _, ok := isCall(x.Results[1], "fmt", "Errorf"); ok && c.urlExpr != "" && len(c.guards) == 0 {
				parts := strings.SplitN(c.accept, "|", 2)
				c.ret = "(RetIndex0 " + q(parts[0]) + " " + parts[1] + ")"
				return
			}
		}
		fail(c.p, x, "unsupported return after an accepting count test")
	}
	if id, ok := x.Results[1].(*ast.Ident); !ok || id.Name != "nil" {
		fail(c.p, x, "final return with a non-nil error")
	}
	if c.urlExpr == "" {
		fail(c.p, x, "return before getFromAPI")
	}
	r := x.Results[0]
	if id, ok := r.(*ast.Ident); ok && id.Name == c.tvar {
		if len(c.guards) != 0 {
			fail(c.p, x, "guard on a whole-document return")
		}
		c.ret = "RetWhole"
		return
	}
	if f, ok := c.targetField(r); ok {
		if len(c.guards) != 0 {
			fail(c.p, x, "guard on a list return")
		}
		c.ret = "(RetList " + q(f) + ")"
		return
	}
	if ie, ok := r.(*ast.IndexExpr); ok {
		if f, ok := c.targetField(ie.X); ok {
			if z, ok := c.constInt(ie.Index); ok && z == "0" {
				g := "None"
				for gf, gt := range c.guards {
					if gf != f {
						fail(c.p, x, "guard on field %s but %s is returned", gf, f)
					}
					g = gt
				}
				c.ret = "(RetIndex0 " + q(f) + " " + g + ")"
				return
			}
		}
	}
	fail(c.p, x, "unsupported return %s", render(c.p, x))
}

func paramKind(t types.Type, variadic bool) string {
	s := t.String()
	s = strings.ReplaceAll(s, "github.com/paulmach/osm/osmapi.", "")
	s = strings.ReplaceAll(s, "github.com/paulmach/osm.", "osm.")
	switch s {
	case "osm.NodeID", "osm.WayID", "osm.RelationID", "osm.ChangesetID", "osm.NoteID", "osm.UserID":
		return "id"
	case "[]osm.NodeID", "[]osm.WayID", "[]osm.RelationID":
		return "ids"
	case "int":
		return "int"
	case "string":
		return "string"
	case "*osm.Bounds":
		return "bounds"
	case "[]FeatureOption":
		if variadic {
			return "fopts"
		}
	case "[]NotesOption":
		if variadic {
			return "nopts"
		}
	}
	return "?" + s
}

func translateMethod(p *tr.Pkg, decls map[string]*ast.FuncDecl, fd *ast.FuncDecl) string {
	c := &ctx{p: p, decls: decls, params: map[string]int{}, env: map[string]sym{}, guards: map[string]string{}}
	sig := p.Info.Defs[fd.Name].Type().(*types.Signature)
	ps := sig.Params()
	if ps.Len() == 0 || ps.At(0).Type().String() != "context.Context" {
		fail(p, fd, "method %s: first parameter is not a context", fd.Name.Name)
	}
	for i := 1; i < ps.Len(); i++ {
		k := paramKind(ps.At(i).Type(), sig.Variadic() && i == ps.Len()-1)
		if strings.HasPrefix(k, "?") {
			fail(p, fd, "method %s: parameter type %s not modelled", fd.Name.Name, k[1:])
		}
		c.params[ps.At(i).Name()] = i - 1
		c.pkinds = append(c.pkinds, k)
	}
	c.stmts(fd.Body.List)
	if c.ret == "" || c.urlExpr == "" {
		fail(p, fd, "method %s: no getFromAPI call / return recognised", fd.Name.Name)
	}
	var ks []string
	for _, k := range c.pkinds {
		ks = append(ks, q(k))
	}
	return fmt.Sprintf("  {| m_name := %s; m_params := [%s];\n     m_url := %s;\n     m_target := %s; m_ret := %s |}",
		q(fd.Name.Name), strings.Join(ks, "; "), c.urlExpr, q(c.target), c.ret)
}

// ---------- options ----------

func translateOption(p *tr.Pkg, decls map[string]*ast.FuncDecl, ctor string) string {
	fd := decls[ctor]
	if fd == nil || len(fd.Body.List) != 1 {
		fail(p, nil, "option constructor %s not found / not a single return", ctor)
	}
	rs, ok := fd.Body.List[0].(*ast.ReturnStmt)
	if !ok || len(rs.Results) != 1 {
		fail(p, fd, "option constructor %s", ctor)
	}
	ue, ok := rs.Results[0].(*ast.UnaryExpr)
	if !ok || ue.Op != token.AND {
		fail(p, fd, "option constructor %s does not return &T{arg}", ctor)
	}
	cl, ok := ue.X.(*ast.CompositeLit)
	if !ok || len(cl.Elts) != 1 {
		fail(p, fd, "option constructor %s does not return &T{arg}", ctor)
	}
	if a, ok := cl.Elts[0].(*ast.Ident); !ok || a.Name != fd.Type.Params.List[0].Names[0].Name {
		fail(p, fd, "option constructor %s does not store its argument unchanged", ctor)
	}
	tname := cl.Type.(*ast.Ident).Name
	var iface string
	var am *ast.FuncDecl
	for _, m := range []string{"applyFeature", "applyNotes"} {
		if d := decls[tname+"."+m]; d != nil {
			if am != nil {
				fail(p, fd, "option type %s has both apply methods", tname)
			}
			am, iface = d, m
		}
	}
	if am == nil {
		fail(p, fd, "option type %s has no apply method", tname)
	}
	if len(am.Recv.List[0].Names) != 1 {
		fail(p, am, "apply method has no named receiver")
	}
	recvName := am.Recv.List[0].Names[0].Name
	pname := am.Type.Params.List[0].Names[0].Name
	c := &ctx{p: p, decls: decls, params: map[string]int{}, env: map[string]sym{}, inOpt: true, optRecv: recvName}
	reject := "None"
	body := flatten(am.Body.List)
	if len(body) == 2 {
		if is, ok := body[0].(*ast.IfStmt); ok && is.Init == nil && is.Else == nil && len(is.Body.List) == 1 {
			if rs, ok := is.Body.List[0].(*ast.ReturnStmt); ok && len(rs.Results) == 2 {
				if _, isAppend := isFunc(rs.Results[0], "append"); isAppend {
					// accepting form: swap into the rejecting one with the negated condition
					if rs2, ok := body[1].(*ast.ReturnStmt); ok && len(rs2.Results) == 2 {
						if r0, ok := rs2.Results[0].(*ast.Ident); ok && r0.Name == "nil" {
							lo, hi, ok := acceptGuard(c, is.Cond)
							if !ok {
								fail(p, am, "option guard is not  lo <= n && n <= hi : %s", render(p, is.Cond))
							}
							reject = fmt.Sprintf("(Some (%s, %s))", lo, hi)
							body = []ast.Stmt{rs}
						}
					}
				}
			}
		}
	}
	if len(body) == 2 {
		// if o.n < lo || hi < o.n { return nil, errors.New(..) }
		is, ok := body[0].(*ast.IfStmt)
		if !ok || is.Init != nil || is.Else != nil || len(is.Body.List) != 1 {
			fail(p, am, "option guard shape")
		}
		rs, ok := is.Body.List[0].(*ast.ReturnStmt)
		if !ok || len(rs.Results) != 2 {
			fail(p, am, "option guard return")
		}
		if r0, ok := rs.Results[0].(*ast.Ident); !ok || r0.Name != "nil" {
			fail(p, am, "option guard return")
		}
		lo, hi, ok := rangeGuard(c, is.Cond)
		if !ok {
			fail(p, am, "option guard is not  o.n < lo || hi < o.n : %s", render(p, is.Cond))
		}
		reject = fmt.Sprintf("(Some (%s, %s))", lo, hi)
		body = body[1:]
	}
	if len(body) != 1 {
		fail(p, am, "apply method shape")
	}
	rs2, ok := body[0].(*ast.ReturnStmt)
	if !ok || len(rs2.Results) != 2 {
		fail(p, am, "apply method return")
	}
	if r1, ok := rs2.Results[1].(*ast.Ident); !ok || r1.Name != "nil" {
		fail(p, am, "apply method returns an error on its normal path")
	}
	ce, ok := isFunc(rs2.Results[0], "append")
	if !ok || len(ce.Args) != 2 {
		fail(p, am, "apply method does not return append(p, x)")
	}
	if a0, ok := ce.Args[0].(*ast.Ident); !ok || a0.Name != pname {
		fail(p, am, "apply method does not append to its argument")
	}
	return fmt.Sprintf("  {| o_ctor := %s; o_iface := %s; o_reject := %s;\n     o_expr := %s |}", q(ctor), q(iface), reject, c.strExpr(ce.Args[1]))
}

// lo <= n && n <= hi  (and its variants): the complement of the rejecting form
func acceptGuard(c *ctx, e ast.Expr) (lo, hi string, ok bool) {
	be, ok := e.(*ast.BinaryExpr)
	if !ok || be.Op != token.LAND {
		return "", "", false
	}
	neg := func(e ast.Expr) ast.Expr {
		b, ok := e.(*ast.BinaryExpr)
		if !ok {
			return e
		}
		op := map[token.Token]token.Token{token.LSS: token.GEQ, token.GEQ: token.LSS, token.GTR: token.LEQ, token.LEQ: token.GTR}[b.Op]
		if op == token.ILLEGAL {
			return e
		}
		return &ast.BinaryExpr{X: b.X, Op: op, Y: b.Y, OpPos: b.OpPos}
	}
	return rangeGuard(c, &ast.BinaryExpr{X: neg(be.X), Op: token.LOR, Y: neg(be.Y), OpPos: be.OpPos})
}

// o.n < lo || hi < o.n   (also accepts o.n > hi, lo > o.n, and <= / >= with adjusted bounds)
func rangeGuard(c *ctx, e ast.Expr) (lo, hi string, ok bool) {
	if pe, ok := e.(*ast.ParenExpr); ok {
		return rangeGuard(c, pe.X)
	}
	be, ok := e.(*ast.BinaryExpr)
	if !ok || be.Op != token.LOR {
		return "", "", false
	}
	isN := func(e ast.Expr) bool {
		se, ok := e.(*ast.SelectorExpr)
		if !ok {
			return false
		}
		id, ok := se.X.(*ast.Ident)
		return ok && id.Name == c.optRecv && c.typeOf(se) == "int"
	}
	// returns ("lo"|"hi", bound)
	side := func(e ast.Expr) (string, int64, bool) {
		b, ok := e.(*ast.BinaryExpr)
		if !ok {
			return "", 0, false
		}
		var k int64
		get := func(x ast.Expr) bool {
			tv := c.p.Info.Types[x]
			if tv.Value == nil || tv.Value.Kind() != constant.Int {
				return false
			}
			k, _ = constant.Int64Val(tv.Value)
			return true
		}
		switch {
		case isN(b.X) && get(b.Y):
			switch b.Op {
			case token.LSS: // n < k : valid needs n >= k
				return "lo", k, true
			case token.LEQ:
				return "lo", k + 1, true
			case token.GTR: // n > k
				return "hi", k, true
			case token.GEQ:
				return "hi", k - 1, true
			}
		case isN(b.Y) && get(b.X):
			switch b.Op {
			case token.LSS: // k < n
				return "hi", k, true
			case token.LEQ:
				return "hi", k - 1, true
			case token.GTR: // k > n
				return "lo", k, true
			case token.GEQ:
				return "lo", k + 1, true
			}
		}
		return "", 0, false
	}
	s1, k1, ok1 := side(be.X)
	s2, k2, ok2 := side(be.Y)
	if !ok1 || !ok2 || s1 == s2 {
		return "", "", false
	}
	if s1 == "hi" {
		k1, k2 = k2, k1
	}
	z := func(v int64) string {
		if v < 0 {
			return fmt.Sprintf("(%d)", v)
		}
		return fmt.Sprintf("%d", v)
	}
	return z(k1), z(k2), true
}

// ---------- featureOptions ----------

// optionLoop recognises the loop that lets every option append its parameter:
//
//	for _, o := range opts { L, err = o.<method>(L); if err != nil { return ..., err } }
//
// also with an index (for i := range opts / for i := 0; i < len(opts); i++, receiver opts[i]) and
// with the assignment folded into the if statement.  Returns the list variable L.
func optionLoop(p *tr.Pkg, s ast.Stmt, optsName, method string) (string, bool) {
	var body []ast.Stmt
	isRecv := func(e ast.Expr) bool { return false }
	switch x := s.(type) {
	case *ast.RangeStmt:
		if render(p, x.X) != optsName {
			return "", false
		}
		body = x.Body.List
		if v, ok := x.Value.(*ast.Ident); ok && v.Name != "_" {
			isRecv = func(e ast.Expr) bool { return render(p, e) == v.Name }
		} else if k, ok := x.Key.(*ast.Ident); ok && k.Name != "_" {
			isRecv = func(e ast.Expr) bool { return render(p, e) == optsName+"["+k.Name+"]" }
		}
	case *ast.ForStmt:
		init, ok := x.Init.(*ast.AssignStmt)
		if !ok || len(init.Lhs) != 1 || render(p, init.Rhs[0]) != "0" {
			return "", false
		}
		i := render(p, init.Lhs[0])
		if render(p, x.Cond) != i+" < len("+optsName+")" || render(p, x.Post) != i+"++" {
			return "", false
		}
		body = x.Body.List
		isRecv = func(e ast.Expr) bool { return render(p, e) == optsName+"["+i+"]" }
	default:
		return "", false
	}
	// the assignment, either a statement of its own or the init of the error test
	var as *ast.AssignStmt
	switch len(body) {
	case 1:
		is, ok := body[0].(*ast.IfStmt)
		if !ok || is.Init == nil {
			return "", false
		}
		y := *is
		y.Init = nil
		if !isErrReturn(&y) {
			return "", false
		}
		as, _ = is.Init.(*ast.AssignStmt)
	case 2:
		if !isErrReturn(body[1]) {
			return "", false
		}
		as, _ = body[0].(*ast.AssignStmt)
	}
	if as == nil || len(as.Lhs) != 2 || len(as.Rhs) != 1 || render(p, as.Lhs[1]) != "err" {
		return "", false
	}
	ce, ok := as.Rhs[0].(*ast.CallExpr)
	if !ok || len(ce.Args) != 1 {
		return "", false
	}
	se, ok := ce.Fun.(*ast.SelectorExpr)
	if !ok || se.Sel.Name != method || !isRecv(se.X) {
		return "", false
	}
	l := render(p, as.Lhs[0])
	if render(p, ce.Args[0]) != l {
		return "", false
	}
	return l, true
}

func translateFeatureOptions(p *tr.Pkg, decls map[string]*ast.FuncDecl) string {
	fd := decls["featureOptions"]
	if fd == nil || len(fd.Type.Params.List) != 1 || len(fd.Type.Params.List[0].Names) != 1 {
		fail(p, nil, "featureOptions not found / not one parameter")
	}
	opts := fd.Type.Params.List[0].Names[0].Name
	// [if len(opts) == 0 { return "", nil }]  L := make([]string, 0, n) / var block;  var err error;
	// the option loop over applyFeature;  return strings.Join(L, SEP), nil
	sep, list := "", ""
	found, loop := false, false
	isListInit := func(name string, v ast.Expr) bool {
		ce, ok := isFunc(v, "make")
		if !ok || len(ce.Args) < 2 || render(p, ce.Args[0]) != "[]string" || render(p, ce.Args[1]) != "0" {
			return false
		}
		for _, a := range ce.Args[1:] {
			ast.Inspect(a, func(n ast.Node) bool {
				if c2, ok := n.(*ast.CallExpr); ok && render(p, c2) != "len("+opts+")" {
					fail(p, c2, "featureOptions: call in the capacity of the parameter list")
				}
				return true
			})
		}
		list = name
		return true
	}
	for _, s := range flatten(fd.Body.List) {
		switch x := s.(type) {
		case *ast.IfStmt:
			c := strings.Join(strings.Fields(render(p, x.Cond)), " ")
			if (c != "len("+opts+") == 0" && c != opts+" == nil" && c != "0 == len("+opts+")") || x.Init != nil || x.Else != nil || len(x.Body.List) != 1 {
				fail(p, x, "featureOptions: unsupported if")
			}
			if strings.Join(strings.Fields(render(p, x.Body.List[0])), " ") != `return "", nil` {
				fail(p, x, "featureOptions: the empty case does not return \"\", nil")
			}
		case *ast.AssignStmt:
			if len(x.Lhs) != 1 || len(x.Rhs) != 1 || !isListInit(render(p, x.Lhs[0]), x.Rhs[0]) {
				fail(p, x, "featureOptions: unsupported assignment %s", render(p, x))
			}
		case *ast.DeclStmt:
			gd, ok := x.Decl.(*ast.GenDecl)
			if !ok || gd.Tok != token.VAR {
				fail(p, x, "featureOptions: unsupported declaration")
			}
			for _, sp := range gd.Specs {
				vs := sp.(*ast.ValueSpec)
				if len(vs.Names) != 1 {
					fail(p, x, "featureOptions: unsupported declaration")
				}
				switch {
				case len(vs.Values) == 0 && vs.Names[0].Name == "err":
				case len(vs.Values) == 0 && render(p, vs.Type) == "[]string":
					list = vs.Names[0].Name
				case len(vs.Values) == 1 && isListInit(vs.Names[0].Name, vs.Values[0]):
				default:
					fail(p, x, "featureOptions: unsupported declaration")
				}
			}
		case *ast.RangeStmt, *ast.ForStmt:
			l, ok := optionLoop(p, s, opts, "applyFeature")
			if !ok || l != list || loop {
				fail(p, s, "featureOptions: the loop is not the option loop over applyFeature")
			}
			loop = true
		case *ast.ReturnStmt:
			if len(x.Results) != 2 || render(p, x.Results[1]) != "nil" {
				fail(p, x, "featureOptions: final return")
			}
			ce, ok := isCall(x.Results[0], "strings", "Join")
			if !ok || render(p, ce.Args[0]) != list || !loop {
				fail(p, x, "featureOptions: final return is not strings.Join of the parameter list")
			}
			tv := p.Info.Types[ce.Args[1]]
			if tv.Value == nil {
				fail(p, x, "featureOptions: separator not constant")
			}
			sep = constant.StringVal(tv.Value)
			found = true
		default:
			fail(p, s, "featureOptions: unsupported statement")
		}
	}
	if !found || !loop {
		fail(p, fd, "featureOptions: shape not recognised")
	}
	return sep
}

type apiStep struct {
	kind string // SWait | SNewRequest | SDo | SClose | SStatus | SDecode
	a, b string // constructor arguments (Coq text); b of Wait/NewRequest/Do = the error of the call returns
}

type apiInfo struct {
	steps        []apiStep
	rules        [][2]string // code, type
	okCode       string
	otherType    string
	httpMethod   string
	waitFirst    bool
	waitErrStops bool
	decodes      bool
}

func translateGetFromAPI(p *tr.Pkg, decls map[string]*ast.FuncDecl) apiInfo {
	fd := decls["Datasource.getFromAPI"]
	if fd == nil {
		fail(p, nil, "getFromAPI not found")
	}
	var a apiInfo
	var waitPos, doPos token.Pos
	// every call expression of the body must be accounted for by a step (or be part of one)
	claimed := map[token.Pos]bool{}
	claim := func(n ast.Node) {
		ast.Inspect(n, func(m ast.Node) bool {
			if ce, ok := m.(*ast.CallExpr); ok {
				claimed[ce.Pos()] = true
			}
			return true
		})
	}
	hasCall := func(n ast.Node) bool {
		found := false
		ast.Inspect(n, func(m ast.Node) bool {
			if _, ok := m.(*ast.CallExpr); ok {
				found = true
			}
			return true
		})
		return found
	}
	addStep := func(kind, x, y string) { a.steps = append(a.steps, apiStep{kind, x, y}) }
	statusEmitted := false
	emitStatus := func() {
		if !statusEmitted {
			addStep("SStatus", "", "")
			statusEmitted = true
		}
	}
	b2s := func(b bool) string {
		if b {
			return "true"
		}
		return "false"
	}
	retType := func(rs *ast.ReturnStmt) string {
		if len(rs.Results) != 1 {
			return ""
		}
		ue, ok := rs.Results[0].(*ast.UnaryExpr)
		if !ok || ue.Op != token.AND {
			return ""
		}
		cl, ok := ue.X.(*ast.CompositeLit)
		if !ok {
			return ""
		}
		id, ok := cl.Type.(*ast.Ident)
		if !ok {
			return ""
		}
		return id.Name
	}
	statusAlias := map[string]bool{}
	statusCmp := func(e ast.Expr) (token.Token, string, bool) {
		be, ok := e.(*ast.BinaryExpr)
		if !ok {
			return 0, "", false
		}
		isStatus := func(e ast.Expr) bool {
			if se, ok := e.(*ast.SelectorExpr); ok {
				return se.Sel.Name == "StatusCode"
			}
			id, ok := e.(*ast.Ident)
			return ok && statusAlias[id.Name]
		}
		x, y, op := be.X, be.Y, be.Op
		if !isStatus(x) && isStatus(y) && (op == token.EQL || op == token.NEQ) {
			x, y = y, x
		}
		if !isStatus(x) {
			return 0, "", false
		}
		tv := p.Info.Types[y]
		if tv.Value == nil || tv.Value.Kind() != constant.Int {
			return 0, "", false
		}
		return op, tv.Value.ExactString(), true
	}
	// local names for resp.StatusCode
	ast.Inspect(fd.Body, func(n ast.Node) bool {
		if as, ok := n.(*ast.AssignStmt); ok && len(as.Lhs) == 1 && len(as.Rhs) == 1 {
			if se, ok := as.Rhs[0].(*ast.SelectorExpr); ok && se.Sel.Name == "StatusCode" {
				if id, ok := as.Lhs[0].(*ast.Ident); ok {
					statusAlias[id.Name] = true
				}
			}
		}
		return true
	})
	isAliasInit := func(s ast.Stmt) bool {
		as, ok := s.(*ast.AssignStmt)
		if !ok || len(as.Lhs) != 1 || len(as.Rhs) != 1 {
			return false
		}
		se, ok := as.Rhs[0].(*ast.SelectorExpr)
		return ok && se.Sel.Name == "StatusCode"
	}
	sawOther, sawSwitch, decodeInCase := false, false, false
	// unexportedCallee: the declaration behind f(...) / ds.f(...) when f is an unexported function
	// or Datasource method of the package
	unexportedCallee := func(ce *ast.CallExpr) *ast.FuncDecl {
		switch f := ce.Fun.(type) {
		case *ast.Ident:
			if !ast.IsExported(f.Name) {
				if d := decls[f.Name]; d != nil && d.Recv == nil {
					return d
				}
			}
		case *ast.SelectorExpr:
			if render(p, f.X) == "ds" && !ast.IsExported(f.Sel.Name) {
				if d := decls["Datasource."+f.Sel.Name]; d != nil && len(d.Recv.List[0].Names) == 1 && d.Recv.List[0].Names[0].Name == "ds" {
					return d
				}
			}
		}
		return nil
	}
	paramNames := func(d *ast.FuncDecl) []string {
		var l []string
		for _, f := range d.Type.Params.List {
			for _, n := range f.Names {
				l = append(l, n.Name)
			}
		}
		return l
	}
	// waitHelper: a helper that is the limiter block: its only call is ds.Limiter.Wait(ctx) (ctx
	// passed through), reached only when ds.Limiter != nil, its error is what the helper returns
	waitHelper := func(d *ast.FuncDecl, ce *ast.CallExpr) bool {
		pn := paramNames(d)
		if len(pn) != 1 || len(ce.Args) != 1 || render(p, ce.Args[0]) != "ctx" {
			return false
		}
		want := "ds.Limiter.Wait(" + pn[0] + ")"
		n, guarded := 0, false
		bad := false
		var walk func(l []ast.Stmt, underNonNil bool)
		walk = func(l []ast.Stmt, underNonNil bool) {
			nilReturned := false
			for _, st := range l {
				under := underNonNil || nilReturned
				switch y := st.(type) {
				case *ast.IfStmt:
					c := strings.Join(strings.Fields(render(p, y.Cond)), " ")
					switch {
					case (c == "ds.Limiter == nil" || c == "nil == ds.Limiter") && y.Init == nil && y.Else == nil && len(y.Body.List) == 1 && render(p, y.Body.List[0]) == "return nil":
						nilReturned = true
					case (c == "ds.Limiter != nil" || c == "nil != ds.Limiter") && y.Init == nil && y.Else == nil:
						walk(y.Body.List, true)
					case c == "err != nil" && y.Else == nil:
						if y.Init != nil {
							if hasCall(y.Init) {
								if !strings.Contains(render(p, y.Init), want) {
									bad = true
								} else {
									n++
									guarded = guarded || under
								}
							}
						}
						if len(y.Body.List) != 1 || render(p, y.Body.List[0]) != "return err" {
							bad = true
						}
					default:
						bad = true
					}
				case *ast.AssignStmt:
					if hasCall(y) {
						if len(y.Rhs) != 1 || render(p, y.Rhs[0]) != want {
							bad = true
						} else {
							n++
							guarded = guarded || under
						}
					}
				case *ast.ReturnStmt:
					r := render(p, y)
					switch {
					case r == "return nil" || r == "return err":
					case r == "return "+want:
						n++
						guarded = guarded || under
					default:
						bad = true
					}
				default:
					bad = true
				}
			}
		}
		walk(d.Body.List, false)
		return !bad && n == 1 && guarded
	}
	// statusTable: a package-level map literal  status code -> func(url string) error { return &T{...} }
	statusTable := func(name string) ([][2]string, bool) {
		for _, f := range p.Files {
			for _, dd := range f.Decls {
				gd, ok := dd.(*ast.GenDecl)
				if !ok || gd.Tok != token.VAR {
					continue
				}
				for _, sp := range gd.Specs {
					vs := sp.(*ast.ValueSpec)
					if len(vs.Names) != 1 || vs.Names[0].Name != name || len(vs.Values) != 1 {
						continue
					}
					cl, ok := vs.Values[0].(*ast.CompositeLit)
					if !ok {
						return nil, false
					}
					var rules [][2]string
					for _, el := range cl.Elts {
						kv, ok := el.(*ast.KeyValueExpr)
						if !ok {
							return nil, false
						}
						tv := p.Info.Types[kv.Key]
						fl, isFn := kv.Value.(*ast.FuncLit)
						if tv.Value == nil || tv.Value.Kind() != constant.Int || !isFn || len(fl.Body.List) != 1 {
							return nil, false
						}
						rs, ok := fl.Body.List[0].(*ast.ReturnStmt)
						if !ok || retType(rs) == "" {
							return nil, false
						}
						rules = append(rules, [2]string{tv.Value.ExactString(), retType(rs)})
					}
					// the table must not be written anywhere else in the package
					written := false
					for _, f2 := range p.Files {
						ast.Inspect(f2, func(n ast.Node) bool {
							if as, ok := n.(*ast.AssignStmt); ok {
								for _, l := range as.Lhs {
									if strings.HasPrefix(render(p, l), name+"[") || render(p, l) == name {
										written = true
									}
								}
							}
							if ce, ok := n.(*ast.CallExpr); ok && len(ce.Args) > 0 && render(p, ce.Fun) == "delete" && render(p, ce.Args[0]) == name {
								written = true
							}
							if ue, ok := n.(*ast.UnaryExpr); ok && ue.Op == token.AND && render(p, ue.X) == name {
								written = true // its address escapes
							}
							return true
						})
					}
					return rules, !written
				}
			}
		}
		return nil, false
	}
	var readStmts func(list []ast.Stmt, helper bool)
	readStmts = func(list []ast.Stmt, helper bool) {
		for _, s := range flatten(list) {
			switch x := s.(type) {
			case *ast.IfStmt:
				// if err := <unexported helper>(...); err != nil { return err }: read the helper in place
				if x.Init != nil && x.Else == nil {
					if as, ok := x.Init.(*ast.AssignStmt); ok && len(as.Lhs) == 1 && len(as.Rhs) == 1 && render(p, as.Lhs[0]) == "err" {
						if ce, ok := as.Rhs[0].(*ast.CallExpr); ok {
							y := *x
							y.Init = nil
							if d := unexportedCallee(ce); d != nil && isErrReturn(&y) {
								if waitHelper(d, ce) {
									claimed[ce.Pos()] = true
									waitPos = ce.Pos()
									a.waitErrStops = true
									addStep("SWait", "true", "true")
									continue
								}
								// a helper given the status code: the status chain lives there
								pn := paramNames(d)
								isStatusHelper := false
								if len(pn) == len(ce.Args) && !hasCallOtherThanTable(p, d) {
									for i, arg := range ce.Args {
										if se, ok := arg.(*ast.SelectorExpr); (ok && se.Sel.Name == "StatusCode") || statusAlias[render(p, arg)] {
											statusAlias[pn[i]] = true
											isStatusHelper = true
										}
									}
								}
								if isStatusHelper {
									claimed[ce.Pos()] = true
									readStmts(d.Body.List, true)
									continue
								}
							}
						}
					}
				}
				// if f, ok := TABLE[code]; ok { return f(url) }: the rules of a status table
				if x.Init != nil && x.Else == nil && len(x.Body.List) == 1 {
					if as, ok := x.Init.(*ast.AssignStmt); ok && len(as.Lhs) == 2 && len(as.Rhs) == 1 && render(p, x.Cond) == render(p, as.Lhs[1]) {
						if ie, ok := as.Rhs[0].(*ast.IndexExpr); ok && statusAlias[render(p, ie.Index)] {
							rs, isRet := x.Body.List[0].(*ast.ReturnStmt)
							if tname, isID := ie.X.(*ast.Ident); isID && isRet && len(rs.Results) == 1 {
								if call, ok := rs.Results[0].(*ast.CallExpr); ok && render(p, call.Fun) == render(p, as.Lhs[0]) {
									rules, ok := statusTable(tname.Name)
									if !ok || sawOther {
										fail(p, x, "getFromAPI: status table %s is not a constant map of code -> func returning a typed error", tname.Name)
									}
									emitStatus()
									a.rules = append(a.rules, rules...)
									claim(rs)
									continue
								}
							}
						}
					}
				}
				// if <status> == OK { return nil }  in a status helper: the success status
				if helper {
					if op, code, ok := statusCmp(x.Cond); ok && op == token.EQL && x.Init == nil && x.Else == nil && len(x.Body.List) == 1 && render(p, x.Body.List[0]) == "return nil" {
						if a.okCode != "" {
							fail(p, x, "getFromAPI: two success statuses")
						}
						emitStatus()
						a.okCode = code
						continue
					}
				}
				// limiter block
				found := false
				ast.Inspect(x, func(n ast.Node) bool {
					if ce, ok := n.(*ast.CallExpr); ok {
						if se, ok := ce.Fun.(*ast.SelectorExpr); ok && se.Sel.Name == "Wait" {
							waitPos = ce.Pos()
							found = true
						}
					}
					return true
				})
				if found {
					be, ok := x.Cond.(*ast.BinaryExpr)
					if !ok || be.Op != token.NEQ || render(p, be.X) != "ds.Limiter" || render(p, be.Y) != "nil" {
						fail(p, x, "getFromAPI: limiter block is not guarded by ds.Limiter != nil")
					}
					// err := ds.Limiter.Wait(ctx); if err != nil { return err }   or the if-init form
					nWait := 0
					ast.Inspect(x.Body, func(n ast.Node) bool {
						if ce, ok := n.(*ast.CallExpr); ok {
							if render(p, ce) != "ds.Limiter.Wait(ctx)" {
								fail(p, ce, "getFromAPI: call other than ds.Limiter.Wait(ctx) in the limiter block")
							}
							nWait++
							claimed[ce.Pos()] = true
						}
						return true
					})
					stops := false
					for _, t := range flatten(x.Body.List) {
						if isErrReturn(t) {
							stops = true
						} else if is2, ok := t.(*ast.IfStmt); ok && is2.Init != nil {
							y := *is2
							y.Init = nil
							if isErrReturn(&y) {
								stops = true
							}
						}
					}
					if nWait != 1 || len(x.Body.List) > 2 || x.Else != nil {
						fail(p, x, "getFromAPI: limiter block is not one Wait and its error return")
					}
					a.waitErrStops = stops
					addStep("SWait", "true", b2s(stops))
					continue
				}
				if op, code, ok := statusCmp(x.Cond); ok && (x.Init == nil || isAliasInit(x.Init)) && x.Else == nil && len(x.Body.List) == 1 {
					rs, ok := x.Body.List[0].(*ast.ReturnStmt)
					if !ok {
						fail(p, x, "getFromAPI: status block does not return")
					}
					emitStatus()
					t := retType(rs)
					if t == "" {
						fail(p, x, "getFromAPI: status block does not return &T{...}")
					}
					switch op {
					case token.EQL:
						if sawOther {
							fail(p, x, "getFromAPI: status rule after the catch-all")
						}
						a.rules = append(a.rules, [2]string{code, t})
					case token.NEQ:
						if sawOther {
							fail(p, x, "getFromAPI: two catch-all status rules")
						}
						sawOther = true
						a.okCode, a.otherType = code, t
					default:
						fail(p, x, "getFromAPI: unsupported status comparison")
					}
					continue
				}
				// if err != nil { return err }: the error of the preceding NewRequest / Do returns
				if isErrReturn(x) {
					if n := len(a.steps); n > 0 && (a.steps[n-1].kind == "SNewRequest" || a.steps[n-1].kind == "SDo") && a.steps[n-1].b == "false" {
						a.steps[n-1].b = "true"
						continue
					}
					fail(p, x, "getFromAPI: error return that does not follow NewRequest / Do")
				}
				// if client == nil { client = <no call> }: choice of the client, no effect
				if be, ok := x.Cond.(*ast.BinaryExpr); ok && be.Op == token.EQL && render(p, be.X) == "client" && render(p, be.Y) == "nil" && x.Else == nil && x.Init == nil {
					for _, t := range x.Body.List {
						as, ok := t.(*ast.AssignStmt)
						if !ok || len(as.Lhs) != 1 || render(p, as.Lhs[0]) != "client" || hasCall(as) {
							fail(p, t, "getFromAPI: the client fallback does something other than choosing a client")
						}
					}
					continue
				}
				fail(p, x, "getFromAPI: unsupported if statement %s", render(p, x))
			case *ast.SwitchStmt:
				tagOK := false
				if se, ok := x.Tag.(*ast.SelectorExpr); ok && se.Sel.Name == "StatusCode" {
					tagOK = true
				} else if id, ok := x.Tag.(*ast.Ident); ok && statusAlias[id.Name] {
					tagOK = true
				}
				if !tagOK || (x.Init != nil && !isAliasInit(x.Init)) {
					fail(p, x, "getFromAPI: switch on something other than the status code")
				}
				if sawOther {
					fail(p, x, "getFromAPI: status switch after the catch-all")
				}
				emitStatus()
				for _, cl := range x.Body.List {
					cc := cl.(*ast.CaseClause)
					body := cc.Body
					if len(body) == 1 {
						if bs, ok := body[0].(*ast.BranchStmt); ok && bs.Tok == token.BREAK && bs.Label == nil {
							body = nil
						}
					}
					if len(body) == 1 && cc.List != nil {
						if rs, ok := body[0].(*ast.ReturnStmt); ok && strings.Contains(render(p, rs), "xml.NewDecoder(resp.Body).Decode(item)") {
							// case http.StatusOK: return xml.NewDecoder(resp.Body).Decode(item)
							if len(cc.List) != 1 || a.okCode != "" {
								fail(p, cc, "getFromAPI: the decoding case must be the single success status")
							}
							tv := p.Info.Types[cc.List[0]]
							if tv.Value == nil || tv.Value.Kind() != constant.Int {
								fail(p, cc, "getFromAPI: non-constant status case")
							}
							a.okCode = tv.Value.ExactString()
							a.decodes = true
							decodeInCase = true
							claim(rs)
							addStep("SDecode", "", "")
							continue
						}
					}
					if cc.List == nil { // default
						if len(body) != 1 {
							fail(p, cc, "getFromAPI: default case does not return")
						}
						rs, ok := body[0].(*ast.ReturnStmt)
						if !ok || retType(rs) == "" {
							fail(p, cc, "getFromAPI: default case does not return &T{...}")
						}
						a.otherType = retType(rs)
						sawOther = true
						continue
					}
					for _, v := range cc.List {
						tv := p.Info.Types[v]
						if tv.Value == nil || tv.Value.Kind() != constant.Int {
							fail(p, cc, "getFromAPI: non-constant status case")
						}
						code := tv.Value.ExactString()
						if len(body) == 0 {
							if a.okCode != "" {
								fail(p, cc, "getFromAPI: two success statuses")
							}
							a.okCode = code
							continue
						}
						rs, ok := body[0].(*ast.ReturnStmt)
						if !ok || len(body) != 1 || retType(rs) == "" {
							fail(p, cc, "getFromAPI: status case does not return &T{...}")
						}
						a.rules = append(a.rules, [2]string{code, retType(rs)})
					}
				}
				if a.okCode == "" {
					fail(p, x, "getFromAPI: status switch without a success case")
				}
				if !sawOther && !decodeInCase {
					// success falls out of the switch: the catch-all must be inside it
					fail(p, x, "getFromAPI: status switch without a default")
				}
				sawSwitch = true
			case *ast.AssignStmt:
				if len(x.Rhs) != 1 {
					fail(p, x, "getFromAPI: unsupported assignment")
				}
				rhs := x.Rhs[0]
				switch {
				case isAliasInit(x):
				case len(x.Lhs) == 1 && render(p, x.Lhs[0]) == "client" && isClientChooser(p, decls, rhs):
					// client := ds.httpClient(): a helper that only chooses among clients
					claim(rhs)
				case !hasCall(x):
					// choice of the client: client := ds.Client, client = DefaultDatasource.Client, ...
					if len(x.Lhs) != 1 || render(p, x.Lhs[0]) != "client" {
						fail(p, x, "getFromAPI: assignment that is neither the client choice nor a request step: %s", render(p, x))
					}
				default:
					if ce, ok := isCall(rhs, "http", "NewRequest"); ok && len(ce.Args) == 3 {
						tv := p.Info.Types[ce.Args[0]]
						if tv.Value == nil {
							fail(p, x, "getFromAPI: HTTP method not constant")
						}
						a.httpMethod = constant.StringVal(tv.Value)
						if render(p, ce.Args[1]) != "url" || render(p, ce.Args[2]) != "nil" || hasCall(ce.Args[1]) {
							fail(p, x, "getFromAPI: request is not NewRequest(<method>, url, nil)")
						}
						if len(x.Lhs) != 2 || render(p, x.Lhs[0]) != "req" {
							fail(p, x, "getFromAPI: NewRequest result is not kept as req, err")
						}
						claimed[ce.Pos()] = true
						addStep("SNewRequest", q(a.httpMethod), "false")
					} else if ce, ok := isCall(rhs, "client", "Do"); ok && len(ce.Args) == 1 {
						withCtx := false
						switch render(p, ce.Args[0]) {
						case "req.WithContext(ctx)":
							withCtx = true
							claim(ce.Args[0])
						case "req":
						default:
							fail(p, x, "getFromAPI: client.Do of something other than req / req.WithContext(ctx)")
						}
						if len(x.Lhs) != 2 || render(p, x.Lhs[0]) != "resp" {
							fail(p, x, "getFromAPI: Do result is not kept as resp, err")
						}
						doPos = ce.Pos()
						claimed[ce.Pos()] = true
						addStep("SDo", b2s(withCtx), "false")
					} else {
						fail(p, x, "getFromAPI: call outside the modelled effects: %s", render(p, x))
					}
				}
			case *ast.DeferStmt:
				if render(p, x.Call) != "resp.Body.Close()" {
					fail(p, x, "getFromAPI: defer of something other than resp.Body.Close()")
				}
				claimed[x.Call.Pos()] = true
				addStep("SClose", "", "")
			case *ast.ReturnStmt:
				if helper {
					// in a status helper: `return nil` = no error for this status; a trailing typed error = the catch-all
					if render(p, x) == "return nil" {
						continue
					}
					if t := retType(x); t != "" && !sawOther && a.okCode != "" {
						a.otherType = t
						sawOther = true
						continue
					}
					fail(p, x, "getFromAPI: unsupported return in a status helper")
				}
				if decodeInCase {
					// every status without a case falls out of the switch: the catch-all
					if t := retType(x); t != "" && !sawOther && sawSwitch {
						a.otherType = t
						sawOther = true
						continue
					}
					fail(p, x, "getFromAPI: statement after a switch that already decodes")
				}
				if !sawOther {
					fail(p, x, "getFromAPI: decode without a non-OK catch-all before it")
				}
				if render(p, x) != "return xml.NewDecoder(resp.Body).Decode(item)" {
					fail(p, x, "getFromAPI: final return is not the XML decode of the body into item")
				}
				a.decodes = true
				claim(x)
				addStep("SDecode", "", "")
			default:
				fail(p, s, "getFromAPI: unsupported statement")
			}
		}
	}
	readStmts(fd.Body.List, false)
	if !sawOther {
		fail(p, fd, "getFromAPI: no catch-all for the other statuses")
	}
	if doPos == token.NoPos || a.httpMethod == "" || !a.decodes {
		fail(p, fd, "getFromAPI: request / decode not recognised")
	}
	// nothing else may call anything
	ast.Inspect(fd.Body, func(n ast.Node) bool {
		if ce, ok := n.(*ast.CallExpr); ok && !claimed[ce.Pos()] {
			fail(p, ce, "getFromAPI: call outside the modelled effects: %s", render(p, ce))
		}
		return true
	})
	a.waitFirst = waitPos != token.NoPos && waitPos < doPos
	if waitPos == token.NoPos {
		fail(p, fd, "getFromAPI: no Limiter.Wait call")
	}
	return a
}

// hasCallOtherThanTable: the function calls something other than a local function value (the
// entry of a status table)
func hasCallOtherThanTable(p *tr.Pkg, d *ast.FuncDecl) bool {
	locals := map[string]bool{}
	ast.Inspect(d.Body, func(n ast.Node) bool {
		if as, ok := n.(*ast.AssignStmt); ok && as.Tok == token.DEFINE {
			for _, l := range as.Lhs {
				locals[render(p, l)] = true
			}
		}
		return true
	})
	other := false
	ast.Inspect(d.Body, func(n ast.Node) bool {
		if ce, ok := n.(*ast.CallExpr); ok {
			if id, ok := ce.Fun.(*ast.Ident); !ok || !locals[id.Name] {
				other = true
			}
		}
		return true
	})
	return other
}

// isClientChooser: a call ds.<unexported>() of a method that does nothing but choose a client:
// its body consists of returns of call-free expressions, guarded by nil tests (with an optional
// call-free init), and it returns *http.Client
func isClientChooser(p *tr.Pkg, decls map[string]*ast.FuncDecl, e ast.Expr) bool {
	ce, ok := e.(*ast.CallExpr)
	if !ok || len(ce.Args) != 0 {
		return false
	}
	se, ok := ce.Fun.(*ast.SelectorExpr)
	if !ok || render(p, se.X) != "ds" || ast.IsExported(se.Sel.Name) {
		return false
	}
	fd := decls["Datasource."+se.Sel.Name]
	if fd == nil || fd.Type.Results == nil || len(fd.Type.Results.List) != 1 || render(p, fd.Type.Results.List[0].Type) != "*http.Client" {
		return false
	}
	callFree := func(n ast.Node) bool {
		free := true
		ast.Inspect(n, func(m ast.Node) bool {
			if _, ok := m.(*ast.CallExpr); ok {
				free = false
			}
			return true
		})
		return free
	}
	var okStmts func(l []ast.Stmt) bool
	okStmts = func(l []ast.Stmt) bool {
		for _, s := range l {
			switch x := s.(type) {
			case *ast.ReturnStmt:
				if len(x.Results) != 1 || !callFree(x) {
					return false
				}
			case *ast.IfStmt:
				be, isBin := x.Cond.(*ast.BinaryExpr)
				if !isBin || (be.Op != token.EQL && be.Op != token.NEQ) || !callFree(x.Cond) || (x.Init != nil && !callFree(x.Init)) {
					return false
				}
				if !okStmts(x.Body.List) {
					return false
				}
				switch el := x.Else.(type) {
				case nil:
				case *ast.BlockStmt:
					if !okStmts(el.List) {
						return false
					}
				case *ast.IfStmt:
					if !okStmts([]ast.Stmt{el}) {
						return false
					}
				}
			case *ast.AssignStmt:
				if !callFree(x) {
					return false
				}
			default:
				return false
			}
		}
		return true
	}
	return okStmts(fd.Body.List) && terminates(fd.Body.List)
}

func translateNotFound(p *tr.Pkg, decls map[string]*ast.FuncDecl) string {
	fd := decls["Datasource.NotFound"]
	if fd == nil {
		fail(p, nil, "NotFound not found")
	}
	pname := fd.Type.Params.List[0].Names[0].Name
	// [if err == nil { return false }]  _, ok := err.(*T); return ok      or   return ok form inlined
	typ, okVar := "", ""
	n := 0
	for _, s := range fd.Body.List {
		switch x := s.(type) {
		case *ast.IfStmt:
			// a nil error is not a *T anyway: the guard is optional
			if render(p, x.Cond) != pname+" == nil" || len(x.Body.List) != 1 || render(p, x.Body.List[0]) != "return false" || x.Else != nil || x.Init != nil {
				fail(p, x, "NotFound: unsupported if")
			}
		case *ast.AssignStmt:
			ta, ok := x.Rhs[0].(*ast.TypeAssertExpr)
			if !ok || render(p, ta.X) != pname || len(x.Lhs) != 2 || render(p, x.Lhs[0]) != "_" {
				fail(p, x, "NotFound: unsupported assignment")
			}
			st, ok := ta.Type.(*ast.StarExpr)
			if !ok {
				fail(p, x, "NotFound: assertion to a non-pointer type")
			}
			typ = st.X.(*ast.Ident).Name
			okVar = render(p, x.Lhs[1])
			n++
		case *ast.ReturnStmt:
			if okVar == "" || render(p, x) != "return "+okVar {
				fail(p, x, "NotFound: unsupported return")
			}
		default:
			fail(p, s, "NotFound: unsupported statement")
		}
	}
	if n != 1 {
		fail(p, fd, "NotFound: shape")
	}
	return typ
}

// baseURL: the configured base, or the package default when none is configured
func translateBaseURL(p *tr.Pkg, decls map[string]*ast.FuncDecl) {
	fd := decls["Datasource.baseURL"]
	if fd == nil || len(fd.Body.List) != 2 {
		fail(p, nil, "baseURL: shape")
	}
	first := strings.Join(strings.Fields(render(p, fd.Body.List[0])), " ")
	second := render(p, fd.Body.List[1])
	switch {
	case (first == `if ds.BaseURL != "" { return ds.BaseURL }` || first == `if "" != ds.BaseURL { return ds.BaseURL }` || first == `if len(ds.BaseURL) > 0 { return ds.BaseURL }` || first == `if len(ds.BaseURL) != 0 { return ds.BaseURL }`) && second == "return BaseURL":
	case (first == `if ds.BaseURL == "" { return BaseURL }` || first == `if "" == ds.BaseURL { return BaseURL }` || first == `if len(ds.BaseURL) == 0 { return BaseURL }`) && second == "return ds.BaseURL":
	default:
		fail(p, fd, "baseURL: neither 'configured, else default' form")
	}
}

func main() {
	repo, out := os.Args[1], os.Args[2]
	if err := os.Chdir(repo); err != nil {
		fmt.Fprintln(os.Stderr, err)
		os.Exit(1)
	}
	p, err := tr.Load(filepath.Join(repo, "osmapi"), "github.com/paulmach/osm/osmapi")
	if err != nil {
		fmt.Fprintln(os.Stderr, "translator osmapi:", err)
		os.Exit(1)
	}
	defer func() {
		if r := recover(); r != nil {
			if e, ok := r.(trErr); ok {
				fmt.Fprintln(os.Stderr, "translator osmapi: construct outside the modelled shapes:", e.msg)
				os.Exit(1)
			}
			panic(r)
		}
	}()
	decls := p.FuncDecls()
	var b bytes.Buffer
	b.WriteString("(* GENERATED by /verif/translator/cmd/osmapi from /repo/osmapi — do not edit. *)\n")
	b.WriteString("From Coq Require Import ZArith String List.\nFrom Verif Require Import C20.Syntax.\nImport ListNotations.\nOpen Scope Z_scope.\nOpen Scope string_scope.\n\n")

	if c, ok := p.Types.Scope().Lookup("BaseURL").(*types.Const); ok {
		fmt.Fprintf(&b, "Definition c_BaseURL : string := %s.\n\n", q(constant.StringVal(c.Val())))
	} else {
		fail(p, nil, "constant BaseURL not found")
	}
	translateBaseURL(p, decls)

	// exported Datasource methods, sorted by name (source order is irrelevant)
	var names []string
	for k, fd := range decls {
		if strings.HasPrefix(k, "Datasource.") && ast.IsExported(fd.Name.Name) && fd.Name.Name != "NotFound" {
			names = append(names, k)
		}
	}
	sort.Strings(names)
	var ms []string
	for _, k := range names {
		ms = append(ms, translateMethod(p, decls, decls[k]))
	}
	fmt.Fprintf(&b, "Definition methods : list method := [\n%s\n].\n\n", strings.Join(ms, ";\n"))

	// package-level convenience functions must delegate to DefaultDatasource.<same name>
	var pkgFuncs []string
	for _, k := range names {
		n := strings.TrimPrefix(k, "Datasource.")
		fd := decls[n]
		if fd == nil {
			continue
		}
		pkgFuncs = append(pkgFuncs, q(n))
		// the body is exactly  return DefaultDatasource.<n>(<its own parameters, in order>)
		okDeleg := false
		if len(fd.Body.List) == 1 {
			if rs, ok := fd.Body.List[0].(*ast.ReturnStmt); ok && len(rs.Results) == 1 {
				if ce, ok := rs.Results[0].(*ast.CallExpr); ok && render(p, ce.Fun) == "DefaultDatasource."+n {
					var pnames []string
					for _, f := range fd.Type.Params.List {
						for _, nm := range f.Names {
							pnames = append(pnames, nm.Name)
						}
					}
					same := len(pnames) == len(ce.Args)
					for i := 0; same && i < len(pnames); i++ {
						same = render(p, ce.Args[i]) == pnames[i]
					}
					_, variadic := fd.Type.Params.List[len(fd.Type.Params.List)-1].Type.(*ast.Ellipsis)
					if same && variadic == ce.Ellipsis.IsValid() {
						okDeleg = true
					}
				}
			}
		}
		if !okDeleg {
			fail(p, fd, "package function %s does not delegate to DefaultDatasource.%s with its own arguments", n, n)
		}
	}

	fmt.Fprintf(&b, "(* package-level functions whose body is  return DefaultDatasource.<same name>(ctx, <the same arguments>)  *)\nDefinition package_functions : list string := [%s].\n\n", strings.Join(pkgFuncs, "; "))

	// options: every exported function returning FeatureOption / NotesOption
	var ctors []string
	for k, fd := range decls {
		if fd.Recv != nil || !ast.IsExported(k) || fd.Type.Results == nil || len(fd.Type.Results.List) != 1 {
			continue
		}
		if id, ok := fd.Type.Results.List[0].Type.(*ast.Ident); ok && (id.Name == "FeatureOption" || id.Name == "NotesOption") {
			ctors = append(ctors, k)
		}
	}
	sort.Strings(ctors)
	var os_ []string
	for _, k := range ctors {
		os_ = append(os_, translateOption(p, decls, k))
	}
	fmt.Fprintf(&b, "Definition options : list opt_rule := [\n%s\n].\n\n", strings.Join(os_, ";\n"))
	fmt.Fprintf(&b, "Definition feature_sep : string := %s.\n\n", q(translateFeatureOptions(p, decls)))

	a := translateGetFromAPI(p, decls)
	var rs []string
	for _, r := range a.rules {
		rs = append(rs, fmt.Sprintf("(%s, %s)", r[0], q(r[1])))
	}
	fmt.Fprintf(&b, "(* getFromAPI: if-chain on resp.StatusCode, in source order *)\n")
	fmt.Fprintf(&b, "Definition status_rules : list (Z * string) := [%s].\n", strings.Join(rs, "; "))
	fmt.Fprintf(&b, "Definition status_ok : Z := %s.\n", a.okCode)
	fmt.Fprintf(&b, "Definition status_other : string := %s.\n", q(a.otherType))
	var st []string
	for _, x := range a.steps {
		t := x.kind
		if x.a != "" {
			t += " " + x.a + " " + x.b
		}
		st = append(st, t)
	}
	fmt.Fprintf(&b, "(* getFromAPI: its effectful calls, in source order; every other call expression in the\n   body is a translator error *)\nDefinition api_steps : list step := [%s].\n", strings.Join(st, "; "))
	fmt.Fprintf(&b, "Definition http_method : string := %s.\n", q(a.httpMethod))
	fmt.Fprintf(&b, "Definition wait_before_do : bool := %v.\n", a.waitFirst)
	fmt.Fprintf(&b, "Definition wait_error_returns : bool := %v.\n", a.waitErrStops)
	fmt.Fprintf(&b, "Definition notfound_type : string := %s.\n", q(translateNotFound(p, decls)))

	// error types declared in the package (struct types with an Error method)
	var ets []string
	for k := range decls {
		if strings.HasSuffix(k, ".Error") {
			ets = append(ets, q(strings.TrimSuffix(k, ".Error")))
		}
	}
	sort.Strings(ets)
	fmt.Fprintf(&b, "Definition error_types : list string := [%s].\n", strings.Join(ets, "; "))

	if err := tr.Emit(filepath.Join(out, "GenOsmapi.v"), b.Bytes()); err != nil {
		fmt.Fprintln(os.Stderr, err)
		os.Exit(1)
	}
}
