// schema: translates every type declaration of package osm (struct fields with their Go type
// expression, xml and json tags, XMLName fields, method sets) into coq/gen/GenSchema.v, plus the
// string literals of the hand-written XML methods and of osmxml.Scanner.Scan.
// usage: schema <repo> <outdir>
package main

import (
	"bytes"
	"fmt"
	"go/ast"
	"go/constant"
	"go/types"
	"os"
	"path/filepath"
	"reflect"
	"sort"
	"strings"

	"verif/translator/tr"
)

type gen struct {
	pkg   *types.Package
	defs  []string          // rendered typedefs, in emission order
	names map[string]bool   // emitted type names
	errs  []string
}

func cb(b bool) string {
	if b {
		return "true"
	}
	return "false"
}

func cstrs(l []string) string {
	var q []string
	for _, s := range l {
		q = append(q, tr.CoqString(s))
	}
	return "[" + strings.Join(q, "; ") + "]"
}

// typeExpr renders t; ctx is the generated name to use when t is an anonymous struct.
func (g *gen) typeExpr(t types.Type, ctx string) string {
	switch x := t.(type) {
	case *types.Basic:
		switch {
		case x.Info()&types.IsInteger != 0:
			return "TInt"
		case x.Info()&types.IsFloat != 0:
			return "TFloat"
		case x.Info()&types.IsBoolean != 0:
			return "TBool"
		case x.Info()&types.IsString != 0:
			return "TString"
		}
		return "(TOther " + tr.CoqString(x.String()) + ")"
	case *types.Named:
		obj := x.Obj()
		if obj.Pkg() == g.pkg {
			return "(TNamed " + tr.CoqString(obj.Name()) + ")"
		}
		if obj.Pkg() != nil {
			full := obj.Pkg().Path() + "." + obj.Name()
			switch full {
			case "time.Time":
				return "TTime"
			case "encoding/xml.Name":
				return "TXmlName"
			}
			return "(TExt " + tr.CoqString(obj.Pkg().Name()+"."+obj.Name()) + " " + g.typeExpr(x.Underlying(), ctx) + ")"
		}
		return "(TOther " + tr.CoqString(x.String()) + ")"
	case *types.Pointer:
		return "(TPtr " + g.typeExpr(x.Elem(), ctx) + ")"
	case *types.Slice:
		return "(TSlice " + g.typeExpr(x.Elem(), ctx) + ")"
	case *types.Struct:
		g.structDef(ctx, true, x, nil)
		return "(TNamed " + tr.CoqString(ctx) + ")"
	case *types.Map:
		return "TMap"
	case *types.Interface:
		return "TIface"
	}
	return "(TOther " + tr.CoqString(t.String()) + ")"
}

func xmlTag(tag string) string {
	st := reflect.StructTag(tag)
	v, ok := st.Lookup("xml")
	if !ok {
		return "no_xmltag"
	}
	if v == "-" {
		return `{| x_present := true; x_name := ""; x_parents := []; x_attr := false; x_omitempty := false; x_mode := ""; x_skip := true |}`
	}
	toks := strings.Split(v, ",")
	name := toks[0]
	// a namespace prefix "ns name" is kept in the name (no tag of this package uses one; the
	// schema_ok obligation rejects names with spaces)
	attr, omit, mode := false, false, ""
	for _, f := range toks[1:] {
		switch f {
		case "attr":
			attr = true
		case "omitempty":
			omit = true
		case "chardata", "cdata", "innerxml", "comment", "any":
			mode = f
		default:
			mode = "unknown:" + f
		}
	}
	parts := strings.Split(name, ">")
	last := parts[len(parts)-1]
	return fmt.Sprintf("{| x_present := true; x_name := %s; x_parents := %s; x_attr := %s; x_omitempty := %s; x_mode := %s; x_skip := false |}",
		tr.CoqString(last), cstrs(parts[:len(parts)-1]), cb(attr), cb(omit), tr.CoqString(mode))
}

func jsonTag(tag string) string {
	st := reflect.StructTag(tag)
	v, ok := st.Lookup("json")
	if !ok {
		return "no_jsontag"
	}
	if v == "-" {
		return `{| j_present := true; j_name := ""; j_omitempty := false; j_string := false; j_skip := true |}`
	}
	toks := strings.Split(v, ",")
	omit, str := false, false
	for _, f := range toks[1:] {
		switch f {
		case "omitempty":
			omit = true
		case "string":
			str = true
		}
	}
	return fmt.Sprintf("{| j_present := true; j_name := %s; j_omitempty := %s; j_string := %s; j_skip := false |}",
		tr.CoqString(toks[0]), cb(omit), cb(str))
}

func (g *gen) field(owner string, f *types.Var, tag string) string {
	return fmt.Sprintf("{| f_name := %s; f_type := %s; f_embedded := %s;\n        f_xml := %s;\n        f_json := %s |}",
		tr.CoqString(f.Name()), g.typeExpr(f.Type(), owner+"."+f.Name()), cb(f.Embedded()), xmlTag(tag), jsonTag(tag))
}

func methodNames(n *types.Named) []string {
	var out []string
	if n == nil {
		return out
	}
	for i := 0; i < n.NumMethods(); i++ {
		m := n.Method(i)
		name := m.Name()
		if sig, ok := m.Type().(*types.Signature); ok && sig.Recv() != nil {
			if _, ptr := sig.Recv().Type().(*types.Pointer); ptr {
				name = "*" + name
			}
		}
		out = append(out, name)
	}
	sort.Strings(out)
	return out
}

func (g *gen) structDef(name string, anon bool, s *types.Struct, named *types.Named) {
	if g.names[name] {
		return
	}
	g.names[name] = true
	// reserve the slot so nested anonymous structs are emitted after their owner
	slot := len(g.defs)
	g.defs = append(g.defs, "")
	xmlname := "None"
	var fields []string
	for i := 0; i < s.NumFields(); i++ {
		f := s.Field(i)
		if f.Name() == "XMLName" {
			xmlname = "(Some " + g.field(name, f, s.Tag(i)) + ")"
			continue
		}
		if !f.Exported() && !f.Embedded() {
			// encoding/xml and encoding/json ignore unexported non-embedded fields
			continue
		}
		fields = append(fields, "     "+g.field(name, f, s.Tag(i)))
	}
	g.defs[slot] = fmt.Sprintf("  {| t_name := %s; t_anon := %s;\n     t_under := UStruct %s [\n%s];\n     t_methods := %s |}",
		tr.CoqString(name), cb(anon), xmlname, strings.Join(fields, ";\n"), cstrs(methodNames(named)))
}

// closureLiterals returns the sorted set of string literals of the functions reachable, through
// calls to functions and methods of the same package, from every method named methodName
// (e.g. all MarshalXML methods): moving a literal into a helper does not change the result.
func closureLiterals(p *tr.Pkg, roots func(*ast.FuncDecl) bool) []string {
	byObj := map[types.Object]*ast.FuncDecl{}
	var all []*ast.FuncDecl
	for _, f := range p.Files {
		for _, d := range f.Decls {
			if fd, ok := d.(*ast.FuncDecl); ok {
				byObj[p.Info.Defs[fd.Name]] = fd
				all = append(all, fd)
			}
		}
	}
	seen := map[*ast.FuncDecl]bool{}
	consts := map[string]bool{}
	var visit func(fd *ast.FuncDecl)
	visit = func(fd *ast.FuncDecl) {
		if fd == nil || fd.Body == nil || seen[fd] {
			return
		}
		seen[fd] = true
		ast.Inspect(fd.Body, func(n ast.Node) bool {
			var id *ast.Ident
			switch x := n.(type) {
			case *ast.Ident:
				id = x
			case *ast.SelectorExpr:
				id = x.Sel
			}
			if id != nil {
				if fn, ok := p.Info.Uses[id].(*types.Func); ok && fn.Pkg() == p.Types {
					visit(byObj[fn])
				}
				// a literal moved into a package-level string constant still counts
				if c, ok := p.Info.Uses[id].(*types.Const); ok && c.Pkg() == p.Types && c.Val().Kind() == constant.String {
					consts[constant.StringVal(c.Val())] = true
				}
			}
			return true
		})
	}
	for _, fd := range all {
		if roots(fd) {
			visit(fd)
		}
	}
	set := map[string]bool{}
	for x := range consts {
		set[x] = true
	}
	for fd := range seen {
		strs, _, _ := p.Literals(fd)
		for _, x := range strs {
			set[x] = true
		}
	}
	var out []string
	for x := range set {
		out = append(out, x)
	}
	sort.Strings(out)
	return out
}

func main() {
	repo, out := os.Args[1], os.Args[2]
	if err := os.Chdir(repo); err != nil {
		fmt.Fprintln(os.Stderr, err)
		os.Exit(1)
	}
	p, err := tr.Load(repo, "github.com/paulmach/osm")
	if err != nil {
		fmt.Fprintln(os.Stderr, "translator schema:", err)
		os.Exit(1)
	}
	g := &gen{pkg: p.Types, names: map[string]bool{}}
	scope := p.Types.Scope()
	names := scope.Names()
	sort.Strings(names)
	for _, n := range names {
		tn, ok := scope.Lookup(n).(*types.TypeName)
		if !ok || tn.IsAlias() {
			continue
		}
		named, ok := tn.Type().(*types.Named)
		if !ok {
			continue
		}
		switch u := named.Underlying().(type) {
		case *types.Struct:
			g.structDef(n, false, u, named)
		default:
			g.names[n] = true
			g.defs = append(g.defs, fmt.Sprintf("  {| t_name := %s; t_anon := false; t_under := UType %s;\n     t_methods := %s |}",
				tr.CoqString(n), g.typeExpr(u, n), cstrs(methodNames(named))))
		}
	}

	var b bytes.Buffer
	b.WriteString("(* GENERATED by /verif/translator from /repo — do not edit. generator: schema *)\n")
	b.WriteString("From Coq Require Import ZArith String List.\nFrom Verif Require Import Codec.Schema.\nImport ListNotations.\nOpen Scope Z_scope.\nOpen Scope string_scope.\n\n")
	b.WriteString("Definition gen_schema : schema := [\n")
	b.WriteString(strings.Join(g.defs, ";\n"))
	b.WriteString("\n].\n\n")

	// string constants used by the hand-written XML methods
	for _, n := range names {
		c, ok := scope.Lookup(n).(*types.Const)
		if ok && c.Val().Kind() == constant.String && n == "dateLayout" {
			fmt.Fprintf(&b, "Definition c_%s : string := %s.\n", n, tr.CoqString(constant.StringVal(c.Val())))
		}
	}
	b.WriteString("\n(* string literals / called functions of the hand-written XML methods, in source order *)\n")
	decls := p.FuncDecls()
	for _, k := range []string{
		"OSM.MarshalXML", "OSM.marshalInnerXML", "OSM.marshalInnerElementsXML",
		"Change.MarshalXML", "marshalInnerChange",
		"Action.MarshalXML", "Action.UnmarshalXML",
		"ChangesetDiscussion.MarshalXML", "Date.MarshalXML", "Date.UnmarshalXML",
		"Bounds.MarshalXML",
	} {
		if decls[k] == nil {
			// an absent method is data too (the model asks has_method): empty fingerprints
			n := strings.ReplaceAll(k, ".", "_")
			fmt.Fprintf(&b, "Definition lits_%s : list string := [].\nDefinition ints_%s : list Z := [].\nDefinition calls_%s : list string := [].\n", n, n, n)
			continue
		}
		b.Write(tr.EmitLiterals(p, []string{k}))
	}

	fmt.Fprintf(&b, "\n(* literal sets over everything reachable from all MarshalXML / UnmarshalXML methods *)\n")
	fmt.Fprintf(&b, "Definition lits_xml_marshal_all : list string := %s.\n", cstrs(closureLiterals(p, func(fd *ast.FuncDecl) bool { return fd.Recv != nil && fd.Name.Name == "MarshalXML" })))
	fmt.Fprintf(&b, "Definition lits_xml_unmarshal_all : list string := %s.\n", cstrs(closureLiterals(p, func(fd *ast.FuncDecl) bool { return fd.Recv != nil && fd.Name.Name == "UnmarshalXML" })))

	// the streaming scanner's dispatch (package osmxml)
	sp, err := tr.Load(filepath.Join(repo, "osmxml"), "github.com/paulmach/osm/osmxml")
	if err != nil {
		fmt.Fprintln(os.Stderr, "translator schema (osmxml):", err)
		os.Exit(1)
	}
	b.WriteString("\n(* osmxml *)\n")
	b.Write(tr.EmitLiterals(sp, []string{"Scanner.Scan"}))
	fmt.Fprintf(&b, "Definition lits_scanner_all : list string := %s.\n", cstrs(closureLiterals(sp, func(fd *ast.FuncDecl) bool { return fd.Recv != nil && fd.Name.Name == "Scan" })))

	if err := tr.Emit(filepath.Join(out, "GenSchema.v"), b.Bytes()); err != nil {
		fmt.Fprintln(os.Stderr, err)
		os.Exit(1)
	}
}
