// jsontags: translates the struct definitions and json tags of package osm that the JSON
// (un)marshalling depends on into coq/gen/GenJsonTags.v (property C05):
//   - one type descriptor (Verif.C05.Schema.ty) per struct: field Go name, json name,
//     omitempty, type (with the types that have hand-written JSON methods kept symbolic);
//   - the anonymous structs inside OSM.MarshalJSON / OSM.UnmarshalJSON;
//   - the constants returned by the xmlNameJSONType* shims;
//   - the order in which OSM.Objects() flattens the kinds;
//   - the type-name dispatch table of OSM.UnmarshalJSON;
//   - which codec entry point every hand-written JSON method calls.
//
// usage: jsontags <repo> <outdir>
package main

import (
	"bytes"
	"fmt"
	"go/ast"
	"go/constant"
	"go/token"
	"go/types"
	"os"
	"path/filepath"
	"reflect"
	"sort"
	"strconv"
	"strings"

	"verif/translator/tr"
)

type gen struct {
	p     *tr.Pkg
	decls map[string]*ast.FuncDecl
	errs  []string
	// struct types already emitted as t_<Name> (referenced by name afterwards)
	emitted map[string]bool
}

func (g *gen) fail(format string, a ...interface{}) string {
	g.errs = append(g.errs, fmt.Sprintf(format, a...))
	return "TSkip"
}

// types of package osm with hand-written JSON methods, and their symbolic descriptor
var special = map[string]string{"Tags": "TTags", "WayNodes": "(TWayNodes f_WayNode)", "Date": "TDate", "Objects": "TObjects"}

func hasJSONMethod(t types.Type) bool {
	for _, tt := range []types.Type{t, types.NewPointer(t)} {
		ms := types.NewMethodSet(tt)
		for i := 0; i < ms.Len(); i++ {
			n := ms.At(i).Obj().Name()
			if n == "MarshalJSON" || n == "UnmarshalJSON" {
				return true
			}
		}
	}
	return false
}

func intRange(b *types.Basic) (string, string, bool) {
	switch b.Kind() {
	case types.Int, types.Int64:
		return "(-9223372036854775808)", "9223372036854775807", true
	case types.Int32:
		return "(-2147483648)", "2147483647", true
	case types.Int16:
		return "(-32768)", "32767", true
	case types.Int8:
		return "(-128)", "127", true
	case types.Uint8:
		return "0", "255", true
	case types.Uint16:
		return "0", "65535", true
	case types.Uint32:
		return "0", "4294967295", true
	case types.Uint, types.Uint64:
		return "0", "18446744073709551615", true
	}
	return "", "", false
}

// calleeKey resolves a call to a function or method declared in the translated package and
// returns its key in g.decls ("Name" or "Recv.Name"), or "".
func (g *gen) calleeKey(c *ast.CallExpr) string {
	var id *ast.Ident
	switch f := c.Fun.(type) {
	case *ast.Ident:
		id = f
	case *ast.SelectorExpr:
		id = f.Sel
	default:
		return ""
	}
	fn, ok := g.p.Info.Uses[id].(*types.Func)
	if !ok || fn.Pkg() != g.p.Types {
		return ""
	}
	key := fn.Name()
	if sig, ok := fn.Type().(*types.Signature); ok && sig.Recv() != nil {
		t := sig.Recv().Type()
		if p, ok := t.(*types.Pointer); ok {
			t = p.Elem()
		}
		if n, ok := t.(*types.Named); ok {
			key = n.Obj().Name() + "." + key
		}
	}
	if g.decls[key] == nil {
		return ""
	}
	return key
}

// codec entry points and the functions reported on their own are never followed into
var noFollow = map[string]bool{"marshalJSON": true, "unmarshalJSON": true, "findType": true}

// reachable returns fn followed by the unexported functions/methods of the package it calls,
// transitively (the code a maintainer may have extracted into helpers), in call order.
func (g *gen) reachable(fn string) []*ast.FuncDecl {
	var out []*ast.FuncDecl
	seen := map[string]bool{}
	var visit func(key string)
	visit = func(key string) {
		fd := g.decls[key]
		if fd == nil || fd.Body == nil || seen[key] {
			return
		}
		seen[key] = true
		out = append(out, fd)
		ast.Inspect(fd.Body, func(n ast.Node) bool {
			if c, ok := n.(*ast.CallExpr); ok {
				k := g.calleeKey(c)
				name := k
				if j := strings.LastIndexByte(k, '.'); j >= 0 {
					name = k[j+1:]
				}
				if k != "" && !noFollow[k] && !ast.IsExported(name) {
					visit(k)
				}
			}
			return true
		})
	}
	visit(fn)
	return out
}

// evalString evaluates an expression to the string (or []byte) constant it denotes: literals,
// named constants, concatenation, conversions ([]byte(x), string(x), T(x)), parameters bound
// in env, and calls to single-return functions of the package.
func (g *gen) evalString(e ast.Expr, env map[types.Object]string, depth int) (string, bool) {
	if tv, ok := g.p.Info.Types[e]; ok && tv.Value != nil && tv.Value.Kind() == constant.String {
		return constant.StringVal(tv.Value), true
	}
	switch x := e.(type) {
	case *ast.ParenExpr:
		return g.evalString(x.X, env, depth)
	case *ast.Ident:
		obj := g.p.Info.Uses[x]
		if v, ok := env[obj]; ok {
			return v, true
		}
		if c, ok := obj.(*types.Const); ok && c.Val().Kind() == constant.String {
			return constant.StringVal(c.Val()), true
		}
	case *ast.BinaryExpr:
		if x.Op == token.ADD {
			a, ok1 := g.evalString(x.X, env, depth)
			b, ok2 := g.evalString(x.Y, env, depth)
			return a + b, ok1 && ok2
		}
	case *ast.CallExpr:
		if tv, ok := g.p.Info.Types[x.Fun]; ok && tv.IsType() && len(x.Args) == 1 {
			return g.evalString(x.Args[0], env, depth)
		}
		key := g.calleeKey(x)
		if key == "" || depth > 6 {
			return "", false
		}
		fd := g.decls[key]
		if fd.Body == nil || len(fd.Body.List) == 0 {
			return "", false
		}
		ret, ok := fd.Body.List[len(fd.Body.List)-1].(*ast.ReturnStmt)
		if !ok || len(fd.Body.List) != 1 || len(ret.Results) == 0 {
			return "", false
		}
		inner := map[types.Object]string{}
		k := 0
		for _, f := range fd.Type.Params.List {
			for _, n := range f.Names {
				if k < len(x.Args) {
					if v, ok := g.evalString(x.Args[k], env, depth+1); ok {
						inner[g.p.Info.Defs[n]] = v
					}
				}
				k++
			}
		}
		return g.evalString(ret.Results[0], inner, depth+1)
	}
	return "", false
}

// literalResults lists the constant byte strings a method returns as its first result.
func (g *gen) literalResults(fn string) []string {
	fd := g.decls[fn]
	if fd == nil || fd.Body == nil {
		return nil
	}
	var out []string
	ast.Inspect(fd.Body, func(n ast.Node) bool {
		if r, ok := n.(*ast.ReturnStmt); ok && len(r.Results) > 0 {
			if v, ok := g.evalString(r.Results[0], nil, 0); ok {
				out = append(out, v)
			}
		}
		return true
	})
	return out
}

// shimConst returns the JSON string constant a xmlNameJSONType* shim marshals to.
func (g *gen) shimConst(name string) string {
	if g.decls[name+".MarshalJSON"] == nil {
		g.fail("%s has no MarshalJSON", name)
		return ""
	}
	lits := g.literalResults(name + ".MarshalJSON")
	if len(lits) != 1 {
		g.fail("%s.MarshalJSON does not return one constant: %q", name, lits)
		return ""
	}
	u, err := strconv.Unquote(lits[0])
	if err != nil {
		g.fail("%s.MarshalJSON does not return a JSON string literal: %q", name, lits[0])
	}
	return u
}

func (g *gen) ty(t types.Type) string {
	if n, ok := t.(*types.Named); ok {
		obj := n.Obj()
		pkg := ""
		if obj.Pkg() != nil {
			pkg = obj.Pkg().Path()
		}
		name := obj.Name()
		switch {
		case pkg == "time" && name == "Time":
			return "TTime"
		case pkg == "github.com/paulmach/osm" && special[name] != "":
			return special[name]
		case pkg == "github.com/paulmach/osm" && name == "Members":
			sl, ok := n.Underlying().(*types.Slice)
			if !ok {
				return g.fail("Members is not a slice")
			}
			return "(TMembers " + g.ty(sl.Elem()) + ")"
		case pkg == "github.com/paulmach/osm" && strings.HasPrefix(name, "xmlNameJSONType"):
			return "(TShim " + tr.CoqString(g.shimConst(name)) + ")"
		case hasJSONMethod(n):
			return g.fail("type %s.%s has JSON methods the model does not know", pkg, name)
		case pkg == "github.com/paulmach/osm" && g.emitted[name]:
			return "t_" + name
		}
		return g.ty(n.Underlying())
	}
	switch u := t.(type) {
	case *types.Basic:
		if lo, hi, ok := intRange(u); ok {
			return "(TInt " + lo + " " + hi + ")"
		}
		switch u.Kind() {
		case types.Float64:
			return "TFloat"
		case types.String:
			return "TStr"
		case types.Bool:
			return "TBool"
		}
		return g.fail("basic type %s", u)
	case *types.Pointer:
		if n, ok := u.Elem().(*types.Named); ok && n.Obj().Pkg() != nil && n.Obj().Pkg().Path() == "github.com/paulmach/osm" {
			switch n.Obj().Name() {
			case "OSM":
				return "(TPtr TOSMRef)"
			case "Change":
				return "TNilOnly"
			}
		}
		return "(TPtr " + g.ty(u.Elem()) + ")"
	case *types.Slice:
		el := u.Elem()
		if n, ok := el.(*types.Named); ok && n.Obj().Name() == "nocopyRawMessage" {
			return "TRawList"
		}
		if _, ok := el.Underlying().(*types.Interface); ok {
			// a slice of interface values holding the already typed elements (osm.Objects, []Object, []interface{})
			return "TObjects"
		}
		if p, ok := el.(*types.Pointer); ok {
			el = p.Elem()
		}
		return "(TSlice " + g.ty(el) + ")"
	case *types.Interface:
		if u.NumMethods() == 0 {
			return "TAny"
		}
		return g.fail("non-empty interface")
	case *types.Struct:
		return "(TStruct " + g.fields(u) + ")"
	}
	return g.fail("type %s", t)
}

func (g *gen) fields(s *types.Struct) string {
	var parts []string
	for i := 0; i < s.NumFields(); i++ {
		f := s.Field(i)
		if !f.Exported() {
			continue
		}
		tag := reflect.StructTag(s.Tag(i)).Get("json")
		if f.Embedded() {
			// encoding/json promotes the fields of an untagged embedded struct (or pointer to
			// struct, assumed non-nil) into the enclosing object, in place
			et := f.Type()
			if p, ok := et.(*types.Pointer); ok {
				et = p.Elem()
			}
			es, ok := et.Underlying().(*types.Struct)
			if !ok || tag != "" || hasJSONMethod(et) {
				g.fail("embedded field %s", f.Name())
				continue
			}
			inner := g.fields(es)
			inner = strings.TrimSuffix(strings.TrimPrefix(inner, "["), "]")
			if inner != "" {
				parts = append(parts, inner)
			}
			continue
		}
		name, omit := f.Name(), false
		tyS := ""
		if tag == "-" {
			tyS = "TSkip"
		} else {
			opts := strings.Split(tag, ",")
			if opts[0] != "" {
				name = opts[0]
			}
			for _, o := range opts[1:] {
				switch o {
				case "omitempty":
					omit = true
				default:
					g.fail("json option %q on %s", o, f.Name())
				}
			}
			tyS = g.ty(f.Type())
		}
		parts = append(parts, fmt.Sprintf("Field %s %s %v %s", tr.CoqString(f.Name()), tr.CoqString(name), omit, tyS))
	}
	return "[" + strings.Join(parts, ";\n    ") + "]"
}

// helperStruct returns the struct that fn hands to the codec entry point callee as argument
// number arg (a value, or a pointer to it): the header object of OSM.MarshalJSON /
// OSM.UnmarshalJSON, whether it is an anonymous struct written in the body or a named type,
// filled positionally or by keys, in the method itself or in a helper it calls.  Falls back to
// the first anonymous struct type written in the body.
func (g *gen) helperStruct(fn, callee string, arg int) *types.Struct {
	if g.decls[fn] == nil {
		g.fail("%s not found", fn)
		return nil
	}
	var st *types.Struct
	for _, fd := range g.reachable(fn) {
		ast.Inspect(fd.Body, func(n ast.Node) bool {
			if st != nil {
				return false
			}
			c, ok := n.(*ast.CallExpr)
			if !ok || len(c.Args) <= arg {
				return true
			}
			if id, ok := c.Fun.(*ast.Ident); !ok || id.Name != callee {
				return true
			}
			tv, ok := g.p.Info.Types[c.Args[arg]]
			if !ok {
				return true
			}
			t := tv.Type
			if p, ok := t.(*types.Pointer); ok {
				t = p.Elem()
			}
			if s, ok := t.Underlying().(*types.Struct); ok {
				st = s
			}
			return true
		})
		if st != nil {
			return st
		}
	}
	ast.Inspect(g.decls[fn].Body, func(n ast.Node) bool {
		if st != nil {
			return false
		}
		if s, ok := n.(*ast.StructType); ok {
			if tv, ok := g.p.Info.Types[s]; ok {
				st, _ = tv.Type.(*types.Struct)
			}
		}
		return true
	})
	if st == nil {
		g.fail("%s: no struct handed to %s", fn, callee)
	}
	return st
}

func selName(e ast.Expr) (string, bool) {
	s, ok := e.(*ast.SelectorExpr)
	if !ok {
		return "", false
	}
	return s.Sel.Name, true
}

// objectsOrder lists the fields of OSM that Objects() flattens, in order; "Bounds" for the
// `if o.Bounds != nil { result = append(result, o.Bounds) }` statement.
func (g *gen) objectsOrder() []string {
	fd := g.decls["OSM.Objects"]
	if fd == nil {
		g.fail("OSM.Objects not found")
		return nil
	}
	var out []string
	// any statement that appends to the result (range loop, index loop, guarded append, ...):
	// the OSM field it draws from is the first one mentioned in it
	for _, st := range fd.Body.List {
		hasAppend, field := false, ""
		ast.Inspect(st, func(n ast.Node) bool {
			switch x := n.(type) {
			case *ast.CallExpr:
				if id, ok := x.Fun.(*ast.Ident); ok && id.Name == "append" {
					hasAppend = true
				}
			case *ast.SelectorExpr:
				if f, ok := g.osmField(x); ok && field == "" {
					field = f
				}
			}
			return true
		})
		if hasAppend && field != "" {
			out = append(out, field)
		}
	}
	return out
}

// osmField returns the field name when e is a selector x.F with x of type OSM / *OSM.
func (g *gen) osmField(e ast.Expr) (string, bool) {
	sel, ok := e.(*ast.SelectorExpr)
	if !ok {
		return "", false
	}
	tv, ok := g.p.Info.Types[sel.X]
	if !ok {
		return "", false
	}
	t := tv.Type
	if p, ok := t.(*types.Pointer); ok {
		t = p.Elem()
	}
	if n, ok := t.(*types.Named); ok && n.Obj().Pkg() == g.p.Types && n.Obj().Name() == "OSM" {
		return sel.Sel.Name, true
	}
	return "", false
}

// storeTarget finds the OSM field assigned in a list of statements.
func (g *gen) storeTarget(body []ast.Stmt) string {
	target := ""
	for _, st := range body {
		ast.Inspect(st, func(n ast.Node) bool {
			if as, ok := n.(*ast.AssignStmt); ok && len(as.Lhs) == 1 {
				if f, ok := g.osmField(as.Lhs[0]); ok {
					target = f
				}
			}
			return true
		})
	}
	return target
}

// dispatch reads the type-name -> OSM field table of OSM.UnmarshalJSON, wherever the code sits
// (the method itself or unexported helpers it calls) and however it is spelled: a switch over
// the type name with literal or named-constant labels, or an if / else-if chain of comparisons
// with such constants.
func (g *gen) dispatch() [][2]string {
	var out [][2]string
	seen := map[string]bool{}
	add := func(label ast.Expr, body []ast.Stmt) {
		tn, ok := g.evalString(label, nil, 0)
		if !ok {
			g.fail("UnmarshalJSON: type label is not a constant at %s", g.p.Pos(label))
			return
		}
		target := g.storeTarget(body)
		if target == "" {
			return // e.g. the comparison `ts.Type == ""` of findType-like code: stores nothing
		}
		if !seen[tn] {
			seen[tn] = true
			out = append(out, [2]string{tn, target})
		}
	}
	for _, fd := range g.reachable("OSM.UnmarshalJSON") {
		ast.Inspect(fd.Body, func(n ast.Node) bool {
			switch st := n.(type) {
			case *ast.SwitchStmt:
				if st.Tag == nil {
					return true
				}
				if tv, ok := g.p.Info.Types[st.Tag]; !ok || !isStringType(tv.Type) {
					return true
				}
				for _, c := range st.Body.List {
					cc := c.(*ast.CaseClause)
					for _, e := range cc.List {
						add(e, cc.Body)
					}
				}
			case *ast.IfStmt:
				be, ok := st.Cond.(*ast.BinaryExpr)
				if !ok || be.Op != token.EQL {
					return true
				}
				for _, side := range []ast.Expr{be.X, be.Y} {
					if tv, ok := g.p.Info.Types[side]; ok && tv.Value != nil && tv.Value.Kind() == constant.String {
						add(side, st.Body.List)
					}
				}
			}
			return true
		})
	}
	return out
}

func isStringType(t types.Type) bool {
	b, ok := t.Underlying().(*types.Basic)
	return ok && b.Info()&types.IsString != 0
}

// codecCalls lists the codec entry points called in the body of fn and of the unexported
// helpers it calls, in source order.
func (g *gen) codecCalls(fn string) []string {
	if g.decls[fn] == nil {
		return []string{"<missing>"}
	}
	var out []string
	for _, fd := range g.reachable(fn) {
		ast.Inspect(fd.Body, func(n ast.Node) bool {
			c, ok := n.(*ast.CallExpr)
			if !ok {
				return true
			}
			switch f := c.Fun.(type) {
			case *ast.Ident:
				if f.Name == "marshalJSON" || f.Name == "unmarshalJSON" {
					out = append(out, f.Name)
				}
			case *ast.SelectorExpr:
				if id, ok := f.X.(*ast.Ident); ok && id.Name == "json" {
					out = append(out, "json."+f.Sel.Name)
				}
			}
			return true
		})
	}
	return out
}

func main() {
	repo, out := os.Args[1], os.Args[2]
	if err := os.Chdir(repo); err != nil {
		fmt.Fprintln(os.Stderr, err)
		os.Exit(1)
	}
	p, err := tr.Load(repo, "github.com/paulmach/osm")
	if err != nil {
		fmt.Fprintln(os.Stderr, "translator jsontags:", err)
		os.Exit(1)
	}
	g := &gen{p: p, decls: p.FuncDecls(), emitted: map[string]bool{}}
	var b bytes.Buffer
	b.WriteString("(* GENERATED by /verif/translator from /repo — do not edit. generator: jsontags *)\n")
	b.WriteString("From Coq Require Import ZArith String List Bool.\nFrom Verif Require Import C05.Json C05.Schema.\nImport ListNotations.\nOpen Scope Z_scope.\nOpen Scope string_scope.\n\n")
	names := []string{"Tag", "WayNode", "Bounds", "Update", "Node", "Way", "Member", "Relation", "ChangesetComment", "ChangesetDiscussion", "Changeset", "NoteComment", "Note", "User", "OSM", "Change", "typeStruct", "jsonBoundsElement"}
	for _, n := range names {
		obj := p.Types.Scope().Lookup(n)
		if obj == nil {
			// keep the generated file loadable: the GenOk obligation about this type then fails
			fmt.Fprintf(&b, "(* type %s not found in the source *)\nDefinition f_%s : list field := [].\nDefinition t_%s : ty := TStruct f_%s.\n\n", n, n, n, n)
			continue
		}
		st, ok := obj.Type().Underlying().(*types.Struct)
		if !ok {
			g.fail("type %s is not a struct", n)
			continue
		}
		fmt.Fprintf(&b, "Definition f_%s : list field :=\n   %s.\nDefinition t_%s : ty := TStruct f_%s.\n\n", n, g.fields(st), n, n)
		g.emitted[n] = true
	}
	for _, fn := range []string{"OSM.MarshalJSON", "OSM.UnmarshalJSON"} {
		callee, arg := "marshalJSON", 0
		if fn == "OSM.UnmarshalJSON" {
			callee, arg = "unmarshalJSON", 1
		}
		if st := g.helperStruct(fn, callee, arg); st != nil {
			fmt.Fprintf(&b, "Definition f_%s : list field :=\n   %s.\n\n", strings.ReplaceAll(fn, ".", "_"), g.fields(st))
		}
	}
	if c, ok := p.Types.Scope().Lookup("TypeBounds").(*types.Const); ok {
		fmt.Fprintf(&b, "Definition bounds_type_name : string := %s.\n\n", tr.CoqString(constant.StringVal(c.Val())))
	} else {
		b.WriteString("(* constant TypeBounds not found *)\nDefinition bounds_type_name : string := \"\".\n\n")
	}
	// element types of the OSM container slices (Nodes []*Node ...)
	var order []string
	for _, n := range g.objectsOrder() {
		order = append(order, tr.CoqString(n))
	}
	fmt.Fprintf(&b, "Definition objects_order : list string := [%s].\n\n", strings.Join(order, "; "))
	var disp []string
	for _, d := range g.dispatch() {
		disp = append(disp, fmt.Sprintf("(%s, %s)", tr.CoqString(d[0]), tr.CoqString(d[1])))
	}
	fmt.Fprintf(&b, "Definition unmarshal_dispatch : list (string * string) := [%s].\n\n", strings.Join(disp, "; "))
	quote := func(l []string) string {
		var q []string
		for _, x := range l {
			q = append(q, tr.CoqString(x))
		}
		return "[" + strings.Join(q, "; ") + "]"
	}
	fmt.Fprintf(&b, "(* byte literals returned as is by the hand-written marshalers *)\nDefinition members_literals : list string := %s.\nDefinition date_literals : list string := %s.\n\n",
		quote(g.literalResults("Members.MarshalJSON")), quote(g.literalResults("Date.MarshalJSON")))
	fns := []string{"OSM.MarshalJSON", "OSM.UnmarshalJSON", "findType", "Tags.MarshalJSON", "Tags.UnmarshalJSON",
		"WayNodes.MarshalJSON", "WayNodes.UnmarshalJSON", "Members.MarshalJSON", "Date.MarshalJSON"}
	sort.Strings(fns)
	var calls []string
	for _, fn := range fns {
		var cs []string
		for _, c := range g.codecCalls(fn) {
			cs = append(cs, tr.CoqString(c))
		}
		calls = append(calls, fmt.Sprintf("(%s, [%s])", tr.CoqString(fn), strings.Join(cs, "; ")))
	}
	fmt.Fprintf(&b, "Definition codec_calls : list (string * list string) :=\n  [%s].\n", strings.Join(calls, ";\n   "))
	if len(g.errs) > 0 {
		fmt.Fprintln(os.Stderr, "translator jsontags: constructs outside the translated fragment:")
		for _, e := range g.errs {
			fmt.Fprintln(os.Stderr, "  "+e)
		}
		os.Exit(1)
	}
	if err := tr.Emit(filepath.Join(out, "GenJsonTags.v"), b.Bytes()); err != nil {
		fmt.Fprintln(os.Stderr, err)
		os.Exit(1)
	}
}
