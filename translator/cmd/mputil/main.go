// mputil: translates the decision structure of the multipolygon code into coq/gen/GenMputil.v
// (tie T for C16):
//   - internal/mputil/join.go   Join: the if / else-if chain of the range loop as a table of
//     cases (which end of the chain is compared with which end of the segment, whether the
//     segment is reversed, which end is trimmed, where it is put); the "first half" test of the
//     removal; compact's skip test
//   - internal/mputil/mputil.go MultiSegment.Orientation: the shoelace term and the sign test;
//     MultiSegment.Ring: the three boolean tests
//   - osmgeojson/build_polygon.go polygonContains: the crossing condition (tie rule and the
//     division expression, over exact rationals)
//
// Each item is emitted as "Some <definition>" when the source has the recognisable shape and as
// None otherwise (a restructured but equivalent source is then tied by the correspondence
// harness only); theories/C16/GenOk.v proves every recognised item equal to the model.
// usage: mputil <repo> <outdir>
package main

import (
	"bytes"
	"fmt"
	"go/ast"
	"go/printer"
	"go/token"
	"os"
	"path/filepath"
	"strings"
)

type ctx struct {
	p   *Pkg
	env map[string]string // printed Go sub-expression -> Coq term
	q   bool              // numbers are exact rationals (inject_Z at the leaves)
}

func (c *ctx) src(n ast.Node) string {
	var b bytes.Buffer
	printer.Fprint(&b, c.p.Fset, n)
	return b.String()
}

type kind int

const (
	num kind = iota
	boolean
)

// expr translates a Go expression over the environment; the second result says whether the
// value is a number or a boolean.
func (c *ctx) expr(e ast.Expr) (string, kind, error) {
	if v, ok := c.env[c.src(e)]; ok {
		if strings.HasPrefix(v, "b:") {
			return v[2:], boolean, nil
		}
		if c.q {
			return "(inject_Z " + v + ")", num, nil
		}
		return v, num, nil
	}
	switch x := e.(type) {
	case *ast.ParenExpr:
		return c.expr(x.X)
	case *ast.BasicLit:
		if x.Kind == token.INT {
			if c.q {
				return "(inject_Z " + x.Value + ")", num, nil
			}
			return x.Value, num, nil
		}
	case *ast.UnaryExpr:
		a, k, err := c.expr(x.X)
		if err != nil {
			return "", 0, err
		}
		if x.Op == token.NOT && k == boolean {
			return "(negb " + a + ")", boolean, nil
		}
	case *ast.BinaryExpr:
		a, ka, err := c.expr(x.X)
		if err != nil {
			return "", 0, err
		}
		b, kb, err := c.expr(x.Y)
		if err != nil {
			return "", 0, err
		}
		if ka != kb {
			return "", 0, fmt.Errorf("%s: operands of different kinds", c.p.Pos(e))
		}
		if ka == boolean {
			switch x.Op {
			case token.LAND:
				return "(andb " + a + " " + b + ")", boolean, nil
			case token.LOR:
				return "(orb " + a + " " + b + ")", boolean, nil
			case token.EQL:
				return "(Bool.eqb " + a + " " + b + ")", boolean, nil
			case token.NEQ:
				return "(negb (Bool.eqb " + a + " " + b + "))", boolean, nil
			}
		} else {
			ops := map[token.Token][2]string{
				token.ADD: {"Z.add", "Qplus"}, token.SUB: {"Z.sub", "Qminus"},
				token.MUL: {"Z.mul", "Qmult"}, token.QUO: {"Z.div", "Qdiv"}}
			cmp := map[token.Token][2]string{
				token.LSS: {"Z.ltb", "Qltb"}, token.GTR: {"Z.gtb", "Qgtb"},
				token.LEQ: {"Z.leb", "Qleb"}, token.GEQ: {"Z.geb", "Qgeb"}, token.EQL: {"Z.eqb", "Qeqb"}}
			i := 0
			if c.q {
				i = 1
			}
			if o, ok := ops[x.Op]; ok {
				return "(" + o[i] + " " + a + " " + b + ")", num, nil
			}
			if o, ok := cmp[x.Op]; ok {
				return "(" + o[i] + " " + a + " " + b + ")", boolean, nil
			}
			if x.Op == token.NEQ {
				return "(negb (" + cmp[token.EQL][i] + " " + a + " " + b + "))", boolean, nil
			}
		}
	}
	return "", 0, fmt.Errorf("%s: unsupported expression %s", c.p.Pos(e), c.src(e))
}

// findIf returns the condition of THE if statement of fn whose body's first statement (printed)
// equals body; nil unless there is exactly one such statement, it has no else branch and it is
// not itself an else branch (anything else means the source was restructured).
func findIf(c *ctx, fn *ast.FuncDecl, body string) ast.Expr {
	var found []*ast.IfStmt
	elses := map[ast.Stmt]bool{}
	ast.Inspect(fn, func(n ast.Node) bool {
		if is, ok := n.(*ast.IfStmt); ok {
			if is.Else != nil {
				elses[is.Else] = true
			}
			if len(is.Body.List) > 0 && c.src(is.Body.List[0]) == body {
				found = append(found, is)
			}
		}
		return true
	})
	if len(found) != 1 || found[0].Else != nil || elses[found[0]] {
		return nil
	}
	return found[0].Cond
}

type item struct{ name, typ, def, why string }

func (it item) emit(b *bytes.Buffer) {
	if it.def == "" {
		fmt.Fprintf(b, "(* %s: not recognised: %s *)\nDefinition %s : option (%s) := None.\n\n", it.name, strings.ReplaceAll(it.why, "*)", "* )"), it.name, it.typ)
		return
	}
	fmt.Fprintf(b, "Definition %s : option (%s) := Some (%s).\n\n", it.name, it.typ, it.def)
}

func boolExpr(c *ctx, name, typ, params string, e ast.Expr, missing string) item {
	it := item{name: name, typ: typ}
	if e == nil {
		it.why = missing
		return it
	}
	s, k, err := c.expr(e)
	if err != nil {
		it.why = err.Error()
		return it
	}
	if k != boolean {
		it.why = "not a boolean expression"
		return it
	}
	it.def = "fun " + params + " => " + s
	return it
}

func coqBool(b bool) string {
	if b {
		return "true"
	}
	return "false"
}

// reachable: fn followed by the package-level functions it calls (transitively), in call order.
func reachable(c *ctx, decls map[string]*ast.FuncDecl, name string) []*ast.FuncDecl {
	var out []*ast.FuncDecl
	seen := map[string]bool{}
	var visit func(n string)
	visit = func(n string) {
		fd := decls[n]
		if fd == nil || seen[n] || fd.Body == nil {
			return
		}
		seen[n] = true
		out = append(out, fd)
		ast.Inspect(fd.Body, func(x ast.Node) bool {
			if call, ok := x.(*ast.CallExpr); ok {
				if id, ok := call.Fun.(*ast.Ident); ok {
					visit(id.Name)
				}
			}
			return true
		})
	}
	visit(name)
	return out
}

type pcond struct {
	e   ast.Expr
	neg bool
}

func terminates(b *ast.BlockStmt) bool {
	if len(b.List) == 0 {
		return false
	}
	switch b.List[len(b.List)-1].(type) {
	case *ast.BranchStmt, *ast.ReturnStmt:
		return true
	}
	return false
}

// pathsTo collects, for every statement of fn satisfying target, the condition under which it is
// reached inside its innermost loop body: enclosing if / else / switch-case conditions and the
// negations of preceding "if C { ...; continue | break | return }" guards (early-exit
// flattening).  Normal form: a conjunction of possibly negated Go conditions.
func pathsTo(fn *ast.FuncDecl, target func(ast.Stmt) bool) [][]pcond {
	var found [][]pcond
	var block func(list []ast.Stmt, conds []pcond)
	var stmt func(s ast.Stmt, conds []pcond)
	block = func(list []ast.Stmt, conds []pcond) {
		cur := append([]pcond{}, conds...)
		for _, s := range list {
			stmt(s, cur)
			if is, ok := s.(*ast.IfStmt); ok && is.Else == nil && is.Init == nil && terminates(is.Body) {
				cur = append(cur, pcond{is.Cond, true})
			}
		}
	}
	stmt = func(s ast.Stmt, conds []pcond) {
		if target(s) {
			found = append(found, append([]pcond{}, conds...))
			return
		}
		switch x := s.(type) {
		case *ast.BlockStmt:
			block(x.List, conds)
		case *ast.IfStmt:
			block(x.Body.List, append(append([]pcond{}, conds...), pcond{x.Cond, false}))
			if x.Else != nil {
				stmt(x.Else, append(append([]pcond{}, conds...), pcond{x.Cond, true}))
			}
		case *ast.ForStmt:
			block(x.Body.List, nil)
		case *ast.RangeStmt:
			block(x.Body.List, nil)
		case *ast.SwitchStmt:
			if x.Tag != nil {
				return
			}
			prev := append([]pcond{}, conds...)
			for _, cc := range x.Body.List {
				cl := cc.(*ast.CaseClause)
				if len(cl.List) == 1 {
					block(cl.Body, append(append([]pcond{}, prev...), pcond{cl.List[0], false}))
					prev = append(prev, pcond{cl.List[0], true})
				}
			}
		}
	}
	block(fn.Body.List, nil)
	return found
}

// conj translates a path condition
func (c *ctx) conj(conds []pcond) (string, error) {
	out := ""
	for _, pc := range conds {
		s, k, err := c.expr(pc.e)
		if err != nil {
			return "", err
		}
		if k != boolean {
			return "", fmt.Errorf("condition %s is not boolean", c.src(pc.e))
		}
		if pc.neg {
			s = "(negb " + s + ")"
		}
		if out == "" {
			out = s
		} else {
			out = "(andb " + out + " " + s + ")"
		}
	}
	if out == "" {
		return "", fmt.Errorf("empty condition")
	}
	return out, nil
}

// ---- Join: the cases of the range loop, as an if / else-if chain or a tagless switch, possibly
// in a helper, with the effect of each case read through small helper functions.

type effect struct {
	rev, trimmed, trimFirst, put, putEnd bool
}

func (c *ctx) effects(decls map[string]*ast.FuncDecl, stmts []ast.Stmt, val, cur string, e *effect, depth int) error {
	putExpr := func(x ast.Expr) (bool, error) {
		switch c.src(x) {
		case "append(" + cur + ", " + val + ")":
			if !e.trimmed || e.put {
				return false, fmt.Errorf("put before trimming")
			}
			e.put, e.putEnd = true, true
			return true, nil
		case "append(MultiSegment{" + val + "}, " + cur + "...)":
			if !e.trimmed || e.put {
				return false, fmt.Errorf("put before trimming")
			}
			e.put, e.putEnd = true, false
			return true, nil
		}
		if call, ok := x.(*ast.CallExpr); ok && depth < 3 {
			if id, ok := call.Fun.(*ast.Ident); ok {
				if h := decls[id.Name]; h != nil && h.Recv == nil && h.Body != nil && len(call.Args) == 2 &&
					h.Type.Params != nil && len(h.Type.Params.List) == 2 &&
					len(h.Type.Params.List[0].Names) == 1 && len(h.Type.Params.List[1].Names) == 1 {
					hm, hs := "", ""
					for k, f := range h.Type.Params.List {
						switch c.src(f.Type) {
						case "MultiSegment":
							if c.src(call.Args[k]) != cur {
								return false, fmt.Errorf("helper %s called with %s", id.Name, c.src(call.Args[k]))
							}
							hm = f.Names[0].Name
						case "Segment":
							if c.src(call.Args[k]) != val {
								return false, fmt.Errorf("helper %s called with %s", id.Name, c.src(call.Args[k]))
							}
							hs = f.Names[0].Name
						}
					}
					if hm == "" || hs == "" {
						return false, fmt.Errorf("helper %s: unexpected parameters", id.Name)
					}
					was := e.put
					if err := c.effects(decls, h.Body.List, hs, hm, e, depth+1); err != nil {
						return false, err
					}
					return e.put && !was, nil
				}
			}
		}
		return false, nil
	}
	for _, s := range stmts {
		src := c.src(s)
		switch {
		case src == val+".Reverse()":
			if e.trimmed || e.put {
				return fmt.Errorf("Reverse after trimming")
			}
			e.rev = !e.rev
		case src == val+".Line = "+val+".Line[1:]":
			if e.trimmed || e.put {
				return fmt.Errorf("trimmed twice")
			}
			e.trimmed, e.trimFirst = true, true
		case src == val+".Line = "+val+".Line[:len("+val+".Line)-1]":
			if e.trimmed || e.put {
				return fmt.Errorf("trimmed twice")
			}
			e.trimmed, e.trimFirst = true, false
		case src == "break" || strings.HasPrefix(src, "foundAt = "):
			// control only
		default:
			var x ast.Expr
			if as, ok := s.(*ast.AssignStmt); ok && len(as.Lhs) == 1 && len(as.Rhs) == 1 && c.src(as.Lhs[0]) == cur {
				x = as.Rhs[0]
			} else if rs, ok := s.(*ast.ReturnStmt); ok && len(rs.Results) >= 1 {
				x = rs.Results[0]
			}
			if x == nil {
				return fmt.Errorf("unrecognised statement %s", src)
			}
			ok, err := putExpr(x)
			if err != nil {
				return err
			}
			if !ok {
				return fmt.Errorf("unrecognised statement %s", src)
			}
		}
	}
	return nil
}

func joinCases(c *ctx, decls map[string]*ast.FuncDecl) item {
	it := item{name: "gen_join_cases", typ: "list (bool * bool * bool * bool * bool)"}
	type branch struct {
		cond ast.Expr
		body []ast.Stmt
	}
	var rng *ast.RangeStmt
	var host *ast.FuncDecl
	n := 0
	for _, fn := range reachable(c, decls, "Join") {
		ast.Inspect(fn.Body, func(x ast.Node) bool {
			if r, ok := x.(*ast.RangeStmt); ok && len(r.Body.List) == 1 {
				// the loop that tests end points: its first condition is an Equal call
				first := ""
				switch st := r.Body.List[0].(type) {
				case *ast.IfStmt:
					first = c.src(st.Cond)
				case *ast.SwitchStmt:
					if st.Tag == nil && len(st.Body.List) > 0 {
						if cl := st.Body.List[0].(*ast.CaseClause); len(cl.List) == 1 {
							first = c.src(cl.List[0])
						}
					}
				}
				if strings.Contains(first, ".Equal(") {
					rng, host = r, fn
					n++
				}
			}
			return true
		})
	}
	if n != 1 || rng.Value == nil {
		it.why = "range loop over the segments with a single if / switch statement not found (or not unique)"
		return it
	}
	val := c.src(rng.Value)
	var branches []branch
	switch st := rng.Body.List[0].(type) {
	case *ast.IfStmt:
		var s ast.Stmt = st
		for s != nil {
			is, ok := s.(*ast.IfStmt)
			if !ok || is.Init != nil {
				it.why = "else branch is not an if statement"
				return it
			}
			branches = append(branches, branch{is.Cond, is.Body.List})
			s = is.Else
		}
	case *ast.SwitchStmt:
		if st.Tag != nil || st.Init != nil {
			it.why = "switch with a tag"
			return it
		}
		for _, cc := range st.Body.List {
			cl := cc.(*ast.CaseClause)
			if len(cl.List) != 1 {
				it.why = "default or multi-expression case"
				return it
			}
			branches = append(branches, branch{cl.List[0], cl.Body})
		}
	}
	// which local names denote the first / last point of the chain, and the chain itself
	ends := map[string]bool{} // name -> is last
	cur := ""
	ast.Inspect(host.Body, func(x ast.Node) bool {
		if as, ok := x.(*ast.AssignStmt); ok && as.Tok == token.DEFINE && len(as.Lhs) == 1 && len(as.Rhs) == 1 {
			if call, ok := as.Rhs[0].(*ast.CallExpr); ok && len(call.Args) == 0 {
				if sel, ok := call.Fun.(*ast.SelectorExpr); ok && (sel.Sel.Name == "First" || sel.Sel.Name == "Last") {
					ends[c.src(as.Lhs[0])] = sel.Sel.Name == "Last"
					cur = c.src(sel.X)
				}
			}
		}
		return true
	})
	var rows []string
	for _, b := range branches {
		call, ok := b.cond.(*ast.CallExpr)
		if !ok || len(call.Args) != 1 {
			it.why = "unrecognised match condition " + c.src(b.cond)
			return it
		}
		sel, ok := call.Fun.(*ast.SelectorExpr)
		chainLast, known := ends[c.src(sel.X)]
		if !ok || sel.Sel.Name != "Equal" || !known {
			it.why = "unrecognised match condition " + c.src(b.cond)
			return it
		}
		var segFirst bool
		switch c.src(call.Args[0]) {
		case val + ".First()":
			segFirst = true
		case val + ".Last()":
			segFirst = false
		default:
			it.why = "unrecognised match condition " + c.src(b.cond)
			return it
		}
		var e effect
		if err := c.effects(decls, b.body, val, cur, &e, 0); err != nil {
			it.why = "case " + c.src(b.cond) + ": " + err.Error()
			return it
		}
		if !e.trimmed || !e.put {
			it.why = "incomplete case " + c.src(b.cond)
			return it
		}
		rows = append(rows, fmt.Sprintf("(%s, %s, %s, %s, %s)", coqBool(chainLast), coqBool(segFirst), coqBool(e.rev), coqBool(e.trimFirst), coqBool(e.putEnd)))
	}
	it.def = "[" + strings.Join(rows, "; ") + "]"
	return it
}

func main() {
	repo, out := os.Args[1], os.Args[2]
	if err := os.Chdir(repo); err != nil {
		fmt.Fprintln(os.Stderr, err)
		os.Exit(1)
	}
	mp, err := Load(filepath.Join(repo, "internal", "mputil"), "github.com/paulmach/osm/internal/mputil")
	if err != nil {
		fmt.Fprintln(os.Stderr, "translator mputil:", err)
		os.Exit(1)
	}
	gj, err := Load(filepath.Join(repo, "osmgeojson"), "github.com/paulmach/osm/osmgeojson")
	if err != nil {
		fmt.Fprintln(os.Stderr, "translator mputil:", err)
		os.Exit(1)
	}
	var b bytes.Buffer
	b.WriteString("(* GENERATED by /verif/translator (cmd/mputil) from /repo — do not edit. *)\n" +
		"From Coq Require Import ZArith List Bool QArith.\nFrom Verif Require Import Geo.GenSupport.\nImport ListNotations.\nOpen Scope Z_scope.\n\n")
	missing := func(it item, why string) {
		it.why = why
		it.emit(&b)
	}
	md := mp.FuncDecls()

	// Join
	if md["Join"] != nil {
		c := &ctx{p: mp}
		joinCases(c, md).emit(&b)
		// the half test of the removal: "X < len(S)/2", in Join or a helper
		var cond *ast.BinaryExpr
		n := 0
		for _, fn := range reachable(c, md, "Join") {
			ast.Inspect(fn.Body, func(x ast.Node) bool {
				if is, ok := x.(*ast.IfStmt); ok {
					if be, ok := is.Cond.(*ast.BinaryExpr); ok && be.Op == token.LSS {
						if r, ok := be.Y.(*ast.BinaryExpr); ok && r.Op == token.QUO && c.src(r.Y) == "2" && strings.HasPrefix(c.src(r.X), "len(") {
							cond = be
							n++
						}
					}
				}
				return true
			})
		}
		if n == 1 {
			c.env = map[string]string{c.src(cond.X): "found_at", c.src(cond.Y.(*ast.BinaryExpr).X): "len"}
			boolExpr(c, "gen_join_first_half", "Z -> Z -> bool", "(found_at len : Z)", cond, "").emit(&b)
		} else {
			missing(item{name: "gen_join_first_half", typ: "Z -> Z -> bool"}, "test of the removal not found")
		}
	} else {
		missing(item{name: "gen_join_cases", typ: "list (bool * bool * bool * bool * bool)"}, "Join not found")
		missing(item{name: "gen_join_first_half", typ: "Z -> Z -> bool"}, "Join not found")
	}
	// compact: "if SKIP { continue }" or "if KEEP { ms[at] = s; ... }"
	if fn := md["compact"]; fn != nil {
		c := &ctx{p: mp, env: map[string]string{}}
		it := item{name: "gen_compact_skip", typ: "Z -> bool"}
		var rg *ast.RangeStmt
		ast.Inspect(fn.Body, func(x ast.Node) bool {
			if r, ok := x.(*ast.RangeStmt); ok && rg == nil {
				rg = r
			}
			return true
		})
		if rg != nil && rg.Value != nil {
			c.env["len("+c.src(rg.Value)+".Line)"] = "len"
			paths := pathsTo(fn, func(s ast.Stmt) bool {
				as, ok := s.(*ast.AssignStmt)
				if !ok || len(as.Lhs) != 1 {
					return false
				}
				_, isIdx := as.Lhs[0].(*ast.IndexExpr)
				return isIdx && c.src(as.Rhs[0]) == c.src(rg.Value)
			})
			if len(paths) == 1 {
				if keep, err := c.conj(paths[0]); err == nil {
					it.def = "fun (len : Z) => (negb " + keep + ")"
				} else {
					it.why = err.Error()
				}
			} else {
				it.why = "the statement keeping a segment was not found (or not unique)"
			}
		} else {
			it.why = "range loop not found"
		}
		it.emit(&b)
	} else {
		missing(item{name: "gen_compact_skip", typ: "Z -> bool"}, "compact not found")
	}
	// MultiSegment.Orientation
	if fn := md["MultiSegment.Orientation"]; fn != nil {
		c := &ctx{p: mp, env: map[string]string{
			"prev[0]": "(fst prev)", "prev[1]": "(snd prev)", "offset[0]": "(fst offset)", "offset[1]": "(snd offset)",
			"point[0]": "(fst point)", "point[1]": "(snd point)", "area": "area"}}
		it := item{name: "gen_orientation_term", typ: "Z * Z -> Z * Z -> Z * Z -> Z"}
		var rhs ast.Expr
		offsetIsFirst := false
		ast.Inspect(fn, func(n ast.Node) bool {
			if as, ok := n.(*ast.AssignStmt); ok {
				if as.Tok == token.ADD_ASSIGN && c.src(as.Lhs[0]) == "area" {
					rhs = as.Rhs[0]
				}
				if c.src(as) == "offset := prev" {
					offsetIsFirst = true
				}
			}
			return true
		})
		if rhs == nil || !offsetIsFirst {
			it.why = "area += term / offset := prev not found"
		} else if s, k, err := c.expr(rhs); err != nil || k != num {
			it.why = fmt.Sprint(err)
		} else {
			it.def = "fun prev offset point => " + s
		}
		it.emit(&b)
		boolExpr(c, "gen_orientation_ccw", "Z -> bool", "(area : Z)", findIf(c, fn, "return orb.CCW"), "sign test not found").emit(&b)
	} else {
		missing(item{name: "gen_orientation_term", typ: "Z * Z -> Z * Z -> Z * Z -> Z"}, "Orientation not found")
		missing(item{name: "gen_orientation_ccw", typ: "Z -> bool"}, "Orientation not found")
	}
	// MultiSegment.Ring
	if fn := md["MultiSegment.Ring"]; fn != nil {
		c := &ctx{p: mp, env: map[string]string{"s.Orientation": "orientation", "o": "o", "s.Reversed": "b:reversed",
			"haveOrient": "b:have_orient", "reversed": "b:reversed", "ring.Orientation()": "ring_orientation"}}
		boolExpr(c, "gen_ring_annotated", "Z -> bool", "(orientation : Z)", findIf(c, fn, "haveOrient = true"), "annotation test not found").emit(&b)
		boolExpr(c, "gen_ring_says_reversed", "Z -> Z -> bool -> bool", "(orientation o : Z) (reversed : bool)", findIf(c, fn, "reversed = true"), "reversed test not found").emit(&b)
		boolExpr(c, "gen_ring_reverse", "bool -> bool -> Z -> Z -> bool", "(have_orient reversed : bool) (ring_orientation o : Z)", findIf(c, fn, "ring.Reverse()"), "final test not found").emit(&b)
	} else {
		for _, n := range [][2]string{{"gen_ring_annotated", "Z -> bool"}, {"gen_ring_says_reversed", "Z -> Z -> bool -> bool"}, {"gen_ring_reverse", "bool -> bool -> Z -> Z -> bool"}} {
			missing(item{name: n[0], typ: n[1]}, "Ring not found")
		}
	}
	// polygonContains: the condition under which "inside = !inside" is reached, in polygonContains
	// or in a helper it calls; the coordinates must be bound to a point and to two ring vertices
	// (which of the two is the previous one does not matter: the test is symmetric, crosses_sym)
	it := item{name: "gen_contains_crosses", typ: "Z -> Z -> Z -> Z -> Z -> Z -> bool"}
	gd := gj.FuncDecls()
	if gd["polygonContains"] != nil {
		c := &ctx{p: gj, q: true}
		var host *ast.FuncDecl
		var paths [][]pcond
		for _, fn := range reachable(c, gd, "polygonContains") {
			ps := pathsTo(fn, func(s ast.Stmt) bool { return c.src(s) == "inside = !inside" })
			if len(ps) > 0 {
				host = fn
				paths = append(paths, ps...)
			}
		}
		if len(paths) != 1 {
			it.why = "the statement inside = !inside was not found (or not unique)"
		} else {
			// bindings "a, b := P[0], P[1]" (the point) and "a, b := R[k][0], R[k][1]" (vertices)
			env := map[string]string{}
			var verts [][2]string
			ring, nPoint := "", 0
			bad := ""
			ast.Inspect(host.Body, func(x ast.Node) bool {
				as, ok := x.(*ast.AssignStmt)
				if !ok || as.Tok != token.DEFINE || len(as.Lhs) != 2 || len(as.Rhs) != 2 {
					return true
				}
				i0, ok0 := as.Rhs[0].(*ast.IndexExpr)
				i1, ok1 := as.Rhs[1].(*ast.IndexExpr)
				if !ok0 || !ok1 || c.src(i0.Index) != "0" || c.src(i1.Index) != "1" || c.src(i0.X) != c.src(i1.X) {
					return true
				}
				if inner, ok := i0.X.(*ast.IndexExpr); ok {
					if ring != "" && ring != c.src(inner.X) {
						bad = "vertices of different rings"
					}
					ring = c.src(inner.X)
					verts = append(verts, [2]string{c.src(as.Lhs[0]), c.src(as.Lhs[1])})
					if len(verts) == 2 && c.src(inner.Index) == "" {
						bad = "vertex index"
					}
				} else {
					env[c.src(as.Lhs[0])], env[c.src(as.Lhs[1])] = "x", "y"
					nPoint++
				}
				return true
			})
			switch {
			case bad != "" || nPoint != 1 || len(verts) != 2:
				it.why = "coordinate bindings (one point, two ring vertices) not found " + bad
			default:
				env[verts[0][0]], env[verts[0][1]] = "xi", "yi"
				env[verts[1][0]], env[verts[1][1]] = "xj", "yj"
				c.env = env
				if s, err := c.conj(paths[0]); err != nil {
					it.why = err.Error()
				} else {
					it.def = "fun (x y xi yi xj yj : Z) => " + s
				}
			}
		}
	} else {
		it.why = "polygonContains not found"
	}
	it.emit(&b)
	if err := Emit(filepath.Join(out, "GenMputil.v"), b.Bytes()); err != nil {
		fmt.Fprintln(os.Stderr, err)
		os.Exit(1)
	}
}
