// mputil: translates the decision structure of the multipolygon code into coq/gen/GenMputil.v
// (tie T for C16):
//   - internal/mputil/join.go   Join: the if / else-if chain of the range loop as a table of
//     cases (which end of the chain is compared with which end of the segment, whether the
//     segment is reversed, which end is trimmed, where it is put); the "first half" test of the
//     removal; compact's skip test
//   - internal/mputil/mputil.go MultiSegment.Orientation: the shoelace term and the sign test;
//     MultiSegment.Ring: the three boolean tests
//   - osmgeojson/build_polygon.go polygonContains: the crossing condition (tie rule and the
//     division expression, over exact rationals)
// Each item is emitted as "Some <definition>" when the source has the recognisable shape and as
// None otherwise (a restructured but equivalent source is then tied by the correspondence
// harness only); theories/C16/GenOk.v proves every recognised item equal to the model.
// usage: mputil <repo> <outdir>
package main

import (
	"bytes"
	"fmt"
	"go/ast"
	"go/printer"
	"go/token"
	"os"
	"path/filepath"
	"strings"

	"verif/translator/tr"
)

type ctx struct {
	p   *tr.Pkg
	env map[string]string // printed Go sub-expression -> Coq term
	q   bool              // numbers are exact rationals (inject_Z at the leaves)
}

func (c *ctx) src(n ast.Node) string {
	var b bytes.Buffer
	printer.Fprint(&b, c.p.Fset, n)
	return b.String()
}

type kind int

const (
	num kind = iota
	boolean
)

// expr translates a Go expression over the environment; the second result says whether the
// value is a number or a boolean.
func (c *ctx) expr(e ast.Expr) (string, kind, error) {
	if v, ok := c.env[c.src(e)]; ok {
		if strings.HasPrefix(v, "b:") {
			return v[2:], boolean, nil
		}
		if c.q {
			return "(inject_Z " + v + ")", num, nil
		}
		return v, num, nil
	}
	switch x := e.(type) {
	case *ast.ParenExpr:
		return c.expr(x.X)
	case *ast.BasicLit:
		if x.Kind == token.INT {
			if c.q {
				return "(inject_Z " + x.Value + ")", num, nil
			}
			return x.Value, num, nil
		}
	case *ast.UnaryExpr:
		a, k, err := c.expr(x.X)
		if err != nil {
			return "", 0, err
		}
		if x.Op == token.NOT && k == boolean {
			return "(negb " + a + ")", boolean, nil
		}
	case *ast.BinaryExpr:
		a, ka, err := c.expr(x.X)
		if err != nil {
			return "", 0, err
		}
		b, kb, err := c.expr(x.Y)
		if err != nil {
			return "", 0, err
		}
		if ka != kb {
			return "", 0, fmt.Errorf("%s: operands of different kinds", c.p.Pos(e))
		}
		if ka == boolean {
			switch x.Op {
			case token.LAND:
				return "(andb " + a + " " + b + ")", boolean, nil
			case token.LOR:
				return "(orb " + a + " " + b + ")", boolean, nil
			case token.EQL:
				return "(Bool.eqb " + a + " " + b + ")", boolean, nil
			case token.NEQ:
				return "(negb (Bool.eqb " + a + " " + b + "))", boolean, nil
			}
		} else {
			ops := map[token.Token][2]string{
				token.ADD: {"Z.add", "Qplus"}, token.SUB: {"Z.sub", "Qminus"},
				token.MUL: {"Z.mul", "Qmult"}, token.QUO: {"Z.div", "Qdiv"}}
			cmp := map[token.Token][2]string{
				token.LSS: {"Z.ltb", "Qltb"}, token.GTR: {"Z.gtb", "Qgtb"},
				token.LEQ: {"Z.leb", "Qleb"}, token.GEQ: {"Z.geb", "Qgeb"}, token.EQL: {"Z.eqb", "Qeqb"}}
			i := 0
			if c.q {
				i = 1
			}
			if o, ok := ops[x.Op]; ok {
				return "(" + o[i] + " " + a + " " + b + ")", num, nil
			}
			if o, ok := cmp[x.Op]; ok {
				return "(" + o[i] + " " + a + " " + b + ")", boolean, nil
			}
			if x.Op == token.NEQ {
				return "(negb (" + cmp[token.EQL][i] + " " + a + " " + b + "))", boolean, nil
			}
		}
	}
	return "", 0, fmt.Errorf("%s: unsupported expression %s", c.p.Pos(e), c.src(e))
}

// findIf returns the condition of THE if statement of fn whose body's first statement (printed)
// equals body; nil unless there is exactly one such statement, it has no else branch and it is
// not itself an else branch (anything else means the source was restructured).
func findIf(c *ctx, fn *ast.FuncDecl, body string) ast.Expr {
	var found []*ast.IfStmt
	elses := map[ast.Stmt]bool{}
	ast.Inspect(fn, func(n ast.Node) bool {
		if is, ok := n.(*ast.IfStmt); ok {
			if is.Else != nil {
				elses[is.Else] = true
			}
			if len(is.Body.List) > 0 && c.src(is.Body.List[0]) == body {
				found = append(found, is)
			}
		}
		return true
	})
	if len(found) != 1 || found[0].Else != nil || elses[found[0]] {
		return nil
	}
	return found[0].Cond
}

type item struct{ name, typ, def, why string }

func (it item) emit(b *bytes.Buffer) {
	if it.def == "" {
		fmt.Fprintf(b, "(* %s: not recognised: %s *)\nDefinition %s : option (%s) := None.\n\n", it.name, strings.ReplaceAll(it.why, "*)", "* )"), it.name, it.typ)
		return
	}
	fmt.Fprintf(b, "Definition %s : option (%s) := Some (%s).\n\n", it.name, it.typ, it.def)
}

func boolExpr(c *ctx, name, typ, params string, e ast.Expr, missing string) item {
	it := item{name: name, typ: typ}
	if e == nil {
		it.why = missing
		return it
	}
	s, k, err := c.expr(e)
	if err != nil {
		it.why = err.Error()
		return it
	}
	if k != boolean {
		it.why = "not a boolean expression"
		return it
	}
	it.def = "fun " + params + " => " + s
	return it
}

func coqBool(b bool) string {
	if b {
		return "true"
	}
	return "false"
}

// joinCases reads the if / else-if chain of Join's range loop.
func joinCases(c *ctx, fn *ast.FuncDecl) item {
	it := item{name: "gen_join_cases", typ: "list (bool * bool * bool * bool * bool)"}
	var rng *ast.RangeStmt
	ast.Inspect(fn, func(n ast.Node) bool {
		if r, ok := n.(*ast.RangeStmt); ok && rng == nil {
			rng = r
		}
		return rng == nil
	})
	if rng == nil || len(rng.Body.List) != 1 {
		it.why = "range loop with a single if statement not found"
		return it
	}
	val := c.src(rng.Value) // "segment"
	var rows []string
	var st ast.Stmt = rng.Body.List[0]
	for st != nil {
		is, ok := st.(*ast.IfStmt)
		if !ok {
			it.why = "else branch is not an if statement"
			return it
		}
		cond := c.src(is.Cond)
		var chainLast, segFirst bool
		switch cond {
		case "last.Equal(" + val + ".First())":
			chainLast, segFirst = true, true
		case "last.Equal(" + val + ".Last())":
			chainLast, segFirst = true, false
		case "first.Equal(" + val + ".Last())":
			chainLast, segFirst = false, false
		case "first.Equal(" + val + ".First())":
			chainLast, segFirst = false, true
		default:
			it.why = "unrecognised match condition " + cond
			return it
		}
		var rev, haveTrim, trimFirst, havePut, putEnd, brk, found bool
		for _, s := range is.Body.List {
			switch c.src(s) {
			case val + ".Reverse()":
				if haveTrim || havePut {
					it.why = "Reverse after trimming"
					return it
				}
				rev = true
			case val + ".Line = " + val + ".Line[1:]":
				haveTrim, trimFirst = true, true
			case val + ".Line = " + val + ".Line[:len(" + val + ".Line)-1]":
				haveTrim, trimFirst = true, false
			case "current = append(current, " + val + ")":
				if !haveTrim {
					it.why = "put before trimming"
					return it
				}
				havePut, putEnd = true, true
			case "current = append(MultiSegment{" + val + "}, current...)":
				if !haveTrim {
					it.why = "put before trimming"
					return it
				}
				havePut, putEnd = true, false
			case "foundAt = i":
				found = true
			case "break":
				brk = true
			default:
				it.why = "unrecognised statement " + c.src(s)
				return it
			}
		}
		if !haveTrim || !havePut || !found || !brk {
			it.why = "incomplete case " + cond
			return it
		}
		rows = append(rows, fmt.Sprintf("(%s, %s, %s, %s, %s)", coqBool(chainLast), coqBool(segFirst), coqBool(rev), coqBool(trimFirst), coqBool(putEnd)))
		st = is.Else
	}
	it.def = "[" + strings.Join(rows, "; ") + "]"
	return it
}

func main() {
	repo, out := os.Args[1], os.Args[2]
	if err := os.Chdir(repo); err != nil {
		fmt.Fprintln(os.Stderr, err)
		os.Exit(1)
	}
	mp, err := tr.Load(filepath.Join(repo, "internal", "mputil"), "github.com/paulmach/osm/internal/mputil")
	if err != nil {
		fmt.Fprintln(os.Stderr, "translator mputil:", err)
		os.Exit(1)
	}
	gj, err := tr.Load(filepath.Join(repo, "osmgeojson"), "github.com/paulmach/osm/osmgeojson")
	if err != nil {
		fmt.Fprintln(os.Stderr, "translator mputil:", err)
		os.Exit(1)
	}
	var b bytes.Buffer
	b.WriteString("(* GENERATED by /verif/translator (cmd/mputil) from /repo — do not edit. *)\n" +
		"From Coq Require Import ZArith List Bool QArith.\nFrom Verif Require Import Geo.GenSupport.\nImport ListNotations.\nOpen Scope Z_scope.\n\n")
	missing := func(it item, why string) {
		it.why = why
		it.emit(&b)
	}
	md := mp.FuncDecls()

	// Join
	if fn := md["Join"]; fn != nil {
		c := &ctx{p: mp}
		joinCases(c, fn).emit(&b)
		c.env = map[string]string{"foundAt": "found_at", "len(segments)": "len"}
		var cond ast.Expr
		ast.Inspect(fn, func(n ast.Node) bool {
			if is, ok := n.(*ast.IfStmt); ok && cond == nil && strings.HasPrefix(c.src(is.Cond), "foundAt <") {
				cond = is.Cond
			}
			return cond == nil
		})
		boolExpr(c, "gen_join_first_half", "Z -> Z -> bool", "(found_at len : Z)", cond, "test of the removal not found").emit(&b)
	} else {
		missing(item{name: "gen_join_cases", typ: "list (bool * bool * bool * bool * bool)"}, "Join not found")
		missing(item{name: "gen_join_first_half", typ: "Z -> Z -> bool"}, "Join not found")
	}
	// compact
	if fn := md["compact"]; fn != nil {
		c := &ctx{p: mp, env: map[string]string{"len(s.Line)": "len"}}
		boolExpr(c, "gen_compact_skip", "Z -> bool", "(len : Z)", findIf(c, fn, "continue"), "skip test not found").emit(&b)
	} else {
		missing(item{name: "gen_compact_skip", typ: "Z -> bool"}, "compact not found")
	}
	// MultiSegment.Orientation
	if fn := md["MultiSegment.Orientation"]; fn != nil {
		c := &ctx{p: mp, env: map[string]string{
			"prev[0]": "(fst prev)", "prev[1]": "(snd prev)", "offset[0]": "(fst offset)", "offset[1]": "(snd offset)",
			"point[0]": "(fst point)", "point[1]": "(snd point)", "area": "area"}}
		it := item{name: "gen_orientation_term", typ: "Z * Z -> Z * Z -> Z * Z -> Z"}
		var rhs ast.Expr
		offsetIsFirst := false
		ast.Inspect(fn, func(n ast.Node) bool {
			if as, ok := n.(*ast.AssignStmt); ok {
				if as.Tok == token.ADD_ASSIGN && c.src(as.Lhs[0]) == "area" {
					rhs = as.Rhs[0]
				}
				if c.src(as) == "offset := prev" {
					offsetIsFirst = true
				}
			}
			return true
		})
		if rhs == nil || !offsetIsFirst {
			it.why = "area += term / offset := prev not found"
		} else if s, k, err := c.expr(rhs); err != nil || k != num {
			it.why = fmt.Sprint(err)
		} else {
			it.def = "fun prev offset point => " + s
		}
		it.emit(&b)
		boolExpr(c, "gen_orientation_ccw", "Z -> bool", "(area : Z)", findIf(c, fn, "return orb.CCW"), "sign test not found").emit(&b)
	} else {
		missing(item{name: "gen_orientation_term", typ: "Z * Z -> Z * Z -> Z * Z -> Z"}, "Orientation not found")
		missing(item{name: "gen_orientation_ccw", typ: "Z -> bool"}, "Orientation not found")
	}
	// MultiSegment.Ring
	if fn := md["MultiSegment.Ring"]; fn != nil {
		c := &ctx{p: mp, env: map[string]string{"s.Orientation": "orientation", "o": "o", "s.Reversed": "b:reversed",
			"haveOrient": "b:have_orient", "reversed": "b:reversed", "ring.Orientation()": "ring_orientation"}}
		boolExpr(c, "gen_ring_annotated", "Z -> bool", "(orientation : Z)", findIf(c, fn, "haveOrient = true"), "annotation test not found").emit(&b)
		boolExpr(c, "gen_ring_says_reversed", "Z -> Z -> bool -> bool", "(orientation o : Z) (reversed : bool)", findIf(c, fn, "reversed = true"), "reversed test not found").emit(&b)
		boolExpr(c, "gen_ring_reverse", "bool -> bool -> Z -> Z -> bool", "(have_orient reversed : bool) (ring_orientation o : Z)", findIf(c, fn, "ring.Reverse()"), "final test not found").emit(&b)
	} else {
		for _, n := range [][2]string{{"gen_ring_annotated", "Z -> bool"}, {"gen_ring_says_reversed", "Z -> Z -> bool -> bool"}, {"gen_ring_reverse", "bool -> bool -> Z -> Z -> bool"}} {
			missing(item{name: n[0], typ: n[1]}, "Ring not found")
		}
	}
	// polygonContains: the coordinates must be bound as in the model
	it := item{name: "gen_contains_crosses", typ: "Z -> Z -> Z -> Z -> Z -> Z -> bool"}
	if fn := gj.FuncDecls()["polygonContains"]; fn != nil {
		c := &ctx{p: gj, q: true, env: map[string]string{"x": "x", "y": "y", "xi": "xi", "yi": "yi", "xj": "xj", "yj": "yj"}}
		binds := map[string]bool{}
		ast.Inspect(fn, func(n ast.Node) bool {
			if as, ok := n.(*ast.AssignStmt); ok && as.Tok == token.DEFINE {
				binds[c.src(as)] = true
			}
			return true
		})
		cond := findIf(c, fn, "inside = !inside")
		switch {
		case !binds["x, y := p[0], p[1]"] || !binds["xi, yi := outer[i][0], outer[i][1]"] || !binds["xj, yj := outer[j][0], outer[j][1]"]:
			it.why = "coordinate bindings x,y / xi,yi / xj,yj not found"
		case cond == nil:
			it.why = "crossing test not found"
		default:
			if s, k, err := c.expr(cond); err != nil || k != boolean {
				it.why = fmt.Sprint(err)
			} else {
				it.def = "fun (x y xi yi xj yj : Z) => " + s
			}
		}
	} else {
		it.why = "polygonContains not found"
	}
	it.emit(&b)
	if err := tr.Emit(filepath.Join(out, "GenMputil.v"), b.Bytes()); err != nil {
		fmt.Fprintln(os.Stderr, err)
		os.Exit(1)
	}
}
