// load.go: a private copy of the few loader helpers of verif/translator/tr that this translator
// needs (Load, Emit, Pos, FuncDecls), so that it builds independently of the shared package.
package main

import (
	"bytes"
	"fmt"
	"go/ast"
	"go/importer"
	"go/parser"
	"go/token"
	"go/types"
	"os"
	"path/filepath"
	"sort"
	"strings"
)

// Pkg is a parsed and type-checked package of /repo.
type Pkg struct {
	Fset  *token.FileSet
	Files []*ast.File
	Info  *types.Info
	Types *types.Package
}

// Load parses and type-checks the non-test files of dir (build tag verif files excluded).
// Must be run with the working directory inside the module (the source importer resolves
// imports through go/build).
func Load(dir, importPath string) (*Pkg, error) {
	fset := token.NewFileSet()
	pkgs, err := parser.ParseDir(fset, dir, func(fi os.FileInfo) bool {
		n := fi.Name()
		return !strings.HasSuffix(n, "_test.go") && !strings.HasPrefix(n, "verif_")
	}, parser.ParseComments)
	if err != nil {
		return nil, err
	}
	var names []string
	for n := range pkgs {
		names = append(names, n)
	}
	sort.Strings(names)
	var p *ast.Package
	for _, n := range names {
		if !strings.HasSuffix(n, "_test") {
			p = pkgs[n]
			break
		}
	}
	if p == nil {
		return nil, fmt.Errorf("no package in %s", dir)
	}
	var fnames []string
	for n := range p.Files {
		fnames = append(fnames, n)
	}
	sort.Strings(fnames)
	var files []*ast.File
	for _, n := range fnames {
		files = append(files, p.Files[n])
	}
	var errs []string
	conf := types.Config{Importer: importer.ForCompiler(fset, "source", nil), Error: func(err error) { errs = append(errs, err.Error()) }}
	info := &types.Info{Types: map[ast.Expr]types.TypeAndValue{}, Defs: map[*ast.Ident]types.Object{},
		Uses: map[*ast.Ident]types.Object{}, Selections: map[*ast.SelectorExpr]*types.Selection{}}
	tp, _ := conf.Check(importPath, fset, files, info)
	if len(errs) > 0 {
		return nil, fmt.Errorf("type errors: %s", strings.Join(errs, "; "))
	}
	return &Pkg{Fset: fset, Files: files, Info: info, Types: tp}, nil
}

// Emit writes content to path only when it differs (keeps make incremental).
func Emit(path string, content []byte) error {
	old, err := os.ReadFile(path)
	if err == nil && bytes.Equal(old, content) {
		return nil
	}
	if err := os.MkdirAll(filepath.Dir(path), 0o755); err != nil {
		return err
	}
	return os.WriteFile(path, content, 0o644)
}

// Pos renders a position relative to /repo.
func (p *Pkg) Pos(n ast.Node) string {
	ps := p.Fset.Position(n.Pos())
	return fmt.Sprintf("%s:%d", filepath.Base(ps.Filename), ps.Line)
}

// FuncDecls returns all function declarations keyed "Recv.Name" (Recv without '*') or "Name".
func (p *Pkg) FuncDecls() map[string]*ast.FuncDecl {
	m := map[string]*ast.FuncDecl{}
	for _, f := range p.Files {
		for _, d := range f.Decls {
			fd, ok := d.(*ast.FuncDecl)
			if !ok {
				continue
			}
			key := fd.Name.Name
			if fd.Recv != nil && len(fd.Recv.List) == 1 {
				key = RecvName(fd.Recv.List[0].Type) + "." + key
			}
			m[key] = fd
		}
	}
	return m
}

func RecvName(e ast.Expr) string {
	switch t := e.(type) {
	case *ast.StarExpr:
		return RecvName(t.X)
	case *ast.Ident:
		return t.Name
	}
	return "?"
}
