// convertconds: translates the branch conditions of osmgeojson (convert.go, build_polygon.go,
// options.go) into coq/gen/GenConvert.v as data of the expression type C17/CondAst.v [cx]:
//
//   conds_<func> : list cx                      every if-condition of the function, source order
//   meta_table   : list (string * string * cx)  addMetaProperties: (element type of the type-switch
//                                               case, meta key assigned in the if body, condition)
//   option_sets  : list (string * string * cx)  options.go: (option constructor, context field
//                                               assigned by the returned closure, assigned value)
//
// Boolean structure (!, &&, ||, ==, !=, <, <=, >, >=), constants (folded with go/types: osm.TypeWay
// is "way", orb.CW is -1) and nil are translated; every other subexpression is an opaque leaf
// named by its source text in which identifiers of struct (pointer) type are replaced by the
// type's name (n.Lon -> Node.Lon, ctx.noID -> context.noID), so renaming such a variable does
// not change the output.  "_, ok := m[k]; ok" becomes the leaf has(m[k]).
// C17/GenOk.v shows that the conditions the model hard-codes occur in these lists and evaluate,
// under the stated reading of the leaves, to the model's booleans.
//
// usage: convertconds <repo> <outdir>
package main

import (
	"bytes"
	"fmt"
	"go/ast"
	"go/constant"
	"go/printer"
	"go/token"
	"go/types"
	"os"
	"path/filepath"
	"strings"

	"verif/translator/tr"
)

func fail(f string, a ...interface{}) {
	fmt.Fprintf(os.Stderr, "translator convertconds: "+f+"\n", a...)
	os.Exit(1)
}

type ctr struct {
	p    *tr.Pkg
	subs map[types.Object]string // identifiers bound by "_, ok := m[k]" -> leaf text
}

func structName(t types.Type) string {
	for {
		if pt, ok := t.(*types.Pointer); ok {
			t = pt.Elem()
			continue
		}
		break
	}
	if n, ok := t.(*types.Named); ok {
		if _, isStruct := n.Underlying().(*types.Struct); isStruct {
			return n.Obj().Name()
		}
	}
	return ""
}

// text renders an opaque subexpression
func (c *ctr) text(e ast.Expr) string {
	switch x := e.(type) {
	case *ast.ParenExpr:
		return "(" + c.text(x.X) + ")"
	case *ast.Ident:
		obj := c.p.Info.Uses[x]
		if obj == nil {
			obj = c.p.Info.Defs[x]
		}
		if s, ok := c.subs[obj]; ok {
			return s
		}
		if v, ok := obj.(*types.Var); ok && !v.IsField() {
			if n := structName(v.Type()); n != "" {
				return n
			}
		}
		return x.Name
	case *ast.SelectorExpr:
		if id, ok := x.X.(*ast.Ident); ok {
			if _, isPkg := c.p.Info.Uses[id].(*types.PkgName); isPkg {
				return id.Name + "." + x.Sel.Name
			}
		}
		return c.text(x.X) + "." + x.Sel.Name
	case *ast.CallExpr:
		var args []string
		for _, a := range x.Args {
			args = append(args, c.text(a))
		}
		return c.text(x.Fun) + "(" + strings.Join(args, ", ") + ")"
	case *ast.IndexExpr:
		return c.text(x.X) + "[" + c.text(x.Index) + "]"
	case *ast.StarExpr:
		return "*" + c.text(x.X)
	case *ast.UnaryExpr:
		return x.Op.String() + c.text(x.X)
	case *ast.BinaryExpr:
		return c.text(x.X) + x.Op.String() + c.text(x.Y)
	case *ast.BasicLit:
		return x.Value
	}
	var b bytes.Buffer
	printer.Fprint(&b, c.p.Fset, e)
	return strings.Join(strings.Fields(b.String()), " ")
}

func leaf(s string) string { return "CLeaf " + tr.CoqString(s) }

// operand: a constant, nil, or a leaf / nested boolean expression
func (c *ctr) cx(e ast.Expr) string {
	if tv, ok := c.p.Info.Types[e]; ok && tv.Value != nil {
		switch tv.Value.Kind() {
		case constant.Bool:
			if constant.BoolVal(tv.Value) {
				return "CTrue"
			}
			return "CFalse"
		case constant.String:
			return "CStr " + tr.CoqString(constant.StringVal(tv.Value))
		case constant.Int:
			return "CInt " + tr.CoqZ(tv.Value)
		case constant.Float:
			if i := constant.ToInt(tv.Value); i.Kind() == constant.Int {
				return "CInt " + tr.CoqZ(i)
			}
		}
	}
	switch x := e.(type) {
	case *ast.ParenExpr:
		return c.cx(x.X)
	case *ast.Ident:
		if x.Name == "nil" {
			if _, isNil := c.p.Info.Uses[x].(*types.Nil); isNil {
				return "CNil"
			}
		}
	case *ast.UnaryExpr:
		if x.Op == token.NOT {
			return "CNot (" + c.cx(x.X) + ")"
		}
	case *ast.BinaryExpr:
		op := map[token.Token]string{token.LAND: "CAnd", token.LOR: "COr", token.EQL: "CEq", token.NEQ: "CNe",
			token.LSS: "CLt", token.LEQ: "CLe", token.GTR: "CGt", token.GEQ: "CGe"}[x.Op]
		if op != "" {
			return op + " (" + c.cx(x.X) + ") (" + c.cx(x.Y) + ")"
		}
	}
	return leaf(c.text(e))
}

// bindInit records "_, ok := m[k]" of an if statement's init clause
func (c *ctr) bindInit(s ast.Stmt) {
	as, ok := s.(*ast.AssignStmt)
	if !ok || len(as.Lhs) != 2 || len(as.Rhs) != 1 {
		return
	}
	ix, ok := as.Rhs[0].(*ast.IndexExpr)
	if !ok {
		return
	}
	if id, ok := as.Lhs[1].(*ast.Ident); ok && id.Name != "_" {
		if obj := c.p.Info.Defs[id]; obj != nil {
			c.subs[obj] = "has(" + c.text(ix) + ")"
		}
	}
}

func coqList(items []string, indent string) string {
	if len(items) == 0 {
		return "[]"
	}
	return "[\n" + indent + strings.Join(items, ";\n"+indent) + "\n  ]"
}

func main() {
	repo, out := os.Args[1], os.Args[2]
	if err := os.Chdir(repo); err != nil {
		fail("%v", err)
	}
	p, err := tr.Load(filepath.Join(repo, "osmgeojson"), "github.com/paulmach/osm/osmgeojson")
	if err != nil {
		fail("%v", err)
	}
	c := &ctr{p: p, subs: map[types.Object]string{}}
	var b bytes.Buffer
	b.WriteString("(* GENERATED by /verif/translator from /repo — do not edit. generator: convertconds (osmgeojson/*.go) *)\n")
	b.WriteString("From Coq Require Import ZArith String List.\nFrom Verif Require Import C17.CondAst.\nImport ListNotations.\nOpen Scope Z_scope.\nOpen Scope string_scope.\n\n")

	decls := p.FuncDecls()
	keys := []string{"Convert", "context.getNode", "context.nodeToFeature", "context.wayToLineString", "context.wayToFeature",
		"context.buildRouteLineString", "context.addMetaProperties", "hasInterestingTags", "toRing",
		"context.buildPolygon", "addToMultiPolygon", "polygonContains", "reorient"}
	var metaRows, optRows []string
	for _, k := range keys {
		fd := decls[k]
		name := strings.ReplaceAll(k, ".", "_")
		if fd == nil || fd.Body == nil {
			fmt.Fprintf(&b, "(* MISSING %s *)\n", k)
			continue
		}
		var conds []string
		var caseType string
		ast.Inspect(fd.Body, func(n ast.Node) bool {
			switch x := n.(type) {
			case *ast.CaseClause:
				// type switch of addMetaProperties: remember the element type of the clause
				caseType = ""
				if len(x.List) == 1 {
					if tv, ok := p.Info.Types[x.List[0]]; ok && tv.IsType() {
						caseType = structName(tv.Type)
					}
				}
			case *ast.IfStmt:
				if x.Init != nil {
					c.bindInit(x.Init)
				}
				cond := c.cx(x.Cond)
				conds = append(conds, cond)
				if k == "context.addMetaProperties" && caseType != "" {
					// if cond { meta["key"] = ... }
					for _, st := range x.Body.List {
						if as, ok := st.(*ast.AssignStmt); ok && len(as.Lhs) == 1 {
							if ix, ok := as.Lhs[0].(*ast.IndexExpr); ok {
								if tv, ok := p.Info.Types[ix.Index]; ok && tv.Value != nil && tv.Value.Kind() == constant.String {
									metaRows = append(metaRows, fmt.Sprintf("(%s, %s, %s)", tr.CoqString(caseType),
										tr.CoqString(constant.StringVal(tv.Value)), cond))
								}
							}
						}
					}
				}
			}
			return true
		})
		fmt.Fprintf(&b, "(* %s (%s) *)\nDefinition conds_%s : list cx := %s.\n\n", k, p.Pos(fd), name, coqList(conds, "    "))
	}
	// option constructors: func X(yes bool) Option { return func(ctx *context) error { ctx.f = yes; return nil } }
	for _, f := range p.Files {
		for _, d := range f.Decls {
			fd, ok := d.(*ast.FuncDecl)
			if !ok || fd.Recv != nil || fd.Body == nil || fd.Type.Results == nil || len(fd.Type.Results.List) != 1 {
				continue
			}
			if id, ok := fd.Type.Results.List[0].Type.(*ast.Ident); !ok || id.Name != "Option" {
				continue
			}
			ast.Inspect(fd.Body, func(n ast.Node) bool {
				if as, ok := n.(*ast.AssignStmt); ok && len(as.Lhs) == 1 && len(as.Rhs) == 1 && as.Tok == token.ASSIGN {
					optRows = append(optRows, fmt.Sprintf("(%s, %s, %s)", tr.CoqString(fd.Name.Name),
						tr.CoqString(c.text(as.Lhs[0])), c.cx(as.Rhs[0])))
				}
				return true
			})
		}
	}
	fmt.Fprintf(&b, "(* addMetaProperties: (case type, meta key, presence condition) *)\nDefinition meta_table : list (string * string * cx) := %s.\n\n", coqList(metaRows, "    "))
	fmt.Fprintf(&b, "(* options.go: (option, context field, assigned value) *)\nDefinition option_sets : list (string * string * cx) := %s.\n", coqList(optRows, "    "))
	if err := tr.Emit(filepath.Join(out, "GenConvert.v"), b.Bytes()); err != nil {
		fail("%v", err)
	}
}
