package main

// Further normal forms applied after inlining (wave 6).
//
// guardToSwitch: a loop body that begins with a negative field-number guard
//
//	for m.Next() { if m.FieldNumber() != K { <skip>; continue }; <rest> }
//
// is the one-armed dispatch
//
//	for m.Next() { switch m.FieldNumber() { case K: <rest>; default: <skip> } }
//
// and is rewritten into it, so that both shapes give the same dispatch table.

import (
	"go/ast"
	"go/token"
)

func guardToSwitch(file *ast.File) {
	ast.Inspect(file, func(n ast.Node) bool {
		fs, ok := n.(*ast.ForStmt)
		if !ok || fs.Body == nil || len(fs.Body.List) == 0 {
			return true
		}
		is, ok := fs.Body.List[0].(*ast.IfStmt)
		if !ok || is.Init != nil || is.Else != nil || len(is.Body.List) == 0 {
			return true
		}
		be, ok := is.Cond.(*ast.BinaryExpr)
		if !ok || be.Op != token.NEQ || fieldNumberRecv(be.X) == "" {
			return true
		}
		lit, ok := be.Y.(*ast.BasicLit)
		if !ok || lit.Kind != token.INT {
			return true
		}
		last, ok := is.Body.List[len(is.Body.List)-1].(*ast.BranchStmt)
		if !ok || last.Tok != token.CONTINUE || last.Label != nil {
			return true
		}
		sw := &ast.SwitchStmt{Tag: be.X, Body: &ast.BlockStmt{List: []ast.Stmt{
			&ast.CaseClause{List: []ast.Expr{lit}, Body: fs.Body.List[1:]},
			&ast.CaseClause{Body: is.Body.List[:len(is.Body.List)-1]},
		}}}
		fs.Body.List = []ast.Stmt{sw}
		return true
	})
}
