package main

// Further normal forms applied after inlining (wave 6).
//
// guardToSwitch: a loop body that begins with a negative field-number guard
//
//	for m.Next() { if m.FieldNumber() != K { <skip>; continue }; <rest> }
//
// is the one-armed dispatch
//
//	for m.Next() { switch m.FieldNumber() { case K: <rest>; default: <skip> } }
//
// and is rewritten into it, so that both shapes give the same dispatch table.

import (
	"go/ast"
	"go/token"
)

func guardToSwitch(file *ast.File) {
	ast.Inspect(file, func(n ast.Node) bool {
		fs, ok := n.(*ast.ForStmt)
		if !ok || fs.Body == nil || len(fs.Body.List) == 0 {
			return true
		}
		is, ok := fs.Body.List[0].(*ast.IfStmt)
		if !ok || is.Init != nil || is.Else != nil || len(is.Body.List) == 0 {
			return true
		}
		be, ok := is.Cond.(*ast.BinaryExpr)
		if !ok || be.Op != token.NEQ || fieldNumberRecv(be.X) == "" {
			return true
		}
		lit, ok := be.Y.(*ast.BasicLit)
		if !ok || lit.Kind != token.INT {
			return true
		}
		last, ok := is.Body.List[len(is.Body.List)-1].(*ast.BranchStmt)
		if !ok || last.Tok != token.CONTINUE || last.Label != nil {
			return true
		}
		sw := &ast.SwitchStmt{Tag: be.X, Body: &ast.BlockStmt{List: []ast.Stmt{
			&ast.CaseClause{List: []ast.Expr{lit}, Body: fs.Body.List[1:]},
			&ast.CaseClause{Body: is.Body.List[:len(is.Body.List)-1]},
		}}}
		fs.Body.List = []ast.Stmt{sw}
		return true
	})
}

// projectLocals (wave 7): locals that only NAME something are replaced by what they name, per function:
//
//	x := T{f: e, g: e2}      (assigned exactly once, address never taken)   x.f -> e, x.g -> e2
//	x, y := r.a, r.b.c       (assigned exactly once; right-hand sides are pure selector chains)   x -> r.a
//
// and the assignment is dropped when nothing else uses the local (so a value type that bundles block
// parameters, or a helper that copies receiver fields into locals first, leaves no trace).  The analyses
// that follow are flow-insensitive inside a function, and the right-hand sides have no side effects
// (selector chains; composite literals of getters / conversions as in the preambles of the scan functions).
func projectLocals(fd *ast.FuncDecl) {
	if fd.Body == nil {
		return
	}
	for round := 0; round < 4; round++ {
		assigns := map[string]int{}
		bad := map[string]bool{}
		note := func(e ast.Expr) {
			if id, ok := e.(*ast.Ident); ok {
				assigns[id.Name]++
			}
		}
		ast.Inspect(fd.Body, func(n ast.Node) bool {
			switch x := n.(type) {
			case *ast.AssignStmt:
				for _, l := range x.Lhs {
					note(l)
				}
			case *ast.IncDecStmt:
				note(x.X)
			case *ast.RangeStmt:
				if x.Key != nil {
					note(x.Key)
				}
				if x.Value != nil {
					note(x.Value)
				}
			case *ast.ValueSpec:
				for _, nm := range x.Names {
					assigns[nm.Name] += 2 // var x T; later assignments: not a single definition
				}
			case *ast.UnaryExpr:
				if x.Op == token.AND {
					if id, ok := x.X.(*ast.Ident); ok {
						bad[id.Name] = true
					}
				}
			}
			return true
		})
		if fd.Type.Params != nil {
			for _, p := range fd.Type.Params.List {
				for _, nm := range p.Names {
					bad[nm.Name] = true
				}
			}
		}
		if fd.Recv != nil {
			for _, p := range fd.Recv.List {
				for _, nm := range p.Names {
					bad[nm.Name] = true
				}
			}
		}
		pureChain := func(e ast.Expr) bool {
			for {
				switch x := e.(type) {
				case *ast.SelectorExpr:
					e = x.X
				case *ast.Ident:
					return x.Name != "nil" && x.Name != "true" && x.Name != "false"
				default:
					return false
				}
			}
		}
		fields := map[string]map[string]ast.Expr{} // x -> field -> expr
		alias := map[string]ast.Expr{}
		defStmt := map[string]*ast.AssignStmt{}
		ast.Inspect(fd.Body, func(n ast.Node) bool {
			as, ok := n.(*ast.AssignStmt)
			if !ok || len(as.Lhs) != len(as.Rhs) {
				return true
			}
			for i, l := range as.Lhs {
				id, ok := l.(*ast.Ident)
				if !ok || id.Name == "_" || assigns[id.Name] != 1 || bad[id.Name] {
					continue
				}
				r := as.Rhs[i]
				if u, ok := r.(*ast.UnaryExpr); ok && u.Op == token.AND {
					continue
				}
				if cl, ok := unparen(r).(*ast.CompositeLit); ok && len(cl.Elts) > 0 {
					m := map[string]ast.Expr{}
					okAll := true
					for _, el := range cl.Elts {
						kv, ok := el.(*ast.KeyValueExpr)
						if !ok {
							okAll = false
							break
						}
						k, ok := kv.Key.(*ast.Ident)
						if !ok {
							okAll = false
							break
						}
						m[k.Name] = kv.Value
					}
					if okAll {
						fields[id.Name] = m
						defStmt[id.Name] = as
					}
				} else if pureChain(r) && len(as.Lhs) >= 1 {
					if _, isId := r.(*ast.Ident); !isId { // x := y renames nothing worth chasing
						alias[id.Name] = r
						defStmt[id.Name] = as
					}
				}
			}
			return true
		})
		if len(fields) == 0 && len(alias) == 0 {
			return
		}
		// uses
		mapExprs(fd.Body, func(e ast.Expr) ast.Expr {
			switch x := e.(type) {
			case *ast.SelectorExpr:
				if id, ok := x.X.(*ast.Ident); ok {
					if m, ok := fields[id.Name]; ok {
						if v, ok := m[x.Sel.Name]; ok {
							return &ast.ParenExpr{X: cloneExpr(v)}
						}
					}
				}
			}
			return e
		})
		// alias uses: every identifier occurrence except on the left of its own definition
		skip := map[*ast.Ident]bool{}
		for name, as := range defStmt {
			for _, l := range as.Lhs {
				if id, ok := l.(*ast.Ident); ok && id.Name == name {
					skip[id] = true
				}
			}
		}
		mapExprs(fd.Body, func(e ast.Expr) ast.Expr {
			if id, ok := e.(*ast.Ident); ok && !skip[id] {
				if r, ok := alias[id.Name]; ok {
					return cloneExpr(r)
				}
			}
			return e
		})
		// drop definitions whose local is no longer used
		used := map[string]int{}
		ast.Inspect(fd.Body, func(n ast.Node) bool {
			if id, ok := n.(*ast.Ident); ok && !skip[id] {
				used[id.Name]++
			}
			return true
		})
		dead := func(s ast.Stmt) ast.Stmt { // nil = delete
			as, ok := s.(*ast.AssignStmt)
			if !ok {
				return s
			}
			var nl, nr []ast.Expr
			changed := false
			for i, l := range as.Lhs {
				if id, ok := l.(*ast.Ident); ok && defStmt[id.Name] == as && used[id.Name] == 0 && len(as.Lhs) == len(as.Rhs) {
					changed = true
					continue
				}
				nl = append(nl, l)
				if i < len(as.Rhs) {
					nr = append(nr, as.Rhs[i])
				}
			}
			if !changed {
				return s
			}
			if len(nl) == 0 {
				return nil
			}
			as.Lhs, as.Rhs = nl, nr
			return as
		}
		var prune func(list []ast.Stmt) []ast.Stmt
		prune = func(list []ast.Stmt) []ast.Stmt {
			var out []ast.Stmt
			for _, s := range list {
				if s2 := dead(s); s2 != nil {
					out = append(out, s2)
				}
			}
			return out
		}
		ast.Inspect(fd.Body, func(n ast.Node) bool {
			switch x := n.(type) {
			case *ast.BlockStmt:
				x.List = prune(x.List)
			case *ast.CaseClause:
				x.Body = prune(x.Body)
			}
			return true
		})
		// simplify the parentheses / projections introduced
		mapExprs(fd.Body, func(e ast.Expr) ast.Expr {
			if p, ok := e.(*ast.ParenExpr); ok {
				switch p.X.(type) {
				case *ast.Ident, *ast.SelectorExpr, *ast.CallExpr, *ast.BasicLit:
					return p.X
				}
			}
			return simplify(e)
		})
	}
}
