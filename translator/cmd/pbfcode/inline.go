package main

// Normalisation pass: calls to small unexported plain functions of the file (helpers) and to function
// literals passed to them are INLINED into their call sites before the dispatch / accumulation / formula
// analysis runs, so that factoring code out into a helper (a shared scanInfo with a struct of pointers,
// a scanWayColumn with a setter closure, toTime / toDegrees) or inlining a helper back leaves the emitted
// tables unchanged.  Parameters are substituted by the argument expressions, `(&x).f`, `*(&x)` and
// `T{f: e}.f` are simplified, locals declared in the helper are renamed apart, and `return e...` becomes an
// assignment to the call's left-hand sides (control flow after a return is not needed by the analyses,
// which are flow-insensitive inside a case clause).

import (
	"fmt"
	"go/ast"
	"go/token"
	"reflect"
	"sort"
	"unicode"
)

var (
	objType   = reflect.TypeOf((*ast.Object)(nil))
	scopeType = reflect.TypeOf((*ast.Scope)(nil))
)

func cloneValue(v reflect.Value) reflect.Value {
	switch v.Kind() {
	case reflect.Ptr:
		if v.IsNil() || v.Type() == objType || v.Type() == scopeType {
			return v
		}
		n := reflect.New(v.Type().Elem())
		n.Elem().Set(cloneValue(v.Elem()))
		return n
	case reflect.Interface:
		if v.IsNil() {
			return v
		}
		n := reflect.New(v.Type()).Elem()
		n.Set(cloneValue(v.Elem()))
		return n
	case reflect.Struct:
		n := reflect.New(v.Type()).Elem()
		for i := 0; i < v.NumField(); i++ {
			if n.Field(i).CanSet() {
				n.Field(i).Set(cloneValue(v.Field(i)))
			}
		}
		return n
	case reflect.Slice:
		if v.IsNil() {
			return v
		}
		n := reflect.MakeSlice(v.Type(), v.Len(), v.Len())
		for i := 0; i < v.Len(); i++ {
			n.Index(i).Set(cloneValue(v.Index(i)))
		}
		return n
	}
	return v
}

func cloneNode(n ast.Node) ast.Node { return cloneValue(reflect.ValueOf(n)).Interface().(ast.Node) }
func cloneExpr(e ast.Expr) ast.Expr { return cloneNode(e).(ast.Expr) }

var exprIface = reflect.TypeOf((*ast.Expr)(nil)).Elem()

// mapExprs rewrites every expression below n bottom-up (in place).
func mapExprs(n ast.Node, f func(ast.Expr) ast.Expr) {
	var walk func(v reflect.Value)
	walk = func(v reflect.Value) {
		switch v.Kind() {
		case reflect.Ptr:
			if v.IsNil() || v.Type() == objType || v.Type() == scopeType {
				return
			}
			walk(v.Elem())
		case reflect.Interface:
			if v.IsNil() {
				return
			}
			walk(v.Elem())
			if v.Type() == exprIface && v.CanSet() {
				v.Set(reflect.ValueOf(f(v.Interface().(ast.Expr))))
			}
		case reflect.Struct:
			for i := 0; i < v.NumField(); i++ {
				walk(v.Field(i))
			}
		case reflect.Slice:
			for i := 0; i < v.Len(); i++ {
				walk(v.Index(i))
			}
		}
	}
	walk(reflect.ValueOf(n))
}

func unparen(e ast.Expr) ast.Expr {
	for {
		p, ok := e.(*ast.ParenExpr)
		if !ok {
			return e
		}
		e = p.X
	}
}

// simplify: (&x).f -> x.f ; *(&x) -> x ; T{f: e}.f -> e
func simplify(e ast.Expr) ast.Expr {
	switch x := e.(type) {
	case *ast.SelectorExpr:
		switch y := unparen(x.X).(type) {
		case *ast.UnaryExpr:
			if y.Op == token.AND {
				return &ast.SelectorExpr{X: y.X, Sel: x.Sel}
			}
		case *ast.CompositeLit:
			for _, el := range y.Elts {
				if kv, ok := el.(*ast.KeyValueExpr); ok {
					if k, ok := kv.Key.(*ast.Ident); ok && k.Name == x.Sel.Name {
						return kv.Value
					}
				}
			}
		}
	case *ast.StarExpr:
		if y, ok := unparen(x.X).(*ast.UnaryExpr); ok && y.Op == token.AND {
			return y.X
		}
	}
	return e
}

// structural: the scan functions that give the dispatch tables their names; everything else that is
// unexported (plain function or method) is a helper and is inlined
var structural = map[string]bool{"scanPrimitiveBlock": true, "scanPrimitiveGroup": true, "scanDenseNodes": true,
	"scanWays": true, "scanRelations": true}

type inliner struct {
	helpers map[string]*ast.FuncDecl
	done    map[string]bool
	busy    map[string]bool
	counter int
}

func isHelperName(n string) bool { return n != "" && unicode.IsLower(rune(n[0])) }

// declared names inside a body (:=, var, range, function literal parameters)
func declaredNames(body ast.Node) map[string]bool {
	d := map[string]bool{}
	ast.Inspect(body, func(n ast.Node) bool {
		switch x := n.(type) {
		case *ast.AssignStmt:
			if x.Tok == token.DEFINE {
				for _, l := range x.Lhs {
					if id, ok := l.(*ast.Ident); ok && id.Name != "_" {
						d[id.Name] = true
					}
				}
			}
		case *ast.ValueSpec:
			for _, id := range x.Names {
				d[id.Name] = true
			}
		case *ast.RangeStmt:
			if x.Tok == token.DEFINE {
				for _, e := range []ast.Expr{x.Key, x.Value} {
					if id, ok := e.(*ast.Ident); ok && id.Name != "_" {
						d[id.Name] = true
					}
				}
			}
		}
		return true
	})
	return d
}

// instantiate: a copy of the body of fn (a FuncDecl's or FuncLit's type and body) with parameters replaced by
// args, locals renamed apart, and `return e...` turned into `lhs... = e...` (dropped when there is no lhs)
func (in *inliner) instantiate(ft *ast.FuncType, body *ast.BlockStmt, args []ast.Expr, lhs []ast.Expr) []ast.Stmt {
	return in.instantiateR(ft, body, args, lhs, "", nil, false)
}

// instantiateR: recvName/recvExpr substitute the callee's receiver; keepReturns leaves `return` statements
// alone (tail call: return helper(...))
func (in *inliner) instantiateR(ft *ast.FuncType, body *ast.BlockStmt, args []ast.Expr, lhs []ast.Expr,
	recvName string, recvExpr ast.Expr, keepReturns bool) []ast.Stmt {
	in.counter++
	suffix := fmt.Sprintf("_inl%d", in.counter)
	b := cloneNode(body).(*ast.BlockStmt)
	params := map[string]ast.Expr{}
	k := 0
	if ft.Params != nil {
		for _, p := range ft.Params.List {
			for _, n := range p.Names {
				if k < len(args) {
					params[n.Name] = args[k]
				}
				k++
			}
		}
	}
	keyIdents := map[*ast.Ident]bool{}
	ast.Inspect(b, func(n ast.Node) bool {
		if kv, ok := n.(*ast.KeyValueExpr); ok {
			if id, ok := kv.Key.(*ast.Ident); ok {
				keyIdents[id] = true
			}
		}
		return true
	})
	if recvName != "" && recvExpr != nil {
		params[recvName] = recvExpr
	}
	locals := declaredNames(b)
	for n := range params {
		delete(locals, n)
	}
	// named results are locals too
	if ft.Results != nil {
		for _, r := range ft.Results.List {
			for _, n := range r.Names {
				locals[n.Name] = true
			}
		}
	}
	mapExprs(b, func(e ast.Expr) ast.Expr {
		if id, ok := e.(*ast.Ident); ok {
			if keyIdents[id] {
				return e
			}
			if a, ok := params[id.Name]; ok {
				return &ast.ParenExpr{X: cloneExpr(a)}
			}
			if locals[id.Name] && id.Name != "err" {
				return &ast.Ident{NamePos: id.NamePos, Name: id.Name + suffix, Obj: id.Obj}
			}
			return e
		}
		return simplify(e)
	})
	// identifiers in non-expression positions (ValueSpec names, labels) - rename ValueSpec names
	ast.Inspect(b, func(n ast.Node) bool {
		if vs, ok := n.(*ast.ValueSpec); ok {
			for _, id := range vs.Names {
				if locals[id.Name] && id.Name != "err" {
					id.Name += suffix
				}
			}
		}
		return true
	})
	// drop the parentheses introduced around simple substitutions and simplify once more
	mapExprs(b, func(e ast.Expr) ast.Expr {
		if p, ok := e.(*ast.ParenExpr); ok {
			switch p.X.(type) {
			case *ast.Ident, *ast.SelectorExpr, *ast.IndexExpr, *ast.BasicLit, *ast.CompositeLit, *ast.FuncLit:
				return p.X
			}
		}
		return simplify(e)
	})
	// returns
	var fix func(list []ast.Stmt) []ast.Stmt
	fixStmt := func(s ast.Stmt) ast.Stmt {
		if keepReturns {
			return s
		}
		if r, ok := s.(*ast.ReturnStmt); ok {
			if len(lhs) > 0 && len(r.Results) == len(lhs) {
				l := make([]ast.Expr, len(lhs))
				for i := range lhs {
					l[i] = cloneExpr(lhs[i])
				}
				return &ast.AssignStmt{Lhs: l, Tok: token.ASSIGN, Rhs: r.Results}
			}
			return &ast.EmptyStmt{}
		}
		return s
	}
	fix = func(list []ast.Stmt) []ast.Stmt {
		for i, s := range list {
			list[i] = fixStmt(s)
		}
		return list
	}
	ast.Inspect(b, func(n ast.Node) bool {
		switch x := n.(type) {
		case *ast.BlockStmt:
			x.List = fix(x.List)
		case *ast.CaseClause:
			x.Body = fix(x.Body)
		case *ast.FuncLit:
			return false // returns inside a nested closure belong to it
		}
		return true
	})
	return b.List
}

// callee of a call: a helper of the file, or a function literal
func (in *inliner) callee(c *ast.CallExpr) (*ast.FuncType, *ast.BlockStmt, bool) {
	ft, body, _, _, ok := in.calleeR(c)
	return ft, body, ok
}

func (in *inliner) calleeR(c *ast.CallExpr) (*ast.FuncType, *ast.BlockStmt, string, ast.Expr, bool) {
	switch f := unparen(c.Fun).(type) {
	case *ast.Ident:
		if h, ok := in.helpers[f.Name]; ok && h.Recv == nil && !in.busy[f.Name] {
			in.prepare(f.Name)
			return h.Type, h.Body, "", nil, true
		}
	case *ast.SelectorExpr:
		// method helper called on a plain variable: dec.helper(...)
		if _, ok := f.X.(*ast.Ident); ok {
			if h, ok := in.helpers[f.Sel.Name]; ok && h.Recv != nil && !in.busy[f.Sel.Name] {
				in.prepare(f.Sel.Name)
				rn := ""
				if len(h.Recv.List) == 1 && len(h.Recv.List[0].Names) == 1 {
					rn = h.Recv.List[0].Names[0].Name
				}
				return h.Type, h.Body, rn, f.X, true
			}
		}
	case *ast.FuncLit:
		return f.Type, f.Body, "", nil, true
	}
	return nil, nil, "", nil, false
}

// single-expression helpers can be inlined inside expressions
func singleReturn(body *ast.BlockStmt) (ast.Expr, bool) {
	if len(body.List) == 1 {
		if r, ok := body.List[0].(*ast.ReturnStmt); ok && len(r.Results) == 1 {
			return r.Results[0], true
		}
	}
	return nil, false
}

func (in *inliner) inlineExprs(n ast.Node) {
	mapExprs(n, func(e ast.Expr) ast.Expr {
		c, ok := e.(*ast.CallExpr)
		if !ok {
			return e
		}
		ft, body, rn, rx, ok := in.calleeR(c)
		if !ok {
			return e
		}
		if _, ok := singleReturn(body); !ok {
			return e
		}
		marker := &ast.Ident{Name: "\x00ret"}
		st := in.instantiateR(ft, body, c.Args, []ast.Expr{marker}, rn, rx, false)
		if as, ok := st[0].(*ast.AssignStmt); ok && len(as.Rhs) == 1 {
			switch unparen(as.Rhs[0]).(type) {
			case *ast.UnaryExpr, *ast.CompositeLit, *ast.CallExpr, *ast.Ident, *ast.SelectorExpr, *ast.BasicLit:
				return unparen(as.Rhs[0])
			}
			return &ast.ParenExpr{X: as.Rhs[0]}
		}
		return e
	})
}

// rewrite a statement list: assignments / expression statements that call a helper or a function literal
// are replaced by the instantiated body
func (in *inliner) inlineStmts(list []ast.Stmt, depth int) []ast.Stmt {
	var out []ast.Stmt
	// `if v := helper(...); cond { ... }`: the init clause is an ordinary assignment executed before the
	// test - hoist it so that it is inlined like one (the analyses do not depend on the scope of v)
	var hoisted []ast.Stmt
	for _, s := range list {
		if is, ok := s.(*ast.IfStmt); ok && is.Init != nil {
			if as, ok := is.Init.(*ast.AssignStmt); ok && len(as.Rhs) == 1 {
				if c, ok := unparen(as.Rhs[0]).(*ast.CallExpr); ok {
					if _, _, _, _, ok := in.calleeR(c); ok {
						hoisted = append(hoisted, as)
						is.Init = nil
					}
				}
			}
		}
		hoisted = append(hoisted, s)
	}
	list = hoisted
	for _, s := range list {
		var call *ast.CallExpr
		var lhs []ast.Expr
		switch x := s.(type) {
		case *ast.AssignStmt:
			if len(x.Rhs) == 1 {
				if c, ok := unparen(x.Rhs[0]).(*ast.CallExpr); ok {
					call, lhs = c, x.Lhs
				}
			}
		case *ast.ExprStmt:
			if c, ok := unparen(x.X).(*ast.CallExpr); ok {
				call = c
			}
		case *ast.ReturnStmt:
			// tail call: return helper(...)
			if len(x.Results) == 1 && depth < 8 {
				if c, ok := unparen(x.Results[0]).(*ast.CallExpr); ok {
					if ft, body, rn, rx, ok := in.calleeR(c); ok {
						st := in.instantiateR(ft, body, c.Args, nil, rn, rx, true)
						out = append(out, in.inlineStmts(st, depth+1)...)
						continue
					}
				}
			}
		}
		if call != nil && depth < 8 {
			if ft, body, rn, rx, ok := in.calleeR(call); ok {
				nres := 0
				if ft.Results != nil {
					for _, r := range ft.Results.List {
						if len(r.Names) == 0 {
							nres++
						} else {
							nres += len(r.Names)
						}
					}
				}
				if len(lhs) == 0 || len(lhs) == nres {
					st := in.instantiateR(ft, body, call.Args, lhs, rn, rx, false)
					out = append(out, in.inlineStmts(st, depth+1)...)
					continue
				}
			}
		}
		in.inlineInside(s, depth)
		out = append(out, s)
	}
	return out
}

// descend into nested statement lists of s
func (in *inliner) inlineInside(s ast.Node, depth int) {
	ast.Inspect(s, func(n ast.Node) bool {
		switch x := n.(type) {
		case *ast.BlockStmt:
			x.List = in.inlineStmts(x.List, depth)
			return false
		case *ast.CaseClause:
			x.Body = in.inlineStmts(x.Body, depth)
			return false
		case *ast.CommClause:
			x.Body = in.inlineStmts(x.Body, depth)
			return false
		}
		return true
	})
}

// prepare a helper: inline inside its own body first (depth-first, recursion guarded)
func (in *inliner) prepare(name string) {
	if in.done[name] {
		return
	}
	in.busy[name] = true
	h := in.helpers[name]
	in.inlineExprs(h.Body)
	h.Body.List = in.inlineStmts(h.Body.List, 0)
	delete(in.busy, name)
	in.done[name] = true
}

// inlineFile normalises all function bodies of the file in place.  Helpers are the unexported functions
// without receiver; keep lists names that must stay calls (none by default).
func inlineFile(file *ast.File) map[string]bool {
	in := &inliner{helpers: map[string]*ast.FuncDecl{}, done: map[string]bool{}, busy: map[string]bool{}}
	for _, d := range file.Decls {
		if fd, ok := d.(*ast.FuncDecl); ok && fd.Body != nil && isHelperName(fd.Name.Name) && !structural[fd.Name.Name] {
			in.helpers[fd.Name.Name] = fd
		}
	}
	var hn []string
	for n := range in.helpers {
		hn = append(hn, n)
	}
	sort.Strings(hn)
	for _, n := range hn {
		in.prepare(n)
	}
	for _, d := range file.Decls {
		if fd, ok := d.(*ast.FuncDecl); ok && fd.Body != nil {
			if _, isHelper := in.helpers[fd.Name.Name]; isHelper {
				continue
			}
			in.inlineExprs(fd.Body)
			fd.Body.List = in.inlineStmts(fd.Body.List, 0)
		}
	}
	inlined := map[string]bool{}
	for n := range in.helpers {
		inlined[n] = true
	}
	return inlined
}
