// pbfcode: translates the field dispatch of the PBF block decoder (osmpbf/decode_data.go), the
// header decoder (decodeOSMHeader in osmpbf/decode.go) and the generated protobuf structs
// (osmpbf/internal/osmpbf/*.pb.go) into coq/gen/GenPbfCode.v.       usage: pbfcode <repo> <outdir>
//
// For every `switch x.FieldNumber() { case N: ... }` (and the `if fn == N && !dec.scanner.SkipX`
// chain of scanPrimitiveGroup) it emits one arm per field number:
//   - the guard (the skip flag that disables the arm),
//   - the protoscan accessor methods called on the message in the arm (Int32, Iterator, MessageData...),
//   - if the arm fills an iterator: the accessor methods called on that iterator, wherever in the file it
//     is consumed (followed through one level of calls, e.g. scanTags / extractMembers),
//   - the fields of public objects that receive the decoded value (a small flow-insensitive taint
//     analysis inside the enclosing case clause / function: variables defined from the accessor call,
//     then everything assigned from them; `err` is ignored; a switch on a tainted tag taints its body).
//
// Object roots are named by their declared type (way *osm.Way -> "Way", n := &osm.Node{} -> "Node",
// dec.primitiveBlock -> "PrimitiveBlock"), so renaming local variables or private fields is invisible.
// Only go/parser is used (package osmpbf has cgo / non-cgo twins that do not type-check together).
package main

import (
	"bytes"
	"fmt"
	"go/ast"
	"go/parser"
	"go/printer"
	"go/token"
	"os"
	"path/filepath"
	"reflect"
	"sort"
	"strconv"
	"strings"
)

// emit / coqString: local copies of the two helpers of verif/translator/tr, so that this translator does not
// depend on the (concurrently edited) shared package building
type trT struct{}

var tr trT

func (trT) Emit(path string, content []byte) error {
	old, err := os.ReadFile(path)
	if err == nil && bytes.Equal(old, content) {
		return nil
	}
	if err := os.MkdirAll(filepath.Dir(path), 0o755); err != nil {
		return err
	}
	return os.WriteFile(path, content, 0o644)
}

func (trT) CoqString(s string) string {
	return "\"" + strings.ReplaceAll(s, "\"", "\"\"") + "\""
}

func fail(f string, a ...interface{}) {
	fmt.Fprintf(os.Stderr, "translator pbfcode: "+f+"\n", a...)
	os.Exit(1)
}

var fset = token.NewFileSet()

func render(n ast.Node) string {
	var b bytes.Buffer
	printer.Fprint(&b, fset, n)
	// nodes moved by the inliner keep their old positions, which makes the printer break lines after a dot
	s := strings.Join(strings.Fields(b.String()), " ")
	return strings.ReplaceAll(s, ". ", ".")
}

var accessors = map[string]bool{"Int32": true, "Int64": true, "Sint32": true, "Sint64": true, "Uint32": true,
	"Uint64": true, "Bool": true, "Iterator": true, "MessageData": true, "Message": true, "Varint32": true,
	"Varint64": true, "Fixed32": true, "Fixed64": true, "Sfixed32": true, "Sfixed64": true, "Double": true,
	"Float": true, "String": true, "Bytes": true}

type arm struct {
	num     int
	guard   string
	msg     []string
	elem    []string
	targets []string
}

type fileInfo struct {
	funcs      map[string]*ast.FuncDecl
	fieldTypes map[string]string // private struct field of the receiver -> named type (PrimitiveBlock)
}

// typeName of a type expression: *osm.Way -> Way, osm.Members -> Members, Header -> Header
func typeName(e ast.Expr) string {
	switch x := e.(type) {
	case *ast.StarExpr:
		return typeName(x.X)
	case *ast.SelectorExpr:
		return x.Sel.Name
	case *ast.Ident:
		return x.Name
	case *ast.ArrayType:
		return typeName(x.Elt)
	}
	return ""
}

// named types of the receiver's fields (set once per file; used to type aliases such as pb := dec.primitiveBlock)
var curFieldTypes = map[string]string{}

// varTypes: local variable -> type name, from parameters, `x := &T{}`, `x := T{}`, `x := make(T, ...)`, `var x T`
func varTypes(fd *ast.FuncDecl) map[string]string {
	vt := map[string]string{}
	if fd.Type.Params != nil {
		for _, p := range fd.Type.Params.List {
			for _, n := range p.Names {
				vt[n.Name] = typeName(p.Type)
			}
		}
	}
	ast.Inspect(fd.Body, func(n ast.Node) bool {
		switch x := n.(type) {
		case *ast.AssignStmt:
			if x.Tok != token.DEFINE || len(x.Lhs) != len(x.Rhs) {
				return true
			}
			for i, l := range x.Lhs {
				id, ok := l.(*ast.Ident)
				if !ok {
					continue
				}
				r := unparen(x.Rhs[i])
				if u, ok := r.(*ast.UnaryExpr); ok && u.Op == token.AND {
					r = unparen(u.X)
				}
				switch y := r.(type) {
				case *ast.SelectorExpr:
					// alias of a field of the receiver: pb := dec.primitiveBlock
					if rx, ok := y.X.(*ast.Ident); ok && rx.Name == recvName(fd) {
						if t, ok := curFieldTypes[y.Sel.Name]; ok {
							vt[id.Name] = t
						}
					}
				case *ast.CompositeLit:
					vt[id.Name] = typeName(y.Type)
				case *ast.CallExpr:
					if f, ok := y.Fun.(*ast.Ident); ok && f.Name == "make" && len(y.Args) > 0 {
						vt[id.Name] = typeName(y.Args[0])
					}
				}
			}
		case *ast.DeclStmt:
			if gd, ok := x.Decl.(*ast.GenDecl); ok {
				for _, s := range gd.Specs {
					if vs, ok := s.(*ast.ValueSpec); ok && vs.Type != nil {
						for _, n := range vs.Names {
							vt[n.Name] = typeName(vs.Type)
						}
					}
				}
			}
		}
		return true
	})
	return vt
}

// path of an lvalue: way.Nodes[index].ID -> [way Nodes ID]
func lpath(e ast.Expr) []string {
	switch x := e.(type) {
	case *ast.Ident:
		return []string{x.Name}
	case *ast.SelectorExpr:
		p := lpath(x.X)
		if p == nil {
			return nil
		}
		return append(p, x.Sel.Name)
	case *ast.IndexExpr:
		return lpath(x.X)
	case *ast.StarExpr:
		return lpath(x.X)
	case *ast.ParenExpr:
		return lpath(x.X)
	}
	return nil
}

var builtinTypes = map[string]bool{"int": true, "int32": true, "int64": true, "uint32": true, "uint64": true,
	"bool": true, "string": true, "float64": true, "byte": true, "Iterator": true, "Message": true, "error": true}

// target name of an assigned lvalue, "" if it is not a field of a public / generated object
// elemOf: a value written into a local of the element type (tag := osm.Tag{}; tag.Key = ...; tags =
// append(tags, tag)) reaches the same place as one written through the slice (tags[i] = osm.Tag{Key: ...}):
// targets are named by the slice type.
var elemOf = map[string]string{"Tag": "Tags", "WayNode": "WayNodes", "Member": "Members"}

func isSliceType(t string) bool {
	for _, s := range elemOf {
		if s == t {
			return true
		}
	}
	return false
}

func (fi *fileInfo) target(e ast.Expr, recv string, vt map[string]string) string {
	t := fi.target0(e, recv, vt)
	if i := strings.Index(t, "."); i > 0 {
		if s, ok := elemOf[t[:i]]; ok {
			return s + t[i:]
		}
	} else if s, ok := elemOf[t]; ok {
		return s
	}
	return t
}

func (fi *fileInfo) target0(e ast.Expr, recv string, vt map[string]string) string {
	p := lpath(e)
	if len(p) == 0 {
		return ""
	}
	root := p[0]
	rest := p[1:]
	if len(rest) == 0 {
		if _, isStar := e.(*ast.StarExpr); isStar {
			return ""
		}
		if _, isIdx := e.(*ast.IndexExpr); !isIdx {
			return ""
		}
		t, ok := vt[root]
		if !ok || t == "" || builtinTypes[t] {
			return ""
		}
		return t
	}
	if root == recv {
		t, ok := fi.fieldTypes[rest[0]]
		if !ok || len(rest) < 2 {
			return ""
		}
		return t + "." + strings.Join(rest[1:], ".")
	}
	t, ok := vt[root]
	if !ok || t == "" || builtinTypes[t] {
		return ""
	}
	return t + "." + strings.Join(rest, ".")
}

func mentions(e ast.Node, taint map[string]bool) bool {
	found := false
	ast.Inspect(e, func(n ast.Node) bool {
		if id, ok := n.(*ast.Ident); ok && taint[id.Name] {
			found = true
		}
		return !found
	})
	return found
}

func addUniq(l []string, s string) []string {
	for _, x := range l {
		if x == s {
			return l
		}
	}
	return append(l, s)
}

// isAccessorCall: X.M() with M a protoscan accessor; returns receiver text and method
func isAccessorCall(e ast.Expr) (string, string, bool) {
	c, ok := e.(*ast.CallExpr)
	if !ok {
		return "", "", false
	}
	s, ok := c.Fun.(*ast.SelectorExpr)
	if !ok || !accessors[s.Sel.Name] {
		return "", "", false
	}
	return render(s.X), s.Sel.Name, true
}

// taintTargets: inside scope, start from the variables defined by accessor calls on recvText (method
// in methods, nil = any), propagate through assignments, collect targets.
func (fi *fileInfo) taintTargets(scope ast.Node, recvText string, recv string, vt map[string]string) (methods []string, targets []string) {
	taint := map[string]bool{}
	// seeds
	ast.Inspect(scope, func(n ast.Node) bool {
		as, ok := n.(*ast.AssignStmt)
		if !ok || len(as.Rhs) != 1 {
			return true
		}
		r, m, ok := isAccessorCall(as.Rhs[0])
		if !ok || r != recvText {
			return true
		}
		methods = append(methods, m)
		if m == "Iterator" {
			return true
		}
		for _, l := range as.Lhs {
			if id, ok := l.(*ast.Ident); ok && id.Name != "err" && id.Name != "_" {
				taint[id.Name] = true
			} else if t := fi.target(l, recv, vt); t != "" {
				targets = addUniq(targets, t)
			}
		}
		return true
	})
	// accessor calls that are not the sole rhs of an assignment (e.g. in conditions) still count as methods
	ast.Inspect(scope, func(n ast.Node) bool {
		if c, ok := n.(*ast.CallExpr); ok {
			if r, m, ok := isAccessorCall(c); ok && r == recvText {
				seen := false
				for _, x := range methods {
					if x == m {
						seen = true
					}
				}
				if !seen {
					methods = append(methods, m)
				}
			}
		}
		return true
	})
	for changed := true; changed; {
		changed = false
		var walk func(n ast.Node, forced bool)
		walk = func(n ast.Node, forced bool) {
			ast.Inspect(n, func(m ast.Node) bool {
				switch x := m.(type) {
				case *ast.ForStmt:
					// a nested field loop over another message has its own dispatch table
					if nestedLoop(x, recvText) != "" {
						if !strings.Contains(recvText, ".") { // recvText is itself a message being dispatched
							targets = addUniq(targets, "sub:info")
						}
						return false
					}
				case *ast.SwitchStmt:
					if x.Tag != nil && mentions(x.Tag, taint) && !forced {
						walk(x.Body, true)
						return false
					}
				case *ast.IfStmt:
					// control dependence: if t == A { x.f = ... } else if ...
					if mentions(x.Cond, taint) && !forced {
						walk(x.Body, true)
						if x.Else != nil {
							walk(x.Else, true)
						}
						return false
					}
				case *ast.AssignStmt:
					tainted := forced
					for _, r := range x.Rhs {
						if mentions(r, taint) {
							tainted = true
						}
					}
					if !tainted {
						return true
					}
					for li, l := range x.Lhs {
						if id, ok := l.(*ast.Ident); ok {
							// xs = append(xs, T{f: v}) on a local slice is xs[i] = T{f: v}: the value reaches
							// field f of an element, the slice variable itself carries nothing further
							if li < len(x.Rhs) && isSliceType(vt[id.Name]) {
								if c, ok := x.Rhs[li].(*ast.CallExpr); ok && len(c.Args) >= 2 {
									if f, ok := c.Fun.(*ast.Ident); ok && f.Name == "append" && render(c.Args[0]) == id.Name {
										done := false
										for _, a := range c.Args[1:] {
											if cl, ok := a.(*ast.CompositeLit); ok {
												for _, el := range cl.Elts {
													if kv, ok := el.(*ast.KeyValueExpr); ok && mentions(kv.Value, taint) {
														targets = addUniq(targets, vt[id.Name]+"."+render(kv.Key))
														done = true
													}
												}
											}
										}
										if done {
											continue
										}
									}
								}
							}
							if id.Name != "err" && id.Name != "_" && !taint[id.Name] {
								taint[id.Name] = true
								changed = true
							}
							continue
						}
						t := fi.target(l, recv, vt)
						if t == "" {
							continue
						}
						// composite literal on the right: name the element fields that carry the value
						added := false
						for _, r := range x.Rhs {
							ast.Inspect(r, func(k ast.Node) bool {
								if cl, ok := k.(*ast.CompositeLit); ok {
									for _, el := range cl.Elts {
										if kv, ok := el.(*ast.KeyValueExpr); ok && mentions(kv.Value, taint) {
											targets = addUniq(targets, t+"."+render(kv.Key))
											added = true
										}
									}
								}
								return true
							})
						}
						if !added {
							targets = addUniq(targets, t)
						}
					}
				case *ast.CallExpr:
					// out-parameters: proto.Unmarshal(d, dec.primitiveBlock.Stringtable)
					if _, isSel := x.Fun.(*ast.SelectorExpr); !isSel {
						return true
					}
					has := false
					for _, a := range x.Args {
						if mentions(a, taint) {
							has = true
						}
					}
					if has {
						for _, a := range x.Args {
							if t := fi.target(a, recv, vt); t != "" {
								targets = addUniq(targets, t)
							}
						}
					}
				}
				return true
			})
		}
		walk(scope, false)
	}
	return methods, targets
}

// consumers of an iterator expression: accessor calls on it anywhere in the file (by text), and, when it
// is passed as an argument to a function of the file, on the corresponding parameter inside that function
func (fi *fileInfo) iteratorUse(iterText string, recv string) (elem []string, targets []string) {
	names := make([]string, 0, len(fi.funcs))
	for n := range fi.funcs {
		names = append(names, n)
	}
	sort.Strings(names)
	followed := map[string]bool{}
	for _, fn := range names {
		fd := fi.funcs[fn]
		vt := varTypes(fd)
		r := recvName(fd)
		// innermost case clause scoping
		var felem []string
		for _, sc := range scopesWith(fd, iterText) {
			m, t := fi.taintTargets(sc, iterText, r, vt)
			for _, x := range m {
				if x != "Iterator" {
					felem = append(felem, x)
				}
			}
			for _, x := range t {
				targets = addUniq(targets, x)
			}
		}
		// the same iterator consumed the same way in several functions (a helper inlined twice) counts once
		if len(felem) > 0 && !(len(elem) > 0 && reflect.DeepEqual(elem, felem)) {
			elem = append(elem, felem...)
		}
		// passed on to another function
		ast.Inspect(fd.Body, func(n ast.Node) bool {
			c, ok := n.(*ast.CallExpr)
			if !ok {
				return true
			}
			var callee *ast.FuncDecl
			switch f := c.Fun.(type) {
			case *ast.Ident:
				callee = fi.funcs[f.Name]
			case *ast.SelectorExpr:
				callee = fi.funcs[f.Sel.Name]
			}
			if callee == nil {
				return true
			}
			for i, a := range c.Args {
				if render(a) != iterText {
					continue
				}
				k := 0
				for _, p := range callee.Type.Params.List {
					for _, pn := range p.Names {
						if k == i && !followed[callee.Name.Name+"/"+pn.Name] {
							followed[callee.Name.Name+"/"+pn.Name] = true
							m, t := fi.taintTargets(callee.Body, pn.Name, recvName(callee), varTypes(callee))
							for _, x := range m {
								if x != "Iterator" {
									elem = append(elem, x)
								}
							}
							for _, x := range t {
								targets = addUniq(targets, x)
							}
						}
						k++
					}
				}
			}
			return true
		})
	}
	return
}

// nestedLoop: `for x.Next() { switch x.FieldNumber() ... }` over a message other than cur
func nestedLoop(f *ast.ForStmt, cur string) string {
	name := ""
	ast.Inspect(f.Body, func(n ast.Node) bool {
		if sw, ok := n.(*ast.SwitchStmt); ok && sw.Tag != nil {
			if r := fieldNumberRecv(sw.Tag); r != "" && r != cur {
				name = r
			}
		}
		return name == ""
	})
	return name
}

func recvName(fd *ast.FuncDecl) string {
	if fd.Recv != nil && len(fd.Recv.List) == 1 && len(fd.Recv.List[0].Names) == 1 {
		return fd.Recv.List[0].Names[0].Name
	}
	return ""
}

// scopesWith: the innermost case clauses (or the function body) that contain an accessor call on recvText
func scopesWith(fd *ast.FuncDecl, recvText string) []ast.Node {
	var out []ast.Node
	var visit func(n ast.Node, cur ast.Node)
	seen := map[ast.Node]bool{}
	visit = func(n ast.Node, cur ast.Node) {
		ast.Inspect(n, func(m ast.Node) bool {
			if m == nil || m == n {
				return true
			}
			if cc, ok := m.(*ast.CaseClause); ok {
				for _, s := range cc.Body {
					visit(s, cc)
				}
				return false
			}
			if c, ok := m.(*ast.CallExpr); ok {
				if r, mth, ok := isAccessorCall(c); ok && r == recvText && mth != "Iterator" {
					if !seen[cur] {
						seen[cur] = true
						out = append(out, cur)
					}
				}
			}
			return true
		})
	}
	visit(fd.Body, fd.Body)
	return out
}

// canonMsg: the message variable of the first `x.FieldNumber()` of a function is "msg", every other one
// (a nested sub-message loop) is "info", whatever the variables are called
func canonMsg(fd *ast.FuncDecl, v string) string {
	primary := ""
	ast.Inspect(fd.Body, func(n ast.Node) bool {
		if primary != "" {
			return false
		}
		if c, ok := n.(*ast.CallExpr); ok {
			if r := fieldNumberRecv(c); r != "" {
				primary = r
			}
		}
		return true
	})
	if v == primary {
		return "msg"
	}
	return "info"
}

// fieldNumberOf: x.FieldNumber() -> "x"
func fieldNumberRecv(e ast.Expr) string {
	c, ok := e.(*ast.CallExpr)
	if !ok {
		return ""
	}
	s, ok := c.Fun.(*ast.SelectorExpr)
	if !ok || s.Sel.Name != "FieldNumber" {
		return ""
	}
	return render(s.X)
}

func (fi *fileInfo) armOf(num int, guard string, body ast.Node, msgVar string, fd *ast.FuncDecl) arm {
	vt := varTypes(fd)
	recv := recvName(fd)
	a := arm{num: num, guard: guard}
	// direct: accessor calls on the message variable, their targets; but not inside nested switches on
	// another message
	methods, targets := fi.taintTargets(body, msgVar, recv, vt)
	a.msg = methods
	a.targets = targets
	// iterator filled in this arm
	ast.Inspect(body, func(n ast.Node) bool {
		as, ok := n.(*ast.AssignStmt)
		if !ok || len(as.Rhs) != 1 {
			return true
		}
		r, m, ok := isAccessorCall(as.Rhs[0])
		if !ok || r != msgVar || m != "Iterator" {
			return true
		}
		it := render(as.Lhs[0])
		e, t := fi.iteratorUse(it, recv)
		a.elem = append(a.elem, e...)
		for _, x := range t {
			a.targets = addUniq(a.targets, x)
		}
		return true
	})
	// calls to scan functions of the file / explicit failure
	ast.Inspect(body, func(n ast.Node) bool {
		switch x := n.(type) {
		case *ast.CallExpr:
			if s, ok := x.Fun.(*ast.SelectorExpr); ok {
				if _, ok := fi.funcs[s.Sel.Name]; ok && render(s.X) == recv {
					a.targets = addUniq(a.targets, "call:"+s.Sel.Name)
				}
			}
			if id, ok := x.Fun.(*ast.Ident); ok && id.Name == "panic" {
				a.targets = addUniq(a.targets, "panic")
			}
		}
		return true
	})
	return a
}

// does the statement list of an if-arm fail unconditionally (first statement returns an error / panics)?
func failsAtOnce(b *ast.BlockStmt) string {
	if len(b.List) == 0 {
		return ""
	}
	switch s := b.List[0].(type) {
	case *ast.ReturnStmt:
		return "error"
	case *ast.ExprStmt:
		if c, ok := s.X.(*ast.CallExpr); ok {
			if id, ok := c.Fun.(*ast.Ident); ok && id.Name == "panic" {
				return "panic"
			}
		}
	}
	return ""
}

func (fi *fileInfo) dispatches(fd *ast.FuncDecl) map[string][]arm {
	out := map[string][]arm{}
	count := map[string]int{}
	// variables holding a field number: fn := x.FieldNumber()  /  switch fn := x.FieldNumber(); fn {
	fnVars := map[string]string{}
	ast.Inspect(fd.Body, func(n ast.Node) bool {
		if as, ok := n.(*ast.AssignStmt); ok && len(as.Rhs) == 1 && len(as.Lhs) == 1 {
			if r := fieldNumberRecv(as.Rhs[0]); r != "" {
				fnVars[render(as.Lhs[0])] = r
			}
		}
		return true
	})
	ast.Inspect(fd.Body, func(n ast.Node) bool {
		switch x := n.(type) {
		case *ast.SwitchStmt:
			mv := ""
			if x.Tag != nil {
				mv = fieldNumberRecv(x.Tag)
				if mv == "" {
					mv = fnVars[render(x.Tag)]
				}
			}
			if mv == "" {
				return true
			}
			name := fd.Name.Name
			if canonMsg(fd, mv) != "msg" {
				name += "_" + canonMsg(fd, mv)
			}
			count[name]++
			if count[name] > 1 {
				name += "_pass" + strconv.Itoa(count[name])
			}
			var arms []arm
			for _, s := range x.Body.List {
				cc := s.(*ast.CaseClause)
				for _, e := range cc.List {
					bl, ok := e.(*ast.BasicLit)
					if !ok || bl.Kind != token.INT {
						fail("%s: case label %s is not an integer literal", name, render(e))
					}
					num, _ := strconv.Atoi(bl.Value)
					arms = append(arms, fi.armOf(num, "", &ast.BlockStmt{List: cc.Body}, mv, fd))
				}
			}
			sort.SliceStable(arms, func(i, j int) bool { return arms[i].num < arms[j].num })
			out[name] = arms
		}
		return true
	})
	// `fn := msg.FieldNumber()` followed by `if fn == N [&& !dec.scanner.SkipX] { ... }`
	fnVar, mv := "", ""
	ast.Inspect(fd.Body, func(n ast.Node) bool {
		if as, ok := n.(*ast.AssignStmt); ok && len(as.Rhs) == 1 && len(as.Lhs) == 1 {
			if r := fieldNumberRecv(as.Rhs[0]); r != "" {
				fnVar, mv = render(as.Lhs[0]), r
			}
		}
		return true
	})
	if fnVar != "" {
		var arms []arm
		ast.Inspect(fd.Body, func(n ast.Node) bool {
			is, ok := n.(*ast.IfStmt)
			if !ok {
				return true
			}
			num, guard, ok := fnCond(is.Cond, fnVar)
			if !ok {
				return true
			}
			a := fi.armOf(num, guard, is.Body, mv, fd)
			if f := failsAtOnce(is.Body); f != "" {
				a.targets = addUniq(a.targets, f)
			}
			arms = append(arms, a)
			return true
		})
		// the same chain written as a tagless switch: switch { case fn == 2 && !skip: ... }
		ast.Inspect(fd.Body, func(n ast.Node) bool {
			sw, ok := n.(*ast.SwitchStmt)
			if !ok || sw.Tag != nil {
				return true
			}
			for _, st := range sw.Body.List {
				cc := st.(*ast.CaseClause)
				if len(cc.List) != 1 {
					continue
				}
				num, guard, ok := fnCond(cc.List[0], fnVar)
				if !ok {
					continue
				}
				body := &ast.BlockStmt{List: cc.Body}
				a := fi.armOf(num, guard, body, mv, fd)
				if f := failsAtOnce(body); f != "" {
					a.targets = addUniq(a.targets, f)
				}
				arms = append(arms, a)
			}
			return true
		})
		sort.SliceStable(arms, func(i, j int) bool { return arms[i].num < arms[j].num })
		if len(arms) > 0 {
			out[fd.Name.Name] = arms
		}
	}
	return out
}

// fn == N  |  fn == N && !a.b.SkipX
func fnCond(e ast.Expr, fnVar string) (int, string, bool) {
	switch x := e.(type) {
	case *ast.ParenExpr:
		return fnCond(x.X, fnVar)
	case *ast.BinaryExpr:
		if x.Op == token.EQL {
			if render(x.X) == fnVar || (fnVar != "" && fieldNumberRecv(x.X) != "") {
				if bl, ok := x.Y.(*ast.BasicLit); ok && bl.Kind == token.INT {
					n, _ := strconv.Atoi(bl.Value)
					return n, "", true
				}
			}
			return 0, "", false
		}
		if x.Op == token.LAND {
			n, g, ok := fnCond(x.X, fnVar)
			if !ok {
				return 0, "", false
			}
			if u, ok := x.Y.(*ast.UnaryExpr); ok && u.Op == token.NOT {
				p := lpath(u.X)
				if len(p) > 0 {
					if g != "" {
						g += "&"
					}
					return n, g + p[len(p)-1], true
				}
			}
			return 0, "", false
		}
	}
	return 0, "", false
}

// ---------- loop-body structure ----------

// frule: a rule about found-flags: kind "nil" (if !flag { iterators = nil }), "error" (if !flag { return
// error }), "empty" (if !f1 && !f2 ... { return nil }, info "before:error"/"after:error": its place relative
// to the first "error" rule), "use" (if f1 && f2 ... { call / assign }).  Flags and iterators are named by the dispatch arm
// (message variable, field number) that sets / fills them, so local names do not matter.
type armRef struct {
	scope string
	num   int
}
type frule struct {
	kind  string
	flags []armRef
	nils  []armRef
	info  []string
}

func (fi *fileInfo) foundRules(fd *ast.FuncDecl) []frule {
	flagArm := map[string]armRef{}
	iterArm := map[string]armRef{}
	var visitSwitch func(n ast.Node)
	visitSwitch = func(n ast.Node) {
		ast.Inspect(n, func(m ast.Node) bool {
			sw, ok := m.(*ast.SwitchStmt)
			if !ok || sw.Tag == nil {
				return true
			}
			mv := fieldNumberRecv(sw.Tag)
			if mv == "" {
				return true
			}
			for _, st := range sw.Body.List {
				cc := st.(*ast.CaseClause)
				if len(cc.List) != 1 {
					continue
				}
				bl, ok := cc.List[0].(*ast.BasicLit)
				if !ok {
					continue
				}
				num, _ := strconv.Atoi(bl.Value)
				for _, b := range cc.Body {
					// direct statements of the clause only (nested switches are visited on their own)
					as, ok := b.(*ast.AssignStmt)
					if !ok {
						continue
					}
					if len(as.Lhs) == 1 && len(as.Rhs) == 1 {
						if id, ok := as.Lhs[0].(*ast.Ident); ok {
							if v, ok := as.Rhs[0].(*ast.Ident); ok && v.Name == "true" {
								flagArm[id.Name] = armRef{canonMsg(fd, mv), num}
							}
						}
					}
					if len(as.Rhs) == 1 {
						if r, mth, ok := isAccessorCall(as.Rhs[0]); ok && r == mv && mth == "Iterator" {
							iterArm[render(as.Lhs[0])] = armRef{canonMsg(fd, mv), num}
						}
					}
				}
			}
			return true
		})
	}
	visitSwitch(fd.Body)
	var rules []frule
	var flagsOf func(e ast.Expr, neg bool) ([]armRef, bool)
	flagsOf = func(e ast.Expr, neg bool) ([]armRef, bool) {
		switch x := e.(type) {
		case *ast.ParenExpr:
			return flagsOf(x.X, neg)
		case *ast.UnaryExpr:
			if x.Op == token.NOT && neg {
				if id, ok := x.X.(*ast.Ident); ok {
					if a, ok := flagArm[id.Name]; ok {
						return []armRef{a}, true
					}
				}
			}
		case *ast.Ident:
			if !neg {
				if a, ok := flagArm[x.Name]; ok {
					return []armRef{a}, true
				}
			}
		case *ast.BinaryExpr:
			if x.Op == token.LAND {
				// a conjunction of flags (neg = false) or of negated flags (neg = true)
				l, ok1 := flagsOf(x.X, neg)
				r, ok2 := flagsOf(x.Y, neg)
				if ok1 && ok2 {
					return append(l, r...), true
				}
			}
		}
		return nil, false
	}
	returnsNil := func(rs *ast.ReturnStmt) bool {
		if len(rs.Results) == 0 {
			return false
		}
		for _, e := range rs.Results {
			if id, ok := e.(*ast.Ident); !ok || id.Name != "nil" {
				return false
			}
		}
		return true
	}
	firstErrorPos, emptyPos := token.NoPos, map[int]token.Pos{}
	vt := varTypes(fd)
	recv := recvName(fd)
	ast.Inspect(fd.Body, func(n ast.Node) bool {
		is, ok := n.(*ast.IfStmt)
		if !ok {
			return true
		}
		if fl, ok := flagsOf(is.Cond, true); ok {
			r := frule{kind: "nil", flags: fl}
			for _, st := range is.Body.List {
				switch y := st.(type) {
				case *ast.ReturnStmt:
					if returnsNil(y) {
						// if !a && !b ... { return nil }: none of the columns present = nothing to do
						r.kind = "empty"
						emptyPos[len(rules)] = is.Pos()
					} else {
						r.kind = "error"
						if firstErrorPos == token.NoPos || is.Pos() < firstErrorPos {
							firstErrorPos = is.Pos()
						}
					}
				case *ast.AssignStmt:
					if len(y.Lhs) == 1 && len(y.Rhs) == 1 {
						if v, ok := y.Rhs[0].(*ast.Ident); ok && v.Name == "nil" {
							if a, ok := iterArm[render(y.Lhs[0])]; ok {
								r.nils = append(r.nils, a)
							} else {
								r.info = append(r.info, "nil:"+render(y.Lhs[0]))
							}
						}
					}
				}
			}
			rules = append(rules, r)
			return true
		}
		if fl, ok := flagsOf(is.Cond, false); ok && len(fl) == 1 && is.Else != nil {
			// inverted form of a nil / error rule: if foundX { } else { dec.X = nil }
			if eb, ok := is.Else.(*ast.BlockStmt); ok {
				r := frule{kind: "nil", flags: fl}
				hit := false
				for _, st := range eb.List {
					switch y := st.(type) {
					case *ast.ReturnStmt:
						r.kind, hit = "error", true
					case *ast.AssignStmt:
						if len(y.Lhs) == 1 && len(y.Rhs) == 1 {
							if v, ok := y.Rhs[0].(*ast.Ident); ok && v.Name == "nil" {
								if a, ok := iterArm[render(y.Lhs[0])]; ok {
									r.nils = append(r.nils, a)
									hit = true
								}
							}
						}
					}
				}
				if hit && len(is.Body.List) == 0 {
					rules = append(rules, r)
					return true
				}
			}
		}
		if fl, ok := flagsOf(is.Cond, false); ok {
			r := frule{kind: "use", flags: fl}
			// what the guarded block fills: fields of the element being decoded (a parameter of the function);
			// whether the work is done in place or in a helper is not recorded
			ptypes := map[string]bool{}
			if fd.Type.Params != nil {
				for _, p := range fd.Type.Params.List {
					ptypes[typeName(p.Type)] = true
				}
			}
			ast.Inspect(is.Body, func(m ast.Node) bool {
				if y, ok := m.(*ast.AssignStmt); ok {
					for _, l := range y.Lhs {
						if t := fi.target(l, recv, vt); t != "" && ptypes[strings.SplitN(t, ".", 2)[0]] {
							r.info = addUniq(r.info, "set:"+t)
						}
					}
				}
				return true
			})
			rules = append(rules, r)
		}
		return true
	})
	// an "empty" rule only has an effect where it precedes the mandatory-column errors
	for i, pos := range emptyPos {
		if firstErrorPos == token.NoPos || pos < firstErrorPos {
			rules[i].info = append(rules[i].info, "before:error")
		} else {
			rules[i].info = append(rules[i].info, "after:error")
		}
	}
	less := func(a, b armRef) bool { return a.scope < b.scope || (a.scope == b.scope && a.num < b.num) }
	for i := range rules {
		r := &rules[i]
		sort.SliceStable(r.nils, func(x, y int) bool { return less(r.nils[x], r.nils[y]) })
		sort.SliceStable(r.flags, func(x, y int) bool { return less(r.flags[x], r.flags[y]) })
		sort.Strings(r.info)
	}
	sort.SliceStable(rules, func(x, y int) bool {
		a, b := rules[x], rules[y]
		if len(a.flags) == 0 || len(b.flags) == 0 {
			return len(a.flags) < len(b.flags)
		}
		if a.flags[0] != b.flags[0] {
			return less(a.flags[0], b.flags[0])
		}
		return a.kind < b.kind
	})
	return rules
}

// accumulation kind of the value read by accessor calls on recvText inside scope:
// "delta:<type>" when the value is added to a running local (x += v, x = v + x), else "plain"
func accumKind(scope ast.Node, fd *ast.FuncDecl, recvText string) string {
	seeds := map[string]bool{}
	ast.Inspect(scope, func(n ast.Node) bool {
		as, ok := n.(*ast.AssignStmt)
		if !ok || len(as.Rhs) != 1 {
			return true
		}
		if r, m, ok := isAccessorCall(as.Rhs[0]); ok && r == recvText && m != "Iterator" {
			for _, l := range as.Lhs {
				if id, ok := l.(*ast.Ident); ok && id.Name != "err" && id.Name != "_" {
					seeds[id.Name] = true
				}
			}
		}
		return true
	})
	if len(seeds) == 0 {
		return ""
	}
	// declared types of locals: var a, b T
	types := map[string]string{}
	ast.Inspect(fd.Body, func(n ast.Node) bool {
		if ds, ok := n.(*ast.DeclStmt); ok {
			if gd, ok := ds.Decl.(*ast.GenDecl); ok {
				for _, sp := range gd.Specs {
					if vs, ok := sp.(*ast.ValueSpec); ok && vs.Type != nil {
						for _, nm := range vs.Names {
							types[nm.Name] = render(vs.Type)
						}
					}
				}
			}
		}
		return true
	})
	kind := "plain"
	ast.Inspect(scope, func(n ast.Node) bool {
		as, ok := n.(*ast.AssignStmt)
		if !ok || len(as.Lhs) != 1 || len(as.Rhs) != 1 {
			return true
		}
		id, ok := as.Lhs[0].(*ast.Ident)
		if !ok || seeds[id.Name] {
			return true
		}
		acc := false
		if as.Tok == token.ADD_ASSIGN && mentions(as.Rhs[0], seeds) {
			acc = true
		}
		if as.Tok == token.ASSIGN {
			if be, ok := as.Rhs[0].(*ast.BinaryExpr); ok && be.Op == token.ADD && mentions(be, seeds) && mentions(be, map[string]bool{id.Name: true}) {
				acc = true
			}
		}
		if acc {
			kind = "delta:" + types[id.Name]
		}
		return true
	})
	return kind
}

// formulas: assignments to public targets whose right-hand side contains a floating-point literal or a
// time.* constant, rendered with locals replaced by the generated getter that defines them
// (granularity -> GetGranularity) and every other local by "v"
func (fi *fileInfo) formulas(fd *ast.FuncDecl) [][2]string {
	getterOf := map[string]string{}
	ast.Inspect(fd.Body, func(n ast.Node) bool {
		as, ok := n.(*ast.AssignStmt)
		if !ok || as.Tok != token.DEFINE || len(as.Lhs) != len(as.Rhs) {
			return true
		}
		for i := range as.Lhs {
			id, ok := as.Lhs[i].(*ast.Ident)
			if !ok {
				continue
			}
			g := ""
			ast.Inspect(as.Rhs[i], func(m ast.Node) bool {
				if c, ok := m.(*ast.CallExpr); ok {
					if s, ok := c.Fun.(*ast.SelectorExpr); ok && strings.HasPrefix(s.Sel.Name, "Get") && len(c.Args) == 0 {
						g = s.Sel.Name
					}
				}
				return true
			})
			if g != "" {
				getterOf[id.Name] = g
			}
		}
		return true
	})
	vt := varTypes(fd)
	recv := recvName(fd)
	var out [][2]string
	var subst func(e ast.Expr) string
	subst = func(e ast.Expr) string {
		switch x := e.(type) {
		case *ast.Ident:
			if g, ok := getterOf[x.Name]; ok {
				return g
			}
			if x.Obj != nil && x.Obj.Kind == ast.Var {
				return "v"
			}
			return x.Name
		case *ast.BasicLit:
			return x.Value
		case *ast.ParenExpr:
			return "(" + subst(x.X) + ")"
		case *ast.BinaryExpr:
			return subst(x.X) + " " + x.Op.String() + " " + subst(x.Y)
		case *ast.CallExpr:
			// a block parameter read in place (pb.GetGranularity(), int64(pb.GetGranularity())) is written like
			// the local that is usually defined by it
			gc := x
			if id, ok := x.Fun.(*ast.Ident); ok && len(x.Args) == 1 && builtinTypes[id.Name] {
				if c, ok := unparen(x.Args[0]).(*ast.CallExpr); ok {
					gc = c
				}
			}
			if sel, ok := gc.Fun.(*ast.SelectorExpr); ok && strings.HasPrefix(sel.Sel.Name, "Get") && len(gc.Args) == 0 {
				return sel.Sel.Name
			}
			var args []string
			for _, a := range x.Args {
				args = append(args, subst(a))
			}
			return render(x.Fun) + "(" + strings.Join(args, ", ") + ")"
		case *ast.SelectorExpr:
			return render(x)
		case *ast.StarExpr:
			return "*" + subst(x.X)
		case *ast.UnaryExpr:
			return x.Op.String() + subst(x.X)
		}
		return render(e)
	}
	interesting := func(e ast.Expr) bool {
		found := false
		ast.Inspect(e, func(m ast.Node) bool {
			switch y := m.(type) {
			case *ast.BasicLit:
				if y.Kind == token.FLOAT {
					found = true
				}
			case *ast.SelectorExpr:
				if id, ok := y.X.(*ast.Ident); ok && id.Name == "time" {
					found = true
				}
			}
			return !found
		})
		return found
	}
	// locals that carry an interesting value (millisec := time.Duration(...) * time.Millisecond)
	localForm := map[string]string{}
	ast.Inspect(fd.Body, func(n ast.Node) bool {
		as, ok := n.(*ast.AssignStmt)
		if !ok || len(as.Lhs) != 1 || len(as.Rhs) != 1 {
			return true
		}
		if id, ok := as.Lhs[0].(*ast.Ident); ok && interesting(as.Rhs[0]) {
			localForm[id.Name] = subst(unparen(as.Rhs[0]))
			return true
		}
		t := fi.target(as.Lhs[0], recv, vt)
		if t == "" {
			return true
		}
		f := ""
		if interesting(as.Rhs[0]) {
			f = subst(unparen(as.Rhs[0]))
		}
		// one level of local substitution: time.Unix(0, millisec.Nanoseconds())
		for l, lf := range localForm {
			if mentions(as.Rhs[0], map[string]bool{l: true}) {
				f = strings.ReplaceAll(render(as.Rhs[0]), l, "["+lf+"]")
			}
		}
		if f != "" {
			dup := false
			for _, o := range out {
				if o[0] == t && o[1] == f {
					dup = true
				}
			}
			if !dup {
				out = append(out, [2]string{t, f})
			}
		}
		return true
	})
	return out
}

func coqArmRefs(l []armRef) string {
	q := make([]string, len(l))
	for i, a := range l {
		q[i] = fmt.Sprintf("(%s, %d)", tr.CoqString(a.scope), a.num)
	}
	return "[" + strings.Join(q, "; ") + "]"
}

func coqList(l []string) string {
	q := make([]string, len(l))
	for i, s := range l {
		q[i] = tr.CoqString(s)
	}
	return "[" + strings.Join(q, "; ") + "]"
}

func parseFile(path string) *ast.File {
	f, err := parser.ParseFile(fset, path, nil, 0)
	if err != nil {
		fail("%v", err)
	}
	return f
}

func main() {
	repo, out := os.Args[1], os.Args[2]
	var b bytes.Buffer
	b.WriteString("(* generated by translator/cmd/pbfcode from osmpbf/decode_data.go, osmpbf/decode.go, osmpbf/internal/osmpbf/*.pb.go; do not edit *)\n")
	b.WriteString("From Coq Require Import ZArith List String.\nFrom Verif Require Import Pbf.ProtoTypes.\nImport ListNotations.\nOpen Scope Z_scope.\nOpen Scope string_scope.\n\n")

	// ---------- decode_data.go ----------
	file := parseFile(filepath.Join(repo, "osmpbf", "decode_data.go"))
	helpers := inlineFile(file) // normal form: helpers and closures inlined into their call sites
	guardToSwitch(file)         // ... and one-armed negative guards written as switches
	for _, d := range file.Decls {
		if fd, ok := d.(*ast.FuncDecl); ok && !helpers[fd.Name.Name] {
			projectLocals(fd) // ... and locals that only name a field path / bundle values replaced by what they name
		}
	}
	if os.Getenv("PBFCODE_DUMP") != "" {
		printer.Fprint(os.Stderr, fset, file)
	}
	fi := &fileInfo{funcs: map[string]*ast.FuncDecl{}, fieldTypes: map[string]string{}}
	for _, d := range file.Decls {
		switch x := d.(type) {
		case *ast.FuncDecl:
			if helpers[x.Name.Name] {
				continue // lives on, inlined, in its callers
			}
			fi.funcs[x.Name.Name] = x
		case *ast.GenDecl:
			for _, s := range x.Specs {
				ts, ok := s.(*ast.TypeSpec)
				if !ok {
					continue
				}
				st, ok := ts.Type.(*ast.StructType)
				if !ok {
					continue
				}
				for _, f := range st.Fields.List {
					t := typeName(f.Type)
					if builtinTypes[t] || t == "" {
						continue
					}
					for _, n := range f.Names {
						fi.fieldTypes[n.Name] = t
					}
				}
			}
		}
	}
	curFieldTypes = fi.fieldTypes
	var names []string
	all := map[string][]arm{}
	for fn, fd := range fi.funcs {
		for name, arms := range fi.dispatches(fd) {
			all[name] = arms
			names = append(names, name)
			_ = fn
		}
	}
	sort.Strings(names)
	b.WriteString("(* field dispatch of the block decoder, one definition per `switch x.FieldNumber()` *)\n")
	for _, name := range names {
		fmt.Fprintf(&b, "Definition dispatch_%s : list darm := [", name)
		for i, a := range all[name] {
			if i > 0 {
				b.WriteString(";")
			}
			fmt.Fprintf(&b, "\n  mkArm %d %s %s %s %s", a.num, tr.CoqString(a.guard), coqList(a.msg), coqList(a.elem), coqList(a.targets))
		}
		b.WriteString("].\n")
	}
	fmt.Fprintf(&b, "Definition dispatch_names : list string := %s.\n\n", coqList(names))

	// loop-body structure: found-flag rules, accumulation kinds, value formulas
	var fnList []string
	for n := range fi.funcs {
		fnList = append(fnList, n)
	}
	sort.Strings(fnList)
	for _, fn := range fnList {
		rules := fi.foundRules(fi.funcs[fn])
		if len(rules) == 0 {
			continue
		}
		fmt.Fprintf(&b, "Definition found_%s : list frule := [", fn)
		for i, r := range rules {
			if i > 0 {
				b.WriteString(";")
			}
			fmt.Fprintf(&b, "\n  mkFR %s %s %s %s", tr.CoqString(r.kind), coqArmRefs(r.flags), coqArmRefs(r.nils), coqList(r.info))
		}
		b.WriteString("].\n")
	}
	for _, name := range names {
		// accumulation kind per iterator arm
		var rows []string
		fdName := strings.SplitN(name, "_", 2)[0]
		fd := fi.funcs[fdName]
		mv := "msg"
		if strings.Contains(name, "_info") {
			mv = "info"
		}
		ast.Inspect(fd.Body, func(n ast.Node) bool {
			sw, ok := n.(*ast.SwitchStmt)
			if !ok || sw.Tag == nil || fieldNumberRecv(sw.Tag) == "" || canonMsg(fd, fieldNumberRecv(sw.Tag)) != mv {
				return true
			}
			mvReal := fieldNumberRecv(sw.Tag)
			for _, st := range sw.Body.List {
				cc := st.(*ast.CaseClause)
				if len(cc.List) != 1 {
					continue
				}
				bl, ok := cc.List[0].(*ast.BasicLit)
				if !ok {
					continue
				}
				for _, bs := range cc.Body {
					as, ok := bs.(*ast.AssignStmt)
					if !ok || len(as.Rhs) != 1 {
						continue
					}
					if r, m, ok := isAccessorCall(as.Rhs[0]); ok && r == mvReal && m == "Iterator" {
						it := render(as.Lhs[0])
						kind := ""
						for _, fn2 := range fnList {
							f2 := fi.funcs[fn2]
							for _, sc := range scopesWith(f2, it) {
								if k := accumKind(sc, f2, it); k != "" {
									kind = k
								}
							}
							// through one call level
							ast.Inspect(f2.Body, func(m ast.Node) bool {
								c, ok := m.(*ast.CallExpr)
								if !ok {
									return true
								}
								var callee *ast.FuncDecl
								if id, ok := c.Fun.(*ast.Ident); ok {
									callee = fi.funcs[id.Name]
								}
								if callee == nil {
									return true
								}
								for i, a := range c.Args {
									if render(a) != it {
										continue
									}
									k := 0
									for _, p := range callee.Type.Params.List {
										for _, pn := range p.Names {
											if k == i {
												if kk := accumKind(callee.Body, callee, pn.Name); kk != "" {
													kind = kk
												}
											}
											k++
										}
									}
								}
								return true
							})
						}
						rows = append(rows, fmt.Sprintf("(%s, %s)", bl.Value, tr.CoqString(kind)))
					}
				}
			}
			return false
		})
		if len(rows) > 0 {
			fmt.Fprintf(&b, "Definition accum_%s : list (Z * string) := [%s].\n", name, strings.Join(rows, "; "))
		}
	}
	b.WriteString("Definition formulas : list (string * string * string) := [")
	firstF := true
	for _, fn := range fnList {
		for _, f := range fi.formulas(fi.funcs[fn]) {
			if !firstF {
				b.WriteString(";")
			}
			firstF = false
			fmt.Fprintf(&b, "\n  (%s, %s, %s)", tr.CoqString(fn), tr.CoqString(f[0]), tr.CoqString(f[1]))
		}
	}
	b.WriteString("].\n\n")
	// floating-point literals of decode_data.go (the coordinate factor)
	var floats []string
	ast.Inspect(file, func(n ast.Node) bool {
		if bl, ok := n.(*ast.BasicLit); ok && bl.Kind == token.FLOAT {
			floats = addUniq(floats, bl.Value)
		}
		return true
	})
	fmt.Fprintf(&b, "Definition float_literals_decode_data : list string := %s.\n", coqList(floats))
	// generated getters (with the .proto defaults) called per function: x.GetGranularity() ...
	b.WriteString("Definition block_getters : list (string * list string) := [")
	var fnames []string
	for n := range fi.funcs {
		fnames = append(fnames, n)
	}
	sort.Strings(fnames)
	firstG := true
	for _, fn := range fnames {
		var gs []string
		ast.Inspect(fi.funcs[fn].Body, func(n ast.Node) bool {
			if c, ok := n.(*ast.CallExpr); ok {
				if sel, ok := c.Fun.(*ast.SelectorExpr); ok && strings.HasPrefix(sel.Sel.Name, "Get") && len(c.Args) == 0 {
					gs = addUniq(gs, sel.Sel.Name)
				}
			}
			return true
		})
		if len(gs) == 0 {
			continue
		}
		sort.Strings(gs)
		if !firstG {
			b.WriteString("; ")
		}
		firstG = false
		fmt.Fprintf(&b, "(%s, %s)", tr.CoqString(fn), coqList(gs))
	}
	b.WriteString("].\n")

	// slice discipline of decode_data.go (normal form): the SET of ways slices are made, grown and
	// re-sliced.  Returned objects stay unmodified because every slice handed out was made for
	// its object (make), grown only while the object is still the decoder's (append to n.Tags /
	// dec.q) and re-sliced only to length 0 on the reject path; any other re-slicing (x[:n], x[n:])
	// or a new append target shows up here.
	{
		ops := map[string]bool{}
		target := func(e ast.Expr) string {
			switch x := e.(type) {
			case *ast.SelectorExpr:
				return "." + x.Sel.Name
			case *ast.Ident:
				return "local"
			}
			return "expr"
		}
		for fname, fd := range fi.funcs { // per function of the normal form (helpers live inlined in their callers)
			fname := fname
			ranged := map[ast.Expr]bool{} // a slice expression that is only iterated over (for ... range x[i:]) writes nothing
			madeHere := map[string]bool{} // locals defined by x := make(...) in this function: growing them is part of making them
			ast.Inspect(fd, func(n ast.Node) bool {
				if rs, ok := n.(*ast.RangeStmt); ok {
					ranged[rs.X] = true
				}
				if as, ok := n.(*ast.AssignStmt); ok && as.Tok == token.DEFINE && len(as.Lhs) == 1 && len(as.Rhs) == 1 {
					if c, ok := as.Rhs[0].(*ast.CallExpr); ok {
						if id, ok := c.Fun.(*ast.Ident); ok && id.Name == "make" {
							if l, ok := as.Lhs[0].(*ast.Ident); ok {
								madeHere[l.Name] = true
							}
						}
					}
				}
				return true
			})
			ast.Inspect(fd, func(n ast.Node) bool {
				switch x := n.(type) {
				case *ast.CallExpr:
					if id, ok := x.Fun.(*ast.Ident); ok && len(x.Args) > 0 {
						switch id.Name {
						case "make": // make(T, n) + index writes and make(T, 0, n) + append build the same fresh slice
							ops[fname+": make "+render(x.Args[0])] = true
						case "append":
							if l, ok := x.Args[0].(*ast.Ident); ok && madeHere[l.Name] {
								break // still building the slice it made
							}
							ops[fname+": append "+target(x.Args[0])] = true
						}
					}
				case *ast.SliceExpr:
					if bl, ok := x.High.(*ast.BasicLit); ok && x.Low == nil && x.Max == nil && bl.Value == "0" {
						ops[fname+": slice[:0]"] = true // whatever is truncated (field or a local copy of it): length 0
					} else if ranged[ast.Expr(x)] {
						// read-only iteration
					} else {
						ops[fname+": reslice "+render(x)] = true
					}
				}
				return true
			})
		}
		var l []string
		for k := range ops {
			l = append(l, k)
		}
		sort.Strings(l)
		fmt.Fprintf(&b, "\n(* how decode_data.go makes, grows and re-slices slices (a set) *)\nDefinition slice_ops : list string := %s.\n", coqList(l))
	}

	// ---------- decode.go: decodeOSMHeader ----------
	dfile := parseFile(filepath.Join(repo, "osmpbf", "decode.go"))
	inlineFile(dfile)
	var hdr *ast.FuncDecl
	for _, d := range dfile.Decls {
		if fd, ok := d.(*ast.FuncDecl); ok && fd.Name.Name == "decodeOSMHeader" {
			hdr = fd
		}
	}
	if hdr == nil {
		fail("decodeOSMHeader not found")
	}
	// the variable holding the unmarshalled HeaderBlock
	hb := ""
	ast.Inspect(hdr.Body, func(n ast.Node) bool {
		if as, ok := n.(*ast.AssignStmt); ok && as.Tok == token.DEFINE && len(as.Rhs) == 1 {
			r := as.Rhs[0]
			if u, ok := r.(*ast.UnaryExpr); ok && u.Op == token.AND {
				r = u.X
			}
			if cl, ok := r.(*ast.CompositeLit); ok && typeName(cl.Type) == "HeaderBlock" {
				hb = render(as.Lhs[0])
			}
		}
		return true
	})
	if hb == "" {
		fail("decodeOSMHeader: no HeaderBlock variable")
	}
	// source of a value expression: the selector chains rooted at hb (Get prefix of getters removed)
	// locals that merely name a part of the header block (ts := hb.X; bbox := hb.Bbox; req := hb.GetY(),
	// also in the init clause of an if): alias -> path below hb
	alias := map[string]string{}
	hbPath := func(e ast.Expr) (string, bool) {
		switch x := e.(type) {
		case *ast.CallExpr:
			if s, ok := x.Fun.(*ast.SelectorExpr); ok && len(x.Args) == 0 {
				if p := lpath(s); p != nil && p[0] == hb && len(p) > 1 {
					p[len(p)-1] = strings.TrimPrefix(p[len(p)-1], "Get")
					return strings.Join(p[1:], "."), true
				}
			}
		case *ast.SelectorExpr:
			if p := lpath(x); p != nil && len(p) > 1 {
				if p[0] == hb {
					return strings.Join(p[1:], "."), true
				}
				if a, ok := alias[p[0]]; ok {
					return a + "." + strings.Join(p[1:], "."), true
				}
			}
		}
		return "", false
	}
	ast.Inspect(hdr.Body, func(n ast.Node) bool {
		if as, ok := n.(*ast.AssignStmt); ok && as.Tok == token.DEFINE && len(as.Lhs) == 1 && len(as.Rhs) == 1 {
			if id, ok := as.Lhs[0].(*ast.Ident); ok {
				if p, ok := hbPath(as.Rhs[0]); ok {
					alias[id.Name] = p
				}
			}
		}
		return true
	})
	sources := func(e ast.Expr) []string {
		var out []string
		ast.Inspect(e, func(n ast.Node) bool {
			var p []string
			switch x := n.(type) {
			case *ast.Ident:
				if a, ok := alias[x.Name]; ok {
					out = addUniq(out, a)
				}
				return true
			case *ast.CallExpr:
				if s, ok := x.Fun.(*ast.SelectorExpr); ok {
					p = lpath(s)
					if p != nil && p[0] == hb {
						p[len(p)-1] = strings.TrimPrefix(p[len(p)-1], "Get")
						out = addUniq(out, strings.Join(p[1:], "."))
						return false
					}
				}
				return true
			case *ast.SelectorExpr:
				p = lpath(x)
				if p != nil && p[0] == hb && len(p) > 1 {
					out = addUniq(out, strings.Join(p[1:], "."))
					return false
				}
				if p != nil && len(p) > 1 {
					if a, ok := alias[p[0]]; ok {
						out = addUniq(out, a+"."+strings.Join(p[1:], "."))
						return false
					}
				}
			}
			return true
		})
		return out
	}
	type hm struct{ field, src string }
	var hmap []hm
	var floatsH []string
	var compositeOf func(prefix string, cl *ast.CompositeLit)
	compositeOf = func(prefix string, cl *ast.CompositeLit) {
		for _, el := range cl.Elts {
			kv, ok := el.(*ast.KeyValueExpr)
			if !ok {
				continue
			}
			for _, s := range sources(kv.Value) {
				hmap = append(hmap, hm{prefix + render(kv.Key), s})
			}
		}
	}
	hv := varTypes(hdr)
	ast.Inspect(hdr.Body, func(n ast.Node) bool {
		switch x := n.(type) {
		case *ast.BasicLit:
			if x.Kind == token.FLOAT {
				floatsH = addUniq(floatsH, x.Value)
			}
		case *ast.AssignStmt:
			for i, l := range x.Lhs {
				if i >= len(x.Rhs) {
					break
				}
				r := x.Rhs[i]
				if u, ok := r.(*ast.UnaryExpr); ok && u.Op == token.AND {
					r = u.X
				}
				if id, ok := l.(*ast.Ident); ok {
					if cl, ok := r.(*ast.CompositeLit); ok && hv[id.Name] == "Header" {
						compositeOf("", cl)
					}
					continue
				}
				p := lpath(l)
				if len(p) == 2 && hv[p[0]] == "Header" {
					if cl, ok := r.(*ast.CompositeLit); ok {
						compositeOf(p[1]+".", cl)
					} else {
						for _, s := range sources(x.Rhs[i]) {
							hmap = append(hmap, hm{p[1], s})
						}
					}
				}
			}
		}
		return true
	})
	sort.SliceStable(hmap, func(i, j int) bool { return hmap[i].field < hmap[j].field })
	b.WriteString("\n(* decodeOSMHeader: Header field <- HeaderBlock getter / field *)\nDefinition header_map : list (string * string) := [")
	for i, h := range hmap {
		if i > 0 {
			b.WriteString("; ")
		}
		fmt.Fprintf(&b, "(%s, %s)", tr.CoqString(h.field), tr.CoqString(h.src))
	}
	b.WriteString("].\n")
	fmt.Fprintf(&b, "Definition float_literals_decodeOSMHeader : list string := %s.\n", coqList(floatsH))

	// ---------- *.pb.go: struct tags and defaults ----------
	b.WriteString("\n(* generated protobuf structs: Go field name and its protobuf struct tag *)\nDefinition pbgo_structs : list (string * list gofield) := [")
	firstS := true
	var defaults []string
	for _, f := range []string{"fileformat.pb.go", "osmformat.pb.go"} {
		pf := parseFile(filepath.Join(repo, "osmpbf", "internal", "osmpbf", f))
		for _, d := range pf.Decls {
			gd, ok := d.(*ast.GenDecl)
			if !ok {
				continue
			}
			for _, s := range gd.Specs {
				switch x := s.(type) {
				case *ast.ValueSpec:
					for i, n := range x.Names {
						if strings.HasPrefix(n.Name, "Default_") && i < len(x.Values) {
							v := x.Values[i]
							if c, ok := v.(*ast.CallExpr); ok && len(c.Args) == 1 {
								v = c.Args[0]
							}
							defaults = append(defaults, fmt.Sprintf("(%s, %s)", tr.CoqString(strings.TrimPrefix(n.Name, "Default_")), tr.CoqString(render(v))))
						}
					}
				case *ast.TypeSpec:
					st, ok := x.Type.(*ast.StructType)
					if !ok {
						continue
					}
					var rows []string
					for _, fld := range st.Fields.List {
						if fld.Tag == nil || len(fld.Names) != 1 {
							continue
						}
						tag, _ := strconv.Unquote(fld.Tag.Value)
						pb := reflect.StructTag(tag).Get("protobuf")
						if pb == "" {
							continue
						}
						parts := strings.Split(pb, ",")
						if len(parts) < 3 {
							fail("%s.%s: unexpected protobuf tag %q", x.Name.Name, fld.Names[0].Name, pb)
						}
						num, err := strconv.Atoi(parts[1])
						if err != nil {
							fail("%s.%s: bad field number", x.Name.Name, fld.Names[0].Name)
						}
						name, packed, def := "", false, "None"
						for _, p := range parts[3:] {
							switch {
							case strings.HasPrefix(p, "name="):
								name = p[5:]
							case p == "packed":
								packed = true
							case strings.HasPrefix(p, "def="):
								def = "Some " + tr.CoqString(p[4:])
							}
						}
						rows = append(rows, fmt.Sprintf("\n    mkGF %s %s %d %s %s %v (%s)", tr.CoqString(fld.Names[0].Name), tr.CoqString(parts[0]), num,
							tr.CoqString(parts[2]), tr.CoqString(name), packed, def))
					}
					if len(rows) == 0 {
						continue
					}
					if !firstS {
						b.WriteString(";")
					}
					firstS = false
					fmt.Fprintf(&b, "\n  (%s, [%s])", tr.CoqString(x.Name.Name), strings.Join(rows, ";"))
				}
			}
		}
	}
	b.WriteString("].\n")
	fmt.Fprintf(&b, "Definition pbgo_defaults : list (string * string) := [%s].\n", strings.Join(defaults, "; "))
	if err := tr.Emit(filepath.Join(out, "GenPbfCode.v"), b.Bytes()); err != nil {
		fail("%v", err)
	}
}
