// pipeline: re-reads from /repo/osmpbf/decode.go, osmpbf/scanner.go and osmxml/scanner.go the
// pieces of control structure the L3 pipeline model (coq/theories/Pipeline/Model.v) transcribes,
// and emits coq/gen/GenPipeline.v:
//   - the operator of the reader goroutine's loop condition (&& vs ||) and the shape of its operands,
//   - the channel budget expression `10 / n`, its use as capacity of every input/output channel,
//     and the capacity `n` of the ordered (serializer) channel,
//   - the round-robin expressions `(i + 1) % n` of reader and serializer, wg.Add(n + 2),
//   - whether the serializer goroutine re-checks ctx.Err() between its two selects, and whether it
//     assigns dec.cData.Err,
//   - how Next treats a closed ordered channel (cData.Err, then ctx.Err(), then io.EOF) and io.EOF,
//   - the guard of Scanner.Scan, the order of the tests in Scanner.Err, Close (closed, cancel, Wait),
//   - the same for the XML scanner.
//
// Anything it does not recognise is reported as the string "?" / false, so that the GenOk
// obligations (coq/theories/Pipeline/GenOk.v) fail.      usage: pipeline <repo> <outdir>
package main

import (
	"bytes"
	"fmt"
	"go/ast"
	"go/parser"
	"go/printer"
	"go/token"
	"os"
	"path/filepath"
	"regexp"
	"strings"

	"verif/translator/tr"
)

var fset = token.NewFileSet()

var (
	rrRe         = regexp.MustCompile(`^(\w+) = \((\w+) \+ 1\) % n$`)
	inputIdxRe   = regexp.MustCompile(`\w+ := dec\.inputs\[\w+\]`)
	outputIdxRe  = regexp.MustCompile(`\w+ := dec\.outputs\[\w+\]`)
	rangeRe      = regexp.MustCompile(`for \w+ := range \w+ \{`)
	deferCloseRe = regexp.MustCompile(`defer close\(\w+\)`)
	closeRangeRe = regexp.MustCompile(`for _, (\w+) := range dec\.inputs \{ close\((\w+)\) \}`)
	errRetRe     = regexp.MustCompile(`if \w+\.Err != nil \{ return \}`)
	cdataSetRe   = regexp.MustCompile(`dec\.cData = \w+`)
	retObjRe     = regexp.MustCompile(`return \w+, dec\.cData\.Err`)
	eofCondRe    = regexp.MustCompile(`^\w+\.Err == io\.EOF$`)
)

func src(n ast.Node) string {
	var b bytes.Buffer
	printer.Fprint(&b, fset, n)
	return strings.Join(strings.Fields(b.String()), " ")
}

func parse(path string) *ast.File {
	f, err := parser.ParseFile(fset, path, nil, 0)
	if err != nil {
		fmt.Fprintln(os.Stderr, "translator pipeline:", err)
		os.Exit(1)
	}
	return f
}

func method(f *ast.File, recv, name string) *ast.FuncDecl {
	for _, d := range f.Decls {
		fd, ok := d.(*ast.FuncDecl)
		if !ok || fd.Name.Name != name {
			continue
		}
		if recv == "" && fd.Recv == nil {
			return fd
		}
		if fd.Recv != nil && len(fd.Recv.List) == 1 && strings.TrimPrefix(src(fd.Recv.List[0].Type), "*") == recv {
			return fd
		}
	}
	return nil
}

func coqBool(b bool) string {
	if b {
		return "true"
	}
	return "false"
}

func coqStrs(l []string) string {
	q := make([]string, len(l))
	for i, s := range l {
		q[i] = tr.CoqString(s)
	}
	return "[" + strings.Join(q, "; ") + "]"
}

// goroutine bodies inside a function, in source order: func literals started with `go`, or
// `go recv.method(...)` where method is declared in the same file (its body is used)
func goBodies(file *ast.File, fd *ast.FuncDecl) []*ast.BlockStmt {
	var out []*ast.BlockStmt
	ast.Inspect(fd.Body, func(n ast.Node) bool {
		if g, ok := n.(*ast.GoStmt); ok {
			switch f := g.Call.Fun.(type) {
			case *ast.FuncLit:
				out = append(out, f.Body)
			case *ast.SelectorExpr:
				if m := anyMethod(file, f.Sel.Name); m != nil {
					out = append(out, m.Body)
				}
			}
		}
		return true
	})
	return out
}

// anyMethod: a method (any receiver) or function of that name in the file
func anyMethod(f *ast.File, name string) *ast.FuncDecl {
	for _, d := range f.Decls {
		if fd, ok := d.(*ast.FuncDecl); ok && fd.Name.Name == name {
			return fd
		}
	}
	return nil
}

// intConsts: package-level integer constants given by literals
func intConsts(f *ast.File) map[string]string {
	out := map[string]string{}
	for _, d := range f.Decls {
		gd, ok := d.(*ast.GenDecl)
		if !ok || gd.Tok != token.CONST {
			continue
		}
		for _, sp := range gd.Specs {
			vs := sp.(*ast.ValueSpec)
			for i, n := range vs.Names {
				if i < len(vs.Values) {
					if lit, ok := vs.Values[i].(*ast.BasicLit); ok && lit.Kind == token.INT {
						out[n.Name] = lit.Value
					}
				}
			}
		}
	}
	return out
}

// chanRoles maps local channel variables to what they denote, from their defining assignment or
// range clause anywhere in the given scopes: dec.inputs[_], dec.outputs[_], make(chan T, _).
func chanRoles(skip map[ast.Node]bool, scopes ...ast.Node) map[string]string {
	roles := map[string]string{}
	role := func(e ast.Expr) string {
		t := src(e)
		switch {
		case strings.HasPrefix(t, "dec.inputs["):
			return "dec.inputs[_]"
		case strings.HasPrefix(t, "dec.outputs["):
			return "dec.outputs[_]"
		case strings.HasPrefix(t, "make(chan "):
			return strings.TrimSuffix(strings.SplitN(strings.TrimPrefix(t, "make("), ",", 2)[0], ")")
		}
		return ""
	}
	for _, sc := range scopes {
		if sc == nil {
			continue
		}
		ast.Inspect(sc, func(n ast.Node) bool {
			if n != nil && skip[n] {
				return false
			}
			switch x := n.(type) {
			case *ast.AssignStmt:
				if len(x.Lhs) == 1 && len(x.Rhs) == 1 {
					if id, ok := x.Lhs[0].(*ast.Ident); ok {
						if r := role(x.Rhs[0]); r != "" {
							roles[id.Name] = r
						}
					}
				}
			case *ast.RangeStmt:
				if id, ok := x.Value.(*ast.Ident); ok && x.Value != nil {
					switch src(x.X) {
					case "dec.outputs":
						roles[id.Name] = "dec.outputs[_]"
					case "dec.inputs":
						roles[id.Name] = "dec.inputs[_]"
					}
				}
			}
			return true
		})
	}
	return roles
}

// canonical rendering of a channel operand / a comm clause: locals are replaced by their role,
// the transmitted value and the receiving variable are dropped
func chanName(e ast.Expr, roles map[string]string) string {
	if id, ok := e.(*ast.Ident); ok {
		if r, ok := roles[id.Name]; ok {
			return r
		}
	}
	t := src(e)
	if strings.HasPrefix(t, "dec.inputs[") {
		return "dec.inputs[" + strings.TrimSuffix(strings.TrimPrefix(t, "dec.inputs["), "]") + "]"
	}
	return t
}

func canonComm(st ast.Stmt, roles map[string]string) string {
	recv := func(e ast.Expr) (string, bool) {
		if u, ok := e.(*ast.UnaryExpr); ok && u.Op == token.ARROW {
			c := src(u.X)
			if strings.HasSuffix(c, ".Done()") {
				return "done " + strings.TrimSuffix(c, ".Done()"), true
			}
			return "recv " + chanName(u.X, roles), true
		}
		return "", false
	}
	switch x := st.(type) {
	case *ast.SendStmt:
		return "send " + chanName(x.Chan, roles)
	case *ast.ExprStmt:
		if r, ok := recv(x.X); ok {
			return r
		}
	case *ast.AssignStmt:
		if len(x.Rhs) == 1 {
			if r, ok := recv(x.Rhs[0]); ok {
				return r
			}
		}
	}
	return "? " + src(st)
}

func contains(n ast.Node, sub string) bool { return n != nil && strings.Contains(src(n), sub) }

func main() {
	repo, out := os.Args[1], os.Args[2]
	dec := parse(filepath.Join(repo, "osmpbf", "decode.go"))
	scn := parse(filepath.Join(repo, "osmpbf", "scanner.go"))
	xml := parse(filepath.Join(repo, "osmxml", "scanner.go"))

	var b bytes.Buffer
	b.WriteString("(* GENERATED by /verif/translator/cmd/pipeline from /repo/osmpbf/decode.go, osmpbf/scanner.go, osmxml/scanner.go — do not edit. *)\n")
	b.WriteString("From Coq Require Import String List Bool.\nImport ListNotations.\nOpen Scope string_scope.\n\n")
	def := func(name, typ, val, comment string) {
		fmt.Fprintf(&b, "(* %s *)\nDefinition %s : %s := %s.\n", strings.ReplaceAll(comment, "*)", "* )"), name, typ, val)
	}

	start := method(dec, "decoder", "Start")
	if start == nil {
		fmt.Fprintln(os.Stderr, "translator pipeline: decoder.Start not found")
		os.Exit(1)
	}
	// the set-up code: Start and, transitively, the unexported methods of the decoder it calls
	// directly (a Start split into helpers means the same); goroutine bodies are found in all of them
	scope := []*ast.FuncDecl{start}
	seen := map[string]bool{"Start": true, "readFileBlock": true}
	for i := 0; i < len(scope) && i < 8; i++ {
		ast.Inspect(scope[i].Body, func(n ast.Node) bool {
			if _, isGo := n.(*ast.GoStmt); isGo {
				return false // `go dec.m()` is a goroutine body, handled by goBodies
			}
			if call, ok := n.(*ast.CallExpr); ok {
				if sel, ok := call.Fun.(*ast.SelectorExpr); ok && src(sel.X) == "dec" && !ast.IsExported(sel.Sel.Name) && !seen[sel.Sel.Name] {
					if m := method(dec, "decoder", sel.Sel.Name); m != nil {
						seen[sel.Sel.Name] = true
						scope = append(scope, m)
					}
				}
			}
			return true
		})
	}
	var bodies []*ast.BlockStmt
	for _, fd := range scope {
		bodies = append(bodies, goBodies(dec, fd)...)
	}
	scopeNodes := make([]ast.Node, 0, len(scope)+1)
	for _, fd := range scope {
		scopeNodes = append(scopeNodes, fd)
	}
	// classify goroutines: worker (ranges over input), reader (calls readFileBlock), serializer (sends on dec.serializer)
	var worker, reader, ser *ast.BlockStmt
	for _, g := range bodies {
		switch {
		case contains(g, "dec.serializer <-"):
			ser = g
		case contains(g, "readFileBlock"):
			reader = g
		case rangeRe.MatchString(src(g)):
			worker = g
		}
	}
	def("goroutine_kinds_found", "bool", coqBool(worker != nil && reader != nil && ser != nil && len(bodies) == 3), "Start launches exactly: workers (in a loop), the reader, the serializer")

	// 0. the blocking operations of each goroutine: every select with its cases, every channel
	// operation outside a select, and any use of timers
	// roles of local channel variables as seen from goroutine g: the enclosing Start (without the
	// other goroutines' bodies), then g's own body
	rolesFor := func(g *ast.BlockStmt) map[string]string {
		skip := map[ast.Node]bool{}
		for _, o := range bodies {
			if o != g {
				skip[o] = true
			}
		}
		return chanRoles(skip, append(append([]ast.Node{}, scopeNodes...), g)...)
	}
	roles := rolesFor(ser)
	selects := func(g *ast.BlockStmt) (sel []string, bare []string) {
		if g == nil {
			return []string{"?"}, []string{"?"}
		}
		roles := rolesFor(g)
		inSelect := map[ast.Node]bool{}
		ast.Inspect(g, func(n ast.Node) bool {
			if s, ok := n.(*ast.SelectStmt); ok {
				var cases []string
				for _, c := range s.Body.List {
					cc := c.(*ast.CommClause)
					if cc.Comm == nil {
						cases = append(cases, "default")
					} else {
						cases = append(cases, canonComm(cc.Comm, roles))
						ast.Inspect(cc.Comm, func(m ast.Node) bool {
							if m != nil {
								inSelect[m] = true
							}
							return true
						})
					}
				}
				sortStrings(cases)
				sel = append(sel, strings.Join(cases, " | "))
			}
			return true
		})
		ast.Inspect(g, func(n ast.Node) bool {
			switch x := n.(type) {
			case *ast.SendStmt:
				if !inSelect[x] {
					bare = append(bare, canonComm(x, roles))
				}
			case *ast.UnaryExpr:
				if x.Op == token.ARROW && !inSelect[x] {
					bare = append(bare, canonComm(&ast.ExprStmt{X: x}, roles))
				}
			}
			return true
		})
		return sel, bare
	}
	for _, g := range []struct {
		name string
		body *ast.BlockStmt
	}{{"reader", reader}, {"worker", worker}, {"ser", ser}} {
		sel, bare := selects(g.body)
		def(g.name+"_selects", "list string", coqStrs(sel), "every select of the "+g.name+" goroutine: its cases, sorted, joined by |")
		def(g.name+"_bare_chan_ops", "list string", coqStrs(bare), "channel sends/receives of the "+g.name+" goroutine outside any select")
	}
	usesTime := false
	for _, fd := range scope {
		usesTime = usesTime || contains(fd, "time.")
	}
	for _, g := range bodies {
		usesTime = usesTime || contains(g, "time.")
	}
	def("start_uses_timers", "bool", coqBool(usesTime), "decoder.Start or one of its goroutines mentions package time (timers, timeouts)")

	// 1. reader loop
	loopOp, lhs, rhs := "?", "?", "?"
	readerRR := 0
	if reader != nil {
		ast.Inspect(reader, func(n ast.Node) bool {
			if f, ok := n.(*ast.ForStmt); ok && f.Cond != nil && contains(f.Body, "readFileBlock") {
				if be, ok := f.Cond.(*ast.BinaryExpr); ok {
					loopOp, lhs, rhs = be.Op.String(), src(be.X), src(be.Y)
				} else {
					loopOp = src(f.Cond)
				}
			}
			if a, ok := n.(*ast.AssignStmt); ok && rrRe.MatchString(src(a)) {
				readerRR++
			}
			return true
		})
	}
	def("reader_loop_op", "string", tr.CoqString(loopOp), "operator of the reader goroutine's for condition")
	def("reader_loop_operands", "list string", coqStrs([]string{lhs, rhs}), "its operands")
	def("reader_round_robin_count", "nat", fmt.Sprint(readerRR), "occurrences of `i = (i + 1) % n` in the reader (resume push + loop)")
	def("reader_input_index", "bool", coqBool(inputIdxRe.MatchString(src(reader)) && contains(reader, "dec.inputs[0] <- iPair")), "loop sends to dec.inputs[i]; the first block of a resumed file goes to dec.inputs[0]")
	def("reader_closes_inputs", "bool", coqBool(closeRangeRe.MatchString(src(reader))), "deferred close of every input")

	// 2. capacities
	budget, budgetOK, capVar := "?", false, "?"
	inCap, outCap, serCap, wgAdd, clamp := "?", "?", "?", "?", false
	for _, fd := range scope {
		ast.Inspect(fd.Body, func(n ast.Node) bool {
			switch x := n.(type) {
			case *ast.AssignStmt:
				if len(x.Lhs) == 1 && len(x.Rhs) == 1 {
					l, r := src(x.Lhs[0]), x.Rhs[0]
					if be, ok := r.(*ast.BinaryExpr); ok && be.Op == token.QUO && src(be.Y) == "n" {
						if lit, ok := be.X.(*ast.BasicLit); ok && lit.Kind == token.INT {
							budget, budgetOK, capVar = lit.Value, true, l
						} else if id, ok := be.X.(*ast.Ident); ok {
							if v, ok := intConsts(dec)[id.Name]; ok { // a named package constant
								budget, budgetOK, capVar = v, true, l
							}
						}
					}
					if call, ok := r.(*ast.CallExpr); ok && src(call.Fun) == "make" && len(call.Args) == 2 {
						switch l {
						case "input":
							inCap = src(call.Args[1])
						case "output":
							outCap = src(call.Args[1])
						case "dec.serializer":
							serCap = src(call.Args[1])
						}
					}
				}
			case *ast.CallExpr:
				if src(x.Fun) == "dec.wg.Add" && len(x.Args) == 1 {
					wgAdd = src(x.Args[0])
				}
			case *ast.IfStmt:
				if src(x.Cond) == "n < 1" && contains(x.Body, "n = 1") {
					clamp = true
				}
			}
			return true
		})
	}
	if !budgetOK {
		budget = "0"
	}
	def("chan_budget", "nat", budget, "numChanels := <budget> / n")
	def("chan_budget_div_n", "bool", coqBool(budgetOK), "the capacity expression has the form <literal> / n")
	def("chan_caps_ok", "bool", coqBool(budgetOK && inCap == capVar && outCap == capVar && serCap == "n"), "input and output channels have capacity <budget>/n, the ordered channel has capacity n")
	def("wg_add", "string", tr.CoqString(wgAdd), "argument of dec.wg.Add")
	def("procs_clamped", "bool", coqBool(clamp), "if n < 1 { n = 1 }")

	// 3. worker
	def("worker_shape", "bool", coqBool(worker != nil && rangeRe.MatchString(src(worker)) && deferCloseRe.MatchString(src(worker))), "worker: ranges over its input channel, deferred close of its output (its select is in worker_selects)")

	// 4. serializer
	serRR, serRecheck, serWrites, serExit := false, false, false, false
	if ser != nil {
		// the round-robin loop, in either form:
		//   for i := 0; ; i = (i + 1) % n { output := dec.outputs[i]; BODY }
		//   for { for _, output := range dec.outputs { BODY } }
		var loopBody []ast.Stmt
		ast.Inspect(ser, func(n ast.Node) bool {
			f, ok := n.(*ast.ForStmt)
			if !ok || loopBody != nil {
				return true
			}
			if f.Cond == nil && f.Post != nil && rrRe.MatchString(src(f.Post)) && f.Init != nil && strings.HasSuffix(src(f.Init), ":= 0") &&
				outputIdxRe.MatchString(src(f.Body)) {
				loopBody = f.Body.List
			}
			if f.Cond == nil && f.Post == nil && f.Init == nil && len(f.Body.List) == 1 {
				if r, ok := f.Body.List[0].(*ast.RangeStmt); ok && src(r.X) == "dec.outputs" && r.Value != nil {
					loopBody = r.Body.List
				}
			}
			return true
		})
		serRR = loopBody != nil
		// the re-check must sit between the receive select and the send select
		stage := 0
		for _, st := range loopBody {
			switch x := st.(type) {
			case *ast.SelectStmt:
				cs := ""
				for _, c := range x.Body.List {
					if cc := c.(*ast.CommClause); cc.Comm != nil {
						cs += canonComm(cc.Comm, roles) + ";"
					}
				}
				if strings.Contains(cs, "recv dec.outputs[_]") && stage == 0 {
					stage = 1
				} else if strings.Contains(cs, "send dec.serializer") && stage == 2 {
					stage = 3
				}
			case *ast.IfStmt:
				if stage == 1 && src(x.Cond) == "dec.ctx.Err() != nil" && len(x.Body.List) == 1 && src(x.Body.List[0]) == "return" && x.Else == nil {
					stage = 2
				}
			}
		}
		serRecheck = stage == 3
		ast.Inspect(ser, func(n ast.Node) bool {
			if a, ok := n.(*ast.AssignStmt); ok && strings.HasPrefix(src(a.Lhs[0]), "dec.cData") {
				serWrites = true
			}
			return true
		})
		serExit = contains(ser, "close(dec.serializer)") && contains(ser, "dec.cancel()") && errRetRe.MatchString(src(ser))
	}
	def("ser_round_robin", "bool", coqBool(serRR), "round robin over dec.outputs: for i := 0; ; i = (i + 1) % n { dec.outputs[i] } or for { for range dec.outputs }")
	def("ser_recheck", "bool", coqBool(serRecheck), "if dec.ctx.Err() != nil { return } between the receive select and the send select")
	def("ser_writes_cdata", "bool", coqBool(serWrites), "the serializer goroutine assigns to dec.cData")
	def("ser_exit_shape", "bool", coqBool(serExit), "deferred close(dec.serializer) and dec.cancel(); return after forwarding a pair with Err != nil")

	// 5. Next
	next := method(dec, "decoder", "Next")
	var closedChecks []string
	nextEOF := false
	if next != nil {
		okVar := "?"
		ast.Inspect(next.Body, func(n ast.Node) bool {
			if a, ok := n.(*ast.AssignStmt); ok && len(a.Lhs) == 2 && len(a.Rhs) == 1 && src(a.Rhs[0]) == "<-dec.serializer" {
				okVar = src(a.Lhs[1])
			}
			return true
		})
		ast.Inspect(next.Body, func(n ast.Node) bool {
			if i, ok := n.(*ast.IfStmt); ok && src(i.Cond) == "!"+okVar {
				closedChecks = fallbackChain(dec, i.Body.List, 0)
			}
			if i, ok := n.(*ast.IfStmt); ok && eofCondRe.MatchString(src(i.Cond)) {
				nextEOF = contains(i.Body, "dec.cData.Err = io.EOF") && contains(i.Body, "return nil, io.EOF")
			}
			return true
		})
	}
	def("next_closed_checks", "list string", coqStrs(closedChecks), "the error Next reports when the ordered channel is closed: first non-nil of these, in order (normal form of early returns / fallback chains / helper methods)")
	def("next_stores_eof", "bool", coqBool(nextEOF), "on the EOF pair: dec.cData.Err = io.EOF; return nil, io.EOF")
	def("next_shape", "bool", coqBool(next != nil && contains(next, "for dec.cIndex >= len(dec.cData.Objects)") && cdataSetRe.MatchString(src(next)) &&
		contains(next, "dec.cIndex = 0") && retObjRe.MatchString(src(next))), "loop over empty blocks, cData = cd, cIndex = 0, return v, cData.Err")

	// 6. Scanner
	scan := method(scn, "Scanner", "Scan")
	guard := "?"
	if scan != nil {
		ast.Inspect(scan.Body, func(n ast.Node) bool {
			i, ok := n.(*ast.IfStmt)
			if !ok || !contains(i.Cond, "s.closed") || i.Else != nil {
				return true
			}
			if contains(i.Body, "return false") && !contains(i.Body, "Next()") {
				// if G { return false } ... Next
				guard = src(i.Cond)
			} else if contains(i.Body, "s.decoder.Next()") && !contains(i.Body, "return false") {
				// if C1 && C2 && ... { ...Next...; return ... }; return false   ==   guard = !C1 || !C2 || ...
				var neg []string
				for _, c := range strings.Split(src(i.Cond), " && ") {
					neg = append(neg, negate(strings.TrimSpace(c)))
				}
				guard = strings.Join(neg, " || ")
			}
			return true
		})
	}
	parts := strings.Split(guard, " || ")
	for i := range parts {
		parts[i] = strings.TrimSpace(parts[i])
	}
	sortStrings(parts)
	def("scan_guard", "list string", coqStrs(parts), "disjuncts (sorted) of the condition under which Scan returns false without calling Next")
	def("scan_calls_next", "bool", coqBool(scan != nil && contains(scan, "s.next, s.err = s.decoder.Next()") && contains(scan, "return s.err == nil")), "s.next, s.err = s.decoder.Next(); return s.err == nil")
	def("err_order", "list string", coqStrs(errOrder(method(scn, "Scanner", "Err"))), "tests of Scanner.Err in order")
	cl := method(scn, "Scanner", "Close")
	dcl := method(dec, "decoder", "Close")
	def("close_shape", "bool", coqBool(cl != nil && dcl != nil && contains(cl, "s.closed = true") && contains(cl, "s.decoder.Close()") &&
		stmtsAre(dcl, "dec.cancel()", "dec.wg.Wait()", "return nil")), "Close: closed = true, then cancel, then wg.Wait")

	// 7. XML scanner
	xscan := method(xml, "Scanner", "Scan")
	xfirst, xloop := false, false
	if xscan != nil && len(xscan.Body.List) > 0 {
		if i, ok := xscan.Body.List[0].(*ast.IfStmt); ok && src(i.Cond) == "s.err != nil" && contains(i.Body, "return false") {
			xfirst = true
		}
		ast.Inspect(xscan.Body, func(n ast.Node) bool {
			if f, ok := n.(*ast.ForStmt); ok && len(f.Body.List) > 0 {
				if i, ok := f.Body.List[0].(*ast.IfStmt); ok && src(i.Cond) == "s.ctx.Err() != nil" && contains(i.Body, "return false") {
					xloop = true
				}
			}
			return true
		})
	}
	def("xml_scan_guards", "bool", coqBool(xfirst && xloop), "XML Scan: returns false on s.err != nil, and on s.ctx.Err() != nil before every token")
	xcl := method(xml, "Scanner", "Close")
	def("xml_close_shape", "bool", coqBool(xcl != nil && contains(xcl, "s.closed = true") && contains(xcl, "s.done()")), "XML Close: closed = true and cancels its context")
	def("xml_err_order", "list string", coqStrs(errOrder(method(xml, "Scanner", "Err"))), "tests of the XML Scanner.Err in order")

	if err := tr.Emit(filepath.Join(out, "GenPipeline.v"), b.Bytes()); err != nil {
		fmt.Fprintln(os.Stderr, err)
		os.Exit(1)
	}
}

// negate a simple condition: x == nil <-> x != nil, !x <-> x
func negate(c string) string {
	switch {
	case strings.HasSuffix(c, " == nil"):
		return strings.TrimSuffix(c, " == nil") + " != nil"
	case strings.HasSuffix(c, " != nil"):
		return strings.TrimSuffix(c, " != nil") + " == nil"
	case strings.HasPrefix(c, "!") && !strings.ContainsAny(c, " "):
		return strings.TrimPrefix(c, "!")
	case !strings.ContainsAny(c, " "):
		return "!" + c
	}
	return "?not(" + c + ")"
}

func sortStrings(l []string) {
	for i := 1; i < len(l); i++ {
		for j := i; j > 0 && l[j] < l[j-1]; j-- {
			l[j], l[j-1] = l[j-1], l[j]
		}
	}
}

func stmtsAre(fd *ast.FuncDecl, want ...string) bool {
	if len(fd.Body.List) != len(want) {
		return false
	}
	for i, s := range fd.Body.List {
		if src(s) != want[i] {
			return false
		}
	}
	return true
}

// fallbackChain normalises "the first non-nil of e1, e2, ..." written as early returns
//
//	if e1 != nil { return [nil,] e1 }   /   if v := e1; v != nil { return [nil,] v }
//
// or as a fallback chain   v := e1; if v == nil { v = e2 }; ...; return [nil,] v
// or as a call of an unexported helper method whose body has one of these forms.
// Anything else yields an entry starting with "?".
func fallbackChain(file *ast.File, stmts []ast.Stmt, depth int) []string {
	var out []string
	chainVar := ""
	last := func(r *ast.ReturnStmt) ast.Expr {
		if len(r.Results) == 0 {
			return nil
		}
		return r.Results[len(r.Results)-1]
	}
	for _, st := range stmts {
		switch x := st.(type) {
		case *ast.IfStmt:
			cond := src(x.Cond)
			if x.Else != nil || len(x.Body.List) != 1 {
				return append(out, "? "+src(x))
			}
			// v == nil { v = e }
			if chainVar != "" && cond == chainVar+" == nil" {
				if a, ok := x.Body.List[0].(*ast.AssignStmt); ok && len(a.Lhs) == 1 && src(a.Lhs[0]) == chainVar && len(a.Rhs) == 1 {
					out = append(out, src(a.Rhs[0]))
					continue
				}
				return append(out, "? "+src(x))
			}
			r, ok := x.Body.List[0].(*ast.ReturnStmt)
			if !ok || last(r) == nil || !strings.HasSuffix(cond, " != nil") {
				return append(out, "? "+src(x))
			}
			tested := strings.TrimSuffix(cond, " != nil")
			if x.Init != nil { // if v := e; v != nil { return v }
				a, ok := x.Init.(*ast.AssignStmt)
				if !ok || len(a.Lhs) != 1 || len(a.Rhs) != 1 || src(a.Lhs[0]) != tested || src(last(r)) != tested {
					return append(out, "? "+src(x))
				}
				out = append(out, src(a.Rhs[0]))
			} else {
				if src(last(r)) != tested {
					return append(out, "? "+src(x))
				}
				out = append(out, tested)
			}
		case *ast.AssignStmt: // v := e1
			if chainVar == "" && len(x.Lhs) == 1 && len(x.Rhs) == 1 {
				chainVar = src(x.Lhs[0])
				out = append(out, src(x.Rhs[0]))
				continue
			}
			return append(out, "? "+src(x))
		case *ast.ReturnStmt:
			e := last(x)
			if e == nil {
				return append(out, "? "+src(x))
			}
			if chainVar != "" && src(e) == chainVar {
				return out
			}
			if call, ok := e.(*ast.CallExpr); ok && len(call.Args) == 0 && depth < 3 {
				if sel, ok := call.Fun.(*ast.SelectorExpr); ok && src(sel.X) == "dec" && !ast.IsExported(sel.Sel.Name) {
					if m := anyMethod(file, sel.Sel.Name); m != nil {
						return append(out, fallbackChain(file, m.Body.List, depth+1)...)
					}
				}
			}
			return append(out, src(e))
		default:
			return append(out, "? "+src(st))
		}
	}
	return append(out, "? falls off the end")
}

// errOrder lists, in order, condition -> result of the top-level statements of an Err method;
// an if chain and a tagless switch with the same tests normalise to the same list.
func errOrder(fd *ast.FuncDecl) []string {
	var out []string
	if fd == nil {
		return []string{"?"}
	}
	for _, st := range fd.Body.List {
		switch s := st.(type) {
		case *ast.IfStmt:
			r := "?"
			if len(s.Body.List) == 1 {
				r = src(s.Body.List[0])
			}
			out = append(out, src(s.Cond)+" -> "+r)
		case *ast.SwitchStmt:
			if s.Tag != nil || s.Init != nil {
				out = append(out, "?")
				continue
			}
			for _, c := range s.Body.List {
				cc := c.(*ast.CaseClause)
				r := "?"
				if len(cc.Body) == 1 {
					r = src(cc.Body[0])
				}
				switch {
				case cc.List == nil: // default
					out = append(out, r)
				case len(cc.List) == 1:
					out = append(out, src(cc.List[0])+" -> "+r)
				default:
					out = append(out, "?")
				}
			}
		case *ast.ReturnStmt:
			out = append(out, src(s))
		default:
			out = append(out, "?")
		}
	}
	return out
}
