// annotate: translates the small decision functions of the annotation core — timeThreshold,
// timeThresholdParent, absDuration, ChildList.FindVisible, ChildList.VersionBefore
// (annotate/internal/core/types.go), nextVersionIndex (compute.go), updateTimestamp, Child.Update
// (annotate/shared/child.go), updatesSortIndex.Less (update.go) — and the constant
// osm.CommitInfoStart (arguments of its time.Date literal) into coq/gen/GenAnnotate.v.
// They are proved equal to the hand model in theories/Annotate/GenOk.v.
//
// Own small imperative translator (pointers that may be nil are options; `x != nil` tests become
// matches; range loops with break/continue become fold_left over (assigned variables, done flag);
// an `if` that falls through duplicates the continuation; time.Time / Duration are Z).
// Anything outside the grammar is an error: the definition is then missing and GenOk fails.
//
//	usage: annotate <repo> <outdir>
package main

import (
	"bytes"
	"fmt"
	"go/ast"
	"go/constant"
	"go/printer"
	"go/token"
	"go/types"
	"os"
	"path/filepath"
	"sort"
	"strings"

	"verif/translator/tr"
)

type varInfo struct {
	coq  string
	opt  bool // Coq type is option _
	lit0 bool // known to be the literal 0 here (n := 0 just before a counting loop)
}

type fnCfg struct {
	key     string
	name    string
	params  string          // unused (binders are derived from the Go signature)
	optIdx  map[int]bool    // positions of Go parameters that may be nil
	optPar  map[string]bool // (legacy) Go parameters that may be nil
	optTy   map[string]bool // named types (pointer / interface) whose parameters may be nil
	optOut  []bool          // (out) which parameters are optional, in order
	result  string          // Coq result type
	optRes  bool            // result is option
	partial bool            // body may panic: results wrapped in Ok, index failure = Err EPanic
	elem    bool            // receiver slice indexed only by the int parameters: recv[i] is a_i
	noCis   bool
	lit     *ast.FuncLit // translate this function literal instead of the declaration named key
	litRecv string       // the slice the literal's int parameters index (elem mode)
	site    string       // also emit <name>_at: the call of the function in this caller, over canonical variables
	chk     bool         // also emit <name>_chk : res _, the same function with element reads X[i] that may panic
	binders []string     // (out) the binders of the definition
}

type T struct {
	p       *tr.Pkg
	cfg     *fnCfg
	env     map[string]*varInfo
	rcv     string
	recs    map[string]map[string]string // local struct values built from a composite literal: field -> term
	idxElem map[string]string            // "X[i]" inside a normalised index loop -> element variable
	nfresh  int
	count   string // set by the caller of loop: the index variable is a counter that stays visible
	g       *G
}

// G collects the helper functions translated on demand for one package.
type G struct {
	p     *tr.Pkg
	done  map[string]bool
	defs  []string
	stack map[string]bool
	noCis bool // the function being translated takes no cis: neither do its helpers
}

var childFields = map[string]string{"ID": "(c_id %s)", "Version": "(c_version %s)", "ChangesetID": "(c_changeset %s)",
	"VersionIndex": "(Z.of_nat (c_vidx %s))", "Timestamp": "(c_timestamp %s)", "Committed": "(c_committed %s)",
	"Lon": "(c_lon %s)", "Lat": "(c_lat %s)", "ReverseOfPrevious": "(c_reverse %s)", "Visible": "(c_visible %s)"}
var optsFields = map[string]string{"Threshold": "(o_threshold %s)", "IgnoreInconsistency": "(o_ignore_incons %s)",
	"IgnoreMissingChildren": "(o_ignore_missing %s)"}
var updateFields = map[string]string{"Index": "(Z.of_nat (u_index %s))", "Version": "(u_version %s)", "Timestamp": "(u_timestamp %s)",
	"ChangesetID": "(u_changeset %s)", "Lat": "(u_lat %s)", "Lon": "(u_lon %s)", "Reverse": "(u_reverse %s)"}
var parentMethods = map[string]string{"ChangesetID": "(p_changeset %s)", "Timestamp": "(p_timestamp %s)",
	"Committed": "(p_committed %s)", "Visible": "(p_visible %s)"}

// calls: Go function / method -> Coq function, whether it takes cis, whether its result is an option
var calls = map[string][3]string{
	"timeThreshold":           {"gen_time_threshold", "cis", ""},
	"timeThresholdParent":     {"gen_time_threshold_parent", "cis", ""},
	"absDuration":             {"gen_abs_duration", "", ""},
	"updateTimestamp":         {"gen_update_timestamp", "cis", ""},
	"ChildList.FindVisible":   {"gen_find_visible", "cis", "opt"},
	"ChildList.VersionBefore": {"gen_version_before", "cis", "opt"},
}

func (t *T) src(n ast.Node) string {
	var b bytes.Buffer
	printer.Fprint(&b, t.p.Fset, n)
	return strings.Join(strings.Fields(b.String()), " ")
}

func (t *T) errf(n ast.Node, f string, a ...interface{}) error {
	return fmt.Errorf("%s: %s", t.p.Pos(n), fmt.Sprintf(f, a...))
}

func named(ty types.Type) string {
	if p, ok := ty.(*types.Pointer); ok {
		ty = p.Elem()
	}
	if n, ok := ty.(*types.Named); ok {
		return n.Obj().Name()
	}
	return ""
}

func isTime(ty types.Type) bool {
	n, ok := ty.(*types.Named)
	return ok && n.Obj().Name() == "Time" && n.Obj().Pkg() != nil && n.Obj().Pkg().Path() == "time"
}

func isNil(e ast.Expr) bool {
	id, ok := e.(*ast.Ident)
	return ok && id.Name == "nil"
}

// expr translates an expression; opt = the term has an option type.
func (t *T) expr(e ast.Expr) (string, bool, error) {
	switch x := e.(type) {
	case *ast.ParenExpr:
		return t.expr(x.X)
	case *ast.Ident:
		switch x.Name {
		case "true", "false":
			return x.Name, false, nil
		case "nil":
			return "None", true, nil
		}
		if v, ok := t.env[x.Name]; ok {
			return v.coq, v.opt, nil
		}
		return "", false, t.errf(e, "unknown identifier %s", x.Name)
	case *ast.BasicLit:
		tv := t.p.Info.Types[e]
		if tv.Value != nil && tv.Value.Kind() == constant.Int {
			return tr.CoqZ(tv.Value), false, nil
		}
		return "", false, t.errf(e, "unsupported literal")
	case *ast.UnaryExpr:
		if tv := t.p.Info.Types[e]; tv.Value != nil && tv.Value.Kind() == constant.Int {
			return tr.CoqZ(tv.Value), false, nil
		}
		if x.Op == token.AND { // &us[i] : the element itself (read-only use)
			if _, ok := x.X.(*ast.IndexExpr); ok {
				return t.expr(x.X)
			}
		}
		v, opt, err := t.expr(x.X)
		if err != nil {
			return "", false, err
		}
		if opt {
			return "", false, t.errf(e, "operator on a possibly nil value")
		}
		switch x.Op {
		case token.SUB:
			return "(Z.opp " + v + ")", false, nil
		case token.NOT:
			return "(negb " + v + ")", false, nil
		}
		return "", false, t.errf(e, "unsupported unary %s", x.Op)
	case *ast.BinaryExpr:
		if tv := t.p.Info.Types[e]; tv.Value != nil && tv.Value.Kind() == constant.Int {
			return tr.CoqZ(tv.Value), false, nil
		}
		a, oa, err := t.expr(x.X)
		if err != nil {
			return "", false, err
		}
		b, ob, err := t.expr(x.Y)
		if err != nil {
			return "", false, err
		}
		if oa || ob {
			return "", false, t.errf(e, "operator on a possibly nil value: %s", t.src(e))
		}
		ops := map[token.Token]string{token.ADD: "Z.add", token.SUB: "Z.sub", token.MUL: "Z.mul", token.REM: "Z.rem", token.QUO: "Z.quot", token.LSS: "Z.ltb", token.LEQ: "Z.leb",
			token.GTR: "Z.gtb", token.GEQ: "Z.geb", token.LAND: "andb", token.LOR: "orb"}
		if f, ok := ops[x.Op]; ok {
			return fmt.Sprintf("(%s %s %s)", f, a, b), false, nil
		}
		if x.Op == token.EQL || x.Op == token.NEQ {
			tx := t.p.Info.Types[x.X].Type
			eq := ""
			if bt, ok := tx.Underlying().(*types.Basic); ok && bt.Info()&types.IsBoolean != 0 {
				eq = fmt.Sprintf("(Bool.eqb %s %s)", a, b)
			} else if ok && bt.Info()&types.IsInteger != 0 {
				eq = fmt.Sprintf("(Z.eqb %s %s)", a, b)
			} else {
				return "", false, t.errf(e, "== on %s", tx)
			}
			if x.Op == token.NEQ {
				return "(negb " + eq + ")", false, nil
			}
			return eq, false, nil
		}
		return "", false, t.errf(e, "unsupported operator %s", x.Op)
	case *ast.SelectorExpr:
		// package-level variable of another package
		if id, ok := x.X.(*ast.Ident); ok {
			if _, isPkg := t.p.Info.Uses[id].(*types.PkgName); isPkg {
				if id.Name == "osm" && x.Sel.Name == "CommitInfoStart" {
					return "cis", false, nil
				}
				return "", false, t.errf(e, "unsupported package member %s", t.src(e))
			}
		}
		if id, ok := x.X.(*ast.Ident); ok {
			if rec, ok := t.recs[id.Name]; ok {
				if v, ok := rec[x.Sel.Name]; ok {
					return v, false, nil
				}
				return "", false, t.errf(e, "field %s of the local value was not set", x.Sel.Name)
			}
		}
		v, opt, err := t.expr(x.X)
		if err != nil {
			return "", false, err
		}
		if opt {
			return "", false, t.errf(e, "field of a possibly nil value: %s", t.src(e))
		}
		var fm map[string]string
		switch named(t.p.Info.Types[x.X].Type) {
		case "Child":
			fm = childFields
		case "Options":
			fm = optsFields
		case "Update":
			fm = updateFields
		}
		if f, ok := fm[x.Sel.Name]; ok {
			return fmt.Sprintf(f, v), false, nil
		}
		return "", false, t.errf(e, "field %s is not modelled", t.src(e))
	case *ast.IndexExpr:
		if el, ok := t.idxElem[t.src(e)]; ok {
			return el, false, nil
		}
		if t.cfg.elem {
			if r, ok := x.X.(*ast.Ident); ok && r.Name == t.rcv {
				if i, ok := x.Index.(*ast.Ident); ok {
					return "a_" + i.Name, false, nil
				}
			}
		}
		return "", false, t.errf(e, "index expression outside the supported position: %s", t.src(e))
	case *ast.CallExpr:
		if id, ok := x.Fun.(*ast.Ident); ok {
			if id.Name == "len" {
				v, _, err := t.expr(x.Args[0])
				if err != nil {
					return "", false, err
				}
				return "(Z.of_nat (List.length " + v + "))", false, nil
			}
			if c, ok := calls[id.Name]; ok {
				return t.call(c, nil, x.Args)
			}
			// a small unexported helper of the same package: translated on demand
			if c, err := t.g.helper(id.Name); err == nil {
				return t.call(c, nil, x.Args)
			} else if err != errNoHelper {
				return "", false, err
			}
			return "", false, t.errf(e, "unsupported call %s", id.Name)
		}
		sel, ok := x.Fun.(*ast.SelectorExpr)
		if !ok {
			return "", false, t.errf(e, "unsupported call")
		}
		rt := t.p.Info.Types[sel.X].Type
		if rt != nil && isTime(rt) {
			a, _, err := t.expr(sel.X)
			if err != nil {
				return "", false, err
			}
			if sel.Sel.Name == "IsZero" && len(x.Args) == 0 {
				return fmt.Sprintf("(Z.eqb %s zero_time)", a), false, nil
			}
			if len(x.Args) != 1 {
				return "", false, t.errf(e, "unsupported time method")
			}
			// t.Add(-d) is t - d
			if sel.Sel.Name == "Add" {
				if u, ok := x.Args[0].(*ast.UnaryExpr); ok && u.Op == token.SUB {
					d, _, err := t.expr(u.X)
					if err != nil {
						return "", false, err
					}
					return fmt.Sprintf("(Z.sub %s %s)", a, d), false, nil
				}
			}
			b, _, err := t.expr(x.Args[0])
			if err != nil {
				return "", false, err
			}
			switch sel.Sel.Name {
			case "Before":
				return fmt.Sprintf("(Z.ltb %s %s)", a, b), false, nil
			case "After":
				return fmt.Sprintf("(Z.gtb %s %s)", a, b), false, nil
			case "Equal":
				return fmt.Sprintf("(Z.eqb %s %s)", a, b), false, nil
			case "Add":
				return fmt.Sprintf("(Z.add %s %s)", a, b), false, nil
			case "Sub":
				return fmt.Sprintf("(Z.sub %s %s)", a, b), false, nil
			}
			return "", false, t.errf(e, "unsupported time method %s", sel.Sel.Name)
		}
		if rt != nil && named(rt) == "Parent" && len(x.Args) == 0 {
			if f, ok := parentMethods[sel.Sel.Name]; ok {
				v, opt, err := t.expr(sel.X)
				if err != nil {
					return "", false, err
				}
				if opt {
					return "", false, t.errf(e, "method of a possibly nil value: %s", t.src(e))
				}
				return fmt.Sprintf(f, v), false, nil
			}
		}
		if rt != nil {
			if c, ok := calls[named(rt)+"."+sel.Sel.Name]; ok {
				return t.call(c, sel.X, x.Args)
			}
		}
		return "", false, t.errf(e, "unsupported call %s", t.src(x.Fun))
	case *ast.CompositeLit:
		vals, err := t.literal(x)
		if err != nil {
			return "", false, err
		}
		v, err := t.mkUpdate(e, vals)
		return v, false, err
	}
	return "", false, t.errf(e, "unsupported expression %T", e)
}

// literal reads osm.Update{F: E, ...} into a field map
func (t *T) literal(x *ast.CompositeLit) (map[string]string, error) {
	if named(t.p.Info.Types[x].Type) != "Update" {
		return nil, t.errf(x, "unsupported composite literal")
	}
	vals := map[string]string{}
	for _, el := range x.Elts {
		kv, ok := el.(*ast.KeyValueExpr)
		if !ok {
			return nil, t.errf(x, "positional composite literal")
		}
		v, opt, err := t.expr(kv.Value)
		if err != nil {
			return nil, err
		}
		if opt {
			return nil, t.errf(x, "nil in composite literal")
		}
		vals[kv.Key.(*ast.Ident).Name] = v
	}
	return vals, nil
}

// mkUpdate renders a field map in constructor order (canonical form of an osm.Update value)
func (t *T) mkUpdate(e ast.Node, vals0 map[string]string) (string, error) {
	vals := map[string]string{}
	for k, v := range vals0 {
		vals[k] = v
	}
	{
		{
			out := "(mkUpdate"
			for _, f := range [][2]string{{"Index", "0%nat"}, {"Version", "0"}, {"Timestamp", "zero_time"}, {"ChangesetID", "0"},
				{"Lat", "0"}, {"Lon", "0"}, {"Reverse", "false"}} {
				if v, ok := vals[f[0]]; ok {
					if f[0] == "Index" {
						return "", t.errf(e, "Index in composite literal")
					}
					out += " " + v
					delete(vals, f[0])
				} else {
					out += " " + f[1]
				}
			}
			if len(vals) != 0 {
				return "", t.errf(e, "unmodelled fields in composite literal")
			}
			return out + ")", nil
		}
	}
}

func (t *T) call(c [3]string, recv ast.Expr, args []ast.Expr) (string, bool, error) {
	out := "(" + c[0]
	if c[1] == "cis" {
		out += " cis"
	}
	all := args
	if recv != nil {
		all = append([]ast.Expr{recv}, args...)
	}
	for _, a := range all {
		v, opt, err := t.expr(a)
		if err != nil {
			return "", false, err
		}
		if opt {
			return "", false, t.errf(a, "possibly nil argument %s", t.src(a))
		}
		out += " " + v
	}
	return out + ")", c[2] == "opt", nil
}

type kont struct {
	fall func() (string, error) // falling off the end of the block
	brk  string                 // "" = break not allowed
	cont string
	ret  func(v string) string  // inside a loop: the state that ends the loop with result v (nil = plain return)
}

func (t *T) ret(v string, opt bool) string {
	if t.cfg.optRes && !opt {
		v = "(Some " + v + ")"
	}
	if t.cfg.partial {
		return "(Ok " + v + ")"
	}
	return v
}

// nilTest recognises  x != nil [&& C]  /  x == nil  and returns the variable, the polarity and C.
func nilTest(e ast.Expr) (name string, nonNil bool, rest ast.Expr, ok bool) {
	b, isBin := e.(*ast.BinaryExpr)
	if !isBin {
		return
	}
	if b.Op == token.LAND {
		if n, nn, r, ok2 := nilTest(b.X); ok2 && r == nil && nn {
			return n, true, b.Y, true
		}
		return
	}
	if (b.Op == token.NEQ || b.Op == token.EQL) && isNil(b.Y) {
		if id, isId := b.X.(*ast.Ident); isId {
			return id.Name, b.Op == token.NEQ, nil, true
		}
	}
	return
}

// withRefined runs f with variable name bound to a plain (non-option) alias.
func (t *T) withRefined(name string, f func() (string, error)) (string, error) {
	old := t.env[name]
	alias := old.coq + "_nn"
	t.env[name] = &varInfo{coq: alias}
	s, err := f()
	t.env[name] = old
	return s, err
}

func (t *T) block(l []ast.Stmt, k kont) (string, error) {
	if len(l) == 0 {
		return k.fall()
	}
	rest := func() (string, error) { return t.block(l[1:], k) }
	if t.cfg.partial {
		// X[i] read by a return / assignment / declaration of a function that may panic: the read is
		// bound first (out of range = panic), the statement then uses the element
		ix, err := t.indexRead(l[0])
		if err != nil {
			return "", err
		}
		if ix != nil {
			xs, _, err := t.expr(ix.X)
			if err != nil {
				return "", err
			}
			i, _, err := t.expr(ix.Index)
			if err != nil {
				return "", err
			}
			t.nfresh++
			name := fmt.Sprintf("v_ix%d_", t.nfresh)
			old := t.idxElem
			t.idxElem = map[string]string{}
			for k2, v := range old {
				t.idxElem[k2] = v
			}
			t.idxElem[t.src(ix)] = name
			body, err := t.block(l[:1], kont{fall: func() (string, error) { t.idxElem = old; return t.block(l[1:], k) }, brk: k.brk, cont: k.cont, ret: k.ret})
			t.idxElem = old
			if err != nil {
				return "", err
			}
			return fmt.Sprintf("match get_at %s %s with\n  | Some %s =>\n  %s\n  | None => Err EPanic\n  end", xs, i, name, body), nil
		}
	}
	switch s := l[0].(type) {
	case *ast.ReturnStmt:
		if len(s.Results) != 1 {
			return "", t.errf(s, "return with %d results", len(s.Results))
		}
		if id, ok := s.Results[0].(*ast.Ident); ok {
			if rec, ok := t.recs[id.Name]; ok {
				v, err := t.mkUpdate(s, rec)
				if err != nil {
					return "", err
				}
				if k.ret != nil {
					return k.ret(t.ret(v, false)), nil
				}
				return t.ret(v, false), nil
			}
		}
		v, opt, err := t.expr(s.Results[0])
		if err != nil {
			return "", err
		}
		if k.ret != nil {
			return k.ret(t.ret(v, opt)), nil
		}
		return t.ret(v, opt), nil
	case *ast.SwitchStmt:
		// tagless switch = if / else if chain (cases in source order, default last)
		if s.Tag != nil || s.Init != nil {
			return "", t.errf(s, "switch with tag or init")
		}
		var chain ast.Stmt
		var deflt []ast.Stmt
		var clauses []*ast.CaseClause
		for _, c := range s.Body.List {
			cc := c.(*ast.CaseClause)
			for _, b := range cc.Body {
				if br, ok := b.(*ast.BranchStmt); ok && br.Tok == token.FALLTHROUGH {
					return "", t.errf(s, "fallthrough")
				}
			}
			if cc.List == nil {
				deflt = cc.Body
			} else {
				clauses = append(clauses, cc)
			}
		}
		if deflt != nil {
			chain = &ast.BlockStmt{List: deflt}
		}
		for i := len(clauses) - 1; i >= 0; i-- {
			cond := clauses[i].List[0]
			for _, c := range clauses[i].List[1:] {
				cond = &ast.BinaryExpr{X: cond, Op: token.LOR, Y: c}
			}
			chain = &ast.IfStmt{Cond: cond, Body: &ast.BlockStmt{List: clauses[i].Body}, Else: chain}
		}
		if chain == nil {
			return rest()
		}
		if b, ok := chain.(*ast.BlockStmt); ok {
			return t.block(append(append([]ast.Stmt{}, b.List...), l[1:]...), k)
		}
		return t.block(append([]ast.Stmt{chain}, l[1:]...), k)
	case *ast.IncDecStmt:
		// n++ / n--  on an integer local
		id, ok := s.X.(*ast.Ident)
		if !ok {
			return "", t.errf(s, "unsupported increment target")
		}
		vi, ok := t.env[id.Name]
		if !ok || vi.opt {
			return "", t.errf(s, "increment of unknown %s", id.Name)
		}
		op := "Z.add"
		if s.Tok == token.DEC {
			op = "Z.sub"
		}
		v := fmt.Sprintf("(%s %s 1)", op, vi.coq)
		t.env[id.Name] = &varInfo{coq: vi.coq}
		r, err := rest()
		return fmt.Sprintf("let %s := %s in\n  %s", vi.coq, v, r), err
	case *ast.BranchStmt:
		if s.Label == nil && s.Tok == token.BREAK && k.brk != "" {
			return k.brk, nil
		}
		if s.Label == nil && s.Tok == token.CONTINUE && k.cont != "" {
			return k.cont, nil
		}
		return "", t.errf(s, "unsupported branch statement")
	case *ast.DeclStmt:
		gd, ok := s.Decl.(*ast.GenDecl)
		if !ok || gd.Tok != token.VAR {
			return "", t.errf(s, "unsupported declaration")
		}
		out := ""
		for _, sp := range gd.Specs {
			vs := sp.(*ast.ValueSpec)
			for i, n := range vs.Names {
				ty := t.p.Info.Defs[n].Type()
				_, isPtr := ty.(*types.Pointer)
				val := "0"
				if isPtr {
					val = "(@None child)"
				}
				if len(vs.Values) > i {
					v, _, err := t.expr(vs.Values[i])
					if err != nil {
						return "", err
					}
					val = v
				}
				t.env[n.Name] = &varInfo{coq: "v_" + n.Name, opt: isPtr, lit0: val == "0"}
				out += fmt.Sprintf("let v_%s := %s in\n  ", n.Name, val)
			}
		}
		r, err := rest()
		return out + r, err
	case *ast.AssignStmt:
		if len(s.Lhs) > 1 && len(s.Lhs) == len(s.Rhs) && s.Tok == token.DEFINE {
			// a, b := E1, E2  (the right-hand sides must not mention the new names)
			var seq []ast.Stmt
			for i := range s.Lhs {
				for _, l2 := range s.Lhs {
					if id, ok := l2.(*ast.Ident); ok && strings.Contains(" "+t.src(s.Rhs[i])+" ", " "+id.Name+" ") {
						return "", t.errf(s, "parallel definition with dependent right-hand sides")
					}
				}
				seq = append(seq, &ast.AssignStmt{Lhs: []ast.Expr{s.Lhs[i]}, Tok: token.DEFINE, Rhs: []ast.Expr{s.Rhs[i]}})
			}
			return t.block(append(seq, l[1:]...), k)
		}
		if len(s.Lhs) != 1 || len(s.Rhs) != 1 {
			return "", t.errf(s, "unsupported assignment")
		}
		// u := osm.Update{...}  /  u.F = E  : a local struct value kept as a field map
		if cl, ok := s.Rhs[0].(*ast.CompositeLit); ok && s.Tok == token.DEFINE {
			if id, ok := s.Lhs[0].(*ast.Ident); ok {
				vals, err := t.literal(cl)
				if err != nil {
					return "", err
				}
				t.recs[id.Name] = vals
				return rest()
			}
		}
		if sel, ok := s.Lhs[0].(*ast.SelectorExpr); ok && s.Tok == token.ASSIGN {
			if id, ok := sel.X.(*ast.Ident); ok && t.recs[id.Name] != nil {
				if k.brk != "" || k.cont != "" {
					return "", t.errf(s, "field assignment inside a loop")
				}
				v, opt, err := t.expr(s.Rhs[0])
				if err != nil {
					return "", err
				}
				if opt {
					return "", t.errf(s, "nil field value")
				}
				t.recs[id.Name][sel.Sel.Name] = v
				return rest()
			}
		}
		id, ok := s.Lhs[0].(*ast.Ident)
		if !ok {
			return "", t.errf(s, "unsupported assignment target")
		}
		v, opt, err := t.expr(s.Rhs[0])
		if err != nil {
			return "", err
		}
		if s.Tok == token.DEFINE {
			t.env[id.Name] = &varInfo{coq: "v_" + id.Name, opt: opt, lit0: t.src(s.Rhs[0]) == "0"}
		} else if s.Tok == token.ASSIGN {
			vi, ok := t.env[id.Name]
			if !ok {
				return "", t.errf(s, "assignment to unknown %s", id.Name)
			}
			base := strings.TrimSuffix(vi.coq, "_nn")
			_, isPtr := t.p.Info.Types[s.Lhs[0]].Type.(*types.Pointer)
			if isPtr && !opt {
				v = "(Some " + v + ")"
			}
			t.env[id.Name] = &varInfo{coq: base, opt: isPtr}
		} else {
			return "", t.errf(s, "unsupported assignment operator")
		}
		r, err := rest()
		return fmt.Sprintf("let %s := %s in\n  %s", t.env[id.Name].coq, v, r), err
	case *ast.IfStmt:
		if s.Init != nil {
			// if v := E; C { ... }   =   v := E; if C { ... }   (v is not visible afterwards in Go;
			// a later redefinition simply shadows it here)
			plain := *s
			plain.Init = nil
			return t.block(append([]ast.Stmt{s.Init, &plain}, l[1:]...), k)
		}
		save := func() map[string]*varInfo {
			m := map[string]*varInfo{}
			for k, v := range t.env {
				m[k] = v
			}
			return m
		}
		e0 := save()
		branch := func(l2 []ast.Stmt) (string, error) {
			t.env = map[string]*varInfo{}
			for k, v := range e0 {
				t.env[k] = v
			}
			return t.block(l2, kont{fall: rest, brk: k.brk, cont: k.cont, ret: k.ret})
		}
		var elseL []ast.Stmt
		switch x := s.Else.(type) {
		case nil:
		case *ast.BlockStmt:
			elseL = x.List
		default:
			elseL = []ast.Stmt{x}
		}
		if name, nonNil, c2, ok := nilTest(s.Cond); ok {
			vi := e0[name]
			if vi == nil || !vi.opt {
				return "", t.errf(s, "nil test on a value that is not modelled as optional: %s", name)
			}
			someB, noneB := "", ""
			var err error
			if nonNil {
				someB, err = t.withRefinedEnv(e0, name, func() (string, error) {
					if c2 == nil {
						return t.block(s.Body.List, kont{fall: rest, brk: k.brk, cont: k.cont, ret: k.ret})
					}
					c, _, err := t.expr(c2)
					if err != nil {
						return "", err
					}
					a, err := t.block(s.Body.List, kont{fall: rest, brk: k.brk, cont: k.cont, ret: k.ret})
					if err != nil {
						return "", err
					}
					t.resetEnv(e0, name)
					b, err := t.block(elseL, kont{fall: rest, brk: k.brk, cont: k.cont, ret: k.ret})
					if err != nil {
						return "", err
					}
					return fmt.Sprintf("if %s then\n  %s\n  else\n  %s", c, a, b), nil
				})
				if err != nil {
					return "", err
				}
				noneB, err = branch(elseL)
			} else {
				if c2 != nil {
					return "", t.errf(s, "x == nil && ...")
				}
				noneB, err = branch(s.Body.List)
				if err != nil {
					return "", err
				}
				someB, err = t.withRefinedEnv(e0, name, func() (string, error) {
					return t.block(elseL, kont{fall: rest, brk: k.brk, cont: k.cont, ret: k.ret})
				})
			}
			if err != nil {
				return "", err
			}
			t.env = e0
			return fmt.Sprintf("match %s with\n  | Some %s_nn =>\n  %s\n  | None =>\n  %s\n  end", vi.coq, vi.coq, someB, noneB), nil
		}
		c, opt, err := t.expr(s.Cond)
		if err != nil {
			return "", err
		}
		if opt {
			return "", t.errf(s, "optional condition")
		}
		a, err := branch(s.Body.List)
		if err != nil {
			return "", err
		}
		b, err := branch(elseL)
		if err != nil {
			return "", err
		}
		t.env = e0
		return fmt.Sprintf("if %s then\n  %s\n  else\n  %s", c, a, b), nil
	case *ast.RangeStmt:
		if s.Tok != token.DEFINE {
			return "", t.errf(s, "unsupported range form")
		}
		key, _ := s.Key.(*ast.Ident)
		val, _ := s.Value.(*ast.Ident)
		if s.Value != nil && val == nil || s.Key != nil && key == nil {
			return "", t.errf(s, "unsupported range form")
		}
		switch {
		case val != nil && (key == nil || key.Name == "_"):
			return t.loop(s, l[1:], s.X, val.Name, "", s.Body, nil, k, rest)
		case val == nil && key != nil && key.Name != "_":
			// for i := range X { ... X[i] ... }
			return t.loop(s, l[1:], s.X, "", key.Name, s.Body, nil, k, rest)
		}
		return t.errfS(s, "range with both index and value")
	case *ast.ForStmt:
		// for i := 0; i < len(X) [&& C]; i++ { ... X[i] ... }   =   for _, el := range X { if !C { break }; ... }
		if s.Init == nil && s.Post == nil && s.Cond != nil {
			// n := 0; for n < len(X) [&& C] { ...X[n]...; n++ }  : the index loop whose counter stays visible
			cond := s.Cond
			var extra ast.Expr
			if b, ok := cond.(*ast.BinaryExpr); ok && b.Op == token.LAND {
				cond, extra = b.X, b.Y
			}
			b, ok := cond.(*ast.BinaryExpr)
			if !ok || b.Op != token.LSS {
				return t.errfS(s, "unsupported for loop (condition)")
			}
			cnt, ok := b.X.(*ast.Ident)
			if !ok || t.env[cnt.Name] == nil || !t.env[cnt.Name].lit0 {
				return t.errfS(s, "unsupported for loop (the counter is not known to start at 0)")
			}
			call, ok := b.Y.(*ast.CallExpr)
			if !ok || t.src(call.Fun) != "len" || len(call.Args) != 1 {
				return t.errfS(s, "unsupported for loop (bound)")
			}
			if len(s.Body.List) == 0 {
				return t.errfS(s, "unsupported for loop (empty body)")
			}
			inc, ok := s.Body.List[len(s.Body.List)-1].(*ast.IncDecStmt)
			if !ok || inc.Tok != token.INC || t.src(inc.X) != cnt.Name {
				return t.errfS(s, "unsupported for loop (the body does not end with the increment)")
			}
			t.count = cnt.Name
			return t.loop(s, l[1:], call.Args[0], "", cnt.Name, &ast.BlockStmt{Lbrace: s.Body.Lbrace, List: s.Body.List[:len(s.Body.List)-1], Rbrace: s.Body.Rbrace}, extra, k, rest)
		}
		as, ok := s.Init.(*ast.AssignStmt)
		if !ok || as.Tok != token.DEFINE || len(as.Lhs) != 1 || t.src(as.Rhs[0]) != "0" {
			return t.errfS(s, "unsupported for loop (init)")
		}
		iv := as.Lhs[0].(*ast.Ident).Name
		if inc, ok := s.Post.(*ast.IncDecStmt); !ok || inc.Tok != token.INC || t.src(inc.X) != iv {
			return t.errfS(s, "unsupported for loop (post)")
		}
		cond := s.Cond
		var extra ast.Expr
		if b, ok := cond.(*ast.BinaryExpr); ok && b.Op == token.LAND {
			cond, extra = b.X, b.Y
		}
		b, ok := cond.(*ast.BinaryExpr)
		if !ok || b.Op != token.LSS || t.src(b.X) != iv {
			return t.errfS(s, "unsupported for loop (condition)")
		}
		call, ok := b.Y.(*ast.CallExpr)
		if !ok || t.src(call.Fun) != "len" || len(call.Args) != 1 {
			return t.errfS(s, "unsupported for loop (bound)")
		}
		return t.loop(s, l[1:], call.Args[0], "", iv, s.Body, extra, k, rest)
	}
	return "", t.errf(l[0], "unsupported statement %T", l[0])
}

// indexRead finds an element read X[i] of a child list in the expressions of a simple statement
// (return, assignment, declaration) that is not yet bound to a variable.  A read on the right of
// && / || is not evaluated unconditionally and is refused.
func (t *T) indexRead(st ast.Stmt) (*ast.IndexExpr, error) {
	var exprs []ast.Expr
	switch s := st.(type) {
	case *ast.ReturnStmt:
		exprs = s.Results
	case *ast.AssignStmt:
		exprs = s.Rhs
	case *ast.DeclStmt:
		if gd, ok := s.Decl.(*ast.GenDecl); ok {
			for _, sp := range gd.Specs {
				if vs, ok := sp.(*ast.ValueSpec); ok {
					exprs = append(exprs, vs.Values...)
				}
			}
		}
	default:
		return nil, nil
	}
	var found *ast.IndexExpr
	guarded := map[ast.Node]bool{}
	var bad ast.Node
	for _, e := range exprs {
		ast.Inspect(e, func(n ast.Node) bool {
			if n == nil {
				return true
			}
			if _, ok := n.(*ast.FuncLit); ok {
				return false
			}
			if b, ok := n.(*ast.BinaryExpr); ok && (b.Op == token.LAND || b.Op == token.LOR) {
				ast.Inspect(b.Y, func(m ast.Node) bool {
					if m != nil {
						guarded[m] = true
					}
					return true
				})
			}
			ix, ok := n.(*ast.IndexExpr)
			if !ok {
				return true
			}
			if _, known := t.idxElem[t.src(ix)]; known {
				return false
			}
			if named(t.p.Info.Types[ix].Type) != "Child" {
				return true
			}
			if guarded[ix] {
				bad = ix
				return false
			}
			if found == nil {
				found = ix
			}
			return false
		})
	}
	if bad != nil {
		return nil, t.errf(bad, "element read under && / ||: %s", t.src(bad))
	}
	return found, nil
}

func (t *T) errfS(n ast.Node, f string, a ...interface{}) (string, error) {
	return "", t.errf(n, f, a...)
}

// loop renders a loop over the elements of xsE as a fold_left over (assigned variables, done).
// elName: the Go element variable (range with value); idxName: the Go index variable of an index
// loop, in which X[idx] denotes the element; guard: an extra loop condition (false = break).
func (t *T) loop(loopStmt ast.Stmt, after []ast.Stmt, xsE ast.Expr, elName, idxName string, body *ast.BlockStmt, guard ast.Expr, k kont, rest func() (string, error)) (string, error) {
	xs, _, err := t.expr(xsE)
	if err != nil {
		return "", err
	}
	count := t.count
	t.count = ""
	vars := t.assigned(body)
	if count != "" {
		for _, v := range vars {
			if v == count {
				return "", t.errf(body, "the counter %s is assigned in the loop body", count)
			}
		}
		vars = append(vars, count)
	}
	var names, tys []string
	for _, v := range vars {
		names = append(names, t.env[v].coq)
		if t.env[v].opt {
			tys = append(tys, "option child")
		} else {
			tys = append(tys, "Z")
		}
	}
	// `return E` inside the loop body
	var rets []*ast.ReturnStmt
	ast.Inspect(body, func(n ast.Node) bool {
		if _, ok := n.(*ast.FuncLit); ok {
			return false
		}
		if r, ok := n.(*ast.ReturnStmt); ok {
			rets = append(rets, r)
		}
		return true
	})
	retAsBreak := false
	if len(rets) > 0 && len(after) == 1 {
		// the loop is followed by `return E` and every return inside it is the same `return E`, E not
		// mentioning anything declared inside the loop: returning from inside is leaving the loop
		if tail, ok := after[0].(*ast.ReturnStmt); ok && len(tail.Results) == 1 {
			retAsBreak = true
			for _, r := range rets {
				if len(r.Results) != 1 || t.src(r.Results[0]) != t.src(tail.Results[0]) {
					retAsBreak = false
					break
				}
				ast.Inspect(r.Results[0], func(n ast.Node) bool {
					if id, ok := n.(*ast.Ident); ok {
						if obj := t.p.Info.Uses[id]; obj != nil && obj.Pos() >= loopStmt.Pos() && obj.Pos() <= loopStmt.End() {
							retAsBreak = false
						}
					}
					return true
				})
			}
		}
	}
	retSlot := len(rets) > 0 && !retAsBreak
	retName := ""
	if retSlot {
		t.nfresh++
		retName = fmt.Sprintf("ret%d_", t.nfresh)
		names = append(names, retName)
		tys = append(tys, "option ("+t.cfg.result+")")
	}
	tys = append(tys, "bool")
	st := func(done string) string {
		return "(" + strings.Join(append(append([]string{}, names...), done), ", ") + ")"
	}
	st0 := func() string {
		ns := append([]string{}, names...)
		if retSlot {
			ns[len(ns)-1] = "None"
		}
		return "(" + strings.Join(append(ns, "false"), ", ") + ")"
	}
	var retK func(v string) string
	switch {
	case retAsBreak:
		retK = func(string) string { return st("true") }
	case retSlot:
		retK = func(v string) string {
			ns := append([]string{}, names[:len(names)-1]...)
			return "(" + strings.Join(append(ns, "(Some "+v+")", "true"), ", ") + ")"
		}
	}
	e0 := map[string]*varInfo{}
	for k2, v := range t.env {
		e0[k2] = v
	}
	el := "v_el_"
	stmts := body.List
	if elName != "" {
		el = "v_" + elName
		t.env[elName] = &varInfo{coq: el}
	} else {
		oldIdx := t.idxElem
		t.idxElem = map[string]string{}
		for k2, v := range oldIdx {
			t.idxElem[k2] = v
		}
		t.idxElem[t.src(xsE)+"["+idxName+"]"] = el
		defer func() { t.idxElem = oldIdx }()
		// the index itself must not be used otherwise
		bad := false
		ast.Inspect(body, func(n ast.Node) bool {
			if ix, ok := n.(*ast.IndexExpr); ok && t.src(ix.X) == t.src(xsE) && t.src(ix.Index) == idxName {
				return false
			}
			if id, ok := n.(*ast.Ident); ok && id.Name == idxName {
				bad = true
			}
			return true
		})
		if bad {
			return "", t.errf(body, "loop index %s used other than as %s[%s]", idxName, t.src(xsE), idxName)
		}
	}
	if guard != nil {
		stmts = append([]ast.Stmt{&ast.IfStmt{Cond: &ast.UnaryExpr{Op: token.NOT, X: &ast.ParenExpr{X: guard}},
			Body: &ast.BlockStmt{List: []ast.Stmt{&ast.BranchStmt{Tok: token.BREAK}}}}}, stmts...)
	}
	fallSt, contSt := st("false"), st("false")
	if count != "" {
		// one more element done; `continue` would skip the increment
		cn := e0[count].coq
		fallSt = fmt.Sprintf("let %s := (Z.add %s 1) in %s", cn, cn, st("false"))
		contSt = ""
	}
	bodyT, err := t.block(stmts, kont{fall: func() (string, error) { return fallSt, nil }, brk: st("true"), cont: contSt, ret: retK})
	if err != nil {
		return "", err
	}
	t.env = map[string]*varInfo{}
	for k2, v := range e0 {
		t.env[k2] = v
	}
	for _, v := range vars {
		c := *e0[v]
		c.lit0 = false
		t.env[v] = &c
	}
	r, err := rest()
	if err != nil {
		return "", err
	}
	if retSlot {
		// a result set inside the loop is the function's result (or ends the enclosing loop with it)
		out := "r_"
		if k.ret != nil {
			out = k.ret("r_")
		}
		r = fmt.Sprintf("match %s with\n  | Some r_ => %s\n  | None =>\n  %s\n  end", retName, out, r)
	}
	return fmt.Sprintf("let '%s := fold_left (fun (st_ : %s) (%s : child) => let '%s := st_ in if done_ then %s else\n  %s) %s %s in\n  %s",
		st("_"), strings.Join(tys, " * "), el, st("done_"), st("true"), bodyT, xs, st0(), r), nil
}

var errNoHelper = fmt.Errorf("not a helper")

// helper translates an unexported function of the package on demand (once) and returns its call entry.
func (g *G) helper(name string) ([3]string, error) {
	fd := g.p.FuncDecls()[name]
	if fd == nil || fd.Body == nil || fd.Recv != nil || ast.IsExported(name) {
		return [3]string{}, errNoHelper
	}
	coq := "gen_h_" + name
	entry := [3]string{coq, "cis", ""}
	if g.noCis {
		coq = "gen_hn_" + name
		entry = [3]string{coq, "", ""}
	}
	if fd.Type.Results == nil || len(fd.Type.Results.List) != 1 {
		return entry, fmt.Errorf("helper %s: unsupported result list", name)
	}
	rt := g.p.Info.Types[fd.Type.Results.List[0].Type].Type
	cfg := &fnCfg{key: name, name: coq, noCis: g.noCis}
	switch {
	case named(rt) == "Child":
		cfg.result, cfg.optRes = "option child", true
		entry[2] = "opt"
	case isTime(rt) || named(rt) == "Duration":
		cfg.result = "Z"
	default:
		if b, ok := rt.Underlying().(*types.Basic); ok && b.Info()&types.IsBoolean != 0 {
			cfg.result = "bool"
		} else if ok && b.Info()&types.IsInteger != 0 {
			cfg.result = "Z"
		} else {
			return entry, fmt.Errorf("helper %s: unsupported result type %s", name, rt)
		}
	}
	if g.done[coq] {
		return entry, nil
	}
	if g.stack[name] {
		return entry, fmt.Errorf("helper %s: recursive", name)
	}
	g.stack[name] = true
	def, err := translateIn(g, cfg)
	delete(g.stack, name)
	if err != nil {
		return entry, err
	}
	g.done[coq] = true
	g.defs = append(g.defs, def+"#[global] Hint Unfold "+coq+" : genhelpers.\n")
	return entry, nil
}

func (t *T) resetEnv(e0 map[string]*varInfo, refined string) {
	t.env = map[string]*varInfo{}
	for k, v := range e0 {
		t.env[k] = v
	}
	t.env[refined] = &varInfo{coq: e0[refined].coq + "_nn"}
}

func (t *T) withRefinedEnv(e0 map[string]*varInfo, name string, f func() (string, error)) (string, error) {
	t.resetEnv(e0, name)
	return f()
}

// assigned lists the variables declared outside the block and assigned inside it, in declaration order.
func (t *T) assigned(b *ast.BlockStmt) []string {
	set := map[string]token.Pos{}
	ast.Inspect(b, func(n ast.Node) bool {
		var targets []ast.Expr
		if inc, ok := n.(*ast.IncDecStmt); ok {
			targets = []ast.Expr{inc.X}
		}
		as, ok := n.(*ast.AssignStmt)
		if ok && as.Tok == token.ASSIGN {
			targets = as.Lhs
		}
		for _, lhs := range targets {
			if id, ok := lhs.(*ast.Ident); ok {
				if obj := t.p.Info.Uses[id]; obj != nil && (obj.Pos() < b.Pos() || obj.Pos() > b.End()) {
					if _, known := t.env[id.Name]; known {
						set[id.Name] = obj.Pos()
					}
				}
			}
		}
		return true
	})
	var out []string
	for v := range set {
		out = append(out, v)
	}
	sort.Slice(out, func(i, j int) bool { return set[out[i]] < set[out[j]] })
	return out
}

// translate renders one function; helpers already emitted for the same package (shared G) are reused.
func translate(g *G, cfg *fnCfg) (string, error) {
	g.noCis = cfg.noCis
	g.defs = nil
	def, err := translateIn(g, cfg)
	if err != nil {
		// helpers completed on the way stay defined in the output only if they are emitted now
		return strings.Join(g.defs, "\n"), err
	}
	return strings.Join(g.defs, "\n") + def, nil
}

// coqTypeOf gives the Coq type carrying a Go parameter
func coqTypeOf(ty types.Type, opt bool) (string, error) {
	o := func(s string) string {
		if opt {
			return "option " + s
		}
		return s
	}
	switch named(ty) {
	case "Child":
		return o("child"), nil
	case "Parent":
		return o("parent"), nil
	case "Options":
		return "opts", nil
	case "ChildList":
		return "list child", nil
	case "Update":
		return "update", nil
	}
	if isTime(ty) {
		return "Z", nil
	}
	if b, ok := ty.Underlying().(*types.Basic); ok {
		if b.Info()&types.IsInteger != 0 {
			return "Z", nil
		}
		if b.Info()&types.IsBoolean != 0 {
			return "bool", nil
		}
	}
	return "", fmt.Errorf("no Coq type for parameter type %s", ty)
}

func translateIn(g *G, cfg *fnCfg) (string, error) {
	p := g.p
	var recv *ast.FieldList
	var ftype *ast.FuncType
	var fbody *ast.BlockStmt
	if cfg.lit != nil {
		ftype, fbody = cfg.lit.Type, cfg.lit.Body
	} else {
		fd := p.FuncDecls()[cfg.key]
		if fd == nil || fd.Body == nil {
			return "", fmt.Errorf("%s: not found in source", cfg.key)
		}
		recv, ftype, fbody = fd.Recv, fd.Type, fd.Body
	}
	t := &T{p: p, cfg: cfg, env: map[string]*varInfo{}, recs: map[string]map[string]string{}, idxElem: map[string]string{}, g: g}
	var binders []string
	if cfg.lit != nil {
		t.rcv = cfg.litRecv
	}
	if recv != nil && len(recv.List) == 1 && len(recv.List[0].Names) == 1 {
		t.rcv = recv.List[0].Names[0].Name
		t.env[t.rcv] = &varInfo{coq: "v_" + t.rcv}
		if !cfg.elem {
			ct, err := coqTypeOf(p.Info.Defs[recv.List[0].Names[0]].Type(), false)
			if err != nil {
				return "", fmt.Errorf("%s: %v", cfg.key, err)
			}
			binders = append(binders, fmt.Sprintf("(v_%s : %s)", t.rcv, ct))
		}
	}
	pos := 0
	for _, f := range ftype.Params.List {
		for _, n := range f.Names {
			opt := cfg.optIdx[pos]
			if pty := p.Info.Defs[n]; pty != nil && cfg.optTy[named(pty.Type())] {
				switch pty.Type().Underlying().(type) {
				case *types.Pointer, *types.Interface:
					opt = true
				}
			}
			cfg.optOut = append(cfg.optOut, opt)
			pos++
			if cfg.elem {
				// the int parameters of Less(i, j) denote the elements recv[i], recv[j]
				binders = append(binders, fmt.Sprintf("(a_%s : update)", n.Name))
				continue
			}
			t.env[n.Name] = &varInfo{coq: "v_" + n.Name, opt: opt}
			ct, err := coqTypeOf(p.Info.Defs[n].Type(), opt)
			if err != nil {
				return "", fmt.Errorf("%s: %v", cfg.key, err)
			}
			binders = append(binders, fmt.Sprintf("(v_%s : %s)", n.Name, ct))
		}
	}
	body, err := t.block(fbody.List, kont{fall: func() (string, error) { return "", fmt.Errorf("%s: control falls off the end", cfg.key) }})
	if err != nil {
		return "", err
	}
	cfg.binders = binders
	cis := "(cis : Z) "
	if cfg.noCis {
		cis = ""
	}
	return fmt.Sprintf("(* %s *)\nDefinition %s %s%s : %s :=\n  %s.\n", cfg.key, cfg.name, cis, strings.Join(binders, " "), cfg.result, body), nil
}

// setChild translates parentWay.SetChild / parentRelation.SetChild into a function on one reference:
//
//	if child == nil { return }            -> the caller's None case (set_child)
//	X[idx].F = child.G                    -> field F of the new reference is (c_g c)
//
// Statements that only maintain the relation's way cache (r.ways, used for the multipolygon
// orientation, property C16) are skipped and listed in a comment.
func setChild(p *tr.Pkg, key, name string) (string, error) {
	fd := p.FuncDecls()[key]
	if fd == nil {
		return "", fmt.Errorf("%s: not found in source", key)
	}
	src := func(n ast.Node) string {
		var b bytes.Buffer
		printer.Fprint(&b, p.Fset, n)
		return strings.Join(strings.Fields(b.String()), " ")
	}
	if len(fd.Type.Params.List) != 2 {
		return "", fmt.Errorf("%s: unexpected parameters", key)
	}
	idx, child := fd.Type.Params.List[0].Names[0].Name, fd.Type.Params.List[1].Names[0].Name
	onlyWays := func(n ast.Node) bool {
		ok := true
		ast.Inspect(n, func(m ast.Node) bool {
			if as, isAs := m.(*ast.AssignStmt); isAs {
				for _, l := range as.Lhs {
					if !strings.Contains(src(l), ".ways") {
						ok = false
					}
				}
			}
			if _, isRet := m.(*ast.ReturnStmt); isRet {
				ok = false
			}
			return true
		})
		return ok
	}
	fields := map[string]string{}
	var skipped []string
	nilGuard := false
	target := ""               // the list whose element idx is written (source text)
	alias := map[string]bool{} // locals bound by  m := &X[idx]
	isBareReturn := func(b *ast.BlockStmt) bool {
		if len(b.List) != 1 {
			return false
		}
		r, ok := b.List[0].(*ast.ReturnStmt)
		return ok && len(r.Results) == 0
	}
	onlyWaysStmt := func(st ast.Stmt) bool {
		switch x := st.(type) {
		case *ast.IfStmt:
			return onlyWays(x)
		case *ast.AssignStmt:
			return onlyWays(x)
		}
		return false
	}
	// elemOf recognises X[idx] / an alias of &X[idx]
	elemOf := func(e ast.Expr) bool {
		switch x := e.(type) {
		case *ast.ParenExpr:
			if st, ok := x.X.(*ast.StarExpr); ok {
				if id, ok := st.X.(*ast.Ident); ok {
					return alias[id.Name]
				}
			}
		case *ast.Ident:
			return alias[x.Name]
		case *ast.IndexExpr:
			if src(x.Index) != idx {
				return false
			}
			if target == "" {
				target = src(x.X)
			}
			return target == src(x.X)
		}
		return false
	}
	var process func(l []ast.Stmt) error
	process = func(l []ast.Stmt) error {
		for n, st := range l {
			switch x := st.(type) {
			case *ast.IfStmt:
				if x.Init == nil && src(x.Cond) == child+" == nil" && x.Else == nil && isBareReturn(x.Body) {
					nilGuard = true
					continue
				}
				if x.Init == nil && src(x.Cond) == child+" != nil" && x.Else == nil && n == len(l)-1 && !nilGuard {
					// if child != nil { ... } as the last statement = guard + body
					nilGuard = true
					if err := process(x.Body.List); err != nil {
						return err
					}
					continue
				}
				if onlyWays(x) {
					skipped = append(skipped, src(x.Cond))
					continue
				}
				if x.Init == nil && x.Else == nil && isBareReturn(x.Body) {
					// if C { return } followed only by way-cache statements: all of it is the way cache
					all := true
					for _, r := range l[n+1:] {
						all = all && onlyWaysStmt(r)
					}
					if all {
						skipped = append(skipped, src(x.Cond)+" { return } ...")
						return nil
					}
				}
				return fmt.Errorf("%s: %s: unsupported if statement", key, p.Pos(x))
			case *ast.AssignStmt:
				if len(x.Lhs) != 1 || len(x.Rhs) != 1 {
					return fmt.Errorf("%s: %s: unsupported assignment", key, p.Pos(x))
				}
				if x.Tok == token.DEFINE {
					// m := &X[idx]
					id, ok1 := x.Lhs[0].(*ast.Ident)
					u, ok2 := x.Rhs[0].(*ast.UnaryExpr)
					if ok1 && ok2 && u.Op == token.AND && !alias[id.Name] {
						if _, isIx := u.X.(*ast.IndexExpr); isIx && elemOf(u.X) {
							alias[id.Name] = true
							continue
						}
					}
					return fmt.Errorf("%s: %s: unsupported definition", key, p.Pos(x))
				}
				if x.Tok != token.ASSIGN {
					return fmt.Errorf("%s: %s: unsupported assignment", key, p.Pos(x))
				}
				if onlyWays(x) {
					skipped = append(skipped, src(x))
					continue
				}
				if !nilGuard {
					return fmt.Errorf("%s: %s: assignment before the nil guard", key, p.Pos(x))
				}
				lsel, ok1 := x.Lhs[0].(*ast.SelectorExpr)
				rsel, ok2 := x.Rhs[0].(*ast.SelectorExpr)
				if !ok1 || !ok2 {
					return fmt.Errorf("%s: %s: unsupported assignment form", key, p.Pos(x))
				}
				if !elemOf(lsel.X) || src(rsel.X) != child {
					return fmt.Errorf("%s: %s: unsupported assignment form", key, p.Pos(x))
				}
				cf, ok := childFields[rsel.Sel.Name]
				if !ok {
					return fmt.Errorf("%s: %s: child field %s is not modelled", key, p.Pos(x), rsel.Sel.Name)
				}
				fields[lsel.Sel.Name] = fmt.Sprintf(cf, "c")
			default:
				return fmt.Errorf("%s: %s: unsupported statement", key, p.Pos(st))
			}
		}
		return nil
	}
	if err := process(fd.Body.List); err != nil {
		return "", err
	}
	if !nilGuard {
		return "", fmt.Errorf("%s: no nil guard", key)
	}
	out := fmt.Sprintf("(* %s", key)
	if len(skipped) > 0 {
		out += "; skipped (way cache for the orientation, C16): if " + strings.Join(skipped, "; if ")
	}
	out += " *)\nDefinition " + name + " (c : child) (r : ref) : ref :=\n  mkRef (r_id r)"
	for _, f := range [][2]string{{"Version", "(r_version r)"}, {"ChangesetID", "(r_changeset r)"}, {"Lat", "(r_lat r)"}, {"Lon", "(r_lon r)"}} {
		if v, ok := fields[f[0]]; ok {
			out += " " + v
			delete(fields, f[0])
		} else {
			out += " " + f[1]
		}
	}
	if len(fields) != 0 {
		return "", fmt.Errorf("%s: assignments to fields that are not modelled: %v", key, fields)
	}
	return out + " (r_orient r).\n", nil
}

// boolExpr translates the small boolean expressions of Refs() / mapChildLocs with the given atoms
// (source text -> Coq term); integers and floats compared with constants are Z.
func boolExpr(p *tr.Pkg, e ast.Expr, atoms map[string]string) (string, error) {
	src := func(n ast.Node) string {
		var b bytes.Buffer
		printer.Fprint(&b, p.Fset, n)
		return strings.Join(strings.Fields(b.String()), " ")
	}
	if a, ok := atoms[src(e)]; ok {
		return a, nil
	}
	switch x := e.(type) {
	case *ast.ParenExpr:
		return boolExpr(p, x.X, atoms)
	case *ast.BasicLit:
		if tv := p.Info.Types[e]; tv.Value != nil && (tv.Value.Kind() == constant.Int || tv.Value.Kind() == constant.Float) {
			if v, ok := constant.Int64Val(constant.ToInt(tv.Value)); ok {
				return fmt.Sprint(v), nil
			}
		}
	case *ast.UnaryExpr:
		if x.Op == token.NOT {
			v, err := boolExpr(p, x.X, atoms)
			return "(negb " + v + ")", err
		}
	case *ast.BinaryExpr:
		a, err := boolExpr(p, x.X, atoms)
		if err != nil {
			return "", err
		}
		b, err := boolExpr(p, x.Y, atoms)
		if err != nil {
			return "", err
		}
		switch x.Op {
		case token.LAND:
			return fmt.Sprintf("(andb %s %s)", a, b), nil
		case token.LOR:
			return fmt.Sprintf("(orb %s %s)", a, b), nil
		case token.EQL:
			return fmt.Sprintf("(Z.eqb %s %s)", a, b), nil
		case token.NEQ:
			return fmt.Sprintf("(negb (Z.eqb %s %s))", a, b), nil
		}
	}
	return "", fmt.Errorf("%s: unsupported expression %s", p.Pos(e), src(e))
}

// refsAnnotated translates the rule by which Refs() marks a reference as already annotated:
//
//	annotated[i] = <expr over X[i].Version / ChangesetID / Lat / Lon>
func refsAnnotated(p *tr.Pkg, key, name string) (string, error) {
	fd := p.FuncDecls()[key]
	if fd == nil {
		return "", fmt.Errorf("%s: not found in source", key)
	}
	src := func(n ast.Node) string {
		var b bytes.Buffer
		printer.Fprint(&b, p.Fset, n)
		return strings.Join(strings.Fields(b.String()), " ")
	}
	var rhs ast.Expr
	idxName := ""
	n := 0
	ast.Inspect(fd.Body, func(m ast.Node) bool {
		if as, ok := m.(*ast.AssignStmt); ok && len(as.Lhs) == 1 && len(as.Rhs) == 1 {
			if ix, ok := as.Lhs[0].(*ast.IndexExpr); ok && src(ix.X) == "annotated" {
				rhs = as.Rhs[0]
				idxName = src(ix.Index)
				n++
			}
		}
		return true
	})
	if n != 1 {
		return "", fmt.Errorf("%s: expected exactly one assignment to annotated[i], found %d", key, n)
	}
	// the element: X[i] with the index of annotated[i], or the value variable of the range loop
	// whose key is that index (for i, m := range X)
	elemVars := map[string]bool{}
	ast.Inspect(fd.Body, func(m ast.Node) bool {
		if rs, ok := m.(*ast.RangeStmt); ok && rs.Key != nil && rs.Value != nil && src(rs.Key) == idxName {
			if id, ok := rs.Value.(*ast.Ident); ok {
				elemVars[id.Name] = true
			}
		}
		return true
	})
	atoms := map[string]string{}
	ast.Inspect(rhs, func(m ast.Node) bool {
		if sel, ok := m.(*ast.SelectorExpr); ok {
			isElem := false
			if ix, isIdx := sel.X.(*ast.IndexExpr); isIdx && src(ix.Index) == idxName {
				isElem = true
			}
			if id, isId := sel.X.(*ast.Ident); isId && elemVars[id.Name] {
				isElem = true
			}
			if tn := named(p.Info.Types[sel.X].Type); tn != "WayNode" && tn != "Member" {
				isElem = false
			}
			if isElem {
				if f, ok := map[string]string{"Version": "(r_version r)", "ChangesetID": "(r_changeset r)", "Lat": "(r_lat r)", "Lon": "(r_lon r)"}[sel.Sel.Name]; ok {
					atoms[src(sel)] = f
				}
			}
		}
		return true
	})
	v, err := boolExpr(p, rhs, atoms)
	if err != nil {
		return "", fmt.Errorf("%s: %v", key, err)
	}
	return fmt.Sprintf("(* %s: annotated[i] = %s *)\nDefinition %s (r : ref) : bool :=\n  %s.\n", key, src(rhs), name, v), nil
}

// skipRule translates the condition under which mapChildLocs skips a reference (if C { continue })
func skipRule(p *tr.Pkg) (string, error) {
	fd := p.FuncDecls()["mapChildLocs"]
	if fd == nil {
		return "", fmt.Errorf("mapChildLocs: not found in source")
	}
	var cond ast.Expr
	n := 0
	ast.Inspect(fd.Body, func(m ast.Node) bool {
		if is, ok := m.(*ast.IfStmt); ok && is.Else == nil && len(is.Body.List) == 1 {
			if br, ok := is.Body.List[0].(*ast.BranchStmt); ok && br.Tok == token.CONTINUE {
				cond = is.Cond
				n++
			}
		}
		return true
	})
	if n != 1 || len(fd.Type.Params.List) != 2 {
		return "", fmt.Errorf("mapChildLocs: expected exactly one `if C { continue }`, found %d", n)
	}
	filter := fd.Type.Params.List[1].Names[0].Name
	atoms := map[string]string{filter + " != nil": "(filter_is_some filter)", filter + " == nil": "(negb (filter_is_some filter))"}
	// annotated[j] and filter(fid), whatever the index / id variables are called
	ast.Inspect(cond, func(m ast.Node) bool {
		var b bytes.Buffer
		switch x := m.(type) {
		case *ast.IndexExpr:
			printer.Fprint(&b, p.Fset, x)
			atoms[strings.Join(strings.Fields(b.String()), " ")] = "annotated"
		case *ast.CallExpr:
			if id, ok := x.Fun.(*ast.Ident); ok && id.Name == filter && len(x.Args) == 1 {
				printer.Fprint(&b, p.Fset, x)
				atoms[strings.Join(strings.Fields(b.String()), " ")] = "(filter_app filter fid)"
			}
		}
		return true
	})
	v, err := boolExpr(p, cond, atoms)
	if err != nil {
		return "", fmt.Errorf("mapChildLocs: %v", err)
	}
	return "(* mapChildLocs: a reference is skipped when this holds *)\nDefinition gen_skip_ref (annotated : bool) (filter : option (Z -> bool)) (fid : Z) : bool :=\n  " + v + ".\n", nil
}

// commitInfoStart reads the arguments of  var CommitInfoStart = time.Date(y, mo, d, h, mi, s, ns, time.UTC)
func commitInfoStart(p *tr.Pkg) (string, error) {
	for _, f := range p.Files {
		for _, d := range f.Decls {
			gd, ok := d.(*ast.GenDecl)
			if !ok || gd.Tok != token.VAR {
				continue
			}
			for _, sp := range gd.Specs {
				vs := sp.(*ast.ValueSpec)
				for i, n := range vs.Names {
					if n.Name != "CommitInfoStart" || len(vs.Values) <= i {
						continue
					}
					call, ok := vs.Values[i].(*ast.CallExpr)
					if !ok || len(call.Args) != 8 {
						return "", fmt.Errorf("CommitInfoStart is not a time.Date call")
					}
					var b bytes.Buffer
					printer.Fprint(&b, p.Fset, call.Fun)
					var loc bytes.Buffer
					printer.Fprint(&loc, p.Fset, call.Args[7])
					if b.String() != "time.Date" || loc.String() != "time.UTC" {
						return "", fmt.Errorf("CommitInfoStart is not time.Date(..., time.UTC)")
					}
					var args []string
					for _, a := range call.Args[:7] {
						tv := p.Info.Types[a]
						if tv.Value == nil || tv.Value.Kind() != constant.Int {
							return "", fmt.Errorf("CommitInfoStart: non-constant argument")
						}
						args = append(args, tr.CoqZ(tv.Value))
					}
					return "(* update.go: var CommitInfoStart = time.Date(...) : year month day hour min sec nsec, UTC *)\n" +
						"Definition gen_commit_info_start_args : list Z := [" + strings.Join(args, "; ") + "].\n", nil
				}
			}
		}
	}
	return "", fmt.Errorf("CommitInfoStart not found")
}

// callSite renders the one call of cfg's function inside caller as a definition over canonical
// variables chosen by TYPE (the caller's locals may have any names):
//
//	*shared.Child -> v_current : option child      ChildList -> v_child : list child
//	Parent        -> v_nextParent : option parent   *Options  -> v_opts : opts
//
// so that the obligation is stated about what the caller passes (the whole options or one field of
// them, in any parameter order) and not about the parameter list.
func callSite(g *G, cfg *fnCfg) (string, error) {
	p := g.p
	// the call is looked for in the named caller first, then anywhere in the package (the loop body
	// of the caller may have been moved into a function or method of its own)
	var calls []*ast.CallExpr
	find := func(fd *ast.FuncDecl) {
		if fd == nil || fd.Body == nil {
			return
		}
		ast.Inspect(fd.Body, func(n ast.Node) bool {
			if c, ok := n.(*ast.CallExpr); ok {
				if id, ok := c.Fun.(*ast.Ident); ok && id.Name == cfg.key {
					calls = append(calls, c)
				}
			}
			return true
		})
	}
	find(p.FuncDecls()[cfg.site])
	if len(calls) == 0 {
		var keys []string
		for k := range p.FuncDecls() {
			keys = append(keys, k)
		}
		sort.Strings(keys)
		for _, k := range keys {
			if k != cfg.site && k != cfg.key {
				find(p.FuncDecls()[k])
			}
		}
	}
	if len(calls) != 1 {
		return "", fmt.Errorf("%s: expected exactly one call in %s, found %d", cfg.key, cfg.site, len(calls))
	}
	call := calls[0]
	if len(call.Args) != len(cfg.optOut) {
		return "", fmt.Errorf("%s: call in %s has %d arguments", cfg.key, cfg.site, len(call.Args))
	}
	t := &T{p: p, cfg: &fnCfg{key: cfg.key + " (call in " + cfg.site + ")"}, env: map[string]*varInfo{}, recs: map[string]map[string]string{}, idxElem: map[string]string{}, g: g}
	canon := map[string]*varInfo{"Child": {coq: "v_current", opt: true}, "ChildList": {coq: "v_child"}, "Parent": {coq: "v_nextParent", opt: true}, "Options": {coq: "v_opts"}}
	taken := map[string]string{}
	var bad error
	for _, a := range call.Args {
		ast.Inspect(a, func(n ast.Node) bool {
			id, ok := n.(*ast.Ident)
			if !ok {
				return true
			}
			v, isVar := p.Info.Uses[id].(*types.Var)
			if !isVar || v.IsField() || v.Pkg() != p.Types {
				return true
			}
			c := canon[named(v.Type())]
			if c == nil {
				bad = fmt.Errorf("%s: call in %s mentions %s of type %s", cfg.key, cfg.site, id.Name, v.Type())
				return true
			}
			if prev, ok := taken[c.coq]; ok && prev != id.Name {
				bad = fmt.Errorf("%s: call in %s mentions two variables of type %s", cfg.key, cfg.site, v.Type())
			}
			taken[c.coq] = id.Name
			t.env[id.Name] = c
			return true
		})
	}
	if bad != nil {
		return "", bad
	}
	out := "(* the call of " + cfg.key + " in " + cfg.site + ": " + t.src(call) + " *)\nDefinition " + cfg.name + "_at (cis : Z) (v_current : option child) (v_child : list child) (v_nextParent : option parent) (v_opts : opts) : " + cfg.result + " :=\n  " + cfg.name + " cis"
	for i, a := range call.Args {
		v, opt, err := t.expr(a)
		if err != nil {
			return "", err
		}
		switch {
		case cfg.optOut[i] && !opt:
			v = "(Some " + v + ")"
		case !cfg.optOut[i] && opt:
			return "", t.errf(a, "possibly nil argument %s", t.src(a))
		}
		out += " " + v
	}
	return out + ".\n", nil
}

// concurrent lists the constructs of concurrent execution in the code of package p reachable from the
// root functions: go statements, channel types and operations, select, anything of sync or
// sync/atomic.  Reachable = called functions of the package, and every method of a package type that
// occurs (by name or as the type of an expression) in reachable code — calls through interfaces of
// other packages land on such methods.  The annotation model is sequential: it cannot stand for
// code that runs children on several goroutines.
func concurrent(p *tr.Pkg, roots []string) (found []string, reached int, err error) {
	decls := p.FuncDecls()
	byObj := map[types.Object]*ast.FuncDecl{}
	methods := map[string][]*ast.FuncDecl{}
	for _, fd := range decls {
		if obj := p.Info.Defs[fd.Name]; obj != nil {
			byObj[obj] = fd
		}
		if fd.Recv != nil && len(fd.Recv.List) == 1 {
			r := tr.RecvName(fd.Recv.List[0].Type)
			methods[r] = append(methods[r], fd)
		}
	}
	seen := map[*ast.FuncDecl]bool{}
	var queue []*ast.FuncDecl
	push := func(fd *ast.FuncDecl) {
		if fd != nil && fd.Body != nil && !seen[fd] {
			seen[fd] = true
			queue = append(queue, fd)
		}
	}
	for _, r := range roots {
		if decls[r] == nil {
			return nil, 0, fmt.Errorf("%s: not found in source", r)
		}
		push(decls[r])
	}
	pushType := func(ty types.Type) {
		for {
			if pt, ok := ty.(*types.Pointer); ok {
				ty = pt.Elem()
				continue
			}
			break
		}
		if n, ok := ty.(*types.Named); ok && n.Obj().Pkg() == p.Types {
			for _, m := range methods[n.Obj().Name()] {
				push(m)
			}
		}
	}
	isSync := func(obj types.Object) bool {
		return obj != nil && obj.Pkg() != nil && (obj.Pkg().Path() == "sync" || obj.Pkg().Path() == "sync/atomic")
	}
	add := func(n ast.Node, what string) { found = append(found, p.Pos(n)+": "+what) }
	for len(queue) > 0 {
		fd := queue[0]
		queue = queue[1:]
		reached++
		ast.Inspect(fd, func(n ast.Node) bool {
			switch x := n.(type) {
			case *ast.GoStmt:
				add(x, "go statement")
			case *ast.SendStmt:
				add(x, "channel send")
			case *ast.SelectStmt:
				add(x, "select")
			case *ast.ChanType:
				add(x, "channel type")
			case *ast.UnaryExpr:
				if x.Op == token.ARROW {
					add(x, "channel receive")
				}
			case *ast.RangeStmt:
				if tv, ok := p.Info.Types[x.X]; ok && tv.Type != nil {
					if _, isChan := tv.Type.Underlying().(*types.Chan); isChan {
						add(x, "range over a channel")
					}
				}
			case *ast.Ident:
				obj := p.Info.Uses[x]
				if pn, ok := obj.(*types.PkgName); ok {
					if path := pn.Imported().Path(); path == "sync" || path == "sync/atomic" {
						add(x, "package "+path)
					}
				}
				if isSync(obj) {
					add(x, "sync."+obj.Name())
				}
				if f, ok := obj.(*types.Func); ok {
					push(byObj[f])
				}
				if tn, ok := obj.(*types.TypeName); ok {
					pushType(tn.Type())
				}
			}
			if e, ok := n.(ast.Expr); ok {
				if tv, ok := p.Info.Types[e]; ok && tv.Type != nil {
					pushType(tv.Type)
				}
			}
			return true
		})
	}
	sort.Strings(found)
	return found, reached, nil
}

// sortLess finds the order used by a sorting method: the body is one call, either
//
//	sort.Sort(T(us)) / sort.Stable(T(us))         -> T.Less (T's Len and Swap are the usual ones, checked)
//	sort.Slice(us, func(i, j int) bool { ... })   -> the literal (also sort.SliceStable)
//
// (which sorting algorithm runs is irrelevant: the model takes any function that sorts by the order)
func sortLess(p *tr.Pkg, key string) (*fnCfg, error) {
	src := func(n ast.Node) string {
		var b bytes.Buffer
		printer.Fprint(&b, p.Fset, n)
		return strings.Join(strings.Fields(b.String()), " ")
	}
	fd := p.FuncDecls()[key]
	if fd == nil || fd.Body == nil || fd.Recv == nil || len(fd.Recv.List) != 1 || len(fd.Recv.List[0].Names) != 1 {
		return nil, fmt.Errorf("%s: not found in source", key)
	}
	us := fd.Recv.List[0].Names[0].Name
	if len(fd.Body.List) != 1 {
		return nil, fmt.Errorf("%s: body is not a single call", key)
	}
	es, ok := fd.Body.List[0].(*ast.ExprStmt)
	if !ok {
		return nil, fmt.Errorf("%s: body is not a single call", key)
	}
	call, ok := es.X.(*ast.CallExpr)
	if !ok {
		return nil, fmt.Errorf("%s: body is not a single call", key)
	}
	switch src(call.Fun) {
	case "sort.Sort", "sort.Stable":
		if len(call.Args) == 1 {
			if conv, ok := call.Args[0].(*ast.CallExpr); ok && len(conv.Args) == 1 && src(conv.Args[0]) == us {
				if id, ok := conv.Fun.(*ast.Ident); ok {
					decls := p.FuncDecls()
					ln, sw := decls[id.Name+".Len"], decls[id.Name+".Swap"]
					if ln == nil || sw == nil || ln.Recv == nil || sw.Recv == nil || len(sw.Type.Params.List) == 0 {
						return nil, fmt.Errorf("%s: %s has no Len / Swap", key, id.Name)
					}
					r := ln.Recv.List[0].Names[0].Name
					if len(ln.Body.List) != 1 || src(ln.Body.List[0]) != "return len("+r+")" {
						return nil, fmt.Errorf("%s: %s.Len is not `return len(%s)`", key, id.Name, r)
					}
					r = sw.Recv.List[0].Names[0].Name
					var ps []string
					for _, f := range sw.Type.Params.List {
						for _, n := range f.Names {
							ps = append(ps, n.Name)
						}
					}
					if len(ps) != 2 || len(sw.Body.List) != 1 {
						return nil, fmt.Errorf("%s: %s.Swap is not the usual exchange", key, id.Name)
					}
					i, j := ps[0], ps[1]
					want := fmt.Sprintf("%s[%s], %s[%s] = %s[%s], %s[%s]", r, i, r, j, r, j, r, i)
					want2 := fmt.Sprintf("%s[%s], %s[%s] = %s[%s], %s[%s]", r, j, r, i, r, i, r, j)
					if got := src(sw.Body.List[0]); got != want && got != want2 {
						return nil, fmt.Errorf("%s: %s.Swap is not the usual exchange: %s", key, id.Name, got)
					}
					return &fnCfg{key: id.Name + ".Less"}, nil
				}
			}
		}
	case "sort.Slice", "sort.SliceStable":
		if len(call.Args) == 2 && src(call.Args[0]) == us {
			if lit, ok := call.Args[1].(*ast.FuncLit); ok {
				return &fnCfg{key: key + " (order literal)", lit: lit, litRecv: us}, nil
			}
		}
	}
	return nil, fmt.Errorf("%s: unsupported sorting call %s", key, src(call))
}

func main() {
	repo, out := os.Args[1], os.Args[2]
	if err := os.Chdir(repo); err != nil {
		fmt.Fprintln(os.Stderr, err)
		os.Exit(1)
	}
	var text bytes.Buffer
	text.WriteString("(* GENERATED by /verif/translator (cmd/annotate) from /repo — do not edit. *)\n" +
		"From Coq Require Import ZArith List Bool.\nFrom Verif Require Import Annotate.Model.\nImport ListNotations.\nOpen Scope Z_scope.\n\n" +
		"Definition get_at {A} (l : list A) (i : Z) : option A := if i <? 0 then None else nth_error l (Z.to_nat i).\n\nCreate HintDb genhelpers.\n\n" +
		"Definition filter_is_some (f : option (Z -> bool)) : bool := match f with Some _ => true | None => false end.\n" +
		"Definition filter_app (f : option (Z -> bool)) (x : Z) : bool := match f with Some g => g x | None => false end.\n\n")
	failed := 0
	emitP := func(p *tr.Pkg, fns []*fnCfg) *tr.Pkg {
		g := &G{p: p, done: map[string]bool{}, stack: map[string]bool{}}
		for _, f := range fns {
			s, err := translate(g, f)
			if f.chk && f.optRes && !f.noCis {
				args := func(c *fnCfg) string {
					var out []string
					for _, b := range c.binders {
						out = append(out, strings.Fields(strings.TrimPrefix(b, "("))[0])
					}
					return strings.Join(out, " ")
				}
				if err == nil {
					// no element read outside the loops: the checked variant never fails
					s += fmt.Sprintf("Definition %s_chk (cis : Z) %s : res (%s) :=\n  Ok (%s cis %s).\n", f.name, strings.Join(f.binders, " "), f.result, f.name, args(f))
				} else {
					f2 := *f
					f2.partial, f2.name, f2.result = true, f.name+"_chk", "res ("+f.result+")"
					s2, err2 := translate(g, &f2)
					s2 = s + s2 // helpers completed by the first attempt
					if err2 != nil {
						s = s2
					} else {
						s, err = s2+fmt.Sprintf("Definition %s (cis : Z) %s : %s :=\n  match %s cis %s with Ok r_ => r_ | Err _ => None end.\n",
							f.name, strings.Join(f2.binders, " "), f.result, f2.name, args(&f2)), nil
					}
				}
			}
			if err == nil && f.site != "" {
				var at string
				if at, err = callSite(g, f); err == nil {
					s += at
				}
			}
			if err != nil {
				text.WriteString(s) // helpers that were completed before the failure (marked done)
				fmt.Fprintf(&text, "(* NOT TRANSLATED %s: %v *)\n\n", f.key, err)
				fmt.Fprintf(os.Stderr, "translator annotate: %s: %v\n", f.key, err)
				failed++
				continue
			}
			text.WriteString(s + "\n")
		}
		return p
	}
	emit := func(dir, path string, fns []*fnCfg) *tr.Pkg {
		p, err := tr.Load(filepath.Join(repo, dir), path)
		if err != nil {
			fmt.Fprintln(os.Stderr, "translator annotate:", err)
			os.Exit(1)
		}
		return emitP(p, fns)
	}
	rootPkg, err := tr.Load(filepath.Join(repo, "."), "github.com/paulmach/osm")
	if err != nil {
		fmt.Fprintln(os.Stderr, "translator annotate:", err)
		os.Exit(1)
	}
	lessCfg, err := sortLess(rootPkg, "Updates.SortByIndex")
	if err != nil {
		fmt.Fprintf(&text, "(* NOT TRANSLATED Updates.SortByIndex: %v *)\n\n", err)
		fmt.Fprintln(os.Stderr, "translator annotate:", err)
		failed++
		lessCfg = nil
	}
	var lessFns []*fnCfg
	if lessCfg != nil {
		lessCfg.name, lessCfg.result, lessCfg.elem, lessCfg.noCis = "gen_less_index", "bool", true, true
		lessFns = append(lessFns, lessCfg)
	}
	root := emitP(rootPkg, lessFns)
	// the constant goes to its own file: the case checkers depend on it alone
	consts := "(* GENERATED by /verif/translator (cmd/annotate) from /repo — do not edit. *)\nFrom Coq Require Import ZArith List.\nImport ListNotations.\nOpen Scope Z_scope.\n\n"
	if s, err := commitInfoStart(root); err != nil {
		consts += fmt.Sprintf("(* NOT TRANSLATED CommitInfoStart: %v *)\n", err)
		fmt.Fprintln(os.Stderr, "translator annotate:", err)
		failed++
	} else {
		consts += s
	}
	if err := tr.Emit(filepath.Join(out, "GenAnnotateConst.v"), []byte(consts)); err != nil {
		fmt.Fprintln(os.Stderr, err)
		os.Exit(1)
	}
	emit("annotate/shared", "github.com/paulmach/osm/annotate/shared", []*fnCfg{
		{key: "updateTimestamp", name: "gen_update_timestamp", params: "(v_timestamp v_committed : Z)", result: "Z"},
		{key: "Child.Update", name: "gen_child_update", params: "(v_c : child)", result: "update"},
	})
	emit("annotate/internal/core", "github.com/paulmach/osm/annotate/internal/core", []*fnCfg{
		{key: "absDuration", name: "gen_abs_duration", params: "(v_d : Z)", result: "Z", noCis: true},
		{key: "timeThreshold", name: "gen_time_threshold", params: "(v_c : child) (v_esp : Z)", result: "Z"},
		{key: "timeThresholdParent", name: "gen_time_threshold_parent", params: "(v_p : parent) (v_esp : Z)", result: "Z"},
		{key: "ChildList.FindVisible", name: "gen_find_visible", params: "(v_cl : list child) (v_cid v_at v_eps : Z)", result: "option child", optRes: true, chk: true},
		{key: "ChildList.VersionBefore", name: "gen_version_before", params: "(v_cl : list child) (v_end : Z)", result: "option child", optRes: true, chk: true},
		{key: "nextVersionIndex", name: "gen_next_version_index",
			params: "(v_current : option child) (v_child : list child) (v_nextParent : option parent) (v_opts : opts)",
			optTy: map[string]bool{"Child": true, "Parent": true}, result: "res Z", partial: true, site: "Compute"},
	})
	ann, err := tr.Load(filepath.Join(repo, "annotate"), "github.com/paulmach/osm/annotate")
	if err != nil {
		fmt.Fprintln(os.Stderr, "translator annotate:", err)
		os.Exit(1)
	}
	for _, sc := range [][2]string{{"parentWay.SetChild", "gen_way_set_child"}, {"parentRelation.SetChild", "gen_relation_set_child"}} {
		s, err := setChild(ann, sc[0], sc[1])
		if err != nil {
			fmt.Fprintf(&text, "(* NOT TRANSLATED %s: %v *)\n\n", sc[0], err)
			fmt.Fprintln(os.Stderr, "translator annotate:", err)
			failed++
			continue
		}
		text.WriteString(s + "\n")
	}
	for _, ra := range [][2]string{{"parentWay.Refs", "gen_way_annotated"}, {"parentRelation.Refs", "gen_relation_annotated"}} {
		s, err := refsAnnotated(ann, ra[0], ra[1])
		if err != nil {
			fmt.Fprintf(&text, "(* NOT TRANSLATED %s: %v *)\n\n", ra[0], err)
			fmt.Fprintln(os.Stderr, "translator annotate:", err)
			failed++
			continue
		}
		text.WriteString(s + "\n")
	}
	if corePkg, err := tr.Load(filepath.Join(repo, "annotate/internal/core"), "github.com/paulmach/osm/annotate/internal/core"); err != nil {
		fmt.Fprintln(os.Stderr, "translator annotate:", err)
		os.Exit(1)
	} else if s, err := skipRule(corePkg); err != nil {
		fmt.Fprintf(&text, "(* NOT TRANSLATED mapChildLocs skip rule: %v *)\n\n", err)
		fmt.Fprintln(os.Stderr, "translator annotate:", err)
		failed++
	} else {
		text.WriteString(s + "\n")
	}
	// the default threshold of annotate.Ways / annotate.Relations (options.go)
	if c, ok := ann.Types.Scope().Lookup("defaultThreshold").(*types.Const); ok && c.Val().Kind() == constant.Int {
		fmt.Fprintf(&text, "(* options.go: const defaultThreshold *)\nDefinition gen_default_threshold : Z := %s.\n\n", tr.CoqZ(c.Val()))
	} else {
		text.WriteString("(* NOT TRANSLATED defaultThreshold *)\n\n")
		fmt.Fprintln(os.Stderr, "translator annotate: defaultThreshold is not an integer constant")
		failed++
	}
	// the model is sequential: no construct of concurrent execution may be reachable from the entry points
	{
		total, nreached := 0, 0
		var lines []string
		bad := false
		for _, sc := range []struct {
			dir, path string
			roots     []string
		}{
			{"annotate/internal/core", "github.com/paulmach/osm/annotate/internal/core", []string{"Compute"}},
			{"annotate", "github.com/paulmach/osm/annotate", []string{"Ways", "Relations"}},
			{"annotate/shared", "github.com/paulmach/osm/annotate/shared", []string{"Child.Update"}},
		} {
			pk, err := tr.Load(filepath.Join(repo, sc.dir), sc.path)
			if err == nil {
				var f []string
				var n int
				if f, n, err = concurrent(pk, sc.roots); err == nil {
					total += len(f)
					nreached += n
					for _, l := range f {
						lines = append(lines, sc.dir+"/"+l)
					}
				}
			}
			if err != nil {
				fmt.Fprintf(&text, "(* NOT TRANSLATED sequentiality of %s: %v *)\n\n", sc.dir, err)
				fmt.Fprintln(os.Stderr, "translator annotate:", err)
				failed++
				bad = true
			}
		}
		if !bad {
			fmt.Fprintf(&text, "(* constructs of concurrent execution (go, channels, select, sync, sync/atomic) in the %d functions reachable from\n   core.Compute, annotate.Ways, annotate.Relations, shared.Child.Update", nreached)
			for _, l := range lines {
				text.WriteString("\n   " + l)
			}
			fmt.Fprintf(&text, " *)\nDefinition gen_concurrent_constructs : Z := %d.\n\n", total)
		}
	}
	if err := tr.Emit(filepath.Join(out, "GenAnnotate.v"), text.Bytes()); err != nil {
		fmt.Fprintln(os.Stderr, err)
		os.Exit(1)
	}
	if failed > 0 {
		os.Exit(1)
	}
}
