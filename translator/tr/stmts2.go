package tr

// stmts2.go — an extension of the straight-line translator of expr.go (which is left untouched).
// EmitFuncs2 first tries TranslateFunc (so everything that translated before is emitted
// byte-for-byte as before) and falls back to TranslateFunc2, which additionally understands
//
//   x = E | x := E | x op= E | x++ | x--          rebinding:  let a_x := E in REST
//   if C { x = E; y = F }  REST                     let IFC := C in
//                                                   let a_x := if IFC then E else a_x in ... REST
//   if C { S } else { S' }                          both branches ending in return / panic
//   switch T { ... default: S }                     default clause
//   panic(...) in a function returning an integer or bool: the function becomes PARTIAL, its
//                                                   Coq result type is  option T , return E is
//                                                   Some E  and panic is  None
//   calls of partial functions inside an expression: the statement that evaluates it becomes
//                                                   match CALL with Some P => STMT | None => None end
//                                                   (the caller is partial too)
//   x, err := f(..); if err != nil { S }             match F .. with Some a_x => REST | None => S end
//   f(args) for a plain function f of the package      INLINED: let-bound parameters around its body
//   struct receivers and parameters (WayNode, Member): the fields that the function, or the
//                                                   methods it calls on the same value, read
//                                                   become separate parameters a_<x>_<Field>
//                                                   in declaration order of the struct
//
// String functions keep the convention of expr.go: panic is the value "!panic".

import (
	"fmt"
	"go/ast"
	"go/constant"
	"go/token"
	"go/types"
	"sort"
	"strings"
)

type tr2 struct {
	p       *Pkg
	decls   map[string]*ast.FuncDecl
	env     map[string]string // identifier or "x.Field" -> Coq term
	structs map[string]*types.Struct
	used    map[string]bool
	optRe   bool // result (T, error)
	strRe   bool // string result
	panRe   bool // partial integer/bool function: option result
	binds   [][2]string
	nbind   int
	pmemo   map[string]int // partiality memo: 0 unknown, 1 in progress, 2 no, 3 yes
	// inlining: the helpers being inlined (recursion guard); prefix: name prefix of the local
	// variables of an inlined body
	inlining map[string]bool
	prefix   string
}

func recvTypeName(t types.Type) (string, bool) {
	if pt, ok := t.(*types.Pointer); ok {
		t = pt.Elem()
	}
	n, ok := t.(*types.Named)
	if !ok {
		return "", false
	}
	return n.Obj().Name(), true
}

func structOf(t types.Type) *types.Struct {
	if t == nil {
		return nil
	}
	if pt, ok := t.(*types.Pointer); ok {
		t = pt.Elem()
	}
	s, _ := t.Underlying().(*types.Struct)
	return s
}

func isBoolType(t types.Type) bool {
	b, ok := t.Underlying().(*types.Basic)
	return ok && b.Kind() == types.Bool
}

// calledMethods lists the same-package methods/functions called in body as "Recv.Name".
func (t *tr2) calledMethods(body ast.Node) []string {
	var out []string
	ast.Inspect(body, func(n ast.Node) bool {
		ce, ok := n.(*ast.CallExpr)
		if !ok {
			return true
		}
		if sel, ok := ce.Fun.(*ast.SelectorExpr); ok {
			if s, ok := t.p.Info.Selections[sel]; ok && s.Kind() == types.MethodVal {
				if rn, ok := recvTypeName(s.Recv()); ok {
					out = append(out, rn+"."+sel.Sel.Name)
				}
			}
		}
		return true
	})
	return out
}

func hasPanic(body ast.Node) bool {
	found := false
	ast.Inspect(body, func(n ast.Node) bool {
		if ce, ok := n.(*ast.CallExpr); ok {
			if id, ok := ce.Fun.(*ast.Ident); ok && id.Name == "panic" {
				found = true
			}
		}
		return true
	})
	return found
}

func (t *tr2) resultTypes(fd *ast.FuncDecl) []types.Type {
	var rts []types.Type
	if fd.Type.Results == nil {
		return nil
	}
	for _, f := range fd.Type.Results.List {
		n := len(f.Names)
		if n == 0 {
			n = 1
		}
		for i := 0; i < n; i++ {
			rts = append(rts, t.p.Info.Types[f.Type].Type)
		}
	}
	return rts
}

// partial: the function returns an integer or bool and may panic (directly or through a callee).
func (t *tr2) partial(key string) bool {
	switch t.pmemo[key] {
	case 1, 2:
		return false
	case 3:
		return true
	}
	fd, ok := t.decls[key]
	if !ok || fd.Body == nil {
		t.pmemo[key] = 2
		return false
	}
	rts := t.resultTypes(fd)
	if len(rts) != 1 || !(isIntType(rts[0]) || isBoolType(rts[0])) {
		t.pmemo[key] = 2
		return false
	}
	t.pmemo[key] = 1
	res := hasPanic(fd.Body)
	if !res {
		for _, c := range t.calledMethods(fd.Body) {
			if t.partial(c) {
				res = true
				break
			}
		}
	}
	if res {
		t.pmemo[key] = 3
	} else {
		t.pmemo[key] = 2
	}
	return res
}

// fieldsUsed: indices of the fields of the struct receiver of fd that fd reads, directly or
// through methods called on the receiver itself.
func (t *tr2) fieldsUsed(key string, seen map[string]bool) []int {
	if seen[key] {
		return nil
	}
	seen[key] = true
	fd, ok := t.decls[key]
	if !ok || fd.Body == nil || fd.Recv == nil || len(fd.Recv.List) != 1 || len(fd.Recv.List[0].Names) != 1 {
		return nil
	}
	rn := fd.Recv.List[0].Names[0].Name
	st := structOf(t.p.Info.Types[fd.Recv.List[0].Type].Type)
	if st == nil {
		return nil
	}
	set := map[int]bool{}
	ast.Inspect(fd.Body, func(n ast.Node) bool {
		sel, ok := n.(*ast.SelectorExpr)
		if !ok {
			return true
		}
		id, ok := sel.X.(*ast.Ident)
		if !ok || id.Name != rn {
			return true
		}
		if s, ok := t.p.Info.Selections[sel]; ok {
			switch s.Kind() {
			case types.FieldVal:
				for i := 0; i < st.NumFields(); i++ {
					if st.Field(i).Name() == sel.Sel.Name {
						set[i] = true
					}
				}
			case types.MethodVal:
				if tn, ok := recvTypeName(s.Recv()); ok {
					for _, i := range t.fieldsUsed(tn+"."+sel.Sel.Name, seen) {
						set[i] = true
					}
				}
			}
		}
		return true
	})
	var out []int
	for i := range set {
		out = append(out, i)
	}
	sort.Ints(out)
	return out
}

func (t *tr2) fresh() string {
	t.nbind++
	return fmt.Sprintf("P%d", t.nbind)
}

func (t *tr2) panicTerm(n ast.Node) (string, error) {
	switch {
	case t.strRe:
		return "\"!panic\"", nil
	case t.panRe || t.optRe:
		return "None", nil
	}
	return "", fmt.Errorf("%s: panic in a total function", t.p.Pos(n))
}

func (t *tr2) wrap(e ast.Expr, v string) (string, error) {
	x := &exprTr{p: t.p}
	return x.wrap(e, v)
}

func (t *tr2) expr(e ast.Expr) (string, error) {
	switch x := e.(type) {
	case *ast.ParenExpr:
		return t.expr(x.X)
	case *ast.Ident:
		if x.Name == "nil" {
			return "0", nil
		}
		if x.Name == "true" || x.Name == "false" {
			return x.Name, nil
		}
		if v, ok := t.env[x.Name]; ok {
			return v, nil
		}
		if obj, ok := t.p.Info.Uses[x].(*types.Const); ok && obj.Pkg() == t.p.Types {
			t.used["c:"+x.Name] = true
			return "c_" + x.Name, nil
		}
		return "", fmt.Errorf("%s: unknown identifier %s", t.p.Pos(e), x.Name)
	case *ast.BasicLit:
		tv := t.p.Info.Types[e]
		if tv.Value == nil {
			return "", fmt.Errorf("%s: literal without value", t.p.Pos(e))
		}
		switch tv.Value.Kind() {
		case constant.Int:
			return CoqZ(tv.Value), nil
		case constant.String:
			return CoqString(constant.StringVal(tv.Value)), nil
		}
		return "", fmt.Errorf("%s: unsupported literal", t.p.Pos(e))
	case *ast.IndexExpr:
		return t.tableIndex(x)
	case *ast.SelectorExpr:
		if id, ok := x.X.(*ast.Ident); ok {
			if v, ok := t.env[id.Name+"."+x.Sel.Name]; ok {
				return v, nil
			}
		}
		return "", fmt.Errorf("%s: unsupported selector", t.p.Pos(e))
	case *ast.UnaryExpr:
		a, err := t.expr(x.X)
		if err != nil {
			return "", err
		}
		switch x.Op {
		case token.NOT:
			return "(negb " + a + ")", nil
		case token.SUB:
			return t.wrap(e, "(Z.opp "+a+")")
		}
		return "", fmt.Errorf("%s: unsupported unary operator %s", t.p.Pos(e), x.Op)
	case *ast.BinaryExpr:
		nb := len(t.binds)
		a, err := t.expr(x.X)
		if err != nil {
			return "", err
		}
		b, err := t.expr(x.Y)
		if err != nil {
			return "", err
		}
		if (x.Op == token.LAND || x.Op == token.LOR) && len(t.binds) != nb {
			return "", fmt.Errorf("%s: a partial call under a short-circuit operator", t.p.Pos(e))
		}
		tx := t.p.Info.Types[x.X].Type
		str := tx != nil && isStringType(tx)
		switch x.Op {
		case token.OR:
			return fmt.Sprintf("(Z.lor %s %s)", a, b), nil
		case token.AND:
			return fmt.Sprintf("(Z.land %s %s)", a, b), nil
		case token.XOR:
			return fmt.Sprintf("(Z.lxor %s %s)", a, b), nil
		case token.SHL:
			return t.wrap(e, fmt.Sprintf("(Z.shiftl %s %s)", a, b))
		case token.SHR:
			return fmt.Sprintf("(Z.shiftr %s %s)", a, b), nil
		case token.ADD:
			if str {
				return fmt.Sprintf("(String.append %s %s)", a, b), nil
			}
			return t.wrap(e, fmt.Sprintf("(Z.add %s %s)", a, b))
		case token.SUB:
			return t.wrap(e, fmt.Sprintf("(Z.sub %s %s)", a, b))
		case token.MUL:
			return t.wrap(e, fmt.Sprintf("(Z.mul %s %s)", a, b))
		case token.EQL:
			if str {
				return fmt.Sprintf("(String.eqb %s %s)", a, b), nil
			}
			return fmt.Sprintf("(Z.eqb %s %s)", a, b), nil
		case token.NEQ:
			if str {
				return fmt.Sprintf("(negb (String.eqb %s %s))", a, b), nil
			}
			return fmt.Sprintf("(negb (Z.eqb %s %s))", a, b), nil
		case token.LSS:
			return fmt.Sprintf("(Z.ltb %s %s)", a, b), nil
		case token.LEQ:
			return fmt.Sprintf("(Z.leb %s %s)", a, b), nil
		case token.GTR:
			return fmt.Sprintf("(Z.ltb %s %s)", b, a), nil
		case token.GEQ:
			return fmt.Sprintf("(Z.leb %s %s)", b, a), nil
		case token.LAND:
			return fmt.Sprintf("(andb %s %s)", a, b), nil
		case token.LOR:
			return fmt.Sprintf("(orb %s %s)", a, b), nil
		}
		return "", fmt.Errorf("%s: unsupported operator %s", t.p.Pos(e), x.Op)
	case *ast.CallExpr:
		if tv, ok := t.p.Info.Types[x.Fun]; ok && tv.IsType() {
			if len(x.Args) != 1 {
				return "", fmt.Errorf("%s: bad conversion", t.p.Pos(e))
			}
			from := t.p.Info.Types[x.Args[0]].Type
			if isStringType(tv.Type) && isStringType(from) {
				return t.expr(x.Args[0])
			}
			if isIntType(tv.Type) && isIntType(from) {
				v, err := t.expr(x.Args[0])
				if err != nil {
					return "", err
				}
				if intWidth(tv.Type) == intWidth(from) && intSigned(tv.Type) == intSigned(from) {
					return v, nil
				}
				return t.wrap(e, v)
			}
			return "", fmt.Errorf("%s: unsupported conversion to %s", t.p.Pos(e), tv.Type)
		}
		if call, key, ok, err := t.methodCall(x); ok {
			if err != nil {
				return "", err
			}
			if rts := t.resultTypes(t.decls[key]); len(rts) != 1 {
				return "", fmt.Errorf("%s: a call with several results inside an expression", t.p.Pos(e))
			}
			if t.partial(key) {
				v := t.fresh()
				t.binds = append(t.binds, [2]string{v, call})
				return v, nil
			}
			return call, nil
		}
		if id, ok := x.Fun.(*ast.Ident); ok {
			if fn, ok := t.p.Info.Uses[id].(*types.Func); ok && fn.Pkg() == t.p.Types {
				return t.inlineCall(x, id.Name)
			}
		}
		return "", fmt.Errorf("%s: unsupported call", t.p.Pos(e))
	}
	return "", fmt.Errorf("%s: unsupported expression %T", t.p.Pos(e), e)
}

// tableIndex translates  TABLE[i]  where TABLE is a package-level variable initialised with an
// array or slice literal of constants (possibly keyed, `[...]T{k1: v1, ...}`): a chain of tests
// on the index; an index outside [0, len) is a Go run-time panic.
func (t *tr2) tableIndex(x *ast.IndexExpr) (string, error) {
	id, ok := x.X.(*ast.Ident)
	if !ok {
		return "", fmt.Errorf("%s: unsupported index expression", t.p.Pos(x))
	}
	obj, ok := t.p.Info.Uses[id].(*types.Var)
	if !ok || obj.Pkg() != t.p.Types || obj.Parent() != t.p.Types.Scope() {
		return "", fmt.Errorf("%s: index of something that is not a package-level table", t.p.Pos(x))
	}
	var lit *ast.CompositeLit
	for _, f := range t.p.Files {
		for _, d := range f.Decls {
			gd, ok := d.(*ast.GenDecl)
			if !ok {
				continue
			}
			for _, sp := range gd.Specs {
				vs, ok := sp.(*ast.ValueSpec)
				if !ok {
					continue
				}
				for i, n := range vs.Names {
					if t.p.Info.Defs[n] == obj && i < len(vs.Values) {
						lit, _ = vs.Values[i].(*ast.CompositeLit)
					}
				}
			}
		}
	}
	if lit == nil {
		return "", fmt.Errorf("%s: table %s is not initialised with a literal", t.p.Pos(x), id.Name)
	}
	var n int64
	var elemT types.Type
	switch tt := obj.Type().Underlying().(type) {
	case *types.Array:
		n, elemT = tt.Len(), tt.Elem()
	case *types.Slice:
		n, elemT = -1, tt.Elem()
	default:
		return "", fmt.Errorf("%s: table %s is neither an array nor a slice", t.p.Pos(x), id.Name)
	}
	zero := "0"
	if isStringType(elemT) {
		zero = "\"\""
	} else if !isIntType(elemT) {
		return "", fmt.Errorf("%s: table %s has an unsupported element type", t.p.Pos(x), id.Name)
	}
	idx, err := t.expr(x.Index)
	if err != nil {
		return "", err
	}
	type ent struct {
		k int64
		v string
	}
	var ents []ent
	next := int64(0)
	for _, el := range lit.Elts {
		val := el
		if kv, ok := el.(*ast.KeyValueExpr); ok {
			tv := t.p.Info.Types[kv.Key]
			if tv.Value == nil {
				return "", fmt.Errorf("%s: table key is not a constant", t.p.Pos(kv))
			}
			k, exact := constant.Int64Val(constant.ToInt(tv.Value))
			if !exact {
				return "", fmt.Errorf("%s: table key out of range", t.p.Pos(kv))
			}
			next, val = k, kv.Value
		}
		v, err := t.expr(val)
		if err != nil {
			return "", err
		}
		ents = append(ents, ent{next, v})
		next++
	}
	if n < 0 {
		for _, e := range ents {
			if e.k+1 > n {
				n = e.k + 1
			}
		}
		if n < 0 {
			n = 0
		}
	}
	pt, err := t.panicTerm(x)
	if err != nil {
		return "", err
	}
	t.nbind++
	iv := fmt.Sprintf("IDX%d", t.nbind)
	body := zero
	for i := len(ents) - 1; i >= 0; i-- {
		body = fmt.Sprintf("(if (Z.eqb %s %d) then %s else %s)", iv, ents[i].k, ents[i].v, body)
	}
	if t.panRe || t.optRe {
		return "", fmt.Errorf("%s: table read in a partial function", t.p.Pos(x))
	}
	return fmt.Sprintf("(let %s := %s in (if (orb (Z.ltb %s 0) (Z.leb %d %s)) then %s else %s))", iv, idx, iv, n, iv, pt, body), nil
}

// inlineCall translates a call of a plain (receiver-less) function of the package by INLINING
// its body: the parameters are let-bound to the translated arguments.  So a helper such as
// packRef(typeBits, ref) leaves no new name in the generated file, and the semantic lemmas of
// the Coq side (which unfold the generated definitions and reduce the lets) see through it.
func (t *tr2) inlineCall(x *ast.CallExpr, name string) (string, error) {
	fd, ok := t.decls[name]
	if !ok || fd.Body == nil || fd.Recv != nil {
		return "", fmt.Errorf("%s: function %s has no translatable declaration", t.p.Pos(x), name)
	}
	if t.inlining[name] {
		return "", fmt.Errorf("%s: recursive helper %s", t.p.Pos(x), name)
	}
	rts := t.resultTypes(fd)
	if len(rts) != 1 {
		return "", fmt.Errorf("%s: helper %s does not return exactly one value", t.p.Pos(x), name)
	}
	if _, ok := t.scalarType(rts[0]); !ok {
		return "", fmt.Errorf("%s: helper %s returns an unsupported type", t.p.Pos(x), name)
	}
	var args []string
	for _, a := range x.Args {
		v, err := t.expr(a)
		if err != nil {
			return "", err
		}
		args = append(args, v)
	}
	t.nbind++
	tag := fmt.Sprintf("I%d_", t.nbind)
	sub := &tr2{p: t.p, decls: t.decls, env: map[string]string{}, used: t.used, pmemo: t.pmemo,
		inlining: map[string]bool{name: true}, nbind: t.nbind, prefix: tag}
	for k := range t.inlining {
		sub.inlining[k] = true
	}
	sub.strRe = isStringType(rts[0])
	sub.panRe = !sub.strRe && t.partial(name)
	var names []string
	for _, f := range fd.Type.Params.List {
		ft := t.p.Info.Types[f.Type].Type
		if _, ok := t.scalarType(ft); !ok {
			return "", fmt.Errorf("%s: helper %s has an unsupported parameter type", t.p.Pos(x), name)
		}
		for _, n := range f.Names {
			sub.env[n.Name] = tag + n.Name
			names = append(names, tag+n.Name)
		}
	}
	if len(names) != len(args) {
		return "", fmt.Errorf("%s: helper %s: argument count", t.p.Pos(x), name)
	}
	body, err := sub.stmts(fd.Body.List)
	t.nbind = sub.nbind
	if err != nil {
		return "", fmt.Errorf("helper %s: %v", name, err)
	}
	for i := len(names) - 1; i >= 0; i-- {
		body = fmt.Sprintf("(let %s := %s in %s)", names[i], args[i], body)
	}
	if sub.panRe {
		v := t.fresh()
		t.binds = append(t.binds, [2]string{v, body})
		return v, nil
	}
	return body, nil
}

// methodCall builds the Coq application for a call of a method of this package.
// ok = false: x is not such a call.
func (t *tr2) methodCall(x *ast.CallExpr) (call, key string, ok bool, err error) {
	sel, isSel := x.Fun.(*ast.SelectorExpr)
	if !isSel {
		return "", "", false, nil
	}
	s, isM := t.p.Info.Selections[sel]
	if !isM || s.Kind() != types.MethodVal {
		return "", "", false, nil
	}
	tn, named := recvTypeName(s.Recv())
	if !named {
		return "", "", true, fmt.Errorf("%s: method on unnamed type", t.p.Pos(x))
	}
	rt := s.Recv()
	if pt, isP := rt.(*types.Pointer); isP {
		rt = pt.Elem()
	}
	if nt, isN := rt.(*types.Named); !isN || nt.Obj().Pkg() != t.p.Types {
		return "", "", true, fmt.Errorf("%s: method on foreign type", t.p.Pos(x))
	}
	key = tn + "." + sel.Sel.Name
	if _, have := t.decls[key]; !have {
		return "", "", true, fmt.Errorf("%s: method %s has no declaration in the package", t.p.Pos(x), key)
	}
	var args []string
	if st := structOf(s.Recv()); st != nil {
		id, isId := sel.X.(*ast.Ident)
		if !isId {
			return "", "", true, fmt.Errorf("%s: method call on a struct expression", t.p.Pos(x))
		}
		fields := t.fieldsUsed(key, map[string]bool{})
		for _, i := range fields {
			v, have := t.env[id.Name+"."+st.Field(i).Name()]
			if !have {
				return "", "", true, fmt.Errorf("%s: field %s of %s is not a parameter here", t.p.Pos(x), st.Field(i).Name(), id.Name)
			}
			args = append(args, v)
		}
		if len(fields) == 0 {
			// a method that reads no field of its struct receiver keeps one dummy parameter
			// (the convention of expr.go, e.g. Bounds_ObjectID (a_b : Z))
			args = append(args, "0")
		}
	} else {
		recv, err := t.expr(sel.X)
		if err != nil {
			return "", "", true, err
		}
		args = append(args, recv)
	}
	for _, a := range x.Args {
		v, err := t.expr(a)
		if err != nil {
			return "", "", true, err
		}
		args = append(args, v)
	}
	t.used["f:"+key] = true
	call = "(" + CoqFuncName(tn, sel.Sel.Name) + " " + strings.Join(args, " ") + ")"
	if len(args) == 0 {
		call = CoqFuncName(tn, sel.Sel.Name)
	}
	return call, key, true, nil
}

// errCheck recognises   x, err := CALL   followed by   if err != nil { S }   where CALL returns
// (T, error): the pair becomes  match CALL with Some a_x => REST | None => S end.
func (t *tr2) errCheck(l []ast.Stmt) (string, bool, error) {
	as, ok := l[0].(*ast.AssignStmt)
	if !ok || len(as.Lhs) != 2 || len(as.Rhs) != 1 || len(l) < 2 {
		return "", false, nil
	}
	ce, ok := as.Rhs[0].(*ast.CallExpr)
	if !ok {
		return "", false, nil
	}
	v, ok1 := as.Lhs[0].(*ast.Ident)
	e, ok2 := as.Lhs[1].(*ast.Ident)
	ifs, ok3 := l[1].(*ast.IfStmt)
	if !ok1 || !ok2 || !ok3 || ifs.Init != nil || ifs.Else != nil {
		return "", false, nil
	}
	be, ok := ifs.Cond.(*ast.BinaryExpr)
	if !ok || be.Op != token.NEQ {
		return "", false, nil
	}
	lx, ok1 := be.X.(*ast.Ident)
	ly, ok2 := be.Y.(*ast.Ident)
	if !ok1 || !ok2 || lx.Name != e.Name || ly.Name != "nil" {
		return "", false, nil
	}
	term, err := t.withBinds(as, func() (string, error) {
		call, key, isM, err := t.methodCall(ce)
		if !isM {
			return "", fmt.Errorf("%s: unsupported call with two results", t.p.Pos(ce))
		}
		if err != nil {
			return "", err
		}
		rts := t.resultTypes(t.decls[key])
		if len(rts) != 2 || rts[1].String() != "error" {
			return "", fmt.Errorf("%s: the callee does not return (T, error)", t.p.Pos(ce))
		}
		if !endsInReturnOrPanic(ifs.Body.List) {
			return "", fmt.Errorf("%s: the error branch falls through", t.p.Pos(ifs))
		}
		bad, err := t.stmts(ifs.Body.List)
		if err != nil {
			return "", err
		}
		cn := t.coqName(v.Name)
		t.env[v.Name] = cn
		rest, err := t.stmts(l[2:])
		if err != nil {
			return "", err
		}
		return fmt.Sprintf("(match %s with Some %s => %s | None => %s end)", call, cn, rest, bad), nil
	})
	return term, true, err
}

// withBinds evaluates f (which may call partial functions) and wraps the produced term into the
// matches on those calls.
func (t *tr2) withBinds(n ast.Node, f func() (string, error)) (string, error) {
	saved := t.binds
	t.binds = nil
	term, err := f()
	binds := t.binds
	t.binds = saved
	if err != nil {
		return "", err
	}
	if len(binds) == 0 {
		return term, nil
	}
	pt, err := t.panicTerm(n)
	if err != nil {
		return "", err
	}
	for i := len(binds) - 1; i >= 0; i-- {
		term = fmt.Sprintf("(match %s with Some %s => %s | None => %s end)", binds[i][1], binds[i][0], term, pt)
	}
	return term, nil
}

func (t *tr2) assignTarget(e ast.Expr) (string, error) {
	id, ok := e.(*ast.Ident)
	if !ok {
		return "", fmt.Errorf("%s: assignment to a non-identifier", t.p.Pos(e))
	}
	return id.Name, nil
}

// assignValue returns the target and the new value of a simple assignment statement.
func (t *tr2) assignValue(s ast.Stmt) (string, func() (string, error), error) {
	switch a := s.(type) {
	case *ast.AssignStmt:
		if len(a.Lhs) != 1 || len(a.Rhs) != 1 {
			return "", nil, fmt.Errorf("%s: multiple assignment", t.p.Pos(s))
		}
		name, err := t.assignTarget(a.Lhs[0])
		if err != nil {
			return "", nil, err
		}
		var op token.Token
		switch a.Tok {
		case token.ASSIGN, token.DEFINE:
			return name, func() (string, error) { return t.expr(a.Rhs[0]) }, nil
		case token.ADD_ASSIGN:
			op = token.ADD
		case token.SUB_ASSIGN:
			op = token.SUB
		case token.OR_ASSIGN:
			op = token.OR
		case token.AND_ASSIGN:
			op = token.AND
		case token.SHL_ASSIGN:
			op = token.SHL
		case token.SHR_ASSIGN:
			op = token.SHR
		default:
			return "", nil, fmt.Errorf("%s: unsupported assignment operator", t.p.Pos(s))
		}
		be := &ast.BinaryExpr{X: a.Lhs[0], Op: op, Y: a.Rhs[0], OpPos: a.TokPos}
		t.p.Info.Types[be] = t.p.Info.Types[a.Lhs[0]]
		return name, func() (string, error) { return t.expr(be) }, nil
	case *ast.IncDecStmt:
		name, err := t.assignTarget(a.X)
		if err != nil {
			return "", nil, err
		}
		fn := "Z.add"
		if a.Tok == token.DEC {
			fn = "Z.sub"
		}
		return name, func() (string, error) {
			v, err := t.expr(a.X)
			if err != nil {
				return "", err
			}
			return t.wrap(a.X, fmt.Sprintf("(%s %s 1)", fn, v))
		}, nil
	}
	return "", nil, fmt.Errorf("%s: not an assignment", t.p.Pos(s))
}

func onlyAssignments(l []ast.Stmt) bool {
	for _, s := range l {
		switch s.(type) {
		case *ast.AssignStmt, *ast.IncDecStmt:
		default:
			return false
		}
	}
	return len(l) > 0
}

func endsInReturnOrPanic(l []ast.Stmt) bool {
	if len(l) == 0 {
		return false
	}
	switch s := l[len(l)-1].(type) {
	case *ast.ReturnStmt:
		return true
	case *ast.ExprStmt:
		if c, ok := s.X.(*ast.CallExpr); ok {
			if id, ok := c.Fun.(*ast.Ident); ok && id.Name == "panic" {
				return true
			}
		}
	case *ast.IfStmt:
		if s.Else != nil {
			if eb, ok := s.Else.(*ast.BlockStmt); ok {
				return endsInReturnOrPanic(s.Body.List) && endsInReturnOrPanic(eb.List)
			}
		}
	}
	return false
}

func (t *tr2) coqName(x string) string {
	if t.prefix != "" {
		return t.prefix + x
	}
	return "a_" + x
}

func (t *tr2) stmts(l []ast.Stmt) (string, error) {
	if len(l) == 0 {
		return "", fmt.Errorf("fall off the end of a function")
	}
	if term, ok, err := t.errCheck(l); ok {
		return term, err
	}
	switch s := l[0].(type) {
	case *ast.ReturnStmt:
		return t.withBinds(s, func() (string, error) {
			if t.optRe {
				if len(s.Results) != 2 {
					return "", fmt.Errorf("%s: bad return arity", t.p.Pos(s))
				}
				if id, ok := s.Results[1].(*ast.Ident); ok && id.Name == "nil" {
					v, err := t.expr(s.Results[0])
					if err != nil {
						return "", err
					}
					return "(Some " + v + ")", nil
				}
				return "None", nil
			}
			if len(s.Results) != 1 {
				return "", fmt.Errorf("%s: bad return arity", t.p.Pos(s))
			}
			v, err := t.expr(s.Results[0])
			if err != nil {
				return "", err
			}
			if t.panRe {
				return "(Some " + v + ")", nil
			}
			return v, nil
		})
	case *ast.ExprStmt:
		if c, ok := s.X.(*ast.CallExpr); ok {
			if id, ok := c.Fun.(*ast.Ident); ok && id.Name == "panic" {
				return t.panicTerm(s)
			}
		}
		return "", fmt.Errorf("%s: unsupported statement", t.p.Pos(s))
	case *ast.DeclStmt:
		gd, ok := s.Decl.(*ast.GenDecl)
		if ok && gd.Tok == token.VAR {
			for _, sp := range gd.Specs {
				vs := sp.(*ast.ValueSpec)
				if len(vs.Values) != 0 {
					return "", fmt.Errorf("%s: var with initialiser", t.p.Pos(s))
				}
				for _, n := range vs.Names {
					ty := t.p.Info.Defs[n].Type()
					if isStringType(ty) {
						t.env[n.Name] = "\"\""
					} else {
						t.env[n.Name] = "0"
					}
				}
			}
			return t.stmts(l[1:])
		}
		return "", fmt.Errorf("%s: unsupported declaration", t.p.Pos(s))
	case *ast.AssignStmt, *ast.IncDecStmt:
		name, val, err := t.assignValue(s)
		if err != nil {
			return "", err
		}
		return t.withBinds(s, func() (string, error) {
			v, err := val()
			if err != nil {
				return "", err
			}
			cn := t.coqName(name)
			t.env[name] = cn
			rest, err := t.stmts(l[1:])
			if err != nil {
				return "", err
			}
			return fmt.Sprintf("(let %s := %s in %s)", cn, v, rest), nil
		})
	case *ast.IfStmt:
		if s.Init != nil {
			// if x := E; C { .. }  ==  x := E; if C { .. }   (x is not used after the if: it is
			// out of scope there, so the wider scope of the let is harmless)
			if _, ok := s.Init.(*ast.AssignStmt); !ok {
				return "", fmt.Errorf("%s: if with an unsupported init statement", t.p.Pos(s))
			}
			plain := *s
			plain.Init = nil
			return t.stmts(append([]ast.Stmt{s.Init, &plain}, l[1:]...))
		}
		return t.withBinds(s, func() (string, error) {
			c, err := t.expr(s.Cond)
			if err != nil {
				return "", err
			}
			if s.Else != nil {
				eb, ok := s.Else.(*ast.BlockStmt)
				if !ok || !endsInReturnOrPanic(s.Body.List) || !endsInReturnOrPanic(eb.List) {
					return "", fmt.Errorf("%s: unsupported if/else form", t.p.Pos(s))
				}
				a, err := t.stmts(s.Body.List)
				if err != nil {
					return "", err
				}
				b, err := t.stmts(eb.List)
				if err != nil {
					return "", err
				}
				return fmt.Sprintf("(if %s then %s else %s)", c, a, b), nil
			}
			if endsInReturnOrPanic(s.Body.List) {
				a, err := t.stmts(s.Body.List)
				if err != nil {
					return "", err
				}
				b, err := t.stmts(l[1:])
				if err != nil {
					return "", err
				}
				return fmt.Sprintf("(if %s then %s else %s)", c, a, b), nil
			}
			if !onlyAssignments(s.Body.List) {
				return "", fmt.Errorf("%s: an if that falls through must contain assignments only", t.p.Pos(s))
			}
			t.nbind++
			cv := fmt.Sprintf("IFC%d", t.nbind)
			out := fmt.Sprintf("(let %s := %s in ", cv, c)
			closing := ")"
			for _, as := range s.Body.List {
				name, val, err := t.assignValue(as)
				if err != nil {
					return "", err
				}
				old, ok := t.env[name]
				if !ok {
					return "", fmt.Errorf("%s: assignment to an undeclared variable %s", t.p.Pos(as), name)
				}
				nb := len(t.binds)
				v, err := val()
				if err != nil {
					return "", err
				}
				if len(t.binds) != nb {
					return "", fmt.Errorf("%s: a partial call in a conditional assignment", t.p.Pos(as))
				}
				cn := t.coqName(name)
				out += fmt.Sprintf("(let %s := (if %s then %s else %s) in ", cn, cv, v, old)
				closing += ")"
				t.env[name] = cn
			}
			rest, err := t.stmts(l[1:])
			if err != nil {
				return "", err
			}
			return out + rest + closing, nil
		})
	case *ast.SwitchStmt:
		if s.Init != nil || s.Tag == nil {
			return "", fmt.Errorf("%s: unsupported switch form", t.p.Pos(s))
		}
		return t.withBinds(s, func() (string, error) {
			tag, err := t.expr(s.Tag)
			if err != nil {
				return "", err
			}
			str := isStringType(t.p.Info.Types[s.Tag].Type)
			var dflt *ast.CaseClause
			for _, c := range s.Body.List {
				if cc := c.(*ast.CaseClause); cc.List == nil {
					dflt = cc
				}
			}
			var out string
			if dflt != nil {
				if !endsInReturnOrPanic(dflt.Body) {
					return "", fmt.Errorf("%s: default clause that falls through", t.p.Pos(dflt))
				}
				out, err = t.stmts(dflt.Body)
			} else {
				out, err = t.stmts(l[1:])
			}
			if err != nil {
				return "", err
			}
			cl := s.Body.List
			for i := len(cl) - 1; i >= 0; i-- {
				cc := cl[i].(*ast.CaseClause)
				if cc.List == nil {
					continue
				}
				if !endsInReturnOrPanic(cc.Body) {
					return "", fmt.Errorf("%s: case clause that falls through", t.p.Pos(cc))
				}
				body, err := t.stmts(cc.Body)
				if err != nil {
					return "", err
				}
				var conds []string
				for _, ce := range cc.List {
					v, err := t.expr(ce)
					if err != nil {
						return "", err
					}
					if str {
						conds = append(conds, fmt.Sprintf("(String.eqb SWTAG %s)", v))
					} else {
						conds = append(conds, fmt.Sprintf("(Z.eqb SWTAG %s)", v))
					}
				}
				cond := conds[0]
				for _, c := range conds[1:] {
					cond = fmt.Sprintf("(orb %s %s)", cond, c)
				}
				out = fmt.Sprintf("(if %s then %s else %s)", cond, body, out)
			}
			return fmt.Sprintf("(let SWTAG := %s in %s)", tag, out), nil
		})
	}
	return "", fmt.Errorf("%s: unsupported statement %T", t.p.Pos(l[0]), l[0])
}

func (t *tr2) scalarType(ft types.Type) (string, bool) {
	switch {
	case isIntType(ft):
		return "Z", true
	case isStringType(ft):
		return "string", true
	case isBoolType(ft):
		return "bool", true
	}
	return "", false
}

// TranslateFunc2 translates fd with the extended grammar described at the top of this file.
func TranslateFunc2(p *Pkg, decls map[string]*ast.FuncDecl, key string, fd *ast.FuncDecl) (*Translated, error) {
	if fd.Body == nil {
		return nil, fmt.Errorf("no body")
	}
	t := &tr2{p: p, decls: decls, env: map[string]string{}, used: map[string]bool{}, pmemo: map[string]int{}}
	recv := ""
	var params []string
	var notes []string
	addParam := func(name string, ty types.Type, pos ast.Node, fields []int) error {
		if st := structOf(ty); st != nil {
			if len(fields) == 0 {
				params = append(params, fmt.Sprintf("(a_%s : Z)", name))
			}
			for _, i := range fields {
				f := st.Field(i)
				cty, ok := t.scalarType(f.Type())
				if !ok {
					return fmt.Errorf("%s: field %s has an unsupported type", p.Pos(pos), f.Name())
				}
				cn := "a_" + name + "_" + f.Name()
				t.env[name+"."+f.Name()] = cn
				params = append(params, fmt.Sprintf("(%s : %s)", cn, cty))
				notes = append(notes, name+"."+f.Name())
			}
			return nil
		}
		cty, ok := t.scalarType(ty)
		if !ok {
			return fmt.Errorf("%s: unsupported parameter type", p.Pos(pos))
		}
		cn := "a_" + name
		t.env[name] = cn
		params = append(params, fmt.Sprintf("(%s : %s)", cn, cty))
		return nil
	}
	if fd.Recv != nil && len(fd.Recv.List) == 1 {
		recv = RecvName(fd.Recv.List[0].Type)
		rn := "_recv"
		if len(fd.Recv.List[0].Names) == 1 {
			rn = fd.Recv.List[0].Names[0].Name
		}
		rt := p.Info.Types[fd.Recv.List[0].Type].Type
		if structOf(rt) != nil {
			if err := addParam(rn, rt, fd.Recv.List[0], t.fieldsUsed(key, map[string]bool{})); err != nil {
				return nil, err
			}
		} else {
			ty := "Z"
			if isStringType(rt) {
				ty = "string"
			}
			t.env[rn] = "a_" + rn
			params = append(params, fmt.Sprintf("(a_%s : %s)", rn, ty))
		}
	}
	for _, f := range fd.Type.Params.List {
		ft := p.Info.Types[f.Type].Type
		if structOf(ft) != nil {
			return nil, fmt.Errorf("%s: struct parameters are not supported (only struct receivers)", p.Pos(f))
		}
		for _, n := range f.Names {
			if err := addParam(n.Name, ft, f, nil); err != nil {
				return nil, err
			}
		}
	}
	rts := t.resultTypes(fd)
	if len(rts) == 0 {
		return nil, fmt.Errorf("no result")
	}
	rty, ok := t.scalarType(rts[0])
	if !ok {
		return nil, fmt.Errorf("unsupported result type %s", rts[0])
	}
	t.strRe = rty == "string"
	if len(rts) == 2 && rts[1].String() == "error" {
		t.optRe, t.strRe = true, false
		rty = "option " + rty
	} else if len(rts) != 1 {
		return nil, fmt.Errorf("unsupported result arity")
	} else if t.partial(key) {
		t.panRe = true
		rty = "option " + rty
	}
	body, err := t.stmts(fd.Body.List)
	if err != nil {
		return nil, err
	}
	name := CoqFuncName(recv, fd.Name.Name)
	var uses []string
	for u := range t.used {
		uses = append(uses, u)
	}
	note := ""
	if len(notes) > 0 {
		note = "; struct fields read: " + strings.Join(notes, ", ")
	}
	if t.panRe {
		note += "; partial: None = panic"
	}
	return &Translated{Key: key, Name: name, Pos: p.Pos(fd), Uses: uses,
		Def: fmt.Sprintf("(* %s%s *)\nDefinition %s %s : %s :=\n  %s.\n", p.Pos(fd), note, name, strings.Join(params, " "), rty, body)}, nil
}

// EmitFuncs2 is EmitFuncs with TranslateFunc2 as a fallback for functions outside the grammar
// of expr.go.  Constants and the functions that already translated are emitted unchanged.
func EmitFuncs2(p *Pkg, header string, keys []string) []byte {
	// header and constants: reuse EmitFuncs with no keys
	head := EmitFuncs(p, header, nil)
	decls := p.FuncDecls()
	done := map[string]bool{}
	failed := map[string]string{}
	var order []*Translated
	var visit func(k string, stack map[string]bool)
	visit = func(k string, stack map[string]bool) {
		if done[k] || failed[k] != "" {
			return
		}
		if stack[k] {
			failed[k] = "recursive"
			return
		}
		fd, ok := decls[k]
		if !ok {
			failed[k] = "not found in source"
			return
		}
		t, err := TranslateFunc(p, k, fd)
		if err != nil {
			var err2 error
			t, err2 = TranslateFunc2(p, decls, k, fd)
			if err2 != nil {
				failed[k] = err.Error() + " / extended: " + err2.Error()
				return
			}
		} else {
			// a total translation of a function that the extended analysis knows to be partial
			// through a callee must not be used
			x := &tr2{p: p, decls: decls, pmemo: map[string]int{}}
			if x.partial(k) {
				t, err = TranslateFunc2(p, decls, k, fd)
				if err != nil {
					failed[k] = err.Error()
					return
				}
			}
		}
		stack[k] = true
		sort.Strings(t.Uses)
		for _, u := range t.Uses {
			if strings.HasPrefix(u, "f:") {
				visit(u[2:], stack)
				if failed[u[2:]] != "" {
					failed[k] = "depends on untranslatable " + u[2:]
					delete(stack, k)
					return
				}
			}
		}
		delete(stack, k)
		done[k] = true
		order = append(order, t)
	}
	for _, k := range keys {
		visit(k, map[string]bool{})
	}
	var b strings.Builder
	b.Write(head)
	for _, t := range order {
		b.WriteString(t.Def)
		b.WriteString("\n")
	}
	var fk []string
	for k := range failed {
		fk = append(fk, k)
	}
	sort.Strings(fk)
	for _, k := range fk {
		fmt.Fprintf(&b, "(* UNTRANSLATABLE %s: %s *)\n", k, strings.ReplaceAll(failed[k], "*)", "* )"))
	}
	return []byte(b.String())
}
