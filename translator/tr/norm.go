package tr

// norm.go — a normalisation pass over the Go AST, run by tr/loops.go on every function body
// (and on inlined helpers) before translation, so that behaviour-preserving rewrites of the
// source yield the same Gallina term (or one that is convertible after zeta-reduction):
//
//   switch TAG { case a, b: S1; case c: S2; default: S3 }     ->  if [sw := TAG;] sw == a || sw == b { S1 } else if sw == c { S2 } else { S3 }
//   switch { case C1: S1; ...; default: S }                    ->  if C1 { S1 } else if ... else { S }
//       (TAG is repeated when it is an identifier or a field selection, otherwise bound once;
//        no fallthrough / break)
//   if C { A } else { B }   with C "more negated" than !C       ->  if !C { B } else { A }
//   if C { A }              likewise                             ->  if !C { } else { A }
//       (negations are pushed to the atoms: !(a && b) = !a || !b, !(x == y) = x != y, !(x < y) = x >= y;
//        the orientation with fewer negated atoms (!x, !=) is kept)
//   if A { T } ; if B { T }   with the same terminating T        ->  if A || B { T }
//
// Synthesised nodes get their type recorded in types.Info so that the translator can treat them
// like source nodes.  Everything else is left as written.

import (
	"go/ast"
	"go/token"
	"go/types"
)

func (t *LT) setType(e ast.Expr, ty types.Type) {
	t.p.Info.Types[e] = types.TypeAndValue{Type: ty}
}

func (t *LT) mkBin(op token.Token, x, y ast.Expr) ast.Expr {
	b := &ast.BinaryExpr{X: x, Op: op, Y: y}
	t.setType(b, types.Typ[types.Bool])
	return b
}

func (t *LT) mkNot(x ast.Expr) ast.Expr {
	u := &ast.UnaryExpr{Op: token.NOT, X: x}
	t.setType(u, types.Typ[types.Bool])
	return u
}

func stripParens(e ast.Expr) ast.Expr {
	for {
		p, ok := e.(*ast.ParenExpr)
		if !ok {
			return e
		}
		e = p.X
	}
}

var negOp = map[token.Token]token.Token{token.EQL: token.NEQ, token.NEQ: token.EQL, token.LSS: token.GEQ,
	token.GEQ: token.LSS, token.GTR: token.LEQ, token.LEQ: token.GTR}

// negate returns the negation of a boolean expression with negations pushed inwards.
func (t *LT) negate(e ast.Expr) ast.Expr {
	e = stripParens(e)
	switch x := e.(type) {
	case *ast.UnaryExpr:
		if x.Op == token.NOT {
			return t.nnf(x.X)
		}
	case *ast.BinaryExpr:
		switch x.Op {
		case token.LAND:
			return t.mkBin(token.LOR, t.negate(x.X), t.negate(x.Y))
		case token.LOR:
			return t.mkBin(token.LAND, t.negate(x.X), t.negate(x.Y))
		}
		if n, ok := negOp[x.Op]; ok {
			// only integers, strings and booleans: for floats !(a < b) is not a >= b (NaN)
			if tv, ok := t.p.Info.Types[x.X]; ok && tv.Type != nil && !isFloatType(tv.Type) || x.Op == token.EQL || x.Op == token.NEQ {
				return t.mkBin(n, x.X, x.Y)
			}
		}
	}
	return t.mkNot(e)
}

// nnf pushes negations to the atoms.
func (t *LT) nnf(e ast.Expr) ast.Expr {
	e = stripParens(e)
	switch x := e.(type) {
	case *ast.UnaryExpr:
		if x.Op == token.NOT {
			return t.negate(x.X)
		}
	case *ast.BinaryExpr:
		if x.Op == token.LAND || x.Op == token.LOR {
			return t.mkBin(x.Op, t.nnf(x.X), t.nnf(x.Y))
		}
	}
	return e
}

// negCost counts the negated atoms of an expression in negation normal form.
func negCost(e ast.Expr) int {
	e = stripParens(e)
	switch x := e.(type) {
	case *ast.UnaryExpr:
		if x.Op == token.NOT {
			return 1 + negCost(x.X)
		}
	case *ast.BinaryExpr:
		switch x.Op {
		case token.LAND, token.LOR:
			return negCost(x.X) + negCost(x.Y)
		case token.NEQ:
			return 1
		}
	}
	return 0
}

// isAtomText reports whether the expression (or a nil test) is handled by source text and must
// not be rewritten.
func (t *LT) keepCond(e ast.Expr) bool {
	if _, ok := t.fn.Atoms[t.src(e)]; ok {
		return true
	}
	if be, ok := stripParens(e).(*ast.BinaryExpr); ok && (be.Op == token.EQL || be.Op == token.NEQ) {
		if id, ok := be.Y.(*ast.Ident); ok && id.Name == "nil" {
			return true // nil tests are idioms of their own
		}
	}
	return false
}

func (t *LT) normBlock(b *ast.BlockStmt) *ast.BlockStmt {
	if b == nil {
		return nil
	}
	return &ast.BlockStmt{Lbrace: b.Lbrace, List: t.normStmts(b.List), Rbrace: b.Rbrace}
}

func (t *LT) normStmts(l []ast.Stmt) []ast.Stmt {
	var out []ast.Stmt
	for _, s := range l {
		out = append(out, t.normStmt(s))
	}
	// merge  if A { T } ; if B { T }
	var merged []ast.Stmt
	for _, s := range out {
		if cur, ok := s.(*ast.IfStmt); ok && len(merged) > 0 {
			if prev, ok := merged[len(merged)-1].(*ast.IfStmt); ok &&
				prev.Init == nil && cur.Init == nil && prev.Else == nil && cur.Else == nil &&
				terminates(prev.Body.List) && t.src(prev.Body) == t.src(cur.Body) &&
				!t.keepCond(prev.Cond) && !t.keepCond(cur.Cond) {
				merged[len(merged)-1] = &ast.IfStmt{If: prev.If, Cond: t.mkBin(token.LOR, prev.Cond, cur.Cond), Body: prev.Body}
				continue
			}
		}
		merged = append(merged, s)
	}
	return merged
}

func (t *LT) normStmt(s ast.Stmt) ast.Stmt {
	switch x := s.(type) {
	case *ast.BlockStmt:
		return t.normBlock(x)
	case *ast.RangeStmt:
		c := *x
		c.Body = t.normBlock(x.Body)
		return &c
	case *ast.SwitchStmt:
		if n := t.switchToIf(x); n != nil {
			return t.normStmt(n)
		}
		return x
	case *ast.IfStmt:
		c := *x
		c.Body = t.normBlock(x.Body)
		if x.Else != nil {
			c.Else = t.normStmt(x.Else)
		}
		// the error idiom and nil tests keep their shape
		if t.keepCond(c.Cond) {
			return &c
		}
		if as, ok := c.Init.(*ast.AssignStmt); ok && len(as.Rhs) == 1 {
			if _, ok := t.fn.ErrCalls[t.src(as.Rhs[0])]; ok {
				return &c
			}
			if t.errCallOf(as.Rhs[0]) != nil {
				return &c
			}
		}
		pos := t.nnf(c.Cond)
		neg := t.negate(c.Cond)
		if negCost(neg) < negCost(pos) {
			// if !C' { A } else { B }  ->  if C' { B } else { A }
			var nb *ast.BlockStmt
			switch e := c.Else.(type) {
			case nil:
				nb = &ast.BlockStmt{}
			case *ast.BlockStmt:
				nb = e
			default:
				nb = &ast.BlockStmt{List: []ast.Stmt{e}}
			}
			return &ast.IfStmt{If: c.If, Init: c.Init, Cond: neg, Body: nb, Else: c.Body}
		}
		c.Cond = pos
		return &c
	}
	return s
}

// switchToIf desugars a switch without fallthrough/break into an if / else-if chain.
func (t *LT) switchToIf(s *ast.SwitchStmt) ast.Stmt {
	var init ast.Stmt = s.Init
	var tag ast.Expr
	if s.Tag != nil {
		tag = stripParens(s.Tag)
		switch tag.(type) {
		case *ast.Ident, *ast.SelectorExpr:
			// repeated in every comparison
		default:
			if init != nil {
				return nil
			}
			tv, ok := t.p.Info.Types[tag]
			if !ok {
				return nil
			}
			t.nK++
			id := &ast.Ident{Name: "sw" + itoa(t.nK), NamePos: s.Pos()}
			t.setType(id, tv.Type)
			init = &ast.AssignStmt{Lhs: []ast.Expr{id}, Tok: token.DEFINE, Rhs: []ast.Expr{tag}}
			tag = id
		}
	}
	var def *ast.CaseClause
	var clauses []*ast.CaseClause
	for _, c := range s.Body.List {
		cc, ok := c.(*ast.CaseClause)
		if !ok {
			return nil
		}
		for _, b := range cc.Body {
			if br, ok := b.(*ast.BranchStmt); ok && (br.Tok == token.FALLTHROUGH || br.Tok == token.BREAK) {
				return nil
			}
		}
		if cc.List == nil {
			def = cc
		} else {
			clauses = append(clauses, cc)
		}
	}
	var tail ast.Stmt
	if def != nil {
		tail = &ast.BlockStmt{List: def.Body}
	}
	for i := len(clauses) - 1; i >= 0; i-- {
		cc := clauses[i]
		var cond ast.Expr
		for _, v := range cc.List {
			var c ast.Expr = v
			if tag != nil {
				c = t.mkBin(token.EQL, tag, v)
			}
			if cond == nil {
				cond = c
			} else {
				cond = t.mkBin(token.LOR, cond, c)
			}
		}
		ifs := &ast.IfStmt{If: cc.Pos(), Cond: cond, Body: &ast.BlockStmt{List: cc.Body}, Else: tail}
		tail = ifs
	}
	if tail == nil {
		return &ast.BlockStmt{}
	}
	if ifs, ok := tail.(*ast.IfStmt); ok {
		ifs.Init = init
		return ifs
	}
	// only a default clause
	if init != nil {
		return nil
	}
	return tail
}

func itoa(n int) string {
	if n == 0 {
		return "0"
	}
	s := ""
	for n > 0 {
		s = string(rune('0'+n%10)) + s
		n /= 10
	}
	return s
}
