package tr

import (
	"fmt"
	"go/ast"
	"go/constant"
	"go/token"
	"go/types"
	"strings"
)

// A small Go -> Gallina translator for straight-line integer/string functions:
//
//   body  ::= stmts
//   stmts ::= "return" E [, E] | "panic(...)" | "var x *T" stmts
//           | "switch" E "{" ("case" C ":" stmts)* "}" stmts
//           | "if" E "{" stmts "}" stmts
//   E     ::= ident | literal | E op E | (E) | T(E) | E.M(args) | nil
//
// Integers become Z (unbounded: the theorems prove that the values stay inside int64, so
// Go's wrapping arithmetic coincides with Z arithmetic on the domain of the property),
// strings become Coq strings, "(T, error)" results become option.  panic becomes the
// distinguished value of the result type (string: "!panic"; others: untranslatable).
// Anything outside the grammar makes the function untranslatable, which is reported
// and surfaces as a missing definition in GenOk.v.

type exprTr struct {
	p     *Pkg
	env   map[string]string // local identifier -> Coq term
	used  map[string]bool   // constants / functions referenced
	optRe bool              // result is (T, error)
	strRe bool              // result is a string type
}

func isStringType(t types.Type) bool {
	b, ok := t.Underlying().(*types.Basic)
	return ok && b.Info()&types.IsString != 0
}
func isIntType(t types.Type) bool {
	b, ok := t.Underlying().(*types.Basic)
	return ok && b.Info()&types.IsInteger != 0
}

// CoqFuncName is the Gallina name of a method or function.
func CoqFuncName(recv, name string) string {
	if recv == "" {
		return "f_" + name
	}
	return recv + "_" + name
}

func (t *exprTr) expr(e ast.Expr) (string, error) {
	// constants fold to their value (named constants keep their name)
	switch x := e.(type) {
	case *ast.ParenExpr:
		return t.expr(x.X)
	case *ast.Ident:
		if x.Name == "nil" {
			return "0", nil
		}
		if v, ok := t.env[x.Name]; ok {
			return v, nil
		}
		if obj, ok := t.p.Info.Uses[x].(*types.Const); ok && obj.Pkg() == t.p.Types {
			t.used["c:"+x.Name] = true
			return "c_" + x.Name, nil
		}
		return "", fmt.Errorf("%s: unknown identifier %s", t.p.Pos(e), x.Name)
	case *ast.BasicLit:
		tv := t.p.Info.Types[e]
		if tv.Value == nil {
			return "", fmt.Errorf("%s: literal without value", t.p.Pos(e))
		}
		switch tv.Value.Kind() {
		case constant.Int:
			return CoqZ(tv.Value), nil
		case constant.String:
			return CoqString(constant.StringVal(tv.Value)), nil
		}
		return "", fmt.Errorf("%s: unsupported literal", t.p.Pos(e))
	case *ast.BinaryExpr:
		a, err := t.expr(x.X)
		if err != nil {
			return "", err
		}
		b, err := t.expr(x.Y)
		if err != nil {
			return "", err
		}
		tx := t.p.Info.Types[x.X].Type
		str := tx != nil && isStringType(tx)
		switch x.Op {
		case token.OR:
			return fmt.Sprintf("(Z.lor %s %s)", a, b), nil
		case token.AND:
			return fmt.Sprintf("(Z.land %s %s)", a, b), nil
		case token.SHL:
			return t.wrap(e, fmt.Sprintf("(Z.shiftl %s %s)", a, b))
		case token.SHR:
			return fmt.Sprintf("(Z.shiftr %s %s)", a, b), nil
		case token.ADD:
			if str {
				return fmt.Sprintf("(String.append %s %s)", a, b), nil
			}
			return t.wrap(e, fmt.Sprintf("(Z.add %s %s)", a, b))
		case token.SUB:
			return t.wrap(e, fmt.Sprintf("(Z.sub %s %s)", a, b))
		case token.MUL:
			return t.wrap(e, fmt.Sprintf("(Z.mul %s %s)", a, b))
		case token.EQL:
			if str {
				return fmt.Sprintf("(String.eqb %s %s)", a, b), nil
			}
			return fmt.Sprintf("(Z.eqb %s %s)", a, b), nil
		case token.NEQ:
			if str {
				return fmt.Sprintf("(negb (String.eqb %s %s))", a, b), nil
			}
			return fmt.Sprintf("(negb (Z.eqb %s %s))", a, b), nil
		case token.LSS:
			return fmt.Sprintf("(Z.ltb %s %s)", a, b), nil
		case token.LEQ:
			return fmt.Sprintf("(Z.leb %s %s)", a, b), nil
		case token.GTR:
			return fmt.Sprintf("(Z.ltb %s %s)", b, a), nil
		case token.GEQ:
			return fmt.Sprintf("(Z.leb %s %s)", b, a), nil
		case token.LAND:
			return fmt.Sprintf("(andb %s %s)", a, b), nil
		case token.LOR:
			return fmt.Sprintf("(orb %s %s)", a, b), nil
		}
		return "", fmt.Errorf("%s: unsupported operator %s", t.p.Pos(e), x.Op)
	case *ast.CallExpr:
		// conversion T(x): identity on Z / string
		if tv, ok := t.p.Info.Types[x.Fun]; ok && tv.IsType() {
			if len(x.Args) != 1 {
				return "", fmt.Errorf("%s: bad conversion", t.p.Pos(e))
			}
			from := t.p.Info.Types[x.Args[0]].Type
			if isStringType(tv.Type) && isStringType(from) {
				return t.expr(x.Args[0])
			}
			if isIntType(tv.Type) && isIntType(from) {
				v, err := t.expr(x.Args[0])
				if err != nil {
					return "", err
				}
				if intWidth(tv.Type) == intWidth(from) && intSigned(tv.Type) == intSigned(from) {
					return v, nil
				}
				return t.wrap(e, v)
			}
			return "", fmt.Errorf("%s: unsupported conversion to %s", t.p.Pos(e), tv.Type)
		}
		if sel, ok := x.Fun.(*ast.SelectorExpr); ok {
			if s, ok := t.p.Info.Selections[sel]; ok && s.Kind() == types.MethodVal {
				rt := s.Recv()
				if pt, ok := rt.(*types.Pointer); ok {
					rt = pt.Elem()
				}
				named, ok := rt.(*types.Named)
				if !ok || named.Obj().Pkg() != t.p.Types {
					return "", fmt.Errorf("%s: method on foreign type", t.p.Pos(e))
				}
				recv, err := t.expr(sel.X)
				if err != nil {
					return "", err
				}
				name := CoqFuncName(named.Obj().Name(), sel.Sel.Name)
				t.used["f:"+named.Obj().Name()+"."+sel.Sel.Name] = true
				args := []string{recv}
				for _, a := range x.Args {
					s, err := t.expr(a)
					if err != nil {
						return "", err
					}
					args = append(args, s)
				}
				return "(" + name + " " + strings.Join(args, " ") + ")", nil
			}
		}
		return "", fmt.Errorf("%s: unsupported call", t.p.Pos(e))
	}
	return "", fmt.Errorf("%s: unsupported expression %T", t.p.Pos(e), e)
}

// wrap applies Go's fixed-width wrap-around for the static type of e to the Z term v.
// Constant expressions are exact (the compiler rejects overflowing constants).
func (t *exprTr) wrap(e ast.Expr, v string) (string, error) {
	tv := t.p.Info.Types[e]
	if tv.Value != nil || tv.Type == nil {
		return v, nil
	}
	if b, ok := tv.Type.Underlying().(*types.Basic); ok && b.Info()&types.IsUntyped != 0 {
		return v, nil
	}
	w, s := intWidth(tv.Type), intSigned(tv.Type)
	switch {
	case w == 64 && s:
		return "(wrap64 " + v + ")", nil
	case w == 32 && s:
		return "(wrap32 " + v + ")", nil
	case w == 64 && !s:
		return "(uwrap64 " + v + ")", nil
	case w == 32 && !s:
		return "(uwrap32 " + v + ")", nil
	}
	return "", fmt.Errorf("%s: unsupported integer width for %s", t.p.Pos(e), tv.Type)
}

func intWidth(t types.Type) int {
	b, ok := t.Underlying().(*types.Basic)
	if !ok {
		return 0
	}
	switch b.Kind() {
	case types.Int, types.Uint, types.Int64, types.Uint64, types.Uintptr, types.UntypedInt:
		return 64 // amd64/arm64: int is 64 bits (recorded in the trusted base)
	case types.Int32, types.Uint32:
		return 32
	case types.Int16, types.Uint16:
		return 16
	case types.Int8, types.Uint8:
		return 8
	}
	return 0
}

func intSigned(t types.Type) bool {
	b, ok := t.Underlying().(*types.Basic)
	return ok && b.Info()&types.IsUnsigned == 0
}

func (t *exprTr) stmts(l []ast.Stmt) (string, error) {
	if len(l) == 0 {
		return "", fmt.Errorf("fall off the end of a function")
	}
	switch s := l[0].(type) {
	case *ast.ReturnStmt:
		if t.optRe {
			if len(s.Results) != 2 {
				return "", fmt.Errorf("%s: bad return arity", t.p.Pos(s))
			}
			if id, ok := s.Results[1].(*ast.Ident); ok && id.Name == "nil" {
				v, err := t.expr(s.Results[0])
				if err != nil {
					return "", err
				}
				return "(Some " + v + ")", nil
			}
			return "None", nil
		}
		if len(s.Results) != 1 {
			return "", fmt.Errorf("%s: bad return arity", t.p.Pos(s))
		}
		return t.expr(s.Results[0])
	case *ast.ExprStmt:
		if c, ok := s.X.(*ast.CallExpr); ok {
			if id, ok := c.Fun.(*ast.Ident); ok && id.Name == "panic" {
				if t.strRe {
					return "\"!panic\"", nil
				}
				return "", fmt.Errorf("%s: panic in non-string function", t.p.Pos(s))
			}
		}
		return "", fmt.Errorf("%s: unsupported statement", t.p.Pos(s))
	case *ast.DeclStmt:
		gd, ok := s.Decl.(*ast.GenDecl)
		if ok && gd.Tok == token.VAR {
			for _, sp := range gd.Specs {
				vs := sp.(*ast.ValueSpec)
				if len(vs.Values) != 0 {
					return "", fmt.Errorf("%s: var with initialiser", t.p.Pos(s))
				}
				for _, n := range vs.Names {
					t.env[n.Name] = "0"
				}
			}
			return t.stmts(l[1:])
		}
		return "", fmt.Errorf("%s: unsupported declaration", t.p.Pos(s))
	case *ast.IfStmt:
		if s.Init != nil || s.Else != nil {
			return "", fmt.Errorf("%s: unsupported if form", t.p.Pos(s))
		}
		c, err := t.expr(s.Cond)
		if err != nil {
			return "", err
		}
		a, err := t.stmts(s.Body.List)
		if err != nil {
			return "", err
		}
		b, err := t.stmts(l[1:])
		if err != nil {
			return "", err
		}
		return fmt.Sprintf("(if %s then %s else %s)", c, a, b), nil
	case *ast.SwitchStmt:
		if s.Init != nil || s.Tag == nil {
			return "", fmt.Errorf("%s: unsupported switch form", t.p.Pos(s))
		}
		tag, err := t.expr(s.Tag)
		if err != nil {
			return "", err
		}
		str := isStringType(t.p.Info.Types[s.Tag].Type)
		rest, err := t.stmts(l[1:])
		if err != nil {
			return "", err
		}
		// build from the last clause backwards
		out := rest
		cl := s.Body.List
		for i := len(cl) - 1; i >= 0; i-- {
			cc := cl[i].(*ast.CaseClause)
			if cc.List == nil {
				return "", fmt.Errorf("%s: default clause unsupported", t.p.Pos(cc))
			}
			body, err := t.stmts(cc.Body)
			if err != nil {
				return "", err
			}
			var conds []string
			for _, ce := range cc.List {
				v, err := t.expr(ce)
				if err != nil {
					return "", err
				}
				if str {
					conds = append(conds, fmt.Sprintf("(String.eqb SWTAG %s)", v))
				} else {
					conds = append(conds, fmt.Sprintf("(Z.eqb SWTAG %s)", v))
				}
			}
			cond := conds[0]
			for _, c := range conds[1:] {
				cond = fmt.Sprintf("(orb %s %s)", cond, c)
			}
			out = fmt.Sprintf("(if %s then %s else %s)", cond, body, out)
		}
		return fmt.Sprintf("(let SWTAG := %s in %s)", tag, out), nil
	}
	return "", fmt.Errorf("%s: unsupported statement %T", t.p.Pos(l[0]), l[0])
}

// Translated is one translated function.
type Translated struct {
	Key  string // Recv.Name
	Name string // Coq name
	Def  string // Coq Definition
	Uses []string
	Pos  string
}

// TranslateFunc translates fd or explains why it cannot.
func TranslateFunc(p *Pkg, key string, fd *ast.FuncDecl) (*Translated, error) {
	if fd.Body == nil {
		return nil, fmt.Errorf("no body")
	}
	t := &exprTr{p: p, env: map[string]string{}, used: map[string]bool{}}
	recv := ""
	var params []string
	if fd.Recv != nil && len(fd.Recv.List) == 1 {
		recv = RecvName(fd.Recv.List[0].Type)
		rn := "_recv"
		if len(fd.Recv.List[0].Names) == 1 {
			rn = fd.Recv.List[0].Names[0].Name
		}
		ty := "Z"
		if isStringType(p.Info.Types[fd.Recv.List[0].Type].Type) {
			ty = "string"
		}
		cn := "a_" + rn
		t.env[rn] = cn
		params = append(params, fmt.Sprintf("(%s : %s)", cn, ty))
	}
	for _, f := range fd.Type.Params.List {
		ft := p.Info.Types[f.Type].Type
		ty := ""
		switch {
		case isIntType(ft):
			ty = "Z"
		case isStringType(ft):
			ty = "string"
		default:
			return nil, fmt.Errorf("%s: unsupported parameter type", p.Pos(f))
		}
		for _, n := range f.Names {
			cn := "a_" + n.Name
			t.env[n.Name] = cn
			params = append(params, fmt.Sprintf("(%s : %s)", cn, ty))
		}
	}
	res := fd.Type.Results
	if res == nil || len(res.List) == 0 {
		return nil, fmt.Errorf("no result")
	}
	var rts []types.Type
	for _, f := range res.List {
		n := len(f.Names)
		if n == 0 {
			n = 1
		}
		for i := 0; i < n; i++ {
			rts = append(rts, p.Info.Types[f.Type].Type)
		}
	}
	rty := ""
	switch {
	case isIntType(rts[0]):
		rty = "Z"
	case isStringType(rts[0]):
		rty = "string"
		t.strRe = true
	default:
		if b, ok := rts[0].Underlying().(*types.Basic); ok && b.Kind() == types.Bool {
			rty = "bool"
		} else {
			return nil, fmt.Errorf("unsupported result type %s", rts[0])
		}
	}
	if len(rts) == 2 && rts[1].String() == "error" {
		t.optRe = true
		t.strRe = false
		rty = "option " + rty
	} else if len(rts) != 1 {
		return nil, fmt.Errorf("unsupported result arity")
	}
	body, err := t.stmts(fd.Body.List)
	if err != nil {
		return nil, err
	}
	name := CoqFuncName(recv, fd.Name.Name)
	var uses []string
	for u := range t.used {
		uses = append(uses, u)
	}
	return &Translated{Key: key, Name: name, Pos: p.Pos(fd), Uses: uses,
		Def: fmt.Sprintf("(* %s *)\nDefinition %s %s : %s :=\n  %s.\n", p.Pos(fd), name, strings.Join(params, " "), rty, body)}, nil
}
