package tr

// loops.go — a second small Go -> Gallina translator, for imperative code over structs and
// slices (the first one, expr.go, handles straight-line integer/string functions).
//
//   body  ::= stmt*
//   stmt  ::= x := E | x = E | a, b := E1, E2 | a, b := <atom>        (let)
//           | x op= E                                                 (let, with wrap for sized ints)
//           | X[I].F = E | X[I].F op= E                               (bounds-checked update: set_at)
//           | var x T                                                 (zero value)
//           | if [v := E;] C { stmt* } [else-less]                    (join through a continuation K)
//           | for [i|_], x := range X { stmt* }                       (fold_left over the state record)
//           | continue | return E*
//   E     ::= ident | int literal | true | false | -E | !E | E op E | (E) | X.F | len(X)
//           | append(X, E) | T1.Before(T2) | T1.After(T2) | T1.Equal(T2) | &T{F: E, ...} | <atom>
//
// Variables assigned inside an `if` or a loop body and declared outside form the state tuple.
// A range loop becomes   fold_left (fun st x => ...) X st0 ;  the loop index is a counter in
// the state.  An `if` that falls through becomes   let K := fun st => REST in if C then ..K st.. else K st.
// Indexing on the left of an assignment is bounds-checked like Go does: out of range evaluates
// to the function's Panic term.  time.Time is Z (Before/After/Equal are <, >, =), float64
// fields are carried as Z (never computed with), sized integer arithmetic is wrapped.
// Extensions used by cmd/polygoncode: strings (== is String.eqb), `else` / `else if`, calls of
// configured functions and methods (LCfg.Calls), package-level variables (LCfg.Globals),
// package-level maps read as functions (LCfg.Maps), map writes m[k] = v (LCfg.MapSet), `return`
// inside a range loop (the loop becomes Base.GenLoop.loop_fold over lstep: LNext state | LRet
// result) and expressions that may panic: an index read X[I] is  get_at X I : option _ , a
// configured call may be marked Partial; operators are lifted (olift2, short-circuit oand / oor),
// and a statement that evaluates such an expression matches on it, None giving the function's
// Panic term.  Go `int` arithmetic (lengths, indices) is NOT wrapped; sized ints are.
// Extensions used for the C15 loops: assignment to a receiver field (w.Updates = x), x++ / x--,
// `for i := range X`, X[:E] (firstn), X[I] = E and X[I][c] = E on mapped array types (set_at),
// float64 == / != (floats are carried as Z), and the error idiom
//     if err := CALL; err != nil { return ... }
// for a configured call with effects (LFunc.ErrCalls): a match on the call's result with one arm
// per outcome (error: the if body; ok: the rest, with the modified state rebound; panic).
// A range loop is a plain fold_left unless its body returns or may panic: then it is a loop_fold.
// Extensions used for mputil.Group and annotate.Change/addUpdate: named results (zero-initialised
// variables), qualified package-level names (LCfg.Globals["pkg.Name"]), option-valued pointer
// variables (LFunc.OptionVars):  if p == nil { ..terminates } REST  is a match on the option with
// p rebound to the pointee in REST, and  if [p := E;] p != nil { body }  the symmetric match;
// statements that call a method with an effect on a local variable (LFunc.StmtCalls);
// x.F = E on a local struct variable; composite literals with named fields (missing fields take the
// StructMap default), slice literals T{a, b} as lists; multi-value calls of configured functions;
// and  x, err := CALL ; if err != nil { ..return }  for a call configured with SumCall (a match on
// inl/inr).
// <atom>s are expressions the translator must not look into (interface calls, error values):
// they are matched by their source text and replaced by a configured Coq term.
// Anything outside the grammar is an error: the definition is then missing from the generated
// file and the GenOk obligation that mentions it fails.

import (
	"bytes"
	"fmt"
	"go/ast"
	"go/constant"
	"go/printer"
	"go/token"
	"go/types"
	"sort"
	"strings"
)

// StructMap maps a Go struct type to a Coq record: constructor and, in constructor order,
// pairs {Go field name, Coq projection}. Go fields that are not listed are not modelled.
type StructMap struct {
	Coq    string
	Ctor   string
	Fields [][2]string
	// Defaults gives, per Go field, the Coq term used when a composite literal omits the field.
	Defaults map[string]string
	// OptionFields: pointer fields whose projection is an option
	OptionFields map[string]bool
	// Intern: string fields modelled by a code: field -> string literal -> Coq code (compared with Z.eqb)
	Intern map[string]map[string]string
}

// LCfg is the configuration shared by the functions of one generated file.
type LCfg struct {
	Structs map[string]*StructMap // by Go type name (without package)
	Ctors   map[string]string     // composite literal type name -> Coq constructor (fields in source order)
	Globals map[string]string     // package-level identifier -> Coq term
	Calls   map[string]*CallMap   // "Type.Method" or "pkg.Func" -> Coq function (receiver first)
	Maps    map[string]string     // package-level map variable -> Coq function applied to the key
	MapSet  string                // Coq function for m[k] = v :  MapSet m k v
	Types   map[string]string     // Go named type -> Coq type (overrides the structural mapping)
	EqFns   map[string]string     // Go named type -> Coq boolean equality used for == and !=
	// IdentityConv: conversions to these integer types are the identity (documented per generator:
	// the converted values are indices / counts far below the type's range)
	IdentityConv map[string]bool
	// callee-keyed forms of the idioms (robust against renaming of locals); templates use $0 for
	// the receiver and $1.. for the arguments, translated on demand
	ErrCallsBy  map[string]*ErrCall // callee -> effect call in  if err := CALL; err != nil {..}
	SumCallsBy  map[string]string   // callee -> template of an (A + E) term for  x, err := CALL; if err != nil {..}
	StmtCallsBy map[string]string   // callee (method) -> template of the new value of its receiver variable
	// OpaqueTypes: values of these named types are not modelled; a definition of such a variable is
	// dropped and a field read of it is the configured term (type -> field -> Coq term)
	OpaqueTypes map[string]map[string]string
}

// CallMap describes a call the translator may emit.
type CallMap struct {
	Coq     string
	Partial bool // the Coq function returns an option (None = panic)
	// Tmpl, when set, replaces "(Coq recv args..)": $0 is the receiver, $1.. the arguments
	Tmpl string
	// OptionResult marks results of a multi-value call that are option-valued pointers
	OptionResult []bool
}

// LFunc describes one function to translate.
type LFunc struct {
	Key        string            // "Recv.Name" or "Name"
	Name       string            // Coq name of the definition
	ElemIndex  bool              // receiver is a slice only indexed by the int parameters: recv[p] becomes element a_p
	RecvFields []string          // struct receiver: these fields become parameters / state
	Params     [][2]string       // extra explicit binders {Coq name, Coq type} placed first (for atoms)
	SkipParams map[string]bool   // Go parameters that only occur inside atoms
	Atoms      map[string]string // source text -> Coq term
	Returns    map[string]string // source text of the result list ("nil, err") -> Coq term; "" key unused
	Result     string            // Coq result type
	Panic      string            // Coq term for an index out of range
	ErrCalls   map[string]*ErrCall // source text of CALL in `if err := CALL; err != nil {..}`
	OptionVars map[string]bool     // Go pointer variables whose Coq value is an option (nil = None)
	StmtCalls  map[string][2]string // source text of a call statement -> {Coq variable rebound, Coq term}
	SumCalls   map[string]string   // source text of CALL in `x, err := CALL` followed by `if err != nil` -> Coq term (A + E)
	SkipStmts  []string            // statements whose source text starts with one of these are dropped (documented per function)
	AtomOption map[string]bool     // atoms (by source text) whose value is an option-valued pointer
	// LocalMaps: map-typed parameters read as  m[K] : template with $k for the translated key;
	// the value is an option-valued pointer
	LocalMaps map[string]string
	Partial    bool              // the function may panic: results are wrapped with RetWrap, loops use loop_fold
	RetWrap    string            // format applied to a returned value, e.g. "(Some %s)"; default "%s"
	Fall       string            // for a function without results: the value of the definition when the body ends (the final state)
}

// ErrCall describes a call with effects used in the idiom  if err := CALL; err != nil { body }.
type ErrCall struct {
	Term     string   // Coq term of the call
	OkPat    string   // pattern of the no-error outcome; may rebind modified state variables
	ErrPat   string   // pattern of the error outcome; binds the Coq variable of the Go error variable
	ErrVar   string   // that Coq variable (becomes the value of the Go variable in the body)
	PanicPat string   // optional pattern of the panic outcome
	Modifies []string // Coq state variables rebound by OkPat
}

// LT is the translator state for one function.
type LT struct {
	p    *Pkg
	cfg  *LCfg
	fn   *LFunc
	env  map[string]string
	recv string
	decl map[string]token.Pos // Go variable -> position of its declaration (for ordering state tuples)
	nK   int
	esc  bool // a return or a panic term was emitted (decides between fold_left and loop_fold)
	optVars map[string]bool       // Go variables currently holding an option-valued pointer
	alias   map[string]ast.Expr   // p := &X[I]  : p stands for X[I]
	opaque  map[string]string     // variables of an opaque type -> that type's name
	poison  map[string]string     // locals whose initialiser is outside the grammar -> reason (an error only if used)
	depth   int                   // helper inlining depth
	elemOf   map[string]string            // source text "X[i]" of an index loop `for i := range X` -> the element variable
	funcVals map[string]*ast.SelectorExpr // function-valued parameters of an inlined helper bound to method values
	retHook  func(s *ast.ReturnStmt, k kont) (string, error) // returns of a helper inlined at statement level
}

func (t *LT) src(n ast.Node) string {
	var b bytes.Buffer
	printer.Fprint(&b, t.p.Fset, n)
	return strings.Join(strings.Fields(b.String()), " ")
}

func (t *LT) errf(n ast.Node, f string, a ...interface{}) error {
	return fmt.Errorf("%s: %s", t.p.Pos(n), fmt.Sprintf(f, a...))
}

// calleeKey names the function a call refers to: "f" for a function of this package,
// "Type.Method" for a method (named receiver type, also an interface), "pkg.F" otherwise.
func (t *LT) calleeKey(c *ast.CallExpr) (string, ast.Expr) {
	switch f := c.Fun.(type) {
	case *ast.Ident:
		if fv, ok := t.funcVals[f.Name]; ok {
			if sl, ok := t.p.Info.Selections[fv]; ok && sl.Kind() == types.MethodVal {
				return namedName(sl.Recv()) + "." + fv.Sel.Name, fv.X
			}
		}
		if fo, ok := t.p.Info.Uses[f].(*types.Func); ok && fo.Pkg() == t.p.Types {
			return f.Name, nil
		}
	case *ast.SelectorExpr:
		if sl, ok := t.p.Info.Selections[f]; ok && sl.Kind() == types.MethodVal {
			return namedName(sl.Recv()) + "." + f.Sel.Name, f.X
		}
		if id, ok := f.X.(*ast.Ident); ok {
			if _, isPkg := t.p.Info.Uses[id].(*types.PkgName); isPkg {
				return id.Name + "." + f.Sel.Name, nil
			}
		}
	}
	return "", nil
}

// expand instantiates a template: $0 = receiver, $1.. = arguments (translated on demand).
func (t *LT) expand(tmpl string, recv ast.Expr, args []ast.Expr) (string, error) {
	out := tmpl
	for i := len(args); i >= 0; i-- {
		ph := "$" + itoa(i)
		if !strings.Contains(out, ph) {
			continue
		}
		var e ast.Expr
		if i == 0 {
			e = recv
		} else {
			e = args[i-1]
		}
		if e == nil {
			return "", fmt.Errorf("template %q has no operand %s", tmpl, ph)
		}
		v, err := t.expr(e)
		if err != nil {
			return "", err
		}
		out = strings.ReplaceAll(out, ph, v)
	}
	return out, nil
}

// errCallOf finds the callee-keyed effect call of an expression, with its term expanded.
func (t *LT) errCallOf(e ast.Expr) *ErrCall {
	c, ok := e.(*ast.CallExpr)
	if !ok {
		return nil
	}
	key, recv := t.calleeKey(c)
	ec, ok := t.cfg.ErrCallsBy[key]
	if !ok {
		return nil
	}
	term, err := t.expand(ec.Term, recv, c.Args)
	if err != nil {
		return nil
	}
	cp := *ec
	cp.Term = term
	return &cp
}

func (t *LT) isOpt(name string) bool { return t.fn.OptionVars[name] || t.optVars[name] }

func deref(ty types.Type) types.Type {
	if p, ok := ty.(*types.Pointer); ok {
		return p.Elem()
	}
	return ty
}

func isFloatType(t types.Type) bool {
	b, ok := t.Underlying().(*types.Basic)
	return ok && b.Info()&types.IsFloat != 0
}

func namedName(ty types.Type) string {
	if n, ok := deref(ty).(*types.Named); ok {
		return n.Obj().Name()
	}
	return ""
}

func isTime(ty types.Type) bool {
	n, ok := deref(ty).(*types.Named)
	return ok && n.Obj().Name() == "Time" && n.Obj().Pkg() != nil && n.Obj().Pkg().Path() == "time"
}

// coqType renders the Coq type that carries values of the Go type.
func (t *LT) coqType(ty types.Type) (string, error) {
	ty = deref(ty)
	if isTime(ty) {
		return "Z", nil
	}
	if ct, ok := t.cfg.Types[namedName(ty)]; ok {
		return ct, nil
	}
	if sm, ok := t.cfg.Structs[namedName(ty)]; ok {
		switch ty.Underlying().(type) {
		case *types.Struct, *types.Array:
			return sm.Coq, nil
		}
	}
	switch u := ty.Underlying().(type) {
	case *types.Basic:
		switch {
		case u.Info()&types.IsInteger != 0, u.Info()&types.IsFloat != 0:
			return "Z", nil
		case u.Info()&types.IsBoolean != 0:
			return "bool", nil
		case u.Info()&types.IsString != 0:
			return "string", nil
		}
	case *types.Slice:
		e, err := t.coqType(u.Elem())
		if err != nil {
			return "", err
		}
		return "(list " + e + ")", nil
	}
	return "", fmt.Errorf("no Coq type for %s", ty)
}

func (t *LT) structOf(e ast.Expr) *StructMap {
	tv, ok := t.p.Info.Types[e]
	if !ok {
		return nil
	}
	return t.cfg.Structs[namedName(tv.Type)]
}

func (sm *StructMap) proj(goField string) string {
	for _, f := range sm.Fields {
		if f[0] == goField {
			return f[1]
		}
	}
	return ""
}

// setter renders  fun el => Ctor (p1 el) .. v .. (pn el)  replacing the field goField.
func (sm *StructMap) setter(goField string, val func(old string) string) (string, bool) {
	var args []string
	found := false
	for _, f := range sm.Fields {
		old := "(" + f[1] + " el)"
		if f[0] == goField {
			found = true
			args = append(args, val(old))
		} else {
			args = append(args, old)
		}
	}
	return "(fun el => " + sm.Ctor + " " + strings.Join(args, " ") + ")", found
}

func (t *LT) wrapArith(e ast.Expr, v string) string {
	tv := t.p.Info.Types[e]
	if tv.Value != nil || tv.Type == nil {
		return v
	}
	b, ok := tv.Type.Underlying().(*types.Basic)
	if !ok || b.Info()&types.IsInteger == 0 || b.Info()&types.IsUntyped != 0 {
		return v
	}
	if b.Kind() == types.Int {
		return v // lengths, indices, versions: far below 2^63 (see the header)
	}
	switch w, s := intWidth(tv.Type), intSigned(tv.Type); {
	case w == 8 && s:
		return "(wrap8 " + v + ")"
	case w == 64 && s:
		return "(wrap64 " + v + ")"
	case w == 32 && s:
		return "(wrap32 " + v + ")"
	}
	return "(UNSUPPORTED_WIDTH " + v + ")"
}

func (t *LT) binop(e ast.Expr, op token.Token, x ast.Expr, a, b string) (string, error) {
	switch op {
	case token.ADD:
		return t.wrapArith(e, fmt.Sprintf("(Z.add %s %s)", a, b)), nil
	case token.SUB:
		return t.wrapArith(e, fmt.Sprintf("(Z.sub %s %s)", a, b)), nil
	case token.MUL:
		return t.wrapArith(e, fmt.Sprintf("(Z.mul %s %s)", a, b)), nil
	case token.LSS:
		return fmt.Sprintf("(Z.ltb %s %s)", a, b), nil
	case token.LEQ:
		return fmt.Sprintf("(Z.leb %s %s)", a, b), nil
	case token.GTR:
		return fmt.Sprintf("(Z.ltb %s %s)", b, a), nil
	case token.GEQ:
		return fmt.Sprintf("(Z.leb %s %s)", b, a), nil
	case token.LAND:
		return fmt.Sprintf("(andb %s %s)", a, b), nil
	case token.LOR:
		return fmt.Sprintf("(orb %s %s)", a, b), nil
	case token.EQL, token.NEQ:
		eq := ""
		tx := t.p.Info.Types[x].Type
		if f, ok := t.cfg.EqFns[namedName(tx)]; ok {
			eq = fmt.Sprintf("(%s %s %s)", f, a, b)
			if op == token.NEQ {
				return "(negb " + eq + ")", nil
			}
			return eq, nil
		}
		if bt, ok := tx.Underlying().(*types.Basic); ok && bt.Info()&types.IsBoolean != 0 {
			eq = fmt.Sprintf("(Bool.eqb %s %s)", a, b)
		} else if isStringType(tx) {
			eq = fmt.Sprintf("(String.eqb %s %s)", a, b)
		} else if isIntType(tx) || isFloatType(tx) {
			eq = fmt.Sprintf("(Z.eqb %s %s)", a, b)
		} else {
			return "", t.errf(e, "== on %s", tx)
		}
		if op == token.NEQ {
			return "(negb " + eq + ")", nil
		}
		return eq, nil
	}
	return "", t.errf(e, "unsupported operator %s", op)
}

// expr translates an expression that cannot panic.
func (t *LT) expr(e ast.Expr) (string, error) {
	v, partial, err := t.exprP(e)
	if err != nil {
		return "", err
	}
	if partial {
		return "", t.errf(e, "expression may panic where a total one is required: %s", t.src(e))
	}
	return v, nil
}

func some(v string, partial bool) string {
	if partial {
		return v
	}
	return "(Some " + v + ")"
}

// exprP translates an expression; partial = the Coq term has type option _ (None = Go panic).
func (t *LT) exprP(e ast.Expr) (string, bool, error) {
	if a, ok := t.fn.Atoms[t.src(e)]; ok {
		return a, false, nil
	}
	if be, ok := e.(*ast.BinaryExpr); ok {
		// an atom written with the opposite comparison
		if n, ok := negOp[be.Op]; ok {
			if a, ok := t.fn.Atoms[t.src(&ast.BinaryExpr{X: be.X, Op: n, Y: be.Y})]; ok {
				return "(negb " + a + ")", false, nil
			}
		}
	}
	switch x := e.(type) {
	case *ast.ParenExpr:
		return t.exprP(x.X)
	case *ast.Ident:
		switch x.Name {
		case "true", "false":
			return x.Name, false, nil
		}
		if why, ok := t.poison[x.Name]; ok {
			return "", false, t.errf(e, "%s is used but its initialiser is outside the grammar: %s", x.Name, why)
		}
		if a, ok := t.alias[x.Name]; ok {
			return t.exprP(a)
		}
		if v, ok := t.env[x.Name]; ok {
			return v, false, nil
		}
		if g, ok := t.cfg.Globals[x.Name]; ok {
			if obj := t.p.Info.Uses[x]; obj != nil && obj.Parent() == t.p.Types.Scope() {
				return g, false, nil
			}
		}
		return "", false, t.errf(e, "unknown identifier %s", x.Name)
	case *ast.BasicLit:
		tv := t.p.Info.Types[e]
		if tv.Value != nil && tv.Value.Kind() == constant.Int {
			return CoqZ(tv.Value), false, nil
		}
		if tv.Value != nil && tv.Value.Kind() == constant.String {
			return CoqString(constant.StringVal(tv.Value)), false, nil
		}
		if tv.Value != nil && tv.Value.Kind() == constant.Float {
			// floats are carried as Z: only integer-valued literals can be rendered
			if iv := constant.ToInt(tv.Value); iv.Kind() == constant.Int {
				return CoqZ(iv), false, nil
			}
		}
		return "", false, t.errf(e, "unsupported literal")
	case *ast.UnaryExpr:
		switch x.Op {
		case token.SUB:
			if tv := t.p.Info.Types[e]; tv.Value != nil && tv.Value.Kind() == constant.Int {
				return CoqZ(tv.Value), false, nil
			}
			v, p, err := t.exprP(x.X)
			if err != nil {
				return "", false, err
			}
			if p {
				return "(option_map (fun x => " + t.wrapArith(e, "(Z.opp x)") + ") " + v + ")", true, nil
			}
			return t.wrapArith(e, "(Z.opp "+v+")"), false, nil
		case token.NOT:
			v, p, err := t.exprP(x.X)
			if err != nil {
				return "", false, err
			}
			if p {
				return "(option_map negb " + v + ")", true, nil
			}
			return "(negb " + v + ")", false, nil
		case token.AND:
			if cl, ok := x.X.(*ast.CompositeLit); ok {
				v, err := t.composite(cl)
				return v, false, err
			}
		}
		return "", false, t.errf(e, "unsupported unary %s", x.Op)
	case *ast.CompositeLit:
		v, err := t.composite(x)
		return v, false, err
	case *ast.BinaryExpr:
		if x.Op == token.EQL || x.Op == token.NEQ {
			// a string field modelled by a code, compared with a literal
			for _, pair := range [][2]ast.Expr{{x.X, x.Y}, {x.Y, x.X}} {
				sel, ok := stripParens(pair[0]).(*ast.SelectorExpr)
				if !ok {
					continue
				}
				sm := t.structOf(sel.X)
				tv := t.p.Info.Types[pair[1]]
				if sm == nil || sm.Intern[sel.Sel.Name] == nil || tv.Value == nil || tv.Value.Kind() != constant.String {
					continue
				}
				code, ok := sm.Intern[sel.Sel.Name][constant.StringVal(tv.Value)]
				if !ok {
					return "", false, t.errf(e, "string %s has no code for field %s", tv.Value.ExactString(), sel.Sel.Name)
				}
				v, p, err := t.exprP(sel)
				if err != nil || p {
					return "", false, t.errf(e, "unsupported operand of an interned comparison")
				}
				eq := fmt.Sprintf("(Z.eqb %s %s)", v, code)
				if x.Op == token.NEQ {
					eq = "(negb " + eq + ")"
				}
				return eq, false, nil
			}
		}
		a, pa, err := t.exprP(x.X)
		if err != nil {
			return "", false, err
		}
		b, pb, err := t.exprP(x.Y)
		if err != nil {
			return "", false, err
		}
		if !pa && !pb {
			v, err := t.binop(e, x.Op, x.X, a, b)
			return v, false, err
		}
		switch x.Op {
		case token.LAND:
			return fmt.Sprintf("(oand %s (fun _ => %s))", some(a, pa), some(b, pb)), true, nil
		case token.LOR:
			return fmt.Sprintf("(oor %s (fun _ => %s))", some(a, pa), some(b, pb)), true, nil
		}
		op, err := t.binop(e, x.Op, x.X, "x", "y")
		if err != nil {
			return "", false, err
		}
		return fmt.Sprintf("(olift2 (fun x y => %s) %s %s)", op, some(a, pa), some(b, pb)), true, nil
	case *ast.SelectorExpr:
		if id, ok := x.X.(*ast.Ident); ok && id.Name == t.recv && t.recv != "" {
			for _, f := range t.fn.RecvFields {
				if f == x.Sel.Name {
					return "w_" + f, false, nil
				}
			}
		}
		if id, ok := x.X.(*ast.Ident); ok {
			if _, isPkg := t.p.Info.Uses[id].(*types.PkgName); isPkg {
				if g, ok := t.cfg.Globals[id.Name+"."+x.Sel.Name]; ok {
					return g, false, nil
				}
				return "", false, t.errf(e, "unmapped name %s.%s", id.Name, x.Sel.Name)
			}
		}
		if id, ok := x.X.(*ast.Ident); ok {
			if ot, ok := t.opaque[id.Name]; ok {
				if term, ok := t.cfg.OpaqueTypes[ot][x.Sel.Name]; ok {
					return term, false, nil
				}
				return "", false, t.errf(e, "field %s of the opaque type %s", x.Sel.Name, ot)
			}
			if a, ok := t.alias[id.Name]; ok {
				ns := &ast.SelectorExpr{X: a, Sel: x.Sel}
				t.p.Info.Types[ns] = t.p.Info.Types[x]
				return t.exprP(ns)
			}
		}
		sm := t.structOf(x.X)
		if sm == nil {
			return "", false, t.errf(e, "field of an unmapped type")
		}
		pj := sm.proj(x.Sel.Name)
		if pj == "" {
			return "", false, t.errf(e, "field %s is not modelled", x.Sel.Name)
		}
		v, p, err := t.exprP(x.X)
		if err != nil {
			return "", false, err
		}
		if p {
			return "(option_map " + pj + " " + v + ")", true, nil
		}
		return "(" + pj + " " + v + ")", false, nil
	case *ast.IndexExpr:
		if v, ok := t.elemOf[t.src(x)]; ok {
			return v, false, nil
		}
		if t.fn.ElemIndex {
			if r, ok := x.X.(*ast.Ident); ok && r.Name == t.recv {
				if i, ok := x.Index.(*ast.Ident); ok {
					return "a_" + i.Name, false, nil
				}
			}
		}
		// a map parameter read as an option-valued lookup
		if id, ok := x.X.(*ast.Ident); ok {
			if tmpl, ok := t.fn.LocalMaps[id.Name]; ok {
				k, err := t.expr(x.Index)
				if err != nil {
					return "", false, err
				}
				return strings.ReplaceAll(tmpl, "$k", k), false, nil
			}
		}
		// a package-level map read as a function
		if id, ok := x.X.(*ast.Ident); ok {
			if m, ok := t.cfg.Maps[id.Name]; ok {
				if _, isMap := t.p.Info.Types[x.X].Type.Underlying().(*types.Map); isMap {
					k, err := t.expr(x.Index)
					if err != nil {
						return "", false, err
					}
					return "(" + m + " " + k + ")", false, nil
				}
			}
		}
		// a bounds-checked slice read
		if _, isSlice := t.p.Info.Types[x.X].Type.Underlying().(*types.Slice); isSlice {
			xs, err := t.expr(x.X)
			if err != nil {
				return "", false, err
			}
			i, err := t.expr(x.Index)
			if err != nil {
				return "", false, err
			}
			return "(get_at " + xs + " " + i + ")", true, nil
		}
		return "", false, t.errf(e, "unsupported index expression")
	case *ast.SliceExpr:
		if x.Low != nil || x.High == nil || x.Slice3 {
			return "", false, t.errf(e, "only X[:E] is supported")
		}
		xs, err := t.expr(x.X)
		if err != nil {
			return "", false, err
		}
		h, err := t.expr(x.High)
		if err != nil {
			return "", false, err
		}
		return "(firstn (Z.to_nat " + h + ") " + xs + ")", false, nil
	case *ast.CallExpr:
		if tv, ok := t.p.Info.Types[x.Fun]; ok && tv.IsType() && len(x.Args) == 1 {
			from := t.p.Info.Types[x.Args[0]].Type
			if from != nil && isIntType(tv.Type) && isIntType(from) &&
				intWidth(tv.Type) == intWidth(from) && intSigned(tv.Type) == intSigned(from) {
				return t.exprP(x.Args[0])
			}
			if from != nil && isIntType(tv.Type) && isIntType(from) && t.cfg.IdentityConv[tv.Type.String()] {
				return t.exprP(x.Args[0])
			}
			if from != nil && isStringType(tv.Type) && isStringType(from) {
				return t.exprP(x.Args[0])
			}
		}
		if id, ok := x.Fun.(*ast.Ident); ok {
			switch id.Name {
			case "len":
				v, err := t.expr(x.Args[0])
				if err != nil {
					return "", false, err
				}
				return "(Z.of_nat (List.length " + v + "))", false, nil
			case "make":
				// make([]T, 0[, cap]) is the empty list (capacity is not modelled)
				if len(x.Args) >= 2 {
					if tv, ok := t.p.Info.Types[x.Args[0]]; ok && tv.IsType() {
						if _, isSlice := tv.Type.Underlying().(*types.Slice); isSlice {
							if lv := t.p.Info.Types[x.Args[1]]; lv.Value != nil && lv.Value.ExactString() == "0" {
								ct, err := t.coqType(tv.Type)
								if err != nil {
									return "", false, t.errf(e, "%v", err)
								}
								return "(@nil " + strings.TrimSuffix(strings.TrimPrefix(ct, "(list "), ")") + ")", false, nil
							}
						}
					}
				}
				return "", false, t.errf(e, "unsupported make form")
			case "append":
				if len(x.Args) != 2 || x.Ellipsis != token.NoPos {
					return "", false, t.errf(e, "unsupported append form")
				}
				a, err := t.expr(x.Args[0])
				if err != nil {
					return "", false, err
				}
				b, err := t.expr(x.Args[1])
				if err != nil {
					return "", false, err
				}
				return "(" + a + " ++ [" + b + "])%list", false, nil
			}
		}
		if sel, ok := x.Fun.(*ast.SelectorExpr); ok {
			if len(x.Args) == 1 {
				if tv, ok := t.p.Info.Types[sel.X]; ok && isTime(tv.Type) {
					a, err := t.expr(sel.X)
					if err != nil {
						return "", false, err
					}
					b, err := t.expr(x.Args[0])
					if err != nil {
						return "", false, err
					}
					switch sel.Sel.Name {
					case "Before":
						return fmt.Sprintf("(Z.ltb %s %s)", a, b), false, nil
					case "After":
						return fmt.Sprintf("(Z.ltb %s %s)", b, a), false, nil
					case "Equal":
						return fmt.Sprintf("(Z.eqb %s %s)", a, b), false, nil
					}
				}
			}
		}
		// configured calls (callee-keyed), then inlining of small helpers of this package
		if key, recv := t.calleeKey(x); key != "" {
			if cm, ok := t.cfg.Calls[key]; ok {
				if cm.Tmpl != "" {
					v, err := t.expand(cm.Tmpl, recv, x.Args)
					return v, cm.Partial, err
				}
				out := "(" + cm.Coq
				if recv != nil {
					v, err := t.expr(recv)
					if err != nil {
						return "", false, err
					}
					out += " " + v
				}
				for _, a := range x.Args {
					v, err := t.expr(a)
					if err != nil {
						return "", false, err
					}
					out += " " + v
				}
				return out + ")", cm.Partial, nil
			}
			if v, partial, ok, err := t.inlineCall(x, key, recv); ok {
				return v, partial, err
			}
		}
		return "", false, t.errf(e, "unsupported call %s", t.src(x.Fun))
	}
	return "", false, t.errf(e, "unsupported expression %T", e)
}

// inlineCall translates a call of a small function or method of this package that has no
// configuration by translating its body in place: parameters (and the receiver) are let-bound to
// the translated arguments, the body's return value is the value of the expression.  Effects of
// the helper on its pointer parameters are visible inside the helper only (the caller's variable
// is not rebound): adequate when the caller does not read the object afterwards.
func (t *LT) inlineCall(c *ast.CallExpr, key string, recv ast.Expr) (string, bool, bool, error) {
	fd := t.p.FuncDecls()[key]
	if fd == nil || fd.Body == nil || t.depth > 3 || c.Ellipsis != token.NoPos {
		return "", false, false, nil
	}
	if fd.Type.Results == nil || len(fd.Type.Results.List) != 1 || len(fd.Type.Results.List[0].Names) > 1 {
		return "", false, false, nil
	}
	t.depth++
	defer func() { t.depth-- }()
	t.nK++
	pfx := fmt.Sprintf("h%d_", t.nK)
	// evaluate the arguments in the caller's environment
	type bnd struct{ name, coq, val string }
	var binds []bnd
	sameRecv := ""
	var optParams []string
	if fd.Recv != nil && len(fd.Recv.List) == 1 && len(fd.Recv.List[0].Names) == 1 && recv != nil {
		n := fd.Recv.List[0].Names[0].Name
		if id, ok := recv.(*ast.Ident); ok && id.Name == t.recv && t.recv != "" && len(t.fn.RecvFields) > 0 {
			// a method called on the caller's own receiver: the helper reads the same state variables
			sameRecv = n
		} else {
			v, err := t.expr(recv)
			if err != nil {
				return "", false, true, err
			}
			binds = append(binds, bnd{n, pfx + n, v})
		}
	}
	i := 0
	for _, f := range fd.Type.Params.List {
		for _, n := range f.Names {
			if i >= len(c.Args) {
				return "", false, false, nil
			}
			if id, ok := c.Args[i].(*ast.Ident); ok && t.fn.SkipParams[id.Name] {
				i++
				continue // an unmodelled parameter of the caller handed on
			}
			v, err := t.expr(c.Args[i])
			if err != nil {
				return "", false, true, err
			}
			binds = append(binds, bnd{n.Name, pfx + n.Name, v})
			if t.exprIsOption(c.Args[i]) {
				optParams = append(optParams, n.Name)
			}
			i++
		}
	}
	// translate the body in a fresh environment; the helper may panic iff the caller may
	saved := struct {
		env     map[string]string
		fn      *LFunc
		recv    string
		optVars map[string]bool
		alias   map[string]ast.Expr
		poison  map[string]string
		esc     bool
	}{t.env, t.fn, t.recv, t.optVars, t.alias, t.poison, t.esc}
	hf := *t.fn
	hf.Returns, hf.Atoms, hf.ErrCalls, hf.SumCalls, hf.StmtCalls, hf.SkipStmts, hf.OptionVars = nil, map[string]string{}, nil, nil, nil, nil, nil
	hf.RecvFields, hf.ElemIndex = nil, false
	if sameRecv != "" {
		hf.RecvFields = t.fn.RecvFields
	}
	// first as a total function; if its body may panic (and the caller can express that), as a
	// partial one whose value is an option
	var body string
	var err error
	outerHook := t.retHook
	t.retHook = nil // the helper's returns are its own
	defer func() { t.retHook = outerHook }()
	for attempt := 0; attempt < 2; attempt++ {
		hf.RetWrap, hf.Panic, hf.Partial = "%s", "", false
		if attempt == 1 {
			hf.RetWrap, hf.Panic, hf.Partial = "(Some %s)", "None", true
		}
		t.fn, t.recv = &hf, sameRecv
		t.env = map[string]string{}
		t.optVars, t.alias, t.poison = map[string]bool{}, map[string]ast.Expr{}, map[string]string{}
		for _, b := range binds {
			t.env[b.name] = b.coq
		}
		for _, n := range optParams {
			t.optVars[n] = true
		}
		t.esc = false
		nk := t.nK
		body, err = t.block(t.normStmts(fd.Body.List), kont{ret: func(v string) string { return v }})
		if err == nil || !(saved.fn.Partial || saved.fn.Panic != "") {
			break
		}
		t.nK = nk
	}
	t.env, t.fn, t.recv, t.optVars, t.alias, t.poison, t.esc = saved.env, saved.fn, saved.recv, saved.optVars, saved.alias, saved.poison, saved.esc
	if err != nil {
		return "", false, true, fmt.Errorf("inlining %s: %v", key, err)
	}
	out := body
	for j := len(binds) - 1; j >= 0; j-- {
		out = fmt.Sprintf("let %s := %s in\n  %s", binds[j].coq, binds[j].val, out)
	}
	return "(" + out + ")", hf.Partial, true, nil
}

func (t *LT) composite(cl *ast.CompositeLit) (string, error) {
	ty := t.p.Info.Types[cl].Type
	// slice literal T{a, b}
	if _, isSlice := ty.Underlying().(*types.Slice); isSlice {
		var els []string
		for _, el := range cl.Elts {
			if _, isKV := el.(*ast.KeyValueExpr); isKV {
				return "", t.errf(cl, "keyed slice literal")
			}
			v, err := t.expr(el)
			if err != nil {
				return "", err
			}
			els = append(els, v)
		}
		return "[" + strings.Join(els, "; ") + "]", nil
	}
	name := namedName(ty)
	// positional literal of a mapped array type: orb.Point{x, y}
	if _, isArr := ty.Underlying().(*types.Array); isArr {
		if sm, ok := t.cfg.Structs[name]; ok && sm.Ctor != "" && len(cl.Elts) == len(sm.Fields) {
			out := "(" + sm.Ctor
			for _, el := range cl.Elts {
				if _, isKV := el.(*ast.KeyValueExpr); isKV {
					return "", t.errf(cl, "keyed array literal")
				}
				v, err := t.expr(el)
				if err != nil {
					return "", err
				}
				out += " " + v
			}
			return out + ")", nil
		}
	}
	// a mapped struct with a constructor: named fields in constructor order, defaults for the rest
	if sm, ok := t.cfg.Structs[name]; ok && sm.Ctor != "" && sm.Defaults != nil {
		given := map[string]string{}
		for _, el := range cl.Elts {
			kv, ok := el.(*ast.KeyValueExpr)
			if !ok {
				return "", t.errf(cl, "positional composite literal")
			}
			key, ok := kv.Key.(*ast.Ident)
			if !ok {
				return "", t.errf(cl, "unsupported field key")
			}
			v, err := t.expr(kv.Value)
			if err != nil {
				return "", err
			}
			if sm.proj(key.Name) == "" {
				return "", t.errf(cl, "field %s is not modelled", key.Name)
			}
			given[key.Name] = v
		}
		out := "(" + sm.Ctor
		for _, f := range sm.Fields {
			v, ok := given[f[0]]
			if !ok {
				if v, ok = sm.Defaults[f[0]]; !ok {
					return "", t.errf(cl, "field %s has no default", f[0])
				}
			}
			out += " " + v
		}
		return out + ")", nil
	}
	ctor, ok := t.cfg.Ctors[name]
	if !ok {
		return "", t.errf(cl, "composite literal of unmapped type %s", name)
	}
	out := "(" + ctor
	for _, el := range cl.Elts {
		kv, ok := el.(*ast.KeyValueExpr)
		if !ok {
			return "", t.errf(cl, "positional composite literal")
		}
		v, err := t.expr(kv.Value)
		if err != nil {
			return "", err
		}
		out += " " + v
	}
	return out + ")", nil
}

// kont says what a statement list evaluates to when it falls off its end / hits `continue`,
// and how a returned value is packaged at this nesting level (inside a loop_fold body a return
// is LRet).
type kont struct {
	fall string // "" = falling through is an error
	cont string // "" = continue not allowed here
	brk  string // "" = break not allowed here; else the step that leaves the loop with the current state
	ret  func(string) string
}

func (t *LT) retTerm(k kont, v string) string {
	w := t.fn.RetWrap
	if w == "" {
		w = "%s"
	}
	t.esc = true
	return k.ret(fmt.Sprintf(w, v))
}

func (t *LT) wrapRet(v string) string {
	w := t.fn.RetWrap
	if w == "" {
		w = "%s"
	}
	return fmt.Sprintf(w, v)
}

// initIsOption: the initialiser of  if p := E; p != nil  yields an option-valued pointer
func (t *LT) initIsOption(init ast.Stmt, name string) bool {
	as, ok := init.(*ast.AssignStmt)
	if !ok || len(as.Lhs) != 1 || len(as.Rhs) != 1 || t.src(as.Lhs[0]) != name {
		return false
	}
	return t.exprIsOption(as.Rhs[0])
}

func (t *LT) exprIsOption(e ast.Expr) bool {
	if t.fn.AtomOption[t.src(e)] {
		return true
	}
	if ix, ok := e.(*ast.IndexExpr); ok {
		if id, ok := ix.X.(*ast.Ident); ok && t.fn.LocalMaps[id.Name] != "" {
			return true
		}
	}
	switch x := e.(type) {
	case *ast.Ident:
		return t.isOpt(x.Name)
	case *ast.SelectorExpr:
		if sm := t.structOf(x.X); sm != nil && sm.OptionFields[x.Sel.Name] {
			return true
		}
	}
	return false
}

func (t *LT) panicTerm(k kont, n ast.Node) (string, error) {
	if t.fn.Panic == "" {
		return "", t.errf(n, "expression may panic but the function has no Panic term")
	}
	t.esc = true
	return k.ret(t.fn.Panic), nil
}

// withValue evaluates a possibly panicking term and passes its value (bound to name) on.
func (t *LT) withValue(k kont, n ast.Node, term string, partial bool, name string, rest string) (string, error) {
	if !partial {
		return fmt.Sprintf("let %s := %s in\n  %s", name, term, rest), nil
	}
	pn, err := t.panicTerm(k, n)
	if err != nil {
		return "", err
	}
	return fmt.Sprintf("match %s with\n  | Some %s => %s\n  | None => %s\n  end", term, name, rest, pn), nil
}

func tuple(vars []string) string {
	if len(vars) == 0 {
		return "tt"
	}
	if len(vars) == 1 {
		return vars[0]
	}
	return "(" + strings.Join(vars, ", ") + ")"
}

func letTuple(vars []string, val, rest string) string {
	if len(vars) == 0 {
		return rest
	}
	if len(vars) == 1 {
		return fmt.Sprintf("let %s := %s in\n  %s", vars[0], val, rest)
	}
	return fmt.Sprintf("let '%s := %s in\n  %s", tuple(vars), val, rest)
}

func funTuple(vars []string, body string) string {
	if len(vars) == 0 {
		return fmt.Sprintf("(fun _ : unit => %s)", body)
	}
	if len(vars) == 1 {
		return fmt.Sprintf("(fun %s => %s)", vars[0], body)
	}
	return fmt.Sprintf("(fun '%s => %s)", tuple(vars), body)
}

// assigned lists (as Coq names, in declaration order) the variables assigned in the statements
// that were declared outside of them.
func (t *LT) assigned(l []ast.Stmt) []string {
	set := map[string]token.Pos{}
	local := map[string]bool{}
	var root func(e ast.Expr) string
	root = func(e ast.Expr) string {
		switch x := e.(type) {
		case *ast.Ident:
			if a, ok := t.alias[x.Name]; ok {
				return root(a)
			}
			return x.Name
		case *ast.IndexExpr:
			return root(x.X)
		case *ast.SelectorExpr:
			if id, ok := x.X.(*ast.Ident); ok && id.Name == t.recv && t.recv != "" {
				return "\x00" + x.Sel.Name // receiver field
			}
			return root(x.X)
		}
		return ""
	}
	for _, s := range l {
		ast.Inspect(s, func(n ast.Node) bool {
			if ifs, ok := n.(*ast.IfStmt); ok && ifs.Init != nil {
				if ia, ok := ifs.Init.(*ast.AssignStmt); ok && len(ia.Rhs) == 1 {
					if ec, ok := t.fn.ErrCalls[t.src(ia.Rhs[0])]; ok {
						for _, m := range ec.Modifies {
							set[m] = token.Pos(1)
						}
					}
					if c, ok := ia.Rhs[0].(*ast.CallExpr); ok {
						if key, _ := t.calleeKey(c); key != "" {
							if ec, ok := t.cfg.ErrCallsBy[key]; ok {
								for _, m := range ec.Modifies {
									set[m] = token.Pos(1)
								}
							}
						}
					}
				}
			}
			if es, ok := n.(*ast.ExprStmt); ok {
				if c, ok := es.X.(*ast.CallExpr); ok {
					if key, recv := t.calleeKey(c); key != "" {
						if _, ok := t.cfg.StmtCallsBy[key]; ok {
							if id, ok := recv.(*ast.Ident); ok && !local[id.Name] {
								if v, ok := t.env[id.Name]; ok {
									set[v] = t.decl[id.Name]
								}
							}
						}
					}
				}
			}
			if es, ok := n.(*ast.ExprStmt); ok {
				if sc, ok := t.fn.StmtCalls[t.src(es.X)]; ok && !local[strings.TrimPrefix(sc[0], "v_")] {
					set[sc[0]] = token.Pos(2)
					for name, v := range t.env {
						if v == sc[0] {
							set[sc[0]] = t.decl[name]
						}
					}
				}
			}
			if inc, ok := n.(*ast.IncDecStmt); ok {
				if id, ok := inc.X.(*ast.Ident); ok && !local[id.Name] {
					if v, ok := t.env[id.Name]; ok {
						set[v] = t.decl[id.Name]
					}
				}
			}
			as, ok := n.(*ast.AssignStmt)
			if !ok {
				return true
			}
			for _, lhs := range as.Lhs {
				r := root(lhs)
				if r == "" || r == "_" {
					continue
				}
				if strings.HasPrefix(r, "\x00") {
					set["w_"+r[1:]] = token.Pos(1)
					continue
				}
				if _, isIdent := lhs.(*ast.Ident); isIdent && as.Tok == token.DEFINE {
					local[r] = true
					continue
				}
				if local[r] {
					continue
				}
				if v, ok := t.env[r]; ok {
					set[v] = t.decl[r]
				}
			}
			return true
		})
	}
	var out []string
	for v := range set {
		out = append(out, v)
	}
	sort.Slice(out, func(i, j int) bool {
		if set[out[i]] != set[out[j]] {
			return set[out[i]] < set[out[j]]
		}
		return out[i] < out[j]
	})
	return out
}

func terminates(l []ast.Stmt) bool {
	if len(l) == 0 {
		return false
	}
	switch s := l[len(l)-1].(type) {
	case *ast.ReturnStmt:
		return true
	case *ast.BranchStmt:
		return s.Tok == token.CONTINUE || (s.Tok == token.BREAK && s.Label == nil)
	case *ast.BlockStmt:
		return terminates(s.List)
	case *ast.IfStmt:
		// every branch of a complete if / else chain terminates
		if s.Else == nil || !terminates(s.Body.List) {
			return false
		}
		return terminates([]ast.Stmt{s.Else})
	}
	return false
}

func (t *LT) bind(name string, pos token.Pos) string {
	if v, ok := t.env[name]; ok {
		return v // a parameter (a_x) or an earlier binding keeps its Coq name; lets shadow
	}
	v := "v_" + name
	t.env[name] = v
	if _, ok := t.decl[name]; !ok {
		t.decl[name] = pos
	}
	return v
}

func elseList(e ast.Stmt) []ast.Stmt {
	switch x := e.(type) {
	case nil:
		return nil
	case *ast.BlockStmt:
		return x.List
	default:
		return []ast.Stmt{x}
	}
}

func (t *LT) block(l []ast.Stmt, k kont) (string, error) {
	if len(l) == 0 {
		if k.fall == "" {
			return "", fmt.Errorf("control falls off the end of the function")
		}
		return k.fall, nil
	}
	rest := func() (string, error) { return t.block(l[1:], k) }
	if len(t.fn.SkipStmts) > 0 {
		src := t.src(l[0])
		for _, pfx := range t.fn.SkipStmts {
			if strings.HasPrefix(src, pfx) {
				return rest()
			}
		}
	}
	if as, ok := l[0].(*ast.AssignStmt); ok && as.Tok == token.DEFINE && len(as.Lhs) == 1 && len(as.Rhs) == 1 {
		if id, ok := as.Lhs[0].(*ast.Ident); ok {
			if tv, ok := t.p.Info.Types[as.Rhs[0]]; ok {
				if _, isOpaque := t.cfg.OpaqueTypes[namedName(tv.Type)]; isOpaque {
					t.opaque[id.Name] = namedName(tv.Type)
					return rest()
				}
			}
		}
	}
	if rs, ok := l[0].(*ast.RangeStmt); ok {
		if id, ok := rs.X.(*ast.Ident); ok && t.fn.SkipParams[id.Name] {
			return rest() // a loop over a parameter that is not modelled (documented per function)
		}
	}
	switch s := l[0].(type) {
	case *ast.BlockStmt:
		return t.block(append(append([]ast.Stmt{}, s.List...), l[1:]...), k)
	case *ast.EmptyStmt:
		return rest()
	case *ast.ReturnStmt:
		if t.retHook != nil {
			return t.retHook(s, k)
		}
		if out, ok, err := t.inlineErrTail(s, k); ok {
			return out, err
		}
		var parts []string
		for _, r := range s.Results {
			parts = append(parts, t.src(r))
		}
		key := strings.Join(parts, ", ")
		if v, ok := t.fn.Returns[key]; ok {
			t.esc = true
			return k.ret(v), nil
		}
		// the same with the variables abstracted: "nil, $" -> template with $1.. = the results
		if len(t.fn.Returns) > 0 {
			var pat []string
			for _, r := range s.Results {
				if id, ok := r.(*ast.Ident); ok && id.Name != "nil" && id.Name != "true" && id.Name != "false" {
					pat = append(pat, "$")
				} else {
					pat = append(pat, t.src(r))
				}
			}
			if tmpl, ok := t.fn.Returns[strings.Join(pat, ", ")]; ok {
				v, err := t.expand(tmpl, nil, s.Results)
				if err != nil {
					return "", err
				}
				t.esc = true
				return k.ret(v), nil
			}
		}
		if len(s.Results) == 1 {
			v, partial, err := t.exprP(s.Results[0])
			if err != nil {
				return "", err
			}
			if !partial {
				return t.retTerm(k, v), nil
			}
			return t.withValue(k, s, v, true, "r_", t.retTerm(k, "r_"))
		}
		return "", t.errf(s, "no rendering for return %q", key)
	case *ast.BranchStmt:
		if s.Tok == token.CONTINUE && s.Label == nil && k.cont != "" {
			return k.cont, nil
		}
		if s.Tok == token.BREAK && s.Label == nil && k.brk != "" {
			t.esc = true
			return k.brk, nil
		}
		return "", t.errf(s, "unsupported branch statement")
	case *ast.DeclStmt:
		gd, ok := s.Decl.(*ast.GenDecl)
		if !ok || gd.Tok != token.VAR {
			return "", t.errf(s, "unsupported declaration")
		}
		out := ""
		for _, sp := range gd.Specs {
			vs := sp.(*ast.ValueSpec)
			if len(vs.Values) != 0 {
				return "", t.errf(s, "var with initialiser")
			}
			for _, n := range vs.Names {
				ty := t.p.Info.Defs[n].Type()
				ct, err := t.coqType(ty)
				if err != nil {
					return "", t.errf(s, "%v", err)
				}
				zero := "0"
				switch {
				case strings.HasPrefix(ct, "(list "):
					zero = "(@nil " + strings.TrimSuffix(strings.TrimPrefix(ct, "(list "), ")") + ")"
				case ct == "bool":
					zero = "false"
				case ct == "string":
					zero = "\"\""
				case ct != "Z":
					return "", t.errf(s, "no zero value for %s", ct)
				}
				out += fmt.Sprintf("let %s := %s in\n  ", t.bind(n.Name, n.Pos()), zero)
			}
		}
		r, err := rest()
		return out + r, err
	case *ast.ExprStmt:
		if sc, ok := t.fn.StmtCalls[t.src(s.X)]; ok {
			r, err := rest()
			return fmt.Sprintf("let %s := %s in\n  %s", sc[0], sc[1], r), err
		}
		if c, ok := s.X.(*ast.CallExpr); ok {
			if key, recv := t.calleeKey(c); key != "" {
				if tmpl, ok := t.cfg.StmtCallsBy[key]; ok {
					// the receiver of the call is a field of this function's receiver (state variable w_F)
					if sel, ok := recv.(*ast.SelectorExpr); ok {
						if id, ok := sel.X.(*ast.Ident); ok && id.Name == t.recv && t.recv != "" {
							for _, f := range t.fn.RecvFields {
								if f == sel.Sel.Name {
									val, err := t.expand(tmpl, recv, c.Args)
									if err != nil {
										return "", err
									}
									r, err := rest()
									return fmt.Sprintf("let w_%s := %s in\n  %s", f, val, r), err
								}
							}
						}
					}
					if id, ok := recv.(*ast.Ident); ok {
						if v, ok := t.env[id.Name]; ok {
							val, err := t.expand(tmpl, recv, c.Args)
							if err != nil {
								return "", err
							}
							r, err := rest()
							return fmt.Sprintf("let %s := %s in\n  %s", v, val, r), err
						}
					}
				}
			}
		}
		return "", t.errf(s, "unsupported expression statement %s", t.src(s.X))
	case *ast.AssignStmt:
		if out, ok, err := t.inlineErrHelper(s, l, k); ok {
			return out, err
		}
		// x, err := CALL ; if err != nil { ..return }   for a SumCall
		if len(s.Lhs) == 2 && len(s.Rhs) == 1 && len(l) >= 2 {
			term, ok := t.fn.SumCalls[t.src(s.Rhs[0])]
			if c, isCall := s.Rhs[0].(*ast.CallExpr); !ok && isCall {
				if key, recv := t.calleeKey(c); key != "" {
					if tmpl, found := t.cfg.SumCallsBy[key]; found {
						v, err := t.expand(tmpl, recv, c.Args)
						if err != nil {
							return "", err
						}
						term, ok = v, true
					}
				}
			}
			if ok {
				x, okx := s.Lhs[0].(*ast.Ident)
				e, oke := s.Lhs[1].(*ast.Ident)
				ifs, oki := l[1].(*ast.IfStmt)
				if !okx || !oke || !oki || ifs.Init != nil || ifs.Else != nil ||
					t.src(ifs.Cond) != e.Name+" != nil" || !terminates(ifs.Body.List) {
					return "", t.errf(s, "a sum call must be followed by  if err != nil { ..return }")
				}
				ev := t.bind(e.Name, e.Pos())
				a, err := t.block(ifs.Body.List, k)
				if err != nil {
					return "", err
				}
				xv := t.bind(x.Name, x.Pos())
				r, err := t.block(l[2:], k)
				if err != nil {
					return "", err
				}
				return fmt.Sprintf("match %s with\n  | inr %s => %s\n  | inl %s => %s\n  end", term, ev, a, xv, r), nil
			}
		}
		return t.assign(s, k, rest)
	case *ast.IncDecStmt:
		id, ok := s.X.(*ast.Ident)
		if !ok {
			return "", t.errf(s, "unsupported ++/--")
		}
		old, err := t.expr(id)
		if err != nil {
			return "", err
		}
		op := "Z.add"
		if s.Tok == token.DEC {
			op = "Z.sub"
		}
		v := t.bind(id.Name, id.Pos())
		r, err := rest()
		return fmt.Sprintf("let %s := %s in\n  %s", v, t.wrapArith(id, fmt.Sprintf("(%s %s 1)", op, old)), r), err
	case *ast.IfStmt:
		return t.ifStmt(s, l[1:], k)
	case *ast.RangeStmt:
		return t.rangeStmt(s, k, rest)
	}
	return "", t.errf(l[0], "unsupported statement %T", l[0])
}

func (t *LT) ifStmt(s *ast.IfStmt, after []ast.Stmt, k kont) (string, error) {
	// if [init;] C { A } [else E] ; after
	wrapInit := func(body string) (string, error) { return body, nil }
	if as, ok := s.Init.(*ast.AssignStmt); ok && len(as.Lhs) == 1 && len(as.Rhs) == 1 {
		ec, ok := t.fn.ErrCalls[t.src(as.Rhs[0])]
		if !ok {
			if e2 := t.errCallOf(as.Rhs[0]); e2 != nil {
				ec, ok = e2, true
			}
		}
		if ok {
			id, isId := as.Lhs[0].(*ast.Ident)
			if !isId || s.Else != nil || t.src(s.Cond) != id.Name+" != nil" || !terminates(s.Body.List) {
				return "", t.errf(s, "an effect call is only supported as  if err := CALL; err != nil { ...return }")
			}
			t.env[id.Name] = ec.ErrVar
			a, err := t.block(s.Body.List, k)
			if err != nil {
				return "", err
			}
			delete(t.env, id.Name)
			r, err := t.block(after, k)
			if err != nil {
				return "", err
			}
			out := fmt.Sprintf("match %s with\n  | %s => %s\n  | %s => %s", ec.Term, ec.ErrPat, a, ec.OkPat, r)
			if ec.PanicPat != "" {
				pn, err := t.panicTerm(k, s)
				if err != nil {
					return "", err
				}
				out += fmt.Sprintf("\n  | %s => %s", ec.PanicPat, pn)
			}
			return out + "\n  end", nil
		}
	}
	// nil tests on option-valued pointer variables
	if be, ok := s.Cond.(*ast.BinaryExpr); ok && (be.Op == token.EQL || be.Op == token.NEQ) && s.Else == nil {
		if id, ok := be.X.(*ast.Ident); ok && t.src(be.Y) == "nil" && (t.isOpt(id.Name) || t.initIsOption(s.Init, id.Name)) {
			pre := ""
			if s.Init != nil {
				as, ok := s.Init.(*ast.AssignStmt)
				if !ok || as.Tok != token.DEFINE || len(as.Lhs) != 1 || len(as.Rhs) != 1 || t.src(as.Lhs[0]) != id.Name {
					return "", t.errf(s, "unsupported initialiser of a nil test")
				}
				v, err := t.expr(as.Rhs[0])
				if err != nil {
					return "", err
				}
				pre = fmt.Sprintf("let %s := %s in\n  ", t.bind(id.Name, id.Pos()), v)
			}
			ov, err := t.expr(id)
			if err != nil {
				return "", err
			}
			if be.Op == token.EQL {
				if !terminates(s.Body.List) {
					return "", t.errf(s, "if p == nil needs a terminating body")
				}
				a, err := t.block(s.Body.List, k)
				if err != nil {
					return "", err
				}
				r, err := t.block(after, k) // p is the pointee from here on
				if err != nil {
					return "", err
				}
				return fmt.Sprintf("%smatch %s with\n  | None => %s\n  | Some %s => %s\n  end", pre, ov, a, ov, r), nil
			}
			// p != nil { body } ; after
			if terminates(s.Body.List) {
				a, err := t.block(s.Body.List, k)
				if err != nil {
					return "", err
				}
				r, err := t.block(after, k)
				if err != nil {
					return "", err
				}
				return fmt.Sprintf("%smatch %s with\n  | Some %s => %s\n  | None => %s\n  end", pre, ov, ov, a, r), nil
			}
			sv := t.assigned(s.Body.List)
			t.nK++
			kn := fmt.Sprintf("K%d", t.nK)
			call := kn + " " + tuple(sv)
			a, err := t.block(s.Body.List, kont{fall: call, cont: k.cont, brk: k.brk, ret: k.ret})
			if err != nil {
				return "", err
			}
			r, err := t.block(after, k)
			if err != nil {
				return "", err
			}
			return fmt.Sprintf("let %s := %s in\n  %smatch %s with\n  | Some %s => %s\n  | None => %s\n  end", kn, funTuple(sv, r), pre, ov, ov, a, call), nil
		}
	}
	if s.Init != nil {
		as, ok := s.Init.(*ast.AssignStmt)
		if !ok || as.Tok != token.DEFINE || len(as.Lhs) != 1 || len(as.Rhs) != 1 {
			return "", t.errf(s, "unsupported if initialiser")
		}
		v, partial, err := t.exprP(as.Rhs[0])
		if err != nil {
			return "", err
		}
		id := as.Lhs[0].(*ast.Ident)
		name := t.bind(id.Name, id.Pos())
		wrapInit = func(body string) (string, error) { return t.withValue(k, s, v, partial, name, body) }
	}
	c, cpartial, err := t.exprP(s.Cond)
	if err != nil {
		return "", err
	}
	ite := func(a, b string) (string, error) {
		if !cpartial {
			// if C { return true }; return false  is  return C  (and its mirror image)
			if a == k.ret(t.wrapRet("true")) && b == k.ret(t.wrapRet("false")) {
				return k.ret(t.wrapRet(c)), nil
			}
			if a == k.ret(t.wrapRet("false")) && b == k.ret(t.wrapRet("true")) {
				return k.ret(t.wrapRet("(negb " + c + ")")), nil
			}
			return fmt.Sprintf("(if %s then %s\n   else %s)", c, a, b), nil
		}
		pn, err := t.panicTerm(k, s)
		if err != nil {
			return "", err
		}
		return fmt.Sprintf("match %s with\n  | Some true => %s\n  | Some false => %s\n  | None => %s\n  end", c, a, b, pn), nil
	}
	el := elseList(s.Else)
	if terminates(s.Body.List) {
		// the statements after the if are reached through the else branch only
		a, err := t.block(s.Body.List, k)
		if err != nil {
			return "", err
		}
		b, err := t.block(append(append([]ast.Stmt{}, el...), after...), k)
		if err != nil {
			return "", err
		}
		out, err := ite(a, b)
		if err != nil {
			return "", err
		}
		return wrapInit(out)
	}
	sv := t.assigned(append(append([]ast.Stmt{}, s.Body.List...), el...))
	t.nK++
	kn := fmt.Sprintf("K%d", t.nK)
	call := kn + " " + tuple(sv)
	inner := kont{fall: call, cont: k.cont, brk: k.brk, ret: k.ret}
	a, err := t.block(s.Body.List, inner)
	if err != nil {
		return "", err
	}
	b := call
	if len(el) > 0 {
		if b, err = t.block(el, inner); err != nil {
			return "", err
		}
	}
	r, err := t.block(after, k)
	if err != nil {
		return "", err
	}
	body, err := ite(a, b)
	if err != nil {
		return "", err
	}
	out, err := wrapInit(body)
	if err != nil {
		return "", err
	}
	return fmt.Sprintf("let %s := %s in\n  %s", kn, funTuple(sv, r), out), nil
}

func (t *LT) rangeStmt(s *ast.RangeStmt, k kont, rest func() (string, error)) (string, error) {
	if s.Tok != token.DEFINE {
		return "", t.errf(s, "range without :=")
	}
	xs, err := t.expr(s.X)
	if err != nil {
		return "", err
	}
	sv0 := t.assigned(s.Body.List)
	var sv []string
	for _, v := range sv0 {
		own := false
		for _, e := range []ast.Expr{s.Key, s.Value} {
			if id, ok := e.(*ast.Ident); ok && v == "v_"+id.Name {
				own = true
			}
		}
		if !own {
			sv = append(sv, v)
		}
	}
	xv := "_"
	indexAsValue := false
	if key, ok := s.Key.(*ast.Ident); ok && s.Value == nil && key.Name != "_" {
		// for i := range X { .. X[i] .. }  with i used only to index X and X not written in the body
		// is the value loop  for _, x := range X { .. x .. }
		xsrc := t.src(s.X)
		want := xsrc + "[" + key.Name + "]"
		okLoop := true
		var walk func(n ast.Node) bool
		walk = func(n ast.Node) bool {
			switch y := n.(type) {
			case *ast.IndexExpr:
				if t.src(y) == want {
					return false // do not look at the i inside
				}
			case *ast.Ident:
				if y.Name == key.Name {
					okLoop = false
				}
			case *ast.AssignStmt:
				for _, l := range y.Lhs {
					if strings.HasPrefix(t.src(l), xsrc) {
						okLoop = false
					}
				}
			}
			return true
		}
		ast.Inspect(s.Body, walk)
		if okLoop {
			if t.elemOf == nil {
				t.elemOf = map[string]string{}
			}
			xv = "v_" + key.Name + "_elem"
			t.elemOf[want] = xv
			indexAsValue = true
			defer delete(t.elemOf, want)
		}
	}
	if s.Value != nil {
		val, ok := s.Value.(*ast.Ident)
		if !ok {
			return "", t.errf(s, "unsupported range value")
		}
		if val.Name != "_" {
			xv = t.bind(val.Name, val.Pos())
		}
	}
	idx := ""
	if key, ok := s.Key.(*ast.Ident); ok && key.Name != "_" && !indexAsValue {
		idx = t.bind(key.Name, key.Pos())
	}
	// first try a plain fold over the state tuple; if the body returns or may panic, redo it as
	// a loop_fold (the body yields LNext state | LRet result)
	savedEsc, savedK := t.esc, t.nK
	if len(sv) > 0 && !t.fn.Partial {
		t.esc = false
		body, err := t.block(s.Body.List, kont{fall: tuple(sv), cont: tuple(sv), ret: k.ret})
		escaped := t.esc
		t.esc = savedEsc
		if err == nil && !escaped {
			r, err := rest()
			if err != nil {
				return "", err
			}
			if idx == "" {
				step := fmt.Sprintf("(fun st %s => %s)", xv, letTuple(sv, "st", body))
				return letTuple(sv, fmt.Sprintf("fold_left %s %s %s", step, xs, tuple(sv)), r), nil
			}
			all := append([]string{idx}, sv...)
			step := fmt.Sprintf("(fun st %s => %s)", xv,
				letTuple(all, "st", letTuple(sv, "("+body+")", tuple(append([]string{"(Z.add " + idx + " 1)"}, sv...)))))
			return letTuple(all, fmt.Sprintf("fold_left %s %s %s", step, xs, tuple(append([]string{"0"}, sv...))), r), nil
		}
		t.nK = savedK
	} else if t.fn.Partial && len(sv) > 0 {
		// same trial for functions that may panic elsewhere: a loop that cannot is still a plain fold
		t.esc = false
		body, err := t.block(s.Body.List, kont{fall: tuple(sv), cont: tuple(sv), ret: k.ret})
		escaped := t.esc
		t.esc = savedEsc
		if err == nil && !escaped && idx == "" {
			r, err := rest()
			if err != nil {
				return "", err
			}
			step := fmt.Sprintf("(fun st %s => %s)", xv, letTuple(sv, "st", body))
			return letTuple(sv, fmt.Sprintf("fold_left %s %s %s", step, xs, tuple(sv)), r), nil
		}
		t.nK = savedK
	}
	all := sv
	next := tuple(sv)
	init := tuple(sv)
	if idx != "" {
		all = append([]string{idx}, sv...)
		next = tuple(append([]string{"(Z.add " + idx + " 1)"}, sv...))
		init = tuple(append([]string{"0"}, sv...))
	}
	inner := kont{fall: "(LNext " + next + ")", cont: "(LNext " + next + ")",
		ret: func(v string) string { return "(LRet " + k.ret(v) + ")" }}
	// break: the loop ends with what follows it, run on the state of that moment (the code after
	// the loop is the function KBn of the state, shared with the normal exit)
	kb := ""
	if len(all) > 0 && hasBreak(s.Body.List) {
		t.nK++
		kb = fmt.Sprintf("KB%d", t.nK)
		inner.brk = "(LRet (" + kb + " " + tuple(all) + "))"
	}
	body, err := t.block(s.Body.List, inner)
	if err != nil {
		return "", err
	}
	t.esc = true
	r, err := rest()
	if err != nil {
		return "", err
	}
	step := fmt.Sprintf("(fun st %s => %s)", xv, letTuple(all, "st", body))
	if len(all) == 0 {
		step = fmt.Sprintf("(fun (_ : unit) %s => %s)", xv, body)
	}
	pat := tuple(all)
	if len(all) == 0 {
		pat = "_"
	}
	if kb != "" {
		return fmt.Sprintf("let %s := %s in\n  match loop_fold %s %s %s with\n  | LRet r_ => r_\n  | LNext st_ => %s st_\n  end",
			kb, funTuple(all, r), step, xs, init, kb), nil
	}
	return fmt.Sprintf("match loop_fold %s %s %s with\n  | LRet r_ => r_\n  | LNext %s => %s\n  end", step, xs, init, pat, r), nil
}

// hasBreak: an unlabelled break that belongs to this loop body (not to a nested loop, switch or select)
func hasBreak(l []ast.Stmt) bool {
	found := false
	var walk func(n ast.Node) bool
	walk = func(n ast.Node) bool {
		switch y := n.(type) {
		case *ast.ForStmt, *ast.RangeStmt, *ast.SwitchStmt, *ast.TypeSwitchStmt, *ast.SelectStmt, *ast.FuncLit:
			return false
		case *ast.BranchStmt:
			if y.Tok == token.BREAK && y.Label == nil {
				found = true
			}
		}
		return true
	}
	for _, st := range l {
		ast.Inspect(st, walk)
	}
	return found
}

// inlineErrHelper handles   x, err := h(args) ; if err != nil { S }  ; REST   where h is an
// unconfigured function or method of this package returning (T, error): h's body is translated
// in place; a `return v, nil` of h continues with REST (x bound to v), any other return of h
// continues with S (err bound to the returned error).  Function-valued parameters of h may be
// bound to method values (h(t, w.applyUpdate)): calls through them resolve to that method.
func (t *LT) inlineErrHelper(s *ast.AssignStmt, l []ast.Stmt, k kont) (string, bool, error) {
	if len(s.Lhs) != 2 || len(s.Rhs) != 1 || len(l) < 2 || t.depth > 3 {
		return "", false, nil
	}
	c, ok := s.Rhs[0].(*ast.CallExpr)
	if !ok {
		return "", false, nil
	}
	x, okx := s.Lhs[0].(*ast.Ident)
	e, oke := s.Lhs[1].(*ast.Ident)
	ifs, oki := l[1].(*ast.IfStmt)
	if !okx || !oke || !oki || ifs.Init != nil || ifs.Else != nil ||
		t.src(ifs.Cond) != e.Name+" != nil" || !terminates(ifs.Body.List) {
		return "", false, nil
	}
	return t.inlineErrCore(c, k,
		func(v string, rk kont) (string, error) {
			xv := t.bind(x.Name, x.Pos())
			r, err := t.block(l[2:], kont{fall: k.fall, cont: k.cont, brk: k.brk, ret: rk.ret})
			if err != nil {
				return "", err
			}
			return fmt.Sprintf("let %s := %s in\n  %s", xv, v, r), nil
		},
		func(ev string, rk kont) (string, error) {
			t.env[e.Name] = ev
			return t.block(ifs.Body.List, kont{fall: k.fall, cont: k.cont, brk: k.brk, ret: rk.ret})
		})
}

// inlineErrTail is  return h(args)  for such a helper h in a function whose results are rendered
// by the patterns "$, nil" and "nil, $": the same as
// x, err := h(args); if err != nil { return nil, err }; return x, nil  (a failing result carries
// no value in the model).
func (t *LT) inlineErrTail(s *ast.ReturnStmt, k kont) (string, bool, error) {
	if len(s.Results) != 1 || t.depth > 3 {
		return "", false, nil
	}
	c, ok := s.Results[0].(*ast.CallExpr)
	okT, hasOk := t.fn.Returns["$, nil"]
	errT, hasErr := t.fn.Returns["nil, $"]
	if !ok || !hasOk || !hasErr {
		return "", false, nil
	}
	return t.inlineErrCore(c, k,
		func(v string, rk kont) (string, error) {
			t.esc = true
			return rk.ret(strings.ReplaceAll(okT, "$1", v)), nil
		},
		func(ev string, rk kont) (string, error) {
			t.esc = true
			return rk.ret(strings.ReplaceAll(errT, "$2", ev)), nil
		})
}

func (t *LT) inlineErrCore(c *ast.CallExpr, k kont, okK, errK func(v string, rk kont) (string, error)) (string, bool, error) {
	key, recv := t.calleeKey(c)
	if key == "" || t.cfg.SumCallsBy[key] != "" || t.cfg.Calls[key] != nil || t.fn.Atoms[t.src(c)] != "" || t.fn.SumCalls[t.src(c)] != "" {
		return "", false, nil
	}
	fd := t.p.FuncDecls()[key]
	if fd == nil || fd.Body == nil {
		return "", false, nil
	}
	if fd.Type.Results == nil || fd.Type.Results.NumFields() != 2 {
		return "", false, nil
	}
	// bind the parameters: values by name (other terms let-bound), method values as function values
	henv := map[string]string{}
	hfun := map[string]*ast.SelectorExpr{}
	var lets []string
	bindArg := func(name string, a ast.Expr) error {
		if id, ok := a.(*ast.Ident); ok && t.fn.SkipParams[id.Name] {
			return nil // an unmodelled parameter of the caller handed on (ctx, the data source)
		}
		if sel, ok := a.(*ast.SelectorExpr); ok {
			if sl, ok := t.p.Info.Selections[sel]; ok && sl.Kind() == types.MethodVal {
				hfun[name] = sel
				return nil
			}
		}
		v, err := t.expr(a)
		if err != nil {
			return err
		}
		if strings.ContainsAny(v, " (") {
			t.nK++
			n := fmt.Sprintf("h%d_%s", t.nK, name)
			lets = append(lets, fmt.Sprintf("let %s := %s in\n  ", n, v))
			v = n
		}
		henv[name] = v
		return nil
	}
	if fd.Recv != nil && len(fd.Recv.List) == 1 && len(fd.Recv.List[0].Names) == 1 && recv != nil {
		if err := bindArg(fd.Recv.List[0].Names[0].Name, recv); err != nil {
			return "", true, err
		}
	}
	i := 0
	for _, f := range fd.Type.Params.List {
		for _, n := range f.Names {
			if i >= len(c.Args) {
				return "", false, nil
			}
			if err := bindArg(n.Name, c.Args[i]); err != nil {
				return "", true, err
			}
			i++
		}
	}
	// the helper shares the caller's state variables (receiver fields); its own locals are fresh
	cenv, cfun, chook, crecv := t.env, t.funcVals, t.retHook, t.recv
	callerEnv := func() map[string]string {
		m := map[string]string{}
		for kk, v := range cenv {
			m[kk] = v
		}
		return m
	}
	t.depth++
	defer func() { t.depth--; t.env, t.funcVals, t.retHook, t.recv = cenv, cfun, chook, crecv }()
	t.env, t.funcVals = henv, hfun
	t.retHook = func(rs *ast.ReturnStmt, rk kont) (string, error) {
		if len(rs.Results) != 2 {
			return "", t.errf(rs, "unsupported return of an inlined helper")
		}
		hEnv, hFun, hHook := t.env, t.funcVals, t.retHook
		defer func() { t.env, t.funcVals, t.retHook = hEnv, hFun, hHook }()
		if t.src(rs.Results[1]) == "nil" {
			v, err := t.expr(rs.Results[0])
			if err != nil {
				return "", err
			}
			t.env, t.funcVals, t.retHook = callerEnv(), cfun, chook
			return okK(v, rk)
		}
		ev, err := t.expr(rs.Results[1])
		if err != nil {
			return "", err
		}
		t.env, t.funcVals, t.retHook = callerEnv(), cfun, chook
		return errK(ev, rk)
	}
	out, err := t.block(t.normStmts(fd.Body.List), k)
	if err != nil {
		return "", true, fmt.Errorf("inlining %s: %v", key, err)
	}
	return strings.Join(lets, "") + out, true, nil
}

// aliasOf recognises  &X[I]
func aliasOf(e ast.Expr) ast.Expr {
	if u, ok := e.(*ast.UnaryExpr); ok && u.Op == token.AND {
		if ix, ok := stripParens(u.X).(*ast.IndexExpr); ok {
			return ix
		}
	}
	return nil
}

func (t *LT) assign(s *ast.AssignStmt, k kont, rest func() (string, error)) (string, error) {
	// p := &X[I] (also in parallel form): p stands for the element from here on
	if s.Tok == token.DEFINE && len(s.Lhs) == len(s.Rhs) {
		all := true
		for _, r := range s.Rhs {
			if aliasOf(r) == nil {
				all = false
			}
		}
		if all {
			for i, l := range s.Lhs {
				id, ok := l.(*ast.Ident)
				if !ok {
					return "", t.errf(s, "unsupported left-hand side")
				}
				t.alias[id.Name] = aliasOf(s.Rhs[i])
				delete(t.env, id.Name)
			}
			return rest()
		}
	}
	// writes through an alias:  p.F = E  is  X[I].F = E
	if len(s.Lhs) == 1 {
		if sel, ok := s.Lhs[0].(*ast.SelectorExpr); ok {
			if id, ok := sel.X.(*ast.Ident); ok {
				if a, ok := t.alias[id.Name]; ok {
					c := *s
					ns := &ast.SelectorExpr{X: a, Sel: sel.Sel}
					t.p.Info.Types[ns] = t.p.Info.Types[sel]
					c.Lhs = []ast.Expr{ns}
					return t.assign(&c, k, rest)
				}
			}
		}
	}
	// X[I].F, X[I].G = E1, E2 : a sequence of stores when no Ei reads the slice written to
	if len(s.Lhs) > 1 && len(s.Lhs) == len(s.Rhs) && s.Tok == token.ASSIGN {
		allElems := true
		for _, l := range s.Lhs {
			if _, isId := l.(*ast.Ident); isId {
				allElems = false
			}
		}
		if allElems {
			indep := true
			for _, l := range s.Lhs {
				root := l
				for {
					switch x := root.(type) {
					case *ast.SelectorExpr:
						if _, ok := x.X.(*ast.IndexExpr); ok {
							root = x.X
							continue
						}
					case *ast.IndexExpr:
						root = x.X
						continue
					}
					break
				}
				for _, r := range s.Rhs {
					if strings.Contains(t.src(r), t.src(root)) {
						indep = false
					}
				}
			}
			if indep {
				var seq func(i int) (string, error)
				seq = func(i int) (string, error) {
					if i == len(s.Lhs) {
						return rest()
					}
					one := &ast.AssignStmt{Lhs: []ast.Expr{s.Lhs[i]}, Tok: token.ASSIGN, Rhs: []ast.Expr{s.Rhs[i]}}
					return t.assign(one, k, func() (string, error) { return seq(i + 1) })
				}
				return seq(0)
			}
		}
	}
	// a, b := E1, E2 where an Ei may panic: evaluate left to right
	if len(s.Lhs) > 1 && len(s.Lhs) == len(s.Rhs) && s.Tok == token.DEFINE {
		anyPartial := false
		var vals []string
		var parts []bool
		for _, r := range s.Rhs {
			v, p, err := t.exprP(r)
			if err != nil {
				return "", err
			}
			vals, parts = append(vals, v), append(parts, p)
			anyPartial = anyPartial || p
		}
		if anyPartial {
			var names []string
			for _, l := range s.Lhs {
				id, ok := l.(*ast.Ident)
				if !ok {
					return "", t.errf(s, "unsupported left-hand side")
				}
				names = append(names, "v_"+id.Name)
			}
			for _, l := range s.Lhs {
				id := l.(*ast.Ident)
				delete(t.env, id.Name)
				t.bind(id.Name, id.Pos())
			}
			out, err := rest()
			if err != nil {
				return "", err
			}
			for i := len(names) - 1; i >= 0; i-- {
				if out, err = t.withValue(k, s, vals[i], parts[i], names[i], out); err != nil {
					return "", err
				}
			}
			return out, nil
		}
	}
	// a, b := <atom>
	if len(s.Lhs) > 1 && len(s.Rhs) == 1 {
		a, ok := t.fn.Atoms[t.src(s.Rhs[0])]
		if !ok {
			v, partial, err := t.exprP(s.Rhs[0])
			if err != nil || partial {
				return "", t.errf(s, "multi-value call is neither an atom nor a configured call: %s", t.src(s.Rhs[0]))
			}
			a = v
			if c, ok := s.Rhs[0].(*ast.CallExpr); ok {
				if key, _ := t.calleeKey(c); key != "" {
					if cm, ok := t.cfg.Calls[key]; ok {
						for i, l := range s.Lhs {
							if id, ok := l.(*ast.Ident); ok && i < len(cm.OptionResult) && cm.OptionResult[i] {
								t.optVars[id.Name] = true
							}
						}
					}
				}
			}
		}
		var vars []string
		for _, l := range s.Lhs {
			id, ok := l.(*ast.Ident)
			if !ok {
				return "", t.errf(s, "unsupported left-hand side")
			}
			vars = append(vars, t.bind(id.Name, id.Pos()))
		}
		r, err := rest()
		return letTuple(vars, a, r), err
	}
	if len(s.Lhs) != len(s.Rhs) {
		return "", t.errf(s, "unsupported assignment arity")
	}
	if len(s.Lhs) > 1 {
		if s.Tok != token.DEFINE && s.Tok != token.ASSIGN {
			return "", t.errf(s, "unsupported parallel assignment")
		}
		var vals, vars []string
		for _, r := range s.Rhs {
			v, err := t.expr(r)
			if err != nil {
				return "", err
			}
			vals = append(vals, v)
		}
		for _, l := range s.Lhs {
			id, ok := l.(*ast.Ident)
			if !ok {
				return "", t.errf(s, "unsupported left-hand side")
			}
			vars = append(vars, t.bind(id.Name, id.Pos()))
		}
		r, err := rest()
		return letTuple(vars, tuple(vals), r), err
	}
	lhs, rhs := s.Lhs[0], s.Rhs[0]
	var op token.Token
	switch s.Tok {
	case token.DEFINE, token.ASSIGN:
	case token.ADD_ASSIGN:
		op = token.ADD
	case token.SUB_ASSIGN:
		op = token.SUB
	case token.MUL_ASSIGN:
		op = token.MUL
	default:
		return "", t.errf(s, "unsupported assignment operator %s", s.Tok)
	}
	selfKey := ""
	if sel, ok := lhs.(*ast.SelectorExpr); ok && op == 0 {
		if ix, ok := sel.X.(*ast.IndexExpr); ok && strings.Contains(t.src(rhs), t.src(lhs)) {
			if sm := t.structOf(ix); sm != nil && sm.proj(sel.Sel.Name) != "" {
				// the right-hand side reads the very field being written: inside the setter it is the old value
				selfKey = t.src(lhs)
				if t.fn.Atoms == nil {
					t.fn.Atoms = map[string]string{}
				}
				t.fn.Atoms[selfKey] = "(" + sm.proj(sel.Sel.Name) + " el)"
			}
		}
	}
	val, vpartial, err := t.exprP(rhs)
	if selfKey != "" {
		delete(t.fn.Atoms, selfKey)
	}
	if err != nil {
		if id, ok := lhs.(*ast.Ident); ok && s.Tok == token.DEFINE {
			// a local whose initialiser is outside the grammar is an error only if it is used
			// (e.g. a capacity computed for make)
			t.poison[id.Name] = err.Error()
			delete(t.env, id.Name)
			return rest()
		}
		return "", err
	}
	if id, ok := lhs.(*ast.Ident); ok && s.Tok == token.DEFINE {
		delete(t.poison, id.Name)
		if t.exprIsOption(rhs) {
			t.optVars[id.Name] = true
		} else {
			delete(t.optVars, id.Name)
		}
	}
	if id, ok := lhs.(*ast.Ident); ok && op == 0 && vpartial {
		v := t.bind(id.Name, id.Pos())
		r, err := rest()
		if err != nil {
			return "", err
		}
		return t.withValue(k, s, val, true, v, r)
	}
	if ix, ok := lhs.(*ast.IndexExpr); ok && op == 0 && vpartial {
		// X[I] = E where E may panic: evaluate E, then the bounds-checked store
		if _, isSlice := t.p.Info.Types[ix.X].Type.Underlying().(*types.Slice); isSlice {
			xs, err := t.expr(ix.X)
			if err != nil {
				return "", err
			}
			i, err := t.expr(ix.Index)
			if err != nil {
				return "", err
			}
			pn, err := t.panicTerm(k, s)
			if err != nil {
				return "", err
			}
			r, err := rest()
			if err != nil {
				return "", err
			}
			return t.withValue(k, s, val, true, "x_", fmt.Sprintf("set_at %s %s (fun _ => x_) %s (fun %s =>\n  %s)", xs, i, pn, xs, r))
		}
	}
	if vpartial {
		return "", t.errf(s, "a panicking expression is only supported in x := E and X[I] = E")
	}
	// m[k] = v on a map variable
	if ix, ok := lhs.(*ast.IndexExpr); ok && op == 0 && t.cfg.MapSet != "" {
		if _, isMap := t.p.Info.Types[ix.X].Type.Underlying().(*types.Map); isMap {
			m, err := t.expr(ix.X)
			if err != nil {
				return "", err
			}
			key, err := t.expr(ix.Index)
			if err != nil {
				return "", err
			}
			r, err := rest()
			return fmt.Sprintf("let %s := (%s %s %s %s) in\n  %s", m, t.cfg.MapSet, m, key, val, r), err
		}
	}
	switch l := lhs.(type) {
	case *ast.Ident:
		if op != 0 {
			old, err := t.expr(l)
			if err != nil {
				return "", err
			}
			if val, err = t.binop(lhs, op, lhs, old, val); err != nil {
				return "", err
			}
		}
		v := t.bind(l.Name, l.Pos())
		r, err := rest()
		return fmt.Sprintf("let %s := %s in\n  %s", v, val, r), err
	case *ast.IndexExpr: // X[I] = val   or   X[I][c] = val on a mapped array type
		if op != 0 {
			return "", t.errf(s, "unsupported op-assignment to an element")
		}
		pn, err := t.panicTerm(k, s)
		if err != nil {
			return "", err
		}
		if inner, ok := l.X.(*ast.IndexExpr); ok {
			sm := t.structOf(inner)
			tv := t.p.Info.Types[l.Index]
			if sm == nil || tv.Value == nil {
				return "", t.errf(s, "unsupported nested index assignment")
			}
			xs, err := t.expr(inner.X)
			if err != nil {
				return "", err
			}
			i, err := t.expr(inner.Index)
			if err != nil {
				return "", err
			}
			set, found := sm.setter(tv.Value.ExactString(), func(string) string { return val })
			if !found || strings.ContainsAny(xs, " (") {
				return "", t.errf(s, "unsupported nested index assignment")
			}
			r, err := rest()
			return fmt.Sprintf("set_at %s %s %s %s (fun %s =>\n  %s)", xs, i, set, pn, xs, r), err
		}
		if _, isSlice := t.p.Info.Types[l.X].Type.Underlying().(*types.Slice); !isSlice {
			return "", t.errf(s, "unsupported indexed assignment")
		}
		xs, err := t.expr(l.X)
		if err != nil {
			return "", err
		}
		if strings.ContainsAny(xs, " (") {
			return "", t.errf(s, "indexed slice is not a variable")
		}
		i, err := t.expr(l.Index)
		if err != nil {
			return "", err
		}
		r, err := rest()
		return fmt.Sprintf("set_at %s %s (fun _ => %s) %s (fun %s =>\n  %s)", xs, i, val, pn, xs, r), err
	case *ast.SelectorExpr: // w.F = val (receiver field)  or  x.F = val (local struct)  or  X[I].F = val
		if id, ok := l.X.(*ast.Ident); ok {
			if id.Name == t.recv && t.recv != "" && op == 0 {
				for _, f := range t.fn.RecvFields {
					if f == l.Sel.Name {
						r, err := rest()
						return fmt.Sprintf("let w_%s := %s in\n  %s", f, val, r), err
					}
				}
			}
			if v, ok := t.env[id.Name]; ok && op == 0 {
				if sm := t.structOf(id); sm != nil && sm.Ctor != "" {
					set, found := sm.setter(l.Sel.Name, func(string) string { return val })
					if found {
						r, err := rest()
						return fmt.Sprintf("let %s := (%s %s) in\n  %s", v, set, v, r), err
					}
				}
			}
		}
		ix, ok := l.X.(*ast.IndexExpr)
		if !ok {
			return "", t.errf(s, "unsupported field assignment")
		}
		sm := t.structOf(ix)
		if sm == nil {
			return "", t.errf(s, "element type is not mapped")
		}
		xs, err := t.expr(ix.X)
		if err != nil {
			return "", err
		}
		if strings.ContainsAny(xs, " (") {
			return "", t.errf(s, "indexed slice is not a variable")
		}
		i, err := t.expr(ix.Index)
		if err != nil {
			return "", err
		}
		var berr error
		set, found := sm.setter(l.Sel.Name, func(old string) string {
			if op == 0 {
				return val
			}
			v, err := t.binop(lhs, op, lhs, old, val)
			if err != nil {
				berr = err
			}
			return v
		})
		if berr != nil {
			return "", berr
		}
		if !found {
			return "", t.errf(s, "field %s is not modelled", l.Sel.Name)
		}
		pn, err := t.panicTerm(k, s)
		if err != nil {
			return "", err
		}
		r, err := rest()
		return fmt.Sprintf("set_at %s %s %s %s (fun %s =>\n  %s)", xs, i, set, pn, xs, r), err
	}
	return "", t.errf(s, "unsupported left-hand side %T", lhs)
}

// TranslateLoopFunc renders one function as a Coq Definition, or explains why it cannot.
func TranslateLoopFunc(p *Pkg, cfg *LCfg, fn *LFunc) (string, error) {
	fd := p.FuncDecls()[fn.Key]
	if fd == nil || fd.Body == nil {
		return "", fmt.Errorf("%s: not found in source", fn.Key)
	}
	t := &LT{p: p, cfg: cfg, fn: fn, env: map[string]string{}, decl: map[string]token.Pos{},
		optVars: map[string]bool{}, alias: map[string]ast.Expr{}, opaque: map[string]string{}, poison: map[string]string{}}
	var binders []string
	for _, b := range fn.Params {
		binders = append(binders, fmt.Sprintf("(%s : %s)", b[0], b[1]))
	}
	if fd.Recv != nil && len(fd.Recv.List) == 1 && len(fd.Recv.List[0].Names) == 1 {
		t.recv = fd.Recv.List[0].Names[0].Name
		rt := p.Info.Types[fd.Recv.List[0].Type].Type
		switch {
		case fn.ElemIndex:
		case len(fn.RecvFields) > 0:
			st, ok := deref(rt).Underlying().(*types.Struct)
			if !ok {
				return "", fmt.Errorf("%s: receiver is not a struct", fn.Key)
			}
			for _, f := range fn.RecvFields {
				var ft types.Type
				for i := 0; i < st.NumFields(); i++ {
					if st.Field(i).Name() == f {
						ft = st.Field(i).Type()
					}
				}
				if ft == nil {
					return "", fmt.Errorf("%s: receiver has no field %s", fn.Key, f)
				}
				ct, err := t.coqType(ft)
				if err != nil {
					return "", fmt.Errorf("%s: %v", fn.Key, err)
				}
				binders = append(binders, fmt.Sprintf("(w_%s : %s)", f, ct))
			}
		default:
			ct, err := t.coqType(rt)
			if err != nil {
				return "", fmt.Errorf("%s: %v", fn.Key, err)
			}
			t.env[t.recv] = "a_" + t.recv
			binders = append(binders, fmt.Sprintf("(a_%s : %s)", t.recv, ct))
		}
	}
	for _, f := range fd.Type.Params.List {
		ft := p.Info.Types[f.Type].Type
		for _, n := range f.Names {
			if fn.SkipParams[n.Name] {
				continue
			}
			if fn.ElemIndex && isIntType(ft) {
				rt := p.Info.Types[fd.Recv.List[0].Type].Type
				sl, ok := rt.Underlying().(*types.Slice)
				if !ok {
					return "", fmt.Errorf("%s: ElemIndex on a non-slice receiver", fn.Key)
				}
				ct, err := t.coqType(sl.Elem())
				if err != nil {
					return "", fmt.Errorf("%s: %v", fn.Key, err)
				}
				binders = append(binders, fmt.Sprintf("(a_%s : %s)", n.Name, ct))
				continue
			}
			ct, err := t.coqType(ft)
			if err != nil {
				return "", fmt.Errorf("%s: parameter %s: %v", fn.Key, n.Name, err)
			}
			if fn.OptionVars[n.Name] {
				ct = "(option " + ct + ")"
			}
			t.env[n.Name] = "a_" + n.Name
			t.decl[n.Name] = n.Pos()
			binders = append(binders, fmt.Sprintf("(a_%s : %s)", n.Name, ct))
		}
	}
	pre := ""
	if fd.Type.Results != nil {
		for _, f := range fd.Type.Results.List {
			for _, n := range f.Names {
				ct, err := t.coqType(p.Info.Types[f.Type].Type)
				if err != nil {
					return "", fmt.Errorf("%s: result %s: %v", fn.Key, n.Name, err)
				}
				zero := "0"
				switch {
				case strings.HasPrefix(ct, "(list "):
					zero = "(@nil " + strings.TrimSuffix(strings.TrimPrefix(ct, "(list "), ")") + ")"
				case ct == "bool":
					zero = "false"
				case ct == "string":
					zero = "\"\""
				case ct != "Z":
					return "", fmt.Errorf("%s: no zero value for result %s", fn.Key, n.Name)
				}
				pre += fmt.Sprintf("let %s := %s in\n  ", t.bind(n.Name, n.Pos()), zero)
			}
		}
	}
	body, err := t.block(t.normStmts(fd.Body.List), kont{fall: fn.Fall, ret: func(v string) string { return v }})
	if err != nil {
		return "", fmt.Errorf("%s: %v", fn.Key, err)
	}
	return fmt.Sprintf("(* %s  %s *)\nDefinition %s %s : %s :=\n  %s%s.\n", p.Pos(fd), fn.Key, fn.Name,
		strings.Join(binders, " "), fn.Result, pre, body), nil
}

// EmitLoopFuncs renders the functions; failures become comments (and missing definitions).
func EmitLoopFuncs(p *Pkg, cfg *LCfg, fns []*LFunc) []byte {
	var b bytes.Buffer
	for _, fn := range fns {
		def, err := TranslateLoopFunc(p, cfg, fn)
		if err != nil {
			fmt.Fprintf(&b, "(* UNTRANSLATABLE %s: %s *)\n\n", fn.Name, strings.ReplaceAll(err.Error(), "*)", "* )"))
			continue
		}
		b.WriteString(def)
		b.WriteString("\n")
	}
	return b.Bytes()
}
