// Package tr: shared helpers for the /repo -> Coq data translators (tie T of DESIGN.md).
package tr

import (
	"bytes"
	"fmt"
	"go/ast"
	"go/constant"
	"go/importer"
	"go/parser"
	"go/token"
	"go/types"
	"os"
	"path/filepath"
	"sort"
	"strings"
)

// Pkg is a parsed and type-checked package of /repo.
type Pkg struct {
	Fset  *token.FileSet
	Files []*ast.File
	Info  *types.Info
	Types *types.Package
}

// Load parses and type-checks the non-test files of dir (build tag verif files excluded).
// Must be run with the working directory inside the module (the source importer resolves
// imports through go/build).
func Load(dir, importPath string) (*Pkg, error) {
	fset := token.NewFileSet()
	pkgs, err := parser.ParseDir(fset, dir, func(fi os.FileInfo) bool {
		n := fi.Name()
		return !strings.HasSuffix(n, "_test.go") && !strings.HasPrefix(n, "verif_")
	}, parser.ParseComments)
	if err != nil {
		return nil, err
	}
	var names []string
	for n := range pkgs {
		names = append(names, n)
	}
	sort.Strings(names)
	var p *ast.Package
	for _, n := range names {
		if !strings.HasSuffix(n, "_test") {
			p = pkgs[n]
			break
		}
	}
	if p == nil {
		return nil, fmt.Errorf("no package in %s", dir)
	}
	var fnames []string
	for n := range p.Files {
		fnames = append(fnames, n)
	}
	sort.Strings(fnames)
	var files []*ast.File
	for _, n := range fnames {
		files = append(files, p.Files[n])
	}
	var errs []string
	conf := types.Config{Importer: importer.ForCompiler(fset, "source", nil), Error: func(err error) { errs = append(errs, err.Error()) }}
	info := &types.Info{Types: map[ast.Expr]types.TypeAndValue{}, Defs: map[*ast.Ident]types.Object{},
		Uses: map[*ast.Ident]types.Object{}, Selections: map[*ast.SelectorExpr]*types.Selection{}}
	tp, _ := conf.Check(importPath, fset, files, info)
	if len(errs) > 0 {
		return nil, fmt.Errorf("type errors: %s", strings.Join(errs, "; "))
	}
	return &Pkg{Fset: fset, Files: files, Info: info, Types: tp}, nil
}

// Emit writes content to path only when it differs (keeps make incremental).
func Emit(path string, content []byte) error {
	old, err := os.ReadFile(path)
	if err == nil && bytes.Equal(old, content) {
		return nil
	}
	if err := os.MkdirAll(filepath.Dir(path), 0o755); err != nil {
		return err
	}
	return os.WriteFile(path, content, 0o644)
}

// CoqString renders s as a Coq string literal (bytes > 127 are kept as UTF-8 bytes;
// Coq strings are byte strings).
func CoqString(s string) string {
	return "\"" + strings.ReplaceAll(s, "\"", "\"\"") + "\""
}

// CoqZ renders an integer constant.
func CoqZ(v constant.Value) string {
	s := v.ExactString()
	if strings.HasPrefix(s, "-") {
		return "(" + s + ")"
	}
	return s
}

// Pos renders a position relative to /repo.
func (p *Pkg) Pos(n ast.Node) string {
	ps := p.Fset.Position(n.Pos())
	return fmt.Sprintf("%s:%d", filepath.Base(ps.Filename), ps.Line)
}

// FuncDecls returns all function declarations keyed "Recv.Name" (Recv without '*') or "Name".
func (p *Pkg) FuncDecls() map[string]*ast.FuncDecl {
	m := map[string]*ast.FuncDecl{}
	for _, f := range p.Files {
		for _, d := range f.Decls {
			fd, ok := d.(*ast.FuncDecl)
			if !ok {
				continue
			}
			key := fd.Name.Name
			if fd.Recv != nil && len(fd.Recv.List) == 1 {
				key = RecvName(fd.Recv.List[0].Type) + "." + key
			}
			m[key] = fd
		}
	}
	return m
}

func RecvName(e ast.Expr) string {
	switch t := e.(type) {
	case *ast.StarExpr:
		return RecvName(t.X)
	case *ast.Ident:
		return t.Name
	}
	return "?"
}

// Literals lists the string and integer literals (in source order) and the names of called
// functions of a function body: a cheap fingerprint that ties hand-written models of
// fmt/strings/strconv based code to the source (format strings, separators, bases).
func (p *Pkg) Literals(fd *ast.FuncDecl) (strs []string, ints []string, calls []string) {
	if fd == nil || fd.Body == nil {
		return
	}
	ast.Inspect(fd.Body, func(n ast.Node) bool {
		switch x := n.(type) {
		case *ast.BasicLit:
			tv := p.Info.Types[x]
			if tv.Value != nil {
				switch tv.Value.Kind() {
				case constant.String:
					strs = append(strs, constant.StringVal(tv.Value))
				case constant.Int:
					ints = append(ints, tv.Value.ExactString())
				}
			}
		case *ast.CallExpr:
			switch f := x.Fun.(type) {
			case *ast.SelectorExpr:
				if id, ok := f.X.(*ast.Ident); ok {
					calls = append(calls, id.Name+"."+f.Sel.Name)
				} else {
					calls = append(calls, "."+f.Sel.Name)
				}
			case *ast.Ident:
				calls = append(calls, f.Name)
			}
		}
		return true
	})
	return
}

// EmitLiterals renders Literals of the given functions as Coq definitions
// lits_<Recv>_<Name> : list string, ints_… : list Z, calls_… : list string.
func EmitLiterals(p *Pkg, keys []string) []byte {
	var b bytes.Buffer
	decls := p.FuncDecls()
	for _, k := range keys {
		fd := decls[k]
		name := strings.ReplaceAll(k, ".", "_")
		if fd == nil {
			fmt.Fprintf(&b, "(* MISSING %s *)\n", k)
			continue
		}
		s, i, c := p.Literals(fd)
		var ss, cs []string
		for _, x := range s {
			ss = append(ss, CoqString(x))
		}
		for _, x := range c {
			cs = append(cs, CoqString(x))
		}
		fmt.Fprintf(&b, "Definition lits_%s : list string := [%s].\n", name, strings.Join(ss, "; "))
		fmt.Fprintf(&b, "Definition ints_%s : list Z := [%s].\n", name, strings.Join(i, "; "))
		fmt.Fprintf(&b, "Definition calls_%s : list string := [%s].\n", name, strings.Join(cs, "; "))
	}
	return b.Bytes()
}
