#!/usr/bin/env python3
"""Orchestrator for one property check (see DESIGN.md section 2.1).

  bin/check Cxx quick|thorough            run the check
  bin/check Cxx --replay <file>           re-run one recorded case

Protocol: translator -> make (proof obligations incl. GenOk) -> harness against /repo ->
coqc shards (model vs implementation, property oracle, canaries) -> evidence -> verdict.
"""
import concurrent.futures
import fcntl
import glob
import hashlib
import json
import os
import re
import shutil
import subprocess
import sys
import time

VERIF = os.path.dirname(os.path.dirname(os.path.abspath(__file__)))
REPO = os.environ.get("VERIF_REPO", "/repo")
COQ = os.path.join(VERIF, "coq")
GOENV = dict(os.environ, GOFLAGS="-mod=mod", GOPROXY="off", GOSUMDB="off", GOTOOLCHAIN="local")
FORBIDDEN = re.compile(r"\b(Admitted|admit|Axiom|Axioms|Parameter|Parameters|Conjecture|Conjectures|Admit Obligations|bypass_check)\b|Unset\s+Guard|Unset\s+Positivity|Unset\s+Universe|type-in-type|impredicative-set")
STMT = re.compile(r"^\s*(?:Local\s+|Global\s+|#\[[^\]]*\]\s*)*(Theorem|Lemma|Corollary|Example|Proposition|Fact|Remark)\s+([A-Za-z0-9_']+)", re.M)


def sh(cmd, cwd=None, env=None, timeout=None, stdin=None):
    """run, return (rc, output)"""
    try:
        p = subprocess.run(cmd, cwd=cwd, env=env, timeout=timeout, stdout=subprocess.PIPE,
                           stderr=subprocess.STDOUT, shell=isinstance(cmd, str), input=stdin)
        return p.returncode, p.stdout.decode("utf-8", "replace")
    except subprocess.TimeoutExpired as e:
        out = (e.stdout or b"").decode("utf-8", "replace")
        return 124, out + "\n[timeout after %ss]" % timeout


class Lock:
    def __init__(self, path):
        self.path = path

    def __enter__(self):
        self.f = open(self.path, "w")
        fcntl.flock(self.f, fcntl.LOCK_EX)
        return self

    def __exit__(self, *a):
        fcntl.flock(self.f, fcntl.LOCK_UN)
        self.f.close()


def load_cfg(prop):
    with open(os.path.join(VERIF, "checks.d", prop + ".json")) as f:
        return json.load(f)


def load_known(prop):
    """known findings: known_findings.json (assembled) plus the per-property fragments it is
    assembled from (known_findings.d/*.json); only status == "known" entries suppress."""
    out = {}
    paths = [os.path.join(VERIF, "known_findings.json")] + sorted(glob.glob(os.path.join(VERIF, "known_findings.d", "*.json")))
    for p in paths:
        if not os.path.exists(p):
            continue
        with open(p) as f:
            data = json.load(f)
        for e in data.get("findings", []):
            if e.get("property") == prop and e.get("status") == "known":
                out[e["class"]] = e
    return out


def cone_files(cfg):
    files = []
    for c in cfg.get("cone", []):
        p = os.path.join(COQ, c)
        if os.path.isdir(p):
            files += sorted(glob.glob(os.path.join(p, "**", "*.v"), recursive=True))
        elif os.path.exists(p):
            files.append(p)
    return files


def strip_comments(s):
    out, depth, i = [], 0, 0
    while i < len(s):
        if s.startswith("(*", i):
            depth += 1
            i += 2
        elif s.startswith("*)", i) and depth > 0:
            depth -= 1
            i += 2
        else:
            if depth == 0:
                out.append(s[i])
            i += 1
    return "".join(out)


def audit(files):
    """forbidden constructs + statement counts per file"""
    bad, counts = [], {}
    for f in files:
        try:
            src = strip_comments(open(f).read())
        except OSError:
            continue
        src_nostr = re.sub(r'"(?:[^"]|"")*"', '""', src)
        for m in FORBIDDEN.finditer(src_nostr):
            bad.append("%s: %s" % (os.path.relpath(f, COQ), m.group(0)))
        counts[f] = [m.group(2) for m in STMT.finditer(src_nostr)]
    return bad, counts


def run_translators(cfg, work, log):
    broken = []
    os.makedirs(os.path.join(COQ, "gen"), exist_ok=True)
    for g in cfg.get("generators", []):
        exe = os.path.join(VERIF, "work", "tr_" + g + "." + cfg["property_id"])
        rc, out = sh(["go", "build", "-o", exe, "./cmd/" + g], cwd=os.path.join(VERIF, "translator"), env=GOENV, timeout=300)
        if rc != 0:
            raise RuntimeError("translator %s does not build (framework error):\n%s" % (g, out))
        rc, out = sh([exe, REPO, os.path.join(COQ, "gen")], env=GOENV, timeout=300)
        log.write("== translator %s rc=%d\n%s\n" % (g, rc, out))
        if rc != 0:
            broken.append({"kind": "translator", "name": g, "detail": out[-2000:]})
    return broken


def coq_build(cfg, work, log):
    """returns (broken list, check_model_ok, assumptions text)"""
    broken = []
    check_ok = True
    assumptions = ""
    with Lock(os.path.join(COQ, ".lock")):
        sh(["./mkproject.sh"], cwd=COQ)
        for tgt in cfg.get("coq_targets", []):
            rc, out = sh(["make", "-j16", tgt], cwd=COQ, timeout=3000)
            log.write("== make %s rc=%d\n%s\n" % (tgt, rc, out[-6000:]))
            if rc != 0:
                m = re.search(r'File "([^"]+)", line (\d+), characters [^\n]*\n((?:.*\n){0,12})', out)
                where = "%s:%s" % (m.group(1), m.group(2)) if m else tgt
                detail = (m.group(3) if m else out[-1500:]).strip()
                is_check = tgt == cfg.get("check_target")
                if is_check:
                    check_ok = False
                broken.append({"kind": "check_model" if is_check else "proof", "target": tgt, "where": where,
                               "theorem": theorem_at(where), "detail": detail[:1500]})
        pf = cfg.get("properties_file")
        if pf and not any(b["kind"] == "proof" for b in broken):
            rc, out = sh(["coqc", "-q", "-Q", "theories", "Verif", "-Q", "gen", "VerifGen", "-w", "-all",
                          "-o", os.path.join(work, os.path.basename(pf) + "o"), pf], cwd=COQ, timeout=1200)
            assumptions = out
            if rc != 0:
                broken.append({"kind": "proof", "target": pf, "where": pf, "theorem": None, "detail": out[-1500:]})
    return broken, check_ok, assumptions


def theorem_at(where):
    """name of the last statement that starts before file:line"""
    try:
        path, line = where.rsplit(":", 1)
        line = int(line)
        if not os.path.isabs(path):
            path = os.path.join(COQ, path)
        name = None
        for i, l in enumerate(open(path), 1):
            if i > line:
                break
            m = STMT.match(l)
            if m:
                name = m.group(2)
        return name
    except Exception:
        return None


def parse_assumptions(text):
    res = []
    blocks = re.split(r"\n(?=Closed under|Axioms:)", "\n" + text)
    for b in blocks:
        b = b.strip()
        if b.startswith("Closed under"):
            res.append("closed")
        elif b.startswith("Axioms:"):
            res.append(" ".join(b.split()))
    return res


def build_harness(cfg, work, log):
    hdir = os.path.join(VERIF, "harness")
    try:
        src = open(os.path.join(REPO, "go.sum"), "rb").read()
        dst = os.path.join(hdir, "go.sum")
        if not os.path.exists(dst) or open(dst, "rb").read() != src:
            open(dst, "wb").write(src)
    except OSError:
        pass
    exe = os.path.join(work, "vh")
    modflags = []
    if os.path.abspath(REPO) != "/repo":
        # isolated run against a scratch copy of the repository (bin/mutcheck)
        mod = open(os.path.join(hdir, "go.mod")).read().replace("=> /repo", "=> " + os.path.abspath(REPO))
        open(os.path.join(work, "go.mod"), "w").write(mod)
        shutil.copy(os.path.join(hdir, "go.sum"), os.path.join(work, "go.sum"))
        modflags = ["-modfile=" + os.path.join(work, "go.mod")]
    cmd = ["go", "build", "-tags", "verif"] + modflags + cfg.get("go_build_flags", []) + ["-o", exe, "./cmd/" + cfg["harness"]]
    rc, out = sh(cmd, cwd=hdir, env=GOENV, timeout=900)
    log.write("== go build harness rc=%d\n%s\n" % (rc, out[-4000:]))
    if rc != 0:
        return None, out
    return exe, ""


def run_harness(exe, cfg, outdir, tier, seed, scale, log, extra=None):
    os.makedirs(outdir, exist_ok=True)
    args = [exe, outdir, "--tier", tier, "--seed", str(seed), "--scale", str(scale)]
    args += cfg.get("tiers", {}).get(tier, {}).get("args", [])
    args += extra or []
    t = cfg.get("tiers", {}).get(tier, {}).get("harness_timeout", 1800)
    env = dict(GOENV, VERIF_REPO=REPO, VERIF_DIR=VERIF)
    rc, out = sh(args, env=env, timeout=t, cwd=outdir)
    log.write("== harness %s rc=%d\n%s\n" % (" ".join(args[1:]), rc, out[-4000:]))
    if rc != 0:
        return None, out
    with open(os.path.join(outdir, "meta.json")) as f:
        return json.load(f), out


def run_shard(path):
    cmd = "ulimit -s unlimited 2>/dev/null; exec coqc -q -Q %s Verif -Q %s VerifGen -w -all %s" % (
        os.path.join(COQ, "theories"), os.path.join(COQ, "gen"), os.path.basename(path))
    rc, out = sh(["bash", "-c", cmd], cwd=os.path.dirname(path), timeout=3000)
    if rc != 0:
        return None, out
    m = re.search(r"M\s*=\s*(.*?)\s*:\s*list", out, re.S)
    if not m:
        return None, out
    body = m.group(1).replace("%Z", "").replace(";", ",").replace("\n", " ")
    try:
        val = eval(body, {"__builtins__": {}}, {})
    except Exception:
        return None, out
    return [(int(i), [int(c) for c in codes]) for (i, codes) in val], out


def run_shards(meta, outdir, log):
    """returns dict global index -> codes, or None when a shard failed to evaluate"""
    res, failed = {}, []
    paths = [os.path.join(outdir, s) for s in meta["shards"]]
    with concurrent.futures.ThreadPoolExecutor(max_workers=int(os.environ.get("VERIF_JOBS", "8"))) as ex:
        for k, (r, out) in enumerate(ex.map(run_shard, paths)):
            if r is None:
                failed.append((meta["shards"][k], out[-3000:]))
                log.write("== shard %s FAILED\n%s\n" % (meta["shards"][k], out[-3000:]))
                continue
            for i, codes in r:
                res[k * meta["shard_size"] + i] = codes
    for p in paths:  # compiled case files are large and useless afterwards
        for ext in (".vo", ".vok", ".vos", ".glob"):
            try:
                os.remove(p[:-2] + ext)
            except OSError:
                pass
    return res, failed


def case_desc(outdir, idx):
    try:
        with open(os.path.join(outdir, "cases.jsonl")) as f:
            for line in f:
                if line.startswith('{"canary"') or True:
                    d = json.loads(line)
                    if d.get("i") == idx:
                        return d
    except OSError:
        pass
    return None


def classify(meta, results, known):
    """-> (violations, mismatches, transport, known_seen, canary_missing)"""
    canaries = set(meta.get("canaries") or [])
    kmap = {int(k): v for k, v in (meta.get("known") or {}).items()}
    ofail = {int(k): v for k, v in (meta.get("oracle_failures") or {}).items()}
    violations, mismatches, transport, known_seen = [], [], [], {}
    canary_missing = sorted(c for c in canaries if c not in results)
    idxs = set(results) | set(ofail)
    for i in sorted(idxs):
        if i in canaries:
            continue
        codes = results.get(i, [])
        spec_fail = (2 in codes) or (i in ofail)
        if 0 in codes:
            transport.append(i)
        if spec_fail:
            cls = kmap.get(i)
            if cls and cls in known:
                known_seen.setdefault(cls, []).append(i)
            else:
                violations.append((i, codes, ofail.get(i)))
        if 1 in codes or any(c >= 3 for c in codes):
            mismatches.append((i, codes))
    return violations, mismatches, transport, known_seen, canary_missing


def write_replay(work, n, data):
    p = os.path.join(work, "replay_%d.json" % n)
    with open(p, "w") as f:
        json.dump(data, f, indent=1)
    return p


def main(argv):
    if len(argv) < 3:
        print(__doc__)
        return 2
    prop = argv[1]
    cfg = load_cfg(prop)
    if argv[2] == "--replay":
        return replay(prop, cfg, argv[3])
    tier = argv[2]
    seed = int(os.environ.get("VERIF_SEED", "1") or "1")
    t0 = time.time()
    work = os.path.join(VERIF, "work", prop)
    if os.path.isdir(work):
        shutil.rmtree(work, ignore_errors=True)
    os.makedirs(work, exist_ok=True)
    log = open(os.path.join(work, "check.log"), "w")
    known = load_known(prop)
    broken = []

    # 0. static audit
    files = cone_files(cfg)
    bad, counts = audit(files)
    for b in bad:
        broken.append({"kind": "audit", "detail": b})

    # 1-2. translator + proofs
    broken += run_translators(cfg, work, log)
    files = cone_files(cfg)
    bad2, counts = audit(files)
    pb, check_ok, assum_text = coq_build(cfg, work, log)
    broken += pb
    assumptions = parse_assumptions(assum_text)
    failed_targets = set(b.get("target") for b in pb)
    obligations = sum(len(v) for v in counts.values())
    discharged = 0
    for f, names in counts.items():
        vo = f[:-2] + ".vo"
        if os.path.exists(vo) and os.path.getmtime(vo) >= os.path.getmtime(f):
            discharged += len(names)

    # 3. harness
    exe, herr = build_harness(cfg, work, log)
    meta, results, shard_fail = None, {}, []
    scale = float(os.environ.get("VERIF_SCALE", "1"))
    if exe is None:
        broken.append({"kind": "harness_build", "detail": herr[-2000:]})
    else:
        meta, hout = run_harness(exe, cfg, work, tier, seed, scale, log)
        if meta is None:
            broken.append({"kind": "harness_run", "detail": hout[-2000:]})
    # 4. coq shards
    if meta is not None and check_ok:
        results, shard_fail = run_shards(meta, work, log)
        for name, out in shard_fail:
            broken.append({"kind": "shard", "name": name, "detail": out[-1500:]})

    violations, mismatches, transport, known_seen, canary_missing = [], [], [], {}, []
    if meta is not None:
        violations, mismatches, transport, known_seen, canary_missing = classify(meta, results, known)
        if not check_ok:
            canary_missing = []
        if canary_missing and not shard_fail:
            broken.append({"kind": "canary", "detail": "planted corrupted cases not flagged: %s" % canary_missing[:10]})
        if transport:
            broken.append({"kind": "transport", "detail": "cases that did not parse in Coq: %s" % transport[:10]})
        if mismatches:
            broken.append({"kind": "correspondence", "detail": "model and implementation differ on %d cases, first: %s" % (
                len(mismatches), mismatches[:5])})

    verdict_lines = []
    rc = 0
    nrep = 0
    found = list(violations)
    search_info = None
    if not found and broken and exe is not None:
        # widened search for a concrete failing input (DESIGN 2.1 step 6)
        search_info = {"rounds": 0, "cases": 0}
        sc = cfg.get("search", {})
        for r in range(int(sc.get("rounds", 3))):
            sdir = os.path.join(work, "search_%d" % r)
            smeta, _ = run_harness(exe, cfg, sdir, tier, seed * 1000 + 17 * (r + 1), float(sc.get("scale", 2.0)), log,
                                   extra=sc.get("args", []))
            if smeta is None:
                continue
            search_info["rounds"] += 1
            search_info["cases"] += smeta["n_cases"]
            sres = {}
            if check_ok:
                sres, _ = run_shards(smeta, sdir, log)
            v, _, _, _, _ = classify(smeta, sres, known)
            if v:
                i, codes, omsg = v[0]
                found.append((i, codes, omsg))
                d = case_desc(sdir, i)
                nrep += 1
                p = write_replay(work, nrep, {"property": prop, "tier": tier, "seed": smeta["seed"], "scale": float(sc.get("scale", 2.0)),
                                              "index": i, "codes": codes, "go_oracle": omsg, "case": d, "broken": broken,
                                              "found_by": "widened search round %d" % r})
                verdict_lines.append("VIOLATION property=%s replay=%s" % (prop, p))
                break
            shutil.rmtree(sdir, ignore_errors=True)
    if violations:
        i, codes, omsg = violations[0]
        d = case_desc(work, i)
        nrep += 1
        p = write_replay(work, nrep, {"property": prop, "tier": tier, "seed": seed, "scale": scale, "index": i, "codes": codes,
                                      "go_oracle": omsg, "case": d, "n_violating_cases": len(violations),
                                      "other_indices": [v[0] for v in violations[1:20]], "broken": broken})
        verdict_lines.append("VIOLATION property=%s replay=%s" % (prop, p))
    if broken and not found:
        nrep += 1
        names = []
        for b in broken:
            names.append("%s:%s" % (b["kind"], b.get("theorem") or b.get("where") or b.get("name") or b.get("target") or ""))
        p = write_replay(work, nrep, {"property": prop, "tier": tier, "seed": seed, "no_longer_checks": names, "broken": broken,
                                      "search": search_info,
                                      "note": "a proof obligation or the correspondence broke; no input violating the property was found"})
        verdict_lines.append("VIOLATION property=%s replay=%s no-failing-input-found" % (prop, p))
    if verdict_lines:
        rc = 1

    # thorough: independent re-check of the compiled proofs
    coqchk = None
    if tier == "thorough" and not any(b["kind"] in ("proof", "audit") for b in broken) and cfg.get("coqchk_module"):
        with Lock(os.path.join(COQ, ".lock")):
            c, out = sh(["coqchk", "-silent", "-o", "-Q", "theories", "Verif", "-Q", "gen", "VerifGen", cfg["coqchk_module"]],
                        cwd=COQ, timeout=7200)
        log.write("== coqchk rc=%d\n%s\n" % (c, out[-6000:]))
        coqchk = {"rc": c, "tail": out[-3000:]}
        if c != 0:
            rc = 1
            nrep += 1
            p = write_replay(work, nrep, {"property": prop, "no_longer_checks": ["coqchk"], "detail": out[-3000:]})
            verdict_lines.append("VIOLATION property=%s replay=%s no-failing-input-found" % (prop, p))

    # thorough: optional extraction-based volume path (bin/xcheck, notes/xcheck.md).  Extraction and
    # the OCaml compiler are trusted only for "no failure found there": every violation it reports
    # has been re-confirmed through vm_compute by bin/xcheck itself.
    xcheck = None
    if tier == "thorough" and cfg.get("xcheck") and not broken and not found:
        xc, xout = sh([os.path.join(VERIF, "bin", "xcheck"), prop, "--scale", str(cfg["xcheck"].get("scale", 10)),
                       "--seed", str(seed)], timeout=7200)
        log.write("== xcheck rc=%d\n%s\n" % (xc, xout[-4000:]))
        xl = [l for l in xout.splitlines() if l.startswith(("VIOLATION", "XCHECK-", "XOK"))]
        xcheck = {"rc": xc, "lines": xl[-6:]}
        if xc == 1:
            rc = 1
            vl = [l for l in xl if l.startswith("VIOLATION")]
            if vl:
                verdict_lines += vl
            else:
                nrep += 1
                p = write_replay(work, nrep, {"property": prop, "no_longer_checks": ["xcheck"], "detail": xl})
                verdict_lines.append("VIOLATION property=%s replay=%s no-failing-input-found" % (prop, p))

    for cls, idxs in sorted(known_seen.items()):
        print("KNOWN-FINDING: property=%s %s (%d cases, e.g. index %d)" % (prop, known[cls].get("what", cls), len(idxs), idxs[0]))
    for l in verdict_lines:
        print(l)

    # evidence
    wall = time.time() - t0
    man = cfg.get("manifest", {})
    cov = {
        "obligations": max(obligations, 1),
        "discharged": discharged if not any(b["kind"] in ("proof", "audit", "translator") for b in broken) else min(discharged, max(obligations - 1, 0)),
        "checker_cmd": "cd /verif/coq && make -j16 %s   (coqc 8.16.1 kernel; vm_compute for case shards)" % " ".join(cfg.get("coq_targets", [])),
        "trusted_base": cfg.get("trusted_base", []),
        "theorems": [n for f, names in sorted(counts.items()) if f.endswith(cfg.get("properties_file", "\0")) for n in names],
        "print_assumptions": assumptions,
        "partial_or_refuted": sorted(n for names in counts.values() for n in names if n.endswith("_partial") or n.endswith("_refuted")),
        "evaluations": meta["n_cases"] if meta else 0,
        "distinct_nontrivial": meta["distinct_nontrivial"] if meta else 0,
        "rule": meta["rule"] if meta else "",
        "samples": (meta.get("samples") or [])[:5] if meta else [],
        "tokens": meta["n_tokens"] if meta else 0,
        "generator_stats": meta["stats"] if meta else {},
        "canaries_planted": len(meta.get("canaries") or []) if meta else 0,
        "canaries_detected": (len(meta.get("canaries") or []) - len(canary_missing)) if meta else 0,
        "model_impl_mismatches": len(mismatches),
        "known_findings_observed": {k: len(v) for k, v in known_seen.items()},
        "broken": broken,
        "exhaustive": bool(cfg.get("exhaustive", False)),
        "harness_notes": meta.get("notes") if meta else [],
    }
    if coqchk is not None:
        cov["coqchk"] = coqchk
    if xcheck is not None:
        cov["xcheck_volume_path"] = xcheck
    if search_info:
        cov["search"] = search_info
    ev = {"property_id": prop, "tier": tier, "seed": seed, "level": man.get("level", "proof"), "coverage": cov,
          "assumptions": cfg.get("assumptions", []), "wall_s": round(wall, 1), "violations": len(found) if found else (1 if rc else 0)}
    os.makedirs(os.path.join(VERIF, "evidence"), exist_ok=True)
    with open(os.path.join(VERIF, "evidence", prop + ".json"), "w") as f:
        json.dump(ev, f, indent=1)
    log.close()
    if rc == 0:
        print("OK property=%s tier=%s cases=%d obligations=%d wall=%.0fs" % (prop, tier, cov["evaluations"], obligations, wall))
    return rc


def replay(prop, cfg, path):
    with open(path) as f:
        rp = json.load(f)
    print(json.dumps({k: rp[k] for k in rp if k != "broken"}, indent=1))
    if "index" not in rp:
        print("this replay names broken obligations only:", rp.get("no_longer_checks"))
        return 0
    work = os.path.join(VERIF, "work", prop + ".replay")
    shutil.rmtree(work, ignore_errors=True)
    os.makedirs(work)
    log = open(os.path.join(work, "check.log"), "w")
    run_translators(cfg, work, log)
    coq_build(cfg, work, log)
    exe, err = build_harness(cfg, work, log)
    if exe is None:
        print(err)
        return 2
    meta, out = run_harness(exe, cfg, work, rp.get("tier", "quick"), rp["seed"], rp.get("scale", 1.0), log,
                            extra=cfg.get("search", {}).get("args", []) if "found_by" in rp else None)
    if meta is None:
        print(out)
        return 2
    d = case_desc(work, rp["index"])
    print("implementation now:", json.dumps(d, indent=1))
    results, _ = run_shards(meta, work, log)
    codes = results.get(rp["index"], [])
    print("coq judgement codes now (1 = model<>impl, 2 = property oracle fails):", codes)
    return 1 if codes else 0


if __name__ == "__main__":
    sys.exit(main(sys.argv))
