(* lib/extract/driver.ml — generic driver for an extracted [check_case] (volume path, see
   notes/xcheck.md).  The extracted module is compiled under the name Xcase (a copy of
   <cxx>_check.ml); Z, positive, list etc. are the extracted Coq inductives (ExtrOcamlBasic only
   maps bool/option/list/prod/unit/sumbool to OCaml's).

   usage: xdriver cases_0.v [cases_1.v ...]
   input: the case files written by harness/wire (one case per line, "[[t;t;...];[...]]",
          uint63 literals).  output: one line "<file-local index>: c1 c2 ..." per case whose
          code list is not empty, per file a header "== <file>", and a last line
          "done <cases> <cpu seconds>". *)

(* not opened: the extracted module defines its own [string], [list] helpers etc. *)
type positive = Xcase.positive
type z = Xcase.z

let rec pos_of_int (n : int) : positive =
  if n = 1 then Xcase.XH
  else if n land 1 = 0 then Xcase.XO (pos_of_int (n lsr 1))
  else Xcase.XI (pos_of_int (n lsr 1))

let z_of_int (n : int) : z = if n = 0 then Xcase.Z0 else if n > 0 then Xcase.Zpos (pos_of_int n) else Xcase.Zneg (pos_of_int (- n))

(* 2^62 = 4611686018427387904 is the escape token of harness/wire and the one value that does
   not fit OCaml's 63-bit int *)
let two62 : z =
  let rec go k acc = if k = 0 then acc else go (k - 1) (Xcase.XO acc) in
  Xcase.Zpos (go 62 Xcase.XH)

let z_of_token (s : string) : z =
  if s = "4611686018427387904" then two62
  else match int_of_string_opt s with
    | Some n when n >= 0 -> z_of_int n
    | _ -> failwith ("token out of range: " ^ s)

let rec int_of_pos (p : positive) : int =
  match p with Xcase.XH -> 1 | Xcase.XO q -> 2 * int_of_pos q | Xcase.XI q -> 2 * int_of_pos q + 1

let int_of_z (v : z) : int = match v with Xcase.Z0 -> 0 | Xcase.Zpos p -> int_of_pos p | Xcase.Zneg p -> - (int_of_pos p)

(* all maximal digit runs of a line, in order *)
let tokens_of_line (l : string) : z list =
  let n = String.length l in
  let acc = ref [] in
  let i = ref 0 in
  while !i < n do
    if l.[!i] >= '0' && l.[!i] <= '9' then begin
      let j = ref !i in
      while !j < n && l.[!j] >= '0' && l.[!j] <= '9' do incr j done;
      acc := z_of_token (String.sub l !i (!j - !i)) :: !acc;
      i := !j
    end else incr i
  done;
  List.rev !acc

let () =
  let total = ref 0 in
  let t0 = Sys.time () in
  for a = 1 to Array.length Sys.argv - 1 do
    let path = Sys.argv.(a) in
    Printf.printf "== %s\n" path;
    let ic = open_in path in
    let idx = ref 0 in
    (try
       while true do
         let l = input_line ic in
         if String.length l >= 1 && l.[0] = '[' then begin
           let codes = Xcase.check_case (tokens_of_line l) in
           (match codes with
            | [] -> ()
            | _ ->
              Printf.printf "%d:" !idx;
              List.iter (fun c -> Printf.printf " %d" (int_of_z c)) codes;
              print_newline ());
           incr idx; incr total
         end
       done
     with End_of_file -> ());
    close_in ic
  done;
  Printf.printf "done %d %.3f\n" !total (Sys.time () -. t0)
