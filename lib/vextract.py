#!/usr/bin/env python3
"""Volume path: the case checker extracted to OCaml (see notes/xcheck.md, DESIGN.md 2.3).

  bin/xcheck Cxx [--scale N] [--seed S] [--tier quick|thorough] [--sample K] [--keep]

Builds Check.vo of the property, extracts Verif.Cxx.Check.check_case with ExtrOcamlBasic only
(coq/extract/Extract_Cxx.v), compiles it with lib/extract/driver.ml (ocamlfind ocamlopt), runs
the harness at the requested scale, evaluates EVERY case through the extracted checker, evaluates
a sample (>= K cases: all canaries, every case the extracted checker flags, random others)
through the ordinary vm_compute path and compares the two verdicts case by case.

Verdict lines and exit status as bin/check: exactly the canaries must be flagged; a case failing
judgement 2 outside a listed known class is a VIOLATION (with replay) -- reported only after
vm_compute gave the same codes; a disagreement between the two evaluators is an
XCHECK-MISMATCH (exit 1).  Extraction and the OCaml compiler are trusted for nothing else.

As a library:  run_extracted(cfg, workdir, meta) -> {global index: codes}
               (workdir holds meta.json / cases_*.v of a harness run; builds the extracted
               checker into workdir/x when needed; raises XError when the model does not
               extract / compile).
"""
import concurrent.futures
import json
import os
import random
import re
import shutil
import sys
import time

sys.path.insert(0, os.path.dirname(os.path.abspath(__file__)))
import vcheck  # noqa: E402

VERIF, COQ = vcheck.VERIF, vcheck.COQ
DRIVER = os.path.join(VERIF, "lib", "extract", "driver.ml")


class XError(Exception):
    pass


def extract_file(prop):
    return os.path.join(COQ, "extract", "Extract_%s.v" % prop)


def check_module(cfg):
    """Verif.Cxx.Check from check_target theories/Cxx/Check.vo"""
    t = cfg["check_target"]
    assert t.startswith("theories/") and t.endswith(".vo"), t
    return "Verif." + t[len("theories/"):-3].replace("/", ".")


def build_extracted(cfg, xdir, log=None):
    """-> path of the compiled driver.  Check.vo must be up to date."""
    prop = cfg["property_id"]
    os.makedirs(xdir, exist_ok=True)
    src = extract_file(prop)
    if not os.path.exists(src):
        raise XError("no %s" % os.path.relpath(src, VERIF))
    text = open(src).read()
    if re.search(r"Extract\s+(Constant|Inductive|Inlined)|ExtrOcaml(?!Basic)|ExtrHaskell", text):
        raise XError("%s uses extraction directives beyond ExtrOcamlBasic" % os.path.basename(src))
    m = re.search(r'Extraction\s+"([A-Za-z0-9_]+)\.ml"', text)
    if not m:
        raise XError("no Extraction \"<name>.ml\" command in %s" % os.path.basename(src))
    base = m.group(1)
    t0 = time.time()
    # coqc writes the .ml next to its working directory (8.16 has no output-directory option)
    rc, out = vcheck.sh(["coqc", "-q", "-Q", os.path.join(COQ, "theories"), "Verif", "-Q", os.path.join(COQ, "gen"), "VerifGen",
                         "-w", "-all", "-o", os.path.join(xdir, "Extract_%s.vo" % prop), src], cwd=xdir, timeout=1800)
    if log:
        log.write("== extraction rc=%d\n%s\n" % (rc, out[-3000:]))
    if rc != 0 or not os.path.exists(os.path.join(xdir, base + ".ml")):
        raise XError("extraction failed:\n" + out[-1500:])
    t_extract = time.time() - t0
    shutil.copy(os.path.join(xdir, base + ".ml"), os.path.join(xdir, "xcase.ml"))
    shutil.copy(os.path.join(xdir, base + ".mli"), os.path.join(xdir, "xcase.mli"))
    shutil.copy(DRIVER, os.path.join(xdir, "driver.ml"))
    t0 = time.time()
    rc, out = vcheck.sh(["ocamlfind", "ocamlopt", "-O3", "-w", "-a", "xcase.mli", "xcase.ml", "driver.ml", "-o", "xdriver"],
                        cwd=xdir, timeout=1800)
    if rc != 0:  # flags unknown to this compiler: plain build
        rc, out = vcheck.sh(["ocamlfind", "ocamlopt", "-w", "-a", "xcase.mli", "xcase.ml", "driver.ml", "-o", "xdriver"],
                            cwd=xdir, timeout=1800)
    if log:
        log.write("== ocamlopt rc=%d\n%s\n" % (rc, out[-3000:]))
    if rc != 0:
        raise XError("ocamlopt failed:\n" + out[-1500:])
    return os.path.join(xdir, "xdriver"), {"extract_s": round(t_extract, 2), "ocamlopt_s": round(time.time() - t0, 2),
                                           "ml_lines": sum(1 for _ in open(os.path.join(xdir, "xcase.ml")))}


def run_driver_on(exe, path, timeout):
    cmd = "ulimit -s unlimited 2>/dev/null; exec %s %s" % (exe, os.path.basename(path))
    rc, out = vcheck.sh(["bash", "-c", cmd], cwd=os.path.dirname(path), timeout=timeout)
    if rc != 0:
        return None, out, 0.0
    res, cpu, n = [], 0.0, None
    for line in out.splitlines():
        m = re.match(r"^(\d+):((?: -?\d+)*)\s*$", line)
        if m:
            res.append((int(m.group(1)), [int(c) for c in m.group(2).split()]))
            continue
        m = re.match(r"^done (\d+) ([0-9.]+)$", line)
        if m:
            n, cpu = int(m.group(1)), float(m.group(2))
    if n is None:
        return None, out, 0.0
    return (res, n), out, cpu


def run_extracted(cfg, workdir, meta, exe=None, log=None, stats=None, timeout=7200):
    """evaluate every shard of the harness run in workdir through the extracted checker"""
    if exe is None:
        exe, _ = build_extracted(cfg, os.path.join(workdir, "x"), log)
    paths = [os.path.join(workdir, s) for s in meta["shards"]]
    res, cpu, ncases = {}, 0.0, 0
    t0 = time.time()
    with concurrent.futures.ThreadPoolExecutor(max_workers=int(os.environ.get("VERIF_JOBS", "8"))) as ex:
        for k, (r, out, c) in enumerate(ex.map(lambda p: run_driver_on(exe, p, timeout), paths)):
            if r is None:
                raise XError("extracted checker failed on %s:\n%s" % (meta["shards"][k], out[-1500:]))
            lst, n = r
            cpu += c
            ncases += n
            for i, codes in lst:
                res[k * meta["shard_size"] + i] = codes
    if ncases != meta["n_cases"]:
        raise XError("extracted checker saw %d cases, the harness wrote %d" % (ncases, meta["n_cases"]))
    if stats is not None:
        stats.update({"extracted_cases": ncases, "extracted_cpu_s": round(cpu, 3), "extracted_wall_s": round(time.time() - t0, 3)})
    return res


HEADER = ("From Coq Require Import List ZArith Uint63.\nFrom Verif Require Import Base.Wire.\nRequire %s.\nImport ListNotations.\n"
          "Open Scope uint63_scope.\nDefinition cases : list (list (list int)) := [\n")
FOOTER = "\n]%%list.\nDefinition M := Eval vm_compute in Wire.run_cases %s.check_case cases.\nOpen Scope Z_scope.\nPrint M.\n"


def case_lines(workdir, meta, wanted):
    """-> {global index: the case's line in its shard file} for the wanted indices"""
    by_shard = {}
    for i in wanted:
        by_shard.setdefault(i // meta["shard_size"], set()).add(i % meta["shard_size"])
    got = {}
    for k, locals_ in by_shard.items():
        j = 0
        with open(os.path.join(workdir, meta["shards"][k])) as f:
            for line in f:
                if line.startswith("["):
                    if j in locals_:
                        got[k * meta["shard_size"] + j] = line.rstrip("\n").rstrip(";")
                    j += 1
    return got


def run_sample_vm(cfg, workdir, meta, sample, log=None, per_file=None):
    """the ordinary vm_compute path on the sampled cases -> {global index: codes} (all sampled
    indices present, [] = clean)"""
    mod = check_module(cfg)
    sample = sorted(sample)
    jobs = int(os.environ.get("VERIF_JOBS", "8"))
    per_file = per_file or max(25, -(-len(sample) // jobs))
    lines = case_lines(workdir, meta, sample)
    sdir = os.path.join(workdir, "sample")
    os.makedirs(sdir, exist_ok=True)
    files = []
    for n in range(0, len(sample), per_file):
        chunk = sample[n:n + per_file]
        p = os.path.join(sdir, "sample_%d.v" % (n // per_file))
        with open(p, "w") as f:
            f.write(HEADER % mod)
            f.write(";\n".join(lines[i] for i in chunk))
            f.write(FOOTER % mod)
        files.append((p, chunk))
    res = {}
    t0 = time.time()
    with concurrent.futures.ThreadPoolExecutor(max_workers=int(os.environ.get("VERIF_JOBS", "8"))) as ex:
        for (p, chunk), (r, out) in zip(files, ex.map(vcheck.run_shard, [p for p, _ in files])):
            if r is None:
                raise XError("vm_compute failed on the sample %s:\n%s" % (os.path.basename(p), out[-1500:]))
            for i in chunk:
                res[i] = []
            for j, codes in r:
                res[chunk[j]] = codes
    return res, time.time() - t0


def main(argv):
    if len(argv) < 2 or argv[1].startswith("-"):
        print(__doc__)
        return 2
    prop = argv[1]
    opts = {"--scale": "10", "--seed": os.environ.get("VERIF_SEED", "1") or "1", "--tier": "thorough", "--sample": "200"}
    keep = False
    i = 2
    while i < len(argv):
        if argv[i] == "--keep":
            keep = True
            i += 1
        elif argv[i] in opts and i + 1 < len(argv):
            opts[argv[i]] = argv[i + 1]
            i += 2
        else:
            print(__doc__)
            return 2
    scale, seed, tier, nsample = float(opts["--scale"]), int(opts["--seed"]), opts["--tier"], int(opts["--sample"])
    cfg = vcheck.load_cfg(prop)
    t0 = time.time()
    work = os.path.join(VERIF, "work", prop + ".x")
    shutil.rmtree(work, ignore_errors=True)
    os.makedirs(work, exist_ok=True)
    log = open(os.path.join(work, "xcheck.log"), "w")
    known = vcheck.load_known(prop)
    stats = {"property_id": prop, "tier": tier, "seed": seed, "scale": scale}

    def framework(msg):
        print("XCHECK-ERROR property=%s %s" % (prop, msg.strip().splitlines()[0] if msg.strip() else msg))
        log.write("== error\n%s\n" % msg)
        return 3

    # translator + Check.vo (proof obligations are bin/check's business, not this path's)
    broken = vcheck.run_translators(cfg, work, log)
    if broken:
        return framework("translator failed: %s" % broken[0].get("detail", "")[-300:])
    with vcheck.Lock(os.path.join(COQ, ".lock")):
        vcheck.sh(["./mkproject.sh"], cwd=COQ)
        rc, out = vcheck.sh(["make", "-j8", cfg["check_target"]], cwd=COQ, timeout=3000)
    log.write("== make %s rc=%d\n%s\n" % (cfg["check_target"], rc, out[-4000:]))
    if rc != 0:
        return framework("Check.vo does not build:\n" + out[-800:])
    try:
        exe, bstats = build_extracted(cfg, os.path.join(work, "x"), log)
    except XError as e:
        return framework(str(e))
    stats.update(bstats)
    hexe, herr = vcheck.build_harness(cfg, work, log)
    if hexe is None:
        return framework("harness does not build:\n" + herr[-800:])
    th = time.time()
    meta, hout = vcheck.run_harness(hexe, cfg, work, tier, seed, scale, log)
    if meta is None:
        return framework("harness run failed:\n" + hout[-800:])
    stats["harness_s"] = round(time.time() - th, 2)
    stats["n_cases"], stats["n_tokens"] = meta["n_cases"], meta["n_tokens"]

    # every case through the extracted checker
    try:
        xres = run_extracted(cfg, work, meta, exe=exe, log=log, stats=stats)
    except XError as e:
        return framework(str(e))

    if os.environ.get("XCHECK_SELFTEST"):
        # self-test of the cross-check: pretend the extracted checker missed a canary and flagged a
        # clean case; the run must end with XCHECK-MISMATCH / XCHECK-BROKEN
        cs = sorted(meta.get("canaries") or [])
        if cs:
            xres.pop(cs[0], None)
        clean = next(i for i in range(meta["n_cases"]) if i not in xres and i not in cs)
        xres[clean] = [2]

    # the sample through vm_compute: canaries, everything flagged, the Go oracle's failures, random others
    rng = random.Random(seed * 7919 + 13)
    forced = set(meta.get("canaries") or []) | set(xres) | set(int(k) for k in (meta.get("oracle_failures") or {}))
    forced_l = sorted(forced)
    if len(forced_l) > 4 * nsample:  # a broken build flags everything: a sample of it is enough
        forced_l = sorted(rng.sample(forced_l, 4 * nsample))
    rest = [i for i in range(meta["n_cases"]) if i not in forced]
    extra = rng.sample(rest, min(len(rest), max(nsample - len(forced_l), nsample // 2)))
    sample = sorted(set(forced_l) | set(extra))
    try:
        vres, vm_wall = run_sample_vm(cfg, work, meta, sample, log)
    except XError as e:
        return framework(str(e))
    stats["sample"] = len(sample)
    stats["sample_vm_wall_s"] = round(vm_wall, 2)
    mism = [(i, xres.get(i, []), vres[i]) for i in sample if sorted(xres.get(i, [])) != sorted(vres[i])]
    stats["extraction_mismatches"] = len(mism)

    rc = 0
    lines = []
    if mism:
        rc = 1
        i, xc, vc = mism[0]
        p = vcheck.write_replay(work, 1, {"property": prop, "kind": "extraction cross-check", "index": i, "extracted_codes": xc,
                                          "vm_compute_codes": vc, "seed": seed, "scale": scale, "case": vcheck.case_desc(work, i),
                                          "n_mismatching": len(mism), "other_indices": [m[0] for m in mism[1:20]]})
        lines.append("XCHECK-MISMATCH property=%s extracted and vm_compute verdicts differ on %d of %d sampled cases replay=%s" % (
            prop, len(mism), len(sample), p))
    violations, mismatches, transport, known_seen, canary_missing = vcheck.classify(meta, xres, known)
    nrep = 1
    if canary_missing:
        rc = 1
        lines.append("XCHECK-BROKEN property=%s planted corrupted cases not flagged by the extracted checker: %s" % (prop, canary_missing[:10]))
    if transport:
        rc = 1
        lines.append("XCHECK-BROKEN property=%s cases that did not parse: %s" % (prop, transport[:10]))
    confirmed = [v for v in violations if v[0] in vres and (2 in vres[v[0]] or v[2])]
    if violations and not confirmed and not mism:
        rc = 1
        lines.append("XCHECK-BROKEN property=%s %d cases fail judgement 2 but none was in the vm_compute sample" % (prop, len(violations)))
    if confirmed:
        rc = 1
        i, codes, omsg = confirmed[0]
        nrep += 1
        p = vcheck.write_replay(work, nrep, {"property": prop, "tier": tier, "seed": seed, "scale": scale, "index": i, "codes": codes,
                                             "vm_compute_codes": vres.get(i), "go_oracle": omsg, "case": vcheck.case_desc(work, i),
                                             "n_violating_cases": len(violations), "other_indices": [v[0] for v in violations[1:20]],
                                             "found_by": "extracted checker (volume path), re-confirmed by vm_compute"})
        lines.append("VIOLATION property=%s replay=%s" % (prop, p))
    elif mismatches and not mism:
        # model and implementation differ but judgement 2 holds everywhere: the correspondence broke
        conf = [m for m in mismatches if m[0] in vres and sorted(vres[m[0]]) == sorted(m[1])]
        if conf:
            rc = 1
            nrep += 1
            p = vcheck.write_replay(work, nrep, {"property": prop, "no_longer_checks": ["correspondence"], "index": conf[0][0],
                                                 "codes": conf[0][1], "case": vcheck.case_desc(work, conf[0][0]), "seed": seed, "scale": scale,
                                                 "n_cases": len(mismatches)})
            lines.append("VIOLATION property=%s replay=%s no-failing-input-found" % (prop, p))
    for cls, idxs in sorted(known_seen.items()):
        print("KNOWN-FINDING: property=%s %s (%d cases, e.g. index %d)" % (prop, known[cls].get("what", cls), len(idxs), idxs[0]))
    for l in lines:
        print(l)

    cpu = max(stats.get("extracted_cpu_s", 0.0), 1e-6)
    stats["extracted_cases_per_s"] = round(stats["n_cases"] / cpu, 1)
    stats["vm_compute_cases_per_s"] = round(len(sample) / max(vm_wall, 1e-6), 1)
    stats["wall_s"] = round(time.time() - t0, 1)
    stats["rc"] = rc
    stats["canaries"] = len(meta.get("canaries") or [])
    stats["known_findings_observed"] = {k: len(v) for k, v in known_seen.items()}
    with open(os.path.join(work, "xcheck.json"), "w") as f:
        json.dump(stats, f, indent=1)
    if rc == 0:
        print("XOK property=%s tier=%s scale=%g cases=%d extracted=%.0f cases/s (cpu) sample=%d vm_compute=%.1f cases/s (wall, %d jobs) mismatches=0 wall=%.0fs" % (
            prop, tier, scale, meta["n_cases"], stats["extracted_cases_per_s"], len(sample), stats["vm_compute_cases_per_s"],
            int(os.environ.get("VERIF_JOBS", "8")), stats["wall_s"]))
    if not keep:  # the case files of a volume run are large
        for s in meta["shards"]:
            for ext in (".v", ".vo", ".vok", ".vos", ".glob"):
                try:
                    os.remove(os.path.join(work, s[:-2] + ext))
                except OSError:
                    pass
        if rc == 0:
            try:
                os.remove(os.path.join(work, "cases.jsonl"))
            except OSError:
                pass
    return rc


if __name__ == "__main__":
    sys.exit(main(sys.argv))
