// Package pbfrun runs osmpbf scans in an isolated child process so that a crash
// (a panic in a decoder goroutine kills the whole process) or a hang is an
// *observation* of one case and not the end of the harness run.
//
// The harness binary re-executes itself with PBFRUN_WORKER=1; main() must start with
//
//	if pbfrun.IsWorker() { pbfrun.WorkerMain(); return }
//
// Protocol: the parent writes one JSON Job per line to the child's stdin; the child
// answers, per unit of work (one cut / one stop position), with a line "B <i>" before it
// starts and a line "R <json Obs>" when it is done, and "E" at the end of a job.
package pbfrun

import (
	"bufio"
	"bytes"
	"context"
	"crypto/sha256"
	"encoding/binary"
	"encoding/json"
	"errors"
	"fmt"
	"io"
	"math"
	"os"
	"os/exec"
	"path/filepath"
	"runtime"
	"strconv"
	"strings"
	"sync"
	"sync/atomic"
	"time"

	"github.com/paulmach/osm"
	"github.com/paulmach/osm/osmpbf"
)

// Job is a batch of scans over one byte string.
type Job struct {
	Data  []byte  `json:"data"`
	Procs int     `json:"procs"`
	Skip  [3]bool `json:"skip"` // SkipNodes, SkipWays, SkipRelations
	// Filter: FilterNode / FilterWay / FilterRelation functions that reject every element
	Filter [3]bool `json:"filter,omitempty"`
	// Mode "cut": one scan of Data[:c] for every c in Units.
	// Mode "stop": for every k in Units: scan k objects, read the offsets, Close, then scan
	// Data[FullyScannedBytes:] (and Data[PreviousFullyScannedBytes:]) with a second scanner.
	// Mode "trace": one full scan (Units ignored) reporting the offsets after every object.
	Mode  string `json:"mode"`
	Units []int  `json:"units"`
	// HeaderFirst (cut mode): call Header() first, ignore what it returns, then run the Scan loop
	HeaderFirst bool `json:"header_first,omitempty"`
	// Canon: also return the canonical rendering of every object (trace mode; for replays)
	Canon bool `json:"canon,omitempty"`
	// Reader: how the bytes reach the decoder (all are legal io.Readers over the same bytes):
	// 0 bytes.Reader; 1 the last bytes come together with io.EOF (iotest.DataErrReader; an HTTP body
	// of known length does that); 2 one byte per Read; 3 short chunks of varying length;
	// 4 like 3 and now and then (0, nil)
	Reader int `json:"reader,omitempty"`
	// Mode "session": for every cut c in Units one scanner on Data[:c] driven by the call script
	// Calls (0 Scan, 1 Err, 2 Header, 3 Close); the responses are returned in Resp / RespTok
	Calls []int `json:"calls,omitempty"`
	// Alloc (cut mode): also report how many MiB the Go heap handed out during the scan
	Alloc bool `json:"alloc,omitempty"`
}

// Obs is what one unit of work showed.
type Obs struct {
	Unit  int      `json:"unit"`
	Objs  []uint64 `json:"objs"` // kind + 4*hash58(canonical content), kind 1 node 2 way 3 relation
	Canon []string `json:"canon,omitempty"`
	// Err: 0 Err()==nil, 1 io.ErrUnexpectedEOF, 2 any other error.
	Err     int    `json:"err"`
	ErrText string `json:"err_text,omitempty"`
	// HeaderErr: Header() returned an error (class as Err) / HasHeader: a header was returned.
	HasHeader bool `json:"has_header,omitempty"`
	// Crash/Hang are filled by the parent.
	Crash    bool   `json:"crash,omitempty"`
	CrashMsg string `json:"crash_msg,omitempty"`
	Hang     bool   `json:"hang,omitempty"`
	// Skipped: not run, because the runner gave up after GiveUpAfter hangs (the run fails anyway)
	Skipped bool `json:"skipped,omitempty"`

	// offsets (modes stop, trace)
	FSB  []int64 `json:"fsb,omitempty"`  // trace: after every returned object; stop: [value at the stop]
	PFSB []int64 `json:"pfsb,omitempty"` // same for PreviousFullyScannedBytes
	// stop mode: the second scanners
	Resumed     []uint64 `json:"resumed,omitempty"`
	ResumedFSB  []int64  `json:"resumed_fsb,omitempty"`  // offsets the restarted scanner reports
	ResumedPFSB []int64  `json:"resumed_pfsb,omitempty"` // after each of its objects
	ResumedErr  int      `json:"resumed_err,omitempty"`
	// shared mode: a Read of the first scanner was still in progress when its Close returned
	InFlight       bool     `json:"in_flight,omitempty"`
	PrevResumed    []uint64 `json:"prev_resumed,omitempty"`
	PrevResumedErr int      `json:"prev_resumed_err,omitempty"`
	StopShort      bool     `json:"stop_short,omitempty"` // fewer than k objects could be scanned
	// session mode, one entry per call: 0 Scan returned false, 1 Scan returned true (RespTok = the
	// object), 2 Err() == nil, 3 Err() != nil, 4 Header() error == nil, 5 Header() error != nil, 6 Close() returned
	Resp    []int64  `json:"resp,omitempty"`
	RespTok []uint64 `json:"resp_tok,omitempty"`
	// cut mode: FullyScannedBytes / PreviousFullyScannedBytes read after Scan returned false
	EndFSB  int64 `json:"end_fsb,omitempty"`
	EndPFSB int64 `json:"end_pfsb,omitempty"`
	// AllocMiB: MiB allocated from the Go heap during the scan (Job.Alloc), which includes the
	// 32 MiB read buffer of every Start and the copy of whatever a C inflater produced
	AllocMiB int64 `json:"alloc_mib,omitempty"`
}

// Tok is the one-token identity of an object: its kind (2 bits) and a 58-bit hash of a canonical
// rendering of ALL its content (id, coordinates in integer nanodegrees, version, timestamp in ms,
// changeset, uid, user, visible, tags, way nodes with locations, members).  ElemTok (describe.go)
// renders the expected element of the description in the same way, so equal tokens mean equal
// objects field by field.
func Tok(o osm.Object) uint64 {
	switch v := o.(type) {
	case *osm.Node:
		return 1 + 4*hash58(CanonNode(v))
	case *osm.Way:
		return 2 + 4*hash58(CanonWay(v))
	case *osm.Relation:
		return 3 + 4*hash58(CanonRelation(v))
	}
	return 0
}

// Canon is the canonical rendering of any object.
func Canon(o osm.Object) string {
	switch v := o.(type) {
	case *osm.Node:
		return CanonNode(v)
	case *osm.Way:
		return CanonWay(v)
	case *osm.Relation:
		return CanonRelation(v)
	}
	return "?"
}

func hash58(s string) uint64 {
	h := sha256.Sum256([]byte(s))
	return binary.BigEndian.Uint64(h[:8]) >> 6
}

func nano(f float64) int64 { return int64(math.Round(f * 1e9)) }

func canonMeta(version int, ts time.Time, cs int64, uid int64, user string, visible bool) string {
	t := "-"
	if !ts.IsZero() {
		t = strconv.FormatInt(ts.UnixNano()/1000000, 10)
	}
	return fmt.Sprintf("%d|%s|%d|%d|%q|%t", version, t, cs, uid, user, visible)
}

func canonTags(ts osm.Tags) string {
	var b strings.Builder
	for _, t := range ts {
		fmt.Fprintf(&b, "%q=%q;", t.Key, t.Value)
	}
	return b.String()
}

// CanonNode / CanonWay / CanonRelation: the canonical rendering (also used in replays).
func CanonNode(n *osm.Node) string {
	return fmt.Sprintf("n|%d|%d|%d|%s|%s", int64(n.ID), nano(n.Lat), nano(n.Lon),
		canonMeta(n.Version, n.Timestamp, int64(n.ChangesetID), int64(n.UserID), n.User, n.Visible), canonTags(n.Tags))
}
func CanonWay(w *osm.Way) string {
	var b strings.Builder
	for _, n := range w.Nodes {
		fmt.Fprintf(&b, "%d:%d:%d,", int64(n.ID), nano(n.Lat), nano(n.Lon))
	}
	return fmt.Sprintf("w|%d|%s|%s|%s", int64(w.ID),
		canonMeta(w.Version, w.Timestamp, int64(w.ChangesetID), int64(w.UserID), w.User, w.Visible), canonTags(w.Tags), b.String())
}
func CanonRelation(r *osm.Relation) string {
	var b strings.Builder
	for _, m := range r.Members {
		fmt.Fprintf(&b, "%s:%d:%q,", string(m.Type), m.Ref, m.Role)
	}
	return fmt.Sprintf("r|%d|%s|%s|%s", int64(r.ID),
		canonMeta(r.Version, r.Timestamp, int64(r.ChangesetID), int64(r.UserID), r.User, r.Visible), canonTags(r.Tags), b.String())
}

func errClass(err error) int {
	switch {
	case err == nil:
		return 0
	case errors.Is(err, io.ErrUnexpectedEOF):
		return 1
	}
	return 2
}

func errText(err error) string {
	if err == nil {
		return ""
	}
	s := err.Error()
	if len(s) > 80 {
		s = s[:80]
	}
	return s
}

// oddReader serves the bytes of r in the way Job.Reader asks for
type oddReader struct {
	r    io.Reader
	kind int
	n    uint32 // call counter (drives the chunk lengths deterministically)
	buf  []byte // kind 1: one chunk read ahead, so that the last one can be returned with io.EOF
	err  error
	init bool
}

func wrapReader(r io.Reader, kind int) io.Reader {
	if kind == 0 {
		return r
	}
	return &oddReader{r: r, kind: kind}
}

func (o *oddReader) Read(p []byte) (int, error) {
	if len(p) == 0 {
		return 0, nil
	}
	o.n++
	switch o.kind {
	case 1:
		// read ahead by one chunk: when the underlying reader is exhausted the chunk in hand is the
		// last one and goes out together with io.EOF
		if !o.init {
			o.init = true
			o.buf = make([]byte, 0, 4096)
			n, err := o.r.Read(o.buf[:4096])
			o.buf, o.err = o.buf[:n], err
		}
		if len(o.buf) == 0 {
			if o.err == nil {
				o.err = io.EOF
			}
			return 0, o.err
		}
		n := copy(p, o.buf)
		o.buf = o.buf[n:]
		if len(o.buf) == 0 && o.err == nil {
			nb := make([]byte, 4096)
			m, err := o.r.Read(nb)
			o.buf, o.err = nb[:m], err
		}
		if len(o.buf) == 0 && o.err != nil {
			return n, o.err // the last bytes and the error in one call
		}
		return n, nil
	case 2:
		return o.r.Read(p[:1])
	default:
		if o.kind == 4 && o.n%5 == 3 {
			return 0, nil
		}
		k := int(o.n*2654435761>>27)%37 + 1
		if k > len(p) {
			k = len(p)
		}
		return o.r.Read(p[:k])
	}
}

func newScanner(data []byte, j *Job) *osmpbf.Scanner {
	s := osmpbf.New(context.Background(), wrapReader(bytes.NewReader(data), j.Reader), j.Procs)
	setFlags(s, j)
	return s
}

// setFlags sets the skip flags and the reject-everything filters of the job
func setFlags(s *osmpbf.Scanner, j *Job) {
	s.SkipNodes, s.SkipWays, s.SkipRelations = j.Skip[0], j.Skip[1], j.Skip[2]
	if j.Filter[0] {
		s.FilterNode = func(*osm.Node) bool { return false }
	}
	if j.Filter[1] {
		s.FilterWay = func(*osm.Way) bool { return false }
	}
	if j.Filter[2] {
		s.FilterRelation = func(*osm.Relation) bool { return false }
	}
}

func scanAll(data []byte, j *Job) ([]uint64, error, [2]int64) {
	s := newScanner(data, j)
	if j.HeaderFirst {
		s.Header() // a caller that only logs the header error and goes on to the Scan loop
	}
	var objs []uint64
	for s.Scan() {
		objs = append(objs, Tok(s.Object()))
	}
	err := s.Err()
	// the two offsets once Scan has returned false (also after a failed Scan)
	end := [2]int64{s.FullyScannedBytes(), s.PreviousFullyScannedBytes()}
	s.Close()
	return objs, err, end
}

func runUnit(j *Job, u int) Obs {
	o := Obs{Unit: u}
	switch j.Mode {
	case "cut":
		data := j.Data
		if u >= 0 && u <= len(data) {
			data = data[:u]
		}
		var m0, m1 runtime.MemStats
		if j.Alloc {
			runtime.ReadMemStats(&m0)
		}
		objs, err, end := scanAll(data, j)
		o.Objs, o.Err, o.ErrText = objs, errClass(err), errText(err)
		o.EndFSB, o.EndPFSB = end[0], end[1]
		if j.Alloc {
			runtime.ReadMemStats(&m1)
			o.AllocMiB = int64((m1.TotalAlloc - m0.TotalAlloc) >> 20)
		}
	case "session":
		data := j.Data
		if u >= 0 && u <= len(data) {
			data = data[:u]
		}
		s := newScanner(data, j)
		for _, c := range j.Calls {
			switch c {
			case 0:
				if s.Scan() {
					o.Resp, o.RespTok = append(o.Resp, 1), append(o.RespTok, Tok(s.Object()))
				} else {
					o.Resp, o.RespTok = append(o.Resp, 0), append(o.RespTok, 0)
				}
			case 1:
				if s.Err() == nil {
					o.Resp = append(o.Resp, 2)
				} else {
					o.Resp = append(o.Resp, 3)
				}
				o.RespTok = append(o.RespTok, 0)
			case 3:
				s.Close() // must return (the unit runs under the watchdog)
				o.Resp, o.RespTok = append(o.Resp, 6), append(o.RespTok, 0)
			default:
				if _, err := s.Header(); err == nil {
					o.Resp = append(o.Resp, 4)
				} else {
					o.Resp = append(o.Resp, 5)
				}
				o.RespTok = append(o.RespTok, 0)
			}
		}
		s.Close()
	case "trace":
		s := newScanner(j.Data, j)
		o.FSB = append(o.FSB, s.FullyScannedBytes())
		o.PFSB = append(o.PFSB, s.PreviousFullyScannedBytes())
		for s.Scan() {
			o.Objs = append(o.Objs, Tok(s.Object()))
			if j.Canon {
				o.Canon = append(o.Canon, Canon(s.Object()))
			}
			o.FSB = append(o.FSB, s.FullyScannedBytes())
			o.PFSB = append(o.PFSB, s.PreviousFullyScannedBytes())
		}
		err := s.Err()
		o.Err, o.ErrText = errClass(err), errText(err)
		// once more after Scan has returned false
		o.FSB = append(o.FSB, s.FullyScannedBytes())
		o.PFSB = append(o.PFSB, s.PreviousFullyScannedBytes())
		s.Close()
	case "stop":
		ctx, cancel := context.WithCancel(context.Background())
		s := osmpbf.New(ctx, wrapReader(bytes.NewReader(j.Data), j.Reader), j.Procs)
		setFlags(s, j)
		n := 0
		for n < u && s.Scan() {
			o.Objs = append(o.Objs, Tok(s.Object()))
			n++
		}
		o.StopShort = n < u
		fsb, pfsb := s.FullyScannedBytes(), s.PreviousFullyScannedBytes()
		// stop the scan (Close for even k, cancelling the context for odd k) and read the two
		// offsets once more: they are reported "at any point of a scan", also after it was stopped
		if u%2 == 0 {
			s.Close()
		} else {
			cancel()
			s.Scan()
		}
		o.FSB = []int64{fsb, s.FullyScannedBytes()}
		o.PFSB = []int64{pfsb, s.PreviousFullyScannedBytes()}
		s.Close()
		cancel()
		if fsb >= 0 && fsb <= int64(len(j.Data)) {
			// the restart: on data[fsb:] for even k, by Seek(fsb) on a reader over the whole data for
			// odd k (the reported offsets are relative to where the reader STARTED either way);
			// for k = 2,3 mod 4 the restarted scanner is asked for its Header() first
			var rd io.Reader = bytes.NewReader(j.Data[fsb:])
			if u%2 == 1 {
				br := bytes.NewReader(j.Data)
				br.Seek(fsb, io.SeekStart)
				rd = br
			}
			s2 := osmpbf.New(context.Background(), wrapReader(rd, j.Reader), j.Procs)
			setFlags(s2, j)
			if (u/2)%2 == 1 {
				s2.Header()
			}
			o.Resumed, o.ResumedFSB, o.ResumedPFSB = []uint64{}, []int64{}, []int64{}
			for s2.Scan() {
				o.Resumed = append(o.Resumed, Tok(s2.Object()))
				o.ResumedFSB = append(o.ResumedFSB, s2.FullyScannedBytes())
				o.ResumedPFSB = append(o.ResumedPFSB, s2.PreviousFullyScannedBytes())
			}
			o.ResumedErr = errClass(s2.Err())
			s2.Close()
		} else {
			o.ResumedErr = 2
		}
		if pfsb >= 0 && pfsb <= int64(len(j.Data)) {
			r, err, _ := scanAll(j.Data[pfsb:], j)
			o.PrevResumed, o.PrevResumedErr = r, errClass(err)
		} else {
			o.PrevResumedErr = 2
		}
	}
	if j.Mode == "shared" {
		// ONE ReadSeeker for the first scanner and for the restart (like an *os.File): scan k
		// objects, Close, Seek(fsb), new scanner on the same reader.  Reads are slow (2 ms) so
		// that the first scanner's read-ahead is inside a Read when Close is called; Close must
		// have waited for it.
		sr := &slowReader{r: bytes.NewReader(j.Data), delay: 2 * time.Millisecond}
		s := osmpbf.New(context.Background(), sr, j.Procs)
		setFlags(s, j)
		n := 0
		for n < u && s.Scan() {
			o.Objs = append(o.Objs, Tok(s.Object()))
			n++
		}
		o.StopShort = n < u
		fsb := s.FullyScannedBytes()
		o.FSB, o.PFSB = []int64{fsb}, []int64{s.PreviousFullyScannedBytes()}
		s.Close()
		o.InFlight = atomic.LoadInt32(&sr.inRead) != 0
		sr.mu.Lock()
		sr.delay = 0
		sr.mu.Unlock()
		if fsb >= 0 && fsb <= int64(len(j.Data)) {
			sr.Seek(fsb, io.SeekStart)
			s2 := osmpbf.New(context.Background(), sr, j.Procs)
			setFlags(s2, j)
			o.Resumed = []uint64{}
			for s2.Scan() {
				o.Resumed = append(o.Resumed, Tok(s2.Object()))
			}
			o.ResumedErr = errClass(s2.Err())
			s2.Close()
		} else {
			o.ResumedErr = 2
		}
	}
	return o
}

// slowReader: a ReadSeeker whose reads take a while once the first block has been read.
type slowReader struct {
	mu     sync.Mutex
	r      *bytes.Reader
	inRead int32
	nReads int
	delay  time.Duration
}

func (s *slowReader) Read(p []byte) (int, error) {
	atomic.AddInt32(&s.inRead, 1)
	defer atomic.AddInt32(&s.inRead, -1)
	s.mu.Lock()
	s.nReads++
	d := s.delay
	slow := s.nReads > 6 && d > 0 // the first two blocks are read at full speed
	s.mu.Unlock()
	if slow {
		time.Sleep(d)
	}
	s.mu.Lock()
	defer s.mu.Unlock()
	return s.r.Read(p)
}

func (s *slowReader) Seek(off int64, whence int) (int64, error) {
	s.mu.Lock()
	defer s.mu.Unlock()
	return s.r.Seek(off, whence)
}

// IsWorker reports whether this process was started as a scan worker.
func IsWorker() bool { return os.Getenv("PBFRUN_WORKER") == "1" }

// WorkerMain serves jobs from stdin until EOF.
func WorkerMain() {
	in := bufio.NewReaderSize(os.Stdin, 1<<20)
	out := bufio.NewWriter(os.Stdout)
	for {
		line, err := in.ReadBytes('\n')
		if len(line) > 1 {
			var j Job
			if e := json.Unmarshal(line, &j); e != nil {
				fmt.Fprintln(os.Stderr, "pbfrun worker: bad job:", e)
				os.Exit(3)
			}
			units := j.Units
			if j.Mode == "trace" {
				units = []int{0}
			}
			for _, u := range units {
				fmt.Fprintf(out, "B %d\n", u)
				out.Flush()
				o := runUnit(&j, u)
				b, _ := json.Marshal(o)
				out.WriteString("R ")
				out.Write(b)
				out.WriteString("\n")
				out.Flush()
			}
			out.WriteString("E\n")
			out.Flush()
		}
		if err != nil {
			return
		}
	}
}

// Runner owns one worker process (restarted after a crash or hang).
type Runner struct {
	cmd     *exec.Cmd
	stdin   io.WriteCloser
	lines   chan string
	stderr  *bytes.Buffer
	Timeout time.Duration // per unit of work
	Crashes int
	Hangs   int
	// OutsideScan counts worker deaths that could not be attributed to a unit of work.
	OutsideScan int
	// the worker runs with the garbage collector off (every scan allocates a 32 MiB read
	// buffer that is never touched; collecting and re-zeroing it costs ~5 ms per scan) and is
	// replaced after MaxUnits scans to bound its address space.
	MaxUnits int
	served   int
	// GiveUpAfter: once that many units have hung, the remaining units of every job are returned
	// as Skipped without being run (each hanging unit costs a watchdog timeout)
	GiveUpAfter int
	// Exe is the worker binary ("" = this executable); a second build of the same harness (e.g.
	// with CGO_ENABLED=0, so that osmpbf inflates with compress/zlib instead of czlib).
	Exe string
}

// BuildVariant builds ./cmd/<name> of the harness module once more with extra environment (e.g.
// CGO_ENABLED=0) into outdir and returns the path.  It honours the scratch go.mod the orchestrator
// writes when the check runs against a copy of the repository.
func BuildVariant(name, outdir, suffix string, env ...string) (string, error) {
	vdir := os.Getenv("VERIF_DIR")
	if vdir == "" {
		vdir = "/verif"
	}
	abs, err := filepath.Abs(outdir)
	if err != nil {
		return "", err
	}
	exe := filepath.Join(abs, "vh_"+suffix)
	args := []string{"build", "-tags", "verif"}
	for _, d := range []string{abs, filepath.Dir(abs)} {
		if _, err := os.Stat(filepath.Join(d, "go.mod")); err == nil {
			args = append(args, "-modfile="+filepath.Join(d, "go.mod"))
			break
		}
	}
	args = append(args, "-o", exe, "./cmd/"+name)
	cmd := exec.Command("go", args...)
	cmd.Dir = filepath.Join(vdir, "harness")
	cmd.Env = append(os.Environ(), env...)
	out, err := cmd.CombinedOutput()
	if err != nil {
		return "", fmt.Errorf("go %s: %v: %s", strings.Join(args, " "), err, out)
	}
	return exe, nil
}

func NewRunner() *Runner { return &Runner{Timeout: 8 * time.Second, MaxUnits: 400, GiveUpAfter: 4} }

func (r *Runner) start() error {
	exe := r.Exe
	if exe == "" {
		var err error
		exe, err = os.Executable()
		if err != nil {
			return err
		}
	}
	cmd := exec.Command(exe)
	cmd.Env = append(os.Environ(), "PBFRUN_WORKER=1", "GOTRACEBACK=single", "GOGC=off")
	r.served = 0
	stdin, err := cmd.StdinPipe()
	if err != nil {
		return err
	}
	stdout, err := cmd.StdoutPipe()
	if err != nil {
		return err
	}
	r.stderr = &bytes.Buffer{}
	cmd.Stderr = r.stderr
	if err := cmd.Start(); err != nil {
		return err
	}
	r.cmd, r.stdin = cmd, stdin
	lines := make(chan string, 64)
	r.lines = lines
	go func() {
		sc := bufio.NewScanner(stdout)
		sc.Buffer(make([]byte, 1<<20), 1<<26)
		for sc.Scan() {
			lines <- sc.Text()
		}
		close(lines)
	}()
	return nil
}

func (r *Runner) stop() {
	if r.cmd != nil {
		r.stdin.Close()
		r.cmd.Process.Kill()
		r.cmd.Wait()
		r.cmd = nil
	}
}

// after a few hangs the watchdog becomes short: the run is going to fail anyway and every
// further hanging unit would cost a full timeout
func (r *Runner) timeout() time.Duration {
	if r.Hangs >= 3 && r.Timeout > 1500*time.Millisecond {
		return 1500 * time.Millisecond
	}
	return r.Timeout
}

// GaveUp: too many hangs, nothing more is run.
func (r *Runner) GaveUp() bool { return r.GiveUpAfter > 0 && r.Hangs >= r.GiveUpAfter }

// Close ends the worker.
func (r *Runner) Close() { r.stop() }

func crashClass(stderr string) string {
	for _, l := range strings.Split(stderr, "\n") {
		if strings.HasPrefix(l, "panic:") || strings.HasPrefix(l, "fatal error:") {
			if len(l) > 120 {
				l = l[:120]
			}
			return l
		}
	}
	if len(stderr) > 120 {
		stderr = stderr[:120]
	}
	return strings.TrimSpace(stderr)
}

// Run executes the job; a crash or hang yields an Obs with Crash/Hang for the unit in
// flight and the remaining units are run in a fresh worker.
func (r *Runner) Run(j Job) ([]Obs, error) {
	units := j.Units
	if j.Mode == "trace" {
		units = []int{0}
	}
	var res []Obs
	for len(res) < len(units) {
		if r.GaveUp() {
			for _, u := range units[len(res):] {
				res = append(res, Obs{Unit: u, Skipped: true})
			}
			break
		}
		if r.cmd == nil {
			if err := r.start(); err != nil {
				return nil, err
			}
		}
		if r.served >= r.MaxUnits {
			r.stop()
			if err := r.start(); err != nil {
				return nil, err
			}
		}
		jj := j
		jj.Units = units[len(res):]
		if n := r.MaxUnits - r.served; len(jj.Units) > n {
			jj.Units = jj.Units[:n]
		}
		r.served += len(jj.Units)
		b, _ := json.Marshal(jj)
		b = append(b, '\n')
		if _, err := r.stdin.Write(b); err != nil {
			r.stop()
			return nil, fmt.Errorf("pbfrun: cannot send job: %v", err)
		}
		inflight := -1
		done := false
		for !done {
			select {
			case l, ok := <-r.lines:
				if !ok { // worker died
					r.cmd.Wait()
					msg := crashClass(r.stderr.String())
					r.cmd = nil
					if inflight < 0 {
						// not attributable to a unit of work: retry the rest of the job once in a
						// fresh worker; a crash caused by the input will then recur inside a scan
						r.OutsideScan++
						if r.OutsideScan > 3 {
							return nil, fmt.Errorf("pbfrun: worker died outside a scan: %s", msg)
						}
						done = true
						break
					}
					r.Crashes++
					res = append(res, Obs{Unit: inflight, Crash: true, CrashMsg: msg})
					done = true
					break
				}
				switch {
				case strings.HasPrefix(l, "B "):
					fmt.Sscanf(l[2:], "%d", &inflight)
				case strings.HasPrefix(l, "R "):
					var o Obs
					if err := json.Unmarshal([]byte(l[2:]), &o); err != nil {
						return nil, err
					}
					res = append(res, o)
					inflight = -1
				case l == "E":
					done = true
				}
			case <-time.After(r.timeout()):
				r.stop()
				r.Hangs++
				if inflight < 0 {
					return nil, errors.New("pbfrun: worker hangs outside a scan")
				}
				res = append(res, Obs{Unit: inflight, Hang: true})
				done = true
			}
		}
	}
	return res, nil
}
