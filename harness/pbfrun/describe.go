package pbfrun

import (
	"bytes"
	"compress/zlib"
	"encoding/binary"
	"fmt"
	"io"
	"strings"

	"verif/harness/pbfgen"
	"verif/harness/wire"
)

// FrameDesc is the Coq-side description of one frame (Framing/Model.v: frame):
// the lengths of its three segments and what an independent reader makes of each
// complete segment.
type FrameDesc struct {
	Block int `json:"block"` // -1 header

	Pfx      int64  `json:"pfx"`  // value of the 4-byte prefix
	HLen     int64  `json:"hlen"` // BlobHeader bytes in the stream
	HdrOK    bool   `json:"hdr_ok"`
	Ty       int    `json:"ty"` // 0 OSMHeader, 1 OSMData, 2 other
	TyName   string `json:"ty_name,omitempty"`
	Datasize int64  `json:"datasize"`

	BLen    int64 `json:"blen"`
	BlobOK  bool  `json:"blob_ok"`
	Enc     int   `json:"enc"` // 0 raw, 1 zlib, 2 neither
	RawSize int64 `json:"raw_size,omitempty"`
	InflOK  bool  `json:"infl_ok,omitempty"`
	InflN   int64 `json:"infl_n,omitempty"`
	// InflTrailing: number of bytes in zlib_data after the end of the zlib stream
	InflTrailing int64 `json:"infl_trailing,omitempty"`

	// payload oracle (from the description the writer was given, never from the decoder)
	PayHeader bool     `json:"pay_header,omitempty"` // the payload is a HeaderBlock
	HBOK      bool     `json:"hb_ok,omitempty"`
	Supported bool     `json:"supported,omitempty"`
	DRes      int      `json:"dres"` // data payload: 0 Ok objs, 1 Err, 2 Panic
	Objs      []uint64 `json:"objs,omitempty"`
}

func (f *FrameDesc) Size() int64 { return 4 + f.HLen + f.BLen }

var capabilities = map[string]bool{"OsmSchema-V0.6": true, "DenseNodes": true, "HistoricalInformation": true}

// CanonElem renders an expected element exactly as CanonNode/CanonWay/CanonRelation render the
// decoded object it must equal.
func CanonElem(e *pbfgen.Element) string {
	t := "-"
	if e.HasTimestamp {
		t = fmt.Sprintf("%d", e.TimestampMs)
	}
	meta := fmt.Sprintf("%d|%s|%d|%d|%q|%t", e.Version, t, e.Changeset, e.UID, e.User, e.Visible)
	var tags strings.Builder
	for _, kv := range e.Tags {
		fmt.Fprintf(&tags, "%q=%q;", kv.K, kv.V)
	}
	switch e.Kind {
	case "node":
		return fmt.Sprintf("n|%d|%d|%d|%s|%s", e.ID, e.LatNano, e.LonNano, meta, tags.String())
	case "way":
		var b strings.Builder
		for _, n := range e.Nodes {
			fmt.Fprintf(&b, "%d:%d:%d,", n.ID, n.LatNano, n.LonNano)
		}
		return fmt.Sprintf("w|%d|%s|%s|%s", e.ID, meta, tags.String(), b.String())
	}
	var b strings.Builder
	for _, m := range e.Members {
		fmt.Fprintf(&b, "%s:%d:%q,", m.Type, m.Ref, m.Role)
	}
	return fmt.Sprintf("r|%d|%s|%s|%s", e.ID, meta, tags.String(), b.String())
}

// ElemTok is the token of an expected element (same coding as Tok).
func ElemTok(e *pbfgen.Element) uint64 {
	h := hash58(CanonElem(e))
	switch e.Kind {
	case "node":
		return 1 + 4*h
	case "way":
		return 2 + 4*h
	}
	return 3 + 4*h
}

// BlockToks: expected objects of block i under the skip flags.
func BlockToks(b *pbfgen.Block, i int, skip [3]bool) []uint64 {
	out := []uint64{}
	for _, e := range pbfgen.BlockElements(b, i) {
		e := e
		if (e.Kind == "node" && skip[0]) || (e.Kind == "way" && skip[1]) || (e.Kind == "relation" && skip[2]) {
			continue
		}
		out = append(out, ElemTok(&e))
	}
	return out
}

// Renumber gives every element of the file a distinct small id (1, 2, 3, ... in file order),
// so that one token identifies an object and its position.
func Renumber(d *pbfgen.FileDesc) int {
	n := int64(0)
	for _, b := range d.Blocks {
		for _, g := range b.Groups {
			for ii := range g.Items {
				it := &g.Items[ii]
				switch {
				case it.Dense != nil:
					for k := range it.Dense.Nodes {
						n++
						it.Dense.Nodes[k].ID = n
					}
				case it.Way != nil:
					n++
					it.Way.ID = n
				case it.Relation != nil:
					n++
					it.Relation.ID = n
				}
			}
		}
	}
	return int(n)
}

// Describe reads the three segments of every frame back from the bytes with the
// independent protowire reader (and Go's own compress/zlib, whatever inflater the
// decoder under test is linked with) and attaches the payload oracle from the description.
// inBlockErr[i] = true: block i carries in-block damage, its decode outcome must be Err.
func Describe(d *pbfgen.FileDesc, data []byte, frames []pbfgen.Frame, skip [3]bool, inBlockErr map[int]bool) []FrameDesc {
	var out []FrameDesc
	for i := 0; i+2 < len(frames); i += 3 {
		fs, fh, fb := frames[i], frames[i+1], frames[i+2]
		fd := FrameDesc{Block: fs.Block, HLen: int64(fh.Len), BLen: int64(fb.Len)}
		fd.Pfx = int64(binary.BigEndian.Uint32(data[fs.Off : fs.Off+4]))
		// BlobHeader: required string type = 1; optional bytes indexdata = 2; required int32 datasize = 3
		if h, err := pbfgen.Parse(data[fh.Off:fh.Off+fh.Len], pbfgen.BlobHeaderSchema); err == nil {
			hasT, hasD := false, false
			for _, f := range h {
				switch {
				case f.Num == 1 && f.Kind == pbfgen.KBytes:
					hasT = true
					fd.TyName = string(f.Bytes)
				case f.Num == 3 && f.Kind == pbfgen.KVarint:
					hasD = true
					fd.Datasize = int64(int32(f.Var))
				}
			}
			fd.HdrOK = hasT && hasD
			switch fd.TyName {
			case "OSMHeader":
				fd.Ty = 0
			case "OSMData":
				fd.Ty = 1
			default:
				fd.Ty = 2
			}
		}
		// Blob: optional bytes raw = 1; optional int32 raw_size = 2; optional bytes zlib_data = 3
		if b, err := pbfgen.Parse(data[fb.Off:fb.Off+fb.Len], pbfgen.BlobSchema); err == nil {
			fd.BlobOK = true
			fd.Enc = 2
			var raw, z []byte
			hasRaw, hasZ := false, false
			for _, f := range b {
				switch {
				case f.Num == 1 && f.Kind == pbfgen.KBytes:
					hasRaw, raw = true, f.Bytes
				case f.Num == 2 && f.Kind == pbfgen.KVarint:
					fd.RawSize = int64(int32(f.Var))
				case f.Num == 3 && f.Kind == pbfgen.KBytes:
					hasZ, z = true, f.Bytes
				}
			}
			_ = raw
			switch {
			case hasRaw:
				fd.Enc = 0
			case hasZ:
				fd.Enc = 1
				br := bytes.NewReader(z)
				if r, err := zlib.NewReader(br); err == nil {
					if n, err := io.Copy(io.Discard, r); err == nil { // counted, not kept: may be large
						fd.InflOK, fd.InflN = true, n
						fd.InflTrailing = int64(br.Len())
					}
				}
			}
		}
		if fs.Block < 0 {
			fd.PayHeader, fd.HBOK, fd.Supported = true, true, true
			for _, s := range d.Header.Required {
				if !capabilities[s] {
					fd.Supported = false
				}
			}
		} else {
			if inBlockErr[fs.Block] {
				fd.DRes = 1
			} else {
				fd.Objs = BlockToks(d.Blocks[fs.Block], fs.Block, skip)
			}
		}
		out = append(out, fd)
	}
	return out
}

// EmitFrames writes the frame list in the layout Framing/Wire.v reads.
func EmitFrames(c *wire.Case, fds []FrameDesc) {
	c.Len(len(fds))
	for i := range fds {
		f := &fds[i]
		c.Int(f.Pfx).Int(f.HLen)
		if f.HdrOK {
			c.Int(1).Int(int64(f.Ty)).Int(f.Datasize)
		} else {
			c.Int(0)
		}
		c.Int(f.BLen)
		if !f.BlobOK {
			c.Int(0)
			continue
		}
		c.Int(1)
		switch f.Enc {
		case 0:
			c.Int(0)
		case 1:
			c.Int(1).Int(f.RawSize)
			if f.InflOK && f.InflTrailing > 0 {
				c.Int(2).Int(f.InflN)
			} else if f.InflOK {
				c.Int(1).Int(f.InflN)
			} else {
				c.Int(0)
			}
		default:
			c.Int(2)
		}
		if f.PayHeader {
			c.Int(0)
			if f.HBOK {
				c.Int(1).Bool(f.Supported)
			} else {
				c.Int(0)
			}
		} else {
			c.Int(1).Int(int64(f.DRes))
			if f.DRes == 0 {
				EmitToks(c, f.Objs)
			}
		}
	}
}

// EmitToks writes a list of object tokens.
func EmitToks(c *wire.Case, l []uint64) {
	c.Len(len(l))
	for _, t := range l {
		c.Tok(t)
	}
}

// Total is the file size the frames describe.
func Total(fds []FrameDesc) int64 {
	t := int64(0)
	for i := range fds {
		t += fds[i].Size()
	}
	return t
}
