// Package pipesup: support code shared by the C02 and C07 harnesses — file descriptions of small distinguishable
// blocks written with the shared PBF writer harness/pbfgen, an instrumented in-memory reader
// (chunking, pauses, per-block-start callback), error classification and a goroutine-leak probe.
package pipesup

import (
	"context"
	"errors"
	"io"
	"math/rand"
	"os"
	"os/exec"
	"path/filepath"
	"runtime"
	"strconv"
	"strings"
	"sync/atomic"
	"time"

	"github.com/paulmach/osm"
	"verif/harness/pbfgen"
)

// Item kinds (the model's IBlock / IBad / IRdErr).
const (
	KBlock = 0 // data block with N dense nodes
	KBad   = 1 // OSMData blob with neither raw nor zlib data: Decode fails ("unknown blob data")
	// KForeign: a fileblock whose type is neither OSMHeader nor OSMData (index / vendor block).
	// The decoder under test reports "unexpected fileblock" for it: the scan ends there with an error.
	KForeign = 2
)

// Error codes shared with Coq (Pipeline/Model.v).
const (
	ENone   = 0
	EEOF    = 1
	EClosed = 2
	ECtx    = 3
	EOther  = 10 // any other error (decode error, bad block, ...)
	ETrunc  = 11 // io.ErrUnexpectedEOF
)

func ErrCode(err error) int64 {
	switch {
	case err == nil:
		return ENone
	case err == io.EOF:
		return EEOF
	case err == osm.ErrScannerClosed:
		return EClosed
	case errors.Is(err, context.Canceled), errors.Is(err, context.DeadlineExceeded):
		return ECtx
	case err == io.ErrUnexpectedEOF:
		return ETrunc
	}
	return EOther
}

type Item struct {
	Kind int
	N    int // number of nodes (KBlock)
}

type File struct {
	Header bool
	Items  []Item
	Trunc  int // > 0: the last Trunc bytes of the file are cut off (inside the last block)
	// StartFail > 0: the FIRST file block cannot be read/understood, so decoder.Start fails:
	// 1 empty input (io.EOF), 2 input cut inside the header block (io.ErrUnexpectedEOF),
	// 3 unknown first block type, 4 header requires an unsupported feature.
	StartFail int
	// Wide: ids are b*100000 + j + 1 (blocks may hold up to 99999 objects), dense nodes only
	Wide   bool
	Bytes  []byte
	Starts []int64 // start offset of every file block (header first when present), then len(Bytes)
}

// NodeID of object j of item b (distinguishable across the file).
func NodeID(b, j int) int64 { return int64(b)*1000 + int64(j) + 1 }

// ID of object j of item b in this file.
func (f *File) ID(b, j int) int64 {
	if f.Wide {
		return int64(b)*100000 + int64(j) + 1
	}
	return NodeID(b, j)
}

// IDs the file is meant to deliver: objects of the blocks before the first bad block, in order.
func (f *File) Expected() []int64 {
	var out []int64
	for b, it := range f.Items {
		if it.Kind != KBlock || (f.Trunc > 0 && b == len(f.Items)-1) {
			break
		}
		for j := 0; j < it.N; j++ {
			out = append(out, f.ID(b, j))
		}
	}
	return out
}

// Desc builds the pbfgen description of the file: item b is one data block holding N elements
// with ids NodeID(b, j): dense nodes, and (every third block) a trailing way instead of a node.
func (f *File) Desc() *pbfgen.FileDesc {
	d := &pbfgen.FileDesc{}
	if f.Header {
		d.Header = &pbfgen.Header{Required: []string{"OsmSchema-V0.6", "DenseNodes"}, HasProgram: true, Program: "verif-pipesup"}
		switch f.StartFail {
		case 3:
			d.Header.Damage = &pbfgen.Damage{BlobType: pbfgen.Str("OSMFoo")}
		case 4:
			d.Header.Required = append(d.Header.Required, "VerifUnsupportedFeature")
		}
	}
	for b, it := range f.Items {
		blk := &pbfgen.Block{Strings: []string{""}}
		blk.Zlib = b%4 == 1
		switch it.Kind {
		case KBad:
			blk.Damage = &pbfgen.Damage{NoData: true} // neither raw nor zlib_data: "unknown blob data"
		case KForeign:
			blk.Damage = &pbfgen.Damage{BlobType: pbfgen.Str("X-SpatialIndex")}
		}
		n := it.N
		if it.Kind != KBlock {
			n = 2
		}
		nway := 0
		if b%3 == 2 && n > 0 && !f.Wide {
			nway = 1
		}
		var g pbfgen.Group
		if n-nway > 0 {
			dn := &pbfgen.Dense{}
			for j := 0; j < n-nway; j++ {
				id := f.ID(b, j)
				dn.Nodes = append(dn.Nodes, pbfgen.DenseNode{ID: id, Lat: id * 7, Lon: -id * 3, Info: pbfgen.Info{Visible: true}})
			}
			g.Items = append(g.Items, pbfgen.Item{Dense: dn})
		}
		if nway == 1 {
			id := f.ID(b, n-1)
			g.Items = append(g.Items, pbfgen.Item{Way: &pbfgen.Way{ID: id, Info: pbfgen.Info{Visible: true}, Refs: []int64{id, id + 1}}})
		}
		if len(g.Items) > 0 {
			blk.Groups = append(blk.Groups, &g)
		}
		d.Blocks = append(d.Blocks, blk)
	}
	return d
}

// ObjID is the integer by which the harness identifies a scanned object: the node id, or the
// way id (ways carry the id of their slot as well); negative when the content is not what the
// writer put there (wrong kind for the slot, wrong coordinates, wrong refs).
func ObjID(o osm.Object) int64 {
	switch v := o.(type) {
	case *osm.Node:
		id := int64(v.ID)
		wantLat := 1e-9 * float64(100*id*7)
		wantLon := 1e-9 * float64(-100*id*3)
		d1, d2 := v.Lat-wantLat, v.Lon-wantLon
		if d1 < 1e-12 && d1 > -1e-12 && d2 < 1e-12 && d2 > -1e-12 && len(v.Tags) == 0 {
			return id
		}
		return -id
	case *osm.Way:
		id := int64(v.ID)
		if len(v.Nodes) == 2 && int64(v.Nodes[0].ID) == id && int64(v.Nodes[1].ID) == id+1 && (id/1000)%3 == 2 {
			return id
		}
		return -id
	}
	return -1
}

// Build serialises the file with the shared PBF writer (harness/pbfgen).
func (f *File) Build() {
	data, frames := pbfgen.Encode(f.Desc())
	f.Starts = nil
	if f.Header {
		f.Starts = append(f.Starts, int64(pbfgen.BlockStart(frames, -1)))
	}
	for b := range f.Items {
		f.Starts = append(f.Starts, int64(pbfgen.BlockStart(frames, b)))
	}
	f.Bytes = data
	if f.Trunc > 0 {
		f.Bytes = f.Bytes[:len(f.Bytes)-f.Trunc]
	}
	switch f.StartFail {
	case 1:
		f.Bytes = nil
	case 2:
		f.Bytes = f.Bytes[:pbfgen.BlockEnd(frames, -1)-3]
	}
	f.Starts = append(f.Starts, int64(len(f.Bytes)))
}

// StartErr is the error code Start must fail with (0: it succeeds).
func (f *File) StartErr() int64 {
	switch f.StartFail {
	case 1:
		return EEOF
	case 2:
		return ETrunc
	case 3, 4:
		return EOther
	}
	return ENone
}

// Reader is an instrumented in-memory io.Reader.
type Reader struct {
	f       *File
	pos     int64
	Pulled  int64                   // bytes handed out (atomic)
	Chunk   func() int              // max bytes per Read (nil: unlimited)
	Pause   func()                  // called before every Read (nil: none)
	OnStart func(idx int, eof bool) // a Read begins at the start offset of file block idx (or at end of data)
	// StallAt >= 0: a live stream that stops delivering: the Read that would begin at this offset
	// blocks until Release is closed and then fails with io.ErrClosedPipe.
	StallAt int64
	Release chan struct{}
	Stalled int32 // set to 1 when a Read is blocked (atomic)
	starts  map[int64]int
}

func NewReader(f *File) *Reader {
	r := &Reader{f: f, starts: map[int64]int{}, StallAt: -1}
	for i, s := range f.Starts {
		if _, ok := r.starts[s]; !ok {
			r.starts[s] = i
		}
	}
	return r
}

func (r *Reader) Read(p []byte) (int, error) {
	if r.Pause != nil {
		r.Pause()
	}
	if len(p) == 0 {
		return 0, nil
	}
	if idx, ok := r.starts[r.pos]; ok && r.OnStart != nil {
		r.OnStart(idx, r.pos >= int64(len(r.f.Bytes)))
	}
	if r.StallAt >= 0 && r.pos >= r.StallAt {
		atomic.StoreInt32(&r.Stalled, 1)
		<-r.Release
		return 0, io.ErrClosedPipe
	}
	if r.pos >= int64(len(r.f.Bytes)) {
		return 0, io.EOF
	}
	n := len(p)
	if r.StallAt >= 0 && int64(n) > r.StallAt-r.pos {
		n = int(r.StallAt - r.pos)
	}
	if r.Chunk != nil {
		if c := r.Chunk(); c < n {
			n = c
		}
	}
	if n < 1 {
		n = 1
	}
	if rem := int64(len(r.f.Bytes)) - r.pos; int64(n) > rem {
		n = int(rem)
	}
	copy(p, r.f.Bytes[r.pos:r.pos+int64(n)])
	r.pos += int64(n)
	atomic.AddInt64(&r.Pulled, int64(n))
	return n, nil
}

// PipelineGoroutines counts goroutines that have an osmpbf decoder frame on their stack.
func PipelineGoroutines() int {
	buf := make([]byte, 1<<20)
	for {
		n := runtime.Stack(buf, true)
		if n < len(buf) {
			buf = buf[:n]
			break
		}
		buf = make([]byte, 2*len(buf))
	}
	cnt := 0
	for _, g := range strings.Split(string(buf), "\n\n") {
		// any goroutine running code of, or created by, the scanner packages: the pipeline
		// goroutines of decoder.Start, and anything a constructor or helper may have started
		if strings.Contains(g, "paulmach/osm/osmpbf.") || strings.Contains(g, "paulmach/osm/osmxml.") {
			cnt++
		}
	}
	return cnt
}

// WaitNoPipeline polls until no pipeline goroutine is left or the grace period is over.
func WaitNoPipeline(grace time.Duration) int {
	deadline := time.Now().Add(grace)
	for {
		c := PipelineGoroutines()
		if c == 0 || time.Now().After(deadline) {
			return c
		}
		time.Sleep(200 * time.Microsecond)
	}
}

// Jitter returns a deterministic pseudo-random small delay function (seeded), safe for concurrent use.
func Jitter(seed int64, maxMicros int) func(key int64) {
	return func(key int64) {
		h := uint64(seed)*0x9E3779B97F4A7C15 ^ uint64(key)*0xBF58476D1CE4E5B9
		h ^= h >> 29
		h *= 0x94D049BB133111EB
		h ^= h >> 32
		switch h % 4 {
		case 0:
		case 1:
			runtime.Gosched()
		default:
			time.Sleep(time.Duration(h>>8%uint64(maxMicros+1)) * time.Microsecond)
		}
	}
}

// GenFile draws a file with at least minBlocks items.
func GenFile(rng *rand.Rand, minBlocks int, allowBad bool) *File {
	f := &File{Header: rng.Intn(8) != 0}
	nb := minBlocks + rng.Intn(minBlocks/2+3)
	for b := 0; b < nb; b++ {
		n := rng.Intn(4)
		if rng.Intn(6) == 0 {
			n = 0
		}
		f.Items = append(f.Items, Item{Kind: KBlock, N: n})
	}
	if !f.Header && len(f.Items) > 0 && f.Items[0].N == 0 {
		f.Items[0].N = 1
	}
	if allowBad && len(f.Items) >= 2 { // the first block stays readable: in resume mode it is read by Start
		switch rng.Intn(6) {
		case 0: // a bad block somewhere after the first
			i := 1 + rng.Intn(len(f.Items)-1)
			f.Items[i] = Item{Kind: KBad}
		case 1: // the last block is cut off
			f.Trunc = 1 + rng.Intn(3)
			if f.Items[len(f.Items)-1].Kind == KBlock && f.Items[len(f.Items)-1].N == 0 {
				f.Items[len(f.Items)-1].N = 2
			}
		}
	}
	f.Build()
	return f
}

// RaceRun (thorough tier): builds the calling harness command with the race detector and runs it
// once as a child on a scratch directory; returns "" when no race was reported, else the first
// report (or the build/run failure). The child must not call RaceRun again (VERIF_RACE_CHILD=1).
func RaceRun(cmdName, outDir string, seed int64) string {
	if os.Getenv("VERIF_RACE_CHILD") != "" {
		return ""
	}
	vdir := os.Getenv("VERIF_DIR")
	if vdir == "" {
		vdir = "/verif"
	}
	exe := filepath.Join(outDir, "vh_race")
	args := []string{"build", "-race", "-tags", "verif"}
	if _, err := os.Stat(filepath.Join(outDir, "go.mod")); err == nil {
		args = append(args, "-modfile="+filepath.Join(outDir, "go.mod"))
	}
	args = append(args, "-o", exe, "./cmd/"+cmdName)
	b := exec.Command("go", args...)
	b.Dir = filepath.Join(vdir, "harness")
	if out, err := b.CombinedOutput(); err != nil {
		return "race build failed: " + string(out)
	}
	child := filepath.Join(outDir, "race_child")
	os.MkdirAll(child, 0o755)
	c := exec.Command(exe, child, "--tier", "quick", "--seed", strconv.FormatInt(seed, 10))
	c.Env = append(os.Environ(), "VERIF_RACE_CHILD=1", "GORACE=halt_on_error=0")
	c.Dir = child
	out, err := c.CombinedOutput()
	os.RemoveAll(child)
	os.Remove(exe)
	if i := strings.Index(string(out), "WARNING: DATA RACE"); i >= 0 {
		rep := string(out)[i:]
		if len(rep) > 3000 {
			rep = rep[:3000]
		}
		return rep
	}
	if err != nil {
		return "race child failed: " + err.Error() + ": " + string(out[:min(len(out), 1500)])
	}
	return ""
}

func min(a, b int) int {
	if a < b {
		return a
	}
	return b
}
