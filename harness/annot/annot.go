// Package annot: edit-history generator, wire encoders and implementation driver shared by the
// C12 and C11 harnesses (annotate.Ways / annotate.Relations through the public API only).
package annot

import (
	"context"
	"encoding/json"
	"errors"
	"fmt"
	"math/rand"
	"sort"
	"time"

	"github.com/paulmach/orb"
	"github.com/paulmach/osm"
	"github.com/paulmach/osm/annotate"
	"github.com/paulmach/osm/annotate/shared"
	"verif/harness/wire"
)

// ---------------------------------------------------------------------------
// input description (what the Coq model receives)

type Hver struct {
	Version   int
	Changeset int64
	Timestamp time.Time
	Committed *time.Time
	Lat, Lon  float64
	Visible   bool
	Flip      bool // way children: node order reversed
	Reverse   bool // computed: annotate.IsReverse(this, previous in version order)
}

type Hist struct {
	FID      osm.FeatureID
	Kind     int    // 0 found, 1 not found, 2 other error
	Versions []Hver // in the order the datasource returns them
}

type Ref struct {
	FID       osm.FeatureID
	Version   int
	Changeset int64
	Lat, Lon  float64
	Orient    int
}

type Parent struct {
	Changeset int64
	Visible   bool
	Timestamp time.Time
	Committed *time.Time
	Refs      []Ref
}

type Input struct {
	IsRel         bool
	Threshold     time.Duration
	IgnoreIncons  bool
	IgnoreMissing bool
	HasFilter     bool
	Filter        []osm.FeatureID
	Parents       []Parent
	Hists         []Hist
	Regime        string
	// AsChildren: the datasource also implements the *AsChildren interfaces (the wrapper then takes
	// the child lists as given: sorted by version, VersionIndex and ReverseOfPrevious filled in)
	AsChildren bool
	// Slow: found histories take a few milliseconds and honour the context (return ctx.Err() when it
	// is cancelled); missing ones answer at once.  Not part of the model input.
	Slow bool
}

func tns(t time.Time) int64 { return t.UnixNano() }

func optTime(c *wire.Case, t *time.Time) {
	if t == nil {
		c.Bool(false)
	} else {
		c.Bool(true).Int(tns(*t))
	}
}

// Encode appends the annotation input (layout: coq/theories/Annotate/Case.v).
func (in *Input) Encode(c *wire.Case) {
	c.Int(tns(osm.CommitInfoStart)).Bool(in.IsRel)
	c.Int(int64(in.Threshold)).Bool(in.IgnoreIncons).Bool(in.IgnoreMissing)
	c.Bool(in.HasFilter)
	if in.HasFilter {
		c.Len(len(in.Filter))
		for _, f := range in.Filter {
			c.Int(int64(f))
		}
	}
	c.Len(len(in.Parents))
	for _, p := range in.Parents {
		c.Int(p.Changeset).Bool(p.Visible).Int(tns(p.Timestamp))
		optTime(c, p.Committed)
		c.Len(len(p.Refs))
		for _, r := range p.Refs {
			encRef(c, r)
		}
	}
	c.Len(len(in.Hists))
	for _, h := range in.Hists {
		c.Int(int64(h.FID)).Int(int64(h.Kind)).Len(len(h.Versions))
		for _, v := range h.Versions {
			c.Int(int64(v.Version)).Int(v.Changeset).Int(tns(v.Timestamp))
			optTime(c, v.Committed)
			c.Int(int64(v.Lat)).Int(int64(v.Lon)).Bool(v.Reverse).Bool(v.Visible)
		}
	}
}

func encRef(c *wire.Case, r Ref) {
	c.Int(int64(r.FID)).Int(int64(r.Version)).Int(r.Changeset).Int(int64(r.Lat)).Int(int64(r.Lon)).Int(int64(r.Orient))
}

// ---------------------------------------------------------------------------
// building real osm objects (always fresh: every run gets deep copies and new maps)

func orbOrient(o int) orb.Orientation { return orb.Orientation(o) }

func cp(t *time.Time) *time.Time {
	if t == nil {
		return nil
	}
	x := *t
	return &x
}

func wayNodes(fid osm.FeatureID, flip bool) osm.WayNodes {
	a, b := osm.NodeID(fid.Ref()*10+1), osm.NodeID(fid.Ref()*10+2)
	if flip {
		return osm.WayNodes{{ID: b}, {ID: a}}
	}
	return osm.WayNodes{{ID: a}, {ID: b}}
}

// ComputeReverse fills Hver.Reverse with what the implementation derives for way children
// (annotate.IsReverse against the previous version in version order); geometry is outside
// the annotation properties, so this is an input of the model.
func (in *Input) ComputeReverse() {
	for hi := range in.Hists {
		h := &in.Hists[hi]
		if h.FID.Type() != osm.TypeWay {
			continue
		}
		idx := make([]int, len(h.Versions))
		for i := range idx {
			idx[i] = i
		}
		sort.SliceStable(idx, func(a, b int) bool { return h.Versions[idx[a]].Version < h.Versions[idx[b]].Version })
		for k := 1; k < len(idx); k++ {
			cur, prev := h.Versions[idx[k]], h.Versions[idx[k-1]]
			w1 := &osm.Way{ID: osm.WayID(h.FID.Ref()), Nodes: wayNodes(h.FID, cur.Flip)}
			w2 := &osm.Way{ID: osm.WayID(h.FID.Ref()), Nodes: wayNodes(h.FID, prev.Flip)}
			h.Versions[idx[k]].Reverse = annotate.IsReverse(w1, w2)
		}
	}
}

var errOther = errors.New("verif: datasource failure")
var errMissing = errors.New("verif: not found")

type ds struct {
	in  *Input
	m   map[osm.FeatureID]*Hist
	ctx context.Context // the context of the lookup in progress (Slow datasources only)
}

func newDS(in *Input) *ds {
	d := &ds{in: in, m: map[osm.FeatureID]*Hist{}}
	for i := range in.Hists {
		d.m[in.Hists[i].FID] = &in.Hists[i]
	}
	return d
}

func (d *ds) get(f osm.FeatureID) (*Hist, error) {
	h := d.m[f]
	if d.in.Slow && h != nil && h.Kind == 0 && d.ctx != nil {
		select {
		case <-time.After(15 * time.Millisecond):
		case <-d.ctx.Done():
			return nil, d.ctx.Err()
		}
	}
	if h == nil || h.Kind == 1 {
		return nil, errMissing
	}
	if h.Kind == 2 {
		return nil, errOther
	}
	return h, nil
}

func (d *ds) NotFound(err error) bool { return err == errMissing }

func (d *ds) NodeHistory(ctx context.Context, id osm.NodeID) (osm.Nodes, error) {
	d2 := *d
	d2.ctx = ctx
	h, err := d2.get(id.FeatureID())
	if err != nil {
		return nil, err
	}
	ns := osm.Nodes{} // empty, not nil, when there is no version
	if id%2 == 1 {
		ns = nil
	}
	for _, v := range h.Versions {
		ns = append(ns, &osm.Node{ID: id, Version: v.Version, ChangesetID: osm.ChangesetID(v.Changeset),
			Timestamp: v.Timestamp, Committed: cp(v.Committed), Lat: v.Lat, Lon: v.Lon, Visible: v.Visible})
	}
	return ns, nil
}

func (d *ds) WayHistory(ctx context.Context, id osm.WayID) (osm.Ways, error) {
	d2 := *d
	d2.ctx = ctx
	h, err := d2.get(id.FeatureID())
	if err != nil {
		return nil, err
	}
	var ws osm.Ways
	for _, v := range h.Versions {
		ws = append(ws, &osm.Way{ID: id, Version: v.Version, ChangesetID: osm.ChangesetID(v.Changeset),
			Timestamp: v.Timestamp, Committed: cp(v.Committed), Visible: v.Visible, Nodes: wayNodes(h.FID, v.Flip)})
	}
	return ws, nil
}

func (d *ds) RelationHistory(ctx context.Context, id osm.RelationID) (osm.Relations, error) {
	d2 := *d
	d2.ctx = ctx
	h, err := d2.get(id.FeatureID())
	if err != nil {
		return nil, err
	}
	var rs osm.Relations
	for _, v := range h.Versions {
		rs = append(rs, &osm.Relation{ID: id, Version: v.Version, ChangesetID: osm.ChangesetID(v.Changeset),
			Timestamp: v.Timestamp, Committed: cp(v.Committed), Visible: v.Visible})
	}
	return rs, nil
}

// dsChildren additionally implements annotate.NodeHistoryAsChildrenDatasourcer and
// annotate.HistoryAsChildrenDatasourcer.
type dsChildren struct{ *ds }

func (d dsChildren) children(f osm.FeatureID) ([]*shared.Child, error) {
	h, err := d.get(f)
	if err != nil {
		return nil, err
	}
	vs := append([]Hver(nil), h.Versions...)
	sort.SliceStable(vs, func(a, b int) bool { return vs[a].Version < vs[b].Version })
	l := make([]*shared.Child, 0, len(vs)) // an empty history is an empty NON-NIL list (rows of a query)
	for i, v := range vs {
		c := &shared.Child{ID: f, Version: v.Version, ChangesetID: osm.ChangesetID(v.Changeset), VersionIndex: i,
			Timestamp: v.Timestamp, Lat: v.Lat, Lon: v.Lon, ReverseOfPrevious: v.Reverse, Visible: v.Visible}
		if v.Committed != nil {
			c.Committed = *v.Committed
		}
		l = append(l, c)
	}
	return l, nil
}

func (d dsChildren) NodeHistoryAsChildren(ctx context.Context, id osm.NodeID) ([]*shared.Child, error) {
	return d.children(id.FeatureID())
}
func (d dsChildren) WayHistoryAsChildren(ctx context.Context, id osm.WayID) ([]*shared.Child, error) {
	return d.children(id.FeatureID())
}
func (d dsChildren) RelationHistoryAsChildren(ctx context.Context, id osm.RelationID) ([]*shared.Child, error) {
	return d.children(id.FeatureID())
}

// Built holds the freshly built parents of one run.
type Built struct {
	Ways      osm.Ways
	Relations osm.Relations
}

func (in *Input) Build() *Built {
	b := &Built{}
	for i, p := range in.Parents {
		if !in.IsRel {
			w := &osm.Way{ID: 7, Version: i + 1, ChangesetID: osm.ChangesetID(p.Changeset), Visible: p.Visible,
				Timestamp: p.Timestamp, Committed: cp(p.Committed)}
			for _, r := range p.Refs {
				w.Nodes = append(w.Nodes, osm.WayNode{ID: osm.NodeID(r.FID.Ref()), Version: r.Version,
					ChangesetID: osm.ChangesetID(r.Changeset), Lat: r.Lat, Lon: r.Lon})
			}
			b.Ways = append(b.Ways, w)
		} else {
			rel := &osm.Relation{ID: 7, Version: i + 1, ChangesetID: osm.ChangesetID(p.Changeset), Visible: p.Visible,
				Timestamp: p.Timestamp, Committed: cp(p.Committed)}
			for _, r := range p.Refs {
				rel.Members = append(rel.Members, osm.Member{Type: r.FID.Type(), Ref: r.FID.Ref(), Role: "x", Version: r.Version,
					ChangesetID: osm.ChangesetID(r.Changeset), Lat: r.Lat, Lon: r.Lon, Orientation: orbOrient(r.Orient)})
			}
			b.Relations = append(b.Relations, rel)
		}
	}
	return b
}

// Outcome is the projected observable result of one annotation run.
type Outcome struct {
	Status  int // 0 ok, 1 NoHistoryError, 2 NoVisibleChildError, 3 other error, 4 panic
	FID     osm.FeatureID
	ErrText string
	Refs    [][]Ref
	Updates []osm.Updates
	Built   *Built
}

func (in *Input) options() []annotate.Option {
	// only what differs from the documented defaults is passed (30 minutes, nothing ignored), so
	// that state leaking from one call into the next is not masked
	var opts []annotate.Option
	if in.Threshold != 30*time.Minute {
		opts = append(opts, annotate.Threshold(in.Threshold))
	}
	if in.IgnoreIncons {
		opts = append(opts, annotate.IgnoreInconsistency(true))
	}
	if in.IgnoreMissing {
		opts = append(opts, annotate.IgnoreMissingChildren(true))
	}
	if in.HasFilter {
		acc := map[osm.FeatureID]bool{}
		for _, f := range in.Filter {
			acc[f] = true
		}
		opts = append(opts, annotate.ChildFilter(func(f osm.FeatureID) bool { return acc[f] }))
	}
	return opts
}

// Run annotates a fresh deep copy of the input with the real implementation.
func (in *Input) Run() (out *Outcome) {
	return in.RunOn(in.Build())
}

// RunOn annotates already built (possibly already annotated) parents with this input's
// datasource and options.
func (in *Input) RunOn(b *Built) (out *Outcome) {
	out = &Outcome{Built: b}
	defer func() {
		if r := recover(); r != nil {
			out.Status, out.ErrText = 4, fmt.Sprint("panic: ", r)
		}
	}()
	var err error
	switch {
	case in.IsRel && in.AsChildren:
		err = annotate.Relations(context.Background(), b.Relations, dsChildren{newDS(in)}, in.options()...)
	case in.IsRel:
		err = annotate.Relations(context.Background(), b.Relations, newDS(in), in.options()...)
	case in.AsChildren:
		err = annotate.Ways(context.Background(), b.Ways, dsChildren{newDS(in)}, in.options()...)
	default:
		err = annotate.Ways(context.Background(), b.Ways, newDS(in), in.options()...)
	}
	if err != nil {
		out.ErrText = err.Error()
		switch e := err.(type) {
		case *annotate.NoHistoryError:
			out.Status, out.FID = 1, e.ID
		case *annotate.NoVisibleChildError:
			out.Status, out.FID = 2, e.ID
		default:
			out.Status = 3
		}
		return out
	}
	out.Refs, out.Updates = b.Observe()
	return out
}

// TwoStep models incremental use: the parents are annotated in full against the histories without
// the newest version of the children in [batch]; then the same, already annotated objects
// (Updates non-empty) are re-annotated against the full histories with ChildFilter = batch.
// It returns the input of the second call (references as the first call left them) and its outcome;
// nil when the first call fails.
func (in *Input) TwoStep(batch []osm.FeatureID) (*Input, *Outcome) {
	inBatch := map[osm.FeatureID]bool{}
	for _, f := range batch {
		inBatch[f] = true
	}
	first := *in
	first.HasFilter, first.Filter = false, nil
	first.Hists = nil
	for _, h := range in.Hists {
		h2 := h
		if inBatch[h.FID] && len(h.Versions) >= 2 {
			// drop the newest version (highest version number)
			mi := 0
			for i, v := range h.Versions {
				if v.Version > h.Versions[mi].Version {
					mi = i
				}
			}
			h2.Versions = append(append([]Hver(nil), h.Versions[:mi]...), h.Versions[mi+1:]...)
		}
		first.Hists = append(first.Hists, h2)
	}
	first.ComputeReverse()
	b := first.Build()
	o1 := first.RunOn(b)
	if o1.Status != 0 {
		return nil, nil
	}
	second := *in
	second.HasFilter, second.Filter = true, batch
	second.Parents = nil
	for pi, p := range in.Parents {
		p2 := p
		p2.Refs = append([]Ref(nil), o1.Refs[pi]...)
		second.Parents = append(second.Parents, p2)
	}
	return &second, second.RunOn(b)
}

// PrefixStep models a late-arriving parent version: the first k parent versions are annotated
// alone; then ALL versions are annotated together, the first k being the same, already annotated
// objects (Updates non-empty).  It returns the input of the second call (references of the first k
// parents as the first call left them) and its outcome; nil when the first call fails.
func (in *Input) PrefixStep(k int) (*Input, *Outcome) {
	first := *in
	first.Parents = in.Parents[:k]
	b1 := first.Build()
	o1 := first.RunOn(b1)
	if o1.Status != 0 {
		return nil, nil
	}
	second := *in
	second.Parents = nil
	for pi, p := range in.Parents {
		p2 := p
		if pi < k {
			p2.Refs = append([]Ref(nil), o1.Refs[pi]...)
		}
		second.Parents = append(second.Parents, p2)
	}
	b2 := in.Build()
	if in.IsRel {
		copy(b2.Relations[:k], b1.Relations)
	} else {
		copy(b2.Ways[:k], b1.Ways)
	}
	return &second, second.RunOn(b2)
}

// Zones: different *time.Location values, so that equal instants get different representations.
var Zones = []*time.Location{time.UTC, time.FixedZone("plus1", 3600), time.FixedZone("minus5", -5 * 3600), time.FixedZone("utc2", 0)}

// Rezone returns the same instant represented in another location.
func Rezone(rng *rand.Rand, t time.Time) time.Time { return t.In(Zones[rng.Intn(len(Zones))]) }

// Observe projects the annotated state of freshly built parents.
func (b *Built) Observe() ([][]Ref, []osm.Updates) {
	var refs [][]Ref
	var ups []osm.Updates
	for _, w := range b.Ways {
		var l []Ref
		for _, n := range w.Nodes {
			l = append(l, Ref{FID: n.FeatureID(), Version: n.Version, Changeset: int64(n.ChangesetID), Lat: n.Lat, Lon: n.Lon})
		}
		refs = append(refs, l)
		ups = append(ups, w.Updates)
	}
	for _, r := range b.Relations {
		var l []Ref
		for _, m := range r.Members {
			l = append(l, Ref{FID: m.FeatureID(), Version: m.Version, Changeset: int64(m.ChangesetID), Lat: m.Lat, Lon: m.Lon, Orient: int(m.Orientation)})
		}
		refs = append(refs, l)
		ups = append(ups, r.Updates)
	}
	return refs, ups
}

func EncUpdate(c *wire.Case, u osm.Update) {
	c.Int(int64(u.Index)).Int(int64(u.Version)).Int(tns(u.Timestamp)).Int(int64(u.ChangesetID)).Int(int64(u.Lat)).Int(int64(u.Lon)).Bool(u.Reverse)
}

// Encode appends the outcome (layout: Annotate/Case.v).
func (o *Outcome) Encode(c *wire.Case) {
	c.Int(int64(o.Status)).Int(int64(o.FID))
	if o.Status != 0 {
		return
	}
	c.Len(len(o.Refs))
	for _, l := range o.Refs {
		c.Len(len(l))
		for _, r := range l {
			encRef(c, r)
		}
	}
	c.Len(len(o.Updates))
	for _, us := range o.Updates {
		c.Len(len(us))
		for _, u := range us {
			EncUpdate(c, u)
		}
	}
}

// Key is the byte-for-byte serialisation used to compare runs.
func (o *Outcome) Key() string {
	if o.Status != 0 {
		return fmt.Sprintf("error status=%d fid=%d", o.Status, int64(o.FID))
	}
	var b []byte
	if o.Built.Ways != nil {
		b, _ = json.Marshal(o.Built.Ways)
	} else {
		b, _ = json.Marshal(o.Built.Relations)
	}
	return string(b)
}

// Desc gives a readable form of the outcome for replays.
func (o *Outcome) Desc() interface{} {
	if o.Status != 0 {
		return map[string]interface{}{"status": o.Status, "error": o.ErrText}
	}
	var ps []interface{}
	for i := range o.Refs {
		var rs []string
		for _, r := range o.Refs[i] {
			rs = append(rs, fmt.Sprintf("%v:v%d cs%d (%v,%v) o%d", r.FID, r.Version, r.Changeset, r.Lat, r.Lon, r.Orient))
		}
		var us []string
		for _, u := range o.Updates[i] {
			us = append(us, fmt.Sprintf("i%d v%d %s cs%d (%v,%v) rev=%v", u.Index, u.Version, u.Timestamp.UTC().Format(time.RFC3339Nano), u.ChangesetID, u.Lat, u.Lon, u.Reverse))
		}
		ps = append(ps, map[string]interface{}{"refs": rs, "updates": us})
	}
	return map[string]interface{}{"status": 0, "parents": ps}
}

// Desc gives a readable form of the input for replays.
func (in *Input) Desc() interface{} {
	ft := func(t time.Time) string { return t.UTC().Format(time.RFC3339Nano) }
	fo := func(t *time.Time) string {
		if t == nil {
			return "nil"
		}
		return ft(*t)
	}
	var ps []interface{}
	for i, p := range in.Parents {
		var rs []string
		for _, r := range p.Refs {
			s := r.FID.String()
			if r.Version != 0 {
				s += fmt.Sprintf(":v%d", r.Version)
			}
			rs = append(rs, s)
		}
		ps = append(ps, map[string]interface{}{"version": i + 1, "changeset": p.Changeset, "visible": p.Visible, "timestamp": ft(p.Timestamp), "committed": fo(p.Committed), "refs": rs})
	}
	var hs []interface{}
	for _, h := range in.Hists {
		var vs []string
		for _, v := range h.Versions {
			vs = append(vs, fmt.Sprintf("v%d cs%d ts=%s com=%s vis=%v (%v,%v) flip=%v", v.Version, v.Changeset, ft(v.Timestamp), fo(v.Committed), v.Visible, v.Lat, v.Lon, v.Flip))
		}
		hs = append(hs, map[string]interface{}{"id": h.FID.String(), "kind": []string{"found", "notfound", "error"}[h.Kind], "versions": vs})
	}
	var fl []string
	for _, f := range in.Filter {
		fl = append(fl, f.String())
	}
	return map[string]interface{}{"api": map[bool]string{false: "annotate.Ways", true: "annotate.Relations"}[in.IsRel],
		"threshold": in.Threshold.String(), "ignore_inconsistency": in.IgnoreIncons, "ignore_missing": in.IgnoreMissing,
		"has_filter": in.HasFilter, "filter": fl, "regime": in.Regime, "as_children_datasource": in.AsChildren, "parents": ps, "histories": hs}
}

// ---------------------------------------------------------------------------
// generator

type GenOpts struct {
	Ties        bool // favour equal one-second stamps and many updates per parent (C12)
	MaxChildren int
	MaxVersions int
	Clean       bool // consistent histories only, no ignore options (success expected)
}

type childState struct {
	fid     osm.FeatureID
	vers    []Hver
	visible bool
	exists  bool
}

var Thresholds = []time.Duration{0, time.Second, 30 * time.Minute, 10000 * time.Hour}

// Generate builds one random edit history.
func Generate(rng *rand.Rand, g GenOpts) *Input {
	in := &Input{}
	in.IsRel = rng.Intn(3) == 0
	in.Threshold = Thresholds[rng.Intn(len(Thresholds))]
	if rng.Intn(6) == 0 {
		in.Threshold = time.Duration(rng.Intn(7200)) * time.Second
	}
	regimes := []string{"commit", "commit", "old", "old", "nocommit", "mixed", "oldcommit"}
	in.Regime = regimes[rng.Intn(len(regimes))]
	if !g.Clean {
		in.IgnoreIncons = rng.Intn(4) == 0
		in.IgnoreMissing = rng.Intn(4) == 0
	}

	nch := 1 + rng.Intn(g.MaxChildren)
	bigVersions := rng.Intn(8) == 0
	var chs []*childState
	for i := 0; i < nch; i++ {
		var fid osm.FeatureID
		if in.IsRel {
			switch rng.Intn(3) {
			case 0:
				fid = osm.NodeID(100 + i).FeatureID()
			case 1:
				fid = osm.WayID(100 + i).FeatureID()
			default:
				fid = osm.RelationID(100 + i).FeatureID()
			}
		} else {
			fid = osm.NodeID(100 + i).FeatureID()
		}
		chs = append(chs, &childState{fid: fid})
	}

	// time line
	var now time.Time
	switch in.Regime {
	case "commit", "nocommit":
		now = osm.CommitInfoStart.Add(time.Duration(1+rng.Intn(1000)) * 24 * time.Hour)
	case "old", "oldcommit":
		now = osm.CommitInfoStart.Add(-time.Duration(400+rng.Intn(1000)) * 24 * time.Hour)
	default: // mixed: the history straddles CommitInfoStart
		now = osm.CommitInfoStart.Add(-time.Duration(1+rng.Intn(20)) * time.Hour)
	}
	gaps := []time.Duration{0, 0, time.Second, time.Second, 7 * time.Second, 20 * time.Minute, 3 * time.Hour, 48 * time.Hour}
	if g.Ties {
		gaps = []time.Duration{0, 0, 0, 0, time.Second, time.Second, 20 * time.Minute, 3 * time.Hour}
	}
	nparents := 1 + rng.Intn(5)
	if g.Ties {
		nparents = 1 + rng.Intn(3)
	}
	nev := nparents + nch + rng.Intn(nch*g.MaxVersions+1)
	cs := int64(1000)
	newCS := func() int64 { cs++; return cs }
	lastParentCS, lastChildCS := int64(0), int64(0)
	stamp := func() (time.Time, *time.Time) {
		// element stamps for the current instant, per regime
		old := now.Before(osm.CommitInfoStart)
		switch {
		case in.Regime == "oldcommit":
			// data from before CommitInfoStart whose committed attribute IS populated (= timestamp)
			c := Rezone(rng, now)
			return Rezone(rng, now), &c
		case in.Regime == "nocommit" || old:
			return Rezone(rng, now), nil
		default:
			ts := now.Add(-time.Duration(rng.Intn(3)) * time.Second)
			if ts.Before(osm.CommitInfoStart) {
				ts = now
			}
			c := Rezone(rng, now)
			return Rezone(rng, ts), &c
		}
	}
	childEdit := func(c *childState) {
		ts, com := stamp()
		v := Hver{Timestamp: ts, Committed: com, Lat: float64(rng.Intn(180) - 90), Lon: float64(rng.Intn(360) - 180), Visible: true}
		// coordinates exactly on the equator / the prime meridian / at (0,0) are ordinary values
		// (derived from the drawn values: the random stream is the same as before)
		if int(v.Lat)%5 == 0 {
			v.Lat = 0
		}
		if int(v.Lon)%5 == 0 {
			v.Lon = 0
		}
		if len(c.vers) == 0 {
			v.Version = 1 + rng.Intn(2)
			if bigVersions {
				v.Version = 65533 + rng.Intn(3) // the history crosses 65535 -> 65536 (16-bit packed ids)
			}
		} else {
			v.Version = c.vers[len(c.vers)-1].Version + 1 + rng.Intn(5)/4
			v.Flip = c.vers[len(c.vers)-1].Flip != (rng.Intn(3) == 0)
			if c.visible {
				if !g.Clean && rng.Intn(7) == 0 {
					v.Visible = false
				}
			} else if rng.Intn(2) == 0 {
				v.Visible = false
			}
		}
		if c.fid.Type() != osm.TypeNode {
			v.Lat, v.Lon = 0, 0
		}
		switch rng.Intn(4) {
		case 0:
			if lastParentCS != 0 {
				v.Changeset = lastParentCS
			} else {
				v.Changeset = newCS()
			}
		case 1:
			if lastChildCS != 0 {
				v.Changeset = lastChildCS
			} else {
				v.Changeset = newCS()
			}
		default:
			v.Changeset = newCS()
		}
		lastChildCS = v.Changeset
		c.vers = append(c.vers, v)
		c.visible, c.exists = v.Visible, true
	}
	parentEdit := func() {
		ts, com := stamp()
		p := Parent{Timestamp: ts, Committed: com, Visible: true}
		if len(in.Parents) > 0 && rng.Intn(10) == 0 {
			p.Visible = false
		}
		if rng.Intn(3) == 0 && lastChildCS != 0 {
			p.Changeset = lastChildCS
		} else {
			p.Changeset = newCS()
		}
		lastParentCS = p.Changeset
		if p.Visible || rng.Intn(2) == 0 {
			n := 1 + rng.Intn(nch+1)
			for k := 0; k < n; k++ {
				c := chs[rng.Intn(nch)]
				if (!c.exists || !c.visible) && (g.Clean || rng.Intn(8) != 0) {
					// prefer consistent references
					var ok []*childState
					for _, x := range chs {
						if x.exists && x.visible {
							ok = append(ok, x)
						}
					}
					if len(ok) == 0 {
						continue
					}
					c = ok[rng.Intn(len(ok))]
				}
				r := Ref{FID: c.fid}
				if in.IsRel {
					r.Orient = rng.Intn(3) - 1
				}
				p.Refs = append(p.Refs, r)
			}
		}
		in.Parents = append(in.Parents, p)
	}

	// make sure at least one child exists before the first parent
	childEdit(chs[rng.Intn(nch)])
	for e := 0; e < nev; e++ {
		now = now.Add(gaps[rng.Intn(len(gaps))])
		remainingP := nparents - len(in.Parents)
		if remainingP > 0 && rng.Intn(nev-e) < remainingP+1 {
			parentEdit()
			continue
		}
		c := chs[rng.Intn(nch)]
		if len(c.vers) >= g.MaxVersions {
			continue
		}
		childEdit(c)
		if g.Ties && rng.Intn(2) == 0 && len(c.vers) < g.MaxVersions {
			childEdit(c) // another version of the same child in the same instant
		}
	}
	if len(in.Parents) == 0 {
		now = now.Add(time.Second)
		parentEdit()
	}
	if (in.Regime == "commit" || in.Regime == "nocommit") && rng.Intn(6) == 0 {
		// a version dated far in the future (clock skew, synthetic imports)
		now = time.Date(2100, 1, 1, 0, 0, rng.Intn(60), 0, time.UTC)
		for _, c := range chs {
			if c.exists && len(c.vers) < g.MaxVersions+1 {
				childEdit(c)
				break
			}
		}
	}
	// a clean history must not keep a child in a parent while it is deleted: drop nothing, the
	// generator above never deletes in Clean mode.

	// in the old regime parents and children in one changeset may carry slightly different
	// stamps; nothing else to do: stamps come from the common time line.

	// histories in datasource order (shuffled: the wrapper must sort by version)
	for _, c := range chs {
		if !c.exists {
			switch rng.Intn(3) {
			case 0: // never listed: behaves as not found
			case 1:
				in.Hists = append(in.Hists, Hist{FID: c.fid, Kind: 1})
			default: // found, but empty (no error)
				in.Hists = append(in.Hists, Hist{FID: c.fid, Kind: 0})
			}
			continue
		}
		h := Hist{FID: c.fid, Versions: append([]Hver(nil), c.vers...)}
		if !g.Clean && rng.Intn(25) == 0 {
			h.Kind = 1 + rng.Intn(2)
		}
		if rng.Intn(3) == 0 || bigVersions {
			rng.Shuffle(len(h.Versions), func(i, j int) { h.Versions[i], h.Versions[j] = h.Versions[j], h.Versions[i] })
		}
		in.Hists = append(in.Hists, h)
	}
	// child filter with some pre-annotated references
	if rng.Intn(5) == 0 {
		in.HasFilter = true
		for _, c := range chs {
			if rng.Intn(2) == 0 {
				in.Filter = append(in.Filter, c.fid)
			}
		}
		for pi := range in.Parents {
			for ri := range in.Parents[pi].Refs {
				r := &in.Parents[pi].Refs[ri]
				switch rng.Intn(4) {
				case 0, 1:
					r.Version, r.Changeset, r.Lat, r.Lon = 1+rng.Intn(3), 77, 5, 6
				case 2:
					// location only, never annotated (pbf LocationsOnWays, overpass geometry)
					r.Lat, r.Lon = 8, 9
				}
			}
		}
	}
	in.AsChildren = rng.Intn(4) == 0
	in.ComputeReverse()
	return in
}
