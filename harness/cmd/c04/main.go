// c04: correspondence harness for the XML round trip (property C04).
//
// For typed random values of every top-level type (every optional field independently empty
// or not) it runs  xml.Marshal -> xml.Unmarshal  and  xml.Marshal -> osmxml.Scanner  on the real
// implementation, has the marshalled text parsed by an independent reader (Python xml.etree)
// and ships value, text tree, decoded value and scanned objects to Coq, where the model's
// encoder/decoder/scanner are evaluated on the same value (judgement 1) and the property
// itself is evaluated on the observations (judgement 2).
package main

import (
	"bytes"
	"context"
	"encoding/xml"
	"fmt"
	"os"
	"reflect"
	"time"

	"github.com/paulmach/osm"
	"github.com/paulmach/osm/osmxml"
	"verif/harness/wire"
	"verif/harness/xcodec"
)

type obs struct {
	typ     string
	val     interface{} // pointer to the value
	data    []byte
	merr    error
	v2      interface{}
	uerr    error
	scanned []osm.Object
	serr    error
	class   string
	mode    int
	full    []byte // wrapper patterns: the whole wrapper document
}

func newOf(typ string) interface{} {
	g := &xcodec.Gen{}
	_ = g
	switch typ {
	case "Node":
		return &osm.Node{}
	case "Way":
		return &osm.Way{}
	case "Relation":
		return &osm.Relation{}
	case "Changeset":
		return &osm.Changeset{}
	case "Note":
		return &osm.Note{}
	case "User":
		return &osm.User{}
	case "Bounds":
		return &osm.Bounds{}
	case "OSM":
		return &osm.OSM{}
	case "Change":
		return &osm.Change{}
	case "Diff":
		return &osm.Diff{}
	}
	panic(typ)
}

// Call patterns of the encoder (wave 7).  The property quantifies over values, not over the way
// a value is handed to encoding/xml; the model's encoding is one function of the value, so every
// pattern must give the same element:
//
//	ptr       xml.Marshal(&v)
//	value     xml.Marshal(v)                      (v not addressable)
//	field     xml.Marshal(W{V: v})                (value field of a wrapper passed by value)
//	fieldptr  xml.Marshal(&W{V: v})               (value field of an addressable wrapper)
//	slice     xml.Marshal(W{L: []T{v}})           (slice element of a wrapper passed by value)
//	iface     xml.Marshal(W{I: interface{}(v)})   (value inside an interface field)
//
// For the wrapper patterns the element is what stands between <wrap> and </wrap>, and the decoder
// is run on the whole wrapper document into the same wrapper type (value field / slice element as
// decoding target), except for iface, which encoding/xml cannot decode into.
const (
	modePtr = iota
	modeValue
	modeField
	modeFieldPtr
	modeSlice
	modeIface
	nModes
)

var modeNames = [nModes]string{"ptr", "value", "field", "fieldptr", "slice", "iface"}

// element names of the top-level types (OSM XML vocabulary, not read from /repo)
var elementName = map[string]string{"Node": "node", "Way": "way", "Relation": "relation", "Changeset": "changeset", "Note": "note",
	"User": "user", "Bounds": "bounds", "OSM": "osm", "Change": "osmChange", "Diff": "osm"}

func wrapperType(typ string, t reflect.Type, mode int) reflect.Type {
	tag := reflect.StructTag(`xml:"` + elementName[typ] + `"`)
	f := reflect.StructField{Name: "V", Type: t, Tag: tag}
	switch mode {
	case modeSlice:
		f.Type = reflect.SliceOf(t)
	case modeIface:
		f.Type = reflect.TypeOf((*interface{})(nil)).Elem()
	}
	return reflect.StructOf([]reflect.StructField{{Name: "XMLName", Type: reflect.TypeOf(xml.Name{}), Tag: `xml:"wrap"`}, f})
}

func run(typ string, val interface{}, class string) *obs { return runMode(typ, val, class, modePtr) }

func runMode(typ string, val interface{}, class string, mode int) *obs {
	o := &obs{typ: typ, val: val, class: class, mode: mode}
	elem := reflect.ValueOf(val).Elem()
	var wt reflect.Type
	func() {
		defer func() {
			if r := recover(); r != nil {
				o.merr = fmt.Errorf("panic: %v", r)
				o.class = "panic"
			}
		}()
		switch mode {
		case modePtr:
			o.data, o.merr = xml.Marshal(val)
		case modeValue:
			o.data, o.merr = xml.Marshal(elem.Interface())
		default:
			wt = wrapperType(typ, elem.Type(), mode)
			wv := reflect.New(wt)
			switch mode {
			case modeSlice:
				wv.Elem().Field(1).Set(reflect.Append(reflect.MakeSlice(reflect.SliceOf(elem.Type()), 0, 1), elem))
			default:
				wv.Elem().Field(1).Set(elem)
			}
			if mode == modeFieldPtr {
				o.full, o.merr = xml.Marshal(wv.Interface())
			} else {
				o.full, o.merr = xml.Marshal(wv.Elem().Interface())
			}
			if o.merr == nil {
				if !bytes.HasPrefix(o.full, []byte("<wrap>")) || !bytes.HasSuffix(o.full, []byte("</wrap>")) {
					o.merr = fmt.Errorf("wrapper document has not the shape <wrap>…</wrap>: %.80s", o.full)
				} else {
					o.data = o.full[len("<wrap>") : len(o.full)-len("</wrap>")]
				}
			}
		}
	}()
	if o.merr != nil {
		return o
	}
	o.v2 = newOf(typ)
	// a panic inside the implementation is an observation, not a harness crash
	func() {
		defer func() {
			if r := recover(); r != nil {
				o.uerr = fmt.Errorf("panic: %v", r)
				o.class = "panic"
			}
		}()
		if wt == nil || mode == modeIface {
			o.uerr = xml.Unmarshal(o.data, o.v2)
			return
		}
		wv := reflect.New(wt)
		if o.uerr = xml.Unmarshal(o.full, wv.Interface()); o.uerr != nil {
			return
		}
		got := wv.Elem().Field(1)
		if mode == modeSlice {
			if got.Len() != 1 {
				o.uerr = fmt.Errorf("wrapper slice decoded to %d elements, 1 written", got.Len())
				return
			}
			got = got.Index(0)
		}
		reflect.ValueOf(o.v2).Elem().Set(got)
	}()
	func() {
		defer func() {
			if r := recover(); r != nil {
				o.serr = fmt.Errorf("panic: %v", r)
				o.class = "panic"
			}
		}()
		sc := osmxml.New(context.Background(), bytes.NewReader(o.data))
		for sc.Scan() {
			o.scanned = append(o.scanned, sc.Object())
		}
		o.serr = sc.Err()
		sc.Close()
	}()
	return o
}

var objectKinds = map[string]bool{"Bounds": true, "Node": true, "Way": true, "Relation": true, "Changeset": true, "Note": true, "User": true}

// collect lists, in field order, the objects contained in v that the scanner is to yield:
// values of the seven object types that are not inside another object.
func collect(v reflect.Value, out *[]reflect.Value) {
	switch v.Kind() {
	case reflect.Ptr:
		if !v.IsNil() {
			collect(v.Elem(), out)
		}
	case reflect.Slice:
		for i := 0; i < v.Len(); i++ {
			collect(v.Index(i), out)
		}
	case reflect.Struct:
		t := v.Type()
		if t.PkgPath() == "github.com/paulmach/osm" && objectKinds[t.Name()] {
			*out = append(*out, v)
			return
		}
		if t.PkgPath() != "github.com/paulmach/osm" {
			return
		}
		for i := 0; i < t.NumField(); i++ {
			f := t.Field(i)
			if f.Name == "XMLName" || (!f.IsExported() && !f.Anonymous) {
				continue
			}
			if tag, ok := f.Tag.Lookup("xml"); ok && tag == "-" {
				continue
			}
			collect(v.Field(i), out)
		}
	}
}

func kindOf(v reflect.Value) string {
	for v.Kind() == reflect.Ptr {
		v = v.Elem()
	}
	return v.Type().Name()
}

// goOracle evaluates the property on the observation in Go (so a failing input is found even
// when the Coq side does not build): equal value back, scanner sees the same objects per kind.
func goOracle(o *obs) string {
	if o.merr != nil {
		return "marshal error: " + o.merr.Error()
	}
	if o.uerr != nil {
		return "unmarshal error on own output: " + o.uerr.Error()
	}
	if !xcodec.SameTokens(xcodec.Tokens(reflect.ValueOf(o.val).Elem()), xcodec.Tokens(reflect.ValueOf(o.v2).Elem())) {
		return "unmarshal(marshal(v)) differs from v"
	}
	if o.serr != nil {
		return "scanner error on own output: " + o.serr.Error()
	}
	var want []reflect.Value
	collect(reflect.ValueOf(o.val), &want)
	for k := range objectKinds {
		var a, b [][]uint64
		for _, w := range want {
			if kindOf(w) == k {
				a = append(a, xcodec.Tokens(w))
			}
		}
		for _, s := range o.scanned {
			if kindOf(reflect.ValueOf(s)) == k {
				b = append(b, xcodec.Tokens(reflect.ValueOf(s).Elem()))
			}
		}
		if len(a) != len(b) {
			return fmt.Sprintf("scanner yields %d %s objects, value holds %d", len(b), k, len(a))
		}
		for i := range a {
			if !xcodec.SameTokens(a[i], b[i]) {
				return fmt.Sprintf("scanner's %s #%d differs from the value's", k, i)
			}
		}
	}
	return ""
}

// canary kinds
const (
	canNone = iota
	canTree
	canValue
	canScan
)

func build(o *obs, tree *xcodec.Tree, terr string, canary int) *wire.Case {
	c := &wire.Case{Class: o.class}
	or := xcodec.NewOracle()
	c.Str(o.typ)
	known := ""
	if canary == canNone {
		known = xcodec.KnownClassC04(reflect.ValueOf(o.val))
	}
	c.Bool(known != "") // the value is outside wfb exactly when it is in a known-finding class
	xcodec.Emit(c, reflect.ValueOf(o.val).Elem(), or)
	// the decoded and scanned values contain the same floats/times when all is well; feed the
	// oracle from them too so a difference is reported as a difference, not as a missing entry
	if o.v2 != nil {
		xcodec.Emit(&wire.Case{}, reflect.ValueOf(o.v2).Elem(), or)
	}
	or.EmitOracle(c)
	desc := map[string]interface{}{"type": o.typ, "marshal_call": modeNames[o.mode], "value": xcodec.Dump(reflect.ValueOf(o.val)), "xml": string(o.data)}
	c.Bool(o.merr == nil && tree != nil)
	if o.merr != nil || tree == nil {
		desc["marshal_error"] = fmt.Sprint(o.merr, " ", terr)
		c.Desc = desc
		return c
	}
	if canary == canTree {
		t2 := *tree
		t2.Name += "X"
		tree = &t2
	}
	tree.Emit(c)
	c.Bool(o.uerr == nil)
	if o.uerr == nil {
		v2 := reflect.ValueOf(o.v2).Elem()
		if canary == canValue {
			v2 = reflect.Zero(v2.Type())
		}
		xcodec.Emit(c, v2, nil)
		desc["unmarshalled"] = xcodec.Dump(v2)
	} else {
		desc["unmarshal_error"] = o.uerr.Error()
	}
	c.Bool(o.serr == nil)
	sc := o.scanned
	if canary == canScan {
		if len(sc) > 0 {
			sc = append(append([]osm.Object{}, sc...), sc[0])
		}
	}
	c.Len(len(sc))
	var sd []interface{}
	for _, s := range sc {
		c.Str(kindOf(reflect.ValueOf(s)))
		xcodec.Emit(c, reflect.ValueOf(s).Elem(), nil)
		sd = append(sd, map[string]interface{}{kindOf(reflect.ValueOf(s)): xcodec.Dump(reflect.ValueOf(s))})
	}
	desc["scanned"] = sd
	if o.serr != nil {
		desc["scan_error"] = o.serr.Error()
	}
	c.Desc = desc
	if canary != canNone {
		c.Canary = canary
		desc["canary"] = canary
	} else {
		c.OracleFail = goOracle(o)
		c.Known = known
		if known != "" {
			desc["known_class"] = known
		}
	}
	return c
}

func b(a, b2, c, d float64) *osm.Bounds {
	return &osm.Bounds{MinLat: a, MaxLat: b2, MinLon: c, MaxLon: d}
}

// corpus: minimised inputs of past failures and the corners named in the property text.
func corpus() []*obs {
	n1 := &osm.Node{ID: 1, Lat: 1.5, Lon: -2.25, Visible: true, Version: 3, Tags: osm.Tags{{Key: "k", Value: "<&>"}}}
	w1 := &osm.Way{ID: 2, Nodes: osm.WayNodes{{ID: 1, Version: 2, ChangesetID: 3, Lat: 0.5, Lon: 0.25}, {ID: 4}},
		Updates: osm.Updates{{Index: 1, Version: 2, Lat: 1, Reverse: true}}, Bounds: b(1, 2, 3, 4)}
	r1 := &osm.Relation{ID: 3, Members: osm.Members{{Type: "way", Ref: 2, Role: "outer", Orientation: 1, Nodes: osm.WayNodes{{ID: 1, Lat: 1, Lon: 2}}}}, Bounds: b(0, 0, 0, 0)}
	var out []*obs
	// C04 finding (fixed): top-level bounds of OSM / of each osmChange block / of diff old-new blocks
	out = append(out, run("OSM", &osm.OSM{Version: "0.6", Bounds: b(1, 2, 3, 4), Nodes: osm.Nodes{n1}}, "corpus-osm-bounds"))
	out = append(out, run("OSM", &osm.OSM{Bounds: b(0, 0, 0, 0)}, "corpus-osm-bounds"))
	out = append(out, run("Change", &osm.Change{Version: "0.6", Create: &osm.OSM{Bounds: b(1, 2, 3, 4), Nodes: osm.Nodes{n1}},
		Modify: &osm.OSM{Bounds: b(-1, 1, -1, 1), Ways: osm.Ways{w1}}, Delete: &osm.OSM{Bounds: b(0.5, 0.5, 0.5, 0.5)}}, "corpus-change-bounds"))
	out = append(out, run("Diff", &osm.Diff{Actions: osm.Actions{
		{Type: osm.ActionCreate, OSM: &osm.OSM{Nodes: osm.Nodes{n1}}},
		{Type: osm.ActionModify, Old: &osm.OSM{Bounds: b(1, 2, 3, 4), Ways: osm.Ways{w1}}, New: &osm.OSM{Ways: osm.Ways{w1}}},
		{Type: osm.ActionDelete, Old: &osm.OSM{Relations: osm.Relations{r1}}, New: &osm.OSM{Relations: osm.Relations{r1}}},
	}}, "corpus-diff"))
	for _, id := range []int64{-1, 0, 1 << 40, 1 << 44, 1 << 45, 9223372036854775807} {
		out = append(out, run("Diff", &osm.Diff{Actions: osm.Actions{
			{Type: osm.ActionCreate, OSM: &osm.OSM{Nodes: osm.Nodes{{ID: osm.NodeID(id), Visible: true}}}},
			{Type: osm.ActionCreate, OSM: &osm.OSM{Ways: osm.Ways{{ID: osm.WayID(id)}}}},
			{Type: osm.ActionCreate, OSM: &osm.OSM{Relations: osm.Relations{{ID: osm.RelationID(id)}}}},
			{Type: osm.ActionModify, Old: &osm.OSM{Nodes: osm.Nodes{{ID: osm.NodeID(id)}}}, New: &osm.OSM{Nodes: osm.Nodes{{ID: osm.NodeID(id), Version: 2}}}},
		}}, "corpus-diff-id-range"))
		out = append(out, run("Change", &osm.Change{Create: &osm.OSM{Nodes: osm.Nodes{{ID: osm.NodeID(id)}}, Ways: osm.Ways{{ID: osm.WayID(id)}}},
			Delete: &osm.OSM{Relations: osm.Relations{{ID: osm.RelationID(id)}}}}, "corpus-change-id-range"))
	}
	// first-class zero values: the unix epoch as a timestamp, empty and repeated tag keys,
	// annotations on relation-typed members, CR / CRLF in note texts
	ep := time.Unix(0, 0).UTC()
	out = append(out, run("Node", &osm.Node{ID: 9, Timestamp: ep, Committed: &ep, Tags: osm.Tags{{Key: "", Value: ""}, {Key: "", Value: "x"}, {Key: "k", Value: "1"}, {Key: "k", Value: "2"}}}, "corpus-epoch"))
	out = append(out, run("Way", &osm.Way{ID: 9, Timestamp: ep, Updates: osm.Updates{{Index: 0, Version: 1, Timestamp: ep}}}, "corpus-epoch"))
	out = append(out, run("Relation", &osm.Relation{ID: 9, Timestamp: ep, Members: osm.Members{{Type: "relation", Ref: 1, Lat: 1, Lon: 2, Orientation: 1, Nodes: osm.WayNodes{{ID: 1}}}}}, "corpus-epoch"))
	out = append(out, run("OSM", &osm.OSM{Nodes: osm.Nodes{{ID: 1, Timestamp: ep}}, Ways: osm.Ways{{ID: 2, Timestamp: ep}}, Relations: osm.Relations{{ID: 3, Timestamp: ep}}}, "corpus-epoch"))
	out = append(out, run("Note", &osm.Note{ID: 1, Comments: []*osm.NoteComment{{Text: "a\rb\r\nc", HTML: "<p>x\r</p>&amp;lt;"}}}, "corpus-note-cr"))
	out = append(out, run("Bounds", b(1, 2, 3, 4), "corpus-bounds"))
	// wave 6: coordinates that need more than 7 decimals (quotients, tile edges, 1e-9, a 7-decimal
	// value plus 1e-7) in every float attribute of every type — alone, nested, and as the bounds
	// of OSM / osmChange blocks / diff actions
	ff := xcodec.FineFloats
	for i := 0; i+3 < len(ff); i += 4 {
		fb := b(ff[i], ff[i+1], ff[i+2], ff[i+3])
		fn := &osm.Node{ID: 1, Lat: ff[i], Lon: ff[i+1], Visible: true}
		fw := &osm.Way{ID: 2, Nodes: osm.WayNodes{{ID: 1, Lat: ff[i+2], Lon: ff[i+3]}}, Updates: osm.Updates{{Index: 0, Version: 1, Lat: ff[i+1], Lon: ff[i+2]}}, Bounds: fb}
		fr := &osm.Relation{ID: 3, Members: osm.Members{{Type: "node", Ref: 1, Lat: ff[i+3], Lon: ff[i], Nodes: osm.WayNodes{{ID: 1, Lat: ff[i+1], Lon: ff[i+3]}}}}, Bounds: fb}
		out = append(out, run("Bounds", fb, "corpus-fine-floats"))
		out = append(out, run("Node", fn, "corpus-fine-floats"))
		out = append(out, run("Way", fw, "corpus-fine-floats"))
		out = append(out, run("Relation", fr, "corpus-fine-floats"))
		if i%8 == 0 {
			fu := &osm.User{ID: 1}
			fu.Home.Lat, fu.Home.Lon = ff[i], ff[i+3]
			out = append(out, run("Changeset", &osm.Changeset{ID: 1, MinLat: ff[i], MaxLat: ff[i+1], MinLon: ff[i+2], MaxLon: ff[i+3]}, "corpus-fine-floats"))
			out = append(out, run("Note", &osm.Note{ID: 1, Lat: ff[i+1], Lon: ff[i+2]}, "corpus-fine-floats"))
			out = append(out, run("User", fu, "corpus-fine-floats"))
			out = append(out, run("OSM", &osm.OSM{Version: "0.6", Bounds: fb, Nodes: osm.Nodes{fn}, Ways: osm.Ways{fw}, Relations: osm.Relations{fr}}, "corpus-fine-floats"))
			out = append(out, run("Change", &osm.Change{Create: &osm.OSM{Bounds: fb, Nodes: osm.Nodes{fn}}, Modify: &osm.OSM{Ways: osm.Ways{fw}}, Delete: &osm.OSM{Bounds: fb}}, "corpus-fine-floats"))
			out = append(out, run("Diff", &osm.Diff{Actions: osm.Actions{{Type: osm.ActionModify, Old: &osm.OSM{Bounds: fb, Ways: osm.Ways{fw}}, New: &osm.OSM{Nodes: osm.Nodes{fn}}}}}, "corpus-fine-floats"))
		}
	}
	// wave 7: every call pattern of the encoder (by value, as a value field / slice element /
	// interface content of a wrapper) on one rich value per type; hand-written marshal hooks
	// (dates of notes, discussions, bounds, containers) must be found through each of them
	t1, t2 := time.Unix(1518888888, 0).UTC(), time.Unix(1600000000, 0).UTC()
	fu := &osm.User{ID: 4, Name: "n", Description: "d<>", Languages: []string{"en", "de"}, CreatedAt: t1}
	fu.Home.Lat, fu.Home.Lon, fu.Home.Zoom = 1.5, -2.5, 3
	fnote := &osm.Note{ID: 3, Lat: 1.5, Lon: 2.5, URL: "u", Status: "open", DateCreated: osm.Date{Time: t1}, DateClosed: osm.Date{Time: t2},
		Comments: []*osm.NoteComment{{Date: osm.Date{Time: t1}, UserID: 1, User: "u", Action: osm.NoteCommentOpened, Text: "x&y", HTML: "<p>"}, {Date: osm.Date{Time: t2}, Action: osm.NoteCommentClosed}}}
	fcs := &osm.Changeset{ID: 5, User: "u", UserID: 2, CreatedAt: t1, ClosedAt: t2, MinLat: 1, MaxLat: 2, MinLon: 3, MaxLon: 4, Tags: osm.Tags{{Key: "k", Value: "v"}},
		Discussion: &osm.ChangesetDiscussion{Comments: []*osm.ChangesetComment{{User: "u", UserID: 2, Timestamp: t2, Text: "t<>"}}}}
	samples := []struct {
		typ string
		val interface{}
	}{
		{"Node", &osm.Node{ID: 1, Lat: 1.5, Lon: -2.25, Visible: true, Version: 3, Timestamp: t1, Committed: &t2, Tags: osm.Tags{{Key: "k", Value: "<&>"}}}},
		{"Way", w1}, {"Relation", r1}, {"Changeset", fcs}, {"Note", fnote}, {"User", fu}, {"Bounds", b(1, 2, 3, 4)},
		{"OSM", &osm.OSM{Version: "0.6", Generator: "g", Bounds: b(1, 2, 3, 4), Nodes: osm.Nodes{n1}, Ways: osm.Ways{w1}, Relations: osm.Relations{r1},
			Changesets: osm.Changesets{fcs}, Notes: osm.Notes{fnote}, Users: osm.Users{fu}}},
		{"Change", &osm.Change{Version: "0.6", Create: &osm.OSM{Bounds: b(1, 2, 3, 4), Nodes: osm.Nodes{n1}}, Modify: &osm.OSM{Ways: osm.Ways{w1}}, Delete: &osm.OSM{Relations: osm.Relations{r1}}}},
		{"Diff", &osm.Diff{Actions: osm.Actions{{Type: osm.ActionCreate, OSM: &osm.OSM{Nodes: osm.Nodes{n1}}},
			{Type: osm.ActionModify, Old: &osm.OSM{Bounds: b(1, 2, 3, 4), Ways: osm.Ways{w1}}, New: &osm.OSM{Ways: osm.Ways{w1}}}}}},
	}
	for _, sm := range samples {
		for mode := modeValue; mode < nModes; mode++ {
			out = append(out, runMode(sm.typ, sm.val, "corpus-call-"+modeNames[mode], mode))
		}
	}
	// known findings of C04 (formats cannot carry these values)
	out = append(out, run("Note", &osm.Note{ID: 2, DateCreated: osm.Date{Time: time.Unix(1600000000, 500000000).UTC()}}, "corpus-known-date"))
	out = append(out, run("Changeset", &osm.Changeset{ID: 2, Discussion: &osm.ChangesetDiscussion{}}, "corpus-known-discussion"))
	out = append(out, run("Way", w1, "corpus-way"))
	out = append(out, run("Relation", r1, "corpus-relation"))
	out = append(out, run("Change", &osm.Change{Create: &osm.OSM{}, Delete: &osm.OSM{}}, "corpus-change-empty-blocks"))
	out = append(out, run("Note", &osm.Note{}, "corpus-note-zero"))
	out = append(out, run("User", &osm.User{}, "corpus-user-zero"))
	out = append(out, run("Changeset", &osm.Changeset{ID: 5, Discussion: &osm.ChangesetDiscussion{Comments: []*osm.ChangesetComment{{User: "u", Text: "t<>"}}}}, "corpus-changeset-discussion"))
	return out
}

func main() {
	args := wire.ParseArgs()
	w := wire.NewWriter("C04", args.Seed, args.Tier)
	w.Rule = "typed random values of Node, Way, Relation, Changeset, Note, User, Bounds, OSM, Change, Diff (every optional field independently zero or not, strings needing escapes, sub-second times, nested annotations and bounds); a case is non-trivial when the value has at least one non-zero field; distinct = distinct token streams"
	rng := wire.Rng(args.Seed)
	g := &xcodec.Gen{R: rng, Count: w.Count, MaxLen: 3, Lossy: true}

	all := corpus()
	plan := []struct {
		typ   string
		n     int
		depth int
		max   int
	}{
		{"Node", 40, 4, 3}, {"Way", 40, 5, 3}, {"Relation", 40, 5, 3}, {"Changeset", 30, 5, 3}, {"Note", 30, 5, 3},
		{"User", 20, 5, 3}, {"Bounds", 8, 2, 1}, {"OSM", 24, 7, 2}, {"Change", 20, 8, 2}, {"Diff", 20, 9, 2},
	}
	mult := args.Scale
	if args.Tier == "thorough" {
		mult *= 12
	}
	for _, p := range plan {
		n := int(float64(p.n)*mult + 0.5)
		for i := 0; i < n; i++ {
			g.MaxLen = p.max
			v := g.New(p.typ, p.depth)
			// every call pattern of the encoder in turn (ptr twice as often)
			mode := i % (nModes + 1) % nModes
			w.Count("marshal-call:" + modeNames[mode])
			all = append(all, runMode(p.typ, v, p.typ, mode))
		}
	}

	docs := make([][]byte, len(all))
	for i, o := range all {
		docs[i] = o.data
		if o.merr != nil {
			docs[i] = []byte("<marshal-error/>")
		}
	}
	trees, terrs, err := xcodec.ReadTrees(args.Out, docs)
	if err != nil {
		fmt.Fprintln(os.Stderr, "c04:", err)
		os.Exit(1)
	}
	for i, o := range all {
		c := build(o, trees[i], terrs[i], canNone)
		if len(xcodec.Tokens(reflect.ValueOf(o.val).Elem())) <= 2 {
			c.Trivial = true
		}
		w.Add(c)
		if len(o.scanned) > 0 {
			w.Count("scanned-objects")
		}
	}
	// size thresholds: count + hash transport (xcodec/big.go)
	sizes := xcodec.BigSizesQuick
	if args.Tier == "thorough" {
		sizes = xcodec.BigSizesThorough
	}
	for kind := 1; kind <= xcodec.BigKinds; kind++ {
		for _, n := range sizes {
			typ, val := xcodec.BigValue(kind, n)
			o := run(typ, val, "big")
			c := &wire.Case{Class: fmt.Sprintf("big-%d", kind)}
			var keys, skeys []int64
			if o.merr == nil {
				keys = xcodec.BigKeys(kind, o.v2)
				skeys = xcodec.BigScanKeys(kind, o.scanned)
			}
			xcodec.EmitBig(c, kind, n, o.merr == nil && o.uerr == nil, keys, o.merr == nil && o.serr == nil, skeys)
			c.Desc = map[string]interface{}{"big_kind": kind, "n": n, "value": "xcodec.BigValue(kind, n): " + typ + " with n items keyed (i*7919+13) mod 1000003",
				"decoded_items": len(keys), "scanned_items": len(skeys), "marshal_error": fmt.Sprint(o.merr), "unmarshal_error": fmt.Sprint(o.uerr), "scan_error": fmt.Sprint(o.serr)}
			exp := xcodec.BigExpected(n)
			if o.merr != nil || o.uerr != nil || o.serr != nil || len(keys) != n || len(skeys) != n || xcodec.BigHash(keys) != xcodec.BigHash(exp) || xcodec.BigHash(skeys) != xcodec.BigHash(exp) {
				c.OracleFail = fmt.Sprintf("value with %d items: after marshal, the whole-document decoder returned %d, the scanner %d (or different items)", n, len(keys), len(skeys))
			}
			w.Add(c)
		}
	}
	{
		c := &wire.Case{Class: "big-canary", Canary: 9, Desc: map[string]interface{}{"canary": "big count"}}
		exp := xcodec.BigExpected(12)
		xcodec.EmitBig(c, 1, 12, true, exp[:11], true, exp)
		w.Add(c)
	}
	// canaries: one per observable class, built from the first corpus case (non-trivial)
	for _, k := range []int{canTree, canValue, canScan} {
		w.Add(build(all[0], trees[0], terrs[0], k))
	}
	if err := w.Flush(args.Out, "Verif.C04.Check", 60); err != nil {
		fmt.Fprintln(os.Stderr, "c04:", err)
		os.Exit(1)
	}
}
