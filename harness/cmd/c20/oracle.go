package main

// A Go-side restatement of the property, written from the API v0.6 documentation like
// coq/theories/C20/SpecApi.v but sharing no code with it or with the Coq model: request count
// and order, the documented path under the configured base, the decoded query (net/url's
// parser stands for the server's), redirect hops, the error class per status, NotFound, the
// returned elements.  Its verdict travels as Case.OracleFail, so a failing input is reported
// even when the Coq side cannot be built.

import (
	"fmt"
	"math/big"
	"net/http"
	"net/url"
	"strconv"
	"strings"
	"time"
)

const docBase = "http://api.openstreetmap.org/api/0.6"

var elemPath = []string{"node", "way", "relation"}

func wantPath(k call) string {
	id := strconv.FormatInt(k.ID, 10)
	switch k.Code {
	case 0:
		return "/" + elemPath[k.Elem] + "/" + id
	case 1:
		return "/" + elemPath[k.Elem] + "s"
	case 2:
		return "/" + elemPath[k.Elem] + "/" + id + "/" + strconv.FormatInt(k.V, 10)
	case 3:
		return "/" + elemPath[k.Elem] + "/" + id + "/history"
	case 4:
		return "/node/" + id + "/ways"
	case 5:
		return "/" + elemPath[k.Elem] + "/" + id + "/relations"
	case 6:
		return "/" + elemPath[k.Elem+1] + "/" + id + "/full"
	case 7:
		return "/map"
	case 8, 9:
		return "/changeset/" + id
	case 10:
		return "/changeset/" + id + "/download"
	case 11:
		return "/notes/" + id
	case 12:
		return "/notes"
	case 13:
		return "/notes/search"
	}
	return "/user/" + id
}

// wantQuery: decoded parameters in order; the value "\x00bbox" stands for the bounding box
func wantQuery(k call) [][2]string {
	var q [][2]string
	switch k.Code {
	case 1:
		var l []string
		for _, id := range k.IDs {
			l = append(l, strconv.FormatInt(id, 10))
		}
		q = append(q, [2]string{elemPath[k.Elem] + "s", strings.Join(l, ",")})
	case 7, 12:
		q = append(q, [2]string{"bbox", "\x00bbox"})
	case 9:
		q = append(q, [2]string{"include_discussion", "true"})
	case 13:
		q = append(q, [2]string{"q", k.Q})
	}
	if k.hasFOpts() {
		for _, a := range k.FOpts {
			q = append(q, [2]string{"at", time.Unix(a.Unix, 0).UTC().Format("2006-01-02T15:04:05Z")})
		}
	}
	if k.hasNOpts() {
		for _, o := range k.NOpts {
			q = append(q, [2]string{[]string{"limit", "closed"}[o.Kind], strconv.FormatInt(o.N, 10)})
		}
	}
	return q
}

// coordinate text within half a unit of the 7th decimal of x, exactly
func coordOK(text string, x float64) bool {
	r, ok := new(big.Rat).SetString(text)
	if !ok || strings.ContainsAny(text, "eE/_ +") {
		return false
	}
	d := new(big.Rat).Sub(r, new(big.Rat).SetFloat64(x))
	d.Abs(d)
	return d.Cmp(big.NewRat(1, 20000000)) <= 0
}

func requestOracle(base string, k call, got string) string {
	if base == "" {
		base = docBase
	}
	i := strings.IndexByte(got, '?')
	path, raw := got, ""
	if i >= 0 {
		path, raw = got[:i], got[i+1:]
	}
	if path != base+wantPath(k) {
		return fmt.Sprintf("request path %q, documented %q", path, base+wantPath(k))
	}
	// ordered decoding: split at '&', then net/url's unescaping
	var gotQ [][2]string
	for _, piece := range strings.Split(raw, "&") {
		if piece == "" {
			continue
		}
		kv := strings.SplitN(piece, "=", 2)
		key, err1 := url.QueryUnescape(kv[0])
		val := ""
		var err2 error
		if len(kv) == 2 {
			val, err2 = url.QueryUnescape(kv[1])
		}
		if err1 != nil || err2 != nil {
			return fmt.Sprintf("query piece %q does not decode", piece)
		}
		gotQ = append(gotQ, [2]string{key, val})
	}
	want := wantQuery(k)
	if len(gotQ) != len(want) {
		return fmt.Sprintf("query %q decodes to %d parameters, documented %d", raw, len(gotQ), len(want))
	}
	for j := range want {
		if gotQ[j][0] != want[j][0] {
			return fmt.Sprintf("query parameter %d is %q, documented %q", j, gotQ[j][0], want[j][0])
		}
		if want[j][1] == "\x00bbox" {
			f := strings.Split(gotQ[j][1], ",")
			if len(f) != 4 {
				return fmt.Sprintf("bbox %q does not have four fields", gotQ[j][1])
			}
			for n := 0; n < 4; n++ {
				if !coordOK(f[n], k.B[n]) {
					return fmt.Sprintf("bbox field %d is %q for the argument %.17g (more than half a unit of the 7th decimal away)", n, f[n], k.B[n])
				}
			}
		} else if gotQ[j][1] != want[j][1] {
			return fmt.Sprintf("query parameter %s = %q, documented %q", want[j][0], gotQ[j][1], want[j][1])
		}
	}
	return ""
}

// baseRefused: net/http's own verdict on the configured base (http.NewRequest fails, or there is
// no http(s) scheme for the transport)
func baseRefused(base string) bool {
	if base == "" {
		return false
	}
	req, err := http.NewRequest("GET", base+"/x", nil)
	if err != nil {
		return true
	}
	return req.URL.Scheme != "http" && req.URL.Scheme != "https"
}

func kindsOf(l []el, kind int64) []el {
	var r []el
	for _, e := range l {
		if e.Kind == kind {
			r = append(r, e)
		}
	}
	return r
}

func grouped(l []el, tag int64) []el {
	var r []el
	for kind := int64(1); kind <= 6; kind++ {
		for _, e := range l {
			if e.Kind == kind {
				r = append(r, el{tag + e.Kind, e.ID})
			}
		}
	}
	return r
}

// wantResult: (error class, data) for a final answer; class 0 = success
func wantResult(k call, status int, b body) (int64, []el) {
	switch status {
	case 200:
	case 404:
		return 1, nil
	case 403:
		return 2, nil
	case 410:
		return 3, nil
	case 414:
		return 4, nil
	default:
		return 5, nil
	}
	if b.Kind == 0 {
		return 6, nil
	}
	top := b.Els // top-level elements of an <osm> document; an osmChange has none
	if b.Kind == 2 {
		top = nil
	}
	switch k.Code {
	case 0, 2, 8, 9, 11, 14:
		l := kindsOf(top, k.wantKind())
		if len(l) != 1 {
			return 6, nil
		}
		return 0, l
	case 6, 7:
		return 0, grouped(top, 0)
	case 10:
		if b.Kind != 2 {
			return 0, nil
		}
		var r []el
		r = append(r, grouped(b.C, 10)...)
		r = append(r, grouped(b.M, 20)...)
		r = append(r, grouped(b.D, 30)...)
		return 0, r
	}
	return 0, kindsOf(top, k.wantKind())
}

func sameEls(a, b []el) bool {
	if len(a) != len(b) {
		return false
	}
	for i := range a {
		if a[i] != b[i] {
			return false
		}
	}
	return true
}

func goOracle(base string, w world, k call, status int, b body, ob observed) string {
	if b.Cut > 0 {
		b = body{Kind: 0} // a body cut short is an unreadable body
	}
	if ob.Panicked {
		return "the call panicked"
	}
	if !ob.ContentOK {
		return "a returned element does not carry the text (user / display name / comment) the server sent for it"
	}
	valid := true
	for _, o := range k.NOpts {
		if o.Kind == 0 && (o.N < 1 || o.N > 10000) {
			valid = false
		}
	}
	permitted := valid && w.Lim != 2 && w.Ctx != 1 && !baseRefused(base)
	var hops []string
	if w.Ctx == 0 && w.Follow {
		hops = w.Hops
		if len(hops) > 9 {
			hops = hops[:9]
		}
	}
	var want []int64
	if valid && w.Lim != 0 {
		want = append(want, 1)
	}
	if permitted {
		for i := 0; i <= len(hops); i++ {
			want = append(want, 2)
		}
	}
	if fmt.Sprint(want) != fmt.Sprint(ob.Events) && !(len(want) == 0 && len(ob.Events) == 0) {
		return fmt.Sprintf("events %v, expected %v (1 = Wait, 2 = request)", ob.Events, want)
	}
	if !permitted {
		if len(ob.Requests) != 0 || ob.Class != 6 || ob.NotFound || ob.HasData {
			return "no request was permitted, yet the call sent one or did not fail with an ordinary error and no data"
		}
		return ""
	}
	if len(ob.Requests) != 1+len(hops) {
		return fmt.Sprintf("%d requests, expected %d", len(ob.Requests), 1+len(hops))
	}
	for i, r := range ob.Requests {
		if r.Method != "GET" {
			return "request " + strconv.Itoa(i) + " is not a GET"
		}
		if i > 0 && r.URL != hops[i-1] {
			return fmt.Sprintf("redirect hop %d went to %q, the server named %q", i, r.URL, hops[i-1])
		}
	}
	if msg := requestOracle(base, k, ob.Requests[0].URL); msg != "" {
		return msg
	}
	var class int64
	var data []el
	switch {
	case w.Ctx == 2:
		class = 6
	case len(w.Hops) > 0 && !w.Follow:
		class, data = wantResult(k, w.HopStatus, body{})
	case len(w.Hops) > 9:
		class = 6
	default:
		class, data = wantResult(k, status, b)
	}
	if ob.Class != class {
		return fmt.Sprintf("error class %d, expected %d", ob.Class, class)
	}
	if ob.NotFound != (class == 1) {
		return fmt.Sprintf("NotFound(err) = %v with error class %d", ob.NotFound, class)
	}
	if class != 0 {
		if ob.HasData {
			return "data returned together with an error"
		}
		return ""
	}
	if !ob.HasData || !sameEls(ob.Data, data) {
		return fmt.Sprintf("returned elements %v (non-nil: %v), the response holds %v", ob.Data, ob.HasData, data)
	}
	return ""
}
