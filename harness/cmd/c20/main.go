// c20: correspondence harness for package osmapi (property C20).
//
// Every case runs ONE call of the real osmapi.Datasource against a local HTTP server that
// records what reaches it (method, Host, request target) and answers with a chosen status and
// body.  The client's dialer sends every host to that server, so arbitrary configured base
// URLs (including the package default) can be used without network and without a port number
// in the case data.  A recording rate limiter shares the event log with the server, so the
// order Wait / request is observed.  The case (configuration, call, response, observation)
// is written as tokens for coq/theories/C20/Check.v.
package main

import (
	"context"
	"encoding/xml"
	"errors"
	"fmt"
	"math"
	"math/rand"
	"net"
	"net/http"
	"net/http/httptest"
	"os"
	"runtime"
	"strconv"
	"strings"
	"sync"
	"time"

	"github.com/paulmach/osm"
	"github.com/paulmach/osm/osmapi"
	"verif/harness/wire"
)

// ---------- recording server and limiter ----------

type request struct{ Method, URL string }

type recorder struct {
	mu        sync.Mutex
	events    []int64 // 1 wait, 2 request
	requests  []request
	status    int
	body      string
	hops      []string      // Location of the i-th answer while i < len(hops)
	hopStatus int           // the 3xx status of those answers
	cut       int           // see body.Cut (applies to the final answer)
	chunk     int           // see body.Chunk
	arrived   chan struct{} // non-nil: the first request signals here and then waits for the client to go away
}

func (r *recorder) reset(status int, body string) {
	r.mu.Lock()
	r.events, r.requests, r.status, r.body = nil, nil, status, body
	r.hops, r.hopStatus, r.arrived, r.cut, r.chunk = nil, 0, nil, 0, 0
	r.mu.Unlock()
}

func (r *recorder) ServeHTTP(w http.ResponseWriter, q *http.Request) {
	r.mu.Lock()
	r.events = append(r.events, 2)
	r.requests = append(r.requests, request{q.Method, "http://" + q.Host + q.RequestURI})
	status, body := r.status, r.body
	n := len(r.requests)
	hops, hopStatus, arrived, cut, chunk := r.hops, r.hopStatus, r.arrived, r.cut, r.chunk
	r.mu.Unlock()
	if arrived != nil && n == 1 {
		close(arrived)
		select {
		case <-q.Context().Done():
		case <-time.After(3 * time.Second):
		}
		return
	}
	if n <= len(hops) {
		w.Header().Set("Location", hops[n-1])
		w.WriteHeader(hopStatus)
		return
	}
	if cut > 0 {
		// fault: the answer's body is cut short (a proxy or the peer going away mid-body)
		if hj, ok := w.(http.Hijacker); ok {
			if conn, buf, err := hj.Hijack(); err == nil {
				half := body[:len(body)/2]
				if cut == 1 {
					fmt.Fprintf(buf, "HTTP/1.1 %d %s\r\nContent-Type: text/xml\r\nContent-Length: %d\r\nConnection: close\r\n\r\n%s",
						status, http.StatusText(status), len(body)+64, half)
				} else {
					fmt.Fprintf(buf, "HTTP/1.1 %d %s\r\nContent-Type: text/xml\r\nTransfer-Encoding: chunked\r\nConnection: close\r\n\r\n%x\r\n%s",
						status, http.StatusText(status), len(half)+64, half)
				}
				buf.Flush()
				conn.Close()
				return
			}
		}
	}
	if chunk > 0 && status != 304 && status != 204 {
		// the body trickles in: every piece is flushed and given time to arrive on its own, so
		// that the client's reads end inside multi-byte characters
		w.Header().Set("Content-Type", "text/xml")
		w.WriteHeader(status)
		fl, _ := w.(http.Flusher)
		for i := 0; i < len(body); i += chunk {
			j := i + chunk
			if j > len(body) {
				j = len(body)
			}
			w.Write([]byte(body[i:j]))
			if fl != nil {
				fl.Flush()
			}
			time.Sleep(120 * time.Microsecond)
		}
		return
	}
	w.Header().Set("Content-Type", "text/xml")
	w.WriteHeader(status)
	if status != 304 && status != 204 {
		w.Write([]byte(body))
	}
}

type limiter struct {
	rec     *recorder
	fail    bool
	foreign bool // the limiter of another Datasource
}

func (l *limiter) Wait(ctx context.Context) error {
	l.rec.mu.Lock()
	if l.foreign {
		l.rec.events = append(l.rec.events, 3)
	} else {
		l.rec.events = append(l.rec.events, 1)
	}
	l.rec.mu.Unlock()
	if l.fail {
		return errors.New("limiter: no tokens")
	}
	// like golang.org/x/time/rate.Limiter: a finished context makes Wait fail
	return ctx.Err()
}

// ---------- the call description ----------

type el struct{ Kind, ID int64 }

type atOpt struct {
	Unix int64
	Nsec int64
	Zone int // seconds east of UTC for the time.Time handed to osmapi.At
}

type nOpt struct{ Kind, N int64 } // 0 limit, 1 closed

type call struct {
	Code  int
	Elem  int
	ID    int64
	V     int64
	IDs   []int64
	FOpts []atOpt
	NOpts []nOpt
	B     [4]float64 // MinLon MinLat MaxLon MaxLat
	Q     string
}

var callNames = []string{"Get", "Multi", "Version", "History", "NodeWays", "RelationsOf", "Full", "Map",
	"Changeset", "ChangesetWithDiscussion", "ChangesetDownload", "Note", "Notes", "NotesSearch", "User"}
var elemNames = []string{"node", "way", "relation"}

func (c call) name() string {
	switch c.Code {
	case 0, 1, 2, 3, 5:
		return callNames[c.Code] + "/" + elemNames[c.Elem]
	case 6:
		return "Full/" + elemNames[c.Elem+1]
	}
	return callNames[c.Code]
}

func (c call) hasFOpts() bool {
	switch c.Code {
	case 0, 1, 4, 5, 6, 7:
		return true
	}
	return false
}
func (c call) hasNOpts() bool  { return c.Code == 12 || c.Code == 13 }
func (c call) hasBounds() bool { return c.Code == 7 || c.Code == 12 }

type body struct {
	Chunk   int // > 0: the body is delivered in pieces of this many bytes, each flushed on its own
	Cut     int // 0 whole body; 1 the server sends half of it under a larger Content-Length and closes; 2 half of it in a chunk that never completes
	Kind    int // 0 malformed, 1 osm, 2 osmChange
	Els     []el
	C, M, D []el
	Raw     string // for malformed
}

type observed struct {
	Events   []int64
	Requests []request
	Class    int64
	NotFound bool
	HasData  bool
	Data     []el
	Panicked bool
	ErrText  string
	// Texts: for every returned element, the number of the text it carries (see contentTexts)
	Texts []int64
	// ContentOK: every returned element carries the text the server sent for it
	ContentOK bool
}

// every element carries a text (user / display name / first comment) that is a function of its
// kind and id, so that the harness can tell whether the content the server sent comes back
// unchanged.  Most are non-ASCII (2-, 3- and 4-byte sequences, combining marks).
var contentTexts = []string{"name", "Zo\u00eb M\u00fcller", "\u65e5\u672c\u8a9e\u306e\u540d\u524d", "\U0001d11e clef \U0001f5fa map", "a&b <c> \"d\" 'e'",
	"\u0418\u0432\u0430\u043d \u041f\u0435\u0442\u0440\u043e\u0432", "e\u0301a\u0300o\u0302 combining", "\u00e9", "ascii only user", "\u4e2d\u6587\u00e9\U0001f600\u00e9\u4e2d"}

func textOf(kind, id int64) string {
	h := uint64(kind)*1000003 + uint64(id)*2654435761
	h ^= h >> 17
	return contentTexts[h%uint64(len(contentTexts))]
}

func xmlEsc(t string) string {
	var sb strings.Builder
	xml.EscapeText(&sb, []byte(t))
	return sb.String()
}

// contentOK is cleared when a returned element does not carry the text the server sent for it
var contentOK = true

// lastTexts: for every element re-read by the last view, the number of its text in
// contentTexts (-1: not one of them), in the order of the returned elements
var lastTexts []int64

func chk(kind, id int64, text string) {
	if text != textOf(kind%10, id) {
		contentOK = false
	}
	idx := int64(-1)
	for i, t := range contentTexts {
		if t == text {
			idx = int64(i)
		}
	}
	lastTexts = append(lastTexts, idx)
}

func elXML(e el) string {
	t := xmlEsc(textOf(e.Kind, e.ID))
	switch e.Kind {
	case 1:
		return fmt.Sprintf(`<node id="%d" lat="1.5" lon="2.5" version="1" user="%s"/>`, e.ID, t)
	case 2:
		return fmt.Sprintf(`<way id="%d" version="2" user="%s"><nd ref="1"/><tag k="a" v="b"/></way>`, e.ID, t)
	case 3:
		return fmt.Sprintf(`<relation id="%d" version="3" user="%s"><member type="node" ref="1" role="x"/></relation>`, e.ID, t)
	case 4:
		return fmt.Sprintf(`<changeset id="%d" open="false" user="%s" uid="7"><tag k="comment" v="c"/></changeset>`, e.ID, t)
	case 5:
		return fmt.Sprintf(`<note lon="1.5" lat="2.5"><id>%d</id><status>open</status><comments><comment><text>%s</text></comment></comments></note>`, e.ID, t)
	case 6:
		return fmt.Sprintf(`<user id="%d" display_name="%s"><description>d</description></user>`, e.ID, t)
	}
	panic("kind")
}

func noteText(n *osm.Note) string {
	if len(n.Comments) == 0 {
		return ""
	}
	return n.Comments[0].Text
}

func elsXML(l []el) string {
	var sb strings.Builder
	for _, e := range l {
		sb.WriteString(" ")
		sb.WriteString(elXML(e))
		sb.WriteString("\n")
	}
	return sb.String()
}

func (b body) xml() string {
	switch b.Kind {
	case 0:
		return b.Raw
	case 1:
		return `<?xml version="1.0" encoding="UTF-8"?>` + "\n" + `<osm version="0.6" generator="verif">` + "\n" + elsXML(b.Els) + `</osm>`
	}
	sec := func(name string, l []el) string {
		if l == nil {
			return ""
		}
		return "<" + name + ">\n" + elsXML(l) + "</" + name + ">\n"
	}
	return `<?xml version="1.0" encoding="UTF-8"?>` + "\n" + `<osmChange version="0.6" generator="verif">` + "\n" +
		sec("create", b.C) + sec("modify", b.M) + sec("delete", b.D) + `</osmChange>`
}

func osmEls(o *osm.OSM, tag int64) []el {
	var l []el
	if o == nil {
		return l
	}
	for _, n := range o.Nodes {
		l = append(l, el{tag + 1, int64(n.ID)})
		chk(1, int64(n.ID), n.User)
	}
	for _, w := range o.Ways {
		l = append(l, el{tag + 2, int64(w.ID)})
		chk(2, int64(w.ID), w.User)
	}
	for _, r := range o.Relations {
		l = append(l, el{tag + 3, int64(r.ID)})
		chk(3, int64(r.ID), r.User)
	}
	for _, c := range o.Changesets {
		l = append(l, el{tag + 4, int64(c.ID)})
		chk(4, int64(c.ID), c.User)
	}
	for _, n := range o.Notes {
		l = append(l, el{tag + 5, int64(n.ID)})
		chk(5, int64(n.ID), noteText(n))
	}
	for _, u := range o.Users {
		l = append(l, el{tag + 6, int64(u.ID)})
		chk(6, int64(u.ID), u.Name)
	}
	return l
}

func errClass(err error) int64 {
	if err == nil {
		return 0
	}
	switch err.(type) {
	case *osmapi.NotFoundError:
		return 1
	case *osmapi.ForbiddenError:
		return 2
	case *osmapi.GoneError:
		return 3
	case *osmapi.RequestURITooLongError:
		return 4
	case *osmapi.UnexpectedStatusCodeError:
		return 5
	}
	return 6
}

// run performs the call on the real implementation.
// lastView re-reads the result of the most recent run
var lastView func() (bool, []el)

func run(ctx context.Context, ds *osmapi.Datasource, pkgLevel bool, c call) (hasData bool, data []el, err error, panicked bool) {
	defer func() {
		if r := recover(); r != nil {
			panicked = true
			hasData, data, err = false, nil, nil
			lastView = func() (bool, []el) { return false, nil }
		}
	}()
	lastView = func() (bool, []el) { return false, nil }
	var fo []osmapi.FeatureOption
	for _, a := range c.FOpts {
		t := time.Unix(a.Unix, a.Nsec).In(time.FixedZone("z", a.Zone))
		fo = append(fo, osmapi.At(t))
	}
	var no []osmapi.NotesOption
	for _, o := range c.NOpts {
		if o.Kind == 0 {
			no = append(no, osmapi.Limit(int(o.N)))
		} else {
			no = append(no, osmapi.MaxDaysClosed(int(o.N)))
		}
	}
	bounds := &osm.Bounds{MinLon: c.B[0], MinLat: c.B[1], MaxLon: c.B[2], MaxLat: c.B[3]}
	// every result is kept as the implementation returned it; view re-reads it (the harness
	// re-reads an earlier result after later calls to see whether it was modified)
	set := func(e error, v func() (bool, []el)) {
		err = e
		lastView = v
		lastTexts = nil
		hasData, data = v()
	}
	node := func(n *osm.Node, e error) {
		set(e, func() (bool, []el) {
			if n == nil {
				return false, nil
			}
			chk(1, int64(n.ID), n.User)
			return true, []el{{1, int64(n.ID)}}
		})
	}
	way := func(n *osm.Way, e error) {
		set(e, func() (bool, []el) {
			if n == nil {
				return false, nil
			}
			chk(2, int64(n.ID), n.User)
			return true, []el{{2, int64(n.ID)}}
		})
	}
	rel := func(n *osm.Relation, e error) {
		set(e, func() (bool, []el) {
			if n == nil {
				return false, nil
			}
			chk(3, int64(n.ID), n.User)
			return true, []el{{3, int64(n.ID)}}
		})
	}
	nodes := func(l osm.Nodes, e error) {
		set(e, func() (bool, []el) {
			var d []el
			for _, n := range l {
				d = append(d, el{1, int64(n.ID)})
				chk(1, int64(n.ID), n.User)
			}
			return e == nil, d
		})
	}
	ways := func(l osm.Ways, e error) {
		set(e, func() (bool, []el) {
			var d []el
			for _, n := range l {
				d = append(d, el{2, int64(n.ID)})
				chk(2, int64(n.ID), n.User)
			}
			return e == nil, d
		})
	}
	rels := func(l osm.Relations, e error) {
		set(e, func() (bool, []el) {
			var d []el
			for _, n := range l {
				d = append(d, el{3, int64(n.ID)})
				chk(3, int64(n.ID), n.User)
			}
			return e == nil, d
		})
	}
	notes := func(l osm.Notes, e error) {
		set(e, func() (bool, []el) {
			var d []el
			for _, n := range l {
				d = append(d, el{5, int64(n.ID)})
				chk(5, int64(n.ID), noteText(n))
			}
			return e == nil, d
		})
	}
	whole := func(o *osm.OSM, e error) {
		set(e, func() (bool, []el) {
			if o == nil {
				return false, nil
			}
			return true, osmEls(o, 0)
		})
	}
	ids := c.IDs
	if pkgLevel {
		// the package-level functions (they delegate to osmapi.DefaultDatasource, which the
		// caller has configured)
		switch c.Code {
		case 0:
			switch c.Elem {
			case 0:
				node(osmapi.Node(ctx, osm.NodeID(c.ID), fo...))
			case 1:
				way(osmapi.Way(ctx, osm.WayID(c.ID), fo...))
			case 2:
				rel(osmapi.Relation(ctx, osm.RelationID(c.ID), fo...))
			}
		case 1:
			switch c.Elem {
			case 0:
				l := make([]osm.NodeID, len(ids))
				for i, x := range ids {
					l[i] = osm.NodeID(x)
				}
				nodes(osmapi.Nodes(ctx, l, fo...))
			case 1:
				l := make([]osm.WayID, len(ids))
				for i, x := range ids {
					l[i] = osm.WayID(x)
				}
				ways(osmapi.Ways(ctx, l, fo...))
			case 2:
				l := make([]osm.RelationID, len(ids))
				for i, x := range ids {
					l[i] = osm.RelationID(x)
				}
				rels(osmapi.Relations(ctx, l, fo...))
			}
		case 2:
			switch c.Elem {
			case 0:
				node(osmapi.NodeVersion(ctx, osm.NodeID(c.ID), int(c.V)))
			case 1:
				way(osmapi.WayVersion(ctx, osm.WayID(c.ID), int(c.V)))
			case 2:
				rel(osmapi.RelationVersion(ctx, osm.RelationID(c.ID), int(c.V)))
			}
		case 3:
			switch c.Elem {
			case 0:
				nodes(osmapi.NodeHistory(ctx, osm.NodeID(c.ID)))
			case 1:
				ways(osmapi.WayHistory(ctx, osm.WayID(c.ID)))
			case 2:
				rels(osmapi.RelationHistory(ctx, osm.RelationID(c.ID)))
			}
		case 4:
			ways(osmapi.NodeWays(ctx, osm.NodeID(c.ID), fo...))
		case 5:
			switch c.Elem {
			case 0:
				rels(osmapi.NodeRelations(ctx, osm.NodeID(c.ID), fo...))
			case 1:
				rels(osmapi.WayRelations(ctx, osm.WayID(c.ID), fo...))
			case 2:
				rels(osmapi.RelationRelations(ctx, osm.RelationID(c.ID), fo...))
			}
		case 6:
			if c.Elem == 0 {
				whole(osmapi.WayFull(ctx, osm.WayID(c.ID), fo...))
			} else {
				whole(osmapi.RelationFull(ctx, osm.RelationID(c.ID), fo...))
			}
		case 7:
			whole(osmapi.Map(ctx, bounds, fo...))
		case 8, 9:
			var cs *osm.Changeset
			var e error
			if c.Code == 8 {
				cs, e = osmapi.Changeset(ctx, osm.ChangesetID(c.ID))
			} else {
				cs, e = osmapi.ChangesetWithDiscussion(ctx, osm.ChangesetID(c.ID))
			}
			set(e, func() (bool, []el) {
				if cs == nil {
					return false, nil
				}
				chk(4, int64(cs.ID), cs.User)
				return true, []el{{4, int64(cs.ID)}}
			})
		case 10:
			ch, e := osmapi.ChangesetDownload(ctx, osm.ChangesetID(c.ID))
			set(e, func() (bool, []el) {
				if ch == nil {
					return false, nil
				}
				var d []el
				d = append(d, osmEls(ch.Create, 10)...)
				d = append(d, osmEls(ch.Modify, 20)...)
				d = append(d, osmEls(ch.Delete, 30)...)
				return true, d
			})
		case 11:
			n, e := osmapi.Note(ctx, osm.NoteID(c.ID))
			set(e, func() (bool, []el) {
				if n == nil {
					return false, nil
				}
				chk(5, int64(n.ID), noteText(n))
				return true, []el{{5, int64(n.ID)}}
			})
		case 12:
			notes(osmapi.Notes(ctx, bounds, no...))
		case 13:
			notes(osmapi.NotesSearch(ctx, c.Q, no...))
		case 14:
			u, e := osmapi.User(ctx, osm.UserID(c.ID))
			set(e, func() (bool, []el) {
				if u == nil {
					return false, nil
				}
				chk(6, int64(u.ID), u.Name)
				return true, []el{{6, int64(u.ID)}}
			})
		}
	} else {
		switch c.Code {
		case 0:
			switch c.Elem {
			case 0:
				node(ds.Node(ctx, osm.NodeID(c.ID), fo...))
			case 1:
				way(ds.Way(ctx, osm.WayID(c.ID), fo...))
			case 2:
				rel(ds.Relation(ctx, osm.RelationID(c.ID), fo...))
			}
		case 1:
			switch c.Elem {
			case 0:
				l := make([]osm.NodeID, len(ids))
				for i, x := range ids {
					l[i] = osm.NodeID(x)
				}
				nodes(ds.Nodes(ctx, l, fo...))
			case 1:
				l := make([]osm.WayID, len(ids))
				for i, x := range ids {
					l[i] = osm.WayID(x)
				}
				ways(ds.Ways(ctx, l, fo...))
			case 2:
				l := make([]osm.RelationID, len(ids))
				for i, x := range ids {
					l[i] = osm.RelationID(x)
				}
				rels(ds.Relations(ctx, l, fo...))
			}
		case 2:
			switch c.Elem {
			case 0:
				node(ds.NodeVersion(ctx, osm.NodeID(c.ID), int(c.V)))
			case 1:
				way(ds.WayVersion(ctx, osm.WayID(c.ID), int(c.V)))
			case 2:
				rel(ds.RelationVersion(ctx, osm.RelationID(c.ID), int(c.V)))
			}
		case 3:
			switch c.Elem {
			case 0:
				nodes(ds.NodeHistory(ctx, osm.NodeID(c.ID)))
			case 1:
				ways(ds.WayHistory(ctx, osm.WayID(c.ID)))
			case 2:
				rels(ds.RelationHistory(ctx, osm.RelationID(c.ID)))
			}
		case 4:
			ways(ds.NodeWays(ctx, osm.NodeID(c.ID), fo...))
		case 5:
			switch c.Elem {
			case 0:
				rels(ds.NodeRelations(ctx, osm.NodeID(c.ID), fo...))
			case 1:
				rels(ds.WayRelations(ctx, osm.WayID(c.ID), fo...))
			case 2:
				rels(ds.RelationRelations(ctx, osm.RelationID(c.ID), fo...))
			}
		case 6:
			if c.Elem == 0 {
				whole(ds.WayFull(ctx, osm.WayID(c.ID), fo...))
			} else {
				whole(ds.RelationFull(ctx, osm.RelationID(c.ID), fo...))
			}
		case 7:
			whole(ds.Map(ctx, bounds, fo...))
		case 8, 9:
			var cs *osm.Changeset
			var e error
			if c.Code == 8 {
				cs, e = ds.Changeset(ctx, osm.ChangesetID(c.ID))
			} else {
				cs, e = ds.ChangesetWithDiscussion(ctx, osm.ChangesetID(c.ID))
			}
			set(e, func() (bool, []el) {
				if cs == nil {
					return false, nil
				}
				chk(4, int64(cs.ID), cs.User)
				return true, []el{{4, int64(cs.ID)}}
			})
		case 10:
			ch, e := ds.ChangesetDownload(ctx, osm.ChangesetID(c.ID))
			set(e, func() (bool, []el) {
				if ch == nil {
					return false, nil
				}
				var d []el
				d = append(d, osmEls(ch.Create, 10)...)
				d = append(d, osmEls(ch.Modify, 20)...)
				d = append(d, osmEls(ch.Delete, 30)...)
				return true, d
			})
		case 11:
			n, e := ds.Note(ctx, osm.NoteID(c.ID))
			set(e, func() (bool, []el) {
				if n == nil {
					return false, nil
				}
				chk(5, int64(n.ID), noteText(n))
				return true, []el{{5, int64(n.ID)}}
			})
		case 12:
			notes(ds.Notes(ctx, bounds, no...))
		case 13:
			notes(ds.NotesSearch(ctx, c.Q, no...))
		case 14:
			u, e := ds.User(ctx, osm.UserID(c.ID))
			set(e, func() (bool, []el) {
				if u == nil {
					return false, nil
				}
				chk(6, int64(u.ID), u.Name)
				return true, []el{{6, int64(u.ID)}}
			})
		}
	}
	return
}

// ---------- wire ----------

func putFloat(c *wire.Case, x float64) {
	switch {
	case math.IsNaN(x):
		c.Int(1).Bool(false).Int(0).Int(0)
	case math.IsInf(x, 0):
		c.Int(2).Bool(x < 0).Int(0).Int(0)
	case x == 0:
		c.Int(0).Bool(math.Signbit(x)).Int(0).Int(0)
	default:
		fr, exp := math.Frexp(math.Abs(x))
		m := int64(fr * (1 << 53))
		e := exp - 53
		for m%2 == 0 {
			m /= 2
			e++
		}
		c.Int(0).Bool(x < 0).Int(m).Int(int64(e))
	}
}

func putEls(c *wire.Case, l []el) {
	c.Len(len(l))
	for _, e := range l {
		c.Int(e.Kind).Int(e.ID)
	}
}

func putCall(c *wire.Case, k call) {
	c.Int(int64(k.Code))
	putF := func() {
		c.Len(len(k.FOpts))
		for _, a := range k.FOpts {
			c.Int(a.Unix)
		}
	}
	putN := func() {
		c.Len(len(k.NOpts))
		for _, o := range k.NOpts {
			c.Int(o.Kind).Int(o.N)
		}
	}
	putB := func() {
		for _, x := range k.B {
			putFloat(c, x)
		}
	}
	switch k.Code {
	case 0, 5, 6:
		c.Int(int64(k.Elem)).Int(k.ID)
		putF()
	case 1:
		c.Int(int64(k.Elem)).Ints(k.IDs)
		putF()
	case 2:
		c.Int(int64(k.Elem)).Int(k.ID).Int(k.V)
	case 3:
		c.Int(int64(k.Elem)).Int(k.ID)
	case 4:
		c.Int(k.ID)
		putF()
	case 7:
		putB()
		putF()
	case 8, 9, 10, 11, 14:
		c.Int(k.ID)
	case 12:
		putB()
		putN()
	case 13:
		c.Str(k.Q)
		putN()
	}
}

func putObserved(c *wire.Case, o observed) {
	c.Ints(o.Events)
	c.Len(len(o.Requests))
	for _, r := range o.Requests {
		c.Str(r.Method).Str(r.URL)
	}
	c.Int(o.Class).Bool(o.NotFound).Bool(o.HasData)
	putEls(c, o.Data)
	c.Bool(o.Panicked)
	c.Bool(o.ContentOK)
	c.Ints(o.Texts)
}

// world: everything outside the package that the call meets
type world struct {
	Lim       int      // 0 no limiter, 1 limiter grants, 2 limiter refuses
	Ctx       int      // 0 live, 1 cancelled before the call, 2 cancelled while the request is in flight
	Follow    bool     // client follows redirects (default policy) or hands the 3xx back
	Hops      []string // absolute Locations of the redirect answers preceding the final one
	HopStatus int
	// ClientNil: the Datasource has no Client of its own (the package's DefaultDatasource.Client is
	// used); DefaultLimiter: DefaultDatasource has a limiter of its own, which is none of this
	// Datasource's business (its Wait would be recorded as event 3)
	ClientNil      bool
	DefaultLimiter bool
	// PkgLevel: the call goes through the package-level function (osmapi.Node, ...), with the
	// configuration put on osmapi.DefaultDatasource
	PkgLevel bool
}

func plain(lim int) world { return world{Lim: lim, Follow: true, HopStatus: 302} }

type env struct {
	rec      *recorder
	client   *http.Client // default redirect policy
	noFollow *http.Client // CheckRedirect returns http.ErrUseLastResponse
	w        *wire.Writer
}

func putBody(c *wire.Case, b body) {
	if b.Cut > 0 {
		c.Int(0) // for model and specification a body cut short is an unreadable body
		return
	}
	c.Int(int64(b.Kind))
	switch b.Kind {
	case 1:
		putEls(c, b.Els)
	case 2:
		putEls(c, b.C)
		putEls(c, b.M)
		putEls(c, b.D)
	}
}

func encodeCase(c *wire.Case, base string, w world, k call, status int, b body, ob observed) {
	c.Int(1).Str(base).Int(int64(w.Lim)).Int(int64(w.Ctx)).Bool(w.Follow)
	c.Len(len(w.Hops))
	for _, h := range w.Hops {
		c.Str(h)
	}
	c.Int(int64(w.HopStatus))
	putCall(c, k)
	c.Int(int64(status))
	putBody(c, b)
	putObserved(c, ob)
}

func (e *env) doCase(class, base string, lim int, k call, status int, b body) (*wire.Case, observed) {
	return e.doCaseW(class, base, plain(lim), k, status, b)
}

// perform runs one call of the real implementation in the given world and records what happened
func (e *env) perform(base string, w world, k call, status int, b body) observed {
	lim := w.Lim
	e.rec.reset(status, b.xml())
	e.rec.mu.Lock()
	e.rec.hops, e.rec.hopStatus, e.rec.cut, e.rec.chunk = w.Hops, w.HopStatus, b.Cut, b.Chunk
	var arrived chan struct{}
	if w.Ctx == 2 {
		arrived = make(chan struct{})
		e.rec.arrived = arrived
	}
	e.rec.mu.Unlock()
	client := e.client
	if !w.Follow {
		client = e.noFollow
	}
	ds := &osmapi.Datasource{BaseURL: base, Client: client}
	if w.ClientNil {
		ds.Client = nil
		osmapi.DefaultDatasource.Client = client
	}
	if w.DefaultLimiter {
		osmapi.DefaultDatasource.Limiter = &limiter{rec: e.rec, foreign: true}
	}
	defer func() { osmapi.DefaultDatasource.Limiter = nil }()
	if lim > 0 {
		ds.Limiter = &limiter{rec: e.rec, fail: lim == 2}
	}
	ctx, cancel := context.WithCancel(context.Background())
	switch w.Ctx {
	case 1:
		cancel()
	case 2:
		go func() {
			select {
			case <-arrived:
			case <-time.After(3 * time.Second):
			}
			cancel()
		}()
	}
	contentOK = true
	lastTexts = nil
	if w.PkgLevel {
		// the package-level entry points: the same configuration on osmapi.DefaultDatasource
		saved := *osmapi.DefaultDatasource
		osmapi.DefaultDatasource.BaseURL, osmapi.DefaultDatasource.Client, osmapi.DefaultDatasource.Limiter = ds.BaseURL, ds.Client, ds.Limiter
		defer func() { *osmapi.DefaultDatasource = saved }()
		ds = osmapi.DefaultDatasource
	}
	hasData, data, err, panicked := run(ctx, ds, w.PkgLevel, k)
	texts := append([]int64(nil), lastTexts...)
	if !hasData {
		texts = nil
	}
	cancel()
	e.rec.mu.Lock()
	ob := observed{Events: append([]int64(nil), e.rec.events...), Requests: append([]request(nil), e.rec.requests...),
		Class: errClass(err), NotFound: ds.NotFound(err), HasData: hasData, Data: data, Panicked: panicked, ContentOK: contentOK, Texts: texts}
	e.rec.mu.Unlock()
	if err != nil {
		ob.ErrText = err.Error()
	}
	return ob
}

func (e *env) doCaseW(class, base string, w world, k call, status int, b body) (*wire.Case, observed) {
	ob := e.perform(base, w, k, status, b)
	c := &wire.Case{Class: class}
	encodeCase(c, base, w, k, status, b, ob)
	c.OracleFail = goOracle(base, w, k, status, b, ob)
	c.Desc = describe(base, w, k, status, b, ob)
	return c, ob
}

// doSeq: two calls in one process; the first result is kept as returned and re-read after the
// second call (a result must stay what the server answered to ITS call).  Token layout:
// tag 2, base, limiter, call1 status1 body1 observed1, call2 status2 body2 observed2,
// has_data and data of the first result as re-read after the second call.
func (e *env) doSeq(class, base string, lim int, k1 call, b1 body, k2 call, b2 body, attempts int) (*wire.Case, observed, observed, []el) {
	var ob1, ob2 observed
	var afterHas bool
	var after []el
	for a := 0; a < attempts; a++ {
		ob1 = e.perform(base, plain(lim), k1, 200, b1)
		first := lastView
		ob2 = e.perform(base, plain(lim), k2, 200, b2)
		lastTexts = nil
		afterHas, after = first()
		if afterHas != ob1.HasData || !sameEls(after, ob1.Data) {
			break // keep the deviating attempt
		}
	}
	c := &wire.Case{Class: class}
	encodeSeq(c, base, lim, k1, b1, ob1, k2, b2, ob2, afterHas, after)
	if msg := goOracle(base, plain(lim), k1, 200, b1, ob1); msg != "" {
		c.OracleFail = "first call: " + msg
	} else if msg := goOracle(base, plain(lim), k2, 200, b2, ob2); msg != "" {
		c.OracleFail = "second call: " + msg
	} else if afterHas != ob1.HasData || !sameEls(after, ob1.Data) {
		c.OracleFail = fmt.Sprintf("the first call returned %v; after the second call the same result reads %v", ob1.Data, after)
	}
	c.Desc = map[string]interface{}{
		"first_call":  describe(base, plain(lim), k1, 200, b1, ob1),
		"second_call": describe(base, plain(lim), k2, 200, b2, ob2),
		"first_result_reread_after_second_call(kind,id)": after, "first_result_still_non_nil": afterHas,
	}
	return c, ob1, ob2, after
}

func encodeSeq(c *wire.Case, base string, lim int, k1 call, b1 body, ob1 observed, k2 call, b2 body, ob2 observed, afterHas bool, after []el) {
	c.Int(2).Str(base).Int(int64(lim))
	putCall(c, k1)
	c.Int(200)
	putBody(c, b1)
	putObserved(c, ob1)
	putCall(c, k2)
	c.Int(200)
	putBody(c, b2)
	putObserved(c, ob2)
	c.Bool(afterHas)
	putEls(c, after)
}

func describe(base string, w world, k call, status int, b body, ob observed) map[string]interface{} {
	lim := w.Lim
	desc := map[string]interface{}{
		"base_url": base, "limiter": []string{"none", "ok", "fails"}[lim], "call": k.name(),
		"context":                        []string{"live", "cancelled before the call", "cancelled while the request is in flight"}[w.Ctx],
		"through_package_level_function": w.PkgLevel, "datasource_client_is_nil(DefaultDatasource.Client used)": w.ClientNil, "DefaultDatasource_has_its_own_limiter": w.DefaultLimiter,
		"client_follows_redirects": w.Follow, "redirect_locations": w.Hops, "redirect_status": w.HopStatus,
		"status": status, "body": b.xml(), "body_cut_short(0 no,1 content-length,2 chunk)": b.Cut, "body_delivered_in_pieces_of_bytes(0 = at once)": b.Chunk,
		"observed": map[string]interface{}{"events(1=wait,2=request)": ob.Events, "requests": ob.Requests, "error_class": ob.Class,
			"error": ob.ErrText, "not_found": ob.NotFound, "has_data": ob.HasData, "data(kind,id)": ob.Data, "panicked": ob.Panicked,
			"returned_elements_carry_the_text_the_server_sent": ob.ContentOK},
	}
	args := map[string]interface{}{}
	switch k.Code {
	case 1:
		args["ids"] = k.IDs
	case 2:
		args["id"], args["version"] = k.ID, k.V
	case 7, 12:
		args["bounds(minlon,minlat,maxlon,maxlat)"] = []string{fmtG(k.B[0]), fmtG(k.B[1]), fmtG(k.B[2]), fmtG(k.B[3])}
	case 13:
		args["query"] = k.Q
	default:
		args["id"] = k.ID
	}
	if k.hasFOpts() {
		var l []string
		for _, a := range k.FOpts {
			l = append(l, time.Unix(a.Unix, a.Nsec).In(time.FixedZone("z", a.Zone)).Format(time.RFC3339Nano))
		}
		args["at"] = l
	}
	if k.hasNOpts() {
		var l []string
		for _, o := range k.NOpts {
			l = append(l, fmt.Sprintf("%s(%d)", []string{"Limit", "MaxDaysClosed"}[o.Kind], o.N))
		}
		args["notes_options"] = l
	}
	desc["args"] = args
	return desc
}

func fmtG(x float64) string { return fmt.Sprintf("%.17g", x) }

// ---------- generators ----------

var statuses = []int{200, 403, 404, 410, 414, 301, 400, 429, 500, 503}
var extraStatuses = []int{201, 202, 206, 300, 304, 401, 405, 409, 412, 418, 451, 502, 504, 599}

var bases = []string{
	"",                                     // package default
	"http://api.openstreetmap.org/api/0.6", // the default, explicitly
	"http://osm.test",                      // no path prefix
	"http://osm.test:8080/api/0.6",
	"http://osm.test/a/b/c",
	"http://osm.test/api/0.6/", // trailing slash
	"http://127.0.0.1:9/x",
	"http://osm.test/OSM%20Mirror/api/0.6", // percent-escaped mount point
	"http://proxy.test/fetch/https%3A%2F%2Fapi.osm.org/api/0.6", // an escaped URL inside the path
	"http://osm.test/100%25/api",                                // an escaped percent sign
}

var idBoundaries = []int64{0, 1, 2, 9, 10, 11, 99, 100, 101, 999999, 1000000, 2147483647, 2147483648, 4294967295, 4294967296,
	1099511627775, 1099511627776, 9007199254740993, 9223372036854775807, -1, -10, -9223372036854775808}

var timeBoundaries = []int64{0, 1, -1, 59, 60, 3599, 3600, 86399, 86400, 1451606400, 951782400, 951868799, 951868800, 1078099199,
	4107542400, 4102444799, -62135596800, 253402300799, 978307200, 1709251199, 1709251200, -2208988800, 68256000}

var queries = []string{"", "asdf", "a b", "a&b=c", "100%", "caf\xc3\xa9", "a+b", "~-_.", "/?#:@", "\x00\x01\x7f\xff", "q=1&limit=5",
	"  ", "%41", "x;y,z", "\"<>'", "A-Za-z0-9", "\n\t", "日本", "=", "&", "?"}

func randFloat(rng *rand.Rand, exact6 bool) float64 {
	lim := 180.0
	switch rng.Intn(8) {
	case 0:
		return float64(rng.Intn(361) - 180)
	case 1: // k / 10^6
		return float64(rng.Int63n(360000001)-180000000) / 1e6
	case 2: // k / 2^n: exact binary fractions; beyond 2^-6 most need more than six decimals
		if exact6 {
			return float64(rng.Int63n(1<<14)-(1<<13)) / float64(int64(1)<<uint(rng.Intn(7)))
		}
		return float64(rng.Int63n(1<<20)-(1<<19)) / float64(int64(1)<<uint(rng.Intn(12)))
	case 3:
		if exact6 {
			return float64(rng.Int63n(1000)) / 1e3
		}
		return float64(rng.Int63n(3600000001)-1800000000) / 1e7 // 7 decimals
	case 4:
		if exact6 {
			return float64(rng.Int63n(100000)) / 1e5
		}
		return (rng.Float64()*2 - 1) * lim
	case 5:
		return float64(rng.Int63n(360000001)-180000000)/1e6 + (rng.Float64()-0.5)*1e-8 // within the tolerance
	case 6:
		return float64(rng.Int63n(3601)-1800) / 10
	}
	return float64(rng.Int63n(360000001)-180000000) / 1e6
}

var floatBoundaries = []float64{0, math.Copysign(0, -1), 1, -1, 0.5, 0.0078125, 0.0000005, 0.0000015, 0.0000025, -0.0000005, 180, -180, 90, -90,
	179.999999, -179.999999, 0.000001, 0.999999, 0.9999995, 0.99999949, 1e-9, -1e-9, 1e15, 123456789.125, 0.1, 0.2, 0.30000000000000004,
	1.1234564, 1.1234565, 1.1234566, -73.9857123, 40.7484405, 4503599627370496.5, 0.0000004999}

func (c *call) randOpts(rng *rand.Rand) {
	if c.hasFOpts() {
		n := []int{0, 0, 1, 1, 2, 3}[rng.Intn(6)]
		for i := 0; i < n; i++ {
			a := atOpt{Unix: timeBoundaries[rng.Intn(len(timeBoundaries))]}
			if rng.Intn(2) == 0 {
				a.Unix = rng.Int63n(253402300799+62135596800) - 62135596800
			}
			if rng.Intn(3) == 0 {
				a.Nsec = rng.Int63n(1000000000)
			}
			a.Zone = []int{0, 0, 19800, -28800, 3600, -12600, 50400}[rng.Intn(7)]
			c.FOpts = append(c.FOpts, a)
		}
	}
	if c.hasNOpts() {
		n := []int{0, 0, 1, 1, 2, 2, 3}[rng.Intn(7)]
		for i := 0; i < n; i++ {
			if rng.Intn(2) == 0 {
				c.NOpts = append(c.NOpts, nOpt{0, []int64{1, 2, 100, 9999, 10000, 10000, 5, 50, 0, 10001, -1}[rng.Intn(11)]})
			} else {
				c.NOpts = append(c.NOpts, nOpt{1, []int64{0, -1, 7, 1, 365, -100, 9223372036854775807}[rng.Intn(7)]})
			}
		}
	}
}

func randCall(rng *rand.Rand, code, elem int) call {
	c := call{Code: code, Elem: elem}
	if rng.Intn(3) == 0 {
		c.ID = idBoundaries[rng.Intn(len(idBoundaries))]
	} else {
		c.ID = rng.Int63n(1 << uint(1+rng.Intn(62)))
	}
	c.V = []int64{1, 2, 0, 10, 65535, -1, 9223372036854775807, 3}[rng.Intn(8)]
	if code == 1 {
		n := []int{0, 1, 1, 2, 3, 5, 20, 60}[rng.Intn(8)]
		for i := 0; i < n; i++ {
			if rng.Intn(4) == 0 {
				c.IDs = append(c.IDs, idBoundaries[rng.Intn(len(idBoundaries))])
			} else {
				c.IDs = append(c.IDs, rng.Int63n(1<<uint(1+rng.Intn(40))))
			}
		}
		if c.IDs == nil {
			c.IDs = []int64{}
		}
	}
	if c.hasBounds() {
		exact := rng.Intn(8) != 0
		for i := range c.B {
			if rng.Intn(5) == 0 && exact {
				c.B[i] = float64(rng.Intn(361) - 180)
			} else {
				c.B[i] = randFloat(rng, exact)
			}
		}
	}
	if code == 13 {
		if rng.Intn(2) == 0 {
			c.Q = queries[rng.Intn(len(queries))]
		} else {
			n := rng.Intn(12)
			bs := make([]byte, n)
			for i := range bs {
				if rng.Intn(3) == 0 {
					bs[i] = byte(rng.Intn(256))
				} else {
					const punct = " !\"#$%&'()*+,-./09:;<=>?@AZ[\\]^_`az{|}~"
					bs[i] = punct[rng.Intn(len(punct))]
				}
			}
			c.Q = string(bs)
		}
	}
	c.randOpts(rng)
	return c
}

// the element kind a call looks at (0 = every kind)
func (c call) wantKind() int64 {
	switch c.Code {
	case 0, 1, 2, 3:
		return int64(c.Elem + 1)
	case 4:
		return 2
	case 5:
		return 3
	case 8, 9:
		return 4
	case 11, 12, 13:
		return 5
	case 14:
		return 6
	}
	return 0
}

// not well-formed for any target
var malformed = []string{"", "not xml at all", `<osm><node id="1"`, `<osm><way id="1"></osm>`, "\x00\x01\x02",
	`<osm version="0.6"><node id="1" lat="1" lon="1"/>`, `<osmChange><create><node id="1"/></create>`}

// well-formed, but an attribute/element the osm.OSM target declares has a value of the wrong type
var malformedOSM = []string{`<osm><node id="abc"/></osm>`, `<osm><note><id>x</id></note></osm>`, `<osm><way id="1" version="one"/></osm>`}

func randEls(rng *rand.Rand, want int64, n int, mixed bool) []el {
	l := []el{}
	for i := 0; i < n; i++ {
		k := want
		if k == 0 || (mixed && rng.Intn(3) == 0) {
			k = int64(1 + rng.Intn(6))
		}
		l = append(l, el{k, rng.Int63n(1 << uint(1+rng.Intn(40)))})
	}
	return l
}

func randBody(rng *rand.Rand, c call) body {
	want := c.wantKind()
	r := rng.Intn(20)
	switch {
	case r == 0:
		if c.Code != 10 && rng.Intn(3) == 0 {
			return body{Kind: 0, Raw: malformedOSM[rng.Intn(len(malformedOSM))]}
		}
		return body{Kind: 0, Raw: malformed[rng.Intn(len(malformed))]}
	case r == 1 && c.Code != 10:
		return body{Kind: 2, C: randEls(rng, 0, rng.Intn(3), true), M: randEls(rng, 0, rng.Intn(3), true), D: randEls(rng, 0, rng.Intn(2), true)}
	case r == 2 && c.Code == 10:
		return body{Kind: 1, Els: randEls(rng, 0, rng.Intn(4), true)}
	}
	if c.Code == 10 {
		b := body{Kind: 2}
		if rng.Intn(4) != 0 {
			b.C = randEls(rng, 0, rng.Intn(4), true)
		}
		if rng.Intn(4) != 0 {
			b.M = randEls(rng, 0, rng.Intn(4), true)
		}
		if rng.Intn(4) != 0 {
			b.D = randEls(rng, 0, rng.Intn(3), true)
		}
		return b
	}
	n := []int{0, 1, 1, 1, 2, 3, 7}[rng.Intn(7)]
	b := body{Kind: 1, Els: randEls(rng, want, n, false)}
	if rng.Intn(3) == 0 { // surround with elements of other kinds
		b.Els = append(randEls(rng, 0, rng.Intn(3), true), b.Els...)
		b.Els = append(b.Els, randEls(rng, 0, rng.Intn(3), true)...)
	}
	return b
}

type variant struct{ code, elem int }

func variants() []variant {
	var v []variant
	for _, code := range []int{0, 1, 2, 3, 5} {
		for e := 0; e < 3; e++ {
			v = append(v, variant{code, e})
		}
	}
	v = append(v, variant{4, 0}, variant{6, 0}, variant{6, 1})
	for code := 7; code <= 14; code++ {
		v = append(v, variant{code, 0})
	}
	return v
}

func main() {
	a := wire.ParseArgs()
	rng := wire.Rng(a.Seed)
	w := wire.NewWriter("C20", a.Seed, a.Tier)
	w.Rule = "one real osmapi.Datasource call per case against a recording local server; distinct = distinct (base URL, limiter, call with arguments/options, status, body, observation) token lists; trivial = none"

	rec := &recorder{}
	srv := httptest.NewServer(rec)
	defer srv.Close()
	addr := srv.Listener.Addr().String()
	client := &http.Client{
		Timeout: 20 * time.Second,
		Transport: &http.Transport{
			DialContext: func(ctx context.Context, network, _ string) (net.Conn, error) {
				return (&net.Dialer{}).DialContext(ctx, network, addr)
			},
			MaxIdleConnsPerHost: 4,
		},
	}
	noFollow := &http.Client{Timeout: 20 * time.Second, Transport: client.Transport,
		CheckRedirect: func(*http.Request, []*http.Request) error { return http.ErrUseLastResponse }}
	e := &env{rec: rec, client: client, noFollow: noFollow, w: w}
	add := func(c *wire.Case, ob observed) {
		w.Add(c)
		w.Count(fmt.Sprintf("error_class:%d", ob.Class))
		w.Count(fmt.Sprintf("requests:%d", len(ob.Requests)))
	}
	scale := a.Scale
	if a.Tier == "thorough" {
		scale *= 6
	}
	vs := variants()
	okBody := func(k call) body {
		if k.Code == 10 {
			return body{Kind: 2, C: []el{{1, 4}}, M: []el{{2, 5}, {1, 6}}, D: []el{{3, 7}}}
		}
		want := k.wantKind()
		if want == 0 {
			return body{Kind: 1, Els: []el{{2, 9}, {1, 3}, {1, 4}, {3, 8}}}
		}
		return body{Kind: 1, Els: []el{{want, 77}}}
	}

	// 0. fixed corpus: minimised past failures / corner cases found while building the check
	{
		fixed := []struct {
			base string
			lim  int
			k    call
			st   int
			b    body
		}{
			{"http://osm.test/api/0.6", 1, call{Code: 7, B: [4]float64{1, 2, 3, 4}}, 200, body{Kind: 1, Els: []el{{1, 1}, {2, 2}}}},
			{"http://osm.test/api/0.6", 0, call{Code: 7, B: [4]float64{-0.1234564, 51.5, -0.12, 51.5000001}}, 200, body{Kind: 1, Els: []el{}}},
			{"http://osm.test/api/0.6", 0, call{Code: 12, B: [4]float64{0.0078125, 0.0000005, 0.0000015, 0.0000025}}, 200, body{Kind: 1, Els: []el{{5, 1}}}},
			{"http://osm.test/api/0.6/", 2, call{Code: 0, Elem: 0, ID: 1}, 200, body{Kind: 1, Els: []el{{1, 1}}}},
			{"", 1, call{Code: 12, B: [4]float64{1, 2, 3, 4}, NOpts: []nOpt{{0, 0}}}, 200, body{Kind: 1, Els: []el{{5, 1}}}},
			{"", 1, call{Code: 13, Q: "a b&c=d/\xc3\xa9~", NOpts: []nOpt{{1, -1}, {0, 10000}}}, 200, body{Kind: 1, Els: []el{{5, 1}, {5, 2}}}},
			{"http://osm.test", 0, call{Code: 0, Elem: 0, ID: 5}, 200, body{Kind: 1, Els: []el{{1, 5}, {1, 6}}}},
			{"http://osm.test", 0, call{Code: 0, Elem: 1, ID: 5}, 200, body{Kind: 1, Els: []el{{1, 5}}}},
			{"http://osm.test", 0, call{Code: 1, Elem: 2, IDs: []int64{}}, 200, body{Kind: 1, Els: []el{}}},
			{"http://osm.test", 0, call{Code: 1, Elem: 0, IDs: []int64{1, -2, 30}, FOpts: []atOpt{{Unix: 1451606400, Zone: 19800}}}, 414, body{Kind: 1, Els: []el{{1, 1}}}},
			{"http://osm.test", 1, call{Code: 10, ID: 9}, 200, body{Kind: 1, Els: []el{{1, 5}}}},
			{"http://osm.test", 1, call{Code: 8, ID: 9}, 200, body{Kind: 2, C: []el{{4, 5}}}},
			{"http://osm.test", 1, call{Code: 14, ID: 9}, 404, body{Kind: 0, Raw: ""}},
			{"http://osm.test", 1, call{Code: 11, ID: 9}, 200, body{Kind: 0, Raw: ""}},
		}
		for _, f := range fixed {
			c, ob := e.doCase("corpus", f.base, f.lim, f.k, f.st, f.b)
			add(c, ob)
		}
	}

	// 1. every call x every status (bodies carry elements: a non-200 must not return them)
	for _, v := range vs {
		for _, st := range append(append([]int{}, statuses...), extraStatuses[rng.Intn(len(extraStatuses))]) {
			k := randCall(rng, v.code, v.elem)
			k.NOpts = validOnly(k.NOpts)
			b := okBody(k)
			if rng.Intn(4) == 0 {
				b = randBody(rng, k)
			}
			c, ob := e.doCase("status", bases[2+rng.Intn(3)], rng.Intn(2), k, st, b)
			add(c, ob)
			w.Count(fmt.Sprintf("status:%d", st))
		}
	}
	// 2. every call x every base URL x limiter mode
	for _, v := range vs {
		for bi, base := range bases {
			for lim := 0; lim < 3; lim++ {
				if lim == 2 && bi%3 != 0 {
					continue
				}
				k := randCall(rng, v.code, v.elem)
				c, ob := e.doCase("base-limiter", base, lim, k, 200, okBody(k))
				add(c, ob)
				w.Count(fmt.Sprintf("limiter:%d", lim))
			}
		}
	}
	// 3. id boundaries on every id-taking call
	for _, v := range vs {
		if v.code == 7 || v.code == 12 || v.code == 13 {
			continue
		}
		for i, id := range idBoundaries {
			if (i+v.code+v.elem)%3 != 0 && a.Tier != "thorough" {
				continue
			}
			k := randCall(rng, v.code, v.elem)
			k.ID = id
			if v.code == 1 {
				k.IDs = append([]int64{id}, k.IDs...)
			}
			c, ob := e.doCase("id-boundary", bases[2], 0, k, 200, okBody(k))
			add(c, ob)
		}
	}
	// 4. element counts 0 / 1 / 2 / many of the wanted kind, alone and among other kinds
	for _, v := range vs {
		for _, n := range []int{0, 1, 2, 5} {
			for mixed := 0; mixed < 2; mixed++ {
				k := randCall(rng, v.code, v.elem)
				k.NOpts = validOnly(k.NOpts)
				var b body
				if v.code == 10 {
					b = body{Kind: 2, C: randEls(rng, 0, n, true), M: randEls(rng, 0, mixed*n, true), D: randEls(rng, 0, mixed, true)}
				} else {
					b = body{Kind: 1, Els: randEls(rng, k.wantKind(), n, false)}
					if mixed == 1 {
						b.Els = append(randEls(rng, 0, 2, true), b.Els...)
						// make sure the other kinds really are other kinds
						for i := 0; i < 2; i++ {
							if b.Els[i].Kind == k.wantKind() {
								b.Els[i].Kind = k.wantKind()%6 + 1
							}
						}
					}
				}
				c, ob := e.doCase("count", bases[3], rng.Intn(2), k, 200, b)
				add(c, ob)
				w.Count(fmt.Sprintf("elements:%d", n))
			}
		}
	}
	// 5. options: time boundaries and zones, notes option subsets and orders, queries, bboxes
	for _, t := range timeBoundaries {
		v := vs[rng.Intn(len(vs))]
		for !(call{Code: v.code}).hasFOpts() {
			v = vs[rng.Intn(len(vs))]
		}
		k := randCall(rng, v.code, v.elem)
		k.FOpts = []atOpt{{Unix: t, Nsec: int64(rng.Intn(2)) * 999999999, Zone: []int{0, 19800, -28800}[rng.Intn(3)]}}
		c, ob := e.doCase("at", bases[2], 0, k, 200, okBody(k))
		add(c, ob)
	}
	for _, opts := range [][]nOpt{{}, {{0, 1}}, {{0, 10000}}, {{0, 0}}, {{0, 10001}}, {{0, -7}}, {{1, 0}}, {{1, -1}}, {{1, 7}}, {{0, 5}, {1, 4}}, {{1, 4}, {0, 5}},
		{{0, 5}, {0, 6}}, {{1, 1}, {0, 0}}, {{0, 3}, {1, 2}, {0, 10001}}, {{1, 9223372036854775807}}, {{1, -9223372036854775808}}} {
		for _, code := range []int{12, 13} {
			k := randCall(rng, code, 0)
			k.NOpts = opts
			for i := range k.B {
				k.B[i] = float64(rng.Intn(180))
			}
			c, ob := e.doCase("notes-options", bases[2], 1, k, 200, okBody(k))
			add(c, ob)
		}
	}
	for _, q := range queries {
		k := randCall(rng, 13, 0)
		k.Q = q
		c, ob := e.doCase("query", bases[2], 0, k, 200, okBody(k))
		add(c, ob)
	}
	for i, x := range floatBoundaries {
		k := randCall(rng, []int{7, 12}[i%2], 0)
		k.NOpts = validOnly(k.NOpts)
		k.B = [4]float64{1, 2, 3, 4}
		k.B[i%4] = x
		c, ob := e.doCase("bbox", bases[2], 0, k, 200, okBody(k))
		add(c, ob)
	}
	// 6. random mix
	nrand := int(700 * scale)
	for i := 0; i < nrand; i++ {
		v := vs[rng.Intn(len(vs))]
		k := randCall(rng, v.code, v.elem)
		st := 200
		if rng.Intn(3) == 0 {
			all := append(append([]int{}, statuses...), extraStatuses...)
			st = all[rng.Intn(len(all))]
		}
		lim := []int{0, 1, 1, 2}[rng.Intn(4)]
		if rng.Intn(10) != 0 {
			lim = lim % 2
		}
		c, ob := e.doCase("random", bases[rng.Intn(len(bases))], lim, k, st, randBody(rng, k))
		add(c, ob)
	}

	// 7. redirects: the server answers 3xx with a Location n times before its final answer;
	//    clients that follow (at most 10 requests in all) and clients that hand the 3xx back
	hopURL := func(i int) string {
		return []string{"http://mirror.test/api/0.6/elsewhere", "http://osm.test/moved/x?y=1", "http://h3.test:81/a", "http://osm.test/api/0.6/node/1"}[i%4] + strconv.Itoa(i)
	}
	for _, nh := range []int{1, 2, 3, 8, 9, 10, 11, 14} {
		for _, hs := range []int{301, 302, 303, 307, 308} {
			if nh > 3 && hs != 302 && hs != 308 && a.Tier != "thorough" {
				continue
			}
			for _, follow := range []bool{true, false} {
				v := vs[rng.Intn(len(vs))]
				k := randCall(rng, v.code, v.elem)
				k.NOpts = validOnly(k.NOpts)
				wd := world{Lim: rng.Intn(2), Follow: follow, HopStatus: hs}
				for i := 0; i < nh; i++ {
					wd.Hops = append(wd.Hops, hopURL(i))
				}
				st := []int{200, 200, 200, 404, 500, 410}[rng.Intn(6)]
				c, ob := e.doCaseW("redirect", bases[2+rng.Intn(3)], wd, k, st, okBody(k))
				add(c, ob)
				w.Count(fmt.Sprintf("redirect_hops:%d", nh))
			}
		}
	}
	// 8. cancellation: before the call (nothing may be sent; a limiter is asked and refuses),
	//    and while the one request is in flight
	for _, v := range vs {
		for _, cx := range []int{1, 2} {
			for lim := 0; lim < 3; lim++ {
				if lim == 2 && cx == 2 {
					continue
				}
				if (v.code+v.elem+lim+cx)%2 == 0 && a.Tier != "thorough" {
					continue
				}
				k := randCall(rng, v.code, v.elem)
				wd := plain(lim)
				wd.Ctx = cx
				c, ob := e.doCaseW("cancel", bases[2], wd, k, 200, okBody(k))
				add(c, ob)
				w.Count(fmt.Sprintf("context:%d", cx))
			}
		}
	}

	// 9. the answer's body is cut short (short of its Content-Length, or inside a chunk): every
	//    status class keeps its typed error (the body of an error page is irrelevant), a 200
	//    becomes an ordinary error, never partial data
	for _, v := range vs {
		for _, st := range []int{200, 404, 403, 410, 414, 500, 400} {
			k := randCall(rng, v.code, v.elem)
			k.NOpts = validOnly(k.NOpts)
			b := okBody(k)
			if st == 200 && rng.Intn(2) == 0 {
				b = randBody(rng, k)
				if b.Kind == 0 {
					b = okBody(k)
				}
			}
			b.Cut = 1 + rng.Intn(2)
			c, ob := e.doCaseW("body-cut", bases[2+rng.Intn(3)], plain(rng.Intn(2)), k, st, b)
			add(c, ob)
			w.Count(fmt.Sprintf("cut:%d", b.Cut))
		}
	}
	// 10. sequences: a result must not change when later calls are made.  One P, so that an
	//     implementation recycling buffers (sync.Pool and the like) meets its own leftovers.
	{
		procs := runtime.GOMAXPROCS(1)
		seqBody := func(k call, n int, idBase int64) body {
			if k.Code == 10 {
				return body{Kind: 2, C: []el{{1, idBase + 1}, {2, idBase + 2}}, M: []el{{3, idBase + 3}}, D: []el{{1, idBase + 4}}}
			}
			want := k.wantKind()
			var l []el
			for i := 0; i < n; i++ {
				kind := want
				if kind == 0 {
					kind = int64(1 + i%3)
				}
				l = append(l, el{kind, idBase + int64(i)})
			}
			if want != 0 && shapeOne(k) {
				l = l[:1]
			}
			return body{Kind: 1, Els: l}
		}
		for i, v := range vs {
			for rep := 0; rep < 2; rep++ {
				k1 := randCall(rng, v.code, v.elem)
				k1.NOpts = validOnly(k1.NOpts)
				v2 := v
				if rep == 1 { // another call looking at the same element kind, if there is one
					for _, cand := range vs {
						if cand != v && (call{Code: cand.code, Elem: cand.elem}).wantKind() == (call{Code: v.code, Elem: v.elem}).wantKind() && rng.Intn(2) == 0 {
							v2 = cand
						}
					}
				}
				k2 := randCall(rng, v2.code, v2.elem)
				k2.NOpts = validOnly(k2.NOpts)
				b1 := seqBody(k1, 5, int64(1000*(i+1)))
				b2 := seqBody(k2, 1+rng.Intn(3), int64(500000+1000*i))
				c, ob1, ob2, _ := e.doSeq("sequence", bases[2], rng.Intn(2), k1, b1, k2, b2, 6)
				w.Add(c)
				w.Count(fmt.Sprintf("error_class:%d", ob1.Class))
				w.Count(fmt.Sprintf("error_class:%d", ob2.Class))
			}
		}
		runtime.GOMAXPROCS(procs)
	}

	// 11. content and delivery: non-ASCII element texts, bodies trickling in in pieces of 1..7 bytes
	//     (reads end inside multi-byte characters) and bodies larger than the 4 KiB buffers
	for _, v := range vs {
		for _, chunk := range []int{1, 2, 3, 7} {
			if (v.code+v.elem+chunk)%2 == 0 && a.Tier != "thorough" {
				continue
			}
			k := randCall(rng, v.code, v.elem)
			k.NOpts = validOnly(k.NOpts)
			b := randBody(rng, k)
			if b.Kind == 0 || b.Cut > 0 {
				b = okBody(k)
			}
			b.Chunk = chunk
			c, ob := e.doCaseW("trickle", bases[2], plain(0), k, 200, b)
			add(c, ob)
			w.Count(fmt.Sprintf("chunk:%d", chunk))
		}
	}
	for _, v := range vs {
		if v.code == 10 || (call{Code: v.code, Elem: v.elem}).wantKind() == 0 || shapeOne(call{Code: v.code}) {
			continue
		}
		nbig := 120 // ~12 KiB of elements; thorough: ~500 KiB
		if a.Tier == "thorough" {
			nbig = 4000
		}
		k := randCall(rng, v.code, v.elem)
		k.NOpts = validOnly(k.NOpts)
		b := body{Kind: 1, Els: randEls(rng, k.wantKind(), nbig, false)}
		if v.code%2 == 0 {
			b.Chunk = 4093 // a prime just below the buffer size
		}
		c, ob := e.doCaseW("big-body", bases[2], plain(0), k, 200, b)
		add(c, ob)
	}
	// 12. a Datasource without a Client of its own (the package default client is used), with its
	//     own limiter in every mode, while DefaultDatasource has or has not a limiter of its own
	for _, v := range vs {
		for lim := 0; lim < 3; lim++ {
			for _, dl := range []bool{false, true} {
				if (v.code+v.elem+lim)%3 != 0 && a.Tier != "thorough" {
					continue
				}
				k := randCall(rng, v.code, v.elem)
				k.NOpts = validOnly(k.NOpts)
				wd := plain(lim)
				wd.ClientNil, wd.DefaultLimiter = true, dl
				c, ob := e.doCaseW("client-nil", bases[2+rng.Intn(3)], wd, k, 200, okBody(k))
				add(c, ob)
				w.Count(fmt.Sprintf("client_nil_limiter:%d", lim))
			}
		}
	}
	// 12b. the package-level functions (osmapi.Node, osmapi.Nodes, ...): every call x limiter mode,
	//      configuration on DefaultDatasource
	for _, v := range vs {
		for lim := 0; lim < 3; lim++ {
			if (v.code+v.elem+lim)%2 != 0 && a.Tier != "thorough" {
				continue
			}
			k := randCall(rng, v.code, v.elem)
			k.NOpts = validOnly(k.NOpts)
			wd := plain(lim)
			wd.PkgLevel = true
			st := []int{200, 200, 404, 500}[rng.Intn(4)]
			c, ob := e.doCaseW("package-level", bases[rng.Intn(5)], wd, k, st, okBody(k))
			add(c, ob)
		}
	}
	// 13. long request targets: just below / at / above the sizes servers and proxies use as limits
	//     (the answer, not the length, decides the result); bigger ones in the thorough tier
	{
		lengths := []int{2047, 2048, 2049, 4096, 4097, 8176, 8177, 8189, 8190, 8191, 8192, 8193}
		if a.Tier == "thorough" {
			lengths = append(lengths, 16384, 16385, 32768, 32769, 65535, 65536, 65537)
		}
		for i, L := range lengths {
			base := []string{"http://osm.test/api/0.6", "http://osm.test", "http://osm.test:8080/a/rather/long/mount/point/api/0.6"}[i%3]
			elem := i % 3
			k := call{Code: 1, Elem: elem, IDs: idsForURLLen(base, elemNames[elem]+"s", L)}
			st := []int{200, 200, 200, 414, 404}[i%5]
			c, ob := e.doCaseW("long-url", base, plain(i%2), k, st, okBody(k))
			add(c, ob)
			w.Count(fmt.Sprintf("url_length:%d", L))
			if L >= 8189 && L <= 8193 {
				q := call{Code: 13, Q: strings.Repeat("a", L-len(base)-len("/notes/search?q="))}
				c, ob := e.doCaseW("long-url", base, plain(0), q, 200, okBody(q))
				add(c, ob)
			}
		}
	}

	// 14. bases the client refuses before anything is sent (http.NewRequest fails or the transport
	//     has no scheme to use): the limiter, if any, is asked; nothing is sent; an ordinary error
	for _, bad := range []string{"http://osm.test/a\x7fb/api", "http://osm.test/%zz/api/0.6", "http://bad host/api/0.6",
		"osm.test/api/0.6", "ftp://osm.test/api/0.6", "http://osm.test/api\n/0.6", "http://osm.test/100%/api", "://osm.test"} {
		for _, v := range vs {
			if (v.code+v.elem+len(bad))%4 != 0 && a.Tier != "thorough" {
				continue
			}
			for lim := 0; lim < 3; lim++ {
				k := randCall(rng, v.code, v.elem)
				k.NOpts = validOnly(k.NOpts)
				c, ob := e.doCaseW("unusable-base", bad, plain(lim), k, 200, okBody(k))
				add(c, ob)
			}
		}
	}

	// canaries: one corrupted observation per observable class; Coq must flag exactly these
	{
		mk := func(mut func(ob *observed), k call, st int, lim int) {
			b := okBody(k)
			c, ob := e.doCase("", "http://osm.test/api/0.6", lim, k, st, b)
			// rebuild the case with the corrupted observation; when the implementation's behaviour
			// has changed so much that the intended corruption does not apply, corrupt the verdict
			func() {
				defer func() {
					if recover() != nil {
						ob.Panicked = !ob.Panicked
						ob.Class = (ob.Class + 1) % 7
					}
				}()
				mut(&ob)
			}()
			c2 := &wire.Case{Canary: 1, Desc: c.Desc}
			encodeCase(c2, "http://osm.test/api/0.6", plain(lim), k, st, b, ob)
			w.Add(c2)
		}
		get := call{Code: 0, Elem: 0, ID: 12345}
		mk(func(ob *observed) { ob.Requests[0].URL = strings.Replace(ob.Requests[0].URL, "/node/", "/nodes/", 1) }, get, 200, 1)
		mk(func(ob *observed) { ob.Requests[0].URL = strings.Replace(ob.Requests[0].URL, "12345", "12346", 1) }, get, 200, 0)
		mk(func(ob *observed) { ob.Requests[0].Method = "POST" }, get, 200, 0)
		mk(func(ob *observed) { ob.Events[0], ob.Events[1] = ob.Events[1], ob.Events[0] }, get, 200, 1)
		mk(func(ob *observed) {
			ob.Requests = append(ob.Requests, ob.Requests[0])
			ob.Events = append(ob.Events, 2)
		}, get, 200, 0)
		mk(func(ob *observed) { ob.Class = 1 }, get, 403, 0)
		mk(func(ob *observed) { ob.NotFound = true }, get, 410, 0)
		mk(func(ob *observed) { ob.NotFound = false }, get, 404, 0)
		mk(func(ob *observed) { ob.Data[0].ID++ }, get, 200, 0)
		mk(func(ob *observed) { ob.HasData, ob.Data = true, []el{{1, 77}} }, get, 500, 0)
		mk(func(ob *observed) { ob.Data = ob.Data[:len(ob.Data)-1] }, call{Code: 7, B: [4]float64{1, 2, 3, 4}}, 200, 0)
		mk(func(ob *observed) {
			ob.Requests[0].URL = strings.Replace(ob.Requests[0].URL, "2.000000", "2.000001", 1)
		}, call{Code: 7, B: [4]float64{1, 2, 3, 4}}, 200, 0)
		mk(func(ob *observed) { ob.Requests[0].URL = strings.Replace(ob.Requests[0].URL, "q=a+b", "q=a%2Bb", 1) }, call{Code: 13, Q: "a b"}, 200, 0)
		mk(func(ob *observed) {
			ob.Requests[0].URL = strings.Replace(ob.Requests[0].URL, "T00:00:00Z", "T05:30:00Z", 1)
		},
			call{Code: 6, Elem: 1, ID: 3, FOpts: []atOpt{{Unix: 1451606400, Zone: 19800}}}, 200, 0)
		mk(func(ob *observed) { ob.Panicked = true }, get, 200, 0)
		mkw := func(mut func(ob *observed), wd world, k call, st int) {
			b := okBody(k)
			c, ob := e.doCaseW("", "http://osm.test/api/0.6", wd, k, st, b)
			func() {
				defer func() {
					if recover() != nil {
						ob.Panicked = !ob.Panicked
						ob.Class = (ob.Class + 1) % 7
					}
				}()
				mut(&ob)
			}()
			c2 := &wire.Case{Canary: 1, Desc: c.Desc}
			encodeCase(c2, "http://osm.test/api/0.6", wd, k, st, b, ob)
			w.Add(c2)
		}
		two := world{Follow: true, HopStatus: 302, Hops: []string{"http://a.test/x", "http://b.test/y"}}
		mkw(func(ob *observed) { ob.Requests[1], ob.Requests[2] = ob.Requests[2], ob.Requests[1] }, two, get, 200)
		mkw(func(ob *observed) { ob.Requests = ob.Requests[:2]; ob.Events = ob.Events[:2] }, two, get, 200)
		mkw(func(ob *observed) { ob.Class = 0; ob.HasData = true; ob.Data = []el{{1, 77}} }, world{Follow: false, HopStatus: 301, Hops: []string{"http://a.test/x"}}, get, 200)
		before := plain(1)
		before.Ctx = 1
		mkw(func(ob *observed) {
			ob.Events = append(ob.Events, 2)
			ob.Requests = append(ob.Requests, request{"GET", "http://osm.test/api/0.6/node/12345?"})
		}, before, get, 200)
		// a truncated 404 reported as an ordinary error; an earlier result that changed
		mkb := func(mut func(ob *observed), k call, st int, b body) {
			c, ob := e.doCaseW("", "http://osm.test/api/0.6", plain(0), k, st, b)
			mut(&ob)
			c2 := &wire.Case{Canary: 1, Desc: c.Desc}
			encodeCase(c2, "http://osm.test/api/0.6", plain(0), k, st, b, ob)
			w.Add(c2)
		}
		mkb(func(ob *observed) { ob.ContentOK = false }, get, 200, okBody(get))
		mkb(func(ob *observed) { ob.Texts[0] = (ob.Texts[0] + 1) % 10 }, get, 200, okBody(get))
		cutBody := okBody(get)
		cutBody.Cut = 1
		mkb(func(ob *observed) { ob.Class, ob.NotFound = 6, false }, get, 404, cutBody)
		mkb(func(ob *observed) { ob.Class, ob.HasData, ob.Data = 0, true, []el{{1, 77}} }, get, 200, cutBody)
		{
			k1 := call{Code: 3, Elem: 0, ID: 5}
			b1 := body{Kind: 1, Els: []el{{1, 5}, {1, 6}, {1, 7}}}
			b2 := body{Kind: 1, Els: []el{{1, 8}}}
			c, ob1, ob2, after := e.doSeq("", "http://osm.test/api/0.6", 0, k1, b1, k1, b2, 1)
			bad := append([]el(nil), after...)
			if len(bad) > 0 {
				bad[0].ID = 8
			}
			c2 := &wire.Case{Canary: 1, Desc: c.Desc}
			encodeSeq(c2, "http://osm.test/api/0.6", 0, k1, b1, ob1, k1, b2, ob2, true, bad)
			w.Add(c2)
		}
		during := plain(0)
		during.Ctx = 2
		mkw(func(ob *observed) { ob.Class = 0; ob.HasData = true; ob.Data = []el{{1, 77}} }, during, get, 200)
	}

	if err := w.Flush(a.Out, "Verif.C20.Check", 700); err != nil {
		fmt.Fprintln(os.Stderr, err)
		os.Exit(1)
	}
}

func validOnly(l []nOpt) []nOpt {
	var r []nOpt
	for _, o := range l {
		if o.Kind == 0 && (o.N < 1 || o.N > 10000) {
			continue
		}
		r = append(r, o)
	}
	return r
}

// single-element calls
func shapeOne(k call) bool {
	switch k.Code {
	case 0, 2, 8, 9, 11, 14:
		return true
	}
	return false
}

// idsForURLLen returns ids such that base + "/<plural>?<plural>=" + the comma-joined ids is
// exactly L bytes long (ten-digit ids, some eleven-digit ones to fill up)
func idsForURLLen(base, plural string, L int) []int64 {
	rest := L - len(base) - len("/"+plural+"?"+plural+"=")
	if rest < 10 {
		return []int64{1}
	}
	n := (rest + 1) / 11
	extra := rest - (n*11 - 1)
	ids := make([]int64, n)
	for i := range ids {
		ids[i] = 1000000000 + int64(i)*7919%8999999999
		if ids[i] < 1000000000 {
			ids[i] += 1000000000
		}
		if i < extra {
			ids[i] = ids[i]*10 + 3 // eleven digits
		}
	}
	return ids
}
