// c18: correspondence harness for the area classification of ways and relations (property C18).
//
// It runs the implementation (Way.Polygon, Relation.Polygon of /repo) on an exhaustive sweep of
// the rule table plus structured random tag sets, and prints input + observed answer for Coq
// (coq/theories/C18/Check.v).  It also dumps the run-time rule table through the verif hook.
package main

import (
	"fmt"
	"math"
	"math/rand"
	"os"
	"sort"
	"strconv"
	"strings"
	"time"
	"unicode"
	"unicode/utf8"

	"github.com/paulmach/osm"
	"verif/harness/wire"
)

// ---- the published Overpass-turbo polygon-features table (independent hand copy; Coq compares
// it with Spec.SpecTable on every run, judgement 3 of the TABLE case) ----

type rule struct {
	key    string
	cond   int // 0 all, 1 whitelist, 2 blacklist
	values []string
}

var published = []rule{
	{"building", 0, nil},
	{"highway", 1, []string{"services", "rest_area", "escape", "elevator"}},
	{"natural", 2, []string{"coastline", "cliff", "ridge", "arete", "tree_row"}},
	{"landuse", 0, nil},
	{"waterway", 1, []string{"riverbank", "dock", "boatyard", "dam"}},
	{"amenity", 0, nil},
	{"leisure", 0, nil},
	{"barrier", 1, []string{"city_wall", "ditch", "hedge", "retaining_wall", "wall", "spikes"}},
	{"railway", 1, []string{"station", "turntable", "roundhouse", "platform"}},
	{"boundary", 0, nil},
	{"man_made", 2, []string{"cutline", "embankment", "pipeline"}},
	{"power", 1, []string{"plant", "substation", "generator", "transformer"}},
	{"place", 0, nil},
	{"shop", 0, nil},
	{"aeroway", 2, []string{"taxiway"}},
	{"tourism", 0, nil},
	{"historic", 0, nil},
	{"public_transport", 0, nil},
	{"office", 0, nil},
	{"building:part", 0, nil},
	{"military", 0, nil},
	{"ruins", 0, nil},
	{"area:highway", 0, nil},
	{"craft", 0, nil},
	{"golf", 0, nil},
	{"indoor", 0, nil},
}

// ---- Go-side oracle: the property text, with plain membership (no sorting, no search) ----

func distinctKeys(tags osm.Tags) bool {
	seen := map[string]bool{}
	for _, t := range tags {
		if seen[t.Key] {
			return false
		}
		seen[t.Key] = true
	}
	return true
}

// tagSet is the tag set as the harness sees it (built here, not through tag.go): key -> value,
// presence kept apart from emptiness.
func tagSet(tags osm.Tags) map[string]string {
	m := make(map[string]string, len(tags))
	for _, t := range tags {
		if _, dup := m[t.Key]; !dup {
			m[t.Key] = t.Value
		}
	}
	return m
}

// specArea is the LITERAL published rule: a listed key counts when it is PRESENT with a value
// other than "no" (an empty value is a value); for the area tag the property says "non-empty".
func specArea(m map[string]string) bool {
	if m["area"] == "no" {
		return false
	}
	if m["area"] != "" {
		return true
	}
	for _, r := range published {
		v, present := m[r.key]
		if !present || v == "no" {
			continue
		}
		in := false
		for _, x := range r.values {
			if x == v {
				in = true
			}
		}
		switch r.cond {
		case 0:
			return true
		case 1:
			if in {
				return true
			}
		case 2:
			if !in {
				return true
			}
		}
	}
	return false
}

// knownEmptyValueClass: the input class of the known finding, decided from the input alone:
// a tag set (distinct keys) in which some listed key is present with an EMPTY value.
const emptyValueClass = "empty-value-on-listed-key"

func knownClass(tags osm.Tags) string {
	if !distinctKeys(tags) {
		return ""
	}
	m := tagSet(tags)
	for _, r := range published {
		if v, present := m[r.key]; present && v == "" {
			return emptyValueClass
		}
	}
	return ""
}

func specWay(ids []int64, tags osm.Tags) bool {
	if len(ids) < 4 || ids[0] != ids[len(ids)-1] {
		return false
	}
	return specArea(tagSet(tags))
}

func specRel(tags osm.Tags) bool {
	t := tagSet(tags)["type"]
	return t == "multipolygon" || t == "boundary"
}

// ---- wire helpers ----

// pstr writes a packed string: length, then up to 7 bytes per raw token, big-endian.
func pstr(c *wire.Case, s string) {
	c.Len(len(s))
	for i := 0; i < len(s); i += 7 {
		hi := i + 7
		if hi > len(s) {
			hi = len(s)
		}
		var w uint64
		for _, b := range []byte(s[i:hi]) {
			w = w<<8 | uint64(b)
		}
		c.Tok(w)
	}
}

func show(s string) string {
	ok := utf8.ValidString(s)
	for _, r := range s {
		if !unicode.IsPrint(r) {
			ok = false
		}
	}
	if ok {
		return s
	}
	return "go-quoted:" + strconv.QuoteToASCII(s)
}

func showTags(tags osm.Tags) [][2]string {
	out := make([][2]string, 0, len(tags))
	for _, t := range tags {
		out = append(out, [2]string{show(t.Key), show(t.Value)})
	}
	return out
}

func putTags(c *wire.Case, tags osm.Tags) {
	c.Len(len(tags))
	for _, t := range tags {
		pstr(c, t.Key)
		pstr(c, t.Value)
	}
}

func obsName(o int) interface{} {
	switch o {
	case 0:
		return false
	case 1:
		return true
	}
	return "panic"
}

func callWay(w *osm.Way) (o int) {
	defer func() {
		if recover() != nil {
			o = 2
		}
	}()
	if w.Polygon() {
		return 1
	}
	return 0
}

func callRel(r *osm.Relation) (o int) {
	defer func() {
		if recover() != nil {
			o = 2
		}
	}()
	if r.Polygon() {
		return 1
	}
	return 0
}

func b2i(b bool) int {
	if b {
		return 1
	}
	return 0
}

func cloneTags(t osm.Tags) osm.Tags { return append(osm.Tags(nil), t...) }

// wn is one way node as handed to the implementation: a bare ref (ann == false: Version,
// ChangesetID, Lat, Lon all zero) or an annotated node. lat/lon are in units of 1e-7 degree.
type wn struct {
	id       int64
	ann      bool
	ver, cs  int64
	lat, lon int64
}

func idsOf(ns []wn) []int64 {
	ids := make([]int64, len(ns))
	for i, n := range ns {
		ids[i] = n.id
	}
	return ids
}

// annotation patterns for a list of refs. Only the refs may matter for Way.Polygon.
//
//	0 bare refs
//	1 annotated, every position its own location and version (so EQUAL ids at both ends carry
//	  DIFFERENT locations/versions when the way is closed)
//	2 annotated, first and last position on the SAME location (so DIFFERENT ids at both ends
//	  carry IDENTICAL locations when the way is open: a duplicate node on the same spot)
//	3 only the two end nodes annotated, same location
//	4 annotated, all nodes on one spot
//	5 only the first node annotated / 6 only the last node annotated (same spot as pattern 2)
//	7 annotated with version != 0 but location 0,0 everywhere
const nPatterns = 8

func annotate(ids []int64, pat int) []wn {
	ns := make([]wn, len(ids))
	last := len(ids) - 1
	for i, id := range ids {
		n := wn{id: id}
		own := wn{id: id, ann: true, ver: int64(i + 1), cs: int64(3*i + 1), lat: 10000000 + int64(i)*1000, lon: -20000000 - int64(i)*1000}
		spot := wn{id: id, ann: true, ver: int64(i + 1), cs: int64(3*i + 1), lat: 515000000, lon: -1234567}
		switch pat {
		case 1:
			n = own
		case 2:
			n = own
			if i == 0 || i == last {
				n = spot
			}
		case 3:
			if i == 0 || i == last {
				n = spot
			}
		case 4:
			n = spot
		case 5:
			if i == 0 {
				n = spot
			}
		case 6:
			if i == last {
				n = spot
			}
		case 7:
			n = wn{id: id, ann: true, ver: int64(i + 1), cs: 1}
		}
		ns[i] = n
	}
	return ns
}

var patCounter int

// wayCase runs Way.Polygon on the refs ids; the annotation pattern rotates (half of the
// cases bare, the others through patterns 1..7).
func wayCase(class string, ids []int64, tags osm.Tags) *wire.Case {
	patCounter++
	pat := 0
	if patCounter%2 == 0 {
		pat = 1 + (patCounter/2)%(nPatterns-1)
	}
	return wayCaseN(class, annotate(ids, pat), tags)
}

// The other fields of the way (and of a relation) are varied too; none of them may matter.
const nEnvelopes = 6

var envCounter int

var someTime = time.Date(2015, 3, 4, 5, 6, 7, 0, time.UTC)

func wayEnvelope(w *osm.Way, i int) string {
	switch i {
	case 1:
		w.ID, w.Version, w.Visible = 0, 0, false
		return "id 0, version 0, not visible"
	case 2:
		w.ID, w.User, w.UserID, w.ChangesetID, w.Timestamp = -5, "someone", 42, 99, someTime
		return "negative id, user, changeset, timestamp"
	case 3:
		w.Updates = osm.Updates{{Index: 0, Version: 2, Timestamp: someTime, Lat: 1, Lon: 2}, {Index: 3, Version: 2, Timestamp: someTime, Lat: 1, Lon: 2}}
		return "with node updates at index 0 and 3 (same location)"
	case 4:
		t := someTime
		w.Committed = &t
		w.Bounds = &osm.Bounds{MinLat: 1, MaxLat: 2, MinLon: 3, MaxLon: 4}
		return "committed time and bounds set"
	case 5:
		w.Visible, w.Version = false, 3
		return "deleted version (visible=false)"
	}
	return "id 7, version 1, visible"
}

func relEnvelope(r *osm.Relation, i int) string {
	switch i {
	case 1:
		r.ID, r.Version, r.Visible, r.Members = 0, 0, false, nil
		return "id 0, version 0, not visible, no members"
	case 2:
		r.Members = osm.Members{{Type: osm.TypeWay, Ref: 1, Role: "outer"}, {Type: osm.TypeWay, Ref: 2, Role: "inner"}}
		r.User, r.UserID, r.Timestamp = "someone", 42, someTime
		return "outer and inner way members, user, timestamp"
	case 3:
		r.Members = osm.Members{{Type: osm.TypeNode, Ref: 1, Role: "admin_centre"}, {Type: osm.TypeRelation, Ref: 2, Role: "subarea"}}
		return "node and relation members only"
	case 4:
		t := someTime
		r.Committed = &t
		r.Updates = osm.Updates{{Index: 0, Version: 2, Timestamp: someTime}}
		return "committed time and member updates"
	case 5:
		r.Members = osm.Members{{Type: osm.TypeWay, Ref: 1, Role: ""}}
		r.Visible = false
		return "one way member without role, not visible"
	}
	return "id 9, one outer way member"
}

func wayCaseN(class string, ns []wn, tags osm.Tags) *wire.Case {
	ids := idsOf(ns)
	w := &osm.Way{ID: 7, Version: 1, Visible: true, Tags: cloneTags(tags)}
	envCounter++
	envName := wayEnvelope(w, envCounter%nEnvelopes)
	var shown []interface{}
	for _, n := range ns {
		if n.ann {
			w.Nodes = append(w.Nodes, osm.WayNode{ID: osm.NodeID(n.id), Version: int(n.ver), ChangesetID: osm.ChangesetID(n.cs),
				Lat: float64(n.lat) / 1e7, Lon: float64(n.lon) / 1e7})
			shown = append(shown, map[string]interface{}{"id": n.id, "version": n.ver, "changeset": n.cs, "lat_e7": n.lat, "lon_e7": n.lon})
		} else {
			w.Nodes = append(w.Nodes, osm.WayNode{ID: osm.NodeID(n.id)})
			shown = append(shown, map[string]interface{}{"id": n.id})
		}
	}
	obs := callWay(w)
	c := &wire.Case{Class: class, Known: knownClass(tags)}
	c.Int(1).Len(len(ns))
	for _, n := range ns {
		c.Int(n.id).Bool(n.ann)
		if n.ann {
			c.Int(n.ver).Int(n.cs).Int(n.lat).Int(n.lon)
		}
	}
	putTags(c, tags)
	c.Int(int64(obs))
	d := map[string]interface{}{"call": "Way.Polygon", "node_ids": ids, "way_nodes": shown, "tags": showTags(tags), "other_way_fields": envName, "observed": obsName(obs)}
	if distinctKeys(tags) {
		exp := specWay(ids, tags) // from the refs alone
		d["expected"] = exp
		if obs != b2i(exp) {
			c.OracleFail = fmt.Sprintf("Way.Polygon() = %v, the published rules say %v", obsName(obs), exp)
		}
	} else {
		d["expected"] = "n/a (duplicate keys: not a tag set)"
		if obs == 2 {
			c.OracleFail = "Way.Polygon() panicked"
		}
	}
	c.Desc = d
	return c
}

// seqStep is one call of Polygon() in a sequence on the SAME Way value.
type seqStep struct {
	ns   []wn
	tags osm.Tags
	copy bool // before this step the Way struct is copied by value (w2 := *w) and used from then on
}

func wayNodeOf(n wn) osm.WayNode {
	if n.ann {
		return osm.WayNode{ID: osm.NodeID(n.id), Version: int(n.ver), ChangesetID: osm.ChangesetID(n.cs), Lat: float64(n.lat) / 1e7, Lon: float64(n.lon) / 1e7}
	}
	return osm.WayNode{ID: osm.NodeID(n.id)}
}

// waySeqCase calls Polygon() several times on one Way and edits it IN PLACE between the calls:
// when a step has as many nodes / tags as the way has, the elements of the existing slices are
// overwritten (w.Tags[i] = ..., w.Nodes[i] = ...), otherwise fresh slices are assigned.  State
// that an earlier call may have left on the object must not change a later answer.
func waySeqCase(class string, steps []seqStep) *wire.Case {
	c := &wire.Case{Class: class}
	c.Int(7).Len(len(steps))
	w := &osm.Way{ID: 7, Version: 1, Visible: true}
	var rows []interface{}
	for i, st := range steps {
		how := "fresh slices"
		if st.copy {
			cp := *w
			w = &cp
			how = "struct copied by value; "
			w.Tags = cloneTags(st.tags)
			how += "fresh tag slice"
			if len(w.Nodes) == len(st.ns) {
				for j, n := range st.ns {
					w.Nodes[j] = wayNodeOf(n)
				}
			} else {
				w.Nodes = nil
				for _, n := range st.ns {
					w.Nodes = append(w.Nodes, wayNodeOf(n))
				}
			}
		} else {
			if i > 0 && len(w.Tags) == len(st.tags) {
				for j := range st.tags {
					w.Tags[j] = st.tags[j]
				}
				how = "tags overwritten in place"
			} else {
				w.Tags = cloneTags(st.tags)
			}
			if i > 0 && len(w.Nodes) == len(st.ns) {
				for j, n := range st.ns {
					w.Nodes[j] = wayNodeOf(n)
				}
				how += ", nodes overwritten in place"
			} else {
				w.Nodes = nil
				for _, n := range st.ns {
					w.Nodes = append(w.Nodes, wayNodeOf(n))
				}
			}
		}
		obs := callWay(w)
		c.Len(len(st.ns))
		for _, n := range st.ns {
			c.Int(n.id).Bool(n.ann)
			if n.ann {
				c.Int(n.ver).Int(n.cs).Int(n.lat).Int(n.lon)
			}
		}
		putTags(c, st.tags)
		c.Int(int64(obs))
		if k := knownClass(st.tags); k != "" {
			c.Known = k
		}
		row := map[string]interface{}{"call": i + 1, "edit_before_call": how, "node_ids": idsOf(st.ns), "tags": showTags(st.tags), "observed": obsName(obs)}
		if distinctKeys(st.tags) {
			exp := specWay(idsOf(st.ns), st.tags)
			row["expected"] = exp
			if obs != b2i(exp) && c.OracleFail == "" {
				c.OracleFail = fmt.Sprintf("call %d of Polygon() on the same way = %v, its nodes and tags at that call say %v", i+1, obsName(obs), exp)
			}
		}
		rows = append(rows, row)
	}
	c.Desc = map[string]interface{}{"call": "Way.Polygon several times on ONE Way value, edited in place between the calls", "calls": rows}
	return c
}

func relCase(class string, tags osm.Tags) *wire.Case {
	r := &osm.Relation{ID: 9, Version: 1, Visible: true, Tags: cloneTags(tags),
		Members: osm.Members{{Type: osm.TypeWay, Ref: 1, Role: "outer"}}}
	envCounter++
	envName := relEnvelope(r, envCounter%nEnvelopes)
	obs := callRel(r)
	c := &wire.Case{Class: class}
	c.Int(2)
	putTags(c, tags)
	c.Int(int64(obs))
	d := map[string]interface{}{"call": "Relation.Polygon", "tags": showTags(tags), "other_relation_fields": envName, "observed": obsName(obs)}
	if distinctKeys(tags) {
		exp := specRel(tags)
		d["expected"] = exp
		if obs != b2i(exp) {
			c.OracleFail = fmt.Sprintf("Relation.Polygon() = %v, the property says %v", obsName(obs), exp)
		}
	} else if obs == 2 {
		c.OracleFail = "Relation.Polygon() panicked"
	}
	c.Desc = d
	return c
}

func findCase(class string, tags osm.Tags, key string) *wire.Case {
	obs := cloneTags(tags).Find(key)
	c := &wire.Case{Class: class}
	c.Int(4)
	putTags(c, tags)
	pstr(c, key)
	pstr(c, obs)
	d := map[string]interface{}{"call": "Tags.Find", "tags": showTags(tags), "key": show(key), "observed": show(obs)}
	if distinctKeys(tags) {
		exp := tagSet(tags)[key]
		d["expected"] = show(exp)
		if obs != exp {
			c.OracleFail = fmt.Sprintf("Tags.Find(%q) = %q, the tag set has %q", key, obs, exp)
		}
	}
	c.Desc = d
	return c
}

func tagsOpsCase(class string, tags osm.Tags, key string) *wire.Case {
	t := cloneTags(tags)
	has := t.HasTag(key)
	ft := t.FindTag(key)
	mv, mp := t.Map()[key]
	ai := t.AnyInteresting()
	c := &wire.Case{Class: class}
	c.Int(5)
	putTags(c, tags)
	pstr(c, key)
	c.Bool(has).Bool(ft != nil)
	d := map[string]interface{}{"call": "Tags.HasTag/FindTag/Map/AnyInteresting", "tags": showTags(tags), "key": show(key),
		"has_tag": has, "map_present": mp, "map_value": show(mv), "any_interesting": ai}
	if ft != nil {
		pstr(c, ft.Key)
		pstr(c, ft.Value)
		d["find_tag"] = [2]string{show(ft.Key), show(ft.Value)}
	} else {
		pstr(c, "")
		pstr(c, "")
		d["find_tag"] = nil
	}
	c.Bool(mp)
	pstr(c, mv)
	c.Bool(ai)
	if distinctKeys(tags) {
		present, val, interesting := false, "", false
		for _, x := range tags {
			if x.Key == key {
				present, val = true, x.Value
			}
			// the set of uninteresting keys is data of the library, not specified by the property:
			// the oracle takes it as given and only demands "some tag whose key is not in it"
			if !osm.UninterestingTags[x.Key] {
				interesting = true
			}
		}
		if has != present || (ft != nil) != present || mp != present || (present && (ft.Key != key || ft.Value != val || mv != val)) || ai != interesting {
			c.OracleFail = "a helper of tag.go disagrees with the tag set"
		}
	}
	c.Desc = d
	return c
}

func isSorted(l []string) bool { return sort.StringsAreSorted(l) }

func tableCase(rt []osm.VerifPolyCondition, names [3]string) *wire.Case {
	c := &wire.Case{Class: "table"}
	c.Int(3)
	for _, n := range names {
		pstr(c, n)
	}
	c.Len(len(rt))
	var drt []interface{}
	unsorted := ""
	for _, r := range rt {
		pstr(c, r.Key)
		pstr(c, r.Condition)
		c.Len(len(r.Values))
		for _, v := range r.Values {
			pstr(c, v)
		}
		drt = append(drt, []interface{}{r.Key, r.Condition, r.Values})
		if !isSorted(r.Values) && unsorted == "" {
			unsorted = r.Key
		}
	}
	c.Len(len(published))
	for _, r := range published {
		pstr(c, r.key)
		c.Int(int64(r.cond))
		c.Len(len(r.values))
		for _, v := range r.values {
			pstr(c, v)
		}
	}
	if unsorted != "" {
		c.OracleFail = "run-time polyConditions: the values of key " + unsorted + " are not sorted, binary search is not valid on them"
	}
	c.Desc = map[string]interface{}{"call": "polyConditions after init()", "condition_names": names, "runtime_table": drt}
	return c
}

// ---- generators ----

func ring(n int, closed bool) []int64 {
	ids := make([]int64, n)
	for i := range ids {
		ids[i] = int64(100 + i)
	}
	if n > 0 {
		if closed {
			ids[n-1] = ids[0]
		}
	}
	return ids
}

var ring4 = []int64{100, 101, 102, 100}

func neighbours(v string) []string {
	var out []string
	if len(v) > 0 {
		n := len(v) - 1
		out = append(out, v[:n])
		if v[n] > 0 {
			out = append(out, v[:n]+string([]byte{v[n] - 1}))
		}
		if v[n] < 0x7f {
			out = append(out, v[:n]+string([]byte{v[n] + 1}))
		}
	}
	out = append(out, v+"\x00", v+"~", v+"a")
	return out
}

type strset struct {
	l []string
	m map[string]bool
}

func (s *strset) add(xs ...string) {
	if s.m == nil {
		s.m = map[string]bool{}
	}
	for _, x := range xs {
		if !s.m[x] {
			s.m[x] = true
			s.l = append(s.l, x)
		}
	}
}

var specials = []string{"", "no", "yes", "unlisted_value", "No", "no ", "n", "non", "NO"}
var areaClasses = []struct {
	present bool
	v       string
}{{false, ""}, {true, ""}, {true, "no"}, {true, "yes"}, {true, "x"}}

func main() {
	a := wire.ParseArgs()
	rng := wire.Rng(a.Seed)
	w := wire.NewWriter("C18", a.Seed, a.Tier)
	w.Rule = "single-key sweep (exhaustive): every rule key (run-time table + published table) x (every value listed for any key + specials \"\", no, yes, unlisted, No, ... + byte-order neighbours of the key's own listed values [thorough: of all listed values]) x area in {absent, \"\", no, yes, x}, both tag orders alternating, on a closed 4-ring; length sweep 0..7 x closed/open/all-equal x tag sets; every id sequence over {1,2,3} of length 0..5; end refs differing in exactly one bit (all 64 positions, several bases incl. negative) and in bits a packed id drops; way nodes are full WayNode values: half of all way cases bare refs, the others rotate through 7 annotation patterns (own location per position, same spot at both ends with different ids, ends only, one end only, all on one spot, version without location) plus a dedicated pattern x refs x tag-set sweep and random nodes over small id/version/location alphabets; near-miss keys (rule key, area, type with a space/colon/s/NUL added, a byte dropped, upper case) with firing values; pairs (list key x any key) x pass/fail/no values x both orders; random tag sets in 3-6 (or all) orders; irrelevant and near-miss keys inserted; duplicate keys (model only); the other fields of Way / Relation (id, version, visible, user, timestamp, committed, updates, bounds, members) rotate through 6 variants and must not matter; composite values (a listed value joined to another by ; , | space ...: not listed); 12..33 (thorough ..257) tags with present-but-empty deciding values at the front, back or middle; a dictionary of ~50 common OSM tags as unrelated tags next to satisfying / non-satisfying tag sets; sequences of Polygon() calls on ONE Way edited in place between the calls (same lengths, struct copies); relations: type values x other tags x positions; Tags.Find and HasTag/FindTag/Map/AnyInteresting on present/absent/near-miss/duplicated keys and on the uninteresting keys; the run-time table. distinct = distinct token streams; trivial = none."
	thorough := a.Tier == "thorough"

	rt := osm.VerifPolyConditions()
	names := osm.VerifPolyConditionNames()

	// keys and values of both tables
	var keys, allValues strset
	own := map[string]*strset{}
	addOwn := func(k string, vs []string) {
		if own[k] == nil {
			own[k] = &strset{}
		}
		own[k].add(vs...)
	}
	for _, r := range published {
		keys.add(r.key)
		allValues.add(r.values...)
		addOwn(r.key, r.values)
	}
	for _, r := range rt {
		keys.add(r.Key)
		allValues.add(r.Values...)
		addOwn(r.Key, r.Values)
	}

	// 0. corpus: minimised past failures / mutation witnesses, run first
	corpus := []struct {
		ids  []int64
		tags osm.Tags
	}{
		{ring4, osm.Tags{{Key: "highway", Value: "elevator"}}},                         // found only by a correct search on a sorted list
		{ring4, osm.Tags{{Key: "highway", Value: "services"}}},                         // last of the sorted list
		{ring4, osm.Tags{{Key: "natural", Value: "arete"}}},                            // first of a sorted blacklist
		{ring4, osm.Tags{{Key: "natural", Value: "tree_row"}}},                         // last of a sorted blacklist
		{ring4, osm.Tags{{Key: "aeroway", Value: "taxiway"}}},                          // one-element blacklist
		{ring4, osm.Tags{{Key: "aeroway", Value: "taxiwaz"}}},                          // just above it
		{ring4, osm.Tags{{Key: "area", Value: "no"}, {Key: "building", Value: "yes"}}}, // area=no wins
		{ring4, osm.Tags{{Key: "building", Value: "yes"}, {Key: "area", Value: "no"}}},
		{ring4, osm.Tags{{Key: "building ", Value: "yes"}}},                 // near-miss key (found the Find mutation m11)
		{ring4, osm.Tags{{Key: "area", Value: "No"}}},                       // only the exact value "no" denies
		{ring4, osm.Tags{{Key: "building", Value: "no"}}},                   // value "no" is skipped
		{[]int64{1, 2, 3, 1, 4}, osm.Tags{{Key: "building", Value: "yes"}}}, // closedness is first = LAST
		{[]int64{1, 2, 1}, osm.Tags{{Key: "building", Value: "yes"}}},       // 3 refs: not an area
		{[]int64{1, 2, 3, 1}, osm.Tags{{Key: "building", Value: "yes"}}},    // 4 refs: the smallest area
		{[]int64{1, 2, 3, 4}, osm.Tags{{Key: "building", Value: "yes"}}},    // open
	}
	for _, k := range corpus {
		w.Add(wayCase("corpus", k.ids, k.tags))
	}
	// open way 1,2,3,4,5 whose end nodes are different nodes on the same spot (seeded C18-3)
	w.Add(wayCaseN("corpus", annotate([]int64{1, 2, 3, 4, 5}, 2), osm.Tags{{Key: "building", Value: "yes"}}))
	w.Add(wayCaseN("corpus", annotate([]int64{1, 2, 3, 4, 5}, 4), osm.Tags{{Key: "building", Value: "yes"}}))
	// closed way whose equal end refs carry different locations and versions
	w.Add(wayCaseN("corpus", annotate([]int64{1, 2, 3, 4, 1}, 1), osm.Tags{{Key: "building", Value: "yes"}}))

	// 1. single-key sweep
	n := 0
	for _, k := range keys.l {
		var vals strset
		vals.add(specials...)
		vals.add(allValues.l...)
		if thorough {
			for _, v := range allValues.l {
				vals.add(neighbours(v)...)
			}
		} else if own[k] != nil {
			for _, v := range own[k].l {
				vals.add(neighbours(v)...)
			}
		}
		for _, v := range vals.l {
			for ai, ac := range areaClasses {
				var tags osm.Tags
				kt := osm.Tag{Key: k, Value: v}
				if !ac.present {
					tags = osm.Tags{kt}
				} else if n%2 == 0 {
					tags = osm.Tags{{Key: "area", Value: ac.v}, kt}
				} else {
					tags = osm.Tags{kt, {Key: "area", Value: ac.v}}
				}
				if n%3 == 2 {
					tags = append(osm.Tags{{Key: "name", Value: "x"}}, tags...)
				}
				n++
				w.Add(wayCase("sweep", ring4, tags))
				w.Count(fmt.Sprintf("sweep.area_class_%d", ai))
				if thorough && ac.present {
					// the other order too
					t2 := cloneTags(tags)
					t2[len(t2)-1], t2[len(t2)-2] = t2[len(t2)-2], t2[len(t2)-1]
					w.Add(wayCase("sweep", ring4, t2))
				}
			}
		}
	}
	// area value variants
	for _, av := range []string{"No", "NO", "no ", " no", "false", "0", "n", "yes", "no\x00"} {
		for _, other := range []osm.Tags{nil, {{Key: "building", Value: "yes"}}, {{Key: "highway", Value: "primary"}}} {
			w.Add(wayCase("area-variant", ring4, append(osm.Tags{{Key: "area", Value: av}}, other...)))
		}
	}

	pass := func(r rule) string {
		switch r.cond {
		case 1:
			return r.values[len(r.values)/2]
		case 2:
			return "unlisted_value"
		}
		return "yes"
	}
	failv := func(r rule) string {
		switch r.cond {
		case 1:
			return "unlisted_value"
		case 2:
			return r.values[len(r.values)/2]
		}
		return "no"
	}
	// near-miss keys: a key that merely resembles a rule key (or "area") must not count
	nearKeys := func(k string) []string {
		out := []string{k + " ", " " + k, k + ":", k + "s", k + "\x00", k[:len(k)-1], strings.ToUpper(k[:1]) + k[1:], strings.ToUpper(k), k + ":" + k, "_" + k}
		return out
	}
	for _, r := range published {
		for _, nk := range nearKeys(r.key) {
			if keys.m[nk] || nk == "area" {
				continue
			}
			w.Add(wayCase("near-miss-key", ring4, osm.Tags{{Key: nk, Value: pass(r)}}))
			w.Add(wayCase("near-miss-key", ring4, osm.Tags{{Key: nk, Value: "yes"}, {Key: "name", Value: "x"}}))
		}
	}
	for _, nk := range nearKeys("area") {
		if keys.m[nk] {
			continue
		}
		w.Add(wayCase("near-miss-key", ring4, osm.Tags{{Key: nk, Value: "yes"}}))
		w.Add(wayCase("near-miss-key", ring4, osm.Tags{{Key: nk, Value: "no"}, {Key: "building", Value: "yes"}}))
		w.Add(wayCase("near-miss-key", ring4, osm.Tags{{Key: "building", Value: "yes"}, {Key: nk, Value: "no"}}))
	}
	for _, nk := range nearKeys("type") {
		w.Add(relCase("near-miss-key", osm.Tags{{Key: nk, Value: "multipolygon"}}))
		w.Add(relCase("near-miss-key", osm.Tags{{Key: nk, Value: "boundary"}, {Key: "type", Value: "route"}}))
	}

	// composite values: a listed value inside a longer literal is NOT listed (separators ; , | space :)
	for _, r := range published {
		if r.cond == 0 {
			for _, v := range []string{"no;yes", "yes;no", ";", "no;", ";no", "no;no", "no,yes", "no yes"} {
				w.Add(wayCase("composite-value", ring4, osm.Tags{{Key: r.key, Value: v}}))
			}
			continue
		}
		parts := []string{r.values[0], r.values[len(r.values)-1], "unlisted_value", "no", ""}
		seps := []string{";", "; ", ",", "|", " "}
		if thorough {
			parts = append(append([]string{}, r.values...), "unlisted_value", "no", "", "yes")
			seps = append(seps, ":", "/", ";;", " ; ", "\t", "\n")
		}
		for _, a := range parts {
			for _, b := range parts {
				for _, sep := range seps {
					w.Add(wayCase("composite-value", ring4, osm.Tags{{Key: r.key, Value: a + sep + b}}))
				}
			}
			for _, v := range []string{" " + a, a + " ", strings.ToUpper(a), a + ";"} {
				w.Add(wayCase("composite-value", ring4, osm.Tags{{Key: r.key, Value: v}}))
			}
		}
	}

	// many tags: size thresholds of the tag list (12/13, 16/17, 32/33, 64/65 ...) combined with
	// present-but-EMPTY values, the deciding tags first, last or in the middle of the fillers
	sizes := []int{12, 13, 16, 17, 18, 32, 33}
	if thorough {
		sizes = []int{8, 9, 12, 13, 15, 16, 17, 18, 31, 32, 33, 63, 64, 65, 127, 128, 129, 255, 256, 257}
	}
	deciding := []osm.Tags{
		{{Key: "area", Value: ""}, {Key: "highway", Value: "residential"}},
		{{Key: "area", Value: ""}, {Key: "building", Value: "yes"}},
		{{Key: "building", Value: ""}},
		{{Key: "natural", Value: ""}},
		{{Key: "landuse", Value: ""}, {Key: "highway", Value: "primary"}},
		{{Key: "area", Value: "no"}, {Key: "building", Value: "yes"}},
		{{Key: "building", Value: "yes"}},
		{{Key: "highway", Value: "services"}},
		{{Key: "natural", Value: "cliff"}},
		{{Key: "building", Value: "no"}, {Key: "waterway", Value: "dam"}},
		nil,
	}
	for _, n := range sizes {
		for di, d := range deciding {
			if len(d) > n {
				continue
			}
			for pos := 0; pos < 3; pos++ {
				if !thorough && pos != (di+n)%3 {
					continue
				}
				nf := n - len(d)
				fill := make(osm.Tags, nf)
				for i := range fill {
					v := "v"
					if i%5 == 4 {
						v = "" // empty values among the unrelated tags too
					}
					fill[i] = osm.Tag{Key: fmt.Sprintf("k%d", i), Value: v}
				}
				var tags osm.Tags
				switch pos {
				case 0:
					tags = append(cloneTags(d), fill...)
				case 1:
					tags = append(cloneTags(fill), d...)
				default:
					tags = append(append(cloneTags(fill[:nf/2]), d...), fill[nf/2:]...)
				}
				w.Add(wayCase("many-tags", ring4, tags))
				w.Count(fmt.Sprintf("many-tags.n_%d", n))
			}
		}
	}

	// a dictionary of common OSM tags as UNRELATED tags: none of them may change the answer
	common := []osm.Tag{{Key: "junction", Value: "roundabout"}, {Key: "junction", Value: "circular"}, {Key: "junction", Value: "yes"}, {Key: "oneway", Value: "yes"}, {Key: "oneway", Value: "-1"},
		{Key: "bridge", Value: "yes"}, {Key: "tunnel", Value: "yes"}, {Key: "layer", Value: "-1"}, {Key: "level", Value: "0"}, {Key: "surface", Value: "paved"}, {Key: "lanes", Value: "2"},
		{Key: "access", Value: "private"}, {Key: "access", Value: "no"}, {Key: "type", Value: "multipolygon"}, {Key: "type", Value: "boundary"}, {Key: "route", Value: "bus"}, {Key: "service", Value: "driveway"},
		{Key: "covered", Value: "yes"}, {Key: "height", Value: "10"}, {Key: "addr:housenumber", Value: "1"}, {Key: "source", Value: "survey"}, {Key: "note", Value: "x"}, {Key: "fixme", Value: "yes"},
		{Key: "disused", Value: "yes"}, {Key: "abandoned", Value: "yes"}, {Key: "demolished", Value: "yes"}, {Key: "proposed", Value: "yes"}, {Key: "construction", Value: "yes"}, {Key: "razed", Value: "yes"},
		{Key: "disused:building", Value: "yes"}, {Key: "was:building", Value: "yes"}, {Key: "embankment", Value: "yes"}, {Key: "cutting", Value: "yes"}, {Key: "foot", Value: "yes"}, {Key: "bicycle", Value: "no"},
		{Key: "name", Value: "no"}, {Key: "ref", Value: ""}, {Key: "closed", Value: "no"}, {Key: "polygon", Value: "no"}, {Key: "linear", Value: "yes"}, {Key: "geometry", Value: "line"},
		{Key: "attraction", Value: "roller_coaster"}, {Key: "cycleway", Value: "track"}, {Key: "footway", Value: "sidewalk"}, {Key: "sport", Value: "running"}, {Key: "piste:type", Value: "downhill"},
		{Key: "aerialway", Value: "gondola"}, {Key: "roof:shape", Value: "flat"}, {Key: "wall", Value: "no"}, {Key: "fence_type", Value: "wire"}, {Key: "water", Value: "lake"}, {Key: "intermittent", Value: "yes"}}
	satisfying := []osm.Tags{
		{{Key: "landuse", Value: "grass"}}, {{Key: "highway", Value: "services"}}, {{Key: "building", Value: "yes"}}, {{Key: "natural", Value: "water"}},
		{{Key: "highway", Value: "primary"}, {Key: "man_made", Value: "bridge"}}, {{Key: "highway", Value: "primary"}}, {{Key: "natural", Value: "cliff"}}, nil, {{Key: "area", Value: "yes"}}, {{Key: "area", Value: "no"}, {Key: "leisure", Value: "park"}},
	}
	for ci, ct := range common {
		if keys.m[ct.Key] || ct.Key == "area" {
			continue
		}
		for si, st := range satisfying {
			if !thorough && (ci+si)%2 == 1 && ct.Key != "junction" {
				continue
			}
			if (ci+si)%2 == 0 {
				w.Add(wayCase("common-unrelated-tag", ring4, append(osm.Tags{ct}, st...)))
			} else {
				w.Add(wayCase("common-unrelated-tag", ring4, append(cloneTags(st), ct)))
			}
		}
	}

	// several calls on ONE Way value, edited in place between the calls (state left on the object)
	closed4, open4 := annotate([]int64{1, 2, 3, 1}, 0), annotate([]int64{1, 2, 3, 4}, 0)
	closed5a, closed5b := annotate([]int64{1, 2, 3, 4, 1}, 1), annotate([]int64{1, 2, 3, 4, 1}, 2)
	tg := func(kv ...string) osm.Tags {
		var t osm.Tags
		for i := 0; i+1 < len(kv); i += 2 {
			t = append(t, osm.Tag{Key: kv[i], Value: kv[i+1]})
		}
		return t
	}
	seqs := [][]seqStep{
		{{ns: closed4, tags: tg("building", "yes")}, {ns: closed4, tags: tg("building", "no")}, {ns: closed4, tags: tg("building", "yes")}},
		{{ns: closed4, tags: tg("building", "no")}, {ns: closed4, tags: tg("building", "yes")}},
		{{ns: closed4, tags: tg("highway", "residential")}, {ns: closed4, tags: tg("area", "yes")}, {ns: closed4, tags: tg("area", "no")}},
		{{ns: closed4, tags: tg("building", "yes")}, {ns: open4, tags: tg("building", "yes")}, {ns: closed4, tags: tg("building", "yes")}},
		{{ns: open4, tags: tg("building", "yes")}, {ns: closed4, tags: tg("building", "yes")}},
		{{ns: closed4, tags: tg("building", "yes", "name", "x")}, {ns: closed4, tags: tg("name", "x", "highway", "primary"), copy: true}},
		{{ns: closed4, tags: tg("highway", "primary", "name", "x")}, {ns: closed4, tags: tg("name", "x", "landuse", "grass"), copy: true}, {ns: closed4, tags: tg("name", "y", "landuse", "no")}},
		{{ns: closed4, tags: tg("building", "yes")}, {ns: closed4, tags: tg("building", "yes")}, {ns: closed4, tags: tg("building", "yes")}},
		{{ns: closed5a, tags: tg("natural", "cliff")}, {ns: closed5b, tags: tg("natural", "water")}, {ns: closed5a, tags: tg("natural", "cliff")}},
		{{ns: closed4, tags: tg("building", "yes")}, {ns: closed5a, tags: tg("building", "yes", "name", "x")}, {ns: annotate([]int64{1, 2, 1}, 0), tags: nil}, {ns: closed4, tags: tg("highway", "services")}},
		{{ns: nil, tags: nil}, {ns: closed4, tags: tg("amenity", "parking")}, {ns: nil, tags: nil}},
	}
	for _, sq := range seqs {
		w.Add(waySeqCase("way-sequence", sq))
	}
	nseq := int(40 * a.Scale)
	if thorough {
		nseq = int(1500 * a.Scale)
	}
	seqTags := []osm.Tags{tg("building", "yes", "name", "x"), tg("building", "no", "name", "x"), tg("name", "x", "area", "yes"), tg("area", "no", "building", "yes"), tg("highway", "primary", "name", "x"),
		tg("highway", "services", "ref", "1"), tg("natural", "cliff", "name", "x"), tg("natural", "water", "name", "x"), tg("name", "x", "ref", "1"), tg("area", "", "landuse", "grass")}
	seqRings := [][]wn{closed4, open4, annotate([]int64{5, 5, 5, 5}, 0), annotate([]int64{1, 2, 3, 1}, 1), annotate([]int64{1, 2, 3, 4}, 2)}
	for i := 0; i < nseq; i++ {
		n := 2 + rng.Intn(4)
		sq := make([]seqStep, n)
		for j := range sq {
			sq[j] = seqStep{ns: seqRings[rng.Intn(len(seqRings))], tags: seqTags[rng.Intn(len(seqTags))], copy: j > 0 && rng.Intn(6) == 0}
		}
		w.Add(waySeqCase("way-sequence", sq))
	}

	// 2. closed / length sweep
	tagsets := []osm.Tags{
		nil,
		{{Key: "building", Value: "yes"}},
		{{Key: "area", Value: "yes"}},
		{{Key: "highway", Value: "services"}},
		{{Key: "area", Value: "no"}, {Key: "building", Value: "yes"}},
		{{Key: "natural", Value: "water"}},
	}
	for l := 0; l <= 7; l++ {
		for _, ts := range tagsets {
			w.Add(wayCase("length", ring(l, true), ts))
			w.Add(wayCase("length", ring(l, false), ts))
			same := make([]int64, l)
			for i := range same {
				same[i] = 5
			}
			w.Add(wayCase("length", same, ts))
			w.Count(fmt.Sprintf("length.%d", l))
		}
	}
	for _, ids := range [][]int64{
		{-1, 2, 3, -1}, {0, 0, 0, 0}, {1 << 62, 1, 2, 1 << 62}, {math.MaxInt64, 1, 2, math.MinInt64},
		{math.MaxInt64, 1, 2, math.MaxInt64}, {math.MinInt64, 1, 2, 3, math.MinInt64}, {1, 2, 3, 4, 2}, {1, 2, 3, 1, 4}, {1, 1, 2, 3}, {1, 2, 2, 1},
		{1, 2, 3, 4, 5, 6, 7, 8, 9, 1}, {1, 2, 3, 4, 5, 6, 7, 8, 9, 10},
	} {
		w.Add(wayCase("ids", ids, osm.Tags{{Key: "building", Value: "yes"}}))
	}

	// way nodes with annotations: every annotation pattern x open/closed/short refs x tag sets.
	// Closedness is a matter of the refs only: equal ids with different locations are closed,
	// different ids on the same spot are not.
	for _, ids := range [][]int64{
		{1, 2, 3, 4, 5}, {1, 2, 3, 4, 1}, {1, 2, 3, 4}, {1, 2, 3, 1}, {1, 2, 1}, {1, 2, 3}, {1, 1}, {1}, {},
		{1, 2, 3, 4, 5, 6}, {1, 2, 3, 4, 5, 1}, {5, 5, 5, 5}, {1, 2, 2, 3},
	} {
		for pat := 0; pat < nPatterns; pat++ {
			for _, ts := range tagsets {
				w.Add(wayCaseN("waynodes", annotate(ids, pat), ts))
			}
			w.Count(fmt.Sprintf("waynodes.pattern_%d", pat))
		}
	}
	// random way nodes over small alphabets, so that ids, versions and locations coincide often
	nwn := int(300 * a.Scale)
	if thorough {
		nwn = int(6000 * a.Scale)
	}
	locs := []int64{0, 10000000, 20000000, 15000000}
	for x := 0; x < nwn; x++ {
		l := rng.Intn(7)
		ns := make([]wn, l)
		for i := range ns {
			ns[i] = wn{id: int64(1 + rng.Intn(4))}
			if rng.Intn(4) != 0 {
				ns[i].ann = true
				ns[i].ver = int64(rng.Intn(3))
				ns[i].cs = int64(rng.Intn(3))
				ns[i].lat = locs[rng.Intn(len(locs))]
				ns[i].lon = locs[rng.Intn(len(locs))]
			}
		}
		if l >= 2 && rng.Intn(3) == 0 { // same spot, same version at both ends, whatever the ids
			ns[l-1].ann, ns[l-1].ver, ns[l-1].cs, ns[l-1].lat, ns[l-1].lon = ns[0].ann, ns[0].ver, ns[0].cs, ns[0].lat, ns[0].lon
		}
		w.Add(wayCaseN("waynodes-random", ns, tagsets[1+rng.Intn(3)]))
	}

	// end refs that differ in ONE bit only (every bit position, so also bits a packed id drops or
	// masks: >= 2^40, 2^44, 2^48, the sign) are different nodes: the way is open
	for _, base := range []int64{0, 7, -1, 1 << 44, 1<<40 - 1, math.MinInt64} {
		for k := uint(0); k < 64; k++ {
			if !thorough && k > 3 && k < 30 && k%5 != 0 {
				continue
			}
			other := base ^ int64(uint64(1)<<k)
			w.Add(wayCase("ids-one-bit", []int64{base, 2, 3, other}, osm.Tags{{Key: "building", Value: "yes"}}))
		}
		w.Add(wayCase("ids-one-bit", []int64{base, 2, 3, base}, osm.Tags{{Key: "building", Value: "yes"}}))
	}
	for _, pr := range [][2]int64{{7, 7 + 1<<44}, {1 << 44, 0}, {-1, -1 - 1<<44}, {7, 7 + 1<<48}, {7, 7 - 1<<48}, {1 << 40, 0}, {1<<40 + 5, 5}, {math.MaxInt64, -1}, {math.MinInt64, 0}, {1 << 47, -1 << 47}} {
		w.Add(wayCase("ids-one-bit", []int64{pr[0], 2, 3, pr[1]}, osm.Tags{{Key: "landuse", Value: "grass"}}))
		w.Add(wayCase("ids-one-bit", []int64{pr[1], 2, 3, 4, pr[0]}, osm.Tags{{Key: "area", Value: "yes"}}))
	}

	// every id sequence over {1,2,3} of length 0..5 (all first/last/length patterns)
	for l := 0; l <= 5; l++ {
		total := 1
		for i := 0; i < l; i++ {
			total *= 3
		}
		for x := 0; x < total; x++ {
			ids := make([]int64, l)
			y := x
			for i := range ids {
				ids[i] = int64(1 + y%3)
				y /= 3
			}
			w.Add(wayCase("ids-exhaustive", ids, osm.Tags{{Key: "building", Value: "yes"}}))
		}
	}

	// 3. pairs of rule keys
	for _, r1 := range published {
		if r1.cond == 0 && !thorough {
			continue
		}
		for _, r2 := range published {
			if r1.key == r2.key {
				continue
			}
			combos := [][2]string{{failv(r1), pass(r2)}, {pass(r1), failv(r2)}, {failv(r1), failv(r2)}, {"no", pass(r2)}, {failv(r1), "no"}, {"", failv(r2)}}
			for _, cb := range combos {
				t := osm.Tags{{Key: r1.key, Value: cb[0]}, {Key: r2.key, Value: cb[1]}}
				w.Add(wayCase("pair", ring4, t))
				w.Add(wayCase("pair", ring4, osm.Tags{t[1], t[0]}))
			}
		}
	}

	// 4. random tag sets in several orders; irrelevant tags; duplicates
	irrelevant := []string{"name", "source", "Building", "building ", " building", "area:", "Area", "areas", "are", "building:part2", "highwa", "highway2", "type", "natural:", "man-made", "", "note", "ref", "layer"}
	valuePool := append(append([]string{}, allValues.l...), "yes", "no", "", "unlisted_value", "primary", "water", "x")
	nsets := int(150 * a.Scale)
	if thorough {
		nsets = int(4000 * a.Scale)
	}
	pick := func(l []string) string { return l[rng.Intn(len(l))] }
	for s := 0; s < nsets; s++ {
		nt := 2 + rng.Intn(4)
		var tags osm.Tags
		used := map[string]bool{}
		for len(tags) < nt {
			var k string
			switch rng.Intn(6) {
			case 0:
				k = "area"
			case 1:
				k = pick(irrelevant)
			default:
				k = pick(keys.l)
			}
			if used[k] {
				continue
			}
			used[k] = true
			v := pick(valuePool)
			if own[k] != nil && len(own[k].l) > 0 && rng.Intn(2) == 0 {
				v = pick(own[k].l)
			}
			if k == "area" {
				v = pick([]string{"", "no", "yes", "x", "", ""})
			}
			tags = append(tags, osm.Tag{Key: k, Value: v})
		}
		ids := ring4
		if rng.Intn(8) == 0 {
			ids = ring(rng.Intn(7), rng.Intn(2) == 0)
		}
		var perms []osm.Tags
		if nt <= 3 {
			perms = allPerms(tags)
		} else {
			perms = append(perms, cloneTags(tags))
			for p := 0; p < 3+rng.Intn(3); p++ {
				t := cloneTags(tags)
				rng.Shuffle(len(t), func(i, j int) { t[i], t[j] = t[j], t[i] })
				perms = append(perms, t)
			}
		}
		first := -1
		for _, p := range perms {
			c := wayCase("order", ids, p)
			o := int(c.Toks[len(c.Toks)-1])
			if first < 0 {
				first = o
			} else if o != first && c.OracleFail == "" {
				c.OracleFail = "Way.Polygon() differs between two orders of the same tag set"
			}
			w.Add(c)
		}
		w.Count(fmt.Sprintf("order.ntags_%d", nt))
		// the same set with irrelevant tags inserted
		t := cloneTags(tags)
		for x := 0; x < 1+rng.Intn(3); x++ {
			k := pick(irrelevant)
			if used[k] {
				continue
			}
			used[k] = true
			pos := rng.Intn(len(t) + 1)
			t = append(t[:pos], append(osm.Tags{{Key: k, Value: pick(valuePool)}}, t[pos:]...)...)
		}
		c := wayCase("irrelevant", ids, t)
		if o := int(c.Toks[len(c.Toks)-1]); o != first && c.OracleFail == "" {
			c.OracleFail = "Way.Polygon() changed when tags with unrelated keys were added"
		}
		w.Add(c)
		// Tags.Find on a present and on an absent / near-miss key
		w.Add(findCase("find", tags, tags[rng.Intn(len(tags))].Key))
		w.Add(findCase("find", t, pick(irrelevant)))
		w.Add(tagsOpsCase("tags-ops", tags, tags[rng.Intn(len(tags))].Key))
		w.Add(tagsOpsCase("tags-ops", t, pick(irrelevant)))
		// a duplicate key (outside the property: only the model is compared)
		if s%5 == 0 {
			d := cloneTags(tags)
			j := rng.Intn(len(d))
			pos := rng.Intn(len(d) + 1)
			dup := osm.Tag{Key: d[j].Key, Value: pick([]string{"no", "yes", "", pick(valuePool)})}
			d = append(d[:pos], append(osm.Tags{dup}, d[pos:]...)...)
			w.Add(wayCase("dup", ids, d))
			w.Add(findCase("find-dup", d, dup.Key))
			w.Add(tagsOpsCase("tags-ops-dup", d, dup.Key))
		}
	}
	for _, d := range []osm.Tags{
		{{Key: "area", Value: "no"}, {Key: "area", Value: "yes"}},
		{{Key: "area", Value: "yes"}, {Key: "area", Value: "no"}},
		{{Key: "area", Value: ""}, {Key: "area", Value: "no"}, {Key: "building", Value: "yes"}},
		{{Key: "building", Value: "no"}, {Key: "building", Value: "yes"}},
		{{Key: "building", Value: "yes"}, {Key: "building", Value: "no"}},
		{{Key: "highway", Value: "primary"}, {Key: "highway", Value: "services"}},
	} {
		w.Add(wayCase("dup", ring4, d))
	}

	// 5. relations
	types := []struct {
		present bool
		v       string
	}{{false, ""}, {true, ""}, {true, "multipolygon"}, {true, "boundary"}, {true, "Multipolygon"}, {true, "multipolygon "}, {true, "route"},
		{true, "boundary2"}, {true, "boundar"}, {true, "multipolygo"}, {true, "site"}, {true, "no"}, {true, "yes"}, {true, "MULTIPOLYGON"}, {true, "multipolygon;boundary"}}
	others := []osm.Tags{nil, {{Key: "area", Value: "yes"}}, {{Key: "building", Value: "yes"}}, {{Key: "boundary", Value: "administrative"}, {Key: "name", Value: "x"}},
		{{Key: "area", Value: "no"}}, {{Key: "Type", Value: "multipolygon"}}, {{Key: "type:old", Value: "boundary"}}}
	for _, ty := range types {
		for _, o := range others {
			if !ty.present {
				w.Add(relCase("relation", o))
				continue
			}
			tt := osm.Tag{Key: "type", Value: ty.v}
			w.Add(relCase("relation", append(osm.Tags{tt}, o...)))
			if len(o) > 0 {
				w.Add(relCase("relation", append(cloneTags(o), tt)))
			}
		}
	}
	for _, d := range []osm.Tags{
		{{Key: "type", Value: "route"}, {Key: "type", Value: "multipolygon"}},
		{{Key: "type", Value: "multipolygon"}, {Key: "type", Value: "route"}},
		{{Key: "type", Value: ""}, {Key: "type", Value: "boundary"}},
	} {
		w.Add(relCase("relation-dup", d))
	}

	// AnyInteresting: only uninteresting keys, mixtures, near misses, none
	var ukeys []string
	for k, v := range osm.UninterestingTags {
		if v {
			ukeys = append(ukeys, k)
		}
	}
	sort.Strings(ukeys)
	{
		c := &wire.Case{Class: "uninteresting-set"}
		c.Int(6).Len(len(ukeys))
		for _, k := range ukeys {
			pstr(c, k)
		}
		c.Desc = map[string]interface{}{"call": "UninterestingTags (keys mapped to true)", "observed": ukeys}
		w.Add(c)
	}
	var allU osm.Tags
	for _, k := range ukeys {
		allU = append(allU, osm.Tag{Key: k, Value: "x"})
		w.Add(tagsOpsCase("tags-ops", osm.Tags{{Key: k, Value: "x"}}, k))
		w.Add(tagsOpsCase("tags-ops", osm.Tags{{Key: k, Value: ""}, {Key: "name", Value: "y"}}, "name"))
		for _, nk := range []string{k + " ", strings.ToUpper(k[:1]) + k[1:], k[:len(k)-1], k + "s"} {
			w.Add(tagsOpsCase("tags-ops", osm.Tags{{Key: nk, Value: "x"}}, k))
		}
	}
	w.Add(tagsOpsCase("tags-ops", nil, "name"))
	w.Add(tagsOpsCase("tags-ops", allU, "history"))
	w.Add(tagsOpsCase("tags-ops", append(cloneTags(allU), osm.Tag{Key: "building", Value: "yes"}), "building"))
	w.Add(tagsOpsCase("tags-ops", append(osm.Tags{{Key: "", Value: ""}}, allU...), ""))
	w.Add(tagsOpsCase("tags-ops-dup", osm.Tags{{Key: "a", Value: "1"}, {Key: "b", Value: "2"}, {Key: "a", Value: "3"}}, "a"))

	// 6. the run-time table (after the sweep, so that a wrong table is first reported by a
	// concrete misclassified way)
	w.Add(tableCase(rt, names))

	// 7. canaries: one corrupted observation per observable class
	{
		// observed := the opposite of what the published rules say (zigzag: true is 2, false is 0)
		c := wayCase("", ring4, osm.Tags{{Key: "highway", Value: "services"}})
		c.Toks[len(c.Toks)-1] = 0 // "false" for a way that is an area
		c.Canary, c.OracleFail = 1, ""
		w.Add(c)
		c2 := wayCase("", ring4, osm.Tags{{Key: "natural", Value: "cliff"}})
		c2.Toks[len(c2.Toks)-1] = 2 // "true" for a way that is not an area
		c2.Canary, c2.OracleFail = 1, ""
		w.Add(c2)
		c3 := relCase("", osm.Tags{{Key: "type", Value: "boundary"}})
		c3.Toks[len(c3.Toks)-1] = 0
		c3.Canary, c3.OracleFail = 1, ""
		w.Add(c3)
		c6 := wayCaseN("", annotate([]int64{1, 2, 3, 4, 5}, 2), osm.Tags{{Key: "building", Value: "yes"}})
		c6.Toks[len(c6.Toks)-1] = 2 // an open way with a duplicate location at both ends reported as area
		c6.Canary, c6.OracleFail = 1, ""
		w.Add(c6)
		c7 := tagsOpsCase("", osm.Tags{{Key: "source", Value: "x"}, {Key: "created_by", Value: "y"}}, "source")
		c7.Toks[len(c7.Toks)-1] = 2 // AnyInteresting reported true for uninteresting tags only
		c7.Canary, c7.OracleFail = 1, ""
		w.Add(c7)
		c8 := waySeqCase("", []seqStep{{ns: annotate([]int64{1, 2, 3, 1}, 0), tags: osm.Tags{{Key: "building", Value: "yes"}}}, {ns: annotate([]int64{1, 2, 3, 1}, 0), tags: osm.Tags{{Key: "building", Value: "no"}}}})
		c8.Toks[len(c8.Toks)-1] = 2 // the second call repeats the first (stale) answer
		c8.Canary, c8.OracleFail = 1, ""
		w.Add(c8)
		c5 := findCase("", osm.Tags{{Key: "name", Value: "x"}, {Key: "area", Value: "yes"}}, "area")
		c5.Toks[len(c5.Toks)-1] ^= 1 // last byte of the observed value
		c5.Canary, c5.OracleFail = 1, ""
		w.Add(c5)
		// a run-time table whose first multi-valued list has its first two values swapped
		rt2 := osm.VerifPolyConditions()
		for i := range rt2 {
			if len(rt2[i].Values) >= 2 && rt2[i].Values[0] != rt2[i].Values[1] {
				rt2[i].Values[0], rt2[i].Values[1] = rt2[i].Values[1], rt2[i].Values[0]
				break
			}
		}
		c4 := tableCase(rt2, names)
		c4.Canary, c4.OracleFail, c4.Class = 1, "", ""
		w.Add(c4)
	}
	if err := w.Flush(a.Out, "Verif.C18.Check", 2500); err != nil {
		fmt.Fprintln(os.Stderr, err)
		os.Exit(1)
	}
}

func allPerms(t osm.Tags) []osm.Tags {
	if len(t) <= 1 {
		return []osm.Tags{cloneTags(t)}
	}
	var out []osm.Tags
	for i := range t {
		rest := append(cloneTags(t[:i]), t[i+1:]...)
		for _, p := range allPerms(rest) {
			out = append(out, append(osm.Tags{t[i]}, p...))
		}
	}
	return out
}

var _ = rand.Int
