// c10: correspondence harness for the packed identifiers (property C10).
package main

import (
	"fmt"
	"math"
	"math/rand"
	"os"
	"sort"
	"strings"

	"github.com/paulmach/osm"
	"verif/harness/wire"
)

var kinds = []osm.Type{osm.TypeBounds, osm.TypeNode, osm.TypeWay, osm.TypeRelation, osm.TypeChangeset, osm.TypeNote, osm.TypeUser}

func isElem(k int) bool { return k >= 1 && k <= 3 }

func objectID(k int, r int64, v int) osm.ObjectID {
	switch k {
	case 0:
		var b *osm.Bounds
		return b.ObjectID()
	case 1:
		return osm.NodeID(r).ObjectID(v)
	case 2:
		return osm.WayID(r).ObjectID(v)
	case 3:
		return osm.RelationID(r).ObjectID(v)
	case 4:
		return osm.ChangesetID(r).ObjectID()
	case 5:
		return osm.NoteID(r).ObjectID()
	}
	return osm.UserID(r).ObjectID()
}

func elementID(k int, r int64, v int) osm.ElementID {
	switch k {
	case 1:
		return osm.NodeID(r).ElementID(v)
	case 2:
		return osm.WayID(r).ElementID(v)
	}
	return osm.RelationID(r).ElementID(v)
}

func featureID(k int, r int64) osm.FeatureID {
	switch k {
	case 1:
		return osm.NodeID(r).FeatureID()
	case 2:
		return osm.WayID(r).FeatureID()
	}
	return osm.RelationID(r).FeatureID()
}

func safeType(f func() osm.Type) (t string) {
	defer func() {
		if recover() != nil {
			t = "!panic"
		}
	}()
	return string(f())
}

func idCase(k int, r int64, v int) *wire.Case {
	c := &wire.Case{Class: "id"}
	c.Int(1).Int(int64(k)).Int(r).Int(int64(v))
	oid := objectID(k, r, v)
	ostr := oid.String()
	op, oerr := osm.ParseObjectID(ostr)
	c.Int(int64(oid)).Str(safeType(oid.Type)).Int(oid.Ref()).Int(int64(oid.Version())).Str(ostr).Bool(oerr == nil).Int(int64(op))
	desc := map[string]interface{}{"kind": string(kinds[k]), "ref": r, "version": v, "object_id": int64(oid), "string": ostr}
	c.Bool(isElem(k))
	if isElem(k) {
		eid := elementID(k, r, v)
		estr := eid.String()
		ep, eerr := osm.ParseElementID(estr)
		c.Int(int64(eid)).Str(safeType(eid.Type)).Int(eid.Ref()).Int(int64(eid.Version())).Int(int64(eid.FeatureID())).Str(estr).Bool(eerr == nil).Int(int64(ep))
		fid := featureID(k, r)
		fstr := fid.String()
		fp, ferr := osm.ParseFeatureID(fstr)
		c.Int(int64(fid)).Str(string(fid.Type())).Int(fid.Ref()).Str(fstr).Bool(ferr == nil).Int(int64(fp))
		desc["element_id"] = int64(eid)
		desc["feature_id"] = int64(fid)
	}
	c.Desc = desc
	c.OracleFail = idOracle(k, r, v)
	return c
}

var kcode = []int64{8, 16, 32, 48, 64, 80, 96}

// idOracle is the Go-side copy of the property oracle (Coq judgement 2) for id cases; it lets
// the check name a concrete failing input even when the Coq model no longer builds.
func idOracle(k int, r int64, v int) string {
	nr, nv := r, int64(v)
	if k == 0 {
		nr = 0
	}
	if !isElem(k) {
		nv = 0
	}
	want := kcode[k]<<56 + nr<<16 + nv
	oid := objectID(k, r, v)
	if int64(oid) != want {
		return fmt.Sprintf("object id %d, layout says %d", int64(oid), want)
	}
	if safeType(oid.Type) != string(kinds[k]) || oid.Ref() != nr || int64(oid.Version()) != nv {
		return fmt.Sprintf("object id decodes to %s/%d:%d", safeType(oid.Type), oid.Ref(), oid.Version())
	}
	if p, err := osm.ParseObjectID(oid.String()); err != nil || p != oid {
		return fmt.Sprintf("ParseObjectID(%q) = %d, %v", oid.String(), int64(p), err)
	}
	if isElem(k) {
		eid := elementID(k, r, v)
		fid := featureID(k, r)
		if int64(eid) != want || int64(fid) != kcode[k]<<56+r<<16 {
			return fmt.Sprintf("element id %d / feature id %d, layout says %d / %d", int64(eid), int64(fid), want, kcode[k]<<56+r<<16)
		}
		if safeType(eid.Type) != string(kinds[k]) || eid.Ref() != r || eid.Version() != v || eid.FeatureID() != fid {
			return fmt.Sprintf("element id decodes to %s/%d:%d feature %d", safeType(eid.Type), eid.Ref(), eid.Version(), int64(eid.FeatureID()))
		}
		if string(fid.Type()) != string(kinds[k]) || fid.Ref() != r {
			return fmt.Sprintf("feature id decodes to %s/%d", fid.Type(), fid.Ref())
		}
		if p, err := osm.ParseElementID(eid.String()); err != nil || p != eid {
			return fmt.Sprintf("ParseElementID(%q) = %d, %v", eid.String(), int64(p), err)
		}
		if p, err := osm.ParseFeatureID(fid.String()); err != nil || p != fid {
			return fmt.Sprintf("ParseFeatureID(%q) = %d, %v", fid.String(), int64(p), err)
		}
	}
	return ""
}

func tryID(f func() int64) (ok bool, v int64) {
	defer func() {
		if recover() != nil {
			ok, v = false, 0
		}
	}()
	return true, f()
}

// convCase: the panicking conversions of a feature id and an element id of kind k to every
// element kind.
func convCase(k int, r int64, v int) *wire.Case {
	c := &wire.Case{Class: "conv"}
	c.Int(4).Int(int64(k)).Int(r).Int(int64(v))
	fid, eid := featureID(k, r), elementID(k, r, v)
	names := []string{"NodeID", "WayID", "RelationID"}
	obs := map[string]interface{}{}
	fs := []func() int64{func() int64 { return int64(fid.NodeID()) }, func() int64 { return int64(fid.WayID()) }, func() int64 { return int64(fid.RelationID()) },
		func() int64 { return int64(eid.NodeID()) }, func() int64 { return int64(eid.WayID()) }, func() int64 { return int64(eid.RelationID()) }}
	for i, f := range fs {
		ok, val := tryID(f)
		c.Bool(ok).Int(val)
		on := "FeatureID." + names[i%3]
		if i >= 3 {
			on = "ElementID." + names[i%3]
		}
		if ok {
			obs[on] = val
		} else {
			obs[on] = "panic"
		}
		want := i%3+1 == k
		if ok != want && c.OracleFail == "" {
			if ok {
				c.OracleFail = fmt.Sprintf("%s() of a %s id returned %d instead of panicking: the id decodes as another kind", on, kinds[k], val)
			} else {
				c.OracleFail = fmt.Sprintf("%s() of a %s id panicked", on, kinds[k])
			}
		} else if ok && val != r && c.OracleFail == "" {
			c.OracleFail = fmt.Sprintf("%s() = %d, want %d", on, val, r)
		}
	}
	c.Desc = map[string]interface{}{"kind": string(kinds[k]), "ref": r, "version": v, "feature_id": fid.String(), "element_id": eid.String(), "observed": obs}
	return c
}

func specPack(k int, r int64, v int) int64 {
	switch {
	case k == 0:
		r, v = 0, 0
	case !isElem(k):
		v = 0
	}
	return kcode[k]<<56 + r<<16 + int64(v)
}

func showTriples(ts []triple) []interface{} {
	var in []interface{}
	for _, t := range ts {
		in = append(in, []interface{}{string(kinds[t.k]), t.r, t.v})
	}
	return in
}

func putTriples(c *wire.Case, ts []triple) {
	c.Len(len(ts))
	for _, t := range ts {
		c.Int(int64(t.k)).Int(t.r).Int(int64(t.v))
	}
}

// countsCase: FeatureIDs.Counts / ElementIDs.Counts on ids of any of the seven kinds.
func countsCase(which int, ts []triple) *wire.Case {
	c := &wire.Case{Class: fmt.Sprintf("counts%d", which)}
	c.Int(5).Int(int64(which))
	putTriples(c, ts)
	var n, w, r int
	if which == 0 {
		ids := make(osm.FeatureIDs, len(ts))
		for i, t := range ts {
			ids[i] = osm.FeatureID(objectID(t.k, t.r, t.v))
		}
		n, w, r = ids.Counts()
	} else {
		ids := make(osm.ElementIDs, len(ts))
		for i, t := range ts {
			ids[i] = osm.ElementID(objectID(t.k, t.r, t.v))
		}
		n, w, r = ids.Counts()
	}
	c.Int(int64(n)).Int(int64(w)).Int(int64(r))
	var en, ew, er int
	for _, t := range ts {
		switch t.k {
		case 1:
			en++
		case 2:
			ew++
		case 3:
			er++
		}
	}
	if n != en || w != ew || r != er {
		c.OracleFail = fmt.Sprintf("Counts() = (%d,%d,%d), the list holds (%d,%d,%d) node/way/relation ids", n, w, r, en, ew, er)
	}
	c.Desc = map[string]interface{}{"call": []string{"FeatureIDs.Counts", "ElementIDs.Counts"}[which], "ids": showTriples(ts), "observed": []int{n, w, r}}
	return c
}

func object(t triple) osm.Object {
	switch t.k {
	case 0:
		return &osm.Bounds{}
	case 1:
		return &osm.Node{ID: osm.NodeID(t.r), Version: t.v}
	case 2:
		return &osm.Way{ID: osm.WayID(t.r), Version: t.v}
	case 3:
		return &osm.Relation{ID: osm.RelationID(t.r), Version: t.v}
	case 4:
		return &osm.Changeset{ID: osm.ChangesetID(t.r)}
	case 5:
		return &osm.Note{ID: osm.NoteID(t.r)}
	}
	return &osm.User{ID: osm.UserID(t.r)}
}

// listCase: Elements.ElementIDs / Elements.FeatureIDs / Objects.ObjectIDs.
func listCase(which int, ts []triple) *wire.Case {
	c := &wire.Case{Class: fmt.Sprintf("list%d", which)}
	c.Int(6).Int(int64(which))
	putTriples(c, ts)
	var out []int64
	isNil := false
	switch which {
	case 0, 1:
		es := make(osm.Elements, len(ts))
		for i, t := range ts {
			es[i] = object(t).(osm.Element)
		}
		if which == 0 {
			ids := es.ElementIDs()
			isNil = ids == nil
			for _, id := range ids {
				out = append(out, int64(id))
			}
		} else {
			ids := es.FeatureIDs()
			isNil = ids == nil
			for _, id := range ids {
				out = append(out, int64(id))
			}
		}
	default:
		os := make(osm.Objects, len(ts))
		for i, t := range ts {
			os[i] = object(t)
		}
		ids := os.ObjectIDs()
		isNil = ids == nil
		for _, id := range ids {
			out = append(out, int64(id))
		}
	}
	c.Ints(out).Bool(isNil)
	if len(out) != len(ts) {
		c.OracleFail = "the id list has another length than the input"
	} else {
		for i, t := range ts {
			want := specPack(t.k, t.r, t.v)
			if which == 1 {
				want = specPack(t.k, t.r, 0)
			}
			if out[i] != want {
				c.OracleFail = fmt.Sprintf("id %d of the list is %d, want %d", i, out[i], want)
				break
			}
		}
	}
	c.Desc = map[string]interface{}{"call": []string{"Elements.ElementIDs", "Elements.FeatureIDs", "Objects.ObjectIDs"}[which], "input": showTriples(ts), "observed": out, "nil": isNil}
	return c
}

func wayNodeCase(id int64, ver int) *wire.Case {
	c := &wire.Case{Class: "waynode"}
	wn := osm.WayNode{ID: osm.NodeID(id), Version: ver, ChangesetID: 3, Lat: 1, Lon: 2}
	fid, eid := int64(wn.FeatureID()), int64(wn.ElementID())
	c.Int(7).Int(id).Int(int64(ver)).Int(fid).Int(eid)
	if fid != specPack(1, id, 0) || eid != specPack(1, id, ver) {
		c.OracleFail = "WayNode.FeatureID/ElementID is not the node id packed with the way node's version"
	}
	c.Desc = map[string]interface{}{"call": "WayNode.FeatureID/ElementID", "id": id, "version": ver, "feature_id": fid, "element_id": eid}
	return c
}

func kindOfName(s string) int {
	for i, k := range kinds {
		if string(k) == s {
			return i
		}
	}
	return -1
}

func memberCase(typ string, ref int64, ver int) *wire.Case {
	c := &wire.Case{Class: "member"}
	m := osm.Member{Type: osm.Type(typ), Ref: ref, Version: ver, Role: "outer", Lat: 1, Lon: 2}
	fok, fid := tryID(func() int64 { return int64(m.FeatureID()) })
	eok, eid := tryID(func() int64 { return int64(m.ElementID()) })
	c.Int(8).Str(typ).Int(ref).Int(int64(ver)).Bool(fok).Int(fid).Bool(eok).Int(eid)
	k := kindOfName(typ)
	if isElem(k) {
		if !fok || !eok || fid != specPack(k, ref, 0) || eid != specPack(k, ref, ver) {
			c.OracleFail = "Member.FeatureID/ElementID of an element member is not its packed id"
		}
	} else if fok || eok {
		c.OracleFail = "Member.FeatureID/ElementID of a member that is not a node, way or relation returned an id"
	}
	c.Desc = map[string]interface{}{"call": "Member.FeatureID/ElementID", "type": typ, "ref": ref, "version": ver,
		"feature_id": map[string]interface{}{"ok": fok, "id": fid}, "element_id": map[string]interface{}{"ok": eok, "id": eid}}
	return c
}

func typeFeatureCase(typ string, ref int64) *wire.Case {
	c := &wire.Case{Class: "typefid"}
	id, err := osm.Type(typ).FeatureID(ref)
	c.Int(9).Str(typ).Int(ref).Bool(err == nil).Int(int64(id))
	k := kindOfName(typ)
	if isElem(k) != (err == nil) || (err == nil && int64(id) != specPack(k, ref, 0)) {
		c.OracleFail = "Type.FeatureID: wrong id or wrong verdict"
	}
	c.Desc = map[string]interface{}{"call": "Type.FeatureID", "type": typ, "ref": ref, "ok": err == nil, "id": int64(id)}
	return c
}

// oorCase: references and versions OUTSIDE the property's domain (any int64).
func oorCase(k int, r int64, v int64) *wire.Case {
	c := &wire.Case{Class: "out-of-range"}
	fid := featureID(k, r)
	eid := elementID(k, r, int(v))
	c.Int(10).Int(int64(k)).Int(r).Int(v).Int(int64(fid)).Int(fid.Ref()).Int(int64(eid)).Int(int64(eid.Version()))
	c.Desc = map[string]interface{}{"note": "outside the domain of the property (judgement 2 = the formulas of C10/OutOfRange.v)",
		"kind": string(kinds[k]), "ref": r, "version": v, "feature_id": int64(fid), "feature_ref": fid.Ref(), "feature_type": string(fid.Type()),
		"element_id": int64(eid), "element_version": eid.Version()}
	return c
}

// ---- long sorts: the list is described by (mode, n, seed) and expanded on both sides ----

func lcgNext(x uint64) uint64 { return 6364136223846793005*x + 1442695040888963407 }

func genBig(mode, n int, seed int64) []triple {
	ts := make([]triple, 0, n)
	switch mode {
	case 0:
		x := uint64(seed)
		for i := 0; i < n; i++ {
			x = lcgNext(x)
			ts = append(ts, triple{[]int{1, 2, 3, 1}[(x>>33)&3], int64((x >> 13) & (1<<40 - 1)), int(x & 0xffff)})
		}
	case 1:
		for i := n - 1; i >= 1; i-- {
			ts = append(ts, triple{2, int64(i), 1})
		}
		if n > 0 {
			ts = append(ts, triple{1, 1, 1})
		}
	default:
		if n < 3 {
			for i := 1; i <= n; i++ {
				ts = append(ts, triple{1, int64(i), 1})
			}
			break
		}
		m := n - 3
		for i := 1; i <= m; i++ {
			ts = append(ts, triple{1, int64(i), 1})
		}
		ts = append(ts, triple{1, int64(m + 3), 1}, triple{1, int64(m + 2), 1}, triple{1, int64(m + 1), 1})
	}
	return ts
}

func hashes(ids []int64) (su, sq, ro uint32) {
	const B = 1000003
	for _, id := range ids {
		m := uint32(uint64(id) ^ (uint64(id) >> 29))
		su += m
		sq += m * m
		ro = ro*B + m
	}
	return
}

func bigSortCase(which, mode, n int, seed int64) *wire.Case {
	c := &wire.Case{Class: fmt.Sprintf("bigsort%d", which)}
	ts := genBig(mode, n, seed)
	c.Int(11).Int(int64(which)).Int(int64(mode)).Int(int64(n)).Int(seed)
	var out []int64
	want := make([]int64, len(ts))
	switch which {
	case 0:
		ids := make(osm.ElementIDs, len(ts))
		for i, t := range ts {
			ids[i] = elementID(t.k, t.r, t.v)
			want[i] = specPack(t.k, t.r, t.v)
		}
		ids.Sort()
		for _, id := range ids {
			out = append(out, int64(id))
		}
	case 1:
		ids := make(osm.FeatureIDs, len(ts))
		for i, t := range ts {
			ids[i] = featureID(t.k, t.r)
			want[i] = specPack(t.k, t.r, 0)
		}
		ids.Sort()
		for _, id := range ids {
			out = append(out, int64(id))
		}
	default:
		es := make(osm.Elements, len(ts))
		for i, t := range ts {
			es[i] = object(t).(osm.Element)
			want[i] = specPack(t.k, t.r, t.v)
		}
		es.Sort()
		for _, e := range es {
			out = append(out, int64(e.ElementID()))
		}
	}
	dis := -1
	for i := 1; i < len(out); i++ {
		if out[i-1] > out[i] {
			dis = i
			break
		}
	}
	su, sq, ro := hashes(out)
	c.Int(int64(len(out))).Int(int64(dis)).Int(int64(su)).Int(int64(sq)).Int(int64(ro))
	sort.Slice(want, func(i, j int) bool { return want[i] < want[j] })
	d := map[string]interface{}{"sort": []string{"ElementIDs", "FeatureIDs", "Elements"}[which], "generator_mode": mode, "n": n, "seed": seed,
		"generator":                "mode 0: x=6364136223846793005*x+1442695040888963407 mod 2^64, kind [node,way,relation,node][(x>>33)&3], ref (x>>13)&(2^40-1), version x&0xffff; mode 1: way ids n-1..1 then node 1; mode 2: node ids 1..n-3 then n, n-1, n-2",
		"first_index_out_of_order": dis, "output_length": len(out)}
	if dis >= 0 {
		lo := dis - 2
		if lo < 0 {
			lo = 0
		}
		hi := dis + 2
		if hi > len(out) {
			hi = len(out)
		}
		var around []string
		for _, id := range out[lo:hi] {
			around = append(around, osm.ElementID(id).String())
		}
		d["output_around_that_index"] = around
		c.OracleFail = fmt.Sprintf("sorted output of %d ids is out of order at index %d", len(out), dis)
	}
	for i := range want {
		if i >= len(out) || want[i] != out[i] {
			if c.OracleFail == "" {
				c.OracleFail = fmt.Sprintf("sorted output differs from the sorted permutation of the input at index %d", i)
			}
			break
		}
	}
	c.Desc = d
	return c
}

// strSeqCase: String() on several ids in a row; every returned string is KEPT, a copy is taken
// at return time, and only after all calls the kept strings are compared and parsed.
func strSeqCase(which int, ts []triple) *wire.Case {
	c := &wire.Case{Class: fmt.Sprintf("strseq%d", which)}
	c.Int(12).Int(int64(which))
	putTriples(c, ts)
	kept := make([]string, len(ts))
	copies := make([]string, len(ts))
	for i, t := range ts {
		var s string
		switch which {
		case 0:
			s = objectID(t.k, t.r, t.v).String()
		case 1:
			s = elementID(t.k, t.r, t.v).String()
		default:
			s = featureID(t.k, t.r).String()
		}
		kept[i] = s
		copies[i] = string(append([]byte(nil), s...))
	}
	c.Len(len(ts))
	var rows []interface{}
	for i, t := range ts {
		same := kept[i] == copies[i]
		var id int64
		var err error
		want := specPack(t.k, t.r, t.v)
		switch which {
		case 0:
			var x osm.ObjectID
			x, err = osm.ParseObjectID(kept[i])
			id = int64(x)
		case 1:
			var x osm.ElementID
			x, err = osm.ParseElementID(kept[i])
			id = int64(x)
		default:
			var x osm.FeatureID
			x, err = osm.ParseFeatureID(kept[i])
			id, want = int64(x), specPack(t.k, t.r, 0)
		}
		// copy the (possibly aliased) kept text now, for the wire and the replay
		now := string(append([]byte(nil), kept[i]...))
		c.Str(now).Bool(same).Bool(err == nil).Int(id)
		rows = append(rows, map[string]interface{}{"id": []interface{}{string(kinds[t.k]), t.r, t.v}, "string_when_returned": copies[i], "kept_string_after_all_calls": now, "parse_ok": err == nil, "parsed": id})
		if c.OracleFail == "" {
			if !same {
				c.OracleFail = fmt.Sprintf("the string returned for id %d (%q) read %q after later String() calls", i, copies[i], now)
			} else if err != nil || id != want {
				c.OracleFail = fmt.Sprintf("the kept string %q does not parse back to its id", now)
			}
		}
	}
	c.Desc = map[string]interface{}{"call": []string{"ObjectID.String", "ElementID.String", "FeatureID.String"}[which] + " on every id in a row, results kept, then compared and parsed", "rows": rows}
	return c
}

// collCase: the collection-level id functions (rarely used entry points): WayNodes, Members,
// Nodes, Ways, Relations, OSM.  A version of 0 is a value like any other, wherever it stands.
func collCase(which int, ts []triple) *wire.Case {
	c := &wire.Case{Class: fmt.Sprintf("coll%d", which)}
	c.Int(13).Int(int64(which))
	putTriples(c, ts)
	var eids osm.ElementIDs
	var fids osm.FeatureIDs
	var plain []int64
	switch which {
	case 0:
		wn := make(osm.WayNodes, len(ts))
		for i, t := range ts {
			wn[i] = osm.WayNode{ID: osm.NodeID(t.r), Version: t.v, ChangesetID: osm.ChangesetID(i), Lat: float64(i), Lon: 1}
		}
		eids, fids = wn.ElementIDs(), wn.FeatureIDs()
		for _, id := range wn.NodeIDs() {
			plain = append(plain, int64(id))
		}
	case 1:
		ms := make(osm.Members, len(ts))
		for i, t := range ts {
			ms[i] = osm.Member{Type: kinds[t.k], Ref: t.r, Version: t.v, Role: "x"}
		}
		eids, fids = ms.ElementIDs(), ms.FeatureIDs()
	case 2:
		ns := make(osm.Nodes, len(ts))
		for i, t := range ts {
			ns[i] = &osm.Node{ID: osm.NodeID(t.r), Version: t.v}
		}
		eids, fids = ns.ElementIDs(), ns.FeatureIDs()
		for _, id := range ns.IDs() {
			plain = append(plain, int64(id))
		}
	case 3:
		ws := make(osm.Ways, len(ts))
		for i, t := range ts {
			ws[i] = &osm.Way{ID: osm.WayID(t.r), Version: t.v}
		}
		eids, fids = ws.ElementIDs(), ws.FeatureIDs()
		for _, id := range ws.IDs() {
			plain = append(plain, int64(id))
		}
	case 4:
		rs := make(osm.Relations, len(ts))
		for i, t := range ts {
			rs[i] = &osm.Relation{ID: osm.RelationID(t.r), Version: t.v}
		}
		eids, fids = rs.ElementIDs(), rs.FeatureIDs()
		for _, id := range rs.IDs() {
			plain = append(plain, int64(id))
		}
	default:
		o := &osm.OSM{}
		for _, t := range ts {
			switch t.k {
			case 1:
				o.Nodes = append(o.Nodes, &osm.Node{ID: osm.NodeID(t.r), Version: t.v})
			case 2:
				o.Ways = append(o.Ways, &osm.Way{ID: osm.WayID(t.r), Version: t.v})
			default:
				o.Relations = append(o.Relations, &osm.Relation{ID: osm.RelationID(t.r), Version: t.v})
			}
		}
		eids, fids = o.ElementIDs(), o.FeatureIDs()
	}
	var eo, fo []int64
	for _, id := range eids {
		eo = append(eo, int64(id))
	}
	for _, id := range fids {
		fo = append(fo, int64(id))
	}
	c.Ints(eo).Ints(fo).Ints(plain)
	// oracle: the i-th id decodes to kind, ref and version of the i-th item
	ord := ts
	if which == 5 {
		ord = nil
		for k := 1; k <= 3; k++ {
			for _, t := range ts {
				if t.k == k {
					ord = append(ord, t)
				}
			}
		}
	}
	if len(eo) != len(ord) || len(fo) != len(ord) {
		c.OracleFail = "an id list has another length than the collection"
	} else {
		for i, t := range ord {
			if eo[i] != specPack(t.k, t.r, t.v) {
				c.OracleFail = fmt.Sprintf("ElementIDs()[%d] decodes to %s, the item is %s/%d:%d", i, osm.ElementID(eo[i]).String(), kinds[t.k], t.r, t.v)
				break
			}
			if fo[i] != specPack(t.k, t.r, 0) {
				c.OracleFail = fmt.Sprintf("FeatureIDs()[%d] is not the feature id of item %d", i, i)
				break
			}
		}
	}
	c.Desc = map[string]interface{}{"collection": []string{"WayNodes", "Members", "Nodes", "Ways", "Relations", "OSM"}[which], "items": showTriples(ts),
		"ElementIDs": eo, "FeatureIDs": fo, "plain_ids": plain}
	return c
}

type triple struct {
	k int
	r int64
	v int
}

type elem struct{ id osm.ElementID }

func (e elem) ObjectID() osm.ObjectID    { return e.id.ObjectID() }
func (e elem) ElementID() osm.ElementID  { return e.id }
func (e elem) FeatureID() osm.FeatureID  { return e.id.FeatureID() }
func (e elem) TagMap() map[string]string { return nil }

func sortCase(which int, ts []triple) *wire.Case {
	c := &wire.Case{Class: fmt.Sprintf("sort%d", which)}
	c.Int(2).Int(int64(which)).Len(len(ts))
	var in []interface{}
	for _, t := range ts {
		c.Int(int64(t.k)).Int(t.r).Int(int64(t.v))
		in = append(in, []interface{}{string(kinds[t.k]), t.r, t.v})
	}
	var out []int64
	switch which {
	case 0:
		ids := make(osm.ElementIDs, len(ts))
		for i, t := range ts {
			ids[i] = elementID(t.k, t.r, t.v)
		}
		ids.Sort()
		for _, id := range ids {
			out = append(out, int64(id))
		}
	case 1:
		ids := make(osm.FeatureIDs, len(ts))
		for i, t := range ts {
			ids[i] = featureID(t.k, t.r)
		}
		ids.Sort()
		for _, id := range ids {
			out = append(out, int64(id))
		}
	case 2:
		es := make(osm.Elements, len(ts))
		for i, t := range ts {
			switch t.k {
			case 1:
				es[i] = &osm.Node{ID: osm.NodeID(t.r), Version: t.v}
			case 2:
				es[i] = &osm.Way{ID: osm.WayID(t.r), Version: t.v}
			default:
				es[i] = &osm.Relation{ID: osm.RelationID(t.r), Version: t.v}
			}
		}
		es.Sort()
		for _, e := range es {
			out = append(out, int64(e.ElementID()))
		}
	}
	c.Ints(out)
	for i := 1; i < len(out); i++ {
		if out[i-1] > out[i] { // spec order on in-range ids = integer order of kind*2^56+ref*2^16+version
			c.OracleFail = fmt.Sprintf("output not ordered by (type, id, version) at position %d", i)
		}
	}
	{
		want := make([]int64, len(ts))
		for i, t := range ts {
			v := int64(t.v)
			if which == 1 {
				v = 0
			}
			want[i] = kcode[t.k]<<56 + t.r<<16 + v
		}
		sort.Slice(want, func(i, j int) bool { return want[i] < want[j] })
		for i := range want {
			if i >= len(out) || want[i] != out[i] {
				c.OracleFail = "sorted output is not the sorted permutation of the input ids"
				break
			}
		}
	}
	c.Desc = map[string]interface{}{"sort": []string{"ElementIDs", "FeatureIDs", "Elements"}[which], "input": in, "observed": out}
	return c
}

func parseCase(which int, s string) *wire.Case {
	c := &wire.Case{Class: fmt.Sprintf("parse%d", which)}
	c.Int(3).Int(int64(which)).Str(s)
	var id int64
	var err error
	switch which {
	case 0:
		var x osm.ObjectID
		x, err = osm.ParseObjectID(s)
		id = int64(x)
	case 1:
		var x osm.ElementID
		x, err = osm.ParseElementID(s)
		id = int64(x)
	default:
		var x osm.FeatureID
		x, err = osm.ParseFeatureID(s)
		id = int64(x)
	}
	c.Bool(err == nil).Int(id)
	es := ""
	if err != nil {
		es = err.Error()
	}
	c.Desc = map[string]interface{}{"parser": []string{"ParseObjectID", "ParseElementID", "ParseFeatureID"}[which], "text": s, "ok": err == nil, "id": id, "err": es}
	return c
}

func boundaryRefs() []int64 {
	m := map[int64]bool{0: true, 1: true, 2: true}
	for k := uint(1); k <= 40; k++ {
		for _, d := range []int64{-1, 0, 1} {
			x := int64(1)<<k + d
			if x >= 0 && x < 1<<40 {
				m[x] = true
			}
		}
	}
	var l []int64
	for x := range m {
		l = append(l, x)
	}
	sort.Slice(l, func(i, j int) bool { return l[i] < l[j] })
	return l
}

var bversions = []int{0, 1, 2, 255, 256, 32767, 32768, 65534, 65535}

func mutate(rng *rand.Rand, s string) string {
	b := []byte(s)
	alphabet := []byte("/:-+ 0123456789nodewayrltichgsubx_.")
	switch rng.Intn(7) {
	case 0: // insert
		i := rng.Intn(len(b) + 1)
		b = append(b[:i], append([]byte{alphabet[rng.Intn(len(alphabet))]}, b[i:]...)...)
	case 1: // delete
		if len(b) > 0 {
			i := rng.Intn(len(b))
			b = append(b[:i], b[i+1:]...)
		}
	case 2: // replace
		if len(b) > 0 {
			b[rng.Intn(len(b))] = alphabet[rng.Intn(len(alphabet))]
		}
	case 3: // duplicate a separator
		for i, ch := range b {
			if (ch == '/' || ch == ':') && rng.Intn(2) == 0 {
				b = append(b[:i], append([]byte{ch}, b[i:]...)...)
				break
			}
		}
	case 4: // huge number
		return s + "99999999999999999999"
	case 5: // unknown kind
		return "x" + s
	case 6: // swap two chars
		if len(b) > 1 {
			i, j := rng.Intn(len(b)), rng.Intn(len(b))
			b[i], b[j] = b[j], b[i]
		}
	}
	return string(b)
}

func main() {
	a := wire.ParseArgs()
	rng := wire.Rng(a.Seed)
	w := wire.NewWriter("C10", a.Seed, a.Tier)
	w.Rule = "ids: every kind x boundary refs (2^k-1,2^k,2^k+1, k<=40) x boundary versions plus random in-range; sorts: random lists over a boundary subset (all pairs occur); parse: String() of ids, grammar mutations and fixed malformed strings (oracle from the text alone: shape + denoted value); conversions NodeID/WayID/RelationID of feature and element ids of every element kind x boundary refs; WayNode / Member ids, Type.FeatureID on element, non-element and near-miss type strings; Counts and Elements/Objects id lists on random lists over boundary refs; out-of-range refs/versions (any int64) against the closed formulas; sorts of 4096..5002 (thorough ..20001) ids described by generator parameters and expanded on both sides (output compared through order/multiset/rolling hashes); String() on several ids in a row with the results kept and only then compared and parsed; the collection-level id functions (WayNodes, Members, Nodes, Ways, Relations, OSM) with version 0 at the first / a middle / the last position, everywhere and nowhere. distinct = distinct token streams; all cases non-trivial except the empty sort."
	refs := boundaryRefs()
	nrand, nsort, nparse := 300, 150, 1500
	if a.Tier == "thorough" {
		nrand, nsort, nparse = 20000, 4000, 40000
	}
	nrand = int(float64(nrand) * a.Scale)
	nsort = int(float64(nsort) * a.Scale)
	nparse = int(float64(nparse) * a.Scale)
	// 1. ids
	var texts []string
	for k := range kinds {
		for _, r := range refs {
			vs := bversions
			if a.Tier != "thorough" {
				vs = []int{0, 1, 256, 65535}
			}
			if !isElem(k) {
				vs = []int{0}
			}
			for _, v := range vs {
				c := idCase(k, r, v)
				w.Add(c)
				texts = append(texts, c.Desc.(map[string]interface{})["string"].(string))
			}
		}
	}
	for i := 0; i < nrand; i++ {
		k := rng.Intn(7)
		r := rng.Int63n(1 << 40)
		if rng.Intn(4) == 0 {
			r = rng.Int63n(1 << uint(1+rng.Intn(40)))
		}
		v := rng.Intn(1 << 16)
		if !isElem(k) {
			v = 0
		}
		c := idCase(k, r, v)
		w.Add(c)
		if i%4 == 0 {
			texts = append(texts, c.Desc.(map[string]interface{})["string"].(string))
		}
	}
	// 1b. panicking conversions: every element kind x boundary refs
	for k := 1; k <= 3; k++ {
		for i, r := range refs {
			if a.Tier != "thorough" && i%4 != 0 && r != 1<<40-1 {
				continue
			}
			w.Add(convCase(k, r, bversions[i%len(bversions)]))
		}
	}
	// 1c. way nodes, members, Type.FeatureID
	for i, r := range refs {
		if a.Tier != "thorough" && i%3 != 0 && r != 1<<40-1 {
			continue
		}
		v := bversions[i%len(bversions)]
		w.Add(wayNodeCase(r, v))
		for _, typ := range []string{"node", "way", "relation"} {
			w.Add(memberCase(typ, r, v))
		}
		w.Add(typeFeatureCase([]string{"node", "way", "relation"}[i%3], r))
	}
	for _, typ := range []string{"", "changeset", "note", "user", "bounds", "Node", "NODE", "node ", "nodes", "nod", "way/", "relation:", "unknown"} {
		w.Add(memberCase(typ, 7, 2))
		w.Add(typeFeatureCase(typ, 7))
	}
	// 1d. Counts and id lists
	nlists := int(40 * a.Scale)
	if a.Tier == "thorough" {
		nlists = int(800 * a.Scale)
	}
	w.Add(countsCase(0, nil))
	w.Add(countsCase(1, nil))
	for which := 0; which < 3; which++ {
		w.Add(listCase(which, nil))
	}
	for i := 0; i < nlists; i++ {
		n := 1 + rng.Intn(12)
		ts := make([]triple, n)
		es := make([]triple, n)
		for j := range ts {
			r := refs[rng.Intn(len(refs))]
			v := bversions[rng.Intn(len(bversions))]
			ts[j] = triple{rng.Intn(7), r, v}
			es[j] = triple{1 + rng.Intn(3), r, v}
		}
		w.Add(countsCase(i%2, ts))
		w.Add(countsCase((i+1)%2, es))
		w.Add(listCase(i%2, es))
		w.Add(listCase(2, ts))
	}
	// 1f. long sorts (beyond any chunking threshold; lengths not divisible by 2, 4, 8)
	bigN := []int{4096, 4097, 4099, 5002}
	if a.Tier == "thorough" {
		bigN = []int{2049, 4095, 4096, 4097, 4098, 4099, 5002, 8191, 8193, 12347, 16385, 20001}
	}
	for i, n := range bigN {
		for which := 0; which < 3; which++ {
			w.Add(bigSortCase(which, 0, n, a.Seed*1000+int64(i)))
			if a.Tier == "thorough" || which == i%3 {
				w.Add(bigSortCase(which, 1, n, 0))
				w.Add(bigSortCase(which, 2, n, 0))
			}
		}
	}
	// 1g. strings kept across later String() calls
	nseq := int(30 * a.Scale)
	if a.Tier == "thorough" {
		nseq = int(600 * a.Scale)
	}
	w.Add(strSeqCase(1, []triple{{1, 1, 1}, {2, 22, 3}}))
	w.Add(strSeqCase(0, []triple{{1, 1, 1}, {4, 22, 0}, {0, 0, 0}, {3, 1<<40 - 1, 65535}}))
	for i := 0; i < nseq; i++ {
		n := 2 + rng.Intn(10)
		ts := make([]triple, n)
		which := i % 3
		for j := range ts {
			k := 1 + rng.Intn(3)
			if which == 0 {
				k = rng.Intn(7)
			}
			ts[j] = triple{k, refs[rng.Intn(len(refs))], bversions[rng.Intn(len(bversions))]}
			if !isElem(k) {
				ts[j].v = 0
			}
			if k == 0 {
				ts[j].r = 0
			}
		}
		w.Add(strSeqCase(which, ts))
	}
	// 1h. collection-level id functions; version 0 at the first / a middle / the last position,
	// everywhere, nowhere; repeated refs with versions 0,1,2
	collKind := func(which, j int) int {
		switch which {
		case 0, 2:
			return 1
		case 3:
			return 2
		case 4:
			return 3
		}
		return 1 + j%3
	}
	for which := 0; which <= 5; which++ {
		patterns := [][]int{{}, {0}, {5}, {0, 1, 2}, {0, 3, 4}, {3, 0, 4}, {3, 4, 0}, {0, 0, 0}, {3, 4, 5}, {0, 65535, 1, 0, 32768}, {1, 0, 0, 0, 0, 0, 0, 0, 0, 0, 0, 0, 7}}
		for pi, vs := range patterns {
			ts := make([]triple, len(vs))
			for j, v := range vs {
				r := int64(9)
				if pi%2 == 1 {
					r = refs[(pi*7+j*3)%len(refs)]
				}
				ts[j] = triple{collKind(which, j), r, v}
			}
			w.Add(collCase(which, ts))
		}
	}
	ncoll := int(30 * a.Scale)
	if a.Tier == "thorough" {
		ncoll = int(600 * a.Scale)
	}
	for i := 0; i < ncoll; i++ {
		which := i % 6
		n := 1 + rng.Intn(9)
		ts := make([]triple, n)
		for j := range ts {
			v := bversions[rng.Intn(len(bversions))]
			if rng.Intn(3) == 0 {
				v = 0
			}
			ts[j] = triple{collKind(which, rng.Intn(3)), refs[rng.Intn(len(refs))], v}
		}
		w.Add(collCase(which, ts))
	}
	// 1e. outside the domain: negative refs, refs >= 2^40, versions outside [0, 2^16)
	oorRefs := []int64{-1, -2, -1 << 39, -1 << 40, -1<<40 - 1, 1 << 40, 1<<40 + 7, 1 << 41, 1 << 44, 1<<44 + 7, 1 << 45, 1 << 46, 1<<47 - 1, 1 << 47, 1 << 48, 1<<48 + 7,
		1<<62 + 5, math.MaxInt64, math.MinInt64, math.MinInt64 + 1, -1 << 47, -1<<47 - 1, 3<<40 + 9, 0x7f << 40, 0x20<<40 + 1}
	oorVers := []int64{-1, -65536, 65536, 65537, 1 << 20, 1<<31 - 1, -1 << 31, 1 << 40, math.MaxInt64, math.MinInt64, 0, 65535}
	for k := 1; k <= 3; k++ {
		for i, r := range oorRefs {
			w.Add(oorCase(k, r, oorVers[i%len(oorVers)]))
		}
		for i, v := range oorVers {
			w.Add(oorCase(k, refs[(i*7)%len(refs)], v))
		}
	}
	noor := int(60 * a.Scale)
	if a.Tier == "thorough" {
		noor = int(3000 * a.Scale)
	}
	for i := 0; i < noor; i++ {
		w.Add(oorCase(1+rng.Intn(3), int64(rng.Uint64()), int64(rng.Uint64())>>uint(rng.Intn(48))))
	}
	// 2. sorts
	pool := []int64{0, 1, 2, 65535, 65536, 1<<24 - 1, 1 << 24, 1<<39 - 1, 1 << 39, 1<<40 - 1}
	for i := 0; i < nsort; i++ {
		n := rng.Intn(20)
		if i%10 == 0 {
			n = 13 + rng.Intn(30) // beyond insertion-sort threshold
		}
		ts := make([]triple, n)
		for j := range ts {
			ts[j] = triple{1 + rng.Intn(3), pool[rng.Intn(len(pool))], bversions[rng.Intn(len(bversions))]}
			if rng.Intn(3) == 0 {
				ts[j].r = rng.Int63n(1 << 40)
				ts[j].v = rng.Intn(1 << 16)
			}
		}
		c := sortCase(i%3, ts)
		c.Trivial = n == 0
		w.Add(c)
	}
	// 2b. DIRECTED sorts (independent of the seed): ascending lists with exactly one adjacent pair
	// swapped at the first, a middle and the last position, already sorted, reversed, and "last id
	// smallest", for sizes 2..16 (12/13 = the insertion-sort threshold of sort.Sort), every sort
	for which := 0; which < 3; which++ {
		for _, n := range []int{2, 3, 4, 5, 7, 8, 11, 12, 13, 14, 15, 16} {
			asc := make([]triple, n)
			for j := range asc {
				asc[j] = triple{1 + (3*j)/n, int64(10 + j), 1}
			}
			variants := [][]triple{append([]triple(nil), asc...)}
			for _, p := range []int{0, (n - 2) / 2, n - 2} {
				v := append([]triple(nil), asc...)
				v[p], v[p+1] = v[p+1], v[p]
				variants = append(variants, v)
			}
			rev := make([]triple, n)
			for j := range asc {
				rev[j] = asc[n-1-j]
			}
			lastSmall := append([]triple(nil), asc...)
			lastSmall[n-1] = triple{1, 1, 0}
			variants = append(variants, rev, lastSmall)
			for _, v := range variants {
				w.Add(sortCase(which, v))
			}
		}
	}
	// 3. parse
	fixed := []string{"", "/", ":", "node", "node/", "/1", "node/1/2", "node/1:2:3", "node/:1", "node/1:", "node/a", "node/1:b",
		"Node/1", "node /1", " node/1", "node/1 ", "node/+1", "node/-1", "node/1:-", "node/1:+2", "node/01:002", "nodes/1", "bounds/0", "bounds/5:7",
		"changeset/5:3", "user/1:1", "note/12", "way/9223372036854775807", "way/9223372036854775808", "relation/1_000", "node/0x10", "node/1e3",
		"node//1", "node/1::2", "way/١", "node/1:-:", "unknown/1", "node/--1", "node/1:--"}
	// DIRECTED compositions (independent of the seed): valid id text of every kind with every
	// fragment inserted at every structural position (start, after the kind, after '/', after the
	// ref, after ':', end), for all three parsers
	{
		seen := map[string]bool{}
		for _, f := range fixed {
			seen[f] = true
		}
		frags := []string{":-", ":", "/", "-", ":0", ":-:-", " ", "+"}
		for _, k := range kinds {
			name := string(k)
			for _, tail := range []string{"", ":3", ":-"} {
				parts := []string{name, "/", "5"}
				if tail != "" {
					parts = append(parts, ":", tail[1:])
				}
				for pos := 0; pos <= len(parts); pos++ {
					for _, fr := range frags {
						txt := strings.Join(parts[:pos], "") + fr + strings.Join(parts[pos:], "")
						if !seen[txt] {
							seen[txt] = true
							fixed = append(fixed, txt)
						}
					}
				}
			}
		}
	}
	for which := 0; which < 3; which++ {
		for _, s := range fixed {
			w.Add(parseCase(which, s))
		}
	}
	for i := 0; i < nparse; i++ {
		s := texts[rng.Intn(len(texts))]
		for m := rng.Intn(3); m > 0; m-- {
			s = mutate(rng, s)
		}
		w.Add(parseCase(rng.Intn(3), s))
	}
	// canaries: corrupt one observation of each class (a wrong id, a swapped sort, a flipped parse verdict)
	{
		c := idCase(1, 12345, 7)
		c.Toks[4] ^= 2 // observed object id (zigzag) off by one
		c.Canary = 1
		c.Class = ""
		w.Add(c)
		c2 := sortCase(0, []triple{{1, 5, 1}, {2, 4, 1}, {1, 5, 0}})
		n := len(c2.Toks)
		c2.Toks[n-1], c2.Toks[n-2] = c2.Toks[n-2], c2.Toks[n-1]
		c2.Canary = 1
		c2.Class = ""
		w.Add(c2)
		c3 := parseCase(0, "node/1:2")
		n = len(c3.Toks)
		c3.Toks[n-2] = 0 // ok -> error
		c3.Canary = 1
		c3.Class = ""
		w.Add(c3)
	}
	{
		canary := func(c *wire.Case, corrupt func(t []uint64)) {
			corrupt(c.Toks)
			c.Canary, c.Class, c.OracleFail = 1, "", ""
			w.Add(c)
		}
		last := func(t []uint64) { t[len(t)-1] ^= 2 }
		// a relation id that "converts" to a node (what the code did before fix 8024a58)
		canary(convCase(3, 5, 1), func(t []uint64) { t[4], t[5] = 2, 10 }) // FeatureID.NodeID: ok, 5
		canary(countsCase(1, []triple{{1, 1, 1}, {2, 1, 1}, {4, 1, 0}}), last)
		canary(listCase(0, []triple{{1, 1, 1}, {3, 9, 2}}), func(t []uint64) { t[len(t)-2] ^= 2 })
		canary(wayNodeCase(77, 3), last)
		canary(memberCase("way", 77, 3), last)
		canary(typeFeatureCase("changeset", 5), func(t []uint64) { t[len(t)-2] = 2 }) // error -> ok
		canary(oorCase(1, -1, 70000), last)
		canary(collCase(0, []triple{{1, 9, 0}, {1, 9, 1}, {1, 9, 2}}), func(t []uint64) { t[14], t[15] = t[13], t[13] }) // versions of later way nodes dropped
		canary(bigSortCase(0, 1, 4097, 0), func(t []uint64) { t[6] = 2 * 4096 })                                         // "out of order at index 4096"
		canary(strSeqCase(1, []triple{{1, 1, 1}, {2, 22, 3}}), func(t []uint64) { t[9+9] = 0 })                          // first kept string "changed"
	}
	if err := w.Flush(a.Out, "Verif.C10.Check", 1200); err != nil {
		fmt.Fprintln(os.Stderr, err)
		os.Exit(1)
	}
}
