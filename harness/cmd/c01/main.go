// c01: correspondence harness for "PBF scan yields exactly the encoded header and
// elements, field for field" (property C01).
//
// Every case is one generated .osm.pbf file: description (pbfgen.FileDesc), the message
// trees obtained by an independent protowire walk over the very bytes fed to the decoder,
// Header() and the object sequence returned by osmpbf.Scanner for several decoder counts.
//
// Round 3 additions.  Judged in Coq like every other observation: scans whose consumer writes
// into and appends to every object it is handed (activeConsumer).  Judged on the Go side
// (wire.Case.OracleFail; Go slices/aliasing and the decoder's reuse-on-reject paths have no Coq
// model here): every returned object still equals, at end of scan, the state its consumer left it
// in; filtered scans return exactly the kept elements of the description (filteredRuns, with a
// self-test that a corrupted observation is reported); padded blocks at size thresholds (sizeCase).
package main

import (
	"bytes"
	"context"
	"fmt"
	"io"
	"math/rand"
	"os"
	"runtime"
	"time"

	"github.com/paulmach/osm"
	"github.com/paulmach/osm/osmpbf"
	"verif/harness/pbfgen"
	"verif/harness/pbfwire"
	"verif/harness/wire"
)

type observation struct {
	Procs   []int         `json:"procs"`
	Readers []string      `json:"readers,omitempty"` // how the input was delivered for the corresponding entry of procs ("" = bytes.Reader)
	Status  int           `json:"status"`            // 0: Err()==nil, 1: error
	Err     string        `json:"err,omitempty"`
	Objs    []pbfwire.Obs `json:"objects"`
}

// cutReader delivers data in pieces: a Read never crosses the next cut point and returns at most
// max bytes (0 = no limit).  eofWithData: the last piece is returned together with io.EOF
// (like iotest.DataErrReader) instead of (n, nil) followed by (0, io.EOF).
type cutReader struct {
	data        []byte
	pos         int
	cuts        map[int]bool
	max         int
	rng         *rand.Rand // random piece lengths 1..max
	eofWithData bool
}

func (r *cutReader) Read(p []byte) (int, error) {
	if r.pos >= len(r.data) {
		return 0, io.EOF
	}
	n := len(p)
	if r.max > 0 {
		m := r.max
		if r.rng != nil {
			m = 1 + r.rng.Intn(r.max)
		}
		if n > m {
			n = m
		}
	}
	if n > len(r.data)-r.pos {
		n = len(r.data) - r.pos
	}
	for k := 1; k < n; k++ {
		if r.cuts[r.pos+k] {
			n = k
			break
		}
	}
	copy(p, r.data[r.pos:r.pos+n])
	r.pos += n
	if r.eofWithData && r.pos == len(r.data) {
		return n, io.EOF
	}
	return n, nil
}

type readerSpec struct {
	name string
	mk   func(data []byte, frames []pbfgen.Frame) io.Reader
}

// cut points 1, 2 and 3 bytes into every size prefix and in the middle of every header and blob
func frameCuts(frames []pbfgen.Frame) map[int]bool {
	c := map[int]bool{}
	for _, f := range frames {
		if f.Kind == "size" {
			c[f.Off+1], c[f.Off+2], c[f.Off+3] = true, true, true
		} else if f.Len > 1 {
			c[f.Off+f.Len/2] = true
		}
		c[f.Off] = true
	}
	return c
}

func readerSpecs(seed int64) []readerSpec {
	chunk := func(k int, eof bool) readerSpec {
		n := fmt.Sprintf("chunks-of-%d", k)
		if eof {
			n += "+eof-with-data"
		}
		return readerSpec{n, func(d []byte, _ []pbfgen.Frame) io.Reader { return &cutReader{data: d, max: k, eofWithData: eof} }}
	}
	specs := []readerSpec{chunk(1, false), chunk(2, false), chunk(3, true), chunk(5, false), chunk(7, true),
		{"random-chunks", func(d []byte, _ []pbfgen.Frame) io.Reader {
			return &cutReader{data: d, max: 9, rng: rand.New(rand.NewSource(seed))}
		}},
		{"cuts-inside-every-size-prefix-header-blob", func(d []byte, fr []pbfgen.Frame) io.Reader {
			return &cutReader{data: d, cuts: frameCuts(fr)}
		}},
		{"cuts-inside-frames+eof-with-data", func(d []byte, fr []pbfgen.Frame) io.Reader {
			return &cutReader{data: d, cuts: frameCuts(fr), eofWithData: true}
		}},
		{"whole-input+eof-with-data", func(d []byte, _ []pbfgen.Frame) io.Reader { return &cutReader{data: d, eofWithData: true} }},
	}
	return specs
}

func scan(data []byte, procs int) (objs []pbfwire.Obs, status int, errs string) {
	return scanFrom(bytes.NewReader(data), procs)
}

func scanFrom(r io.Reader, procs int) (objs []pbfwire.Obs, status int, errs string) {
	sc := osmpbf.New(context.Background(), r, procs)
	defer sc.Close()
	for sc.Scan() {
		objs = append(objs, pbfwire.Snapshot(sc.Object()))
	}
	if err := sc.Err(); err != nil {
		return objs, 1, err.Error()
	}
	return objs, 0, ""
}

// consume: what a consumer that owns a returned object may do with it: overwrite entries of its
// slices in place and append to them (round 3: elements must not share backing arrays in a way
// that makes this visible in another element).
func consume(o osm.Object) {
	tag := osm.Tag{Key: "consumer", Value: "appended"}
	switch v := o.(type) {
	case *osm.Node:
		for i := range v.Tags {
			v.Tags[i].Value = "consumer-overwrote"
		}
		v.Tags = append(v.Tags, tag)
	case *osm.Way:
		for i := range v.Tags {
			v.Tags[i].Value = "consumer-overwrote"
		}
		v.Tags = append(v.Tags, tag)
		for i := range v.Nodes {
			v.Nodes[i].Lat, v.Nodes[i].Lon = 12.5, -12.5
		}
		v.Nodes = append(v.Nodes, osm.WayNode{ID: -12345, Lat: 1, Lon: 2})
	case *osm.Relation:
		for i := range v.Tags {
			v.Tags[i].Value = "consumer-overwrote"
		}
		v.Tags = append(v.Tags, tag)
		for i := range v.Members {
			v.Members[i].Role = "consumer-overwrote"
		}
		v.Members = append(v.Members, osm.Member{Type: osm.TypeNode, Ref: -12345, Role: "consumer"})
	}
}

const activeConsumer = "consumer-writes-into-and-appends-to-returned-objects"

// filterCfg is a scanner configuration for the Go-judged filtered runs (the Coq-judged version of
// filtering is C08; here the filters are the means to reach the decoder's memory-reuse paths:
// "no element inherits a value from an earlier element", also when the earlier one was rejected).
type filterCfg struct {
	SkipNodes, SkipWays, SkipRelations bool
	Node, Way, Relation                pbfwire.Pred
}

// scanWith scans with an optional configuration and an optional active consumer.  objs are the
// snapshots taken at return time; moved != "" when an object changed after it was returned
// (compared with the state the consumer left it in).
// lateConfig: the configuration of the next filtered scan is assigned this long after osmpbf.New returned
// (0 = at once); the fields can only be set after New, and must be honoured for every block however
// slow the caller is.
var lateConfig time.Duration

func scanWith(r io.Reader, procs int, cf *filterCfg, active bool) (objs []pbfwire.Obs, status int, errs string, moved string) {
	sc := osmpbf.New(context.Background(), r, procs)
	defer sc.Close()
	if cf != nil && lateConfig > 0 {
		runtime.Gosched()
		time.Sleep(lateConfig)
		runtime.Gosched()
	}
	if cf != nil {
		sc.SkipNodes, sc.SkipWays, sc.SkipRelations = cf.SkipNodes, cf.SkipWays, cf.SkipRelations
		if cf.Node.Code != 0 {
			sc.FilterNode = func(n *osm.Node) bool { return cf.Node.Eval(int64(n.ID), n.Version, len(n.Tags)) }
		}
		if cf.Way.Code != 0 {
			sc.FilterWay = func(w *osm.Way) bool { return cf.Way.Eval(int64(w.ID), w.Version, len(w.Tags)) }
		}
		if cf.Relation.Code != 0 {
			sc.FilterRelation = func(r *osm.Relation) bool { return cf.Relation.Eval(int64(r.ID), r.Version, len(r.Tags)) }
		}
	}
	var kept []osm.Object
	var left []pbfwire.Obs
	for sc.Scan() {
		o := sc.Object()
		objs = append(objs, pbfwire.Snapshot(o))
		if active {
			consume(o)
		}
		kept = append(kept, o)
		left = append(left, pbfwire.Snapshot(o))
	}
	for i, o := range kept {
		again := pbfwire.Snapshot(o)
		if !again.Equal(&left[i]) {
			moved = fmt.Sprintf("object %d (%v) changed after it was returned: %+v -> %+v", i, o.ObjectID(), left[i], again)
			break
		}
	}
	if err := sc.Err(); err != nil {
		return objs, 1, err.Error(), moved
	}
	return objs, 0, "", moved
}

// keep: the meaning of a configuration on the elements a file encodes
func (cf *filterCfg) keep(e *pbfgen.Element) bool {
	switch e.Kind {
	case "node":
		return !cf.SkipNodes && cf.Node.Eval(e.ID, int(e.Version), len(e.Tags))
	case "way":
		return !cf.SkipWays && cf.Way.Eval(e.ID, int(e.Version), len(e.Tags))
	}
	return !cf.SkipRelations && cf.Relation.Eval(e.ID, int(e.Version), len(e.Tags))
}

// filteredRuns scans data under every configuration and judges the result on the Go side:
// observed = the kept elements of pbfgen.Elements(d), field for field.  "" = all hold.
func filteredRuns(d *pbfgen.FileDesc, data []byte, cfgs []filterCfg, procs []int, corrupt bool) (string, []interface{}) {
	var log []interface{}
	all := pbfgen.Elements(d)
	for k := range cfgs {
		cf := &cfgs[k]
		var want []pbfgen.Element
		for i := range all {
			if cf.keep(&all[i]) {
				want = append(want, all[i])
			}
		}
		for pi, p := range procs {
			active := (pi+k)%2 == 1
			if k == 0 && pi == len(procs)-1 { // one late-configured run per file
				lateConfig = 5 * time.Millisecond
			}
			objs, st, es, moved := scanWith(bytes.NewReader(data), p, cf, active)
			lateConfig = 0
			if corrupt && len(objs) > 0 {
				objs[len(objs)-1].Version++
			}
			log = append(log, map[string]interface{}{"config": *cf, "procs": p, "active_consumer": active, "returned": len(objs), "kept_elements": len(want)})
			where := fmt.Sprintf("filtered run (Go-judged) config %+v procs=%d active-consumer=%v: ", *cf, p, active)
			if st != 0 {
				return where + "Err() = " + es, log
			}
			if moved != "" {
				return where + moved, log
			}
			if msg := goOracleWant(want, objs); msg != "" {
				return where + msg, log
			}
		}
	}
	return "", log
}

// filterCfgs are the configurations of the filtered runs of file i
func filterCfgs(i int) []filterCfg {
	h := pbfwire.Pred{Code: 5, A: int64(3 + i%6)}
	even := pbfwire.Pred{Code: 2, A: 2, B: int64(i % 2)}
	return []filterCfg{
		{Node: h, Way: h, Relation: h},
		{Node: pbfwire.Pred{Code: 3}, Way: even, Relation: even, SkipNodes: i%4 == 3},
	}
}

type fileCase struct {
	Desc     *pbfgen.FileDesc `json:"desc"`
	Header   interface{}      `json:"header_observed,omitempty"`
	HErr     string           `json:"header_err,omitempty"`
	Obs      []observation    `json:"observations"`
	Filtered []interface{}    `json:"filtered_runs_judged_in_go,omitempty"`
	Note     string           `json:"note,omitempty"`
}

// mutate, when non-nil, corrupts the observations (canaries).
// readers used for the next buildCase calls (nil = bytes.Reader only)
var extraReaders []readerSpec

// knownClass assigns the known-finding class of C01 from the description of the input alone:
// "plain-node-group": some PrimitiveGroup carries field 1 (plain, non-dense Node messages);
// "packed-column-split": the layout writes packed columns as two chunks and some packed column of
// the file has at least two entries (so that some column does occur more than once).
func knownClass(d *pbfgen.FileDesc) string {
	if pbfgen.HasPlainNodes(d) {
		return "plain-node-group"
	}
	for _, b := range d.Blocks {
		if b.Layout.SplitPacked && hasLongColumn(b) {
			return "packed-column-split"
		}
	}
	return ""
}

func hasLongColumn(b *pbfgen.Block) bool {
	for _, g := range b.Groups {
		for _, it := range g.Items {
			switch {
			case it.Dense != nil:
				if len(it.Dense.Nodes) >= 2 || (len(it.Dense.Nodes) == 1 && it.Dense.HasKeysVals) {
					return true
				}
			case it.Way != nil:
				if len(it.Way.Refs) >= 2 || len(it.Way.Tags) >= 2 {
					return true
				}
			case it.Relation != nil:
				if len(it.Relation.Members) >= 2 || len(it.Relation.Tags) >= 2 {
					return true
				}
			case it.Node != nil:
				if len(it.Node.Tags) >= 2 {
					return true
				}
			}
		}
	}
	return false
}

// knownCorpus: inputs of the two known-finding classes of C01 (valid OSM PBF that the decoder does
// not decode to its elements).  The cases go through the ordinary judgements; judgement 2 fails and
// the check prints KNOWN-FINDING for the class instead of VIOLATION.
func knownCorpus(rng *rand.Rand) []*pbfgen.FileDesc {
	var out []*pbfgen.FileDesc
	// plain nodes: the directed file (dense block, then a block with a plain-node group and a way),
	// a file with nothing but one plain node, and a random file with a plain node appended to its last group
	for _, dc := range pbfgen.DirectedCorpus() {
		if dc.Name == "plain-nodes" {
			out = append(out, dc.Desc)
		}
	}
	b := &pbfgen.Block{Strings: []string{""}}
	b.Groups = []*pbfgen.Group{{Items: []pbfgen.Item{{Node: &pbfgen.PlainNode{ID: 1, Lat: 5, Lon: -5, Info: pbfgen.Info{Visible: true}}}}}}
	out = append(out, &pbfgen.FileDesc{Header: &pbfgen.Header{}, Blocks: []*pbfgen.Block{b}})
	r := pbfgen.RandomFile(rng, pbfgen.Opts{MinBlocks: 2, MaxBlocks: 3, MinElements: 1})
	lb := r.Blocks[len(r.Blocks)-1]
	lg := lb.Groups[len(lb.Groups)-1]
	lg.Items = append(lg.Items, pbfgen.Item{Node: &pbfgen.PlainNode{ID: 77, Lat: 1, Lon: 2, HasInfo: true, Fields: pbfgen.AllInfo,
		Info: pbfgen.Info{Version: 1, Timestamp: 1, Changeset: 1, UID: 1, UserSid: 0, Visible: true}, Tags: []pbfgen.Tag{{K: 0, V: 0}}}})
	out = append(out, r)
	// split packed columns: the way/relation corpus file and random files, every packed column with
	// at least two entries written as two chunks
	split := func(d *pbfgen.FileDesc) *pbfgen.FileDesc {
		nd := *d
		nd.Blocks = nil
		for _, b := range d.Blocks {
			nb := *b
			nb.Layout.SplitPacked = true
			nd.Blocks = append(nd.Blocks, &nb)
		}
		return &nd
	}
	wb := &pbfgen.Block{Strings: []string{""}} // the witness of C01_split_packed_refuted: way 7, refs [1, 2] as chunks [2], [2]
	wb.Groups = []*pbfgen.Group{{Items: []pbfgen.Item{{Way: &pbfgen.Way{ID: 7, Refs: []int64{1, 2}, Info: pbfgen.Info{Visible: true}}}}}}
	out = append(out, split(&pbfgen.FileDesc{Header: &pbfgen.Header{}, Blocks: []*pbfgen.Block{wb}}))
	out = append(out, split(corpus()[2]), split(corpus()[0]))
	for i := 0; i < 4; i++ {
		out = append(out, split(pbfgen.RandomFile(rng, pbfgen.Opts{MinBlocks: 1, MaxBlocks: 3, MinElements: 2, MaxRefs: 6})))
	}
	return out
}

// configurations of the Go-judged filtered runs of the next buildCase calls (nil = none)
var filterFor []filterCfg

func buildCase(d *pbfgen.FileDesc, procsList []int, class string, mutate func(fc *fileCase, hdr **osmpbf.Header)) (*wire.Case, error) {
	data, frames := pbfgen.Encode(d)
	payloads, err := pbfwire.Payloads(data, frames)
	if err != nil {
		return nil, err
	}
	fc := &fileCase{Desc: d}
	// Header()
	var hdr *osmpbf.Header
	var herr error
	{
		sc := osmpbf.New(context.Background(), bytes.NewReader(data), 1)
		hdr, herr = sc.Header()
		sc.Close()
	}
	// scans: the whole input from a bytes.Reader for every decoder count, then the same bytes through
	// readers that deliver them in pieces (the result must not depend on how the reader delivers them)
	record := func(p int, reader string, objs []pbfwire.Obs, st int, es string) {
		for i := range fc.Obs {
			o := &fc.Obs[i]
			if o.Status == st && pbfwire.EqualObs(o.Objs, objs) {
				o.Procs = append(o.Procs, p)
				o.Readers = append(o.Readers, reader)
				return
			}
		}
		fc.Obs = append(fc.Obs, observation{Procs: []int{p}, Readers: []string{reader}, Status: st, Err: es, Objs: objs})
	}
	for _, p := range procsList {
		objs, st, es := scan(data, p)
		record(p, "", objs, st, es)
	}
	for k, rs := range extraReaders {
		p := procsList[k%len(procsList)]
		objs, st, es := scanFrom(rs.mk(data, frames), p)
		record(p, rs.name, objs, st, es)
	}
	oracleFail := ""
	{ // the consumer that writes into what it was given: same objects at return time, none changed later
		p := procsList[len(procsList)-1]
		objs, st, es, moved := scanWith(bytes.NewReader(data), p, nil, true)
		record(p, activeConsumer, objs, st, es)
		if moved != "" {
			oracleFail = "active consumer, procs=" + fmt.Sprint(p) + ": " + moved
		}
		objs, st, es, moved = scanWith(bytes.NewReader(data), 1, nil, true)
		record(1, activeConsumer, objs, st, es)
		if moved != "" && oracleFail == "" {
			oracleFail = "active consumer, procs=1: " + moved
		}
	}
	// known-finding classes, assigned from the INPUT alone (known_findings.d/C01.json)
	known := knownClass(d)
	if filterFor != nil && mutate == nil && known == "" {
		msg, log := filteredRuns(d, data, filterFor, []int{1, procsList[len(procsList)-1]}, false)
		fc.Filtered = log
		if oracleFail == "" {
			oracleFail = msg
		}
	}
	if mutate != nil {
		mutate(fc, &hdr)
	}
	if hdr != nil {
		fc.Header = hdr
	}
	if herr != nil {
		fc.HErr = herr.Error()
	}

	c := &wire.Case{Class: class, Desc: fc, OracleFail: oracleFail, Known: known}
	pool := pbfwire.NewPool()
	for i := range fc.Obs {
		for j := range fc.Obs[i].Objs {
			fc.Obs[i].Objs[j].Intern(pool)
		}
	}
	pool.Put(c)
	pi := 0
	c.Bool(d.Header != nil)
	if d.Header != nil {
		pbfwire.PutHeaderDesc(c, d.Header)
		tr, err := pbfgen.Parse(payloads[0], pbfgen.HeaderSchema)
		if err != nil {
			return nil, err
		}
		if err := pbfwire.PutTree(c, tr); err != nil {
			return nil, err
		}
		if herr != nil {
			c.Int(1).Bool(false)
		} else {
			c.Int(0).Bool(hdr != nil)
			if hdr != nil {
				pbfwire.PutHeaderObs(c, hdr)
			}
		}
		pi = 1
	}
	c.Len(len(d.Blocks))
	for i, b := range d.Blocks {
		if err := pbfwire.PutBlockDesc(c, b); err != nil {
			return nil, err
		}
		tr, err := pbfgen.Parse(payloads[pi+i], pbfgen.BlockSchema)
		if err != nil {
			return nil, err
		}
		if err := pbfwire.PutTree(c, tr); err != nil {
			return nil, err
		}
	}
	c.Len(len(fc.Obs))
	for i := range fc.Obs {
		o := &fc.Obs[i]
		c.Len(len(o.Procs))
		for _, p := range o.Procs {
			c.Int(int64(p))
		}
		c.Int(int64(o.Status)).Len(len(o.Objs))
		for j := range o.Objs {
			o.Objs[j].Put(c, pool)
		}
	}
	if len(pbfgen.Elements(d)) == 0 {
		c.Trivial = true
	}
	return c, nil
}

// ---------- fixed corpus: the stale-state shapes the property text names ----------

func allCols(b *pbfgen.Block, ids ...int64) *pbfgen.Dense {
	d := &pbfgen.Dense{HasInfo: true, Cols: pbfgen.AllInfo, HasKeysVals: true}
	for i, id := range ids {
		d.Nodes = append(d.Nodes, pbfgen.DenseNode{ID: id, Lat: 100 + int64(i), Lon: -200 - int64(i),
			Info: pbfgen.Info{Version: 3, Timestamp: 1400000000 + int64(i), Changeset: 77, UID: 5, UserSid: b.Sid("alice"), Visible: i%2 == 0},
			Tags: []pbfgen.Tag{b.Tag("k", "v"), b.Tag("", "empty key")}})
	}
	return d
}

func bare(ids ...int64) *pbfgen.Dense {
	d := &pbfgen.Dense{}
	for i, id := range ids {
		d.Nodes = append(d.Nodes, pbfgen.DenseNode{ID: id, Lat: int64(i), Lon: int64(i), Info: pbfgen.Info{Visible: true}})
	}
	return d
}

func corpus() []*pbfgen.FileDesc {
	var out []*pbfgen.FileDesc
	mk := func(f func(i int, b *pbfgen.Block) []pbfgen.Item, n int) *pbfgen.FileDesc {
		d := &pbfgen.FileDesc{Header: &pbfgen.Header{Required: []string{"OsmSchema-V0.6", "DenseNodes"}}}
		for i := 0; i < n; i++ {
			b := &pbfgen.Block{Strings: []string{""}}
			b.Zlib = i%2 == 1
			items := f(i, b)
			b.Groups = []*pbfgen.Group{{Items: items}}
			d.Blocks = append(d.Blocks, b)
		}
		return d
	}
	// 1. every dense column, then none of them (same decoder with procs=1), then again, with parameters changing
	out = append(out, mk(func(i int, b *pbfgen.Block) []pbfgen.Item {
		if i%2 == 0 {
			b.Granularity, b.LatOffset, b.LonOffset, b.DateGranularity = pbfgen.I32(1000), pbfgen.I64(5), pbfgen.I64(-7), pbfgen.I32(1)
			return []pbfgen.Item{{Dense: allCols(b, 10, 11, 12)}}
		}
		return []pbfgen.Item{{Dense: bare(20, 21, 22, 23)}}
	}, 4))
	// 2. each single info column alone, one block after the other
	out = append(out, mk(func(i int, b *pbfgen.Block) []pbfgen.Item {
		d := allCols(b, int64(100+i), int64(200+i))
		d.HasKeysVals = i%2 == 0
		if !d.HasKeysVals {
			for k := range d.Nodes {
				d.Nodes[k].Tags = nil
			}
		}
		d.Cols = pbfgen.InfoFields{Version: i == 0, Timestamp: i == 1, Changeset: i == 2, UID: i == 3, UserSid: i == 4, Visible: i == 5}
		return []pbfgen.Item{{Dense: d}}
	}, 7))
	// 3. ways and relations: full Info, then no Info, then partial, with and without tags/refs/members/locations
	out = append(out, mk(func(i int, b *pbfgen.Block) []pbfgen.Item {
		full := pbfgen.Info{Version: 9, Timestamp: 1500000000, Changeset: 123456, UID: 42, UserSid: b.Sid("bob"), Visible: false}
		w1 := &pbfgen.Way{ID: 1, HasInfo: true, Fields: pbfgen.AllInfo, Info: full, Tags: []pbfgen.Tag{b.Tag("highway", "x")},
			Refs: []int64{5, 3, 9}, HasLocs: true, Lats: []int64{1, 2, 3}, Lons: []int64{-1, -2, -3}}
		w2 := &pbfgen.Way{ID: 2, Info: pbfgen.Info{Visible: true}}
		w3 := &pbfgen.Way{ID: 3, HasInfo: true, Fields: pbfgen.InfoFields{Changeset: true}, Info: full, Refs: []int64{7}}
		r1 := &pbfgen.Relation{ID: 1, HasInfo: true, Fields: pbfgen.AllInfo, Info: full, Tags: []pbfgen.Tag{b.Tag("type", "route")},
			Members: []pbfgen.Member{{Type: 1, Ref: 5, RoleSid: int32(b.Sid("outer"))}, {Type: 0, Ref: -3, RoleSid: 0}, {Type: 2, Ref: 8, RoleSid: int32(b.Sid("inner"))}}}
		r2 := &pbfgen.Relation{ID: 2, Info: pbfgen.Info{Visible: true}}
		r3 := &pbfgen.Relation{ID: 3, HasInfo: true, Fields: pbfgen.InfoFields{Visible: true, UserSid: true}, Info: full, ForceMembers: true, ForceTags: true}
		if i%2 == 0 {
			return []pbfgen.Item{{Way: w1}, {Way: w2}, {Way: w3}, {Relation: r1}, {Relation: r2}, {Relation: r3}}
		}
		return []pbfgen.Item{{Relation: r2}, {Relation: r1}, {Way: w2}, {Way: w1}, {Dense: bare(1)}, {Way: w3}}
	}, 3))
	// 4. empty file, empty blocks, empty groups, empty dense
	e := &pbfgen.FileDesc{Header: &pbfgen.Header{}}
	e.Blocks = append(e.Blocks, &pbfgen.Block{OmitStringTable: true}, &pbfgen.Block{Strings: []string{""}, Groups: []*pbfgen.Group{{}, {Items: []pbfgen.Item{{Dense: &pbfgen.Dense{}}}}}})
	out = append(out, e, &pbfgen.FileDesc{Header: &pbfgen.Header{HasBBox: true, Left: -1, Right: 1, Top: 2, Bottom: -2}})
	// 6..: see fixedCorpus (raw trees with an unknown fixed32/fixed64 field ending a message)
	// 6. unknown fixed64/fixed32 fields ending every message of every block (canonical and permuted)
	for _, perm := range []bool{false, true} {
		fx := *out[2]
		fx.Blocks = nil
		for i, b := range out[2].Blocks {
			nb := *b
			nb.Layout = pbfgen.Layout{FixedLast: true, Permute: perm, Seed: int64(i)}
			fx.Blocks = append(fx.Blocks, &nb)
		}
		fd := *out[0]
		fd.Blocks = nil
		for i, b := range out[0].Blocks {
			nb := *b
			nb.Layout = pbfgen.Layout{FixedLast: true, Permute: perm, Seed: int64(i)}
			fd.Blocks = append(fd.Blocks, &nb)
		}
		out = append(out, &fx, &fd)
	}
	// 5. a file that starts directly with data (no header block), as after a resume
	nh := *out[0]
	nh.Header = nil
	out = append(out, &nh)
	return out
}

// ---------- canaries: one deliberately corrupted observation per observable class ----------

type canary struct {
	name string
	f    func(fc *fileCase, hdr **osmpbf.Header) bool // false = not applicable to this file
}

func firstObj(fc *fileCase, kind int) *pbfwire.Obs {
	for i := range fc.Obs {
		for j := range fc.Obs[i].Objs {
			if o := &fc.Obs[i].Objs[j]; kind < 0 || o.Kind == kind {
				return o
			}
		}
	}
	return nil
}

var canaries = []canary{
	{"id+1", func(fc *fileCase, _ **osmpbf.Header) bool {
		o := firstObj(fc, -1)
		if o == nil {
			return false
		}
		o.ID++
		return true
	}},
	{"lat+1nano", func(fc *fileCase, _ **osmpbf.Header) bool {
		o := firstObj(fc, 0)
		if o == nil {
			return false
		}
		o.Lat++
		return true
	}},
	{"tolerance", func(fc *fileCase, _ **osmpbf.Header) bool {
		o := firstObj(fc, 0)
		if o == nil {
			return false
		}
		o.Tol = false
		return true
	}},
	{"visible", func(fc *fileCase, _ **osmpbf.Header) bool {
		o := firstObj(fc, -1)
		if o == nil {
			return false
		}
		o.Visible = !o.Visible
		return true
	}},
	{"timestamp", func(fc *fileCase, _ **osmpbf.Header) bool {
		o := firstObj(fc, -1)
		if o == nil {
			return false
		}
		if o.HasTS {
			o.TSNano += 1000000
		} else {
			o.HasTS = true
		}
		return true
	}},
	{"user", func(fc *fileCase, _ **osmpbf.Header) bool {
		o := firstObj(fc, -1)
		if o == nil {
			return false
		}
		o.User += "x"
		return true
	}},
	{"meta", func(fc *fileCase, _ **osmpbf.Header) bool {
		o := firstObj(fc, -1)
		if o == nil {
			return false
		}
		o.Version, o.CS, o.UID = o.Version+1, o.CS+1, o.UID+1
		return true
	}},
	{"tag-added", func(fc *fileCase, _ **osmpbf.Header) bool {
		o := firstObj(fc, -1)
		if o == nil {
			return false
		}
		o.Tags = append(o.Tags, [2]string{"stale", "tag"})
		return true
	}},
	{"waynode", func(fc *fileCase, _ **osmpbf.Header) bool {
		o := firstObj(fc, 1)
		if o == nil {
			return false
		}
		if len(o.Nodes) == 0 {
			o.Nodes = append(o.Nodes, [3]int64{1, 0, 0})
		} else {
			o.Nodes[len(o.Nodes)-1][2]++
		}
		return true
	}},
	{"member", func(fc *fileCase, _ **osmpbf.Header) bool {
		o := firstObj(fc, 2)
		if o == nil {
			return false
		}
		if len(o.Members) == 0 {
			o.Members = append(o.Members, pbfwire.ObsMember{Type: 0, Ref: 1})
		} else {
			o.Members[0].Type = (o.Members[0].Type + 1) % 3
		}
		return true
	}},
	{"dropped-object", func(fc *fileCase, _ **osmpbf.Header) bool {
		for i := range fc.Obs {
			if n := len(fc.Obs[i].Objs); n > 0 {
				fc.Obs[i].Objs = fc.Obs[i].Objs[:n-1]
				return true
			}
		}
		return false
	}},
	{"swapped-objects", func(fc *fileCase, _ **osmpbf.Header) bool {
		for i := range fc.Obs {
			o := fc.Obs[i].Objs
			for j := 0; j+1 < len(o); j++ {
				if !o[j].Equal(&o[j+1]) {
					o[j], o[j+1] = o[j+1], o[j]
					return true
				}
			}
		}
		return false
	}},
	{"error-status", func(fc *fileCase, _ **osmpbf.Header) bool {
		fc.Obs[0].Status = 1
		return true
	}},
	{"header-program", func(fc *fileCase, hdr **osmpbf.Header) bool {
		if *hdr == nil {
			return false
		}
		h := **hdr
		h.WritingProgram += "!"
		*hdr = &h
		return true
	}},
	{"header-bounds", func(fc *fileCase, hdr **osmpbf.Header) bool {
		if *hdr == nil || (*hdr).Bounds == nil {
			return false
		}
		h := **hdr
		b := *h.Bounds
		b.MaxLat += 1e-8
		h.Bounds = &b
		*hdr = &h
		return true
	}},
	{"header-seq", func(fc *fileCase, hdr **osmpbf.Header) bool {
		if *hdr == nil {
			return false
		}
		h := **hdr
		h.ReplicationSeqNum++
		*hdr = &h
		return true
	}},
}

var procsAll = []int{1, 2, 3, 7, 16}

func main() {
	a := wire.ParseArgs()
	w := wire.NewWriter("C01", a.Seed, a.Tier)
	w.Rule = "one case per generated PBF file (pbfgen.RandomFile: 1-5 blocks, 0-3 groups, dense/way/relation/mixed groups, every subset of optional columns and Info fields varying block to block, granularity/offsets/date granularity, raw+zlib, permuted layouts, unknown fields, header field subsets) scanned with 3-5 decoder counts from {1,2,3,7,16} from a bytes.Reader and again through readers that deliver the same bytes in pieces (chunks of 1/2/3/5/7/random bytes, cut points 1-3 bytes into every size prefix and inside every blob header and blob, EOF returned with or after the last data) and twice by a consumer that overwrites the slice entries of every object it is handed and appends to them; random files carry first-class zero values (raw timestamp 0 also leading a dense column, version/changeset/uid 0, raw coordinates 0), member types outside the enum 0..2, and every 9th is a headerless restart stream of 2-6 blocks; plus pbfgen.DirectedCorpus (fewer refs/members after a rejected way/relation, Sort.Type_then_ID header, headerless streams, zero values). Go-judged (OracleFail): objects unchanged at end of scan, filtered scans (2-3 configurations per file) = kept elements of the description, one padded block at a size threshold; non-trivial = the file encodes at least one element; distinct = distinct token streams"
	rng := wire.Rng(a.Seed)
	nfiles := int(90 * a.Scale)
	nprocs := 3
	if a.Tier == "thorough" {
		nfiles = int(1500 * a.Scale)
		nprocs = 5
	}
	fail := func(err error) {
		fmt.Fprintln(os.Stderr, "c01:", err)
		os.Exit(3)
	}
	pick := func(i int) []int {
		if nprocs >= len(procsAll) {
			return procsAll
		}
		out := []int{1}
		for k := 0; len(out) < nprocs; k++ {
			out = append(out, procsAll[1+(i+k)%(len(procsAll)-1)])
		}
		return out
	}
	// corpus first
	for i, d := range corpus() {
		if err := pbfgen.Validate(d); err != nil {
			fail(fmt.Errorf("corpus %d invalid: %v", i, err))
		}
		extraReaders = readerSpecs(a.Seed)
		filterFor = filterCfgs(i)
		c, err := buildCase(d, procsAll, "corpus", nil)
		extraReaders, filterFor = nil, nil
		if err != nil {
			fail(err)
		}
		w.Add(c)
	}
	// directed corpus (round 3): interactions of two features; the unfiltered scans are judged in Coq
	// like every other file, the file's own filter configuration on the Go side
	for i, dc := range pbfgen.DirectedCorpusTier(a.Tier == "thorough") {
		if pbfgen.Validate(dc.Desc) != nil {
			continue // plain nodes: outside the description language (C08 carries that file as a tree)
		}
		own := filterCfg{SkipNodes: dc.SkipNodes, SkipWays: dc.SkipWays, SkipRelations: dc.SkipRelations,
			Node:     pbfwire.Pred{Code: dc.Node[0], A: dc.Node[1], B: dc.Node[2]},
			Way:      pbfwire.Pred{Code: dc.Way[0], A: dc.Way[1], B: dc.Way[2]},
			Relation: pbfwire.Pred{Code: dc.Relation[0], A: dc.Relation[1], B: dc.Relation[2]}}
		all := readerSpecs(a.Seed + int64(i))
		extraReaders = []readerSpec{all[6], all[i%len(all)]}
		filterFor = append([]filterCfg{own}, filterCfgs(i)...)
		c, err := buildCase(dc.Desc, dc.Procs, "directed:"+dc.Name, nil)
		extraReaders, filterFor = nil, nil
		if err != nil {
			fail(err)
		}
		w.Add(c)
		w.Count("directed")
	}
	// inputs of the known-finding classes (valid with respect to the format; see knownClass)
	for i, d := range knownCorpus(rand.New(rand.NewSource(a.Seed + 3))) {
		if err := pbfgen.ValidateFormat(d); err != nil {
			fail(fmt.Errorf("known corpus %d invalid: %v", i, err))
		}
		c, err := buildCase(d, []int{1, 2}, "known-class-input", nil)
		if err != nil {
			fail(err)
		}
		if c.Known == "" {
			fail(fmt.Errorf("known corpus %d: no class assigned", i))
		}
		w.Add(c)
		w.Count("known:" + c.Known)
	}
	// vacuity guard of the Go-side oracle for filtered runs: a corrupted observation must be reported
	{
		dc := pbfgen.DirectedCorpus()[0]
		data, _ := pbfgen.Encode(dc.Desc)
		if msg, _ := filteredRuns(dc.Desc, data, filterCfgs(0), []int{1}, true); msg == "" {
			fail(fmt.Errorf("self-test: the Go-side oracle accepted a corrupted filtered observation"))
		}
	}
	// size thresholds of one block (Go-judged: the 16 MiB payloads are not shipped to Coq)
	sizes := []sizeSpec{{16<<20 + 1, true}, {4096, true}, {65536, false}, {65537, true}}
	if a.Tier == "thorough" {
		sizes = append(sizes, sizeSpec{16<<20 - 1, true}, sizeSpec{16 << 20, true}, sizeSpec{24 << 20, true}, sizeSpec{32<<20 - 1, true},
			sizeSpec{16<<20 + 1, false}, sizeSpec{31 << 20, false}, sizeSpec{8176, true}, sizeSpec{8177, true}, sizeSpec{32768, true}, sizeSpec{2048, false})
	}
	for _, sz := range sizes {
		w.Add(sizeCase(sz))
		w.Count("block-size-threshold")
	}
	// size classes of ELEMENT messages x all eight skip-flag combinations (Go-judged; the Coq-judged
	// version is in c08): a DenseNodes / Way / Relation message just below / above 128 and 16384 bytes
	// (thorough: 2 MiB too) among small elements of every kind
	targets := []int{128, 16384}
	if a.Tier == "thorough" {
		targets = append(targets, 2<<20)
	}
	for _, kind := range []byte{'d', 'w', 'r'} {
		for _, target := range targets {
			for _, above := range []bool{false, true} {
				d := pbfgen.SizedFile(kind, target, above)
				data, _ := pbfgen.Encode(d)
				var cfgs []filterCfg
				for m := 0; m < 8; m++ {
					cfgs = append(cfgs, filterCfg{SkipNodes: m&1 != 0, SkipWays: m&2 != 0, SkipRelations: m&4 != 0})
				}
				msg, _ := filteredRuns(d, data, cfgs, []int{1, 2}, false)
				c := &wire.Case{Class: fmt.Sprintf("message-size:%c:%d:above=%v", kind, target, above), OracleFail: msg}
				c.Desc = map[string]interface{}{"element_message_size": target, "kind": string(kind), "above": above, "file_bytes": len(data),
					"note": "pbfgen.SizedFile: one message of that kind just below / above the size among small elements of every kind, scanned under all 8 skip-flag combinations x procs 1, 2; judged by the Go-side oracle (observed = kept elements of pbfgen.Elements)"}
				c.Len(0).Bool(false).Len(0).Len(1).Len(1).Int(1).Int(0).Len(0)
				w.Add(c)
				w.Count("message-size")
			}
		}
	}
	var descs []*pbfgen.FileDesc
	for i := 0; i < nfiles; i++ {
		opts := pbfgen.Opts{ZeroPct: 10, UnknownMemberPct: 12}
		if i%9 == 7 { // a stream that starts with data (restart at an offset)
			opts.NoHeader, opts.MinBlocks, opts.MaxBlocks = true, 2, 6
			w.Count("headerless")
		}
		switch i % 6 {
		case 3:
			opts.Kinds = "d"
			opts.MaxItems = 8
		case 4:
			opts.Kinds = "wr"
		case 5:
			opts.MinBlocks, opts.MaxBlocks, opts.MaxGroups = 4, 8, 2
		}
		d := pbfgen.RandomFile(rng, opts)
		if err := pbfgen.Validate(d); err != nil {
			fail(fmt.Errorf("generator produced an invalid description: %v", err))
		}
		descs = append(descs, d)
		all := readerSpecs(a.Seed + int64(i))
		if a.Tier == "thorough" {
			extraReaders = all
		} else { // quick: the frame-cut reader always, plus two others in rotation
			extraReaders = []readerSpec{all[6], all[(2*i)%len(all)], all[(2*i+1)%len(all)]}
		}
		filterFor = filterCfgs(i)
		c, err := buildCase(d, pick(i), "random", nil)
		extraReaders, filterFor = nil, nil
		for _, o := range fc0(c) {
			for _, r := range o.Readers {
				if r != "" {
					w.Count("reader:" + r)
				}
			}
		}
		if err != nil {
			fail(err)
		}
		w.Add(c)
		stats(w, d)
	}
	if a.Tier == "thorough" {
		brng := rand.New(rand.NewSource(a.Seed + 2))
		w.Add(bigCase(brng, pbfgen.Opts{MinBlocks: 300, MaxBlocks: 400, MaxGroups: 2, MaxItems: 6}, procsAll, "400-small-blocks"))
		w.Add(bigCase(brng, pbfgen.Opts{MinBlocks: 40, MaxBlocks: 60, MaxGroups: 1, MaxItems: 8000, Kinds: "d", MinElements: 1}, []int{1, 3, 16}, "8k-dense-groups"))
		w.Add(bigCase(brng, pbfgen.Opts{MinBlocks: 120, MaxBlocks: 150, MaxGroups: 3, MaxItems: 400, MaxTags: 6, MaxRefs: 200, MaxMembers: 100}, []int{1, 7}, "mixed-large"))
		w.Add(bigCase(brng, pbfgen.Opts{MinBlocks: 6, MaxBlocks: 8, MaxGroups: 2, MaxItems: 40, MaxTags: 300, MaxRefs: 2100, MaxMembers: 3000, Kinds: "wr", ZeroPct: 10, UnknownMemberPct: 10}, []int{1, 3}, "long-ways-and-relations"))
		w.Add(bigCase(brng, pbfgen.Opts{MinBlocks: 30, MaxBlocks: 40, MaxItems: 50, Kinds: "w", ZeroPct: 10}, []int{1, 2, 7}, "ways-only"))
		w.Add(bigCase(brng, pbfgen.Opts{MinBlocks: 30, MaxBlocks: 40, MaxItems: 50, Kinds: "r", UnknownMemberPct: 20, NoHeader: true}, []int{1, 2, 7}, "relations-only-headerless"))
		w.Count("big-files")
	}
	// canaries, each on the first generated file it applies to
	crng := rand.New(rand.NewSource(a.Seed + 1))
	for _, cn := range canaries {
		done := false
		start := crng.Intn(len(descs))
		for k := 0; k < len(descs) && !done; k++ {
			d := descs[(start+k)%len(descs)]
			applied := false
			c, err := buildCase(d, []int{1, 3}, "canary:"+cn.name, func(fc *fileCase, hdr **osmpbf.Header) {
				applied = cn.f(fc, hdr)
				fc.Note = "CANARY: observation deliberately corrupted: " + cn.name
			})
			if err != nil {
				fail(err)
			}
			if applied {
				c.Canary = 1
				w.Add(c)
				done = true
			}
		}
		if !done {
			w.Notes = append(w.Notes, "canary "+cn.name+" not applicable to any generated file")
		}
	}
	if err := w.Flush(a.Out, "Verif.C01.Check", 12); err != nil {
		fail(err)
	}
}

// goOracle compares observed objects with the format's meaning on the Go side (used for files
// that are too large to ship to Coq: hundreds of blocks, 8000-element dense groups).
func goOracle(d *pbfgen.FileDesc, objs []pbfwire.Obs) string {
	return goOracleWant(pbfgen.Elements(d), objs)
}

func goOracleWant(want []pbfgen.Element, objs []pbfwire.Obs) string {
	if len(want) != len(objs) {
		return fmt.Sprintf("%d objects returned, the file encodes %d", len(objs), len(want))
	}
	kinds := map[string]int{"node": 0, "way": 1, "relation": 2}
	mt := map[string]int64{"node": 0, "way": 1, "relation": 2, "": -1}
	for i := range want {
		e, o := &want[i], &objs[i]
		bad := func(f string) string {
			return fmt.Sprintf("object %d (block %d group %d, %s %d): field %s differs: got %+v", i, e.Block, e.Group, e.Kind, e.ID, f, *o)
		}
		switch {
		case kinds[e.Kind] != o.Kind:
			return bad("kind")
		case e.ID != o.ID:
			return bad("id")
		case !o.Tol:
			return bad("coordinate tolerance")
		case e.Version != o.Version, e.Changeset != o.CS, e.UID != o.UID, e.User != o.User, e.Visible != o.Visible:
			return bad("metadata")
		case e.HasTimestamp != o.HasTS || (e.HasTimestamp && e.TimestampMs*1000000 != o.TSNano):
			return bad("timestamp")
		case len(e.Tags) != len(o.Tags), len(e.Nodes) != len(o.Nodes), len(e.Members) != len(o.Members):
			return bad("lengths")
		}
		if e.Kind == "node" && (e.LatNano != o.Lat || e.LonNano != o.Lon) {
			return bad("coordinates")
		}
		for k := range e.Tags {
			if e.Tags[k].K != o.Tags[k][0] || e.Tags[k].V != o.Tags[k][1] {
				return bad("tags")
			}
		}
		for k := range e.Nodes {
			if e.Nodes[k].ID != o.Nodes[k][0] || e.Nodes[k].LatNano != o.Nodes[k][1] || e.Nodes[k].LonNano != o.Nodes[k][2] {
				return bad("way nodes")
			}
		}
		for k := range e.Members {
			if mt[e.Members[k].Type] != o.Members[k].Type || e.Members[k].Ref != o.Members[k].Ref || e.Members[k].Role != o.Members[k].Role {
				return bad("members")
			}
		}
	}
	return ""
}

// bigCase: a large file judged by the Go-side oracle only; the Coq case is the empty file (so that
// the shard accounting stays uniform) and carries the verdict in OracleFail.
func bigCase(rng *rand.Rand, opts pbfgen.Opts, procs []int, label string) *wire.Case {
	d := pbfgen.RandomFile(rng, opts)
	data, _ := pbfgen.Encode(d)
	c := &wire.Case{Class: "big:" + label}
	nobj := 0
	for _, p := range procs {
		objs, st, es := scan(data, p)
		nobj = len(objs)
		if st != 0 {
			c.OracleFail = fmt.Sprintf("procs=%d: Err() = %s", p, es)
			break
		}
		if msg := goOracle(d, objs); msg != "" {
			c.OracleFail = fmt.Sprintf("procs=%d: %s", p, msg)
			break
		}
	}
	c.Desc = map[string]interface{}{"big_file": label, "opts": opts, "blocks": len(d.Blocks), "bytes": len(data), "objects": nobj, "procs": procs,
		"note": "too large for the Coq transport: judged by the Go-side oracle (observed = pbfgen.Elements, field for field); regenerate with the run's seed"}
	// tokens of the empty file: no pool, no header, no blocks, one observation (procs 1, nil error, no objects)
	c.Len(0).Bool(false).Len(0).Len(1).Len(1).Int(1).Int(0).Len(0)
	c.Trivial = false
	c.Toks = append(c.Toks, []uint64{}...)
	return c
}

// sizeSpec: one data block whose serialized PrimitiveBlock is exactly Raw bytes long (padding: an
// unused string-table entry), between two ordinary blocks; Zlib: compressed (raw_size = Raw).
type sizeSpec struct {
	Raw  int
	Zlib bool
}

func sizeCase(sz sizeSpec) *wire.Case {
	mk := func(pad int) *pbfgen.FileDesc {
		d := &pbfgen.FileDesc{Header: &pbfgen.Header{Required: []string{"OsmSchema-V0.6", "DenseNodes"}}}
		for i := 0; i < 3; i++ {
			b := &pbfgen.Block{Strings: []string{""}}
			b.Zlib = sz.Zlib
			dn := allCols(b, int64(10*i+1), int64(10*i+2), int64(10*i+3))
			w := &pbfgen.Way{ID: int64(i), Refs: []int64{1, 2, 3}, Info: pbfgen.Info{Visible: true}, Tags: []pbfgen.Tag{b.Tag("size", "threshold")}}
			b.Groups = []*pbfgen.Group{{Items: []pbfgen.Item{{Dense: dn}}}, {Items: []pbfgen.Item{{Way: w}}}}
			if i == 1 && pad >= 0 {
				b.Strings = append(b.Strings, string(bytes.Repeat([]byte{'p'}, pad)))
			}
			d.Blocks = append(d.Blocks, b)
		}
		return d
	}
	// find the padding that gives exactly sz.Raw bytes
	size := func(pad int) int { return len(pbfgen.Serialize(pbfgen.BlockTree(mk(pad).Blocks[1]))) }
	pad := sz.Raw - size(0)
	for k := 0; k < 8 && pad >= 0 && size(pad) != sz.Raw; k++ {
		pad -= size(pad) - sz.Raw
	}
	c := &wire.Case{Class: fmt.Sprintf("block-size:%d", sz.Raw)}
	if pad < 0 || size(pad) != sz.Raw {
		c.OracleFail = fmt.Sprintf("harness: cannot build a block of exactly %d bytes", sz.Raw)
	}
	d := mk(pad)
	data, _ := pbfgen.Encode(d)
	nobj := 0
	for _, p := range []int{1, 2} {
		if c.OracleFail != "" {
			break
		}
		objs, st, es := scan(data, p)
		nobj = len(objs)
		if st != 0 {
			c.OracleFail = fmt.Sprintf("procs=%d: Err() = %s", p, es)
		} else if msg := goOracle(d, objs); msg != "" {
			c.OracleFail = fmt.Sprintf("procs=%d: %s", p, msg)
		}
	}
	c.Desc = map[string]interface{}{"block_size_threshold": sz, "padding_string_length": pad, "file_bytes": len(data), "objects": nobj,
		"note": "three blocks, the middle one padded (unused string table entry) to exactly this serialized size; a valid blob may inflate to anything below 32 MiB; judged by the Go-side oracle (observed = pbfgen.Elements); regenerate: the description is a function of these two numbers"}
	c.Len(0).Bool(false).Len(0).Len(1).Len(1).Int(1).Int(0).Len(0)
	return c
}

func fc0(c *wire.Case) []observation {
	if c == nil {
		return nil
	}
	if fc, ok := c.Desc.(*fileCase); ok {
		return fc.Obs
	}
	return nil
}

func stats(w *wire.Writer, d *pbfgen.FileDesc) {
	w.Count(fmt.Sprintf("blocks:%d", len(d.Blocks)))
	for _, b := range d.Blocks {
		if b.Zlib {
			w.Count("blob:zlib")
		} else {
			w.Count("blob:raw")
		}
		if b.Layout.Permute {
			w.Count("layout:permuted")
		}
		if b.Layout.Unknown {
			w.Count("layout:unknown-fields")
		}
		w.Count(fmt.Sprintf("granularity:%d", b.Gran()))
		w.Count(fmt.Sprintf("date_granularity:%d", b.DateGran()))
		for _, g := range b.Groups {
			kinds := map[string]bool{}
			for _, it := range g.Items {
				switch {
				case it.Dense != nil:
					kinds["dense"] = true
					dn := it.Dense
					if !dn.HasInfo {
						w.Count("dense:noinfo")
					} else {
						n := 0
						for _, x := range []bool{dn.Cols.Version, dn.Cols.Timestamp, dn.Cols.Changeset, dn.Cols.UID, dn.Cols.UserSid, dn.Cols.Visible} {
							if x {
								n++
							}
						}
						w.Count(fmt.Sprintf("dense:cols=%d", n))
					}
					if dn.HasKeysVals {
						w.Count("dense:keys_vals")
					}
				case it.Way != nil:
					kinds["way"] = true
					if it.Way.HasLocs {
						w.Count("way:locations")
					}
					if !it.Way.HasInfo {
						w.Count("way:noinfo")
					}
					if len(it.Way.Refs) == 0 {
						w.Count("way:empty")
					}
				case it.Relation != nil:
					kinds["relation"] = true
					if !it.Relation.HasInfo {
						w.Count("relation:noinfo")
					}
					if len(it.Relation.Members) == 0 {
						w.Count("relation:empty")
					}
				}
			}
			switch len(kinds) {
			case 0:
				w.Count("group:empty")
			case 1:
				for k := range kinds {
					w.Count("group:" + k)
				}
			default:
				w.Count("group:mixed")
			}
		}
	}
}
