// c01: correspondence harness for "PBF scan yields exactly the encoded header and
// elements, field for field" (property C01).
//
// Every case is one generated .osm.pbf file: description (pbfgen.FileDesc), the message
// trees obtained by an independent protowire walk over the very bytes fed to the decoder,
// Header() and the object sequence returned by osmpbf.Scanner for several decoder counts.
package main

import (
	"bytes"
	"context"
	"fmt"
	"io"
	"math/rand"
	"os"

	"github.com/paulmach/osm/osmpbf"
	"verif/harness/pbfgen"
	"verif/harness/pbfwire"
	"verif/harness/wire"
)

type observation struct {
	Procs   []int         `json:"procs"`
	Readers []string      `json:"readers,omitempty"` // how the input was delivered for the corresponding entry of procs ("" = bytes.Reader)
	Status  int           `json:"status"`            // 0: Err()==nil, 1: error
	Err     string        `json:"err,omitempty"`
	Objs    []pbfwire.Obs `json:"objects"`
}

// cutReader delivers data in pieces: a Read never crosses the next cut point and returns at most
// max bytes (0 = no limit).  eofWithData: the last piece is returned together with io.EOF
// (like iotest.DataErrReader) instead of (n, nil) followed by (0, io.EOF).
type cutReader struct {
	data        []byte
	pos         int
	cuts        map[int]bool
	max         int
	rng         *rand.Rand // random piece lengths 1..max
	eofWithData bool
}

func (r *cutReader) Read(p []byte) (int, error) {
	if r.pos >= len(r.data) {
		return 0, io.EOF
	}
	n := len(p)
	if r.max > 0 {
		m := r.max
		if r.rng != nil {
			m = 1 + r.rng.Intn(r.max)
		}
		if n > m {
			n = m
		}
	}
	if n > len(r.data)-r.pos {
		n = len(r.data) - r.pos
	}
	for k := 1; k < n; k++ {
		if r.cuts[r.pos+k] {
			n = k
			break
		}
	}
	copy(p, r.data[r.pos:r.pos+n])
	r.pos += n
	if r.eofWithData && r.pos == len(r.data) {
		return n, io.EOF
	}
	return n, nil
}

type readerSpec struct {
	name string
	mk   func(data []byte, frames []pbfgen.Frame) io.Reader
}

// cut points 1, 2 and 3 bytes into every size prefix and in the middle of every header and blob
func frameCuts(frames []pbfgen.Frame) map[int]bool {
	c := map[int]bool{}
	for _, f := range frames {
		if f.Kind == "size" {
			c[f.Off+1], c[f.Off+2], c[f.Off+3] = true, true, true
		} else if f.Len > 1 {
			c[f.Off+f.Len/2] = true
		}
		c[f.Off] = true
	}
	return c
}

func readerSpecs(seed int64) []readerSpec {
	chunk := func(k int, eof bool) readerSpec {
		n := fmt.Sprintf("chunks-of-%d", k)
		if eof {
			n += "+eof-with-data"
		}
		return readerSpec{n, func(d []byte, _ []pbfgen.Frame) io.Reader { return &cutReader{data: d, max: k, eofWithData: eof} }}
	}
	specs := []readerSpec{chunk(1, false), chunk(2, false), chunk(3, true), chunk(5, false), chunk(7, true),
		{"random-chunks", func(d []byte, _ []pbfgen.Frame) io.Reader {
			return &cutReader{data: d, max: 9, rng: rand.New(rand.NewSource(seed))}
		}},
		{"cuts-inside-every-size-prefix-header-blob", func(d []byte, fr []pbfgen.Frame) io.Reader {
			return &cutReader{data: d, cuts: frameCuts(fr)}
		}},
		{"cuts-inside-frames+eof-with-data", func(d []byte, fr []pbfgen.Frame) io.Reader {
			return &cutReader{data: d, cuts: frameCuts(fr), eofWithData: true}
		}},
		{"whole-input+eof-with-data", func(d []byte, _ []pbfgen.Frame) io.Reader { return &cutReader{data: d, eofWithData: true} }},
	}
	return specs
}

func scan(data []byte, procs int) (objs []pbfwire.Obs, status int, errs string) {
	return scanFrom(bytes.NewReader(data), procs)
}

func scanFrom(r io.Reader, procs int) (objs []pbfwire.Obs, status int, errs string) {
	sc := osmpbf.New(context.Background(), r, procs)
	defer sc.Close()
	for sc.Scan() {
		objs = append(objs, pbfwire.Snapshot(sc.Object()))
	}
	if err := sc.Err(); err != nil {
		return objs, 1, err.Error()
	}
	return objs, 0, ""
}

type fileCase struct {
	Desc   *pbfgen.FileDesc `json:"desc"`
	Header interface{}      `json:"header_observed,omitempty"`
	HErr   string           `json:"header_err,omitempty"`
	Obs    []observation    `json:"observations"`
	Note   string           `json:"note,omitempty"`
}

// mutate, when non-nil, corrupts the observations (canaries).
// readers used for the next buildCase calls (nil = bytes.Reader only)
var extraReaders []readerSpec

func buildCase(d *pbfgen.FileDesc, procsList []int, class string, mutate func(fc *fileCase, hdr **osmpbf.Header)) (*wire.Case, error) {
	data, frames := pbfgen.Encode(d)
	payloads, err := pbfwire.Payloads(data, frames)
	if err != nil {
		return nil, err
	}
	fc := &fileCase{Desc: d}
	// Header()
	var hdr *osmpbf.Header
	var herr error
	{
		sc := osmpbf.New(context.Background(), bytes.NewReader(data), 1)
		hdr, herr = sc.Header()
		sc.Close()
	}
	// scans: the whole input from a bytes.Reader for every decoder count, then the same bytes through
	// readers that deliver them in pieces (the result must not depend on how the reader delivers them)
	record := func(p int, reader string, objs []pbfwire.Obs, st int, es string) {
		for i := range fc.Obs {
			o := &fc.Obs[i]
			if o.Status == st && pbfwire.EqualObs(o.Objs, objs) {
				o.Procs = append(o.Procs, p)
				o.Readers = append(o.Readers, reader)
				return
			}
		}
		fc.Obs = append(fc.Obs, observation{Procs: []int{p}, Readers: []string{reader}, Status: st, Err: es, Objs: objs})
	}
	for _, p := range procsList {
		objs, st, es := scan(data, p)
		record(p, "", objs, st, es)
	}
	for k, rs := range extraReaders {
		p := procsList[k%len(procsList)]
		objs, st, es := scanFrom(rs.mk(data, frames), p)
		record(p, rs.name, objs, st, es)
	}
	if mutate != nil {
		mutate(fc, &hdr)
	}
	if hdr != nil {
		fc.Header = hdr
	}
	if herr != nil {
		fc.HErr = herr.Error()
	}

	c := &wire.Case{Class: class, Desc: fc}
	pool := pbfwire.NewPool()
	for i := range fc.Obs {
		for j := range fc.Obs[i].Objs {
			fc.Obs[i].Objs[j].Intern(pool)
		}
	}
	pool.Put(c)
	pi := 0
	c.Bool(d.Header != nil)
	if d.Header != nil {
		pbfwire.PutHeaderDesc(c, d.Header)
		tr, err := pbfgen.Parse(payloads[0], pbfgen.HeaderSchema)
		if err != nil {
			return nil, err
		}
		if err := pbfwire.PutTree(c, tr); err != nil {
			return nil, err
		}
		if herr != nil {
			c.Int(1).Bool(false)
		} else {
			c.Int(0).Bool(hdr != nil)
			if hdr != nil {
				pbfwire.PutHeaderObs(c, hdr)
			}
		}
		pi = 1
	}
	c.Len(len(d.Blocks))
	for i, b := range d.Blocks {
		if err := pbfwire.PutBlockDesc(c, b); err != nil {
			return nil, err
		}
		tr, err := pbfgen.Parse(payloads[pi+i], pbfgen.BlockSchema)
		if err != nil {
			return nil, err
		}
		if err := pbfwire.PutTree(c, tr); err != nil {
			return nil, err
		}
	}
	c.Len(len(fc.Obs))
	for i := range fc.Obs {
		o := &fc.Obs[i]
		c.Len(len(o.Procs))
		for _, p := range o.Procs {
			c.Int(int64(p))
		}
		c.Int(int64(o.Status)).Len(len(o.Objs))
		for j := range o.Objs {
			o.Objs[j].Put(c, pool)
		}
	}
	if len(pbfgen.Elements(d)) == 0 {
		c.Trivial = true
	}
	return c, nil
}

// ---------- fixed corpus: the stale-state shapes the property text names ----------

func allCols(b *pbfgen.Block, ids ...int64) *pbfgen.Dense {
	d := &pbfgen.Dense{HasInfo: true, Cols: pbfgen.AllInfo, HasKeysVals: true}
	for i, id := range ids {
		d.Nodes = append(d.Nodes, pbfgen.DenseNode{ID: id, Lat: 100 + int64(i), Lon: -200 - int64(i),
			Info: pbfgen.Info{Version: 3, Timestamp: 1400000000 + int64(i), Changeset: 77, UID: 5, UserSid: b.Sid("alice"), Visible: i%2 == 0},
			Tags: []pbfgen.Tag{b.Tag("k", "v"), b.Tag("", "empty key")}})
	}
	return d
}

func bare(ids ...int64) *pbfgen.Dense {
	d := &pbfgen.Dense{}
	for i, id := range ids {
		d.Nodes = append(d.Nodes, pbfgen.DenseNode{ID: id, Lat: int64(i), Lon: int64(i), Info: pbfgen.Info{Visible: true}})
	}
	return d
}

func corpus() []*pbfgen.FileDesc {
	var out []*pbfgen.FileDesc
	mk := func(f func(i int, b *pbfgen.Block) []pbfgen.Item, n int) *pbfgen.FileDesc {
		d := &pbfgen.FileDesc{Header: &pbfgen.Header{Required: []string{"OsmSchema-V0.6", "DenseNodes"}}}
		for i := 0; i < n; i++ {
			b := &pbfgen.Block{Strings: []string{""}}
			b.Zlib = i%2 == 1
			items := f(i, b)
			b.Groups = []*pbfgen.Group{{Items: items}}
			d.Blocks = append(d.Blocks, b)
		}
		return d
	}
	// 1. every dense column, then none of them (same decoder with procs=1), then again, with parameters changing
	out = append(out, mk(func(i int, b *pbfgen.Block) []pbfgen.Item {
		if i%2 == 0 {
			b.Granularity, b.LatOffset, b.LonOffset, b.DateGranularity = pbfgen.I32(1000), pbfgen.I64(5), pbfgen.I64(-7), pbfgen.I32(1)
			return []pbfgen.Item{{Dense: allCols(b, 10, 11, 12)}}
		}
		return []pbfgen.Item{{Dense: bare(20, 21, 22, 23)}}
	}, 4))
	// 2. each single info column alone, one block after the other
	out = append(out, mk(func(i int, b *pbfgen.Block) []pbfgen.Item {
		d := allCols(b, int64(100+i), int64(200+i))
		d.HasKeysVals = i%2 == 0
		if !d.HasKeysVals {
			for k := range d.Nodes {
				d.Nodes[k].Tags = nil
			}
		}
		d.Cols = pbfgen.InfoFields{Version: i == 0, Timestamp: i == 1, Changeset: i == 2, UID: i == 3, UserSid: i == 4, Visible: i == 5}
		return []pbfgen.Item{{Dense: d}}
	}, 7))
	// 3. ways and relations: full Info, then no Info, then partial, with and without tags/refs/members/locations
	out = append(out, mk(func(i int, b *pbfgen.Block) []pbfgen.Item {
		full := pbfgen.Info{Version: 9, Timestamp: 1500000000, Changeset: 123456, UID: 42, UserSid: b.Sid("bob"), Visible: false}
		w1 := &pbfgen.Way{ID: 1, HasInfo: true, Fields: pbfgen.AllInfo, Info: full, Tags: []pbfgen.Tag{b.Tag("highway", "x")},
			Refs: []int64{5, 3, 9}, HasLocs: true, Lats: []int64{1, 2, 3}, Lons: []int64{-1, -2, -3}}
		w2 := &pbfgen.Way{ID: 2, Info: pbfgen.Info{Visible: true}}
		w3 := &pbfgen.Way{ID: 3, HasInfo: true, Fields: pbfgen.InfoFields{Changeset: true}, Info: full, Refs: []int64{7}}
		r1 := &pbfgen.Relation{ID: 1, HasInfo: true, Fields: pbfgen.AllInfo, Info: full, Tags: []pbfgen.Tag{b.Tag("type", "route")},
			Members: []pbfgen.Member{{Type: 1, Ref: 5, RoleSid: int32(b.Sid("outer"))}, {Type: 0, Ref: -3, RoleSid: 0}, {Type: 2, Ref: 8, RoleSid: int32(b.Sid("inner"))}}}
		r2 := &pbfgen.Relation{ID: 2, Info: pbfgen.Info{Visible: true}}
		r3 := &pbfgen.Relation{ID: 3, HasInfo: true, Fields: pbfgen.InfoFields{Visible: true, UserSid: true}, Info: full, ForceMembers: true, ForceTags: true}
		if i%2 == 0 {
			return []pbfgen.Item{{Way: w1}, {Way: w2}, {Way: w3}, {Relation: r1}, {Relation: r2}, {Relation: r3}}
		}
		return []pbfgen.Item{{Relation: r2}, {Relation: r1}, {Way: w2}, {Way: w1}, {Dense: bare(1)}, {Way: w3}}
	}, 3))
	// 4. empty file, empty blocks, empty groups, empty dense
	e := &pbfgen.FileDesc{Header: &pbfgen.Header{}}
	e.Blocks = append(e.Blocks, &pbfgen.Block{OmitStringTable: true}, &pbfgen.Block{Strings: []string{""}, Groups: []*pbfgen.Group{{}, {Items: []pbfgen.Item{{Dense: &pbfgen.Dense{}}}}}})
	out = append(out, e, &pbfgen.FileDesc{Header: &pbfgen.Header{HasBBox: true, Left: -1, Right: 1, Top: 2, Bottom: -2}})
	// 6..: see fixedCorpus (raw trees with an unknown fixed32/fixed64 field ending a message)
	// 6. unknown fixed64/fixed32 fields ending every message of every block (canonical and permuted)
	for _, perm := range []bool{false, true} {
		fx := *out[2]
		fx.Blocks = nil
		for i, b := range out[2].Blocks {
			nb := *b
			nb.Layout = pbfgen.Layout{FixedLast: true, Permute: perm, Seed: int64(i)}
			fx.Blocks = append(fx.Blocks, &nb)
		}
		fd := *out[0]
		fd.Blocks = nil
		for i, b := range out[0].Blocks {
			nb := *b
			nb.Layout = pbfgen.Layout{FixedLast: true, Permute: perm, Seed: int64(i)}
			fd.Blocks = append(fd.Blocks, &nb)
		}
		out = append(out, &fx, &fd)
	}
	// 5. a file that starts directly with data (no header block), as after a resume
	nh := *out[0]
	nh.Header = nil
	out = append(out, &nh)
	return out
}

// ---------- canaries: one deliberately corrupted observation per observable class ----------

type canary struct {
	name string
	f    func(fc *fileCase, hdr **osmpbf.Header) bool // false = not applicable to this file
}

func firstObj(fc *fileCase, kind int) *pbfwire.Obs {
	for i := range fc.Obs {
		for j := range fc.Obs[i].Objs {
			if o := &fc.Obs[i].Objs[j]; kind < 0 || o.Kind == kind {
				return o
			}
		}
	}
	return nil
}

var canaries = []canary{
	{"id+1", func(fc *fileCase, _ **osmpbf.Header) bool {
		o := firstObj(fc, -1)
		if o == nil {
			return false
		}
		o.ID++
		return true
	}},
	{"lat+1nano", func(fc *fileCase, _ **osmpbf.Header) bool {
		o := firstObj(fc, 0)
		if o == nil {
			return false
		}
		o.Lat++
		return true
	}},
	{"tolerance", func(fc *fileCase, _ **osmpbf.Header) bool {
		o := firstObj(fc, 0)
		if o == nil {
			return false
		}
		o.Tol = false
		return true
	}},
	{"visible", func(fc *fileCase, _ **osmpbf.Header) bool {
		o := firstObj(fc, -1)
		if o == nil {
			return false
		}
		o.Visible = !o.Visible
		return true
	}},
	{"timestamp", func(fc *fileCase, _ **osmpbf.Header) bool {
		o := firstObj(fc, -1)
		if o == nil {
			return false
		}
		if o.HasTS {
			o.TSNano += 1000000
		} else {
			o.HasTS = true
		}
		return true
	}},
	{"user", func(fc *fileCase, _ **osmpbf.Header) bool {
		o := firstObj(fc, -1)
		if o == nil {
			return false
		}
		o.User += "x"
		return true
	}},
	{"meta", func(fc *fileCase, _ **osmpbf.Header) bool {
		o := firstObj(fc, -1)
		if o == nil {
			return false
		}
		o.Version, o.CS, o.UID = o.Version+1, o.CS+1, o.UID+1
		return true
	}},
	{"tag-added", func(fc *fileCase, _ **osmpbf.Header) bool {
		o := firstObj(fc, -1)
		if o == nil {
			return false
		}
		o.Tags = append(o.Tags, [2]string{"stale", "tag"})
		return true
	}},
	{"waynode", func(fc *fileCase, _ **osmpbf.Header) bool {
		o := firstObj(fc, 1)
		if o == nil {
			return false
		}
		if len(o.Nodes) == 0 {
			o.Nodes = append(o.Nodes, [3]int64{1, 0, 0})
		} else {
			o.Nodes[len(o.Nodes)-1][2]++
		}
		return true
	}},
	{"member", func(fc *fileCase, _ **osmpbf.Header) bool {
		o := firstObj(fc, 2)
		if o == nil {
			return false
		}
		if len(o.Members) == 0 {
			o.Members = append(o.Members, pbfwire.ObsMember{Type: 0, Ref: 1})
		} else {
			o.Members[0].Type = (o.Members[0].Type + 1) % 3
		}
		return true
	}},
	{"dropped-object", func(fc *fileCase, _ **osmpbf.Header) bool {
		for i := range fc.Obs {
			if n := len(fc.Obs[i].Objs); n > 0 {
				fc.Obs[i].Objs = fc.Obs[i].Objs[:n-1]
				return true
			}
		}
		return false
	}},
	{"swapped-objects", func(fc *fileCase, _ **osmpbf.Header) bool {
		for i := range fc.Obs {
			o := fc.Obs[i].Objs
			for j := 0; j+1 < len(o); j++ {
				if !o[j].Equal(&o[j+1]) {
					o[j], o[j+1] = o[j+1], o[j]
					return true
				}
			}
		}
		return false
	}},
	{"error-status", func(fc *fileCase, _ **osmpbf.Header) bool {
		fc.Obs[0].Status = 1
		return true
	}},
	{"header-program", func(fc *fileCase, hdr **osmpbf.Header) bool {
		if *hdr == nil {
			return false
		}
		h := **hdr
		h.WritingProgram += "!"
		*hdr = &h
		return true
	}},
	{"header-bounds", func(fc *fileCase, hdr **osmpbf.Header) bool {
		if *hdr == nil || (*hdr).Bounds == nil {
			return false
		}
		h := **hdr
		b := *h.Bounds
		b.MaxLat += 1e-8
		h.Bounds = &b
		*hdr = &h
		return true
	}},
	{"header-seq", func(fc *fileCase, hdr **osmpbf.Header) bool {
		if *hdr == nil {
			return false
		}
		h := **hdr
		h.ReplicationSeqNum++
		*hdr = &h
		return true
	}},
}

var procsAll = []int{1, 2, 3, 7, 16}

func main() {
	a := wire.ParseArgs()
	w := wire.NewWriter("C01", a.Seed, a.Tier)
	w.Rule = "one case per generated PBF file (pbfgen.RandomFile: 1-5 blocks, 0-3 groups, dense/way/relation/mixed groups, every subset of optional columns and Info fields varying block to block, granularity/offsets/date granularity, raw+zlib, permuted layouts, unknown fields, header field subsets) scanned with 3-5 decoder counts from {1,2,3,7,16} from a bytes.Reader and again through readers that deliver the same bytes in pieces (chunks of 1/2/3/5/7/random bytes, cut points 1-3 bytes into every size prefix and inside every blob header and blob, EOF returned with or after the last data); non-trivial = the file encodes at least one element; distinct = distinct token streams"
	rng := wire.Rng(a.Seed)
	nfiles := int(90 * a.Scale)
	nprocs := 3
	if a.Tier == "thorough" {
		nfiles = int(1500 * a.Scale)
		nprocs = 5
	}
	fail := func(err error) {
		fmt.Fprintln(os.Stderr, "c01:", err)
		os.Exit(3)
	}
	pick := func(i int) []int {
		if nprocs >= len(procsAll) {
			return procsAll
		}
		out := []int{1}
		for k := 0; len(out) < nprocs; k++ {
			out = append(out, procsAll[1+(i+k)%(len(procsAll)-1)])
		}
		return out
	}
	// corpus first
	for i, d := range corpus() {
		if err := pbfgen.Validate(d); err != nil {
			fail(fmt.Errorf("corpus %d invalid: %v", i, err))
		}
		extraReaders = readerSpecs(a.Seed)
		c, err := buildCase(d, procsAll, "corpus", nil)
		extraReaders = nil
		if err != nil {
			fail(err)
		}
		w.Add(c)
	}
	var descs []*pbfgen.FileDesc
	for i := 0; i < nfiles; i++ {
		opts := pbfgen.Opts{}
		switch i % 6 {
		case 3:
			opts.Kinds = "d"
			opts.MaxItems = 8
		case 4:
			opts.Kinds = "wr"
		case 5:
			opts.MinBlocks, opts.MaxBlocks, opts.MaxGroups = 4, 8, 2
		}
		d := pbfgen.RandomFile(rng, opts)
		if err := pbfgen.Validate(d); err != nil {
			fail(fmt.Errorf("generator produced an invalid description: %v", err))
		}
		descs = append(descs, d)
		all := readerSpecs(a.Seed + int64(i))
		if a.Tier == "thorough" {
			extraReaders = all
		} else { // quick: the frame-cut reader always, plus two others in rotation
			extraReaders = []readerSpec{all[6], all[(2*i)%len(all)], all[(2*i+1)%len(all)]}
		}
		c, err := buildCase(d, pick(i), "random", nil)
		extraReaders = nil
		for _, o := range fc0(c) {
			for _, r := range o.Readers {
				if r != "" {
					w.Count("reader:" + r)
				}
			}
		}
		if err != nil {
			fail(err)
		}
		w.Add(c)
		stats(w, d)
	}
	if a.Tier == "thorough" {
		brng := rand.New(rand.NewSource(a.Seed + 2))
		w.Add(bigCase(brng, pbfgen.Opts{MinBlocks: 300, MaxBlocks: 400, MaxGroups: 2, MaxItems: 6}, procsAll, "400-small-blocks"))
		w.Add(bigCase(brng, pbfgen.Opts{MinBlocks: 40, MaxBlocks: 60, MaxGroups: 1, MaxItems: 8000, Kinds: "d", MinElements: 1}, []int{1, 3, 16}, "8k-dense-groups"))
		w.Add(bigCase(brng, pbfgen.Opts{MinBlocks: 120, MaxBlocks: 150, MaxGroups: 3, MaxItems: 400, MaxTags: 6, MaxRefs: 200, MaxMembers: 100}, []int{1, 7}, "mixed-large"))
		w.Count("big-files")
	}
	// canaries, each on the first generated file it applies to
	crng := rand.New(rand.NewSource(a.Seed + 1))
	for _, cn := range canaries {
		done := false
		start := crng.Intn(len(descs))
		for k := 0; k < len(descs) && !done; k++ {
			d := descs[(start+k)%len(descs)]
			applied := false
			c, err := buildCase(d, []int{1, 3}, "canary:"+cn.name, func(fc *fileCase, hdr **osmpbf.Header) {
				applied = cn.f(fc, hdr)
				fc.Note = "CANARY: observation deliberately corrupted: " + cn.name
			})
			if err != nil {
				fail(err)
			}
			if applied {
				c.Canary = 1
				w.Add(c)
				done = true
			}
		}
		if !done {
			w.Notes = append(w.Notes, "canary "+cn.name+" not applicable to any generated file")
		}
	}
	if err := w.Flush(a.Out, "Verif.C01.Check", 12); err != nil {
		fail(err)
	}
}

// goOracle compares observed objects with the format's meaning on the Go side (used for files
// that are too large to ship to Coq: hundreds of blocks, 8000-element dense groups).
func goOracle(d *pbfgen.FileDesc, objs []pbfwire.Obs) string {
	want := pbfgen.Elements(d)
	if len(want) != len(objs) {
		return fmt.Sprintf("%d objects returned, the file encodes %d", len(objs), len(want))
	}
	kinds := map[string]int{"node": 0, "way": 1, "relation": 2}
	mt := map[string]int64{"node": 0, "way": 1, "relation": 2, "": -1}
	for i := range want {
		e, o := &want[i], &objs[i]
		bad := func(f string) string {
			return fmt.Sprintf("object %d (block %d group %d, %s %d): field %s differs: got %+v", i, e.Block, e.Group, e.Kind, e.ID, f, *o)
		}
		switch {
		case kinds[e.Kind] != o.Kind:
			return bad("kind")
		case e.ID != o.ID:
			return bad("id")
		case !o.Tol:
			return bad("coordinate tolerance")
		case e.Version != o.Version, e.Changeset != o.CS, e.UID != o.UID, e.User != o.User, e.Visible != o.Visible:
			return bad("metadata")
		case e.HasTimestamp != o.HasTS || (e.HasTimestamp && e.TimestampMs*1000000 != o.TSNano):
			return bad("timestamp")
		case len(e.Tags) != len(o.Tags), len(e.Nodes) != len(o.Nodes), len(e.Members) != len(o.Members):
			return bad("lengths")
		}
		if e.Kind == "node" && (e.LatNano != o.Lat || e.LonNano != o.Lon) {
			return bad("coordinates")
		}
		for k := range e.Tags {
			if e.Tags[k].K != o.Tags[k][0] || e.Tags[k].V != o.Tags[k][1] {
				return bad("tags")
			}
		}
		for k := range e.Nodes {
			if e.Nodes[k].ID != o.Nodes[k][0] || e.Nodes[k].LatNano != o.Nodes[k][1] || e.Nodes[k].LonNano != o.Nodes[k][2] {
				return bad("way nodes")
			}
		}
		for k := range e.Members {
			if mt[e.Members[k].Type] != o.Members[k].Type || e.Members[k].Ref != o.Members[k].Ref || e.Members[k].Role != o.Members[k].Role {
				return bad("members")
			}
		}
	}
	return ""
}

// bigCase: a large file judged by the Go-side oracle only; the Coq case is the empty file (so that
// the shard accounting stays uniform) and carries the verdict in OracleFail.
func bigCase(rng *rand.Rand, opts pbfgen.Opts, procs []int, label string) *wire.Case {
	d := pbfgen.RandomFile(rng, opts)
	data, _ := pbfgen.Encode(d)
	c := &wire.Case{Class: "big:" + label}
	nobj := 0
	for _, p := range procs {
		objs, st, es := scan(data, p)
		nobj = len(objs)
		if st != 0 {
			c.OracleFail = fmt.Sprintf("procs=%d: Err() = %s", p, es)
			break
		}
		if msg := goOracle(d, objs); msg != "" {
			c.OracleFail = fmt.Sprintf("procs=%d: %s", p, msg)
			break
		}
	}
	c.Desc = map[string]interface{}{"big_file": label, "opts": opts, "blocks": len(d.Blocks), "bytes": len(data), "objects": nobj, "procs": procs,
		"note": "too large for the Coq transport: judged by the Go-side oracle (observed = pbfgen.Elements, field for field); regenerate with the run's seed"}
	// tokens of the empty file: no pool, no header, no blocks, one observation (procs 1, nil error, no objects)
	c.Len(0).Bool(false).Len(0).Len(1).Len(1).Int(1).Int(0).Len(0)
	c.Trivial = false
	c.Toks = append(c.Toks, []uint64{}...)
	return c
}

func fc0(c *wire.Case) []observation {
	if c == nil {
		return nil
	}
	if fc, ok := c.Desc.(*fileCase); ok {
		return fc.Obs
	}
	return nil
}

func stats(w *wire.Writer, d *pbfgen.FileDesc) {
	w.Count(fmt.Sprintf("blocks:%d", len(d.Blocks)))
	for _, b := range d.Blocks {
		if b.Zlib {
			w.Count("blob:zlib")
		} else {
			w.Count("blob:raw")
		}
		if b.Layout.Permute {
			w.Count("layout:permuted")
		}
		if b.Layout.Unknown {
			w.Count("layout:unknown-fields")
		}
		w.Count(fmt.Sprintf("granularity:%d", b.Gran()))
		w.Count(fmt.Sprintf("date_granularity:%d", b.DateGran()))
		for _, g := range b.Groups {
			kinds := map[string]bool{}
			for _, it := range g.Items {
				switch {
				case it.Dense != nil:
					kinds["dense"] = true
					dn := it.Dense
					if !dn.HasInfo {
						w.Count("dense:noinfo")
					} else {
						n := 0
						for _, x := range []bool{dn.Cols.Version, dn.Cols.Timestamp, dn.Cols.Changeset, dn.Cols.UID, dn.Cols.UserSid, dn.Cols.Visible} {
							if x {
								n++
							}
						}
						w.Count(fmt.Sprintf("dense:cols=%d", n))
					}
					if dn.HasKeysVals {
						w.Count("dense:keys_vals")
					}
				case it.Way != nil:
					kinds["way"] = true
					if it.Way.HasLocs {
						w.Count("way:locations")
					}
					if !it.Way.HasInfo {
						w.Count("way:noinfo")
					}
					if len(it.Way.Refs) == 0 {
						w.Count("way:empty")
					}
				case it.Relation != nil:
					kinds["relation"] = true
					if !it.Relation.HasInfo {
						w.Count("relation:noinfo")
					}
					if len(it.Relation.Members) == 0 {
						w.Count("relation:empty")
					}
				}
			}
			switch len(kinds) {
			case 0:
				w.Count("group:empty")
			case 1:
				for k := range kinds {
					w.Count("group:" + k)
				}
			default:
				w.Count("group:mixed")
			}
		}
	}
}
